/-
  Helper lemmas about the character-level scanner `TextLayout.seg` (C13, Colang 2.x).  Property theorems are in Theorems/C13.lean.
-/
import NemoVerif.Models.TextLayout
import NemoVerif.Lemmas.Layout
import NemoVerif.Lemmas.NumberedLines
import NemoVerif.Lemmas.PreExpand
namespace NemoVerif.TextLayout
open NemoVerif.Layout
open NemoVerif.NumberedLines (strip lstrip rstrip isPyWs startsWith endsWith q3)

/-- glue: result of a prefix scan followed by the scan of the rest -/
def glue (o : Oracle) (s : Str) : Except Err (List Piece × Bool × Nat) → Except Err (List Piece)
  | .error e => .error e
  | .ok (P, b, k) => (seg o b k s).map (P ++ ·)

theorem map_map_cons {ε α : Type} (x : Except ε (List α)) (a : α) (P : List α) :
    (x.map (P ++ ·)).map (a :: ·) = x.map ((a :: P) ++ ·) := by
  cases x <;> rfl

theorem glue_map (o : Oracle) (s : Str) (a : Piece) (x : Except Err (List Piece × Bool × Nat)) :
    glue o s (x.map fun p => (a :: p.1, p.2)) = (glue o s x).map (a :: ·) := by
  cases x with
  | error e => rfl
  | ok p =>
    obtain ⟨P, b, k⟩ := p
    simp only [glue, Except.map]
    cases seg o b k s <;> rfl

theorem seg_append (o : Oracle) (a s : Str) : ∀ (b : Bool) (k : Nat),
    seg o b k (a ++ s) = glue o s (segPre o b k a s) := by
  induction a with
  | nil =>
    intro b k
    simp only [List.nil_append, segPre, glue]
    cases seg o b k s <;> simp [Except.map]
  | cons c r ih =>
    intro b k
    cases k with
    | succ k => simp only [List.cons_append, seg, segPre, ih]
    | zero =>
      simp only [List.cons_append, seg, segPre]
      split
      · rw [ih, glue_map]
      · split
        · rw [ih, glue_map]
        · split
          · rw [ih, glue_map]
          · split
            · rw [ih, glue_map]
            · split
              · split
                · rfl
                · rw [ih, glue_map]
              · split
                · rw [ih, glue_map]
                · split
                  · rw [ih, glue_map]
                  · split
                    · rw [ih, glue_map]
                    · split
                      · rw [ih, glue_map]
                      · split
                        · rw [ih, glue_map]
                        · rfl

/-- inside an open run, blanks are part of the run -/
theorem seg_run_ws (o : Oracle) (ws : List Ws) (s : Str) :
    seg o true 0 (wsChars ws ++ s) = (seg o true 0 s).map (wsPieces ws ++ ·) := by
  induction ws with
  | nil => cases h : seg o true 0 s <;> simp [wsChars, wsPieces, Except.map, h]
  | cons w r ih =>
    cases w
    · simp only [wsChars, List.map_cons, List.cons_append, wsChar, seg] at ih ⊢
      simp only [Bool.true_and, beq_self_eq_true, if_true, ih]
      cases seg o true 0 s <;> simp [wsPieces, Except.map]
    · simp only [wsChars, List.map_cons, List.cons_append, wsChar, seg] at ih ⊢
      simp only [Bool.true_and, ih]
      cases seg o true 0 s <;> simp [wsPieces, Except.map]

/-- inside an open run, a further line break is part of the run (no oracle) -/
theorem seg_run_eol (o : Oracle) (cr : Bool) (s : Str) :
    seg o true 0 (eol cr ++ s) = (seg o true 0 s).map (.nl cr :: ·) := by
  cases cr
  · simp [eol, seg]
  · simp [eol, seg]

/-- at a token start, a line break that no body terminal claims opens a run -/
theorem seg_start_eol (o : Oracle) (cr : Bool) (s : Str) (h : o (eol cr ++ s) = none) :
    seg o false 0 (eol cr ++ s) = (seg o true 0 s).map (.nl cr :: ·) := by
  cases cr
  · simp only [eol, if_false, Bool.false_eq_true, List.cons_append, List.nil_append] at h
    simp [eol, seg, h]
  · simp only [eol, if_true, List.cons_append, List.nil_append] at h
    simp [eol, seg, h]

/-- no body terminal begins with a blank -/
def NoBlankStart (o : Oracle) : Prop := ∀ (w : Ws) (t : Str), o (wsChar w :: t) = none
/-- no body terminal begins with `#` -/
def NoHashStart (o : Oracle) : Prop := ∀ t : Str, o ('#' :: t) = none

/-- at a token start, blanks are separate pieces -/
theorem seg_start_ws (o : Oracle) (hb : NoBlankStart o) (ws : List Ws) (s : Str) :
    seg o false 0 (wsChars ws ++ s) = (seg o false 0 s).map (wsPieces ws ++ ·) := by
  induction ws with
  | nil => cases h : seg o false 0 s <;> simp [wsChars, wsPieces, Except.map, h]
  | cons w r ih =>
    have hw := hb w (wsChars r ++ s)
    cases w
    · simp only [wsChars, List.map_cons, List.cons_append, wsChar] at ih hw ⊢
      simp only [seg, hw, ih]
      cases seg o false 0 s <;> simp [wsPieces, Except.map]
    · simp only [wsChars, List.map_cons, List.cons_append, wsChar] at ih hw ⊢
      simp only [seg, hw, ih]
      cases seg o false 0 s <;> simp [wsPieces, Except.map]

/-- passing over the rest of a token -/
theorem seg_skip (o : Oracle) (b : Bool) (a s : Str) : seg o b a.length (a ++ s) = seg o b 0 s := by
  induction a with
  | nil => rfl
  | cons c r ih => simp only [List.length_cons, List.cons_append, seg, ih]

theorem commentText_eq (cmt s : Str) (hc : ∀ ch ∈ cmt, ch ≠ '\n') :
    commentText ('#' :: cmt ++ '\n' :: s) = '#' :: cmt := by
  unfold commentText
  simp only [List.cons_append]
  rw [List.takeWhile_cons_of_pos (by decide)]
  congr 1
  induction cmt with
  | nil => simp
  | cons ch r ih =>
    have h1 : ch ≠ '\n' := hc ch (by simp)
    rw [List.cons_append, List.takeWhile_cons_of_pos (by simpa using h1), ih (fun x hx => hc x (by simp [hx]))]

/-- at a token start, `#…` up to the line break is one comment piece -/
theorem seg_start_comment (o : Oracle) (hh : NoHashStart o) (cmt s : Str) (hc : ∀ ch ∈ cmt, ch ≠ '\n') :
    seg o false 0 ('#' :: cmt ++ '\n' :: s) =
      (seg o false 0 ('\n' :: s)).map (.comment (String.ofList ('#' :: cmt)) :: ·) := by
  have h := hh (cmt ++ '\n' :: s)
  have hct := commentText_eq cmt s hc
  have hsk := seg_skip o false cmt ('\n' :: s)
  simp only [List.cons_append] at hct
  generalize hX : seg o false 0 ('\n' :: s) = X at hsk ⊢
  simp only [List.cons_append]
  unfold seg
  simp [h, hct, hsk]

/-- the CR flag of a line-break piece is invisible to lexer + indenter -/
theorem layout_nl_flag (c : Cfg) (pre post : List Piece) (a b : Bool) :
    layout c (pre ++ .nl a :: post) = layout c (pre ++ .nl b :: post) := by
  unfold layout
  apply go_congr
  intro rs st
  simp only [go]

/-! ### lines ↔ text -/

theorem joinNL_nl : ∀ (ls : List Str), ls ≠ [] → joinNL ls ++ ['\n'] = unlines ls
  | [], h => absurd rfl h
  | [l], _ => by simp [joinNL, unlines]
  | l :: m :: ls, _ => by
    have := joinNL_nl (m :: ls) (by simp)
    simp only [joinNL, unlines, List.append_assoc, List.cons_append] at this ⊢
    rw [this]

theorem unlines_append (a b : List Str) : unlines (a ++ b) = unlines a ++ unlines b := by
  induction a with
  | nil => rfl
  | cons l ls ih => simp [unlines, ih]

theorem crChars_nl (cr : Bool) : crChars cr ++ ['\n'] = eol cr := by cases cr <;> rfl

theorem strip_blank_line (blank : List Ws) (cr : Bool) : strip (wsChars blank ++ crChars cr) = [] := by
  have h : ∀ ch ∈ wsChars blank ++ crChars cr, isPyWs ch = true := by
    intro ch hch
    rcases List.mem_append.1 hch with h1 | h2
    · simp only [wsChars, List.mem_map] at h1
      obtain ⟨w, _, rfl⟩ := h1
      cases w <;> decide
    · cases cr
      · simp [crChars] at h2
      · simp [crChars] at h2; subst h2; decide
  unfold strip
  rw [(NumberedLines.lstrip_nil_iff _).2 h]
  rfl

theorem ws_line_allws (trail : List Ws) (cr : Bool) : ∀ ch ∈ wsChars trail ++ crChars cr, isPyWs ch = true := by
  intro ch hch
  rcases List.mem_append.1 hch with h1 | h2
  · simp only [wsChars, List.mem_map] at h1
    obtain ⟨w, _, rfl⟩ := h1
    cases w <;> decide
  · cases cr
    · simp [crChars] at h2
    · simp [crChars] at h2; subst h2; decide

theorem unlines_appendLast (ws : Str) (X0 : List Str) (xl : Str) :
    unlines (PreExpand.appendLast ws (X0 ++ [xl])) = unlines X0 ++ (xl ++ (ws ++ ['\n'])) := by
  rw [PreExpand.appendLast_append, unlines_append]
  simp [unlines]

/-! ### uniform scaling of the indentation at the character level -/

/-- a stretch without line breaks that does not start inside an indentation run is copied -/
theorem scaleText_noNL (k : Nat) : ∀ (a s : Str), (∀ ch ∈ a, ch ≠ '\n') →
    scaleText k false (a ++ s) = a ++ scaleText k false s := by
  intro a
  induction a with
  | nil => intro s _; rfl
  | cons c r ih =>
    intro s h
    have hc : c ≠ '\n' := h c (by simp)
    simp only [List.cons_append, scaleText, hc, if_false, Bool.false_and, Bool.false_eq_true]
    rw [ih s (fun ch hch => h ch (by simp [hch]))]

theorem seg_skip' (o : Oracle) (b : Bool) (n : Nat) (s : Str) (h : n ≤ s.length) :
    seg o b n s = seg o b 0 (s.drop n) := by
  have := seg_skip o b (s.take n) (s.drop n)
  rw [List.take_append_drop, List.length_take, Nat.min_eq_left h] at this
  exact this

/-- what is assumed of the two tokenizers along `text`: at every suffix the tokenizer of the scaled text decides like the tokenizer of the
    original text, and a body token neither contains a line break nor runs past the end of the text -/
def ScaleOK (k : Nat) (o o' : Oracle) (text : Str) : Prop :=
  ∀ p q, text = p ++ q →
    o' (scaleText k false q) = o q ∧
    ∀ ty n, o q = some (ty, n) → n ≤ q.length ∧ ∀ ch ∈ q.take n, ch ≠ '\n'

theorem ScaleOK.suffix {k : Nat} {o o' : Oracle} {text : Str} (h : ScaleOK k o o' text) (a s : Str) (hs : text = a ++ s) :
    ScaleOK k o o' s := by
  intro p q hq
  exact h (a ++ p) q (by rw [hs, hq, List.append_assoc])

theorem map_scaleP_cons (k : Nat) (b : Bool) (x : Except Err (List Piece)) (p : Piece) (f : List Piece → List Piece)
    (hf : ∀ R, scaleP k b (p :: R) = f R) :
    (x.map (p :: ·)).map (scaleP k b) = x.map f := by
  cases x with
  | error e => rfl
  | ok R => simp [Except.map, hf]

theorem seg_scale_run_ws (k : Nat) (o o' : Oracle) (w : Ws) (r : Str)
    (ih : seg o' true 0 (scaleText k true r) = (seg o true 0 r).map (scaleP k true)) :
    seg o' true 0 (List.replicate k (wsChar w) ++ scaleText k true r) =
      ((seg o true 0 r).map (.ws w :: ·)).map (scaleP k true) := by
  have h1 : List.replicate k (wsChar w) = wsChars (List.replicate k w) := by simp [wsChars]
  rw [h1, seg_run_ws, ih]
  cases seg o true 0 r with
  | error e => rfl
  | ok R => simp [Except.map, scaleP, wsPieces]

theorem commentText_split : ∀ q : Str, ∃ rest, q = commentText q ++ rest ∧ (∀ ch ∈ commentText q, ch ≠ '\n') ∧
    (rest = [] ∨ ∃ t, rest = '\n' :: t) ∧ rest = q.drop (commentText q).length := by
  intro q
  induction q with
  | nil => exact ⟨[], by simp [commentText], by simp [commentText], Or.inl rfl, by simp [commentText]⟩
  | cons c r ih =>
    by_cases hc : c = '\n'
    · subst hc
      exact ⟨'\n' :: r, by simp [commentText], by simp [commentText], Or.inr ⟨r, rfl⟩, by simp [commentText]⟩
    · obtain ⟨rest, h1, h2, h3, h4⟩ := ih
      have hct : commentText (c :: r) = c :: commentText r := by
        simp [commentText, List.takeWhile_cons, hc]
      refine ⟨rest, ?_, ?_, h3, ?_⟩
      · rw [hct, List.cons_append, ← h1]
      · intro ch hch
        rw [hct] at hch
        rcases List.mem_cons.1 hch with h | h
        · rw [h]; exact hc
        · exact h2 ch h
      · rw [hct]; simpa using h4

theorem commentText_of_noNL (a rest : Str) (ha : ∀ ch ∈ a, ch ≠ '\n') (hr : rest = [] ∨ ∃ t, rest = '\n' :: t) :
    commentText (a ++ rest) = a := by
  induction a with
  | nil =>
    rcases hr with h | ⟨t, h⟩ <;> simp [commentText, h]
  | cons c r ih =>
    have hc : c ≠ '\n' := ha c (by simp)
    have := ih (fun ch hch => ha ch (by simp [hch]))
    simp only [commentText] at this ⊢
    simp [List.takeWhile_cons, hc, this]

/-- `seg` at a position that does not continue an open run: the decision tree of a token start -/
theorem seg_tokstart (o : Oracle) (b : Bool) (c : Char) (r : Str)
    (h1 : (b && c == ' ') = false) (h2 : (b && c == '\t') = false) (h3 : (b && c == '\n') = false)
    (h4 : (b && c == '\r' && r.head? == some '\n') = false) :
    seg o b 0 (c :: r) =
      match o (c :: r) with
      | some (ty, n) =>
        if n = 0 then .error .badChar
        else (seg o false (n - 1) r).map (.tok ty (String.ofList ((c :: r).take n)) :: ·)
      | none =>
        if c == '\n' then (seg o true 0 r).map (.nl false :: ·)
        else if c == '\r' && r.head? == some '\n' then (seg o true 1 r).map (.nl true :: ·)
        else if c == ' ' then (seg o false 0 r).map (.ws .sp :: ·)
        else if c == '\t' then (seg o false 0 r).map (.ws .tab :: ·)
        else if c == '#' then
          (seg o false ((commentText (c :: r)).length - 1) r).map (.comment (String.ofList (commentText (c :: r))) :: ·)
        else .error .badChar := by
  rw [seg]
  simp only [h1, h2, h3, h4, Bool.false_eq_true, if_false]
  rfl

theorem head_scaleText_false (k : Nat) (r : Str) : ((scaleText k false r).head? == some '\n') = (r.head? == some '\n') := by
  cases r with
  | nil => rfl
  | cons d r' =>
    by_cases hd : d = '\n'
    · subst hd; simp [scaleText]
    · simp [scaleText, hd]

theorem seg_scale (k : Nat) (o o' : Oracle) : ∀ (n : Nat) (text : Str), text.length ≤ n → ∀ b, ScaleOK k o o' text →
    seg o' b 0 (scaleText k b text) = (seg o b 0 text).map (scaleP k b) := by
  intro n
  induction n with
  | zero =>
    intro text hl b _
    have : text = [] := List.eq_nil_of_length_eq_zero (Nat.le_zero.1 hl)
    subst this
    simp [scaleText, seg, Except.map, scaleP]
  | succ n ih =>
    intro text hl b hok
    cases text with
    | nil => simp [scaleText, seg, Except.map, scaleP]
    | cons c r =>
      have hr : r.length ≤ n := by simpa using hl
      have hokr : ScaleOK k o o' r := hok.suffix [c] r rfl
      by_cases hnl : c = '\n'
      · -- a line break
        subst hnl
        have ihr := ih r hr true hokr
        have hsc : scaleText k b ('\n' :: r) = '\n' :: scaleText k true r := by simp [scaleText]
        have hfin : (seg o' true 0 (scaleText k true r)).map (.nl false :: ·) =
            ((seg o true 0 r).map (.nl false :: ·)).map (scaleP k b) := by
          rw [ihr]
          cases seg o true 0 r with
          | error e => rfl
          | ok R => cases b <;> simp [Except.map, scaleP]
        rw [hsc]
        cases b with
        | true =>
          have h1 := seg_run_eol o' false (scaleText k true r)
          have h2 := seg_run_eol o false r
          simp only [eol, Bool.false_eq_true, if_false, List.cons_append, List.nil_append] at h1 h2
          rw [h1, h2]; exact hfin
        | false =>
          obtain ⟨ho, htok⟩ := hok [] ('\n' :: r) rfl
          have hsc' : scaleText k false ('\n' :: r) = '\n' :: scaleText k true r := by simp [scaleText]
          rw [hsc'] at ho
          cases hq : o ('\n' :: r) with
          | none =>
            rw [hq] at ho
            have h1 := seg_start_eol o' false (scaleText k true r) (by simpa [eol] using ho)
            have h2 := seg_start_eol o false r (by simpa [eol] using hq)
            simp only [eol, Bool.false_eq_true, if_false, List.cons_append, List.nil_append] at h1 h2
            rw [h1, h2]; exact hfin
          | some p =>
            obtain ⟨ty, m⟩ := p
            rw [hq] at ho
            cases m with
            | zero => simp [seg, ho, hq, Except.map]
            | succ m =>
              have := (htok ty (m + 1) hq).2 '\n' (by simp)
              exact absurd rfl this
      · -- not a line break
        by_cases hrun : b = true ∧ (c = ' ' ∨ c = '\t')
        · -- a blank of an indentation run
          obtain ⟨hb, hc⟩ := hrun
          subst hb
          have ihr := ih r hr true hokr
          rcases hc with hc | hc
          · subst hc
            have hsc : scaleText k true (' ' :: r) = List.replicate k (wsChar .sp) ++ scaleText k true r := by simp [scaleText, wsChar]
            have h2 : seg o true 0 (' ' :: r) = (seg o true 0 r).map (.ws .sp :: ·) := by simp [seg]
            rw [hsc, h2]; exact seg_scale_run_ws k o o' .sp r ihr
          · subst hc
            have hsc : scaleText k true ('\t' :: r) = List.replicate k (wsChar .tab) ++ scaleText k true r := by simp [scaleText, wsChar]
            have h2 : seg o true 0 ('\t' :: r) = (seg o true 0 r).map (.ws .tab :: ·) := by simp [seg]
            rw [hsc, h2]; exact seg_scale_run_ws k o o' .tab r ihr
        · have hsc : scaleText k b (c :: r) = c :: scaleText k false r := by
            cases b
            · simp [scaleText, hnl]
            · have h1 : c ≠ ' ' := fun h => hrun ⟨rfl, Or.inl h⟩
              have h2 : c ≠ '\t' := fun h => hrun ⟨rfl, Or.inr h⟩
              simp [scaleText, hnl, h1, h2]
          have hsc' : scaleText k false (c :: r) = c :: scaleText k false r := by simp [scaleText, hnl]
          by_cases hcr : b = true ∧ c = '\r' ∧ ∃ r', r = '\n' :: r'
          · -- CRLF inside an open run
            obtain ⟨hb, hc, r', hr'⟩ := hcr
            subst hb; subst hc; subst hr'
            have ihr := ih r' (by simp at hr; omega) true (hok.suffix ['\r', '\n'] r' rfl)
            have hs2 : scaleText k true ('\r' :: '\n' :: r') = eol true ++ scaleText k true r' := by simp [scaleText, eol]
            have h2 : seg o true 0 ('\r' :: '\n' :: r') = (seg o true 0 r').map (.nl true :: ·) := seg_run_eol o true r'
            rw [hs2, seg_run_eol, h2, ihr]
            cases seg o true 0 r' with
            | error e => rfl
            | ok R => simp [Except.map, scaleP]
          · -- a token start
            have g1 : (b && c == ' ') = false := by
              cases b <;> simp
              intro h; exact hrun ⟨rfl, Or.inl h⟩
            have g2 : (b && c == '\t') = false := by
              cases b <;> simp
              intro h; exact hrun ⟨rfl, Or.inr h⟩
            have g3 : (b && c == '\n') = false := by cases b <;> simp [hnl]
            have g4 : (b && c == '\r' && r.head? == some '\n') = false := by
              cases b <;> simp
              intro hc hh
              apply hcr
              refine ⟨rfl, hc, ?_⟩
              cases r with
              | nil => simp at hh
              | cons d r' => simp at hh; exact ⟨r', by rw [hh]⟩
            have g4' : (b && c == '\r' && (scaleText k false r).head? == some '\n') = false := by
              rw [head_scaleText_false]; exact g4
            obtain ⟨ho, htok⟩ := hok [] (c :: r) rfl
            rw [hsc'] at ho
            rw [hsc, seg_tokstart o' b c _ g1 g2 g3 g4', seg_tokstart o b c r g1 g2 g3 g4, ho]
            cases hq : o (c :: r) with
            | some p =>
              obtain ⟨ty, m⟩ := p
              cases m with
              | zero => simp [Except.map]
              | succ m =>
                obtain ⟨hlen, hno⟩ := htok ty (m + 1) hq
                have hm : m ≤ r.length := by simpa using hlen
                -- the token's characters are copied by the scaling
                have hq2 : c :: r = (c :: r).take (m + 1) ++ r.drop m := by
                  conv => lhs; rw [← List.take_append_drop (m + 1) (c :: r)]
                  simp
                have hS : c :: scaleText k false r = (c :: r).take (m + 1) ++ scaleText k false (r.drop m) := by
                  rw [← hsc']
                  conv => lhs; rw [hq2]
                  exact scaleText_noNL k _ _ hno
                have htake : (c :: scaleText k false r).take (m + 1) = (c :: r).take (m + 1) := by
                  rw [hS, List.take_left' (by simp; omega)]
                have hX : scaleText k false r = r.take m ++ scaleText k false (r.drop m) := by
                  have := congrArg List.tail hS
                  simpa using this
                have hdrop : (scaleText k false r).drop m = scaleText k false (r.drop m) := by
                  rw [hX, List.drop_left' (by simp; omega)]
                have hmX : m ≤ (scaleText k false r).length := by
                  rw [hX]; simp; omega
                have ihd := ih (r.drop m) (by simp; omega) false (hok.suffix ((c :: r).take (m + 1)) (r.drop m) hq2)
                simp only [Nat.succ_ne_zero, if_false, Nat.add_sub_cancel, htake]
                rw [seg_skip' o' false m _ hmX, hdrop, ihd, seg_skip' o false m r hm]
                cases seg o false 0 (r.drop m) with
                | error e => rfl
                | ok R => cases b <;> simp [Except.map, scaleP]
            | none =>
              simp only []
              have e1 : (c == '\n') = false := by simpa using hnl
              simp only [e1, Bool.false_eq_true, if_false]
              by_cases hcrlf : c = '\r' ∧ ∃ r', r = '\n' :: r'
              · -- CRLF at a token start opens a run
                obtain ⟨hc, r', hr'⟩ := hcrlf
                subst hc; subst hr'
                have ihr := ih r' (by simp at hr; omega) true (hok.suffix ['\r', '\n'] r' rfl)
                have hs2 : scaleText k false ('\n' :: r') = '\n' :: scaleText k true r' := by simp [scaleText]
                simp only [hs2, List.head?_cons, beq_self_eq_true, Bool.and_self, if_true, seg, ihr]
                cases seg o true 0 r' with
                | error e => rfl
                | ok R => cases b <;> simp [Except.map, scaleP]
              · have e2 : (c == '\r' && r.head? == some '\n') = false := by
                  apply Bool.eq_false_iff.2
                  intro h
                  simp only [Bool.and_eq_true, beq_iff_eq] at h
                  apply hcrlf
                  refine ⟨h.1, ?_⟩
                  cases r with
                  | nil => simp at h
                  | cons d r' => simp at h; exact ⟨r', by rw [h.2]⟩
                have e2' : (c == '\r' && (scaleText k false r).head? == some '\n') = false := by
                  rw [head_scaleText_false]; exact e2
                simp only [e2, e2', Bool.false_eq_true, if_false]
                have ihr := ih r hr false hokr
                by_cases hsp : c = ' '
                · subst hsp
                  have hb : b = false := by cases b <;> simp_all
                  subst hb
                  simp only [beq_self_eq_true, if_true, ihr]
                  cases seg o false 0 r with
                  | error e => rfl
                  | ok R => simp [Except.map, scaleP]
                · by_cases htb : c = '\t'
                  · subst htb
                    have hb : b = false := by cases b <;> simp_all
                    subst hb
                    simp only [beq_self_eq_true, if_true, ihr]
                    have : ('\t' == ' ') = false := by decide
                    simp only [this, Bool.false_eq_true, if_false]
                    cases seg o false 0 r with
                    | error e => rfl
                    | ok R => simp [Except.map, scaleP]
                  · have e3 : (c == ' ') = false := by simpa using hsp
                    have e4 : (c == '\t') = false := by simpa using htb
                    simp only [e3, e4, Bool.false_eq_true, if_false]
                    by_cases hh : c = '#'
                    · subst hh
                      obtain ⟨rest, h1, h2, h3, _⟩ := commentText_split r
                      have hct : commentText ('#' :: r) = '#' :: commentText r := by simp [commentText]
                      have hrest' : scaleText k false rest = [] ∨ ∃ t, scaleText k false rest = '\n' :: t := by
                        rcases h3 with h | ⟨t, h⟩
                        · left; rw [h]; rfl
                        · right; exact ⟨scaleText k true t, by rw [h]; simp [scaleText]⟩
                      have hX : scaleText k false r = commentText r ++ scaleText k false rest := by
                        conv => lhs; rw [h1]
                        exact scaleText_noNL k _ _ h2
                      have hctX : commentText ('#' :: scaleText k false r) = '#' :: commentText r := by
                        have : commentText ('#' :: scaleText k false r) = '#' :: commentText (scaleText k false r) := by simp [commentText]
                        rw [this, hX, commentText_of_noNL _ _ h2 hrest']
                      have hlen : rest.length ≤ n := by
                        have : r.length = (commentText r).length + rest.length := by
                          conv => lhs; rw [h1]
                          simp
                        omega
                      have ihd := ih rest hlen false (hok.suffix ('#' :: commentText r) rest (by rw [List.cons_append, ← h1]))
                      have s1 : seg o' false (commentText r).length (scaleText k false r) = seg o' false 0 (scaleText k false rest) := by
                        rw [hX]; exact seg_skip o' false _ _
                      have s2 : seg o false (commentText r).length r = seg o false 0 rest := by
                        have := seg_skip o false (commentText r) rest
                        rwa [← h1] at this
                      simp only [beq_self_eq_true, if_true, hct, hctX, List.length_cons, Nat.add_sub_cancel, s1, s2, ihd]
                      cases seg o false 0 rest with
                      | error e => rfl
                      | ok R => cases b <;> simp [Except.map, scaleP]
                    · have e5 : (c == '#') = false := by simpa using hh
                      simp [e5, Except.map]

/-- the toy tokenizer satisfies `ScaleOK` on every text (non-vacuity of `text_layout_scale`) -/
theorem toyOracle_scaleOK (k : Nat) (text : Str) : ScaleOK k toyOracle toyOracle text := by
  intro p q _
  cases q with
  | nil => exact ⟨rfl, by intro ty n h; simp [toyOracle] at h⟩
  | cons c r =>
    by_cases hnl : c = '\n'
    · subst hnl
      exact ⟨by simp [scaleText, toyOracle], by intro ty n h; simp [toyOracle] at h⟩
    · have hs : scaleText k false (c :: r) = c :: scaleText k false r := by simp [scaleText, hnl]
      by_cases ha : c = 'a'
      · subst ha
        refine ⟨by rw [hs]; rfl, ?_⟩
        intro ty n h
        simp only [toyOracle] at h
        have hn : n = 1 := by simpa using (congrArg (fun x => x.map Prod.snd) h).symm
        subst hn
        exact ⟨by simp, by simp⟩
      · refine ⟨?_, ?_⟩
        · rw [hs]
          unfold toyOracle
          split
          · rename_i heq; simp at heq; exact absurd heq.1 ha
          · split
            · rename_i heq; simp at heq; exact absurd heq.1 ha
            · rfl
        · intro ty n h
          unfold toyOracle at h
          split at h
          · rename_i heq; simp at heq; exact absurd heq.1 ha
          · simp at h

/-! ### scaling raw lines through the `...` pre-parsing expansion -/

/-- scaling distributes over lines: the text of a line without line breaks, then the rest in "after a line break" mode -/
theorem scaleText_line (k : Nat) : ∀ (b : Bool) (l t : Str), (∀ ch ∈ l, ch ≠ '\n') →
    scaleText k b (l ++ '\n' :: t) = scaleText k b l ++ '\n' :: scaleText k true t := by
  intro b l
  induction l generalizing b with
  | nil => intro t _; simp [scaleText]
  | cons c r ih =>
    intro t h
    have hc : c ≠ '\n' := h c (by simp)
    have hr : ∀ ch ∈ r, ch ≠ '\n' := fun ch hch => h ch (by simp [hch])
    simp only [List.cons_append, scaleText, hc, if_false]
    split
    · rw [ih true t hr, List.append_assoc]
    · rw [ih false t hr, List.cons_append]

theorem scaleText_true_unlines (k : Nat) : ∀ (ls : List Str), (∀ l ∈ ls, ∀ ch ∈ l, ch ≠ '\n') →
    scaleText k true (unlines ls) = unlines (ls.map (scaleText k true)) := by
  intro ls
  induction ls with
  | nil => intro _; rfl
  | cons l ls ih =>
    intro h
    simp only [unlines, List.map_cons]
    rw [scaleText_line k true l _ (h l (by simp)), ih (fun l' hl' => h l' (by simp [hl']))]

theorem scaleText_false_noNL (k : Nat) (l : Str) (h : ∀ ch ∈ l, ch ≠ '\n') : scaleText k false l = l := by
  have := scaleText_noNL k l [] h
  simpa [scaleText] using this

theorem scaleText_unlines (k : Nat) (ls : List Str) (h : ∀ l ∈ ls, ∀ ch ∈ l, ch ≠ '\n') :
    scaleText k false (unlines ls) = unlines (scaleLines k ls) := by
  cases ls with
  | nil => rfl
  | cons l ls =>
    simp only [unlines, scaleLines]
    rw [scaleText_line k false l _ (h l (by simp)), scaleText_false_noNL k l (h l (by simp)),
      scaleText_true_unlines k ls (fun l' hl' => h l' (by simp [hl']))]

/-- a line in "after a line break" mode: only a prefix of blanks changes -/
theorem scaleText_true_line (k : Nat) : ∀ (l : Str), (∀ ch ∈ l, ch ≠ '\n') →
    ∃ bl bl' rest, l = bl ++ rest ∧ scaleText k true l = bl' ++ rest ∧ (∀ c ∈ bl, isPyWs c = true) ∧ (∀ c ∈ bl', isPyWs c = true) := by
  intro l
  induction l with
  | nil => intro _; exact ⟨[], [], [], rfl, rfl, by simp, by simp⟩
  | cons c r ih =>
    intro h
    have hc : c ≠ '\n' := h c (by simp)
    have hr : ∀ ch ∈ r, ch ≠ '\n' := fun ch hch => h ch (by simp [hch])
    by_cases hb : c = ' ' ∨ c = '\t'
    · obtain ⟨bl, bl', rest, h1, h2, h3, h4⟩ := ih hr
      have hws : isPyWs c = true := by rcases hb with h | h <;> (subst h; decide)
      refine ⟨c :: bl, List.replicate k c ++ bl', rest, by rw [h1]; rfl, ?_, ?_, ?_⟩
      · have : scaleText k true (c :: r) = List.replicate k c ++ scaleText k true r := by
          rcases hb with h | h <;> (subst h; simp [scaleText])
        rw [this, h2, List.append_assoc]
      · intro x hx
        rcases List.mem_cons.1 hx with h | h
        · rw [h]; exact hws
        · exact h3 x h
      · intro x hx
        rcases List.mem_append.1 hx with h | h
        · rw [(List.mem_replicate.1 h).2]; exact hws
        · exact h4 x h
    · have h1 : c ≠ ' ' := fun h => hb (Or.inl h)
      have h2 : c ≠ '\t' := fun h => hb (Or.inr h)
      refine ⟨[], [], c :: r, rfl, ?_, by simp, by simp⟩
      have := scaleText_false_noNL k r hr
      simp [scaleText, hc, h1, h2, this]

theorem strip_scaleText_true (k : Nat) (l : Str) (h : ∀ ch ∈ l, ch ≠ '\n') : strip (scaleText k true l) = strip l := by
  obtain ⟨bl, bl', rest, h1, h2, h3, h4⟩ := scaleText_true_line k l h
  rw [h2]
  conv => rhs; rw [h1]
  unfold strip
  rw [NumberedLines.lstrip_allws _ _ h3, NumberedLines.lstrip_allws _ _ h4]

open NemoVerif.PreExpand in
theorem scaleText_splitSpaces (k : Nat) (l : Str) :
    scaleText k true l = List.replicate (k * (splitSpaces l).1.length) ' ' ++ scaleText k true (splitSpaces l).2 := by
  induction l with
  | nil => simp [splitSpaces, scaleText]
  | cons c r ih =>
    by_cases hc : c = ' '
    · subst hc
      have : scaleText k true (' ' :: r) = List.replicate k ' ' ++ scaleText k true r := by simp [scaleText]
      rw [this, ih]
      simp only [splitSpaces, List.length_cons, Nat.mul_succ]
      rw [← List.append_assoc, List.replicate_append_replicate, Nat.add_comm]
    · rw [PreExpand.splitSpaces_not_space c r hc]
      simp

open NemoVerif.PreExpand in
theorem splitSpaces_replicate (m : Nat) (X : Str) (hX : X.head? ≠ some ' ') :
    splitSpaces (List.replicate m ' ' ++ X) = (List.replicate m ' ', X) := by
  induction m with
  | zero =>
    cases X with
    | nil => rfl
    | cons c r =>
      have : c ≠ ' ' := by intro h; apply hX; simp [h]
      simpa using PreExpand.splitSpaces_not_space c r this
  | succ m ih => simp [List.replicate_succ, splitSpaces, ih]

/-- the part of a line after its leading spaces, in "after a line break" mode: unchanged unless it begins with a tab -/
theorem scaleText_true_nonspace (k : Nat) (hk : 1 ≤ k) (r : Str) (hr : ∀ ch ∈ r, ch ≠ '\n') (h : r.head? ≠ some ' ') :
    (scaleText k true r).head? ≠ some ' ' ∧ PreExpand.dropDots 3 (scaleText k true r) = PreExpand.dropDots 3 r := by
  cases r with
  | nil => simp [scaleText]
  | cons c r' =>
    have hc : c ≠ ' ' := by intro h'; apply h; simp [h']
    have hnl : c ≠ '\n' := hr c (by simp)
    have hr' : ∀ ch ∈ r', ch ≠ '\n' := fun ch hch => hr ch (by simp [hch])
    by_cases ht : c = '\t'
    · subst ht
      have : scaleText k true ('\t' :: r') = List.replicate k '\t' ++ scaleText k true r' := by simp [scaleText]
      obtain ⟨k', rfl⟩ : ∃ k', k = k' + 1 := ⟨k - 1, by omega⟩
      rw [this]
      simp [List.replicate_succ, PreExpand.dropDots]
    · have : scaleText k true (c :: r') = c :: r' := by
        have h2 := scaleText_false_noNL k r' hr'
        simp [scaleText, hnl, hc, ht, h2]
      rw [this]
      exact ⟨h, rfl⟩

open NemoVerif.PreExpand in
theorem splitSpaces_snd_head (l : Str) : (splitSpaces l).2.head? ≠ some ' ' := by
  induction l with
  | nil => simp [splitSpaces]
  | cons c r ih =>
    by_cases hc : c = ' '
    · subst hc; simpa [splitSpaces] using ih
    · rw [PreExpand.splitSpaces_not_space c r hc]; simp [hc]

open NemoVerif.PreExpand in
theorem matchDots_scale (k : Nat) (hk : 1 ≤ k) (l : Str) (hl : ∀ ch ∈ l, ch ≠ '\n') :
    matchDots (scaleText k true l) = (matchDots l).map (fun p => (List.replicate (k * p.1.length) ' ', p.2)) := by
  have hr : ∀ ch ∈ (splitSpaces l).2, ch ≠ '\n' := fun ch hch => hl ch (PreExpand.splitSpaces_snd_mem l ch hch)
  obtain ⟨h1, h2⟩ := scaleText_true_nonspace k hk (splitSpaces l).2 hr (splitSpaces_snd_head l)
  unfold matchDots
  rw [scaleText_splitSpaces k l, splitSpaces_replicate _ _ h1]
  simp only [h2]
  by_cases he : (splitSpaces l).1 = []
  · simp [he]
  · have hpos : 0 < (splitSpaces l).1.length := List.length_pos_iff.2 he
    have hne : List.replicate (k * (splitSpaces l).1.length) ' ' ≠ [] := by
      intro h
      have h' := congrArg List.length h
      simp only [List.length_replicate, List.length_nil] at h'
      have : 0 < k * (splitSpaces l).1.length := Nat.mul_pos (by omega) hpos
      omega
    simp only [List.isEmpty_iff, he, hne, if_false]
    cases dropDots 3 (splitSpaces l).2 <;> simp

theorem scaleText_true_id (k : Nat) (r : Str) (hr : ∀ ch ∈ r, ch ≠ '\n') (h1 : r.head? ≠ some ' ') (h2 : r.head? ≠ some '\t') :
    scaleText k true r = r := by
  cases r with
  | nil => rfl
  | cons c r' =>
    have hc : c ≠ ' ' := by intro h'; apply h1; simp [h']
    have ht : c ≠ '\t' := by intro h'; apply h2; simp [h']
    have hnl : c ≠ '\n' := hr c (by simp)
    have h3 := scaleText_false_noNL k r' (fun ch hch => hr ch (by simp [hch]))
    simp [scaleText, hnl, hc, ht, h3]

open NemoVerif.PreExpand in
theorem splitSpaces_fst_replicate (l : Str) : (splitSpaces l).1 = List.replicate (splitSpaces l).1.length ' ' := by
  induction l with
  | nil => simp [splitSpaces]
  | cons c r ih =>
    by_cases hc : c = ' '
    · subst hc
      simp only [splitSpaces, List.length_cons, List.replicate_succ]
      rw [← ih]
    · rw [PreExpand.splitSpaces_not_space c r hc]; rfl

/-- spaces followed by a text that begins with neither a blank nor contains a line break -/
theorem scaleText_true_spaces (k n : Nat) (e : Str) (he : ∀ ch ∈ e, ch ≠ '\n') (h1 : e.head? ≠ some ' ') (h2 : e.head? ≠ some '\t') :
    scaleText k true (List.replicate n ' ' ++ e) = List.replicate (k * n) ' ' ++ e := by
  rw [scaleText_splitSpaces, splitSpaces_replicate n e h1]
  simp [scaleText_true_id k e he h1 h2]

open NemoVerif.PreExpand in
theorem matchDots_parts (l : Str) (sp rest : Str) (h : matchDots l = some (sp, rest)) :
    sp = List.replicate sp.length ' ' ∧ ∀ ch ∈ rest, ch ∈ l := by
  unfold matchDots at h
  split at h
  · cases h
  · cases hd : dropDots 3 (splitSpaces l).2 with
    | none => simp [hd] at h
    | some r =>
      simp [hd] at h
      obtain ⟨h1, h2⟩ := h
      subst h1; subst h2
      refine ⟨splitSpaces_fst_replicate l, ?_⟩
      intro ch hch
      apply PreExpand.splitSpaces_snd_mem l ch
      -- rest is a suffix of the part after the spaces
      have : ∀ (n : Nat) (x y : Str), dropDots n x = some y → ∀ c ∈ y, c ∈ x := by
        intro n
        induction n with
        | zero => intro x y hxy c hc; simp [dropDots] at hxy; subst hxy; exact hc
        | succ n ih =>
          intro x y hxy c hc
          cases x with
          | nil => simp [dropDots] at hxy
          | cons a x' =>
            by_cases ha : a = '.'
            · subst ha
              simp only [dropDots] at hxy
              exact List.mem_cons_of_mem _ (ih x' y hxy c hc)
            · rw [PreExpand.dropDots_succ_ne n a x' ha] at hxy; cases hxy
      exact this 3 _ _ hd ch hch

open NemoVerif.PreExpand in
theorem subLine_scale (k : Nat) (hk : 1 ≤ k) (hx : ExpansionOK) (l : Str) (hl : ScaleLineOK l) :
    subLine (scaleText k true l) = (subLine l).map (scaleText k true) := by
  unfold subLine
  rw [matchDots_scale k hk l hl.1]
  cases hm : matchDots l with
  | none => simp
  | some p =>
    obtain ⟨sp, rest⟩ := p
    obtain ⟨hsp, hrest⟩ := matchDots_parts l sp rest hm
    obtain ⟨hr1, hr2⟩ := hl.2 sp rest hm
    have hrnl : ∀ ch ∈ rest, ch ≠ '\n' := fun ch hch => hl.1 ch (hrest ch hch)
    simp only [Option.map_some, List.map_cons, List.map_append, List.map_map, List.map_nil]
    rw [scaleText_true_id k rest hrnl hr1 hr2]
    congr 1
    · congr 1
      apply List.map_congr_left
      intro e he
      obtain ⟨e1, e2, e3⟩ := hx e he
      simp only [Function.comp]
      rw [hsp, scaleText_true_spaces k sp.length e e1 e2 e3]
      simp

open NemoVerif.PreExpand in
theorem step_scale (k : Nat) (hk : 1 ≤ k) (hx : ExpansionOK) (d : Bool) (l : Str) (hl : ScaleLineOK l) :
    step d (scaleText k true l) = ((step d l).1, (step d l).2.map (scaleText k true)) := by
  unfold step
  rw [strip_scaleText_true k l hl.1]
  unfold stepS
  split
  · rfl
  · split
    · rfl
    · split
      · rfl
      · split
        · rfl
        · simp only [subLine_scale k hk hx l hl]

open NemoVerif.PreExpand in
theorem run_scale (k : Nat) (hk : 1 ≤ k) (hx : ExpansionOK) (ls : List Str) (h : ∀ l ∈ ls, ScaleLineOK l) : ∀ d,
    run d (ls.map (scaleText k true)) = (run d ls).map (scaleText k true) := by
  induction ls with
  | nil => intro d; rfl
  | cons l ls ih =>
    intro d
    simp only [List.map_cons, run, step_scale k hk hx d l (h l (by simp)), List.map_append]
    rw [ih (fun l' hl' => h l' (by simp [hl']))]

open NemoVerif.PreExpand in
theorem subLine_noNL (hx : ExpansionOK) (l : Str) (hl : ∀ ch ∈ l, ch ≠ '\n') : ∀ x ∈ subLine l, ∀ ch ∈ x, ch ≠ '\n' := by
  unfold subLine
  cases hm : matchDots l with
  | none => intro x hxm; simp at hxm; subst hxm; exact hl
  | some p =>
    obtain ⟨sp, rest⟩ := p
    obtain ⟨hsp, hrest⟩ := matchDots_parts l sp rest hm
    intro x hxm ch hch
    simp only [List.cons_append, List.mem_cons, List.mem_append, List.mem_map, List.mem_singleton] at hxm
    rcases hxm with h | ⟨e, he, h⟩ | h
    · subst h; simp at hch
    · subst h
      rcases List.mem_append.1 hch with h' | h'
      · rw [hsp] at h'; rw [(List.mem_replicate.1 h').2]; decide
      · exact (hx e he).1 ch h'
    · rcases h with h | h
      · subst h; exact hl ch (hrest ch hch)
      · simp at h

open NemoVerif.PreExpand in
theorem step_noNL (hx : ExpansionOK) (d : Bool) (l : Str) (hl : ∀ ch ∈ l, ch ≠ '\n') : ∀ x ∈ (step d l).2, ∀ ch ∈ x, ch ≠ '\n' := by
  unfold step stepS
  split
  · intro x hxm; simp at hxm; subst hxm; exact hl
  · split
    · intro x hxm; simp at hxm; subst hxm; exact hl
    · split
      · intro x hxm; simp at hxm; subst hxm; exact hl
      · split
        · intro x hxm; simp at hxm; subst hxm; exact hl
        · exact subLine_noNL hx l hl

open NemoVerif.PreExpand in
theorem run_noNL (hx : ExpansionOK) (ls : List Str) (h : ∀ l ∈ ls, ∀ ch ∈ l, ch ≠ '\n') : ∀ d, ∀ x ∈ run d ls, ∀ ch ∈ x, ch ≠ '\n' := by
  induction ls with
  | nil => intro d x hxm; simp [run] at hxm
  | cons l ls ih =>
    intro d x hxm
    simp only [run, List.mem_append] at hxm
    rcases hxm with h1 | h1
    · exact step_noNL hx d l (h l (by simp)) x h1
    · exact ih (fun l' hl' => h l' (by simp [hl'])) _ x h1

open NemoVerif.PreExpand in
theorem step_snd_of_noDots (d : Bool) (l : Str) (h : matchDots l = none) : (step d l).2 = [l] := by
  unfold step stepS
  split
  · rfl
  · split
    · rfl
    · split
      · rfl
      · split
        · rfl
        · simp [subLine, h]

/-! ### an end-of-line comment through the `...` pre-parsing expansion -/

theorem rstrip_cons_nonws (h : Char) (rest : Str) (hh : isPyWs h = false) : rstrip (h :: rest) = h :: rstrip rest := by
  unfold rstrip
  rw [List.reverse_cons]
  by_cases hr : lstrip rest.reverse = []
  · have hall := (NumberedLines.lstrip_nil_iff _).1 hr
    rw [NumberedLines.lstrip_allws _ _ hall, hr]
    simp [lstrip, hh]
  · rw [NumberedLines.lstrip_append_of_ne _ _ hr]
    simp

theorem lstrip_head_nonws (l : Str) (h : lstrip l ≠ []) : ∃ c r, lstrip l = c :: r ∧ isPyWs c = false := by
  induction l with
  | nil => simp [lstrip] at h
  | cons c r ih =>
    by_cases hc : isPyWs c = true
    · simp only [lstrip, hc, if_true] at h ⊢
      exact ih h
    · exact ⟨c, r, by simp [lstrip, hc], by simpa using hc⟩

/-- the first non-blank character of a line survives `strip`, whatever is appended -/
theorem strip_append_head (l x : Str) (h : lstrip l ≠ []) : (strip (l ++ x)).head? = (lstrip l).head? := by
  obtain ⟨c, r, hl, hc⟩ := lstrip_head_nonws l h
  unfold strip
  rw [NumberedLines.lstrip_append_of_ne l x h, hl, List.cons_append, rstrip_cons_nonws c _ hc]
  rfl

theorem startsWith_q3_false (s : Str) (h : s.head? ≠ some '"') : startsWith s q3 = false := by
  cases s with
  | nil => rfl
  | cons c r =>
    have : c ≠ '"' := by intro hc; apply h; simp [hc]
    simp [startsWith, q3, List.isPrefixOf, this]
    intro hc; exact absurd hc.symm this

open NemoVerif.PreExpand in
theorem dropDots_append_none (t : Str) (ht : t.head? ≠ some '.') (ht' : t ≠ []) : ∀ (n : Nat) (r : Str),
    dropDots (n + 1) r = none → dropDots (n + 1) (r ++ t) = none := by
  intro n
  induction n with
  | zero =>
    intro r h
    cases r with
    | nil =>
      cases t with
      | nil => exact absurd rfl ht'
      | cons c t' =>
        have : c ≠ '.' := by intro hc; apply ht; simp [hc]
        simpa using PreExpand.dropDots_succ_ne 0 c t' this
    | cons a r' =>
      by_cases ha : a = '.'
      · subst ha; simp [dropDots] at h
      · simpa using PreExpand.dropDots_succ_ne 0 a (r' ++ t) ha
  | succ n ih =>
    intro r h
    cases r with
    | nil =>
      cases t with
      | nil => exact absurd rfl ht'
      | cons c t' =>
        have : c ≠ '.' := by intro hc; apply ht; simp [hc]
        simpa using PreExpand.dropDots_succ_ne (n + 1) c t' this
    | cons a r' =>
      by_cases ha : a = '.'
      · subst ha
        simp only [dropDots, List.cons_append] at h ⊢
        exact ih r' h
      · simpa using PreExpand.dropDots_succ_ne (n + 1) a (r' ++ t) ha

open NemoVerif.PreExpand in
theorem matchDots_append_none (l t : Str) (hl : lstrip l ≠ []) (hm : matchDots l = none) (ht : t.head? ≠ some '.') (ht' : t ≠ []) :
    matchDots (l ++ t) = none := by
  have hr : (splitSpaces l).2 ≠ [] := by
    intro h
    have hsp := PreExpand.spaces_of_snd_nil l h
    apply hl
    exact (NumberedLines.lstrip_nil_iff l).2 (fun c hc => by rw [hsp c hc]; decide)
  unfold matchDots at hm ⊢
  rw [PreExpand.splitSpaces_append l t hr]
  simp only []
  split
  · rfl
  · rename_i hne
    simp only [hne, if_false] at hm
    cases hd : dropDots 3 (splitSpaces l).2 with
    | some r => simp [hd] at hm
    | none => simp [dropDots_append_none t ht ht' 2 _ hd]

/-- an ordinary line (not in a docstring, first non-blank character not a quote, not a `...` statement), with or without something appended
    that is not empty and does not begin with a dot, is passed through by the pre-parsing expansion -/
theorem step_plain (l x : Str) (hl : lstrip l ≠ []) (hq : (lstrip l).head? ≠ some '"') (hm : PreExpand.matchDots l = none)
    (hx : x = [] ∨ (x.head? ≠ some '.' ∧ x ≠ [])) : PreExpand.step false (l ++ x) = (false, [l ++ x]) := by
  have hs : startsWith (strip (l ++ x)) q3 = false := startsWith_q3_false _ (by rw [strip_append_head l x hl]; exact hq)
  have hm' : PreExpand.matchDots (l ++ x) = none := by
    rcases hx with rfl | ⟨h1, h2⟩
    · simpa using hm
    · exact matchDots_append_none l x hl hm h1 h2
  unfold PreExpand.step PreExpand.stepS
  simp [hs, PreExpand.subLine, hm']

end NemoVerif.TextLayout
