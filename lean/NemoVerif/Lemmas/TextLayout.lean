/-
  Helper lemmas about the character-level scanner `TextLayout.seg` (C13, Colang 2.x).  Property theorems are in Theorems/C13.lean.
-/
import NemoVerif.Models.TextLayout
import NemoVerif.Lemmas.Layout
import NemoVerif.Lemmas.NumberedLines
import NemoVerif.Lemmas.PreExpand
namespace NemoVerif.TextLayout
open NemoVerif.Layout
open NemoVerif.NumberedLines (strip isPyWs)

/-- glue: result of a prefix scan followed by the scan of the rest -/
def glue (o : Oracle) (s : Str) : Except Err (List Piece × Bool × Nat) → Except Err (List Piece)
  | .error e => .error e
  | .ok (P, b, k) => (seg o b k s).map (P ++ ·)

theorem map_map_cons {ε α : Type} (x : Except ε (List α)) (a : α) (P : List α) :
    (x.map (P ++ ·)).map (a :: ·) = x.map ((a :: P) ++ ·) := by
  cases x <;> rfl

theorem glue_map (o : Oracle) (s : Str) (a : Piece) (x : Except Err (List Piece × Bool × Nat)) :
    glue o s (x.map fun p => (a :: p.1, p.2)) = (glue o s x).map (a :: ·) := by
  cases x with
  | error e => rfl
  | ok p =>
    obtain ⟨P, b, k⟩ := p
    simp only [glue, Except.map]
    cases seg o b k s <;> rfl

theorem seg_append (o : Oracle) (a s : Str) : ∀ (b : Bool) (k : Nat),
    seg o b k (a ++ s) = glue o s (segPre o b k a s) := by
  induction a with
  | nil =>
    intro b k
    simp only [List.nil_append, segPre, glue]
    cases seg o b k s <;> simp [Except.map]
  | cons c r ih =>
    intro b k
    cases k with
    | succ k => simp only [List.cons_append, seg, segPre, ih]
    | zero =>
      simp only [List.cons_append, seg, segPre]
      split
      · rw [ih, glue_map]
      · split
        · rw [ih, glue_map]
        · split
          · rw [ih, glue_map]
          · split
            · rw [ih, glue_map]
            · split
              · split
                · rfl
                · rw [ih, glue_map]
              · split
                · rw [ih, glue_map]
                · split
                  · rw [ih, glue_map]
                  · split
                    · rw [ih, glue_map]
                    · split
                      · rw [ih, glue_map]
                      · split
                        · rw [ih, glue_map]
                        · rfl

/-- inside an open run, blanks are part of the run -/
theorem seg_run_ws (o : Oracle) (ws : List Ws) (s : Str) :
    seg o true 0 (wsChars ws ++ s) = (seg o true 0 s).map (wsPieces ws ++ ·) := by
  induction ws with
  | nil => cases h : seg o true 0 s <;> simp [wsChars, wsPieces, Except.map, h]
  | cons w r ih =>
    cases w
    · simp only [wsChars, List.map_cons, List.cons_append, wsChar, seg] at ih ⊢
      simp only [Bool.true_and, beq_self_eq_true, if_true, ih]
      cases seg o true 0 s <;> simp [wsPieces, Except.map]
    · simp only [wsChars, List.map_cons, List.cons_append, wsChar, seg] at ih ⊢
      simp only [Bool.true_and, ih]
      cases seg o true 0 s <;> simp [wsPieces, Except.map]

/-- inside an open run, a further line break is part of the run (no oracle) -/
theorem seg_run_eol (o : Oracle) (cr : Bool) (s : Str) :
    seg o true 0 (eol cr ++ s) = (seg o true 0 s).map (.nl cr :: ·) := by
  cases cr
  · simp [eol, seg]
  · simp [eol, seg]

/-- at a token start, a line break that no body terminal claims opens a run -/
theorem seg_start_eol (o : Oracle) (cr : Bool) (s : Str) (h : o (eol cr ++ s) = none) :
    seg o false 0 (eol cr ++ s) = (seg o true 0 s).map (.nl cr :: ·) := by
  cases cr
  · simp only [eol, if_false, Bool.false_eq_true, List.cons_append, List.nil_append] at h
    simp [eol, seg, h]
  · simp only [eol, if_true, List.cons_append, List.nil_append] at h
    simp [eol, seg, h]

/-- no body terminal begins with a blank -/
def NoBlankStart (o : Oracle) : Prop := ∀ (w : Ws) (t : Str), o (wsChar w :: t) = none
/-- no body terminal begins with `#` -/
def NoHashStart (o : Oracle) : Prop := ∀ t : Str, o ('#' :: t) = none

/-- at a token start, blanks are separate pieces -/
theorem seg_start_ws (o : Oracle) (hb : NoBlankStart o) (ws : List Ws) (s : Str) :
    seg o false 0 (wsChars ws ++ s) = (seg o false 0 s).map (wsPieces ws ++ ·) := by
  induction ws with
  | nil => cases h : seg o false 0 s <;> simp [wsChars, wsPieces, Except.map, h]
  | cons w r ih =>
    have hw := hb w (wsChars r ++ s)
    cases w
    · simp only [wsChars, List.map_cons, List.cons_append, wsChar] at ih hw ⊢
      simp only [seg, hw, ih]
      cases seg o false 0 s <;> simp [wsPieces, Except.map]
    · simp only [wsChars, List.map_cons, List.cons_append, wsChar] at ih hw ⊢
      simp only [seg, hw, ih]
      cases seg o false 0 s <;> simp [wsPieces, Except.map]

/-- passing over the rest of a token -/
theorem seg_skip (o : Oracle) (b : Bool) (a s : Str) : seg o b a.length (a ++ s) = seg o b 0 s := by
  induction a with
  | nil => rfl
  | cons c r ih => simp only [List.length_cons, List.cons_append, seg, ih]

theorem commentText_eq (cmt s : Str) (hc : ∀ ch ∈ cmt, ch ≠ '\n') :
    commentText ('#' :: cmt ++ '\n' :: s) = '#' :: cmt := by
  unfold commentText
  simp only [List.cons_append]
  rw [List.takeWhile_cons_of_pos (by decide)]
  congr 1
  induction cmt with
  | nil => simp
  | cons ch r ih =>
    have h1 : ch ≠ '\n' := hc ch (by simp)
    rw [List.cons_append, List.takeWhile_cons_of_pos (by simpa using h1), ih (fun x hx => hc x (by simp [hx]))]

/-- at a token start, `#…` up to the line break is one comment piece -/
theorem seg_start_comment (o : Oracle) (hh : NoHashStart o) (cmt s : Str) (hc : ∀ ch ∈ cmt, ch ≠ '\n') :
    seg o false 0 ('#' :: cmt ++ '\n' :: s) =
      (seg o false 0 ('\n' :: s)).map (.comment (String.ofList ('#' :: cmt)) :: ·) := by
  have h := hh (cmt ++ '\n' :: s)
  have hct := commentText_eq cmt s hc
  have hsk := seg_skip o false cmt ('\n' :: s)
  simp only [List.cons_append] at hct
  generalize hX : seg o false 0 ('\n' :: s) = X at hsk ⊢
  simp only [List.cons_append]
  unfold seg
  simp [h, hct, hsk]

/-- the CR flag of a line-break piece is invisible to lexer + indenter -/
theorem layout_nl_flag (c : Cfg) (pre post : List Piece) (a b : Bool) :
    layout c (pre ++ .nl a :: post) = layout c (pre ++ .nl b :: post) := by
  unfold layout
  apply go_congr
  intro rs st
  simp only [go]

/-! ### lines ↔ text -/

theorem joinNL_nl : ∀ (ls : List Str), ls ≠ [] → joinNL ls ++ ['\n'] = unlines ls
  | [], h => absurd rfl h
  | [l], _ => by simp [joinNL, unlines]
  | l :: m :: ls, _ => by
    have := joinNL_nl (m :: ls) (by simp)
    simp only [joinNL, unlines, List.append_assoc, List.cons_append] at this ⊢
    rw [this]

theorem unlines_append (a b : List Str) : unlines (a ++ b) = unlines a ++ unlines b := by
  induction a with
  | nil => rfl
  | cons l ls ih => simp [unlines, ih]

theorem crChars_nl (cr : Bool) : crChars cr ++ ['\n'] = eol cr := by cases cr <;> rfl

theorem strip_blank_line (blank : List Ws) (cr : Bool) : strip (wsChars blank ++ crChars cr) = [] := by
  have h : ∀ ch ∈ wsChars blank ++ crChars cr, isPyWs ch = true := by
    intro ch hch
    rcases List.mem_append.1 hch with h1 | h2
    · simp only [wsChars, List.mem_map] at h1
      obtain ⟨w, _, rfl⟩ := h1
      cases w <;> decide
    · cases cr
      · simp [crChars] at h2
      · simp [crChars] at h2; subst h2; decide
  unfold strip
  rw [(NumberedLines.lstrip_nil_iff _).2 h]
  rfl

theorem ws_line_allws (trail : List Ws) (cr : Bool) : ∀ ch ∈ wsChars trail ++ crChars cr, isPyWs ch = true := by
  intro ch hch
  rcases List.mem_append.1 hch with h1 | h2
  · simp only [wsChars, List.mem_map] at h1
    obtain ⟨w, _, rfl⟩ := h1
    cases w <;> decide
  · cases cr
    · simp [crChars] at h2
    · simp [crChars] at h2; subst h2; decide

theorem unlines_appendLast (ws : Str) (X0 : List Str) (xl : Str) :
    unlines (PreExpand.appendLast ws (X0 ++ [xl])) = unlines X0 ++ (xl ++ (ws ++ ['\n'])) := by
  rw [PreExpand.appendLast_append, unlines_append]
  simp [unlines]

end NemoVerif.TextLayout
