/-
  Helper lemmas for the Conflict model (C05): the order `lexLe`, the stable sort, the loop grouping,
  one group iteration, the fold over the groups.  Property theorems are in Theorems/C05.lean.
-/
import NemoVerif.Models.Conflict
namespace NemoVerif.Conflict

theorem lexLe_refl : ∀ a : List Int, lexLe a a = true
  | [] => rfl
  | x :: xs => by simp [lexLe, lexLe_refl xs]

theorem lexLe_total : ∀ a b : List Int, lexLe a b = true ∨ lexLe b a = true
  | [], _ => Or.inl rfl
  | _ :: _, [] => Or.inr rfl
  | x :: xs, y :: ys => by
    simp only [lexLe]
    by_cases h1 : x < y
    · simp [h1]
    · by_cases h2 : y < x
      · simp [h2]
      · simp [h1, h2]; exact lexLe_total xs ys

theorem lexLe_trans : ∀ a b c : List Int, lexLe a b = true → lexLe b c = true → lexLe a c = true
  | [], _, _, _, _ => by simp [lexLe]
  | _ :: _, [], _, h, _ => by simp [lexLe] at h
  | _ :: _, _ :: _, [], _, h => by simp [lexLe] at h
  | x :: xs, y :: ys, z :: zs, h1, h2 => by
    simp only [lexLe] at h1 h2 ⊢
    by_cases hxy : x < y
    · by_cases hyz : y < z
      · have : x < z := by omega
        simp [this]
      · by_cases hzy : z < y
        · simp [hyz, hzy] at h2
        · have : x < z := by omega
          simp [this]
    · by_cases hyx : y < x
      · simp [hxy, hyx] at h1
      · simp only [hxy, hyx, if_false] at h1
        have hxy' : x = y := by omega
        subst hxy'
        by_cases hxz : x < z
        · simp [hxz]
        · by_cases hzx : z < x
          · simp [hxz, hzx] at h2
          · simp only [hxz, hzx, if_false] at h2 ⊢
            exact lexLe_trans xs ys zs h1 h2

theorem lexLe_antisymm : ∀ a b : List Int, lexLe a b = true → lexLe b a = true → a = b
  | [], [], _, _ => rfl
  | [], _ :: _, _, h => by simp [lexLe] at h
  | _ :: _, [], h, _ => by simp [lexLe] at h
  | x :: xs, y :: ys, h1, h2 => by
    simp only [lexLe] at h1 h2
    by_cases hxy : x < y
    · have : ¬ y < x := by omega
      simp [hxy, this] at h2
    · by_cases hyx : y < x
      · simp [hxy, hyx] at h1
      · simp only [hxy, hyx, if_false] at h1 h2
        have : x = y := by omega
        subst this
        rw [lexLe_antisymm xs ys h1 h2]

open List

section sort
variable {α : Type} (le : α → α → Bool)

theorem perm_insertBy (x : α) : ∀ l : List α, insertBy le x l ~ x :: l
  | [] => Perm.refl _
  | y :: ys => by
    simp only [insertBy]
    split
    · exact Perm.refl _
    · exact ((perm_insertBy x ys).cons y).trans (Perm.swap x y ys)

theorem perm_sortStable : ∀ l : List α, sortStable le l ~ l
  | [] => Perm.refl _
  | x :: xs => (perm_insertBy le x _).trans ((perm_sortStable xs).cons x)

theorem mem_insertBy {x a : α} {l : List α} : a ∈ insertBy le x l ↔ a = x ∨ a ∈ l := by
  rw [(perm_insertBy le x l).mem_iff]; simp

theorem mem_sortStable {a : α} {l : List α} : a ∈ sortStable le l ↔ a ∈ l :=
  (perm_sortStable le l).mem_iff

variable (total : ∀ a b, le a b = true ∨ le b a = true) (trans : ∀ a b c, le a b = true → le b c = true → le a c = true)
include total trans

theorem pairwise_insertBy (x : α) : ∀ l : List α, l.Pairwise (fun a b => le a b = true) →
    (insertBy le x l).Pairwise (fun a b => le a b = true)
  | [], _ => by simp [insertBy]
  | y :: ys, h => by
    simp only [insertBy]
    rw [pairwise_cons] at h
    split
    · rename_i hxy
      refine pairwise_cons.2 ⟨?_, pairwise_cons.2 h⟩
      intro a ha
      rcases mem_cons.1 ha with rfl | ha
      · exact hxy
      · exact trans _ _ _ hxy (h.1 a ha)
    · rename_i hxy
      have hyx : le y x = true := by
        rcases total x y with h' | h'
        · exact absurd h' hxy
        · exact h'
      refine pairwise_cons.2 ⟨?_, pairwise_insertBy x ys h.2⟩
      intro a ha
      rcases (mem_insertBy le).1 ha with rfl | ha
      · exact hyx
      · exact h.1 a ha

theorem pairwise_sortStable : ∀ l : List α, (sortStable le l).Pairwise (fun a b => le a b = true)
  | [] => Pairwise.nil
  | x :: xs => pairwise_insertBy le total trans x _ (pairwise_sortStable xs)

/-- a stable descending sort puts a maximum first -/
theorem head_sortStable_max {l : List α} {h0 : α} {rest : List α} (e : sortStable le l = h0 :: rest)
    (refl : ∀ a, le a a = true) : ∀ x ∈ l, le h0 x = true := by
  intro x hx
  have hp := pairwise_sortStable le total trans l
  rw [e] at hp
  have hx' : x ∈ h0 :: rest := by rw [← e]; exact (mem_sortStable le).2 hx
  rcases mem_cons.1 hx' with rfl | hx'
  · exact refl _
  · exact (pairwise_cons.1 hp).1 x hx'

/-- the insertion sort of the model is the core library's stable `mergeSort` -/
theorem sortStable_eq_mergeSort : ∀ l : List α, sortStable le l = l.mergeSort le
  | [] => by simp [sortStable]
  | x :: xs => by
    have total' : ∀ a b, (le a b || le b a) = true := by
      intro a b; rcases total a b with h | h <;> simp [h]
    obtain ⟨l₁, l₂, h1, h2, h3⟩ := mergeSort_cons (le := le) (fun a b c => trans a b c) total' x xs
    have hs := pairwise_mergeSort (le := le) (fun a b c => trans a b c) total' (x :: xs)
    rw [h1] at hs
    simp only [sortStable]
    rw [sortStable_eq_mergeSort xs, h2, h1]
    have hl2 : ∀ b ∈ l₂, le x b = true := by
      have := (pairwise_append.1 hs).2.1
      exact (pairwise_cons.1 this).1
    clear h1 h2 hs
    induction l₁ with
    | nil =>
      cases l₂ with
      | nil => simp [insertBy]
      | cons b bs => simp [insertBy, hl2 b (mem_cons_self)]
    | cons a as ih =>
      have ha : le x a = false := by simpa using h3 a (mem_cons_self)
      simp only [cons_append, insertBy, ha]
      simp
      exact ih (fun b hb => h3 b (mem_cons_of_mem _ hb))
end sort
abbrev Groups := List (Nat × List HeadInfo)

def gfind (gs : Groups) (l : Nat) : Option (List HeadInfo) := (gs.find? (fun p => p.1 == l)).map (·.2)
def gkeys (gs : Groups) : List Nat := gs.map (·.1)

theorem gfind_addHead (h : HeadInfo) (l : Nat) : ∀ gs : Groups,
    (gfind (addHead gs h) l).getD [] = (gfind gs l).getD [] ++ (if h.loop = l then [h] else [])
  | [] => by
    by_cases e : h.loop = l <;> simp [addHead, gfind, e]
  | (k, g) :: gs => by
    have ih := gfind_addHead h l gs
    simp only [addHead]
    by_cases e1 : k = h.loop
    · simp only [e1, if_true]
      by_cases e2 : h.loop = l
      · simp [gfind, e2]
      · have hb : (h.loop == l) = false := by simp [e2]
        simp [gfind, find?_cons, hb, e2]
    · simp only [e1, if_false]
      by_cases e2 : k = l
      · have : ¬ h.loop = l := fun e => e1 (e2.trans e.symm)
        simp [gfind, e2, this]
      · have hb : (k == l) = false := by simp [e2]
        simp only [gfind, find?_cons, hb] at ih ⊢
        exact ih

theorem gkeys_addHead (h : HeadInfo) : ∀ gs : Groups,
    gkeys (addHead gs h) = if h.loop ∈ gkeys gs then gkeys gs else gkeys gs ++ [h.loop]
  | [] => by simp [addHead, gkeys]
  | (k, g) :: gs => by
    have ih := gkeys_addHead h gs
    simp only [addHead]
    by_cases e1 : k = h.loop
    · subst e1; simp [gkeys]
    · have : ¬ h.loop = k := fun e => e1 e.symm
      simp only [e1, if_false]
      simp only [gkeys, map_cons, mem_cons, this, false_or] at ih ⊢
      rw [ih]; split <;> simp [*]

theorem gkeys_nodup_addHead (h : HeadInfo) (gs : Groups) (hn : (gkeys gs).Nodup) : (gkeys (addHead gs h)).Nodup := by
  rw [gkeys_addHead]
  split
  · exact hn
  · rename_i hnot
    rw [nodup_append]
    refine ⟨hn, by simp, ?_⟩
    intro a ha b hb
    simp at hb; subst hb
    intro e; subst e; exact hnot ha

theorem mem_gkeys_addHead (h : HeadInfo) (gs : Groups) (l : Nat) :
    l ∈ gkeys (addHead gs h) ↔ l ∈ gkeys gs ∨ l = h.loop := by
  rw [gkeys_addHead]
  split
  · rename_i hin
    constructor
    · exact Or.inl
    · rintro (h' | rfl)
      · exact h'
      · exact hin
  · simp

theorem foldl_addHead_find (l : Nat) : ∀ (hs : List HeadInfo) (gs : Groups),
    (gfind (hs.foldl addHead gs) l).getD [] = (gfind gs l).getD [] ++ hs.filter (fun h => h.loop == l)
  | [], gs => by simp
  | h :: hs, gs => by
    rw [foldl_cons, foldl_addHead_find l hs, gfind_addHead]
    by_cases e : h.loop = l <;> simp [e, filter_cons]

theorem foldl_addHead_nodup : ∀ (hs : List HeadInfo) (gs : Groups), (gkeys gs).Nodup → (gkeys (hs.foldl addHead gs)).Nodup
  | [], _, h => h
  | h :: hs, gs, hn => foldl_addHead_nodup hs _ (gkeys_nodup_addHead h gs hn)

theorem foldl_addHead_keys (l : Nat) : ∀ (hs : List HeadInfo) (gs : Groups),
    l ∈ gkeys (hs.foldl addHead gs) ↔ l ∈ gkeys gs ∨ ∃ h ∈ hs, h.loop = l
  | [], gs => by simp
  | h :: hs, gs => by
    rw [foldl_cons, foldl_addHead_keys l hs, mem_gkeys_addHead]
    constructor
    · rintro ((h1 | rfl) | ⟨x, hx, rfl⟩)
      · exact Or.inl h1
      · exact Or.inr ⟨h, mem_cons_self, rfl⟩
      · exact Or.inr ⟨x, mem_cons_of_mem _ hx, rfl⟩
    · rintro (h1 | ⟨x, hx, rfl⟩)
      · exact Or.inl (Or.inl h1)
      · rcases mem_cons.1 hx with rfl | hx
        · exact Or.inl (Or.inr rfl)
        · exact Or.inr ⟨x, hx, rfl⟩

theorem gfind_of_mem : ∀ (gs : Groups), (gkeys gs).Nodup → ∀ p ∈ gs, gfind gs p.1 = some p.2
  | [], _, p, hp => by simp at hp
  | q :: gs, hn, p, hp => by
    simp only [gkeys, map_cons, nodup_cons] at hn
    rcases mem_cons.1 hp with rfl | hp
    · simp [gfind]
    · have hne : ¬ q.1 = p.1 := by
        intro e; apply hn.1; rw [e]; exact mem_map_of_mem hp
      have := gfind_of_mem gs hn.2 p hp
      have hb : (q.1 == p.1) = false := by simp [hne]
      simp only [gfind, find?_cons, hb] at this ⊢
      exact this

theorem groupsOf_keys_nodup (hs : List HeadInfo) : (gkeys (groupsOf hs)).Nodup :=
  foldl_addHead_nodup hs [] (by simp [gkeys])

theorem groupsOf_mem (hs : List HeadInfo) (p : Nat × List HeadInfo) (hp : p ∈ groupsOf hs) :
    p.2 = hs.filter (fun h => h.loop == p.1) := by
  have h1 := gfind_of_mem _ (groupsOf_keys_nodup hs) p hp
  have h2 := foldl_addHead_find p.1 hs []
  unfold groupsOf at h1
  rw [h1] at h2
  simpa [gfind] using h2

theorem groupsOf_cover (hs : List HeadInfo) (h : HeadInfo) (hh : h ∈ hs) : ∃ g, (h.loop, g) ∈ groupsOf hs := by
  have : h.loop ∈ gkeys (groupsOf hs) := (foldl_addHead_keys h.loop hs []).2 (Or.inr ⟨h, hh, rfl⟩)
  simp only [gkeys, mem_map] at this
  obtain ⟨p, hp, e⟩ := this
  exact ⟨p.2, by rw [← e]; exact hp⟩

theorem groupsOf_key_mem (hs : List HeadInfo) (p : Nat × List HeadInfo) (hp : p ∈ groupsOf hs) : ∃ h ∈ hs, h.loop = p.1 := by
  have : p.1 ∈ gkeys (groupsOf hs) := mem_map_of_mem hp
  rcases (foldl_addHead_keys p.1 hs []).1 this with h | h
  · simp [gkeys] at h
  · exact h

theorem groupsOf_nonempty (hs : List HeadInfo) (p : Nat × List HeadInfo) (hp : p ∈ groupsOf hs) : p.2 ≠ [] := by
  obtain ⟨h, hh, e⟩ := groupsOf_key_mem hs p hp
  rw [groupsOf_mem hs p hp]
  intro hnil
  have : h ∈ hs.filter (fun h => h.loop == p.1) := by simp [hh, e]
  rw [hnil] at this; simp at this

theorem foldl_addHead_same (l : Nat) : ∀ (hs g : List HeadInfo), (∀ h ∈ hs, h.loop = l) →
    hs.foldl addHead [(l, g)] = [(l, g ++ hs)]
  | [], g, _ => by simp
  | h :: hs, g, hl => by
    have e : h.loop = l := hl h mem_cons_self
    rw [foldl_cons]
    simp only [addHead, e, if_true]
    rw [foldl_addHead_same l hs _ (fun x hx => hl x (mem_cons_of_mem _ hx))]
    simp

theorem groupsOf_same (l : Nat) (h : HeadInfo) (hs : List HeadInfo) (hl : ∀ x ∈ h :: hs, x.loop = l) :
    groupsOf (h :: hs) = [(l, h :: hs)] := by
  have e : h.loop = l := hl h mem_cons_self
  simp only [groupsOf, foldl_cons, addHead, e]
  rw [foldl_addHead_same l hs _ (fun x hx => hl x (mem_cons_of_mem _ hx))]
  simp

theorem flatten_addHead_perm (h : HeadInfo) : ∀ gs : Groups,
    ((addHead gs h).map (·.2)).flatten ~ h :: (gs.map (·.2)).flatten
  | [] => by simp [addHead]
  | (k, g) :: gs => by
    simp only [addHead]
    split
    · simp only [map_cons, flatten_cons, append_assoc]
      exact perm_middle (l₁ := g) (a := h) (l₂ := (gs.map (·.2)).flatten)
    · simp only [map_cons, flatten_cons]
      exact ((flatten_addHead_perm h gs).append_left g).trans perm_middle

theorem groupsOf_perm (hs : List HeadInfo) : ((groupsOf hs).map (·.2)).flatten ~ hs := by
  suffices ∀ (hs : List HeadInfo) (gs : Groups), ((hs.foldl addHead gs).map (·.2)).flatten ~ (gs.map (·.2)).flatten ++ hs by
    simpa [groupsOf] using this hs []
  intro hs
  induction hs with
  | nil => intro gs; simp
  | cons h hs ih =>
    intro gs
    rw [foldl_cons]
    refine (ih _).trans ?_
    refine ((flatten_addHead_perm h gs).append_right hs).trans ?_
    simp only [cons_append]
    exact perm_middle.symm

/-! ### one group -/

theorem keyGe_refl (one : Int) (n : Nat) (a : HeadInfo) : keyGe one n a a = true := lexLe_refl _
theorem keyGe_total (one : Int) (n : Nat) (a b : HeadInfo) : keyGe one n a b = true ∨ keyGe one n b a = true :=
  (lexLe_total _ _).symm
theorem keyGe_trans (one : Int) (n : Nat) (a b c : HeadInfo) (h1 : keyGe one n a b = true) (h2 : keyGe one n b c = true) :
    keyGe one n a c = true := lexLe_trans _ _ _ h2 h1

theorem ordered_perm (one : Int) (g : List HeadInfo) : ordered one g ~ g := perm_sortStable _ g

theorem mem_ordered {one : Int} {g : List HeadInfo} {h : HeadInfo} : h ∈ ordered one g ↔ h ∈ g :=
  (ordered_perm one g).mem_iff

theorem ordered_ne_nil {one : Int} {g : List HeadInfo} (hg : g ≠ []) : ordered one g ≠ [] := by
  intro e
  have := (ordered_perm one g).length_eq
  rw [e] at this
  cases g with
  | nil => exact hg rfl
  | cons => simp at this

theorem mem_tieSet {h0 t : HeadInfo} {rest : List HeadInfo} (ht : t ∈ tieSet (h0 :: rest)) :
    t ∈ h0 :: rest ∧ t.scores = h0.scores := by
  simp only [tieSet] at ht
  refine ⟨(takeWhile_sublist _).subset ht, ?_⟩
  have hall := all_takeWhile (l := h0 :: rest) (p := fun h => h.scores == h0.scores)
  have := (all_eq_true.1 hall) t ht
  simpa using this

theorem head_mem_tieSet (h0 : HeadInfo) (rest : List HeadInfo) : h0 ∈ tieSet (h0 :: rest) := by
  simp [tieSet, takeWhile_cons]

theorem getD_mod_mem {α : Type} (l : List α) (c : Nat) (d : α) (hl : l ≠ []) : l.getD (c % l.length) d ∈ l := by
  have hpos : 0 < l.length := length_pos_iff.2 hl
  have hlt : c % l.length < l.length := Nat.mod_lt _ hpos
  rw [getD_eq_getElem?_getD, getElem?_eq_getElem hlt]
  exact getElem_mem hlt

/-- shape of one group iteration -/
theorem resolveGroup_spec (one : Int) (g : List HeadInfo) (c : Nat) (hg : g ≠ []) :
    ∃ h0 rest w, ordered one g = h0 :: rest ∧ w ∈ tieSet (h0 :: rest) ∧
      resolveGroup one g c =
        (w, Fate.picked) :: ((h0 :: rest).filter (fun h => h.uid != w.uid)).map (fun h => (h, fateOf w h)) := by
  cases e : ordered one g with
  | nil => exact absurd e (ordered_ne_nil hg)
  | cons h0 rest =>
    refine ⟨h0, rest, (tieSet (h0 :: rest)).getD (c % (tieSet (h0 :: rest)).length) h0, rfl, ?_, ?_⟩
    · exact getD_mod_mem _ _ _ (ne_nil_of_mem (head_mem_tieSet h0 rest))
    · simp only [resolveGroup, e]

theorem resolveGroup_nil (one : Int) (c : Nat) : resolveGroup one [] c = [] := by
  simp [resolveGroup, ordered, sortStable]

theorem fateOf_ne_picked (w h : HeadInfo) : fateOf w h ≠ .picked := by
  unfold fateOf; split
  · simp
  · split <;> simp

/-- the picked head and the list of the others -/
theorem resolveGroup_shape (one : Int) (g : List HeadInfo) (c : Nat) (hg : g ≠ []) :
    ∃ w, w ∈ g ∧ w ∈ tieSet (ordered one g) ∧
      resolveGroup one g c =
        (w, Fate.picked) :: ((ordered one g).filter (fun h => h.uid != w.uid)).map (fun h => (h, fateOf w h)) := by
  obtain ⟨h0, rest, w, e, hw, hr⟩ := resolveGroup_spec one g c hg
  refine ⟨w, ?_, by rw [e]; exact hw, by rw [e]; exact hr⟩
  have := (mem_tieSet hw).1
  rw [← e] at this
  exact mem_ordered.1 this

theorem mem_resolveGroup_fst {one : Int} {g : List HeadInfo} {c : Nat} {p : HeadInfo × Fate}
    (hp : p ∈ resolveGroup one g c) : p.1 ∈ g := by
  by_cases hg : g = []
  · subst hg; simp [resolveGroup_nil] at hp
  · obtain ⟨w, hwg, _, hr⟩ := resolveGroup_shape one g c hg
    rw [hr] at hp
    rcases mem_cons.1 hp with rfl | hp
    · exact hwg
    · obtain ⟨h, hh, rfl⟩ := mem_map.1 hp
      exact mem_ordered.1 (mem_filter.1 hh).1

theorem filter_uid_eq_singleton (w : HeadInfo) : ∀ l : List HeadInfo, (l.map (·.uid)).Nodup → w ∈ l →
    l.filter (fun h => h.uid == w.uid) = [w]
  | [], _, hw => by simp at hw
  | x :: xs, hn, hw => by
    simp only [map_cons, nodup_cons] at hn
    rcases mem_cons.1 hw with rfl | hw
    · have : xs.filter (fun h => h.uid == w.uid) = [] := by
        rw [filter_eq_nil_iff]
        intro a ha hc
        simp only [beq_iff_eq] at hc
        exact hn.1 (hc ▸ mem_map_of_mem ha)
      simp [filter_cons, this]
    · have hne : ¬ x.uid = w.uid := fun e => hn.1 (e ▸ mem_map_of_mem hw)
      simp only [filter_cons, beq_iff_eq, hne, if_false]
      exact filter_uid_eq_singleton w xs hn.2 hw

/-- nothing dropped, nothing duplicated (heads with pairwise distinct uids) -/
theorem resolveGroup_perm (one : Int) (g : List HeadInfo) (c : Nat) (hn : (g.map (·.uid)).Nodup) :
    (resolveGroup one g c).map (·.1) ~ g := by
  by_cases hg : g = []
  · subst hg; simp [resolveGroup_nil]
  · obtain ⟨w, hwg, _, hr⟩ := resolveGroup_shape one g c hg
    rw [hr]
    simp only [map_cons, map_map]
    have hid : (fun h => (h, fateOf w h).1) = (id : HeadInfo → HeadInfo) := rfl
    have hmap : map ((fun x => x.1) ∘ fun h => (h, fateOf w h)) (filter (fun h => h.uid != w.uid) (ordered one g)) =
        filter (fun h => h.uid != w.uid) (ordered one g) := by
      have : ((fun x : HeadInfo × Fate => x.1) ∘ fun h => (h, fateOf w h)) = id := rfl
      rw [this, map_id]
    rw [hmap]
    have hno : ((ordered one g).map (·.uid)).Nodup := ((ordered_perm one g).map _).nodup_iff.2 hn
    have h1 := filter_uid_eq_singleton w (ordered one g) hno (mem_ordered.2 hwg)
    have h2 := filter_append_perm (fun h => h.uid == w.uid) (ordered one g)
    rw [h1] at h2
    have h3 : (filter (fun x => !(x.uid == w.uid)) (ordered one g)) = filter (fun h => h.uid != w.uid) (ordered one g) := by
      congr
    rw [h3] at h2
    exact h2.trans (ordered_perm one g)

/-- exactly one picked head per group -/
theorem resolveGroup_picked (one : Int) (g : List HeadInfo) (c : Nat) (hg : g ≠ []) :
    ∃ w, (resolveGroup one g c).filter (fun p => p.2 == Fate.picked) = [(w, Fate.picked)] := by
  obtain ⟨w, _, _, hr⟩ := resolveGroup_shape one g c hg
  refine ⟨w, ?_⟩
  rw [hr]
  simp only [filter_cons, beq_self_eq_true, if_true]
  congr
  rw [filter_eq_nil_iff]
  intro p hp
  obtain ⟨h, _, rfl⟩ := mem_map.1 hp
  simp [fateOf_ne_picked]

theorem padTo_congr {one : Int} {n : Nat} {a b : HeadInfo} (e : a.scores = b.scores) :
    padTo one n a.scores = padTo one n b.scores := by rw [e]

/-- the picked head's padded vector is maximal in its group -/
theorem resolveGroup_max (one : Int) (g : List HeadInfo) (c : Nat) (w : HeadInfo)
    (hw : (w, Fate.picked) ∈ resolveGroup one g c) (h : HeadInfo) (hh : h ∈ g) :
    lexLe (padTo one (maxLen g) h.scores) (padTo one (maxLen g) w.scores) = true := by
  have hg : g ≠ [] := ne_nil_of_mem hh
  obtain ⟨h0, rest, w', e, hw', hr⟩ := resolveGroup_spec one g c hg
  rw [hr] at hw
  have hww : w = w' := by
    rcases mem_cons.1 hw with h1 | h1
    · exact (Prod.mk.inj h1).1
    · obtain ⟨x, _, hx⟩ := mem_map.1 h1
      exact absurd (Prod.mk.inj hx).2 (fateOf_ne_picked w' x)
  subst hww
  have hmax := head_sortStable_max (keyGe one (maxLen g)) (keyGe_total one _) (keyGe_trans one _) e (keyGe_refl one _) h hh
  simp only [keyGe] at hmax
  rw [padTo_congr (mem_tieSet hw').2]
  exact hmax

/-! ### all groups -/

theorem resolveGroup_singleton (one : Int) (h : HeadInfo) (c : Nat) : resolveGroup one [h] c = [(h, Fate.picked)] := by
  simp [resolveGroup, ordered, sortStable, insertBy, tieSet, Nat.mod_one]

/-- the single-head shortcut agrees with the general path -/
theorem resolveFates_eq (one : Int) (hs : List HeadInfo) (cs : List Nat) :
    resolveFates one hs cs = resolveGroups one (groupsOf hs) cs := by
  match hs with
  | [] => simp [resolveFates, groupsOf, resolveGroups]
  | [h] => simp [resolveFates, groupsOf, addHead, resolveGroups, resolveGroup_singleton]
  | _ :: _ :: _ => simp [resolveFates]

theorem mem_resolveGroups {one : Int} {p : HeadInfo × Fate} : ∀ {gs : Groups} {cs : List Nat},
    p ∈ resolveGroups one gs cs → ∃ q ∈ gs, ∃ c, p ∈ resolveGroup one q.2 c
  | [], _, h => by simp [resolveGroups] at h
  | (l, g) :: gs, cs, h => by
    simp only [resolveGroups, mem_append] at h
    rcases h with h | h
    · exact ⟨(l, g), mem_cons_self, _, h⟩
    · obtain ⟨q, hq, c, hc⟩ := mem_resolveGroups h
      exact ⟨q, mem_cons_of_mem _ hq, c, hc⟩

def LoopsOk (gs : Groups) : Prop := ∀ q ∈ gs, ∀ h ∈ q.2, h.loop = q.1

theorem filter_resolveGroups (one : Int) (l : Nat) (g : List HeadInfo) : ∀ (gs : Groups) (cs : List Nat),
    (gkeys gs).Nodup → LoopsOk gs → (l, g) ∈ gs →
    (resolveGroups one gs cs).filter (fun p => p.1.loop == l) = resolveGroup one g (cs.getD ((gkeys gs).idxOf l) 0)
  | [], _, _, _, h => by simp at h
  | (k, g') :: gs, cs, hn, hok, hm => by
    have hn' : k ∉ gkeys gs ∧ (gkeys gs).Nodup := by simpa [gkeys] using hn
    have hok' : LoopsOk gs := fun q hq => hok q (mem_cons_of_mem _ hq)
    have hrest : ∀ (l' : Nat), l' ∉ gkeys gs → ∀ cs', (resolveGroups one gs cs').filter (fun p => p.1.loop == l') = [] := by
      intro l' hl' cs'
      rw [filter_eq_nil_iff]
      intro p hp
      obtain ⟨q, hq, c, hc⟩ := mem_resolveGroups hp
      have : p.1.loop = q.1 := hok' q hq _ (mem_resolveGroup_fst hc)
      simp only [beq_iff_eq, this]
      intro e
      exact hl' (e ▸ mem_map_of_mem hq)
    simp only [resolveGroups, filter_append]
    rcases mem_cons.1 hm with e | hm'
    · obtain ⟨rfl, rfl⟩ := Prod.mk.inj e
      rw [hrest l hn'.1, append_nil]
      have : (gkeys ((l, g) :: gs)).idxOf l = 0 := by simp [gkeys]
      rw [this]
      have hall : ∀ p ∈ resolveGroup one g (cs.headD 0), (fun p : HeadInfo × Fate => p.1.loop == l) p = true := by
        intro p hp
        simp only [beq_iff_eq]
        exact hok (l, g) mem_cons_self _ (mem_resolveGroup_fst hp)
      rw [filter_eq_self.2 hall]
      cases cs <;> simp
    · have hkl : k ≠ l := by
        intro e; subst e
        exact hn'.1 (mem_map_of_mem hm' : (k, g).1 ∈ gkeys gs)
      have hA : (resolveGroup one g' (cs.headD 0)).filter (fun p => p.1.loop == l) = [] := by
        rw [filter_eq_nil_iff]
        intro p hp
        have : p.1.loop = k := hok (k, g') mem_cons_self _ (mem_resolveGroup_fst hp)
        simp [this, hkl]
      rw [hA, nil_append, filter_resolveGroups one l g gs cs.tail hn'.2 hok' hm']
      have : (gkeys ((k, g') :: gs)).idxOf l = (gkeys gs).idxOf l + 1 := by
        have hb : (k == l) = false := by simp [hkl]
        simp [gkeys, idxOf_cons, hb]
      rw [this]
      cases cs <;> simp

theorem groupsOf_loopsOk (hs : List HeadInfo) : LoopsOk (groupsOf hs) := by
  intro q hq h hh
  rw [groupsOf_mem hs q hq] at hh
  simpa using (mem_filter.1 hh).2

theorem resolveGroups_perm (one : Int) : ∀ (gs : Groups) (cs : List Nat), (∀ q ∈ gs, (q.2.map (·.uid)).Nodup) →
    (resolveGroups one gs cs).map (·.1) ~ (gs.map (·.2)).flatten
  | [], _, _ => by simp [resolveGroups]
  | (k, g) :: gs, cs, hn => by
    simp only [resolveGroups, map_append, map_cons, flatten_cons]
    exact (resolveGroup_perm one g _ (hn (k, g) mem_cons_self)).append
      (resolveGroups_perm one gs cs.tail (fun q hq => hn q (mem_cons_of_mem _ hq)))

/-! ### the whole function -/

theorem mem_fates_fst {one : Int} {hs : List HeadInfo} {cs : List Nat} {p : HeadInfo × Fate}
    (hp : p ∈ resolveFates one hs cs) : p.1 ∈ hs := by
  rw [resolveFates_eq] at hp
  obtain ⟨q, hq, c, hc⟩ := mem_resolveGroups hp
  have := mem_resolveGroup_fst hc
  rw [groupsOf_mem hs q hq] at this
  exact (mem_filter.1 this).1

/-- the fates of the heads of loop `l` are one group iteration on exactly these heads -/
theorem fates_of_loop (one : Int) (hs : List HeadInfo) (cs : List Nat) (l : Nat) (hl : ∃ h ∈ hs, h.loop = l) :
    (resolveFates one hs cs).filter (fun p => p.1.loop == l) =
      resolveGroup one (hs.filter (fun h => h.loop == l)) (cs.getD (loopIndex hs l) 0) := by
  obtain ⟨h, hh, rfl⟩ := hl
  obtain ⟨g, hg⟩ := groupsOf_cover hs h hh
  have hge := groupsOf_mem hs _ hg
  simp only at hge
  rw [resolveFates_eq, filter_resolveGroups one h.loop g (groupsOf hs) cs (groupsOf_keys_nodup hs) (groupsOf_loopsOk hs) hg, hge]
  rfl

theorem fateOf_cowin {w h : HeadInfo} : fateOf w h = Fate.cowin ↔ sameEv w h = true := by
  unfold fateOf
  cases e : sameEv w h with
  | true => simp
  | false =>
    simp only [Bool.false_eq_true, if_false, iff_false]
    split <;> simp

theorem sameEv_ev {w h : HeadInfo} (e : sameEv w h = true) : h.ev = w.ev := by
  unfold sameEv at e
  simp only [Bool.and_eq_true, beq_iff_eq] at e
  exact e.1

/-- identical Start events of two action instances agree (the flows will share the started action) -/
theorem sameEv_of_start {w h : HeadInfo} (e : h.ev = w.ev) (hs : w.isStart = true) : sameEv w h = true := by
  unfold sameEv
  cases w.act <;> cases h.act <;> simp [e, hs]

/-- events that are not both bound to an action instance agree when name and arguments agree -/
theorem sameEv_of_noact {w h : HeadInfo} (e : h.ev = w.ev) (hn : w.act = none ∨ h.act = none) : sameEv w h = true := by
  unfold sameEv
  rcases hn with hn | hn <;> rw [hn] <;> cases w.act <;> cases h.act <;> simp [e]

/-- events of one and the same action instance agree when name and arguments agree -/
theorem sameEv_of_same_action {w h : HeadInfo} (e : h.ev = w.ev) (ha : h.act = w.act) : sameEv w h = true := by
  unfold sameEv
  rw [ha]
  cases w.act <;> simp [e]

/-- every entry of a group's result is the picked head or another head classified against it -/
theorem resolveGroup_cases (one : Int) (g : List HeadInfo) (c : Nat) (hg : g ≠ []) :
    ∃ w, (w, Fate.picked) ∈ resolveGroup one g c ∧
      (∀ p ∈ resolveGroup one g c, p = (w, Fate.picked) ∨ (p.1.uid ≠ w.uid ∧ p.2 = fateOf w p.1)) ∧
      (∀ h ∈ g, h.uid ≠ w.uid → (h, fateOf w h) ∈ resolveGroup one g c) := by
  obtain ⟨w, _, _, hr⟩ := resolveGroup_shape one g c hg
  refine ⟨w, by rw [hr]; exact mem_cons_self, ?_, ?_⟩
  · intro p hp
    rw [hr] at hp
    rcases mem_cons.1 hp with rfl | hp
    · exact Or.inl rfl
    · obtain ⟨h, hh, rfl⟩ := mem_map.1 hp
      refine Or.inr ⟨?_, rfl⟩
      simpa using (mem_filter.1 hh).2
  · intro h hh hne
    rw [hr]
    refine mem_cons_of_mem _ (mem_map.2 ⟨h, mem_filter.2 ⟨mem_ordered.2 hh, ?_⟩, rfl⟩)
    simpa using hne

theorem picked_unique_in_group {one : Int} {g : List HeadInfo} {c : Nat} {w w' : HeadInfo}
    (h1 : (w, Fate.picked) ∈ resolveGroup one g c) (h2 : (w', Fate.picked) ∈ resolveGroup one g c) : w = w' := by
  have hg : g ≠ [] := ne_nil_of_mem (mem_resolveGroup_fst h1)
  obtain ⟨w0, _, hall, _⟩ := resolveGroup_cases one g c hg
  have key : ∀ x, (x, Fate.picked) ∈ resolveGroup one g c → x = w0 := by
    intro x hx
    rcases hall _ hx with e | ⟨_, e⟩
    · exact (Prod.mk.inj e).1
    · exact absurd e.symm (fateOf_ne_picked w0 x)
  rw [key w h1, key w' h2]

theorem filter_same_loop_ne_nil {hs : List HeadInfo} {l : Nat} (hl : ∃ h ∈ hs, h.loop = l) :
    hs.filter (fun h => h.loop == l) ≠ [] := by
  obtain ⟨h, hh, e⟩ := hl
  exact ne_nil_of_mem (mem_filter.2 ⟨hh, by simpa using e⟩)

theorem nodup_uid_filter {hs : List HeadInfo} (p : HeadInfo → Bool) (hn : (hs.map (·.uid)).Nodup) :
    ((hs.filter p).map (·.uid)).Nodup :=
  hn.sublist ((filter_sublist).map _)

theorem fates_perm (one : Int) (hs : List HeadInfo) (cs : List Nat) (hn : (hs.map (·.uid)).Nodup) :
    (resolveFates one hs cs).map (·.1) ~ hs := by
  rw [resolveFates_eq]
  refine (resolveGroups_perm one _ cs ?_).trans (groupsOf_perm hs)
  intro q hq
  rw [groupsOf_mem hs q hq]
  exact nodup_uid_filter _ hn

theorem pair_unique_of_nodup_fst {α β : Type} : ∀ {l : List (α × β)}, (l.map (·.1)).Nodup →
    ∀ {a : α} {b b' : β}, (a, b) ∈ l → (a, b') ∈ l → b = b'
  | [], _, _, _, _, h, _ => by simp at h
  | x :: xs, hn, a, b, b', h1, h2 => by
    simp only [map_cons, nodup_cons] at hn
    rcases mem_cons.1 h1 with e1 | h1 <;> rcases mem_cons.1 h2 with e2 | h2
    · rw [← e1] at e2; exact (Prod.mk.inj e2).2.symm
    · exact absurd (by rw [← e1]; exact mem_map_of_mem (f := (·.1)) h2 : x.1 ∈ xs.map (·.1)) hn.1
    · exact absurd (by rw [← e2]; exact mem_map_of_mem (f := (·.1)) h1 : x.1 ∈ xs.map (·.1)) hn.1
    · exact pair_unique_of_nodup_fst hn.2 h1 h2

/-! ### `state.actions` -/

theorem scopeOf_incr_self (b n : Nat) : ∀ t : ActTbl, scopeOf b (incr b n t) = (scopeOf b t).map (· + n)
  | [] => rfl
  | p :: t => by
    have ih := scopeOf_incr_self b n t
    by_cases e : p.1 = b
    · simp [scopeOf, incr, e]
    · have hb : (p.1 == b) = false := by simp [e]
      simp only [scopeOf, incr, map_cons, e, if_false, find?_cons, hb] at ih ⊢
      exact ih

theorem scopeOf_setCount_self (b n : Nat) : ∀ t : ActTbl, scopeOf b (setCount b n t) = (scopeOf b t).map (fun _ => n)
  | [] => rfl
  | p :: t => by
    have ih := scopeOf_setCount_self b n t
    by_cases e : p.1 = b
    · simp [scopeOf, setCount, e]
    · have hb : (p.1 == b) = false := by simp [e]
      simp only [scopeOf, setCount, map_cons, e, if_false, find?_cons, hb] at ih ⊢
      exact ih

theorem scopeOf_del_ne {a b : Nat} (hne : a ≠ b) : ∀ t : ActTbl, scopeOf b (del a t) = scopeOf b t
  | [] => rfl
  | p :: t => by
    have ih := scopeOf_del_ne hne t
    unfold scopeOf del at ih ⊢
    by_cases e : p.1 = a
    · have hk : (p.1 != a) = false := by simp [e]
      have hb : (p.1 == b) = false := by simp [e, hne]
      simp only [filter_cons, hk, Bool.false_eq_true, if_false, find?_cons, hb]
      exact ih
    · have hk : (p.1 != a) = true := by simp [e]
      simp only [filter_cons, hk, if_true, find?_cons]
      cases hb : (p.1 == b) with
      | true => rfl
      | false => exact ih

theorem scopeOf_del_self (a : Nat) (t : ActTbl) : scopeOf a (del a t) = none := by
  simp only [scopeOf, del, Option.map_eq_none_iff, find?_eq_none]
  intro p hp
  have := (mem_filter.1 hp).2
  simpa using this

theorem cowinRefs_cons_picked (w : HeadInfo) (fs : List (HeadInfo × Fate)) : cowinRefs ((w, Fate.picked) :: fs) = cowinRefs fs := by
  simp [cowinRefs, filter_cons]

theorem scope_after_others (w : HeadInfo) (b : Nat) (hb : w.act = some b) : ∀ (L : List HeadInfo) (t : ActTbl),
    (∀ h ∈ L, h.act ≠ some b) →
    scopeOf b (applyFates (some w) (L.map (fun h => (h, fateOf w h))) t) =
      (scopeOf b t).map (· + cowinRefs (L.map (fun h => (h, fateOf w h))))
  | [], t, _ => by simp [applyFates, cowinRefs]
  | h :: L, t, hd => by
    have hd' : ∀ x ∈ L, x.act ≠ some b := fun x hx => hd x (mem_cons_of_mem _ hx)
    have hh : h.act ≠ some b := hd h mem_cons_self
    simp only [map_cons]
    cases hf : fateOf w h with
    | picked => exact absurd hf (fateOf_ne_picked w h)
    | cowin =>
      simp only [applyFates]
      rw [scope_after_others w b hb L _ hd']
      cases ha : h.act with
      | none =>
        simp [cowinEffect, hb, ha, cowinRefs, filter_cons]
      | some a =>
        have hab : a ≠ b := by intro e; apply hh; rw [ha, e]
        simp only [cowinEffect, hb, ha, hab, if_false]
        cases ho : h.owns with
        | true =>
          simp only [if_true]
          rw [scopeOf_del_ne hab, scopeOf_incr_self]
          cases scopeOf b t with
          | none => rfl
          | some n => simp [cowinRefs, filter_cons, ha, ho]; omega
        | false =>
          simp [cowinRefs, filter_cons, ha, ho]
    | caught =>
      simp only [applyFates]
      rw [scope_after_others w b hb L _ hd']
      simp [cowinRefs, filter_cons]
    | aborted =>
      simp only [applyFates]
      rw [scope_after_others w b hb L _ hd']
      simp [cowinRefs, filter_cons]

/-- scope count of the winning action after one group iteration -/
theorem group_scope_count (one : Int) (g : List HeadInfo) (c : Nat) (t : ActTbl) (w : HeadInfo) (b : Nat)
    (hw : (w, Fate.picked) ∈ resolveGroup one g c) (hb : w.act = some b) (hst : w.isStart = true)
    (hin : (scopeOf b t).isSome = true) (hd : ∀ h ∈ g, h.uid ≠ w.uid → h.act ≠ some b) :
    scopeOf b (applyFates none (resolveGroup one g c) t) = some (1 + cowinRefs (resolveGroup one g c)) := by
  have hg : g ≠ [] := ne_nil_of_mem (mem_resolveGroup_fst hw)
  obtain ⟨w0, _, _, hr⟩ := resolveGroup_shape one g c hg
  have hw0 : (w0, Fate.picked) ∈ resolveGroup one g c := by rw [hr]; exact mem_cons_self
  have e : w0 = w := picked_unique_in_group hw0 hw
  rw [e] at hr
  rw [hr, cowinRefs_cons_picked]
  simp only [applyFates]
  rw [scope_after_others w b hb]
  · simp only [pickedEffect, hb, hst, if_true]
    rw [scopeOf_setCount_self]
    cases hsc : scopeOf b t with
    | none => rw [hsc] at hin; simp at hin
    | some n => simp <;> omega
  · intro h hh
    have := mem_filter.1 hh
    exact hd h (mem_ordered.1 this.1) (by simpa using this.2)

theorem cowinRefs_eq_count : ∀ (fs : List (HeadInfo × Fate)),
    (∀ p ∈ fs, p.2 = Fate.cowin → p.1.act.isSome = true ∧ p.1.nrefs = 1 ∧ p.1.owns = true) →
    cowinRefs fs = (fs.filter (fun p => p.2 == Fate.cowin)).length
  | [], _ => rfl
  | p :: fs, h => by
    have ih := cowinRefs_eq_count fs (fun q hq => h q (mem_cons_of_mem _ hq))
    unfold cowinRefs at ih ⊢
    by_cases e : p.2 = Fate.cowin
    · obtain ⟨h1, h2, h3⟩ := h p mem_cons_self e
      simp only [filter_cons, e, beq_self_eq_true, h1, h3, Bool.and_self, if_true, map_cons, sum_cons, length_cons, h2, ih]
      omega
    · have hb : (p.2 == Fate.cowin) = false := by simp [e]
      simp only [filter_cons, hb, Bool.false_and, Bool.false_eq_true, if_false]
      exact ih

/-! ### `state.actions` across the groups -/

theorem scopeOf_incr_ne {a b : Nat} (n : Nat) (hne : a ≠ b) : ∀ t : ActTbl, scopeOf b (incr a n t) = scopeOf b t
  | [] => rfl
  | p :: t => by
    have ih := scopeOf_incr_ne n hne t
    unfold scopeOf incr at ih ⊢
    by_cases e : p.1 = a
    · have hb : (p.1 == b) = false := by simp [e, hne]
      simp only [map_cons, e, if_true, find?_cons]
      have hb' : (a == b) = false := by simp [hne]
      simp only [hb']
      simpa [e] using ih
    · simp only [map_cons, e, if_false, find?_cons]
      cases hb : (p.1 == b) with
      | true => rfl
      | false => exact ih

theorem scopeOf_setCount_ne {a b : Nat} (n : Nat) (hne : a ≠ b) : ∀ t : ActTbl, scopeOf b (setCount a n t) = scopeOf b t
  | [] => rfl
  | p :: t => by
    have ih := scopeOf_setCount_ne n hne t
    unfold scopeOf setCount at ih ⊢
    by_cases e : p.1 = a
    · have hb' : (a == b) = false := by simp [hne]
      simp only [map_cons, e, if_true, find?_cons, hb']
      simpa [e] using ih
    · simp only [map_cons, e, if_false, find?_cons]
      cases hb : (p.1 == b) with
      | true => rfl
      | false => exact ih

theorem pickedEffect_frame (w : HeadInfo) (b : Nat) (h : w.act ≠ some b) (t : ActTbl) :
    scopeOf b (pickedEffect w t) = scopeOf b t := by
  unfold pickedEffect
  cases ha : w.act with
  | none => rfl
  | some a =>
    have : a ≠ b := by intro e; apply h; rw [ha, e]
    simp only
    split
    · exact scopeOf_setCount_ne 1 this t
    · rfl

theorem cowinEffect_frame (w h : HeadInfo) (b : Nat) (hw : w.act ≠ some b) (hh : h.act ≠ some b) (t : ActTbl) :
    scopeOf b (cowinEffect w h t) = scopeOf b t := by
  unfold cowinEffect
  cases hwa : w.act with
  | none => rfl
  | some x =>
    cases hha : h.act with
    | none => rfl
    | some a =>
      have h1 : x ≠ b := by intro e; apply hw; rw [hwa, e]
      have h2 : a ≠ b := by intro e; apply hh; rw [hha, e]
      simp only
      split
      · rfl
      · split
        · rw [scopeOf_del_ne h2, scopeOf_incr_ne _ h1]
        · rfl

/-- fates of heads that do not hold action `b`, processed under a current winner that does not hold it either,
    leave `b` alone -/
theorem applyFates_frame (b : Nat) : ∀ (fs : List (HeadInfo × Fate)) (cw : Option HeadInfo) (t : ActTbl),
    (∀ p ∈ fs, p.1.act ≠ some b) → (∀ w, cw = some w → w.act ≠ some b) →
    scopeOf b (applyFates cw fs t) = scopeOf b t
  | [], _, _, _, _ => by simp [applyFates]
  | (h, f) :: fs, cw, t, hall, hcw => by
    have hh : h.act ≠ some b := hall (h, f) mem_cons_self
    have hall' : ∀ p ∈ fs, p.1.act ≠ some b := fun p hp => hall p (mem_cons_of_mem _ hp)
    cases f with
    | picked =>
      simp only [applyFates]
      rw [applyFates_frame b fs (some h) _ hall' (by intro w e; cases e; exact hh), pickedEffect_frame h b hh]
    | cowin =>
      cases cw with
      | none => simp only [applyFates]; exact applyFates_frame b fs none t hall' (by intro w e; cases e)
      | some w =>
        simp only [applyFates]
        rw [applyFates_frame b fs (some w) _ hall' hcw, cowinEffect_frame w h b (hcw w rfl) hh]
    | caught =>
      cases cw <;> simp only [applyFates] <;> exact applyFates_frame b fs _ t hall' hcw
    | aborted =>
      cases cw <;> simp only [applyFates] <;> exact applyFates_frame b fs _ t hall' hcw

/-- a list that starts with a picked entry forgets the previous winner -/
theorem applyFates_picked_head (cw cw' : Option HeadInfo) (w : HeadInfo) (r : List (HeadInfo × Fate)) (t : ActTbl) :
    applyFates cw ((w, Fate.picked) :: r) t = applyFates cw' ((w, Fate.picked) :: r) t := by
  cases cw <;> cases cw' <;> simp [applyFates]

theorem applyFates_append : ∀ (a rest : List (HeadInfo × Fate)) (cw : Option HeadInfo) (t : ActTbl),
    ∃ cw', applyFates cw (a ++ rest) t = applyFates cw' rest (applyFates cw a t)
  | [], rest, cw, t => ⟨cw, by simp [applyFates]⟩
  | (h, f) :: a, rest, cw, t => by
    cases f with
    | picked =>
      obtain ⟨cw', e⟩ := applyFates_append a rest (some h) (pickedEffect h t)
      exact ⟨cw', by simp only [cons_append, applyFates]; exact e⟩
    | cowin =>
      cases cw with
      | none =>
        obtain ⟨cw', e⟩ := applyFates_append a rest none t
        exact ⟨cw', by simp only [cons_append, applyFates]; exact e⟩
      | some w =>
        obtain ⟨cw', e⟩ := applyFates_append a rest (some w) (cowinEffect w h t)
        exact ⟨cw', by simp only [cons_append, applyFates]; exact e⟩
    | caught =>
      obtain ⟨cw', e⟩ := applyFates_append a rest cw t
      exact ⟨cw', by cases cw <;> simp only [cons_append, applyFates] <;> exact e⟩
    | aborted =>
      obtain ⟨cw', e⟩ := applyFates_append a rest cw t
      exact ⟨cw', by cases cw <;> simp only [cons_append, applyFates] <;> exact e⟩

theorem resolveGroups_head (one : Int) : ∀ (gs : Groups) (cs : List Nat),
    resolveGroups one gs cs = [] ∨ ∃ w r, resolveGroups one gs cs = (w, Fate.picked) :: r
  | [], _ => Or.inl (by simp [resolveGroups])
  | (k, g) :: gs, cs => by
    simp only [resolveGroups]
    by_cases hg : g = []
    · subst hg
      rw [resolveGroup_nil, nil_append]
      exact resolveGroups_head one gs cs.tail
    · obtain ⟨w, _, _, hr⟩ := resolveGroup_shape one g (cs.headD 0) hg
      exact Or.inr ⟨w, _, by rw [hr]; rfl⟩

/-- a run of later groups none of whose heads holds `b` leaves `b` alone, whoever won before -/
theorem applyFates_groups_frame (one : Int) (b : Nat) (gs : Groups) (cs : List Nat) (cw : Option HeadInfo) (t : ActTbl)
    (hall : ∀ p ∈ resolveGroups one gs cs, p.1.act ≠ some b) :
    scopeOf b (applyFates cw (resolveGroups one gs cs) t) = scopeOf b t := by
  rcases resolveGroups_head one gs cs with e | ⟨w, r, e⟩
  · rw [e]; simp [applyFates]
  · rw [e] at hall ⊢
    rw [applyFates_picked_head cw none w r t]
    exact applyFates_frame b _ none t hall (by intro w e; cases e)

/-- scope count of a winner's action after the whole call -/
theorem groups_scope_count (one : Int) (w : HeadInfo) (b : Nat) (hb : w.act = some b) (hst : w.isStart = true) :
    ∀ (gs : Groups) (cs : List Nat) (t : ActTbl), (gkeys gs).Nodup → LoopsOk gs →
    (w, Fate.picked) ∈ resolveGroups one gs cs → (scopeOf b t).isSome = true →
    (∀ q ∈ gs, ∀ h ∈ q.2, h ≠ w → h.act ≠ some b) →
    scopeOf b (applyFates none (resolveGroups one gs cs) t) =
      some (1 + cowinRefs ((resolveGroups one gs cs).filter (fun p => p.1.loop == w.loop)))
  | [], _, _, _, _, hw, _, _ => by simp [resolveGroups] at hw
  | (k, g) :: gs, cs, t, hn, hok, hw, hin, hd => by
    have hn' : k ∉ gkeys gs ∧ (gkeys gs).Nodup := by simpa [gkeys] using hn
    have hok' : LoopsOk gs := fun q hq => hok q (mem_cons_of_mem _ hq)
    have hd' : ∀ q ∈ gs, ∀ h ∈ q.2, h ≠ w → h.act ≠ some b := fun q hq => hd q (mem_cons_of_mem _ hq)
    simp only [resolveGroups, mem_append] at hw ⊢
    rw [filter_append]
    rcases hw with hw | hw
    · -- the winner is in the first group
      have hwg : w ∈ g := mem_resolveGroup_fst hw
      have hwl : w.loop = k := hok (k, g) mem_cons_self w hwg
      have hrest : ∀ p ∈ resolveGroups one gs cs.tail, p.1.loop ≠ w.loop ∧ p.1.act ≠ some b := by
        intro p hp
        obtain ⟨q, hq, c, hc⟩ := mem_resolveGroups hp
        have hpq := mem_resolveGroup_fst hc
        have hl : p.1.loop = q.1 := hok' q hq _ hpq
        have hne : p.1.loop ≠ w.loop := by
          rw [hl, hwl]; intro e; exact hn'.1 (e ▸ mem_map_of_mem hq)
        exact ⟨hne, hd' q hq _ hpq (by intro e; exact hne (by rw [e]))⟩
      have hf1 : (resolveGroup one g (cs.headD 0)).filter (fun p => p.1.loop == w.loop) = resolveGroup one g (cs.headD 0) := by
        rw [filter_eq_self]
        intro p hp
        simp only [beq_iff_eq]
        rw [hwl]; exact hok (k, g) mem_cons_self _ (mem_resolveGroup_fst hp)
      have hf2 : (resolveGroups one gs cs.tail).filter (fun p => p.1.loop == w.loop) = [] := by
        rw [filter_eq_nil_iff]
        intro p hp; simpa using (hrest p hp).1
      rw [hf1, hf2, append_nil]
      obtain ⟨cw', e⟩ := applyFates_append (resolveGroup one g (cs.headD 0)) (resolveGroups one gs cs.tail) none t
      rw [e, applyFates_groups_frame one b gs cs.tail cw' _ (fun p hp => (hrest p hp).2)]
      exact group_scope_count one g _ t w b hw hb hst hin
        (fun h hh hu => hd (k, g) mem_cons_self h hh (by intro e; exact hu (by rw [e])))
    · -- the winner is in a later group
      obtain ⟨q, hq, c, hc⟩ := mem_resolveGroups hw
      have hwl : w.loop = q.1 := hok' q hq _ (mem_resolveGroup_fst hc)
      have hkl : k ≠ w.loop := by
        rw [hwl]; intro e; exact hn'.1 (e ▸ mem_map_of_mem hq)
      have hfirst : ∀ p ∈ resolveGroup one g (cs.headD 0), p.1.loop ≠ w.loop ∧ p.1.act ≠ some b := by
        intro p hp
        have hpg := mem_resolveGroup_fst hp
        have hl : p.1.loop = k := hok (k, g) mem_cons_self _ hpg
        have hne : p.1.loop ≠ w.loop := by rw [hl]; exact hkl
        exact ⟨hne, hd (k, g) mem_cons_self _ hpg (by intro e; exact hne (by rw [e]))⟩
      have hf1 : (resolveGroup one g (cs.headD 0)).filter (fun p => p.1.loop == w.loop) = [] := by
        rw [filter_eq_nil_iff]
        intro p hp; simpa using (hfirst p hp).1
      rw [hf1, nil_append]
      obtain ⟨cw', e⟩ := applyFates_append (resolveGroup one g (cs.headD 0)) (resolveGroups one gs cs.tail) none t
      rw [e]
      have hsc : scopeOf b (applyFates none (resolveGroup one g (cs.headD 0)) t) = scopeOf b t :=
        applyFates_frame b _ none t (fun p hp => (hfirst p hp).2) (by intro w e; cases e)
      rcases resolveGroups_head one gs cs.tail with e2 | ⟨w2, r, e2⟩
      · rw [e2] at hw; simp at hw
      · have := groups_scope_count one w b hb hst gs cs.tail (applyFates none (resolveGroup one g (cs.headD 0)) t) hn'.2 hok' hw
          (by rw [hsc]; exact hin) hd'
        rw [e2] at this ⊢
        rw [applyFates_picked_head cw' none w2 r _]
        exact this

/-! ### exact order of matcher scores, strict lexicographic order -/

theorem pow_cross_lt {num den : Nat} (h0 : 0 < num) (h1 : num < den) {ka kb : Nat} (hk : ka < kb) :
    num ^ kb * den ^ ka < num ^ ka * den ^ kb := by
  obtain ⟨e, he, rfl⟩ : ∃ e, e ≠ 0 ∧ kb = ka + e := ⟨kb - ka, by omega, by omega⟩
  have hd : num ^ e < den ^ e := Nat.pow_lt_pow_left h1 he
  have hpos : 0 < num ^ ka * den ^ ka := Nat.mul_pos (Nat.pow_pos h0) (Nat.pow_pos (by omega))
  have := (Nat.mul_lt_mul_left hpos).2 hd
  calc num ^ (ka + e) * den ^ ka = num ^ ka * den ^ ka * num ^ e := by
        rw [Nat.pow_add]; ac_rfl
    _ < num ^ ka * den ^ ka * den ^ e := this
    _ = num ^ ka * den ^ (ka + e) := by rw [Nat.pow_add den]; ac_rfl

/-- same (positive) priority, fewer unmentioned parameters ⇒ strictly larger score -/
theorem mlt_of_more_unmentioned {num den : Nat} (h0 : 0 < num) (h1 : num < den) (a b : MScore)
    (hp : a.prio = b.prio) (hpos : 0 < a.pnum) (hk : a.k < b.k) : mlt num den b a := by
  have hpn : b.pnum = a.pnum := by simp [MScore.pnum, hp]
  have hpe : b.pexp = a.pexp := by simp [MScore.pexp, hp]
  unfold mlt
  rw [hpn, hpe]
  apply Int.mul_lt_mul_of_pos_left _ hpos
  have h2 : 0 < 2 ^ a.pexp := Nat.pow_pos (by omega)
  have := (Nat.mul_lt_mul_right h2).2 (pow_cross_lt h0 h1 hk)
  exact Int.ofNat_lt.2 this

theorem mlt_irrefl (num den : Nat) (a : MScore) : ¬ mlt num den a a := by
  unfold mlt; exact Int.lt_irrefl _

theorem lexLe_prefix_lt (pre : List Int) {x y : Int} (h : y < x) (s t : List Int) :
    lexLe (pre ++ x :: s) (pre ++ y :: t) = false := by
  induction pre with
  | nil =>
    have h1 : ¬ x < y := by omega
    simp [lexLe, h1, h]
  | cons a pre ih =>
    simp only [cons_append, lexLe, Int.lt_irrefl, if_false]
    exact ih

theorem padTo_split (one : Int) (n : Nat) (pre : List Int) (x : Int) (s : List Int) :
    padTo one n (pre ++ x :: s) = pre ++ x :: (s ++ replicate (n - (pre ++ x :: s).length) one) := by
  simp [padTo]

theorem mem_maxLen_le {g : List HeadInfo} {h : HeadInfo} (hh : h ∈ g) : h.scores.length ≤ maxLen g := by
  induction g with
  | nil => simp at hh
  | cons x xs ih =>
    simp only [maxLen]
    rcases mem_cons.1 hh with rfl | hh
    · exact Nat.le_max_left _ _
    · exact Nat.le_trans (ih hh) (Nat.le_max_right _ _)

/-- a vector that ends where the other one continues is padded with `one` there -/
theorem padTo_short (one : Int) (n : Nat) (pre : List Int) (hn : pre.length < n) :
    padTo one n pre = pre ++ one :: replicate (n - pre.length - 1) one := by
  unfold padTo
  obtain ⟨m, hm⟩ : ∃ m, n - pre.length = m + 1 := ⟨n - pre.length - 1, by omega⟩
  rw [hm, replicate_succ]
  congr

end NemoVerif.Conflict
