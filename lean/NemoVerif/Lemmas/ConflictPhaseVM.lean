/-
  C05 on CoreVM, matching phase of one internal event: `processEvent` (the body of `while state.internal_events` in
  `run_to_completion`) is split — by a proved equation — into
      eventPrelude (active loops, ContextUpdate, `_process_internal_events_without_default_matchers`, candidates)
      scanCands    (the candidate loop with `_compute_event_matching_score`)
      matchTail    (UnhandledEvent, `_handle_event_matching`, failing / erroring heads, `_advance_head_front`)
  and the frame statement "a flow whose match did not fit the event is left untouched" is proved for scan + tail.

  NOTE for a change of `CoreVM.processEvent`: `eventPrelude`, `scanCands`, `matchTail` are VERBATIM copies of its three parts and
  `processEvent_split` proves that they compose to it — when the text of `processEvent` changes, re-copy the changed part from
  Models/CoreVM/Run.lean (the equation tells which one: it stops being provable) and adjust `FrM.matchTail`, which navigates the
  tail by hand (jp1 = continuation after the UnhandledEvent `if`, jp2 = continuation after `updateActionStatusByEvent`).
  Nothing here unfolds `handleEventMatching` or `advanceHeadFront` (their frames `FrM.handleEventMatching`, C10's
  `Fr.advanceHeadFront` are used as lemmas).
-/
import NemoVerif.Lemmas.ConflictFrameVM

set_option linter.unusedSimpArgs false
set_option linter.unusedVariables false

namespace NemoVerif.CoreVM
open NemoVerif NemoVerif.CoreIndex

/-- the candidate scan of `processEvent` (verbatim) -/
def scanCands (event : Event) (cands : List Key) (handled0 : List String) : M (List String × List Key × List Key × List Key) := do
  let mut handled := handled0
  let mut headsMatching : List Key := []
  let mut headsFailing : List Key := []
  let mut headsErroring : List Key := []
  for k in cands do
    let some i ← getInst? k.1 | pyRaise "KeyError" k.1
    let some hd := i.findHead k.2 | pyRaise "KeyError" k.2
    let cfg ← cfgOfInst k.1
    match cfg.elements[hd.pos]? with
    | some (.matchOp spec _) =>
      let outcome ← attemptPy (eventMatchingScore k.1 spec event)
      match outcome with
      | .error (c, m) =>
        -- a runtime error while evaluating the match statement fails only the flow of this head
        pushEvent (colangErrorEvent c m)
        modifyRest fun r => { r with caught := r.caught ++ [s!"match: {c}: {m}"] }
        headsErroring := headsErroring ++ [k]
      | .ok (.matched sc) =>
        modHeadX k fun y => { y with scores := event.scores ++ [sc] }
        headsMatching := headsMatching ++ [k]
        if event.ev.name = "StartFlow" then handled := handled ++ ["all_loops"]
        else
          match (← getInstX k.1).loopId with
          | some l => handled := handled ++ [l]
          | none => pyRaise "AssertionError" "loop_id"
      | .ok .failed => headsFailing := headsFailing ++ [k]
      | .ok .noMatch => pure ()
    | _ => pure ()
  return (handled, headsMatching, headsFailing, headsErroring)

/-- what `processEvent` does with the three lists (verbatim) -/
def matchTail (fuel : Nat) (event : Event) (activeLoops : List (Option String)) (actionable : List Key)
    (res : List String × List Key × List Key × List Key) : M (List Key) := do
  let handled := res.1
  let mut headsMatching := res.2.1
  let headsFailing := res.2.2.1
  let mut headsErroring := res.2.2.2
  -- unhandled event
  let unhandled := activeLoops.filter fun l => match l with
    | some l => !handled.contains l
    | none => true
  if !handled.contains "all_loops" && !unhandled.isEmpty && event.ev.name ≠ "UnhandledEvent" then
    let loopIds : List Val := unhandled.map fun l => match l with | some l => Val.str l | none => Val.none
    let args := setArg "loop_ids" (.set loopIds) (setArg "event" (.str event.ev.name) event.ev.args)
    pushEvent (mkInternal "UnhandledEvent" args event.scores)
  -- most specific matches first
  let r ← getRest
  let scoresOf := fun (kk : Key) => ((OMap.lookup kk r.hx).getD {}).scores
  headsMatching := sortDesc scoresOf headsMatching
  -- `for head in _handle_event_matching(…): heads_matching.remove(head); heads_erroring.append(head)`
  for k in ← handleEventMatching event headsMatching do
    headsMatching := listRemoveKey k headsMatching
    headsErroring := headsErroring ++ [k]
  if event.ev.kind = .action then updateActionStatusByEvent event.ev
  for k in headsFailing do
    let hx ← getHeadX k
    match hx.catchLabels.getLast? with
    | some l =>
      let cfg ← cfgOfInst k.1
      setHeadPos k (← labelPos cfg l)
      headsMatching := headsMatching ++ [k]
    | none => abortFlow fuel k.1 [] false
  for k in headsErroring do abortFlow fuel k.1 [] false
  let mut actionable := actionable
  for nh in ← advanceHeadFront fuel headsMatching do
    if !actionable.contains nh then actionable := actionable ++ [nh]
  return actionable

/-- the part of `processEvent` before the scan: active loops, `ContextUpdate`, `_process_internal_events_without_default_matchers`,
    `_get_all_head_candidates` -/
def eventPrelude (fuel : Nat) (event : Event) : M (List (Option String) × Event × List String × List Key) := do
  let ix ← getIx
  let mut activeLoops : List (Option String) := []
  for i in ix.insts do
    if i.status.listening then
      let l := (← getInstX i.uid).loopId
      if !activeLoops.contains l then activeLoops := activeLoops ++ [l]
  if event.ev.name = "ContextUpdate" then
    match lookupArg "data" event.ev.args with
    | some (.dict d) => modifyRest fun r => { r with gctx := updateArgs r.gctx d }
    | some _ => unsupported "ContextUpdate with non-dict data"
    | none => pure ()
  let (event, handled0) ← processInternalEvent fuel event
  let cands ← getAllHeadCandidates event.ev.name
  return (activeLoops, event, handled0, cands)

theorem processEvent_split (fuel : Nat) (event : Event) (actionable : List Key) :
    processEvent fuel event actionable = (do
      let p ← eventPrelude fuel event
      let res ← scanCands p.2.1 p.2.2.2 p.2.2.1
      matchTail fuel p.2.1 p.1 actionable res) := by
  unfold processEvent eventPrelude scanCands matchTail
  simp only [bind_assoc, pure_bind]
  congr 1; funext ix
  congr 1; funext acts
  split
  · cases hd : lookupArg "data" event.ev.args with
    | none => simp only [bind_assoc, pure_bind]; rfl
    | some v => cases v <;> simp only [bind_assoc, pure_bind, unsupported_bind] <;> rfl
  · simp only [bind_assoc, pure_bind]; rfl

/-- loop invariant relating the accumulated value and the CURRENT state of a `for` loop in `M` (normal returns only) -/
theorem forIn_inv2 {α β : Type} (I : β → VM → Prop) (body : α → β → M (ForInStep β)) : ∀ (xs : List α) (init : β) (s : VM), I init s →
    (∀ a ∈ xs, ∀ b s, I b s → ∀ r s', body a b s = .ok r s' → I (stepVal r) s') →
    ∀ r s', (forIn xs init body : M β) s = .ok r s' → I r s'
  | [], init, s, h0, _, r, s', h => by
    simp only [List.forIn_nil, pure, EStateM.pure] at h
    cases h; exact h0
  | a :: as, init, s, h0, hb, r, s', h => by
    simp only [List.forIn_cons] at h
    obtain ⟨st, s1, h1, h2⟩ := bind_ok h
    have hst := hb a List.mem_cons_self init s h0 st s1 h1
    cases st with
    | done b =>
      simp only [pure, EStateM.pure] at h2
      cases h2; exact hst
    | yield b =>
      exact forIn_inv2 I body as b s1 hst (fun a' ha' => hb a' (List.mem_cons_of_mem _ ha')) r s' h2

/-- the match statement of head `k` was evaluated against the event and did not answer "no match" (score 0) -/
def Fit (event : Event) (k : Key) : Prop :=
  ∃ spec sk out sk', attemptPy (eventMatchingScore k.1 spec event) sk = .ok out sk' ∧ out ≠ .ok .noMatch

abbrev ScanAcc := List String × List Key × List Key × List Key

structure ScanInv (event : Event) (cands : List Key) (s0 : VM) (acc : ScanAcc) (s : VM) : Prop where
  ix : s.ixs = s0.ixs
  fx : s.r.fx = s0.r.fx
  hx : ∀ key, key ∉ acc.2.1 → OMap.lookup key s.r.hx = OMap.lookup key s0.r.hx
  sub : ∀ k, (k ∈ acc.2.1 ∨ k ∈ acc.2.2.1 ∨ k ∈ acc.2.2.2) → k ∈ cands ∧ Fit event k

theorem ScanInv.neutral {event : Event} {cands : List Key} {s0 : VM} {acc : ScanAcc} {s s' : VM}
    (h : ScanInv event cands s0 acc s) (n : Neutral s s') : ScanInv event cands s0 acc s' :=
  ⟨by rw [n.1, h.ix], by rw [n.2.1, h.fx], fun key hk => by rw [n.2.2, h.hx key hk], h.sub⟩

theorem neutral_ok {α : Type} {x : M α} (h : Pres Neutral x) {s s' : VM} {a : α} (hr : x s = .ok a s') : Neutral s s' :=
  ok_of_pres h hr

theorem pure_ok {α : Type} {a b : α} {s s' : VM} (h : (pure a : M α) s = .ok b s') : b = a ∧ s' = s := by
  simp only [pure, EStateM.pure] at h; cases h; exact ⟨rfl, rfl⟩

/-- **The candidate scan.**  On normal return: index (flow status, heads, positions) and instance records are unchanged,
    matching scores changed only for the heads returned as MATCHING, and every head in one of the three result lists is a
    candidate whose match statement was evaluated and did not answer "no match". -/
theorem scanCands_inv (event : Event) (cands : List Key) (handled0 : List String) (s s' : VM) (res : ScanAcc)
    (h : scanCands event cands handled0 s = .ok res s') : ScanInv event cands s res s' := by
  unfold scanCands at h
  simp only [bind_assoc, pure_bind] at h
  obtain ⟨acc, s1, h1, h2⟩ := bind_ok h
  obtain ⟨e1, e2⟩ := pure_ok h2
  have hfin : ScanInv event cands s acc s1 := by
    refine forIn_inv2 (ScanInv event cands s) _ cands (handled0, [], [], []) s
      ⟨rfl, rfl, fun _ _ => rfl, fun k hk => by simp at hk⟩ ?_ acc s1 h1
    intro a ha b sa hI r sb hr
    obtain ⟨x, s2, g1, g2⟩ := bind_ok hr
    have I2 := hI.neutral (neutral_ok (Neutral.of_same (Same.getInst? _)) g1)
    cases x with
    | none => simp only [pyRaise_bind] at g2; cases g2
    | some i =>
      simp only at g2
      cases hfh : i.findHead a.2 with
      | none => rw [hfh] at g2; simp only [pyRaise_bind] at g2; cases g2
      | some hd =>
        rw [hfh] at g2
        simp only at g2
        obtain ⟨cfg, s3, g3, g4⟩ := bind_ok g2
        have I3 := I2.neutral (neutral_ok (Neutral.of_same (Same.cfgOfInst _)) g3)
        have hsame : ∀ {g : M (ForInStep ScanAcc)} {st : VM}, ScanInv event cands s b st →
            g = pure (ForInStep.yield (b.fst, b.snd.fst, b.snd.snd.fst, b.snd.snd.snd)) → g st = .ok r sb →
            ScanInv event cands s (stepVal r) sb := by
          intro g st I eg hg
          rw [eg] at hg
          obtain ⟨e1, e2⟩ := pure_ok hg
          rw [e1, e2]; exact ⟨I.ix, I.fx, I.hx, I.sub⟩
        generalize cfg.elements[hd.pos]? = el at g4
        cases el with
        | none => exact hsame I3 rfl g4
        | some p =>
          cases p with
          | matchOp spec internal =>
            simp only at g4
            obtain ⟨outcome, s4, g5, g6⟩ := bind_ok g4
            have I4 := I3.neutral (neutral_ok (Pres.attemptPy neutralPO (Neutral.of_same (Same.eventMatchingScore _ _ _))) g5)
            have hfit : outcome ≠ .ok .noMatch → Fit event a := fun hne => ⟨spec, s3, outcome, s4, g5, hne⟩
            cases outcome with
            | error cm =>
              obtain ⟨c, m⟩ := cm
              simp only at g6
              obtain ⟨_, s5, g7, g8⟩ := bind_ok g6
              obtain ⟨_, s6, g9, g10⟩ := bind_ok g8
              have I5 := I4.neutral (neutral_ok (Neutral.pushEvent _) g7)
              have I6 := I5.neutral (by refine neutral_ok ?_ g9; exact Neutral.modifyRest _ (fun _ => rfl) (fun _ => rfl))
              obtain ⟨e1, e2⟩ := pure_ok g10
              rw [e1, e2]
              refine ⟨I6.ix, I6.fx, I6.hx, fun k hk => ?_⟩
              simp only [stepVal, List.mem_append, List.mem_singleton] at hk
              rcases hk with hk | hk | hk | hk
              · exact I6.sub k (Or.inl hk)
              · exact I6.sub k (Or.inr (Or.inl hk))
              · exact I6.sub k (Or.inr (Or.inr hk))
              · rw [hk]; exact ⟨ha, hfit (by intro e; cases e)⟩
            | ok mo =>
              cases mo with
              | matched sc =>
                simp only at g6
                obtain ⟨_, s5, g7, g8⟩ := bind_ok g6
                have e5 : s5 = { s4 with r := { s4.r with hx := OMap.modify a (fun y => { y with scores := event.scores ++ [sc] }) s4.r.hx } } := by
                  simp only [modHeadX, CoreVM.modifyRest, modify, modifyGet, MonadStateOf.modifyGet, EStateM.modifyGet] at g7
                  cases g7; rfl
                have I5 : ScanInv event cands s (b.fst, b.snd.fst ++ [a], b.snd.snd.fst, b.snd.snd.snd) s5 := by
                  refine ⟨by rw [e5]; exact I4.ix, by rw [e5]; exact I4.fx, fun key hk => ?_, fun k hk => ?_⟩
                  · simp only [List.mem_append, List.mem_singleton, not_or] at hk
                    rw [e5]
                    simp only [OMap.lookup_modify, hk.2, if_false]
                    exact I4.hx key hk.1
                  · simp only [List.mem_append, List.mem_singleton] at hk
                    rcases hk with (hk | hk) | hk | hk
                    · exact I4.sub k (Or.inl hk)
                    · rw [hk]; exact ⟨ha, hfit (by intro e; cases e)⟩
                    · exact I4.sub k (Or.inr (Or.inl hk))
                    · exact I4.sub k (Or.inr (Or.inr hk))
                have hfinish : ∀ {hd' : List String} {st : VM}, Neutral s5 st →
                    (pure (ForInStep.yield (hd', b.snd.fst ++ [a], b.snd.snd.fst, b.snd.snd.snd)) : M (ForInStep ScanAcc)) st = .ok r sb →
                    ScanInv event cands s (stepVal r) sb := by
                  intro hd' st n hg
                  obtain ⟨e1, e2⟩ := pure_ok hg
                  have I6 := I5.neutral n
                  rw [e1, e2]; exact ⟨I6.ix, I6.fx, I6.hx, I6.sub⟩
                split at g8
                · exact hfinish (neutralPO.refl _) g8
                · obtain ⟨x6, s6, g9, g10⟩ := bind_ok g8
                  have n6 := neutral_ok (Neutral.of_same (Same.getInstX _)) g9
                  cases hl : x6.loopId with
                  | some l => rw [hl] at g10; exact hfinish n6 g10
                  | none => rw [hl] at g10; simp only [pyRaise_bind] at g10; cases g10
              | failed =>
                obtain ⟨e1, e2⟩ := pure_ok g6
                rw [e1, e2]
                refine ⟨I4.ix, I4.fx, I4.hx, fun k hk => ?_⟩
                simp only [stepVal, List.mem_append, List.mem_singleton] at hk
                rcases hk with hk | (hk | hk) | hk
                · exact I4.sub k (Or.inl hk)
                · exact I4.sub k (Or.inr (Or.inl hk))
                · rw [hk]; exact ⟨ha, hfit (by intro e; cases e)⟩
                · exact I4.sub k (Or.inr (Or.inr hk))
              | noMatch => exact hsame I4 rfl g6
          | _ => exact hsame I3 rfl g4
  rw [e1, e2]; exact hfin

/-! result-only postconditions (normal returns) -/
def RetP {α : Type} (P : α → Prop) (x : M α) : Prop := ∀ s r s', x s = .ok r s' → P r
theorem RetP.bind {α β : Type} {P : β → Prop} {x : M α} {f : α → M β} (hf : ∀ a, RetP P (f a)) : RetP P (x >>= f) := by
  intro s r s' h
  obtain ⟨a, s1, _, h2⟩ := bind_ok h
  exact hf a s1 r s' h2
theorem RetP.pure {α : Type} {P : α → Prop} {a : α} (h : P a) : RetP P (Pure.pure a : M α) := by
  intro s r s' hr
  rw [(pure_ok hr).1]; exact h
theorem RetP.forIn {α β : Type} (P : β → Prop) (body : α → β → M (ForInStep β)) (xs : List α) (init : β) (h0 : P init)
    (hb : ∀ a ∈ xs, ∀ b, P b → RetP (fun r => P (stepVal r)) (body a b)) : RetP P (forIn xs init body) := by
  intro s r s' h
  exact forIn_inv P body xs init h0 (fun a ha b hb' s0 r0 s1 hr => hb a ha b hb' s0 r0 s1 hr) s r s' h

/-- the heads `_handle_event_matching` hands back (the erroring ones) are among the heads it was given -/
theorem handleEventMatching_sub (event : Event) (hs : List Key) (s : VM) (r : List Key) (s' : VM)
    (h : handleEventMatching event hs s = .ok r s') : ∀ k ∈ r, k ∈ hs := by
  unfold handleEventMatching at h
  simp only [bind_assoc, pure_bind] at h
  obtain ⟨acc, s1, h1, h2⟩ := bind_ok h
  obtain ⟨e1, _⟩ := pure_ok h2
  subst e1
  refine forIn_inv (fun acc => ∀ k ∈ acc, k ∈ hs) _ hs [] (by simp) ?_ s _ s1 h1
  intro a ha b hb s0 r0 s1' hr
  obtain ⟨cfg, s2, g1, g2⟩ := bind_ok hr
  obtain ⟨ohd, s3, g3, g4⟩ := bind_ok g2
  cases ohd with
  | none => simp only [unsupported_bind] at g4; cases g4
  | some hd =>
    simp only at g4
    obtain ⟨out, s4, g5, g6⟩ := bind_ok g4
    cases out with
    | ok u => obtain ⟨e1, e2⟩ := pure_ok g6; rw [e1]; exact hb
    | error cm =>
      obtain ⟨c, m⟩ := cm
      simp only at g6
      obtain ⟨_, s5, g7, g8⟩ := bind_ok g6
      obtain ⟨_, s6, g9, g10⟩ := bind_ok g8
      obtain ⟨e1, e2⟩ := pure_ok g10
      rw [e1]
      intro k hk
      simp only [stepVal, List.mem_append, List.mem_singleton] at hk
      rcases hk with hk | hk
      · exact hb k hk
      · rw [hk]; exact ha

theorem mem_listRemoveKey {k k' : Key} : ∀ {l : List Key}, k' ∈ listRemoveKey k l → k' ∈ l
  | [], h => by cases h
  | y :: ys, h => by
    unfold listRemoveKey at h
    split at h
    · exact List.mem_cons_of_mem _ h
    · rcases List.mem_cons.1 h with h | h
      · exact h ▸ List.mem_cons_self
      · exact List.mem_cons_of_mem _ (mem_listRemoveKey h)

section frm
variable {G : FUid → Prop}
theorem FrM.matchTail (fuel : Nat) (event : Event) (activeLoops : List (Option String)) (actionable : List Key) (res : ScanAcc)
    (hM : ∀ k, (k ∈ res.2.1 ∨ k ∈ res.2.2.1 ∨ k ∈ res.2.2.2) → G k.1)
    (hsrc : ∀ u, lookupArg "source_flow_instance_uid" event.ev.args = some (.str u) → G u) :
    Pres (FrM G) (matchTail fuel event activeLoops actionable res) := by
  unfold CoreVM.matchTail
  extract_lets +onlyGivenNames handled hm hf he unhandled act0 jp1
  have hjp1 : ∀ u, Pres (FrM G) (jp1 u) := by
    intro u
    dsimp -zeta only [jp1]
    apply Pres.bind (frmPO G) (Pres.getRest (frmPO G)); intro r
    extract_lets +onlyGivenNames scoresOf hms
    have hms_G : ∀ k ∈ hms, G k.1 := fun k hk => hM k (Or.inl (mem_sortDesc _ _ _ hk))
    refine Pres.bind_ret (frmPO G) (fun errs => ∀ k ∈ errs, k ∈ hms) (FrM.handleEventMatching event hms hms_G hsrc)
      (fun s errs s' h => handleEventMatching_sub event hms s errs s' h) ?_
    intro errs herrs
    -- `heads_matching.remove(head); heads_erroring.append(head)` for the heads handed back: both lists stay inside `G`
    refine Pres.bind_ret (frmPO G) (fun p : List Key × List Key => (∀ k ∈ p.1, G k.1) ∧ (∀ k ∈ p.2, G k.1)) ?hxl ?hPl ?hfl
    case hxl =>
      refine Pres.forIn_mem (frmPO G) _ _ _ ?_
      intro k hk b
      exact Pres.pure (frmPO G) _
    case hPl =>
      refine RetP.forIn (fun p : List Key × List Key => (∀ k ∈ p.1, G k.1) ∧ (∀ k ∈ p.2, G k.1)) _ errs (hms, he)
        ⟨hms_G, fun k hk => hM k (Or.inr (Or.inr hk))⟩ ?_
      intro k hk b hb
      apply RetP.pure
      refine ⟨fun k' hk' => hb.1 k' (mem_listRemoveKey hk'), fun k' hk' => ?_⟩
      rcases List.mem_append.1 hk' with h | h
      · exact hb.2 k' h
      · rw [List.mem_singleton.1 h]; exact hms_G k (herrs k hk)
    intro p hp
    extract_lets +onlyGivenNames hm1 he1 jp2
    have hm1_G : ∀ k ∈ hm1, G k.1 := hp.1
    have he1_G : ∀ k ∈ he1, G k.1 := hp.2
    have hjp2 : ∀ u, Pres (FrM G) (jp2 u) := by
      intro u
      dsimp -zeta only [jp2]
      refine Pres.bind_ret (frmPO G) (fun acc => ∀ k ∈ acc, G k.1) ?hx ?hP ?hf
      case hx =>
        refine Pres.forIn_mem (frmPO G) _ _ _ ?_
        intro k hk b
        have hGk : G k.1 := hM k (Or.inr (Or.inl hk))
        pres_search (FrM G) (frmPO G) (first | frm_leaf | (refine FrM.of_fr (Fr.setHeadPos _ _ ?_); g_mem) | (refine FrM.of_fr (Fr.abortFlow _ _ _ _ ?_); g_mem))
      case hP =>
        refine RetP.forIn (fun acc => ∀ k ∈ acc, G k.1) _ hf hm1 hm1_G ?_
        intro k hk b hb
        have hGk : G k.1 := hM k (Or.inr (Or.inl hk))
        apply RetP.bind; intro hx
        split
        · apply RetP.bind; intro _; apply RetP.bind; intro _; apply RetP.bind; intro _
          apply RetP.pure
          intro k' hk'
          rcases List.mem_append.1 hk' with h | h
          · exact hb k' h
          · rw [List.mem_singleton.1 h]; exact hGk
        · apply RetP.bind; intro _
          exact RetP.pure hb
      case hf =>
        intro acc hacc
        extract_lets +onlyGivenNames hm2
        apply Pres.bind (frmPO G)
        · refine Pres.forIn_mem (frmPO G) _ _ _ ?_
          intro k hk b
          have hGk : G k.1 := he1_G k hk
          pres_search (FrM G) (frmPO G) (first | frm_leaf | (refine FrM.of_fr (Fr.abortFlow _ _ _ _ ?_); g_mem))
        · intro _
          apply Pres.bind (frmPO G) (FrM.of_fr (Fr.advanceHeadFront fuel hm2 hacc)); intro nh
          pres_search (FrM G) (frmPO G) (frm_leaf)
    clear_value jp2
    split
    · apply Pres.bind (frmPO G) (FrM.of_fr (Fr.of_neutral (Neutral.updateActionStatusByEvent _))); intro _
      exact hjp2 _
    · exact hjp2 ()
  clear_value jp1
  split
  · extract_lets +onlyGivenNames loopIds args
    apply Pres.bind (frmPO G) (FrM.of_fr (Fr.of_neutral (Neutral.pushEvent _))); intro _
    exact hjp1 _
  · exact hjp1 ()
end frm

/-- scan + tail -/
def matchPhase (fuel : Nat) (event : Event) (cands : List Key) (handled0 : List String) (activeLoops : List (Option String))
    (actionable : List Key) : M (List Key) := do
  let res ← scanCands event cands handled0
  matchTail fuel event activeLoops actionable res

theorem processEvent_eq_phases (fuel : Nat) (event : Event) (actionable : List Key) :
    processEvent fuel event actionable = (do
      let p ← eventPrelude fuel event
      matchPhase fuel p.2.1 p.2.2.2 p.2.2.1 p.1 actionable) := by
  rw [processEvent_split]; rfl

theorem closed_of_fx_eq {G : FUid → Prop} {s s1 : VM} (h : s1.r.fx = s.r.fx) (hc : Closed G s) : Closed G s1 := by
  intro g x hg hl; rw [h] at hl; exact hc g x hg hl

/-- **Frame theorem for the matching phase** (normal returns).  There are three lists of heads — the candidates whose match
    statement was evaluated and answered matched / failed / raised (`ScanInv.sub`: never a candidate whose answer was "no
    match") — such that for EVERY family `G` of instances that is closed and contains the flows of these heads (and the
    source flow named by the event), every instance outside `G` ends the phase with the status, heads, head positions,
    matching scores, context, arguments … it had before (all but its child list). -/
theorem matchPhase_frame (fuel : Nat) (event : Event) (cands : List Key) (handled0 : List String)
    (activeLoops : List (Option String)) (actionable : List Key) (s s' : VM) (r : List Key)
    (h : matchPhase fuel event cands handled0 activeLoops actionable s = .ok r s') :
    ∃ res s1, scanCands event cands handled0 s = .ok res s1 ∧ ScanInv event cands s res s1 ∧
      ∀ G : FUid → Prop, Closed G s → (∀ k, (k ∈ res.2.1 ∨ k ∈ res.2.2.1 ∨ k ∈ res.2.2.2) → G k.1) →
        (∀ u, lookupArg "source_flow_instance_uid" event.ev.args = some (.str u) → G u) →
        Closed G s' ∧ FrameM G s s' := by
  unfold matchPhase at h
  obtain ⟨res, s1, h1, h2⟩ := bind_ok h
  have inv := scanCands_inv event cands handled0 s s1 res h1
  refine ⟨res, s1, h1, inv, fun G hc hM hsrc => ?_⟩
  have hc1 : Closed G s1 := closed_of_fx_eq inv.fx hc
  have ht := (FrM.matchTail fuel event activeLoops actionable res hM hsrc).app s1 hc1
  rw [h2] at ht
  simp only [outState] at ht
  refine ⟨ht.1, FrameM.trans ⟨fun g _ => by rw [inv.ix], fun g hh hg => ?_, fun g _ => by rw [inv.fx]⟩ ht.2⟩
  apply inv.hx
  intro hmem
  exact hg (hM (g, hh) (Or.inl hmem))

/-- … stated on `processEvent` itself: from the state after the internal-event prelude to the end of the event's processing -/
theorem processEvent_frame (fuel : Nat) (event : Event) (actionable : List Key) (s s' : VM) (r : List Key)
    (h : processEvent fuel event actionable s = .ok r s') :
    ∃ p s0 res s1, eventPrelude fuel event s = .ok p s0 ∧ scanCands p.2.1 p.2.2.2 p.2.2.1 s0 = .ok res s1 ∧
      ScanInv p.2.1 p.2.2.2 s0 res s1 ∧
      ∀ G : FUid → Prop, Closed G s0 → (∀ k, (k ∈ res.2.1 ∨ k ∈ res.2.2.1 ∨ k ∈ res.2.2.2) → G k.1) →
        (∀ u, lookupArg "source_flow_instance_uid" p.2.1.ev.args = some (.str u) → G u) →
        Closed G s' ∧ FrameM G s0 s' := by
  rw [processEvent_eq_phases] at h
  obtain ⟨p, s0, h0, h1⟩ := bind_ok h
  obtain ⟨res, s1, h2, inv, hall⟩ := matchPhase_frame fuel p.2.1 p.2.2.2 p.2.2.1 p.1 actionable s0 s' r h1
  exact ⟨p, s0, res, s1, h0, h2, inv, hall⟩

end NemoVerif.CoreVM
