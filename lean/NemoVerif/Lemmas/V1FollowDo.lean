/-
  Lemmas for C14 phase 4, goal 1 (second half): `next_step_is_flow_statement` for a dialog flow WITH subflow
  calls (`do`), at any nesting depth, whose callees do not block (they consist of assignments, conditionals and
  loops — "subroutines" — and further such calls): the whole bookkeeping of `computeNextState` around
  `slideWithSubflows`, with the subflow configs present among the flow configs.

  `runD` — structured meaning of a flow with non-blocking calls: at `do n` the body of `n` is run to its end and
  the flow continues with the statement after the `do`; a callee that reaches a step statement is outside this
  fragment (`bad`).  `followStepD` / `followAllD` — the source-level reference over histories, as in V1Follow.
-/
import NemoVerif.Lemmas.V1Sub
namespace NemoVerif.V1FollowDo
open NemoVerif.V1Interp NemoVerif.V1Struct NemoVerif.V1Follow NemoVerif.V1Sub

/-- structured run with NON-BLOCKING calls (no uids, no frames: nothing is pushed) -/
def runD (lib : Lib) (f : Nat) : Nat → SSt → Prog → Option Addr → Out
  | 0, _, _, _ => .oof
  | g + 1, st, p, start =>
    match startOut f st p start with
    | .fell st' => .fell st'
    | .err => .err
    | .oof => .oof
    | .atStep st' a' =>
      match stepAt p a' with
      | none => .bad
      | some (.doFlow n) =>
        match lib.lookup n with
        | none => .bad
        | some q =>
          match runD lib f g st' q none with
          | .fell st'' => runD lib f g st'' p (some a')
          | .atStep _ _ => .bad
          | o => o
      | some _ => .atStep st' a'
    | _ => .bad

/-- `runS` (with uids and frames) on a run whose calls do not block -/
theorem runS_of_runD (lib : Lib) (f : Nat) : ∀ (g uid : Nat) (name : String) (st : SSt) (ctr : Nat) (p : Prog) (start : Option Addr),
    (∀ st' a', runD lib f g st p start = .atStep st' a' →
      ∃ ctr' s, stepAt p a' = some s ∧ runS lib f g uid name st ctr p start = .wait st' ctr' a' none [] (uid, name, s)) ∧
    (∀ st', runD lib f g st p start = .fell st' → ∃ ctr', runS lib f g uid name st ctr p start = .fell st' ctr') := by
  intro g
  induction g with
  | zero => intro uid name st ctr p start; simp [runD]
  | succ g ih =>
    intro uid name st ctr p start
    simp only [runD, runS]
    cases ho : startOut f st p start with
    | fell s1 => simp
    | err => simp
    | oof => simp
    | bad => simp
    | brk s1 => simp
    | cnt s1 => simp
    | atStep s1 a1 =>
      simp only []
      cases hst : stepAt p a1 with
      | none => simp
      | some s =>
        cases s with
        | user i => simp [hst]
        | bot i => simp [hst]
        | exec n ps rk => simp [hst]
        | doFlow n =>
          simp only []
          cases hl : lib.lookup n with
          | none => simp
          | some q =>
            simp only []
            obtain ⟨ihA, ihF⟩ := ih ctr n s1 (ctr + 1) q none
            cases hq : runD lib f g s1 q none with
            | fell s2 =>
              obtain ⟨c2, hc2⟩ := ihF s2 hq
              simp only [hc2]
              exact ih uid name s2 c2 p (some a1)
            | atStep s2 a2 => simp
            | err => simp
            | oof => simp
            | bad => simp
            | brk s2 => simp
            | cnt s2 => simp

/-- the flow configs: the dialog flow first, then subflow configs only; every library body is among them -/
structure Setup (cfgs : Cfgs) (id : String) (p : Prog) (lib : Lib) : Prop where
  shape : ∃ subs, cfgs = mkCfg id p :: subs ∧ ∀ c ∈ subs, c.isSubflow = true
  libok : LibOK cfgs lib

theorem find_main {cfgs id p lib} (h : Setup cfgs id p lib) : cfgs.find id = some (mkCfg id p) := by
  obtain ⟨subs, rfl, _⟩ := h.shape
  simp [Cfgs.find, List.find?, mkCfg]

theorem startNew_subs (r : Bool) (cfgs : Cfgs) (ev : Event) : ∀ (subs : List FlowCfg) (ns : State),
    (∀ c ∈ subs, c.isSubflow = true) → startNew r cfgs ev subs ns = .ok ns := by
  intro subs
  induction subs with
  | nil => intro ns _; rfl
  | cons c rest ih =>
    intro ns h
    have hc := h c (List.mem_cons_self ..)
    simp only [startNew, startOne, hc, if_true]
    exact ih ns (fun d hd => h d (List.mem_cons_of_mem _ hd))

theorem startNew_main {cfgs id p lib} (h : Setup cfgs id p lib) (ev : Event) (ns : State) :
    startNew true cfgs ev cfgs ns =
      (match startOne true cfgs ev ns (mkCfg id p) with
       | .error e => .error e
       | .ok ns' => .ok ns') := by
  obtain ⟨subs, hc, hs⟩ := h.shape
  conv => lhs; arg 4; rw [hc]
  simp only [startNew]
  cases startOne true cfgs ev ns (mkCfg id p) with
  | error e => rfl
  | ok ns' => exact startNew_subs true cfgs ev subs ns' hs

theorem startNew_skipD {cfgs id p lib} (h : Setup cfgs id p lib) (ev : Event) (ns : State) (fs : FS) (hid : fs.flowId = id)
    (hf : ns.flows = [fs]) : startNew true cfgs ev cfgs ns = .ok ns := by
  rw [startNew_main h]
  simp [startOne, mkCfg, hf, hid]

theorem ext_singleD {cfgs id p lib} (h : Setup cfgs id p lib) (ctx : Ctx) (next : Option NextStep) (upd : Ctx) (ctr : Nat) (fs : FS)
    (hid : fs.flowId = id) :
    extensionInterrupt cfgs { ctx := ctx, flows := [fs], next := next, upd := upd, ctr := ctr }
      = { ctx := ctx, flows := [fs], next := next, upd := upd, ctr := ctr } := by
  cases next with
  | none => rfl
  | some n =>
    simp only [extensionInterrupt]
    by_cases hu : (fs.uid == n.uid) = true
    · have hf := find_main h
      simp only [List.filter, hu, List.getLast?_singleton, hid, hf]
      simp [mkCfg]
    · simp [List.filter, hu]

theorem tail_singleD {cfgs id p lib} (hS : Setup cfgs id p lib) (ns : State) (u : Nat) (h : Int) (s : Status)
    (hs : s = .active ∨ s = .completed)
    (hf : ns.flows = [{ uid := u, flowId := id, head := h, status := s, interruptedBy := none }]) :
    tailPhases cfgs ns false = .ok ns := by
  obtain ⟨ctx, flows, next, upd, ctr⟩ := ns
  simp only at hf
  subst hf
  have hni : (s == Status.interrupted) = false := by rcases hs with h | h <;> subst h <;> rfl
  have hne : s ≠ Status.interrupted := by rcases hs with h | h <;> subst h <;> decide
  have hm : markInterrupted { ctx := ctx, flows := [{ uid := u, flowId := id, head := h, status := s, interruptedBy := none }], next := next, upd := upd, ctr := ctr }
      = { ctx := ctx, flows := [{ uid := u, flowId := id, head := h, status := s, interruptedBy := none }], next := next, upd := upd, ctr := ctr } := by
    simp [markInterrupted, hne]
  simp only [tailPhases, Bool.false_eq_true, if_false, hm]
  rw [ext_singleD hS ctx next upd ctr _ rfl]
  exact resume_single _ _ _ rfl hni

theorem adv_completedD {cfgs id p lib} (hS : Setup cfgs id p lib) (ev : Event) (ns : State) (u : Nat) (h : Int) :
    advanceAll true cfgs ev [{ uid := u, flowId := id, head := h, status := .completed, interruptedBy := none }] ns false
      = .ok (ns, false) := by
  simp [advanceAll, advanceOne, find_main hS]

theorem advanceOne_followD {cfgs id p lib} (hS : Setup cfgs id p lib) (a : Addr) (s : Step) (hs : stepAt p a = some s) (ev : Event) (ns : State) (u : Nat)
    (htr : ev.triggers [] = true) (hm : isMatch (elemOf s) ev = true) :
    advanceOne true cfgs ev ns false { uid := u, flowId := id, head := ((off p a : Nat) : Int), status := .active, interruptedBy := none }
      = (match slideWithSubflows true SUB_FUEL cfgs ns { uid := u, flowId := id, head := ((off p a : Nat) : Int) + 1, status := .active, interruptedBy := none } with
         | .error e => .error e
         | .ok (ns, fs) =>
           if fs.head < 0 then .ok ({ ns with flows := ns.flows ++ [{ fs with status := .completed }] }, false)
           else .ok ({ ns with flows := ns.flows ++ [fs] }, false)) := by
  have hidx : pyIndex (mkCfg id p).elems ((off p a : Nat) : Int) = some (elemOf s) := by
    rw [pyIndex_nat]; exact landing p a s hs
  have hne : ((((off p a : Nat) : Int) + 1) != 0) = true := by
    simp; omega
  have htr' : ev.triggers (mkCfg id p).triggers = true := htr
  simp only [advanceOne, find_main hS, hidx, htr', hm, hne]
  simp [mkCfg]
  rfl

theorem advanceOne_otherD {cfgs id p lib} (hS : Setup cfgs id p lib) (a : Addr) (s : Step) (hs : stepAt p a = some s) (ev : Event) (ns : State) (u : Nat)
    (htr : ev.triggers [] = false) :
    advanceOne true cfgs ev ns false { uid := u, flowId := id, head := ((off p a : Nat) : Int), status := .active, interruptedBy := none }
      = .ok (recordNextStep { ns with flows := ns.flows ++ [{ uid := u, flowId := id, head := ((off p a : Nat) : Int), status := .active, interruptedBy := none }] }
          { uid := u, flowId := id, head := ((off p a : Nat) : Int), status := .active, interruptedBy := none } (mkCfg id p) true, false) := by
  have hidx : pyIndex (mkCfg id p).elems ((off p a : Nat) : Int) = some (elemOf s) := by
    rw [pyIndex_nat]; exact landing p a s hs
  have htr' : ev.triggers (mkCfg id p).triggers = false := htr
  simp [advanceOne, find_main hS, hidx, htr']


/-! ### the slide inside `slideWithSubflows`, through `slideWS_sim` -/

theorem slideWS_atD {cfgs id p lib} (hS : Setup cfgs id p lib) (hp : size p ≠ 0) (f : Nat) (start : Option Addr) (st' : SSt) (a' : Addr)
    (ns : State) (fs : FS) (hid : fs.flowId = id) (hh : fs.head = startPos p start)
    (hrun : runD lib f SUB_FUEL ⟨ns.ctx, ns.upd⟩ p start = .atStep st' a') :
    slideWithSubflows true SUB_FUEL cfgs ns fs = .error .oof ∨
    ∃ k s, stepAt p a' = some s ∧ slideWithSubflows true SUB_FUEL cfgs ns fs =
      .ok ({ ns with ctx := st'.ctx, upd := st'.upd, ctr := k, next := recNext ns.next (elemOf s) fs.uid 100 },
           { fs with head := ((off p a' : Nat) : Int) }) := by
  have hfm : cfgs.find fs.flowId = some (mkCfg id p) := by rw [hid]; exact find_main hS
  rcases slideWS_sim cfgs lib hS.libok f SUB_FUEL ns fs (mkCfg id p) p start hfm rfl hp hh with h | h
  · exact .inl h
  · obtain ⟨k, s, hs, hrs⟩ := (runS_of_runD lib f SUB_FUEL fs.uid fs.flowId ⟨ns.ctx, ns.upd⟩ ns.ctr p start).1 st' a' hrun
    rw [hrs] at h
    obtain ⟨hres, _, _⟩ := h
    refine .inr ⟨k, s, hs, ?_⟩
    rw [hres]
    simp [nextOf, hfm, callerFS, mkCfg]

theorem slideWS_fellD {cfgs id p lib} (hS : Setup cfgs id p lib) (hp : size p ≠ 0) (f : Nat) (start : Option Addr) (st' : SSt)
    (ns : State) (fs : FS) (hid : fs.flowId = id) (hh : fs.head = startPos p start)
    (hrun : runD lib f SUB_FUEL ⟨ns.ctx, ns.upd⟩ p start = .fell st') :
    slideWithSubflows true SUB_FUEL cfgs ns fs = .error .oof ∨
    ∃ (k : Nat) (h : Int), h < 0 ∧ slideWithSubflows true SUB_FUEL cfgs ns fs =
      .ok ({ ns with ctx := st'.ctx, upd := st'.upd, ctr := k }, { fs with head := h }) := by
  have hfm : cfgs.find fs.flowId = some (mkCfg id p) := by rw [hid]; exact find_main hS
  rcases slideWS_sim cfgs lib hS.libok f SUB_FUEL ns fs (mkCfg id p) p start hfm rfl hp hh with h | h
  · exact .inl h
  · obtain ⟨k, hrs⟩ := (runS_of_runD lib f SUB_FUEL fs.uid fs.flowId ⟨ns.ctx, ns.upd⟩ ns.ctr p start).2 st' hrun
    rw [hrs] at h
    obtain ⟨hd, hneg, hres⟩ := h
    exact .inr ⟨k, hd, hneg, hres⟩

theorem decisions_recNext (s : Step) (c upd : Ctx) (fl : List FS) (u k : Nat) :
    decisionsOf { ctx := c, flows := fl, next := recNext none (elemOf s) u 100, upd := upd, ctr := k } = ctxDec upd ++ stepDec s := by
  simp only [decisionsOf, ctxDec, stepDec, recNext]
  by_cases hact : isActionable (elemOf s) = true
  · simp [hact]
    cases stepToEvent (elemOf s) <;> simp
  · simp [hact]

/-! ### the source-level reference with non-blocking calls -/

def followGeneralD (lib : Lib) (p : Prog) (i0 : String) (f : Nat) (S : SS) (ev : Event) : Option SS :=
  if ev == .botIntent "stop" then none else
  match S.pos with
  | .at a => match stepAt p a with
    | some s =>
      if ev.triggers [] then
        (if isMatch (elemOf s) ev then outcomeSS p (runD lib f SUB_FUEL ⟨S.ctx.withEvent ev, []⟩ p (some a)) else none)
      else some { S with ctx := S.ctx.withEvent ev, dec := stepDec s }
    | none => none
  | .idle =>
    if isMatch (.userIntent i0) ev then outcomeSS p (runD lib f SUB_FUEL ⟨S.ctx.withEvent ev, []⟩ p (some .here))
    else some { S with ctx := S.ctx.withEvent ev, dec := [] }

/-- One event of a history that follows the flow `p` (first statement `user i0`), calls included -/
def followStepD (lib : Lib) (p : Prog) (i0 : String) (f : Nat) (S : SS) (ev : Event) : Option SS :=
  match ev with
  | .startAction => some S
  | .contextUpdate d => some { S with ctx := S.ctx.update d, dec := [] }
  | .hidePrevTurn => none
  | ev => followGeneralD lib p i0 f S ev

def followAllD (lib : Lib) (p : Prog) (i0 : String) (f : Nat) : SS → List Event → Option SS
  | S, [] => some S
  | S, ev :: rest => match followStepD lib p i0 f S ev with
    | some S' => followAllD lib p i0 f S' rest
    | none => none

theorem startOne_idleD (cfgs : Cfgs) (id i0 : String) (r : Prog) (ev : Event) (ns : State) (hfl : ns.flows = []) :
    startOne true cfgs ev ns (mkCfg id (.step (.user i0) r)) =
      if isMatch (.userIntent i0) ev then
        (match slideWithSubflows true SUB_FUEL cfgs
            { ns with ctr := ns.ctr + 1, flows := [{ uid := ns.ctr, flowId := id, head := 0 + 1 }] }
            { uid := ns.ctr, flowId := id, head := 0 + 1 } with
         | .error e => .error e
         | .ok (ns', fs') =>
           .ok { ns' with flows := setAt ns'.flows 0 (if (true && decide (fs'.head < 0)) = true then { fs' with status := .completed } else fs') })
      else .ok ns := by
  have hsl : ∀ prev, slide SLIDE_FUEL (compile (.step (.user i0) r)) ⟨ns.ctx, ns.upd⟩ 0 prev = .at ⟨ns.ctx, ns.upd⟩ 0 :=
    fun prev => slide_stop_now 4999 _ _ 0 prev (by simp [compile]) (by simp [sstep, compile, elemOf])
  obtain ⟨ctx, flows, next, upd, ctr⟩ := ns
  simp only at hfl
  subst hfl
  simp only [startOne, mkCfg, hsl]
  simp [pyIndex, compile, elemOf]
  rfl

theorem step_generalD {cfgs : Cfgs} {id i0 : String} {r : Prog} {lib : Lib} (hS : Setup cfgs id (.step (.user i0) r) lib)
    (f : Nat) (S S' : SS) (st : State) (ev : Event)
    (hinv : Inv id (.step (.user i0) r) S st) (hstep : followGeneralD lib (.step (.user i0) r) i0 f S ev = some S') :
    generalBody cfgs st ev = .error .oof ∨
    ∃ st', generalBody cfgs st ev = .ok st' ∧ Inv id (.step (.user i0) r) S' st' := by
  have hp0 : size (.step (.user i0) r) ≠ 0 := by simp [size]
  generalize hpdef : Prog.step (.user i0) r = p at *
  obtain ⟨hctx, hdec, hpos⟩ := hinv
  obtain ⟨ctx0, flows0, next0, upd0, ctr0⟩ := st
  simp only at hctx hpos
  subst hctx
  simp only [followGeneralD] at hstep
  by_cases hstop : (ev == Event.botIntent "stop") = true
  · simp [hstop] at hstep
  simp only [hstop, Bool.false_eq_true, if_false] at hstep
  cases hpp : S.pos with
  | idle =>
    rw [hpp] at hstep hpos
    simp only at hstep hpos
    have hadv : ∀ ns : State, advanceAll true cfgs ev flows0 ns false = .ok (ns, false) := by
      intro ns
      rcases hpos with h | ⟨u, h, hf⟩
      · rw [h]; rfl
      · rw [hf]; exact adv_completedD hS ev ns u h
    simp only [generalBody, hadv, startNew_main hS]
    subst hpdef
    rw [startOne_idleD cfgs id i0 r ev _ rfl]
    by_cases hm : isMatch (.userIntent i0) ev = true
    · simp only [hm, if_true] at hstep ⊢
      cases hout : runD lib f SUB_FUEL ⟨S.ctx.withEvent ev, []⟩ (.step (.user i0) r) (some .here) with
      | atStep st' a' =>
        rw [hout] at hstep
        simp only [outcomeSS] at hstep
        have h := slideWS_atD hS hp0 f (some .here) st' a'
          { ctx := S.ctx.withEvent ev, flows := [{ uid := ctr0, flowId := id, head := 0 + 1 }], next := none, upd := [], ctr := ctr0 + 1 }
          { uid := ctr0, flowId := id, head := 0 + 1 } rfl (by simp [startPos, off]) hout
        rcases h with h | ⟨k, s', hs', h⟩
        · left
          rw [h]
        · simp only [hs', Option.some.injEq] at hstep
          subst hstep
          right
          rw [h]
          have hneg : ¬ (((off (Prog.step (.user i0) r) a' : Nat) : Int) < 0) := by omega
          simp only [hneg, decide_false, Bool.and_false, Bool.false_eq_true, if_false, setAt, List.set]
          refine ⟨_, tail_singleD hS _ ctr0 _ .active (.inl rfl) rfl, rfl, ?_, ?_⟩
          · exact decisions_recNext s' _ _ _ _ _
          · exact ⟨ctr0, rfl⟩
      | fell st' =>
        rw [hout] at hstep
        simp only [outcomeSS, Option.some.injEq] at hstep
        subst hstep
        have h := slideWS_fellD hS hp0 f (some .here) st'
          { ctx := S.ctx.withEvent ev, flows := [{ uid := ctr0, flowId := id, head := 0 + 1 }], next := none, upd := [], ctr := ctr0 + 1 }
          { uid := ctr0, flowId := id, head := 0 + 1 } rfl (by simp [startPos, off]) hout
        rcases h with h | ⟨k, hd, hneg, h⟩
        · left
          rw [h]
        · right
          rw [h]
          simp only [hneg, decide_true, Bool.and_true, if_true, setAt, List.set]
          refine ⟨_, tail_singleD hS _ ctr0 hd .completed (.inr rfl) rfl, rfl, ?_, ?_⟩
          · simp [decisionsOf, ctxDec]
          · exact .inr ⟨ctr0, hd, rfl⟩
      | brk s => rw [hout] at hstep; simp [outcomeSS] at hstep
      | cnt s => rw [hout] at hstep; simp [outcomeSS] at hstep
      | err => rw [hout] at hstep; simp [outcomeSS] at hstep
      | oof => rw [hout] at hstep; simp [outcomeSS] at hstep
      | bad => rw [hout] at hstep; simp [outcomeSS] at hstep
    · simp only [hm, Bool.false_eq_true, if_false, Option.some.injEq] at hstep ⊢
      subst hstep
      right
      refine ⟨_, tail_empty _ _ rfl, rfl, ?_, ?_⟩
      · simp [decisionsOf]
      · exact .inl rfl
  | «at» a =>
    rw [hpp] at hstep hpos
    simp only at hstep hpos
    obtain ⟨u, hfl⟩ := hpos
    subst hfl
    cases hs : stepAt p a with
    | none => simp [hs] at hstep
    | some s =>
      simp only [hs] at hstep
      by_cases htr : ev.triggers [] = true
      · simp only [htr, if_true] at hstep
        by_cases hm : isMatch (elemOf s) ev = true
        · simp only [hm, if_true] at hstep
          simp only [generalBody, advanceAll, advanceOne_followD hS a s hs ev _ u htr hm]
          cases hout : runD lib f SUB_FUEL ⟨S.ctx.withEvent ev, []⟩ p (some a) with
          | atStep st' a' =>
            rw [hout] at hstep
            simp only [outcomeSS] at hstep
            have h := slideWS_atD hS hp0 f (some a) st' a'
              { ctx := S.ctx.withEvent ev, flows := [], next := none, upd := [], ctr := ctr0 }
              { uid := u, flowId := id, head := ((off p a : Nat) : Int) + 1, status := .active, interruptedBy := none }
              rfl (by simp [startPos]) hout
            rcases h with h | ⟨k, s', hs', h⟩
            · left
              rw [h]
            · simp only [hs', Option.some.injEq] at hstep
              subst hstep
              right
              rw [h]
              have hneg : ¬ (((off p a' : Nat) : Int) < 0) := by omega
              simp only [hneg, if_false, List.nil_append]
              rw [startNew_skipD hS ev _ { uid := u, flowId := id, head := ((off p a' : Nat) : Int), status := .active, interruptedBy := none } rfl rfl]
              refine ⟨_, tail_singleD hS _ u _ .active (.inl rfl) rfl, rfl, ?_, ?_⟩
              · exact decisions_recNext s' _ _ _ _ _
              · exact ⟨u, rfl⟩
          | fell st' =>
            rw [hout] at hstep
            simp only [outcomeSS, Option.some.injEq] at hstep
            subst hstep
            have h := slideWS_fellD hS hp0 f (some a) st'
              { ctx := S.ctx.withEvent ev, flows := [], next := none, upd := [], ctr := ctr0 }
              { uid := u, flowId := id, head := ((off p a : Nat) : Int) + 1, status := .active, interruptedBy := none }
              rfl (by simp [startPos]) hout
            rcases h with h | ⟨k, hd, hneg, h⟩
            · left
              rw [h]
            · right
              rw [h]
              simp only [hneg, if_true, List.nil_append]
              rw [startNew_skipD hS ev _ { uid := u, flowId := id, head := hd, status := .completed, interruptedBy := none } rfl rfl]
              refine ⟨_, tail_singleD hS _ u hd .completed (.inr rfl) rfl, rfl, ?_, ?_⟩
              · simp [decisionsOf, ctxDec]
              · exact .inr ⟨u, hd, rfl⟩
          | brk s => rw [hout] at hstep; simp [outcomeSS] at hstep
          | cnt s => rw [hout] at hstep; simp [outcomeSS] at hstep
          | err => rw [hout] at hstep; simp [outcomeSS] at hstep
          | oof => rw [hout] at hstep; simp [outcomeSS] at hstep
          | bad => rw [hout] at hstep; simp [outcomeSS] at hstep
        · simp [hm] at hstep
      · have htr' : ev.triggers [] = false := by simpa using htr
        simp only [htr', Bool.false_eq_true, if_false, Option.some.injEq] at hstep
        subst hstep
        right
        simp only [generalBody, advanceAll, advanceOne_otherD hS a s hs ev _ u htr', List.nil_append]
        have hrf := record_fields
          { ctx := S.ctx.withEvent ev, flows := [{ uid := u, flowId := id, head := ((off p a : Nat) : Int), status := .active, interruptedBy := none }], next := none, upd := [], ctr := ctr0 }
          { uid := u, flowId := id, head := ((off p a : Nat) : Int), status := .active, interruptedBy := none } (mkCfg id p) true
        rw [startNew_skipD hS ev _ { uid := u, flowId := id, head := ((off p a : Nat) : Int), status := .active, interruptedBy := none } rfl hrf.2.1]
        refine ⟨_, tail_singleD hS _ u _ .active (.inl rfl) hrf.2.1, hrf.1, ?_, ?_⟩
        · have := decisions_record id p a s hs (S.ctx.withEvent ev) []
            [{ uid := u, flowId := id, head := ((off p a : Nat) : Int), status := .active, interruptedBy := none }]
            [{ uid := u, flowId := id, head := ((off p a : Nat) : Int), status := .active, interruptedBy := none }] ctr0
            { uid := u, flowId := id, head := ((off p a : Nat) : Int), status := .active, interruptedBy := none } true rfl
          simp only [ctxDec, List.isEmpty_nil, if_true, List.nil_append] at this
          rw [← this]
          congr 1
          obtain ⟨_, h2, _, _⟩ := hrf
          cases hr : recordNextStep _ _ _ _
          simp_all
        · exact ⟨u, hrf.2.1⟩


/-! ### every event, whole histories -/

theorem follow_ok_eventD {lib : Lib} {p : Prog} {i0 : String} {f : Nat} {S S' : SS} {ev : Event}
    (h : followStepD lib p i0 f S ev = some S') : ev ≠ .hidePrevTurn ∧ ev ≠ .botIntent "stop" := by
  constructor
  · intro he; subst he; simp [followStepD] at h
  · intro he; subst he; simp [followStepD, followGeneralD] at h

theorem step_invD {cfgs : Cfgs} {id i0 : String} {r : Prog} {lib : Lib} (hS : Setup cfgs id (.step (.user i0) r) lib)
    (f : Nat) (S S' : SS) (st : State) (ev : Event)
    (hinv : Inv id (.step (.user i0) r) S st) (hstep : followStepD lib (.step (.user i0) r) i0 f S ev = some S') :
    computeNextState true cfgs st ev = .error .oof ∨
    ∃ st', computeNextState true cfgs st ev = .ok st' ∧ Inv id (.step (.user i0) r) S' st' := by
  cases ev with
  | startAction =>
    simp only [followStepD, Option.some.injEq] at hstep
    subst hstep
    exact .inr ⟨st, rfl, hinv⟩
  | contextUpdate d =>
    simp only [followStepD, Option.some.injEq] at hstep
    subst hstep
    obtain ⟨hctx, _, hpos⟩ := hinv
    refine .inr ⟨_, rfl, ?_, ?_, ?_⟩
    · simp [hctx]
    · simp [decisionsOf]
    · exact hpos
  | hidePrevTurn => simp [followStepD] at hstep
  | userIntent i =>
    rw [cns_general _ _ _ (by simp) (by simp)]
    exact step_generalD hS f S S' st _ hinv hstep
  | botIntent i =>
    rw [cns_general _ _ _ (by simp) (by simp)]
    exact step_generalD hS f S S' st _ hinv hstep
  | actionFinished n ok =>
    rw [cns_general _ _ _ (by simp) (by simp)]
    exact step_generalD hS f S S' st _ hinv hstep
  | other ty ps =>
    rw [cns_general _ _ _ (by simp) (by simp)]
    exact step_generalD hS f S S' st _ hinv hstep

theorem replay_followD {cfgs : Cfgs} {id i0 : String} {r : Prog} {lib : Lib} (hS : Setup cfgs id (.step (.user i0) r) lib) (f : Nat) :
    ∀ (H : List Event) (S S' : SS) (st : State), Inv id (.step (.user i0) r) S st →
      followAllD lib (.step (.user i0) r) i0 f S H = some S' →
      replay true cfgs H st = .error .oof ∨
      ∃ st', replay true cfgs H st = .ok st' ∧ Inv id (.step (.user i0) r) S' st' := by
  intro H
  induction H with
  | nil =>
    intro S S' st hinv hf
    simp only [followAllD, Option.some.injEq] at hf
    subst hf
    exact .inr ⟨st, rfl, hinv⟩
  | cons ev rest ih =>
    intro S S' st hinv hf
    simp only [followAllD] at hf
    cases hfs : followStepD lib (.step (.user i0) r) i0 f S ev with
    | none => simp [hfs] at hf
    | some S1 =>
      simp only [hfs] at hf
      have hns := (follow_ok_eventD hfs).2
      have hb : (ev == Event.botIntent "stop") = false := by simpa using hns
      rcases step_invD hS f S S1 st ev hinv hfs with h | ⟨st1, h, hinv1⟩
      · left; simp [replay, h]
      · simp only [replay, h, hb, Bool.false_eq_true, if_false]
        exact ih S1 S' st1 hinv1 hf

theorem follow_eventsD {lib : Lib} {p : Prog} {i0 : String} {f : Nat} : ∀ (H : List Event) (S S' : SS),
    followAllD lib p i0 f S H = some S' → ∀ ev ∈ H, ev ≠ .hidePrevTurn ∧ ev ≠ .botIntent "stop" := by
  intro H
  induction H with
  | nil => intro S S' _ ev hev; cases hev
  | cons e rest ih =>
    intro S S' hf ev hev
    simp only [followAllD] at hf
    cases hfs : followStepD lib p i0 f S e with
    | none => simp [hfs] at hf
    | some S1 =>
      simp only [hfs] at hf
      rcases List.mem_cons.1 hev with h | h
      · subst h; exact follow_ok_eventD hfs
      · exact ih S1 S' hf ev h

/-- **Whole histories, flows with (non-blocking) subflow calls.** -/
theorem follow_decidesD {cfgs : Cfgs} {id i0 : String} {r : Prog} {lib : Lib} (hS : Setup cfgs id (.step (.user i0) r) lib)
    (f : Nat) (H : List Event) (S : SS)
    (hf : followAllD lib (.step (.user i0) r) i0 f { ctx := [], pos := .idle, dec := [] } H = some S) :
    computeNextSteps true cfgs H = .oof ∨ computeNextSteps true cfgs H = .ok S.dec := by
  have hev := follow_eventsD H _ _ hf
  have hh := applyHide_nohide H [] (fun ev h => (hev ev h).1)
  simp only [List.nil_append] at hh
  have hinv0 : Inv id (.step (.user i0) r) { ctx := [], pos := .idle, dec := [] } { ctx := [] } :=
    ⟨rfl, by simp [decisionsOf], .inl rfl⟩
  simp only [computeNextSteps, hh]
  rcases replay_followD hS f H _ S _ hinv0 hf with h | ⟨st, h, hinv⟩
  · left; rw [h]
  · right
    rw [h]
    have hlast : (H.getLast? == some (Event.botIntent "stop")) = false := by
      cases hl : H.getLast? with
      | none => rfl
      | some e =>
        have hmem : e ∈ H := List.mem_of_getLast? hl
        have := (hev e hmem).2
        simpa using this
    simp only [hlast, Bool.false_eq_true, if_false]
    rw [hinv.2.1]

end NemoVerif.V1FollowDo
