/-
  Lemmas about the whole-interpreter model CoreVM: the loop structure of `runToCompletion` (queue empty at every
  normal exit) and the link from the by-construction index component (`IxS`) to the layer-1 invariant.
-/
import NemoVerif.Models.CoreVM
import NemoVerif.Lemmas.CoreIndex

namespace NemoVerif.CoreVM
open NemoVerif NemoVerif.CoreIndex

/-- `x >>= f = ok` splits into the two runs -/
theorem bind_ok {α β : Type} {x : M α} {f : α → M β} {s s' : VM} {b : β}
    (h : (EStateM.bind x f) s = .ok b s') : ∃ a s1, x s = .ok a s1 ∧ f a s1 = .ok b s' := by
  unfold EStateM.bind at h
  split at h
  · rename_i a s1 hx; exact ⟨a, s1, hx, h⟩
  · cases h

theorem drainEvents_queue_empty : ∀ (fuel : Nat) (acts : List Key) (s s' : VM) (r : List Key),
    drainEvents fuel acts s = .ok r s' → s'.r.queue = []
  | 0, acts, s, s', r, h => by simp [drainEvents, throw, throwThe, MonadExceptOf.throw, EStateM.throw] at h
  | fuel + 1, acts, s, s', r, h => by
    unfold drainEvents at h
    simp only [bind, EStateM.bind, getRest, get, getThe, MonadStateOf.get, EStateM.get, pure, EStateM.pure] at h
    cases hq : s.r.queue with
    | nil =>
      rw [hq] at h
      simp only [EStateM.pure] at h
      cases h
      exact hq
    | cons e rest =>
      rw [hq] at h
      simp only at h
      obtain ⟨_, s1, _, h2⟩ := bind_ok h
      obtain ⟨a, s2, _, h3⟩ := bind_ok h2
      exact drainEvents_queue_empty fuel a s2 s' r h3

end NemoVerif.CoreVM

namespace NemoVerif.CoreVM
open NemoVerif NemoVerif.CoreIndex

theorem mergeLoop_queue_empty : ∀ (fuel : Nat) (acts : List Key) (s s' : VM) (r : List Key),
    mergeLoop fuel acts s = .ok r s' → s'.r.queue = []
  | 0, acts, s, s', r, h => by simp [mergeLoop, throw, throwThe, MonadExceptOf.throw, EStateM.throw] at h
  | fuel + 1, acts, s, s', r, h => by
    unfold mergeLoop at h
    simp only [bind] at h
    obtain ⟨a, s1, h1, h2⟩ := bind_ok h
    have hq := drainEvents_queue_empty fuel acts s s1 a h1
    simp only [get, getThe, MonadStateOf.get, EStateM.get, EStateM.bind] at h2
    split at h2
    · simp [unsupported, throw, throwThe, MonadExceptOf.throw, EStateM.throw] at h2
    · split at h2
      · simp only [pure, EStateM.pure] at h2
        cases h2
        exact hq
      · obtain ⟨more, s2, _, h3⟩ := bind_ok h2
        exact mergeLoop_queue_empty fuel _ s2 s' r h3

theorem mainLoop_queue_empty : ∀ (fuel : Nat) (acts : List Key) (s s' : VM) (u : Unit),
    mainLoop fuel acts s = .ok u s' → s'.r.queue = []
  | 0, acts, s, s', u, h => by simp [mainLoop, throw, throwThe, MonadExceptOf.throw, EStateM.throw] at h
  | fuel + 1, acts, s, s', u, h => by
    unfold mainLoop at h
    simp only [bind] at h
    obtain ⟨a, s1, h1, h2⟩ := bind_ok h
    have hq := mergeLoop_queue_empty fuel acts s s1 a h1
    simp only [getIx, get, getThe, MonadStateOf.get, EStateM.get, EStateM.bind, bind, pure, EStateM.pure] at h2
    split at h2
    · cases h2; exact hq
    · obtain ⟨adv, s2, _, h3⟩ := bind_ok h2
      split at h3
      · simp [unsupported, throw, throwThe, MonadExceptOf.throw, EStateM.throw] at h3
      · obtain ⟨a3, s3, _, h4⟩ := bind_ok h3
        exact mainLoop_queue_empty fuel a3 s3 s' u h4

/-- **T1** `queue_empty_at_exit`: whenever `runToCompletion` returns normally, no internal event is pending. -/
theorem runToCompletion_queue_empty (fuel : Nat) (ev : Match.Ev) (s s' : VM) (u : Unit)
    (h : runToCompletion fuel ev s = .ok u s') : s'.r.queue = [] := by
  unfold runToCompletion at h
  simp only [bind] at h
  obtain ⟨_, s1, _, h2⟩ := bind_ok h
  obtain ⟨_, s2, _, h3⟩ := bind_ok h2
  obtain ⟨_, s3, h4, h5⟩ := bind_ok h3
  have hq := mainLoop_queue_empty fuel [] s2 s3 () h4
  simp only [getIx, get, getThe, MonadStateOf.get, EStateM.get, EStateM.bind, bind, pure, EStateM.pure] at h5
  split at h5
  · simp [throw, throwThe, MonadExceptOf.throw, EStateM.throw] at h5
  · cases h5; exact hq

/-- the exit assertion of the model: a normal return implies that no instance is STOPPING -/
theorem runToCompletion_noStopping (fuel : Nat) (ev : Match.Ev) (s s' : VM) (u : Unit)
    (h : runToCompletion fuel ev s = .ok u s') : NoStopping s'.ixs.ix := by
  unfold runToCompletion at h
  simp only [bind] at h
  obtain ⟨_, s1, _, h2⟩ := bind_ok h
  obtain ⟨_, s2, _, h3⟩ := bind_ok h2
  obtain ⟨_, s3, _, h5⟩ := bind_ok h3
  simp only [getIx, get, getThe, MonadStateOf.get, EStateM.get, EStateM.bind, bind, pure, EStateM.pure] at h5
  split at h5
  · simp [throw, throwThe, MonadExceptOf.throw, EStateM.throw] at h5
  · rename_i hns
    cases h5
    intro i hi hst
    apply hns
    simp only [List.any_eq_true, decide_eq_true_eq]
    exact ⟨i, hi, hst⟩

end NemoVerif.CoreVM

namespace NemoVerif.CoreVM
open NemoVerif NemoVerif.CoreIndex

/-- a log all of whose guards held replays to a state satisfying the layer-1 invariant -/
theorem indexOK_replayR : ∀ (rlog : List Op), AllGuardsR rlog → IndexOK (replayR rlog)
  | [], _ => indexOK_init
  | op :: rest, h => indexOK_step (indexOK_replayR rest h.1) op h.2

/-- the index component of ANY CoreVM state satisfies the invariant -/
theorem indexOK_of_vm (s : VM) : IndexOK s.ixs.ix := by
  rw [s.ixs.h]; exact indexOK_replayR _ s.ixs.hok

theorem noPos_replayR : ∀ (rlog : List Op), AllGuardsR rlog → NoPos (replayR rlog)
  | [], _ => noPos_init
  | op :: rest, h => noPos_step (noPos_replayR rest h.1) op h.2

theorem noPos_of_vm (s : VM) : NoPos s.ixs.ix := by
  rw [s.ixs.h]; exact noPos_replayR _ s.ixs.hok

theorem mapsConsistent_replayR : ∀ (rlog : List Op), MapsConsistent (replayR rlog)
  | [] => indexOK_init.maps
  | op :: rest => mapsConsistent_step (mapsConsistent_replayR rest) op

theorem mapsConsistent_of_vm (s : VM) : MapsConsistent s.ixs.ix := by
  rw [s.ixs.h]; exact mapsConsistent_replayR _

end NemoVerif.CoreVM

/-! ### worklist facts (pieces of the T2 invariant) -/
namespace NemoVerif.CoreVM
open NemoVerif NemoVerif.CoreIndex

/-- every head handed back by `_advance_head_front` is, in the resulting state, a head that still exists and is not INACTIVE
    (the final filter of the Python function) -/
theorem advanceHeadFront_returns_live (fuel : Nat) (heads : List Key) (s s' : VM) (r : List Key)
    (h : advanceHeadFront fuel heads s = .ok r s') :
    ∀ k ∈ r, ∃ hd, (findInst s'.ixs.ix k.1).bind (·.findHead k.2) = some hd ∧ hd.status ≠ .inactive := by
  cases fuel with
  | zero => simp [advanceHeadFront, throw, throwThe, MonadExceptOf.throw, EStateM.throw] at h
  | succ fuel =>
    unfold advanceHeadFront at h
    simp only [bind] at h
    obtain ⟨acts, s1, _, h2⟩ := bind_ok h
    simp only [getIx, get, getThe, MonadStateOf.get, EStateM.get, EStateM.bind, bind, pure, EStateM.pure] at h2
    cases h2
    intro k hk
    simp only [List.mem_filter] at hk
    obtain ⟨_, hk2⟩ := hk
    split at hk2
    · rename_i hd hf
      exact ⟨hd, hf, by simpa using hk2⟩
    · cases hk2

end NemoVerif.CoreVM

namespace NemoVerif.CoreVM
open NemoVerif NemoVerif.CoreIndex

/-- every head handed back by the merging loop is ACTIVE in the resulting state (MERGING heads have been advanced) -/
theorem mergeLoop_returns_active : ∀ (fuel : Nat) (acts : List Key) (s s' : VM) (r : List Key),
    mergeLoop fuel acts s = .ok r s' → ∀ k ∈ r, headStatusOf s'.ixs.ix k = some .active
  | 0, acts, s, s', r, h => by simp [mergeLoop, throw, throwThe, MonadExceptOf.throw, EStateM.throw] at h
  | fuel + 1, acts, s, s', r, h => by
    unfold mergeLoop at h
    simp only [bind] at h
    obtain ⟨a, s1, _, h2⟩ := bind_ok h
    simp only [get, getThe, MonadStateOf.get, EStateM.get, EStateM.bind] at h2
    split at h2
    · simp [unsupported, throw, throwThe, MonadExceptOf.throw, EStateM.throw] at h2
    · split at h2
      · simp only [pure, EStateM.pure] at h2
        cases h2
        intro k hk
        simp only [List.mem_filter, decide_eq_true_eq] at hk
        exact hk.2
      · obtain ⟨more, s2, _, h3⟩ := bind_ok h2
        exact mergeLoop_returns_active fuel _ s2 s' r h3

end NemoVerif.CoreVM
