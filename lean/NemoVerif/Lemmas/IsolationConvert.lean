/-
  C15 — lemmas about the conversion of the messages after the cached prefix
  (`newTurnIdx`, `convertFrom`, `convertTail` of Models/Isolation.lean): where the new-turn index lies and
  what the loop emits around it.
-/
import NemoVerif.Models.Isolation
namespace NemoVerif.Isolation
variable {Ev : Type}

/-- a message that neither starts nor ends a turn (system / context / event / tool …) -/
def Neutral (m : Msg) : Prop := m.role ≠ rUser ∧ m.role ≠ rAssistant

theorem newTurnFrom_skip (l : List Msg) (hl : ∀ m ∈ l, Neutral m) (r : List Msg) (n : Nat) :
    newTurnFrom (l ++ r) n = newTurnFrom r (n - l.length) := by
  induction l generalizing n with
  | nil => simp
  | cons m l ih =>
    have hm := hl m (by simp)
    simp only [List.cons_append, newTurnFrom, hm.1, hm.2, if_false, List.length_cons]
    rw [ih (fun x hx => hl x (by simp [hx]))]
    congr 1; omega

theorem newTurnIdx_user (pre post : List Msg) (u : Msg) (hu : u.role = rUser)
    (hpost : ∀ m ∈ post, Neutral m) : newTurnIdx (pre ++ u :: post) = some pre.length := by
  have hua : u.role ≠ rAssistant := by rw [hu]; decide
  unfold newTurnIdx
  simp only [List.reverse_append, List.reverse_cons, List.append_assoc, List.singleton_append]
  rw [newTurnFrom_skip _ (by simpa using hpost)]
  have hua' : ¬ rUser = rAssistant := by decide
  simp only [newTurnFrom, hu, hua', if_false, if_true, List.length_reverse, List.length_append, List.length_cons]
  congr 1; omega

theorem newTurnIdx_assistant (pre post : List Msg) (a : Msg) (ha : a.role = rAssistant)
    (hpost : ∀ m ∈ post, Neutral m) : newTurnIdx (pre ++ a :: post) = none := by
  unfold newTurnIdx
  simp only [List.reverse_append, List.reverse_cons, List.append_assoc, List.singleton_append]
  rw [newTurnFrom_skip _ (by simpa using hpost)]
  simp [newTurnFrom, ha]

theorem newTurnIdx_neutral (l : List Msg) (hl : ∀ m ∈ l, Neutral m) : newTurnIdx l = none := by
  unfold newTurnIdx
  have := newTurnFrom_skip l.reverse (by simpa using hl) [] (l.length - 1)
  simpa [newTurnFrom] using this

theorem convertFrom_append (conv : Bool → Msg → List Ev) (nt : Option Nat) (a b : List Msg) (i : Nat) :
    convertFrom conv nt i (a ++ b) = convertFrom conv nt i a ++ convertFrom conv nt (i + a.length) b := by
  induction a generalizing i with
  | nil => simp [convertFrom]
  | cons m a ih =>
    simp only [List.cons_append, convertFrom, ih, List.append_assoc, List.length_cons]
    congr 3; omega

theorem convertFrom_off (conv : Bool → Msg → List Ev) (nt : Option Nat) (l : List Msg) (i : Nat)
    (h : ∀ k, nt = some k → k < i ∨ i + l.length ≤ k) :
    convertFrom conv nt i l = l.flatMap (conv false) := by
  induction l generalizing i with
  | nil => simp [convertFrom]
  | cons m l ih =>
    have hne : nt ≠ some i := by
      intro e; have := h i e; simp at this; omega
    simp only [convertFrom, hne, decide_false, List.flatMap_cons]
    rw [ih]
    intro k hk; have := h k hk; simp at this; omega

/-- the new turn: the last user message only followed by neutral messages is skipped in the loop (`conv true`)
    and its event (`fin`) is the LAST event -/
theorem convertTail_new_turn (conv : Bool → Msg → List Ev) (fin : Msg → List Ev) (pre post : List Msg) (u : Msg)
    (hu : u.role = rUser) (hpost : ∀ m ∈ post, Neutral m) :
    convertTail conv fin (pre ++ u :: post)
      = pre.flatMap (conv false) ++ conv true u ++ post.flatMap (conv false) ++ fin u := by
  unfold convertTail
  simp only [newTurnIdx_user pre post u hu hpost]
  rw [convertFrom_append, convertFrom_off conv _ pre 0 (by intro k hk; simp at hk; omega)]
  simp only [convertFrom, Nat.zero_add, decide_true]
  rw [convertFrom_off conv _ post _ (by intro k hk; simp at hk; omega)]
  simp

theorem convertTail_no_new_turn (conv : Bool → Msg → List Ev) (fin : Msg → List Ev) (tail : List Msg)
    (h : newTurnIdx tail = none) : convertTail conv fin tail = tail.flatMap (conv false) := by
  unfold convertTail
  simp only [h]
  rw [convertFrom_off conv _ tail 0 (by intro k hk; simp at hk)]
  simp

end NemoVerif.Isolation
