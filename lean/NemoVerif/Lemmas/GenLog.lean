/-
  Lemmas about `GenLog.compute` (the fold that mirrors `compute_generation_log`): what the fold does to the
  (type, name, stop) keys of the input/output rails, for every log and every start state.
-/
import NemoVerif.Models.GenLog

namespace NemoVerif.GenLog

theorem ioKeys_append (a b : List Rail) : ioKeys (a ++ b) = ioKeys a ++ ioKeys b := by
  induction a with
  | nil => rfl
  | cons r rs ih =>
    simp only [List.cons_append, ioKeys]
    split <;> simp [ih]

/-- `f` leaves type, name and stop alone -/
def SameKey (f : Rail → Rail) : Prop := ∀ r, (f r).type = r.type ∧ (f r).name = r.name ∧ (f r).stop = r.stop

theorem ioKeys_modifyNth (f : Rail → Rail) (hf : SameKey f) : ∀ (l : List Rail) (i : Nat), ioKeys (modifyNth f l i) = ioKeys l
  | [], _ => rfl
  | r :: rs, 0 => by
    obtain ⟨h1, h2, h3⟩ := hf r
    simp only [modifyNth, ioKeys, h1, h2, h3]
  | r :: rs, n + 1 => by
    simp only [modifyNth, ioKeys, ioKeys_modifyNth f hf rs n]

theorem sameKey_modifyAct (f : Act → Act) (j : Nat) : SameKey (Rail.modifyAct f j) := by
  intro r; simp [Rail.modifyAct]

theorem ioKeys_finishInit : ∀ l : List Rail, ioKeys (finishInit l) = ioKeys l
  | [] => rfl
  | [r] => rfl
  | r :: r' :: rs => by
    have ih := ioKeys_finishInit (r' :: rs)
    cases h : r.type.isIO <;> simp [finishInit, ioKeys, h, ih]

/-- key of a rail that is currently `activated_rail`: if a rail start/finish event comes later it keeps its
    own `stop`, otherwise the final clean-up flags it. -/
def keyOf (r : Rail) (closedLater : Bool) : List IOKey :=
  if r.type.isIO then [⟨r.type, r.name, if closedLater then r.stop else true⟩] else []

def curKey : Option Rail → Bool → List IOKey
  | some r, b => keyOf r b
  | none, _ => []

/-- the list Python returns before the finishing passes -/
def allRails (st : St) : List Rail := st.done ++ (st.cur.map closeCur).toList

theorem ioKeys_single (r : Rail) : ioKeys [r] = keyOf r true := by
  simp only [ioKeys, keyOf]; split <;> simp

theorem ioKeys_toList (c : Option Rail) : ioKeys c.toList = curKey c true := by
  cases c with
  | none => rfl
  | some r => exact ioKeys_single r

theorem keyOf_sameKey (f : Rail → Rail) (hf : SameKey f) (r : Rail) (b : Bool) : keyOf (f r) b = keyOf r b := by
  obtain ⟨h1, h2, h3⟩ := hf r
  simp only [keyOf, h1, h2, h3]

theorem curKey_map_sameKey (f : Rail → Rail) (hf : SameKey f) (c : Option Rail) (b : Bool) : curKey (c.map f) b = curKey c b := by
  cases c with
  | none => rfl
  | some r => exact keyOf_sameKey f hf r b

theorem ioKeys_closeCur (c : Option Rail) : ioKeys (c.map closeCur).toList = curKey c false := by
  cases c with
  | none => rfl
  | some r =>
    simp only [Option.map, Option.toList, ioKeys, closeCur, curKey, keyOf]
    cases h : r.type.isIO <;> simp [h]

theorem modifyExec_keys (st : St) (i j : Nat) (f : Act → Act) (b : Bool) :
    ioKeys (st.modifyExec i j f).done = ioKeys st.done ∧ curKey (st.modifyExec i j f).cur b = curKey st.cur b := by
  unfold St.modifyExec
  split
  · exact ⟨ioKeys_modifyNth _ (sameKey_modifyAct f j) _ _, rfl⟩
  · exact ⟨rfl, curKey_map_sameKey _ (sameKey_modifyAct f j) _ _⟩

theorem newRail_isIO (K : Consts) (fid : String) (ds : List String) : ((newRail K fid).addDecisions ds).type.isIO = false := by
  simp only [newRail, Rail.addDecisions]
  split <;> rfl

theorem newRail_not_io (K : Consts) (fid : String) (ds : List String) (b : Bool) : keyOf ((newRail K fid).addDecisions ds) b = [] := by
  simp [keyOf, newRail_isIO]

theorem curKey_ioRail (t : RailType) (ht : t.isIO = true) (fid : String) (b : Bool) :
    curKey (some (ioRail t fid)) b = [⟨t, fid, !b⟩] := by
  cases b <;> simp [curKey, keyOf, ioRail, ht]

/-- The effect of the whole loop on the keys, from any state. -/
theorem run_keys (K : Consts) : ∀ (L : List LogEv) (st st' : St), run K st L = .ok st' →
    ioKeys (allRails st') = ioKeys st.done ++ curKey st.cur (L.any LogEv.isStartOrFin) ++ stopSpec L
  | [], st, st', h => by
    simp only [run] at h
    cases h
    simp [allRails, ioKeys_append, ioKeys_closeCur, stopSpec]
  | e :: rest, st, st', h => by
    simp only [run] at h
    cases hs : stepEv K st e with
    | error err => rw [hs] at h; cases h
    | ok st1 =>
      rw [hs] at h
      have ih := run_keys K rest st1 st' h
      rw [ih]
      cases e with
      | step fid next =>
        simp only [stepEv] at hs
        have e1 : (LogEv.step fid next :: rest).any LogEv.isStartOrFin = rest.any LogEv.isStartOrFin := by
          simp [LogEv.isStartOrFin]
        have e2 : stopSpec (LogEv.step fid next :: rest) = stopSpec rest := by simp [stopSpec, LogEv.startOf]
        rw [e1, e2]
        cases hc : st.cur with
        | none =>
          rw [hc] at hs
          simp only at hs
          split at hs
          · cases hs; simp [hc]
          · cases hs; simp [curKey, newRail_not_io]
        | some r =>
          rw [hc] at hs
          simp only at hs
          split at hs
          · rename_i hd
            have hdia : r.type = .dialog := by
              simp only [Bool.and_eq_true, beq_iff_eq] at hd; exact hd.1
            split at hs
            · cases hs; simp [hc]
            · cases hs
              have hk : keyOf r (rest.any LogEv.isStartOrFin) = [] := by simp [keyOf, hdia, RailType.isIO]
              have hk' : keyOf r true = [] := by simp [keyOf, hdia, RailType.isIO]
              simp only [curKey, newRail_not_io, ioKeys_append, ioKeys_single, hk, hk', List.append_nil]
          · cases hs
            simp only [curKey]
            rw [keyOf_sameKey (fun r => r.addDecisions (decisionsOf K next)) (by intro r; simp [Rail.addDecisions])]
      | startIn fid =>
        simp only [stepEv] at hs
        cases hs
        have e1 : (LogEv.startIn fid :: rest).any LogEv.isStartOrFin = true := by simp [LogEv.isStartOrFin]
        have e2 : stopSpec (LogEv.startIn fid :: rest) = ⟨.input, fid, !(rest.any LogEv.isStartOrFin)⟩ :: stopSpec rest := rfl
        rw [e1, e2, curKey_ioRail _ rfl, ioKeys_append, ioKeys_toList]
        simp
      | startOut fid =>
        simp only [stepEv] at hs
        cases hs
        have e1 : (LogEv.startOut fid :: rest).any LogEv.isStartOrFin = true := by simp [LogEv.isStartOrFin]
        have e2 : stopSpec (LogEv.startOut fid :: rest) = ⟨.output, fid, !(rest.any LogEv.isStartOrFin)⟩ :: stopSpec rest := rfl
        rw [e1, e2, curKey_ioRail _ rfl, ioKeys_append, ioKeys_toList]
        simp
      | railFin =>
        simp only [stepEv] at hs
        cases hc : st.cur with
        | none => rw [hc] at hs; cases hs
        | some r =>
          rw [hc] at hs
          cases hs
          have : keyOf { r with finished := true } true = keyOf r true := by simp [keyOf]
          simp [ioKeys_append, ioKeys_single, curKey, this, stopSpec, LogEv.startOf, LogEv.isStartOrFin]
      | actStart n =>
        have e1 : (LogEv.actStart n :: rest).any LogEv.isStartOrFin = rest.any LogEv.isStartOrFin := by
          simp [LogEv.isStartOrFin]
        have e2 : stopSpec (LogEv.actStart n :: rest) = stopSpec rest := by simp [stopSpec, LogEv.startOf]
        rw [e1, e2]
        simp only [stepEv] at hs
        split at hs
        · cases hs; rfl
        · cases hc : st.cur with
          | none => rw [hc] at hs; cases hs
          | some r =>
            rw [hc] at hs
            cases hs
            simp only [curKey]
            rw [keyOf_sameKey (fun r : Rail => { r with actions := r.actions ++ [⟨n, [], false⟩] }) (by intro r; simp)]
      | actFin n =>
        have e1 : (LogEv.actFin n :: rest).any LogEv.isStartOrFin = rest.any LogEv.isStartOrFin := by
          simp [LogEv.isStartOrFin]
        have e2 : stopSpec (LogEv.actFin n :: rest) = stopSpec rest := by simp [stopSpec, LogEv.startOf]
        rw [e1, e2]
        simp only [stepEv] at hs
        split at hs
        · cases hs; rfl
        · cases hx : st.exec with
          | none => rw [hx] at hs; cases hs
          | some ij =>
            obtain ⟨i, j⟩ := ij
            rw [hx] at hs
            cases hs
            have := modifyExec_keys st i j (fun a => { a with finished := true }) (rest.any LogEv.isStartOrFin)
            simp only [this.1, this.2]
      | llm t =>
        have e1 : (LogEv.llm t :: rest).any LogEv.isStartOrFin = rest.any LogEv.isStartOrFin := by
          simp [LogEv.isStartOrFin]
        have e2 : stopSpec (LogEv.llm t :: rest) = stopSpec rest := by simp [stopSpec, LogEv.startOf]
        rw [e1, e2]
        simp only [stepEv] at hs
        cases hx : st.exec with
        | none => rw [hx] at hs; cases hs
        | some ij =>
          obtain ⟨i, j⟩ := ij
          rw [hx] at hs
          cases hs
          have := modifyExec_keys st i j (fun a => { a with llm := a.llm ++ [t] }) (rest.any LogEv.isStartOrFin)
          simp only [this.1, this.2]
      | other =>
        simp only [stepEv] at hs
        cases hs
        simp [stopSpec, LogEv.startOf, LogEv.isStartOrFin]

/-- re-labelling does not touch input/output rails unless one of them carries the re-label name -/
theorem ioKeys_map_relabel (K : Consts) : ∀ l : List Rail, (∀ k ∈ ioKeys l, k.name ≠ K.relabelName) →
    ioKeys (l.map (relabel K)) = ioKeys l
  | [], _ => rfl
  | r :: rs, h => by
    simp only [List.map, ioKeys]
    cases hio : r.type.isIO
    · have ih := ioKeys_map_relabel K rs (by intro k hk; apply h; simp [ioKeys, hio, hk])
      have : (relabel K r).type.isIO = false := by
        unfold relabel
        split
        · split
          · split
            · split
              · rfl
              · exact hio
            · exact hio
          · exact hio
        · exact hio
      simp [this, ih]
    · have hne : r.name ≠ K.relabelName := by apply h ⟨r.type, r.name, r.stop⟩; simp [ioKeys, hio]
      have ih := ioKeys_map_relabel K rs (by intro k hk; apply h; simp [ioKeys, hio, hk])
      have : relabel K r = r := by
        unfold relabel
        have : (r.name == K.relabelName) = false := by simpa using hne
        simp [this]
      simp [this, hio, ih]

theorem compute_ioKeys (K : Consts) (L : List LogEv) (out : Out) (h : compute K L = .ok out)
    (hn : ∀ k ∈ stopSpec L, k.name ≠ K.relabelName) : ioKeys out.rails = stopSpec L := by
  unfold compute at h
  cases L with
  | nil => cases h
  | cons e rest =>
    simp only at h
    cases hr : run K St.init (e :: rest) with
    | error err => rw [hr] at h; cases h
    | ok st =>
      rw [hr] at h
      cases h
      have hk := run_keys K (e :: rest) St.init st hr
      simp only [St.init, ioKeys, curKey, List.nil_append] at hk
      simp only [finalize]
      have h1 : ioKeys (finishInit (allRails st)) = stopSpec (e :: rest) := by rw [ioKeys_finishInit, hk]
      show ioKeys ((finishInit (st.done ++ (st.cur.map closeCur).toList)).map (relabel K)) = _
      rw [ioKeys_map_relabel K _ (by
        intro k hk'
        have : ioKeys (finishInit (st.done ++ (st.cur.map closeCur).toList)) = stopSpec (e :: rest) := h1
        rw [this] at hk'; exact hn k hk')]
      exact h1


/-! ### When does `compute_generation_log` return?  An exact abstraction of the `None` checks -/

/-- the two references the loop dereferences: (`activated_rail is not None`, `executed_action is not None`) -/
abbrev Refs := Bool × Bool

def accStep (K : Consts) : Refs → LogEv → Option Refs
  | (c, e), .step fid _ => some (c || !K.ignoredFlows.contains fid, e)
  | (_, e), .startIn _ => some (true, e)
  | (_, e), .startOut _ => some (true, e)
  | (c, e), .railFin => if c then some (false, e) else none
  | (c, e), .actStart n => if K.ignoredActions.contains n then some (c, e) else if c then some (c, true) else none
  | (c, e), .actFin n => if K.ignoredActions.contains n then some (c, e) else if e then some (c, false) else none
  | (c, e), .llm _ => if e then some (c, e) else none
  | s, .other => some s

def accepts (K : Consts) : Refs → List LogEv → Option Refs
  | s, [] => some s
  | s, ev :: rest => match accStep K s ev with
    | some s' => accepts K s' rest
    | none => none

def St.refs (st : St) : Refs := (st.cur.isSome, st.exec.isSome)

theorem modifyExec_refs (st : St) (i j : Nat) (f : Act → Act) :
    (st.modifyExec i j f).cur.isSome = st.cur.isSome ∧ (st.modifyExec i j f).exec = st.exec := by
  unfold St.modifyExec
  split
  · exact ⟨rfl, rfl⟩
  · constructor
    · cases st.cur <;> rfl
    · rfl

/-- the abstraction is exact: the loop raises iff the abstract run rejects -/
theorem stepEv_of_accStep (K : Consts) (st : St) (ev : LogEv) (s : Refs) (h : accStep K st.refs ev = some s) :
    ∃ st', stepEv K st ev = .ok st' ∧ st'.refs = s := by
  obtain ⟨done, cur, exec⟩ := st
  cases ev with
  | step fid next =>
    simp only [accStep, St.refs, Option.some.injEq] at h
    subst h
    cases cur with
    | none =>
      simp only [stepEv]
      split
      · rename_i hi; exact ⟨_, rfl, by simp only [St.refs, hi]; rfl⟩
      · rename_i hi
        have hi' : K.ignoredFlows.contains fid = false := by simpa using hi
        exact ⟨_, rfl, by simp only [St.refs, hi']; rfl⟩
    | some r =>
      simp only [stepEv]
      split
      · split
        · exact ⟨_, rfl, by simp [St.refs]⟩
        · exact ⟨_, rfl, by simp [St.refs]⟩
      · exact ⟨_, rfl, by simp [St.refs]⟩
  | startIn fid => simp only [accStep, St.refs, Option.some.injEq] at h; subst h; exact ⟨_, rfl, rfl⟩
  | startOut fid => simp only [accStep, St.refs, Option.some.injEq] at h; subst h; exact ⟨_, rfl, rfl⟩
  | railFin =>
    cases cur with
    | none => simp [accStep, St.refs] at h
    | some r => simp only [accStep, St.refs, Option.isSome_some, if_true, Option.some.injEq] at h; subst h; exact ⟨_, rfl, rfl⟩
  | actStart n =>
    simp only [accStep, St.refs] at h
    simp only [stepEv]
    split
    · rename_i hi; simp only [hi, if_true, Option.some.injEq] at h; subst h; exact ⟨_, rfl, rfl⟩
    · rename_i hi
      simp only [hi] at h
      cases cur with
      | none => simp at h
      | some r => simp at h; subst h; exact ⟨_, rfl, rfl⟩
  | actFin n =>
    simp only [accStep, St.refs] at h
    simp only [stepEv]
    split
    · rename_i hi; simp only [hi, if_true, Option.some.injEq] at h; subst h; exact ⟨_, rfl, rfl⟩
    · rename_i hi
      simp only [hi] at h
      cases exec with
      | none => simp at h
      | some ij =>
        obtain ⟨i, j⟩ := ij
        simp at h; subst h
        refine ⟨_, rfl, ?_⟩
        have := modifyExec_refs ⟨done, cur, some (i, j)⟩ i j (fun a => { a with finished := true })
        simp [St.refs, this.1]
  | llm t =>
    simp only [accStep, St.refs] at h
    cases exec with
    | none => simp at h
    | some ij =>
      obtain ⟨i, j⟩ := ij
      simp at h; subst h
      refine ⟨_, rfl, ?_⟩
      have := modifyExec_refs ⟨done, cur, some (i, j)⟩ i j (fun a => { a with llm := a.llm ++ [t] })
      simp [St.refs, this.1, this.2]
  | other => simp only [accStep, Option.some.injEq] at h; subst h; exact ⟨_, rfl, rfl⟩

theorem run_of_accepts (K : Consts) : ∀ (L : List LogEv) (st : St) (s : Refs), accepts K st.refs L = some s →
    ∃ st', run K st L = .ok st' ∧ st'.refs = s
  | [], st, s, h => by simp only [accepts, Option.some.injEq] at h; exact ⟨st, rfl, h⟩
  | ev :: rest, st, s, h => by
    simp only [accepts] at h
    cases ha : accStep K st.refs ev with
    | none => rw [ha] at h; cases h
    | some s1 =>
      rw [ha] at h
      obtain ⟨st1, h1, r1⟩ := stepEv_of_accStep K st ev s1 ha
      obtain ⟨st', h2, r2⟩ := run_of_accepts K rest st1 s (by rw [r1]; exact h)
      exact ⟨st', by simp only [run, h1, h2], r2⟩

theorem compute_of_accepts (K : Consts) (L : List LogEv) (hne : L ≠ []) (s : Refs) (h : accepts K (false, false) L = some s) :
    ∃ out, compute K L = .ok out := by
  obtain ⟨st', hr, _⟩ := run_of_accepts K L St.init s h
  cases L with
  | nil => exact absurd rfl hne
  | cons e rest => exact ⟨finalize K st', by simp only [compute, hr]⟩

theorem accepts_append (K : Consts) : ∀ (a b : List LogEv) (s : Refs),
    accepts K s (a ++ b) = (accepts K s a).bind fun s' => accepts K s' b
  | [], _, _ => rfl
  | ev :: rest, b, s => by
    simp only [List.cons_append, accepts]
    cases accStep K s ev with
    | none => rfl
    | some s1 => exact accepts_append K rest b s1

end NemoVerif.GenLog
