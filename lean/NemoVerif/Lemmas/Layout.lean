/-
  Helper lemmas about the `Layout` model (C13).  Property theorems are in Theorems/C13.lean.
-/
import NemoVerif.Models.Layout
namespace NemoVerif.Layout
theorem go_congr (c : Cfg) (A B : List Piece) (h : ∀ rs st, go c rs st A = go c rs st B) :
    ∀ pre rs st, go c rs st (pre ++ A) = go c rs st (pre ++ B) := by
  intro pre
  induction pre with
  | nil => intro rs st; simpa using h rs st
  | cons p pre ih =>
    intro rs st
    cases p with
    | tok ty v => simp only [List.cons_append, go, ih]
    | comment s => simp only [List.cons_append, go, ih]
    | nl cr => simp only [List.cons_append, go, ih]
    | ws w =>
      cases rs with
      | none => simp only [List.cons_append, go, ih]
      | some ind => simp only [List.cons_append, go, ih]

/-- blanks inside a run just extend the pending indentation string -/
theorem go_run_ws (c : Cfg) (l : List Ws) : ∀ (ind : List Ws) st r,
    go c (some ind) st (wsPieces l ++ r) = go c (some (ind ++ l)) st r := by
  induction l with
  | nil => intro ind st r; simp [wsPieces]
  | cons w l ih =>
    intro ind st r
    simp only [wsPieces, List.map_cons, List.cons_append, go] at ih ⊢
    rw [ih]; simp

/-- ignored blanks between tokens vanish -/
theorem go_ign_ws (c : Cfg) (l : List Ws) (hl : ∀ w ∈ l, c.ign w = true) : ∀ st r,
    go c none st (wsPieces l ++ r) = go c none st r := by
  induction l with
  | nil => intro st r; simp [wsPieces]
  | cons w l ih =>
    intro st r
    have hw : c.ign w = true := hl w (by simp)
    simp only [wsPieces, List.map_cons, List.cons_append, go, hw, if_true] at ih ⊢
    exact ih (fun w' h' => hl w' (by simp [h'])) st r

theorem width_append (t : Nat) (a b : List Ws) : width t (a ++ b) = width t a + width t b := by
  induction a with
  | nil => simp [width]
  | cons w a ih => cases w <;> simp [width, ih] <;> omega

theorem width_replicate (t k : Nat) (w : Ws) : width t (List.replicate k w) = k * width t [w] := by
  induction k with
  | zero => simp [width]
  | succ k ih =>
    rw [List.replicate_succ]
    cases w
    · simp only [width] at ih ⊢; rw [ih]; simp [Nat.succ_mul]; omega
    · simp only [width] at ih ⊢; rw [ih]; simp [Nat.succ_mul]; omega

theorem width_scale (t k : Nat) (ind : List Ws) : width t (scaleInd k ind) = k * width t ind := by
  induction ind with
  | nil => simp [scaleInd, width]
  | cons w r ih =>
    simp only [scaleInd, width_append, width_replicate, ih]
    cases w <;> simp [width, Nat.mul_add]

theorem scaleInd_append (k : Nat) (a b : List Ws) : scaleInd k (a ++ b) = scaleInd k a ++ scaleInd k b := by
  induction a with
  | nil => simp [scaleInd]
  | cons w a ih => simp [scaleInd, ih]

theorem top_scale (k : Nat) (s : List Nat) : top (s.map (k * ·)) = k * top s := by
  cases s <;> simp [top]

theorem popWhile_scale (k : Nat) (hk : 1 ≤ k) (n : Nat) (s : List Nat) :
    popWhile (k * n) (s.map (k * ·)) = ((popWhile n s).1, (popWhile n s).2.map (k * ·)) := by
  induction s with
  | nil => simp [popWhile]
  | cons t r ih =>
    simp only [List.map_cons, popWhile]
    have : (k * n < k * t) ↔ n < t := Nat.mul_lt_mul_left (by omega)
    by_cases h : n < t
    · simp [h, this.2 h, ih]
    · have h' : ¬ k * n < k * t := fun hh => h (this.1 hh)
      simp [h, h']

theorem handleNL_scale (c : Cfg) (k : Nat) (hk : 1 ≤ k) (st : St) (ind : List Ws) :
    handleNL c (scaleSt k st) (scaleInd k ind) =
      (handleNL c st ind).map (fun p => (p.1.map (scaleTok k), scaleSt k p.2)) := by
  unfold handleNL
  simp only [scaleSt, width_scale, top_scale, popWhile_scale k hk]
  by_cases hp : st.paren > 0
  · simp [hp, Except.map]
  · simp only [hp, if_false]
    have hlt : ∀ a b : Nat, (k * a > k * b) ↔ a > b := fun a b => Nat.mul_lt_mul_left (by omega)
    by_cases h1 : width c.tabLen ind > top st.stack
    · simp [h1, (hlt _ _).2 h1, Except.map, scaleTok]
    · have h1' : ¬ k * width c.tabLen ind > k * top st.stack := fun hh => h1 ((hlt _ _).1 hh)
      simp only [h1, h1', if_false]
      have hne : (k * width c.tabLen ind != k * top (popWhile (width c.tabLen ind) st.stack).2) =
          (width c.tabLen ind != top (popWhile (width c.tabLen ind) st.stack).2) := by
        have : k > 0 := by omega
        simp only [bne]
        congr 1
        rw [Bool.eq_iff_iff]
        simp only [beq_iff_eq]
        exact Nat.mul_left_cancel_iff this
      rw [hne]
      by_cases h2 : (width c.tabLen ind != top (popWhile (width c.tabLen ind) st.stack).2) = true
      · simp [h2, Except.map]
      · simp [h2, Except.map, scaleTok]

theorem flush_scale (c : Cfg) (k : Nat) (hk : 1 ≤ k) (rs : Option (List Ws)) (st : St) :
    flush c (rs.map (scaleInd k)) (scaleSt k st) =
      (flush c rs st).map (fun p => (p.1.map (scaleTok k), scaleSt k p.2)) := by
  cases rs with
  | none => simp [flush, Except.map]
  | some ind => simp [flush, handleNL_scale c k hk]

theorem bump_scale (c : Cfg) (k : Nat) (st : St) (ty : String) :
    bump c (scaleSt k st) ty = (bump c st ty).map (scaleSt k) := by
  unfold bump
  by_cases h1 : ty ∈ c.opens
  · simp [h1, scaleSt, Except.map]
  · by_cases h2 : ty ∈ c.closes
    · by_cases h3 : st.paren = 0 <;> simp [h1, h2, h3, scaleSt, Except.map]
    · simp [h1, h2, scaleSt, Except.map]

theorem finalDedents_scale (k : Nat) (st : St) :
    finalDedents (scaleSt k st) = (finalDedents st).map (scaleTok k) := by
  simp [finalDedents, scaleSt, scaleTok]

theorem wsPieces_replicate (k : Nat) (w : Ws) : List.replicate k (Piece.ws w) = wsPieces (List.replicate k w) := by
  simp [wsPieces]

theorem go_scale (c : Cfg) (k : Nat) (hk : 1 ≤ k) : ∀ (ps : List Piece) (rs : Option (List Ws)) (st : St),
    go c (rs.map (scaleInd k)) (scaleSt k st) (scaleP k rs.isSome ps) =
      (go c rs st ps).map (List.map (scaleTok k)) := by
  intro ps
  induction ps with
  | nil =>
    intro rs st
    simp only [scaleP, go, flush_scale c k hk]
    cases flush c rs st with
    | error e => simp [Except.map]
    | ok p => simp [Except.map, finalDedents_scale]
  | cons p ps ih =>
    intro rs st
    cases p with
    | tok ty v =>
      have e : scaleP k rs.isSome (.tok ty v :: ps) = .tok ty v :: scaleP k false ps := by
        cases rs <;> simp [scaleP]
      rw [e]
      simp only [go, flush_scale c k hk]
      cases flush c rs st with
      | error e => simp [Except.map, Except.bind]
      | ok p =>
        simp only [Except.map, Except.bind, bump_scale]
        cases bump c p.2 ty with
        | error e => simp
        | ok st2 =>
          have := ih none st2
          simp only [Option.map_none, Option.isSome_none] at this
          simp only [Except.map, this]
          cases go c none st2 ps with
          | error e => simp
          | ok rest => simp [scaleTok]
    | comment s =>
      have e : scaleP k rs.isSome (.comment s :: ps) = .comment s :: scaleP k false ps := by
        cases rs <;> simp [scaleP]
      rw [e]
      simp only [go, flush_scale c k hk]
      cases flush c rs st with
      | error e => simp [Except.map, Except.bind]
      | ok p =>
        have := ih none p.2
        simp only [Option.map_none, Option.isSome_none] at this
        simp only [Except.map, Except.bind, this]
        cases go c none p.2 ps with
        | error e => simp
        | ok rest => simp
    | nl cr =>
      have e : scaleP k rs.isSome (.nl cr :: ps) = .nl cr :: scaleP k true ps := by
        cases rs <;> simp [scaleP]
      rw [e]
      simp only [go]
      have := ih (some []) st
      simpa [scaleInd] using this
    | ws w =>
      cases rs with
      | none =>
        simp only [Option.isSome_none, scaleP, Option.map_none, go]
        by_cases hw : c.ign w = true
        · simp only [hw, if_true]
          simpa using ih none st
        · simp [hw, Except.map]
      | some ind =>
        simp only [Option.isSome_some, scaleP, Option.map_some, go, wsPieces_replicate, go_run_ws]
        have := ih (some (ind ++ [w])) st
        simp only [Option.isSome_some, Option.map_some, scaleInd_append, scaleInd, List.append_nil] at this
        exact this


/-- an error that every continuation state runs into is reached from any prefix (or an earlier error is) -/
theorem go_error_congr (c : Cfg) (A : List Piece) (h : ∀ rs st, ∃ e, go c rs st A = .error e) :
    ∀ pre rs st, ∃ e, go c rs st (pre ++ A) = .error e := by
  intro pre
  induction pre with
  | nil => intro rs st; simpa using h rs st
  | cons p pre ih =>
    intro rs st
    cases p with
    | tok ty v =>
      simp only [List.cons_append, go]
      cases flush c rs st with
      | error e => exact ⟨e, rfl⟩
      | ok q =>
        simp only [Except.bind]
        cases bump c q.2 ty with
        | error e => exact ⟨e, rfl⟩
        | ok st2 =>
          obtain ⟨e, he⟩ := ih none st2
          exact ⟨e, by simp [he, Except.map]⟩
    | comment s =>
      simp only [List.cons_append, go]
      cases flush c rs st with
      | error e => exact ⟨e, rfl⟩
      | ok q =>
        obtain ⟨e, he⟩ := ih none q.2
        exact ⟨e, by simp [Except.bind, he, Except.map]⟩
    | nl cr => simp only [List.cons_append, go]; exact ih _ _
    | ws w =>
      cases rs with
      | none =>
        simp only [List.cons_append, go]
        by_cases hw : c.ign w = true
        · simp only [hw, if_true]; exact ih _ _
        · exact ⟨.badChar, by simp [hw]⟩
      | some ind => simp only [List.cons_append, go]; exact ih _ _

/-! ### the erased stream (what the LALR parser can see) -/

/-- what the parser can see of a stream -/
def goE (c : Cfg) (rs : Option (List Ws)) (st : St) (ps : List Piece) : Except Err (List ETok) :=
  (go c rs st ps).map (List.map erase)

theorem map_bind {ε α β γ : Type} (x : Except ε α) (f : α → Except ε β) (g : β → γ) :
    (x.bind f).map g = x.bind (fun a => (f a).map g) := by
  cases x <;> rfl

theorem goE_congr (c : Cfg) (A B : List Piece) (h : ∀ rs st, goE c rs st A = goE c rs st B) :
    ∀ pre rs st, goE c rs st (pre ++ A) = goE c rs st (pre ++ B) := by
  intro pre
  induction pre with
  | nil => intro rs st; simpa using h rs st
  | cons p pre ih =>
    intro rs st
    cases p with
    | tok ty v =>
      have key : ∀ st2, (go c none st2 (pre ++ A)).map (List.map erase) = (go c none st2 (pre ++ B)).map (List.map erase) :=
        fun st2 => ih none st2
      simp only [goE, List.cons_append, go]
      cases flush c rs st with
      | error e => rfl
      | ok p =>
        simp only [Except.bind]
        cases bump c p.2 ty with
        | error e => rfl
        | ok st2 =>
          simp only []
          have := key st2
          cases hA : go c none st2 (pre ++ A) <;> cases hB : go c none st2 (pre ++ B) <;> simp_all [Except.map]
    | comment s =>
      have key : ∀ st2, (go c none st2 (pre ++ A)).map (List.map erase) = (go c none st2 (pre ++ B)).map (List.map erase) :=
        fun st2 => ih none st2
      simp only [goE, List.cons_append, go]
      cases flush c rs st with
      | error e => rfl
      | ok p =>
        simp only [Except.bind]
        have := key p.2
        cases hA : go c none p.2 (pre ++ A) <;> cases hB : go c none p.2 (pre ++ B) <;> simp_all [Except.map]
    | nl cr => simpa only [goE, List.cons_append, go] using ih (some []) st
    | ws w =>
      cases rs with
      | none =>
        simp only [goE, List.cons_append, go]
        split
        · exact ih none st
        · rfl
      | some ind => simpa only [goE, List.cons_append, go] using ih (some (ind ++ [w])) st

/-- the text of a `_`-terminal is invisible -/
theorem goE_tok_text (c : Cfg) (ty v v' : String) (h : ty.startsWith "_" = true) (post : List Piece) (rs : Option (List Ws)) (st : St) :
    goE c rs st (.tok ty v :: post) = goE c rs st (.tok ty v' :: post) := by
  simp only [goE, go]
  cases flush c rs st with
  | error e => rfl
  | ok p =>
    simp only [Except.bind]
    cases bump c p.2 ty with
    | error e => rfl
    | ok st2 =>
      simp only []
      cases go c none st2 post with
      | error e => rfl
      | ok rest => simp [Except.map, erase, h]

theorem layoutE_eq_goE (c : Cfg) (ps : List Piece) : layoutE c ps = goE c none St.init ps := by
  unfold layoutE goE layout
  cases go c none St.init ps <;> rfl

theorem go_setCR (c : Cfg) (f : Bool → Bool) : ∀ (ps : List Piece) (rs : Option (List Ws)) (st : St),
    go c rs st (ps.map (setCR f)) = go c rs st ps := by
  intro ps
  induction ps with
  | nil => intro rs st; rfl
  | cons p ps ih =>
    intro rs st
    cases p with
    | tok ty v => simp only [List.map_cons, setCR, go, ih]
    | comment s => simp only [List.map_cons, setCR, go, ih]
    | nl cr => simp only [List.map_cons, setCR, go, ih]
    | ws w =>
      cases rs with
      | none => simp only [List.map_cons, setCR, go, ih]
      | some ind => simp only [List.map_cons, setCR, go, ih]

end NemoVerif.Layout
