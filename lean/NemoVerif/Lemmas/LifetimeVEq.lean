/-
  C06 — on acyclic hierarchies the repaired recursion (visited set) IS the as-is recursion.
  Part 1: the as-is pieces neither read nor write `busy` (`wb b s` = `s` with `busy := b`).
-/
import NemoVerif.Lemmas.LifetimeV
namespace NemoVerif.Lifetime

/-- `s` with `busy := b` -/
def wb (b : List Nat) (s : State) : State := { s with busy := b }

@[simp] theorem wb_flows (b s) : (wb b s).flows = s.flows := rfl
@[simp] theorem wb_actions (b s) : (wb b s).actions = s.actions := rfl
@[simp] theorem wb_order (b s) : (wb b s).order = s.order := rfl
@[simp] theorem wb_queue (b s) : (wb b s).queue = s.queue := rfl
@[simp] theorem wb_out (b s) : (wb b s).out = s.out := rfl
@[simp] theorem wb_busy (b s) : (wb b s).busy = b := rfl
@[simp] theorem wb_wb (b b' s) : wb b (wb b' s) = wb b s := rfl

/-- lift over `Except` -/
def wbE (b : List Nat) : Except Err State → Except Err State
  | .ok s => .ok (wb b s)
  | .error e => .error e

@[simp] theorem wbE_ok (b s) : wbE b (.ok s) = .ok (wb b s) := rfl
@[simp] theorem wbE_error (b e) : wbE b (.error e) = .error e := rfl

theorem setFlow_wb (b s u f) : setFlow (wb b s) u f = wb b (setFlow s u f) := rfl
theorem setAction_wb (b s a x) : setAction (wb b s) a x = wb b (setAction s a x) := rfl
theorem push_wb (b s e) : push (wb b s) e = wb b (push s e) := rfl
theorem pushLeft_wb (b s e) : pushLeft (wb b s) e = wb b (pushLeft s e) := rfl
theorem emit_wb (b s e) : emit (wb b s) e = wb b (emit s e) := rfl

theorem modFlow_wb (b s u g) : modFlow (wb b s) u g = wb b (modFlow s u g) := by
  unfold modFlow
  simp only [wb_flows]
  split <;> rfl

theorem updActs_wb (e : AEv) (b : List Nat) : ∀ (l : List Nat) (s : State), updActs e (wb b s) l = wb b (updActs e s l)
  | [], s => rfl
  | a :: as, s => by
    simp only [updActs, wb_actions]
    split
    · split
      · rw [setAction_wb, updActs_wb e b as]
      · exact updActs_wb e b as s
    · exact updActs_wb e b as s

theorem updFlows_wb (e : AEv) (b : List Nat) : ∀ (l : List Nat) (s : State), updFlows e (wb b s) l = wb b (updFlows e s l)
  | [], s => rfl
  | u :: us, s => by
    simp only [updFlows, wb_flows]
    split
    · split
      · rw [updActs_wb, updFlows_wb e b us]
      · exact updFlows_wb e b us s
    · exact updFlows_wb e b us s

theorem generateUmim_wb (b s o e) : generateUmim (wb b s) o e = wb b (generateUmim s o e) := by
  unfold generateUmim updateActionStatusByEvent
  rw [emit_wb, updFlows_wb]
  rfl

theorem stopAction1_wb (b : List Nat) (s : State) (a : Nat) : stopAction1 (wb b s) a = wbE b (stopAction1 s a) := by
  unfold stopAction1
  simp only [wb_actions]
  split
  · rfl
  · split
    · split
      · rw [setAction_wb, generateUmim_wb]; rfl
      · rw [setAction_wb]; rfl
    · rfl

theorem stopActions_wb (b : List Nat) : ∀ (l : List Nat) (s : State), stopActions (wb b s) l = wbE b (stopActions s l)
  | [], s => rfl
  | a :: as, s => by
    simp only [stopActions, stopAction1_wb]
    cases h : stopAction1 s a with
    | ok s1 => simp only [wbE_ok]; exact stopActions_wb b as s1
    | error e => rfl

theorem isRefActivated_wb (b s f) : isRefActivated (wb b s) f = isRefActivated s f := rfl
theorem isChildActivated_wb (b s f) : isChildActivated (wb b s) f = isChildActivated s f := rfl

theorem removeFromParent_wb (b : List Nat) (s : State) (u : Nat) : removeFromParent (wb b s) u = wbE b (removeFromParent s u) := by
  unfold removeFromParent
  simp only [wb_flows]
  split
  · rfl
  · split
    · split
      · rfl
      · split
        · rfl
        · split
          · rw [setFlow_wb]; rfl
          · rfl
    · rfl

theorem restart_wb (b : List Nat) (s : State) (u : Nat) (d : Bool) : restart (wb b s) u d = wbE b (restart s u d) := by
  unfold restart
  simp only [wb_flows]
  split
  · rfl
  · split
    · split
      · rfl
      · rw [pushLeft_wb, modFlow_wb]; rfl
    · rfl

theorem markNoRestart_wb (b : List Nat) (s : State) (u : Nat) : markNoRestart (wb b s) u = wb b (markNoRestart s u) := by
  unfold markNoRestart
  simp only [wb_flows]
  split
  · split
    · rfl
    · rfl
  · rfl

theorem abortTail_wb (b : List Nat) (s : State) (u : Nat) (d : Bool) : abortTail (wb b s) u d = wbE b (abortTail s u d) := by
  unfold abortTail
  simp only [wb_flows]
  cases hf : s.flows u with
  | none => rfl
  | some f1 =>
    simp only [stopActions_wb]
    cases h : stopActions s f1.actionUids with
    | error e' => rfl
    | ok s2 =>
      simp only [wbE_ok, modFlow_wb, removeFromParent_wb]
      cases h4 : removeFromParent (modFlow s2 u fun f => { f with heads := 0 }) u with
      | error e' => rfl
      | ok s4 =>
        simp only [wbE_ok, modFlow_wb, push_wb, restart_wb]

/-! ## Part 2: simulation on acyclic hierarchies -/

/-- the instance is neither listening nor STOPPING (or does not exist) -/
def dead (s : State) (v : Nat) : Prop := ∀ f, s.flows v = some f → f.status.listening = false ∧ f.status ≠ .stopping

/-- every uid in `in_progress` is dead or has rank ≥ `k` -/
def BusyOK (r : Nat → Nat) (s : State) (k : Nat) (b : List Nat) : Prop := ∀ v, v ∈ b → dead s v ∨ k ≤ r v

theorem dead_of_steps {s t : State} (h : Steps false s t) (v : Nat) (hd : dead s v) : dead t v := by
  intro f' hf'
  obtain ⟨f, hf, hu⟩ := h.flows_back v f' hf'
  obtain ⟨h1, h2⟩ := hd f hf
  rcases hu.status with e | e | e
  · rw [e]; exact ⟨h1, h2⟩
  · rw [e]; exact ⟨rfl, by simp⟩
  · rw [e]; exact ⟨rfl, by simp⟩

theorem dead_restart {s t : State} {u : Nat} {d : Bool} (h : restart s u d = .ok t) (v : Nat) (hd : dead s v) : dead t v := by
  intro f' hf'
  obtain ⟨f, hf, h1 | h1⟩ := restart_spec s u d t h
  · obtain ⟨_, _, _, _, hu, hne⟩ := h1
    by_cases hv : v = u
    · subst hv; rw [hu] at hf'; cases hf'; exact hd f hf
    · rw [hne v hv] at hf'; exact hd f' hf'
  · rw [h1.2] at hf'; exact hd f' hf'

theorem BusyOK.steps {r : Nat → Nat} {s t : State} {k : Nat} {b : List Nat} (h : Steps false s t) (hb : BusyOK r s k b) : BusyOK r t k b :=
  fun v hv => (hb v hv).imp (dead_of_steps h v) id

theorem BusyOK.mono {r : Nat → Nat} {s : State} {k k' : Nat} {b : List Nat} (hb : BusyOK r s k b) (hk : k' ≤ k) : BusyOK r s k' b :=
  fun v hv => (hb v hv).imp id (fun h => Nat.le_trans hk h)

abbrev recV (n : Nat) : State → Nat → Except Err State := fun s c => abortFlowV n s c true

/-- contract of a call at fuel `n`: on an acyclic hierarchy, with a harmless `in_progress`, the repaired call is the
    as-is call (the set only grows, and only by instances that are dead afterwards) -/
def SimN (r : Nat → Nat) (n : Nat) : Prop :=
  ∀ (s : State) (u : Nat) (d : Bool) (b : List Nat), Ranked r s → BusyOK r s (r u + 1) b →
    ∃ b', abortFlowV n (wb b s) u d = wbE b' (abortFlow n s u d) ∧ (∀ v, v ∈ b → v ∈ b') ∧
      ∀ s', abortFlow n s u d = .ok s' → ∀ v, v ∈ b' → v ∈ b ∨ dead s' v

theorem childLoop_sim (r : Nat → Nat) (n : Nat) (hS : SimN r n) : ∀ (l : List Nat) (s : State) (b : List Nat) (k : Nat),
    Ranked r s → BusyOK r s k b → (∀ c, c ∈ l → s.flows c ≠ none → r c < k) →
    ∃ b', childLoop (recV n) (wb b s) l = wbE b' (childLoop (recA n) s l) ∧ (∀ v, v ∈ b → v ∈ b') ∧
      ∀ s', childLoop (recA n) s l = .ok s' → ∀ v, v ∈ b' → v ∈ b ∨ dead s' v
  | [], s, b, k, _, _, _ => ⟨b, rfl, fun _ h => h, fun _ _ _ h => Or.inl h⟩
  | c :: cs, s, b, k, hr, hb, hl => by
    have hl' : ∀ c', c' ∈ cs → s.flows c' ≠ none → r c' < k := fun c' h => hl c' (List.mem_cons_of_mem _ h)
    simp only [childLoop, wb_flows]
    cases hc : s.flows c with
    | none => exact childLoop_sim r n hS cs s b k hr hb hl'
    | some cf =>
      simp only [isChildActivated_wb]
      by_cases hca : isChildActivated s cf = true
      · simp only [hca, Bool.not_true, Bool.false_eq_true, if_false]
        exact childLoop_sim r n hS cs s b k hr hb hl'
      · simp only [hca, Bool.not_false, if_true]
        have hck : r c < k := hl c (List.mem_cons_self ..) (by rw [hc]; simp)
        obtain ⟨b1, e1, sub1, dd1⟩ := hS s c true b hr (hb.mono (by omega))
        simp only [recV, recA] at e1 ⊢
        rw [e1]
        cases hrec : abortFlow n s c true with
        | error e => exact ⟨b, rfl, fun _ h => h, fun _ h => by cases h⟩
        | ok s1 =>
          simp only [wbE_ok]
          have st := abortFlow_true_steps n s c s1 hrec
          obtain ⟨_, hn, _⟩ := st.flows_rel
          have hb1 : BusyOK r s1 k b1 := by
            intro v hv
            rcases dd1 s1 hrec v hv with h | h
            · exact (hb v h).imp (dead_of_steps st v) id
            · exact Or.inl h
          obtain ⟨b2, e2, sub2, dd2⟩ := childLoop_sim r n hS cs s1 b1 k (st.ranked hr) hb1
            (fun c' h hne => hl' c' h (fun e => hne (hn c' e)))
          refine ⟨b2, e2, fun v h => sub2 v (sub1 v h), ?_⟩
          intro s' hs' v hv
          rcases dd2 s' hs' v hv with h | h
          · rcases dd1 s1 hrec v h with h' | h'
            · exact Or.inl h'
            · exact Or.inr (dead_of_steps (childLoop_steps (recA n) (abortFlow_rec_steps n) cs s1 s' hs') v h')
          · exact Or.inr h

theorem dead_modFlow_act0 (s : State) (c v : Nat) (hd : dead s v) : dead (modFlow s c fun f => { f with activated := 0 }) v := by
  intro f' hf'
  by_cases hv : v = c
  · subst hv
    rw [modFlow_flows_same] at hf'
    cases h : s.flows v with
    | none => rw [h] at hf'; cases hf'
    | some f => rw [h] at hf'; simp at hf'; subst hf'; exact hd f h
  · rw [modFlow_flows_ne _ _ _ _ hv] at hf'; exact hd f' hf'

theorem ranked_modFlow_act0 (r : Nat → Nat) (s : State) (c : Nat) (hr : Ranked r s) :
    Ranked r (modFlow s c fun f => { f with activated := 0 }) := by
  intro p pf' x hp hx hne
  have hne' : s.flows x ≠ none := by
    intro e
    apply hne
    by_cases hxc : x = c
    · subst hxc; rw [modFlow_flows_same, e]; rfl
    · rw [modFlow_flows_ne _ _ _ _ hxc]; exact e
  by_cases hpc : p = c
  · subst hpc
    rw [modFlow_flows_same] at hp
    cases h : s.flows p with
    | none => rw [h] at hp; cases hp
    | some pf => rw [h] at hp; simp at hp; subst hp; exact hr p pf x h hx hne'
  · rw [modFlow_flows_ne _ _ _ _ hpc] at hp; exact hr p pf' x hp hx hne'

theorem deactLoop_sim (r : Nat → Nat) (n : Nat) (hS : SimN r n) (fid : Nat) : ∀ (l : List Nat) (s : State) (b : List Nat) (k : Nat),
    Ranked r s → BusyOK r s k b → (∀ c, c ∈ l → s.flows c ≠ none → r c < k) →
    ∃ b', deactLoop (recV n) fid (wb b s) l = wbE b' (deactLoop (recA n) fid s l) ∧ (∀ v, v ∈ b → v ∈ b') ∧
      ∀ s', deactLoop (recA n) fid s l = .ok s' → ∀ v, v ∈ b' → v ∈ b ∨ dead s' v
  | [], s, b, k, _, _, _ => ⟨b, rfl, fun _ h => h, fun _ _ _ h => Or.inl h⟩
  | c :: cs, s, b, k, hr, hb, hl => by
    have hl' : ∀ c', c' ∈ cs → s.flows c' ≠ none → r c' < k := fun c' h => hl c' (List.mem_cons_of_mem _ h)
    simp only [deactLoop, wb_flows]
    cases hc : s.flows c with
    | none => exact ⟨b, rfl, fun _ h => h, fun _ h => by cases h⟩
    | some cf =>
      by_cases hid : (cf.flowId == fid) = true
      · simp only [hid, if_true]
        have hck : r c < k := hl c (List.mem_cons_self ..) (by rw [hc]; simp)
        obtain ⟨b1, e1, sub1, dd1⟩ := hS s c true b hr (hb.mono (by omega))
        simp only [recV, recA] at e1 ⊢
        rw [e1]
        cases hrec : abortFlow n s c true with
        | error e => exact ⟨b, rfl, fun _ h => h, fun _ h => by cases h⟩
        | ok s1 =>
          simp only [wbE_ok, modFlow_wb]
          have st := abortFlow_true_steps n s c s1 hrec
          obtain ⟨_, hn, _⟩ := st.flows_rel
          have hb1 : BusyOK r (modFlow s1 c fun f => { f with activated := 0 }) k b1 := by
            intro v hv
            rcases dd1 s1 hrec v hv with h | h
            · exact (hb v h).imp (fun h' => dead_modFlow_act0 s1 c v (dead_of_steps st v h')) id
            · exact Or.inl (dead_modFlow_act0 s1 c v h)
          have hnone : ∀ c', s.flows c' = none → (modFlow s1 c fun f => { f with activated := 0 }).flows c' = none := by
            intro c' e
            have e1' := hn c' e
            by_cases hcc : c' = c
            · subst hcc; rw [modFlow_flows_same, e1']; rfl
            · rw [modFlow_flows_ne _ _ _ _ hcc]; exact e1'
          obtain ⟨b2, e2, sub2, dd2⟩ := deactLoop_sim r n hS fid cs _ b1 k (ranked_modFlow_act0 r s1 c (st.ranked hr)) hb1
            (fun c' h hne => hl' c' h (fun e => hne (hnone c' e)))
          refine ⟨b2, e2, fun v h => sub2 v (sub1 v h), ?_⟩
          intro s' hs' v hv
          rcases dd2 s' hs' v hv with h | h
          · rcases dd1 s1 hrec v h with h' | h'
            · exact Or.inl h'
            · refine Or.inr (dead_of_steps (deactLoop_steps (recA n) (abortFlow_rec_steps n) fid cs _ s' hs') v ?_)
              exact dead_modFlow_act0 s1 c v h'
          · exact Or.inr h
      · simp only [hid, if_false]
        exact deactLoop_sim r n hS fid cs s b k hr hb hl'

def wbP (b : List Nat) : Except Err (State × Bool) → Except Err (State × Bool)
  | .ok (s, x) => .ok (wb b s, x)
  | .error e => .error e

theorem deactivatePhase_sim (r : Nat → Nat) (n : Nat) (hS : SimN r n) (s : State) (u : Nat) (d : Bool) (b : List Nat)
    (hr : Ranked r s) (hb : BusyOK r s (r u) b) :
    ∃ b', deactivatePhase (recV n) (wb b s) u d = wbP b' (deactivatePhase (recA n) s u d) ∧ (∀ v, v ∈ b → v ∈ b') ∧
      ∀ s1 x, deactivatePhase (recA n) s u d = .ok (s1, x) → ∀ v, v ∈ b' → v ∈ b ∨ dead s1 v := by
  unfold deactivatePhase
  simp only [wb_flows]
  cases hf : s.flows u with
  | none => exact ⟨b, rfl, fun _ h => h, fun _ _ h => by cases h⟩
  | some f =>
    simp only [isRefActivated_wb]
    cases hq : (if d = true then isRefActivated s f else Except.ok false) with
    | error e => exact ⟨b, rfl, fun _ h => h, fun _ _ h => by cases h⟩
    | ok q =>
      cases q with
      | false => exact ⟨b, rfl, fun _ h => h, fun _ _ h v hv => Or.inl hv⟩
      | true =>
        simp only [setFlow_wb]
        by_cases hz : (f.activated - 1 == 0) = true
        · simp only [hz, if_true]
          have st : Steps false s (setFlow s u { f with activated := f.activated - 1 }) :=
            .single (.flow hf ⟨rfl, rfl, fun h => h, rfl, rfl, Or.inl rfl, fun _ h => h, by simp⟩)
          obtain ⟨_, hn, _⟩ := st.flows_rel
          obtain ⟨b1, e1, sub1, dd1⟩ := deactLoop_sim r n hS f.flowId f.children _ b (r u) (st.ranked hr) (hb.steps st)
            (fun c hc hne => hr u f c hf hc (fun e => hne (hn c e)))
          rw [e1]
          cases hdl : deactLoop (recA n) f.flowId (setFlow s u { f with activated := f.activated - 1 }) f.children with
          | error e => exact ⟨b, rfl, fun _ h => h, fun _ _ h => by cases h⟩
          | ok s2 =>
            refine ⟨b1, rfl, sub1, ?_⟩
            intro s1 x h v hv
            cases h
            exact dd1 s2 hdl v hv
        · simp only [hz, if_false]
          refine ⟨b, rfl, fun _ h => h, fun _ _ _ v hv => Or.inl hv⟩

theorem abortTail_steps (s : State) (u : Nat) (d : Bool) (s' : State) (h : abortTail s u d = .ok s') :
    ∃ sx, Steps false s sx ∧ restart sx u d = .ok s' := by
  unfold abortTail at h
  split at h
  · cases h
  · split at h
    · cases h
    · next s2 h2 =>
      dsimp only at h
      split at h
      · cases h
      · next s4 h4 =>
        refine ⟨_, ?_, h⟩
        refine (stopActions_steps _ _ _ h2).trans ?_
        refine (Steps.modFlow s2 u (fun f => { f with heads := 0 }) (fun f => ⟨rfl, rfl, fun h => h, rfl, rfl, Or.inl rfl, fun _ h => h, by simp⟩)).trans ?_
        refine (removeFromParent_steps _ _ _ h4).trans ?_
        refine (Steps.modFlow s4 u (fun f => { f with status := .stopped }) (fun f => ⟨rfl, rfl, fun h => h, rfl, rfl, Or.inr (Or.inl rfl), fun _ h => h, by simp⟩)).trans ?_
        exact .single (.push _ rfl)

/-- **on an acyclic hierarchy the repaired recursion is the as-is recursion** (all fuels, all `deactivate_flow` values) -/
theorem simN (r : Nat → Nat) : ∀ (n : Nat), SimN r n
  | 0 => by
    intro s u d b _ _
    exact ⟨b, rfl, fun _ h => h, fun _ h => by simp [abortFlow] at h⟩
  | n + 1 => by
    intro s u d b hr hb
    have hS := simN r n
    simp only [abortFlowV, abortFlow]
    obtain ⟨b1, e1, sub1, dd1⟩ := deactivatePhase_sim r n hS s u d b hr (hb.mono (by omega))
    try simp only [recV, recA] at e1
    rw [e1]
    cases hdp : deactivatePhase (fun s c => abortFlow n s c true) s u d with
    | error e => exact ⟨b, rfl, fun _ h => h, fun _ h => by cases h⟩
    | ok p =>
      obtain ⟨s1, x⟩ := p
      have st1 : Steps false s s1 := deactivatePhase_steps _ (abortFlow_rec_steps n) s u d s1 x hdp
      have hb1 : BusyOK r s1 (r u + 1) b1 := by
        intro v hv
        rcases dd1 s1 x hdp v hv with h | h
        · exact (hb v h).imp (dead_of_steps st1 v) id
        · exact Or.inl h
      cases x with
      | true =>
        refine ⟨b1, rfl, sub1, ?_⟩
        intro s' h v hv
        cases h
        exact dd1 s1 true hdp v hv
      | false =>
        simp only [wbP]
        unfold abortBodyV
        simp only [wb_flows]
        cases hf1 : s1.flows u with
        | none =>
          refine ⟨b1, ?_, sub1, ?_⟩
          · simp only [abortBody, hf1]; rfl
          · intro s' h; simp only [abortBody, hf1] at h; cases h
        | some f1 =>
          by_cases hg : (!f1.status.listening && f1.status != .stopping) = true
          · refine ⟨b1, ?_, sub1, ?_⟩
            · simp only [hg, if_true, abortBody, hf1]; rfl
            · intro s' h v hv
              simp only [abortBody, hf1, hg, if_true] at h
              cases h
              exact dd1 s1 false hdp v hv
          · simp only [hg, if_false]
            -- the instance is listening or STOPPING: it cannot be in `in_progress`
            have hl : f1.status.listening = true ∨ f1.status = .stopping := by
              cases hls : f1.status.listening with
              | true => exact Or.inl rfl
              | false =>
                right
                simp only [hls, Bool.not_false, Bool.true_and, bne_iff_ne, ne_eq, Decidable.not_not] at hg
                exact hg
            have hnb : (wb b1 s1).busy.contains u = false := by
              cases hcb : (wb b1 s1).busy.contains u with
              | false => rfl
              | true =>
                exfalso
                have hmem : u ∈ b1 := by simpa using hcb
                rcases hb1 u hmem with h | h
                · obtain ⟨h1, h2⟩ := h f1 hf1
                  rcases hl with h' | h'
                  · rw [h1] at h'; cases h'
                  · exact h2 h'
                · omega
            simp only [hnb, Bool.false_eq_true, if_false]
            have hmb : markBusy (wb b1 s1) u = wb (u :: b1) s1 := rfl
            rw [hmb, abortBody_eq, abortBody_eq]
            simp only [wb_flows, hf1, hg, if_false, markNoRestart_wb]
            have stm : Steps false s1 (markNoRestart s1 u) := markNoRestart_steps s1 u
            obtain ⟨_, hnm, _⟩ := stm.flows_rel
            have hbm : BusyOK r (markNoRestart s1 u) (r u) (u :: b1) := by
              intro v hv
              rcases List.mem_cons.1 hv with e | h
              · subst e; exact Or.inr (Nat.le_refl _)
              · exact ((hb1 v h).imp (dead_of_steps stm v) id).imp id (fun h' => by omega)
            obtain ⟨b3, e3, sub3, dd3⟩ := childLoop_sim r n hS f1.children (markNoRestart s1 u) (u :: b1) (r u) (stm.ranked (st1.ranked hr)) hbm
              (fun c hc hne => (st1.ranked hr) u f1 c hf1 hc (fun e => hne (hnm c e)))
            try simp only [recV, recA] at e3
            rw [e3]
            cases hcl : childLoop (fun s c => abortFlow n s c true) (markNoRestart s1 u) f1.children with
            | error e => exact ⟨b1, rfl, sub1, fun _ h => by cases h⟩
            | ok s2 =>
              simp only [wbE_ok, abortTail_wb]
              refine ⟨b3, rfl, fun v h => sub3 v (List.mem_cons_of_mem _ (sub1 v h)), ?_⟩
              intro s' hs' v hv
              obtain ⟨sx, stx, hrs⟩ := abortTail_steps s2 u d s' hs'
              have st2 : Steps false (markNoRestart s1 u) s2 := childLoop_steps _ (abortFlow_rec_steps n) _ _ _ hcl
              have hdead_from_s1 : ∀ w, dead s1 w → dead s' w := fun w hw =>
                dead_restart hrs w (dead_of_steps stx w (dead_of_steps st2 w (dead_of_steps stm w hw)))
              rcases dd3 s2 hcl v hv with h | h
              · rcases List.mem_cons.1 h with e | h'
                · -- the instance itself: STOPPED by its own tail
                  subst e
                  right
                  have hbody : abortBody (fun s c => abortFlow n s c true) s1 v d = .ok s' := by
                    rw [abortBody_eq]; simp only [hf1, hg, if_false, hcl]; exact hs'
                  obtain ⟨_, _, _, s6, f6, _, _, _, _, _, _, hf6, st6, _, _, _, _, _, hr6⟩ := abortBody_post _ s1 v d s' f1 hf1 hl hbody
                  intro f' hf'
                  obtain ⟨g, hg', hcase⟩ := restart_spec _ _ _ _ hr6
                  rw [hf6] at hg'; cases hg'
                  rcases hcase with ⟨_, _, _, _, hu', _⟩ | ⟨_, e⟩
                  · rw [hu'] at hf'; cases hf'; simp [st6, FStatus.listening]
                  · rw [e, hf6] at hf'; cases hf'; simp [st6, FStatus.listening]
                · rcases dd1 s1 false hdp v h' with h'' | h''
                  · exact Or.inl h''
                  · exact Or.inr (hdead_from_s1 v h'')
              · exact Or.inr (dead_restart hrs v (dead_of_steps stx v h))

/-! ### corollaries: outermost calls -/

theorem abortTopV_eq_of_ranked (r : Nat → Nat) (n : Nat) (s : State) (u : Nat) (d : Bool) (hr : Ranked r s) :
    ∃ b', abortTopV n s u d = wbE b' (abortFlow n s u d) := by
  obtain ⟨b', e, _, _⟩ := simN r n s u d [] hr (fun v hv => by cases hv)
  exact ⟨b', e⟩

theorem finishTail_wb (b : List Nat) (s : State) (u : Nat) (d : Bool) : finishTail (wb b s) u d = wbE b (finishTail s u d) := by
  unfold finishTail
  simp only [wb_flows]
  cases hf : s.flows u with
  | none => rfl
  | some f1 =>
    simp only [stopActions_wb]
    cases h : stopActions s f1.actionUids with
    | error e' => rfl
    | ok s2 =>
      simp only [wbE_ok, modFlow_wb]
      split
      · rfl
      · simp only [removeFromParent_wb]
        cases h5 : removeFromParent (modFlow (modFlow s2 u fun f => { f with heads := 0 }) u fun f => { f with status := .finished }) u with
        | error e' => rfl
        | ok s5 => simp only [wbE_ok, push_wb, restart_wb]

theorem finishFlowV_eq_of_ranked (r : Nat → Nat) (n : Nat) (s : State) (u : Nat) (d : Bool) (hr : Ranked r s) :
    ∃ b', finishFlowV n s u d = wbE b' (finishFlow n s u d) := by
  have hS := simN r n
  unfold finishFlowV finishFlow
  have hb0 : BusyOK r s (r u) [u] := fun v hv => by
    rw [List.mem_singleton] at hv; subst hv; exact Or.inr (Nat.le_refl _)
  obtain ⟨b1, e1, _, dd1⟩ := deactivatePhase_sim r n hS s u d [u] hr hb0
  have e0 : ({ s with busy := [u] } : State) = wb [u] s := rfl
  try simp only [recV, recA] at e1
  rw [e0, e1]
  cases hdp : deactivatePhase (fun s c => abortFlow n s c true) s u d with
  | error e => exact ⟨[], rfl⟩
  | ok p =>
    obtain ⟨s1, x⟩ := p
    have st1 : Steps false s s1 := deactivatePhase_steps _ (abortFlow_rec_steps n) s u d s1 x hdp
    have hb1 : BusyOK r s1 (r u) b1 := by
      intro v hv
      rcases dd1 s1 x hdp v hv with h | h
      · exact (hb0 v h).imp (dead_of_steps st1 v) id
      · exact Or.inl h
    cases x with
    | true => exact ⟨b1, rfl⟩
    | false =>
      simp only [wbP]
      rw [finishBody_eq, finishBody_eq]
      simp only [wb_flows]
      cases hf1 : s1.flows u with
      | none => exact ⟨b1, rfl⟩
      | some f1 =>
        simp only
        split
        · exact ⟨b1, rfl⟩
        · obtain ⟨b3, e3, _, _⟩ := childLoop_sim r n hS f1.children s1 b1 (r u) (st1.ranked hr) hb1
            (fun c hc hne => (st1.ranked hr) u f1 c hf1 hc hne)
          try simp only [recV, recA] at e3
          rw [e3]
          cases hcl : childLoop (fun s c => abortFlow n s c true) s1 f1.children with
          | error e => exact ⟨b1, rfl⟩
          | ok s2 => exact ⟨b3, by simp only [wbE_ok, finishTail_wb]⟩

theorem ranked_restart {r : Nat → Nat} {s t : State} {u : Nat} {d : Bool} (h : restart s u d = .ok t) (hr : Ranked r s) : Ranked r t := by
  intro p pf' c hp hc hne
  obtain ⟨f, hf, h1 | h1⟩ := restart_spec s u d t h
  · obtain ⟨_, _, _, _, hu, hother⟩ := h1
    have hne' : s.flows c ≠ none := by
      intro e
      apply hne
      by_cases hcu : c = u
      · subst hcu; rw [hf] at e; cases e
      · rw [hother c hcu]; exact e
    by_cases hpu : p = u
    · subst hpu; rw [hu] at hp; cases hp; exact hr p f c hf hc hne'
    · rw [hother p hpu] at hp; exact hr p pf' c hp hc hne'
  · rw [h1.2] at hp hne; exact hr p pf' c hp hc hne

theorem ranked_abortFlow {r : Nat → Nat} {n : Nat} {s t : State} {u : Nat} {d : Bool} (h : abortFlow n s u d = .ok t)
    (hr : Ranked r s) : Ranked r t := by
  rcases abortFlow_outer n s u d t h with st | ⟨s1, st, hrs⟩
  · exact st.ranked hr
  · exact ranked_restart hrs (st.ranked hr)

theorem scopeFlowLoop_sim (r : Nat → Nat) (n : Nat) : ∀ (l : List Nat) (s : State) (b : List Nat), Ranked r s →
    ∃ b', scopeFlowLoop (fun s c => abortTopV n s c false) (wb b s) l = wbE b' (scopeFlowLoop (fun s c => abortFlow n s c false) s l)
  | [], s, b, _ => ⟨b, rfl⟩
  | c :: cs, s, b, hr => by
    simp only [scopeFlowLoop, wb_flows]
    cases hc : s.flows c with
    | none => exact scopeFlowLoop_sim r n cs s b hr
    | some cf =>
      simp only
      split
      · obtain ⟨b1, e1⟩ := abortTopV_eq_of_ranked r n s c false hr
        have : abortTopV n (wb b s) c false = abortTopV n s c false := rfl
        rw [this, e1]
        cases hrec : abortFlow n s c false with
        | error e => exact ⟨b, rfl⟩
        | ok s1 =>
          simp only [wbE_ok]
          exact scopeFlowLoop_sim r n cs s1 b1 (ranked_abortFlow hrec hr)
      · exact scopeFlowLoop_sim r n cs s b hr

theorem endScopeV_eq_of_ranked (r : Nat → Nat) (n : Nat) (s : State) (u nm : Nat) (hr : Ranked r s) :
    ∃ b', endScopeV n s u nm = wbE b' (endScope n s u nm) := by
  unfold endScopeV endScope
  cases hf : s.flows u with
  | none => exact ⟨[], rfl⟩
  | some f =>
    simp only
    cases hsc : scopeLookup nm f.scopes with
    | none => exact ⟨[], rfl⟩
    | some p =>
      obtain ⟨fl, al⟩ := p
      simp only
      have st : Steps false s (setFlow s u { f with scopes := scopeErase nm f.scopes }) :=
        .single (.flow hf ⟨rfl, rfl, fun h => h, rfl, rfl, Or.inl rfl, fun _ h => h, by simp⟩)
      obtain ⟨b1, e1⟩ := scopeFlowLoop_sim r n fl (setFlow s u { f with scopes := scopeErase nm f.scopes }) s.busy (st.ranked hr)
      have e0 : wb s.busy (setFlow s u { f with scopes := scopeErase nm f.scopes }) = setFlow s u { f with scopes := scopeErase nm f.scopes } := rfl
      rw [e0] at e1
      rw [e1]
      cases hl : scopeFlowLoop (fun s c => abortFlow n s c false) (setFlow s u { f with scopes := scopeErase nm f.scopes }) fl with
      | error e => exact ⟨[], rfl⟩
      | ok s2 => exact ⟨b1, by simp only [wbE_ok, stopActions_wb]⟩

end NemoVerif.Lifetime
