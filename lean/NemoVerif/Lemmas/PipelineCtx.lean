/-
  C01–C03 — lemmas about `PipelineCtx` (the two contexts of the Colang 1.0 runtime).

  `Sync v t es`: the action side (`compute_context(events)`), the visible context
  (`compute_context(apply_history_alterations(events))`) and the replayed flows' context agree on
  variable `v`, and its value is `t`.  The as-is `slide` establishes it with the first `set` of every
  turn from ANY event list (however many hidden turns, whatever values they left behind);
  `_process_start_action` preserves it.  Hence the rail loops over the event list compute `gate`,
  and a turn's observable behaviour is a function of the turn alone (`convE_eq_spec`).
-/
import NemoVerif.Models.PipelineCtx
import NemoVerif.Lemmas.Pipeline

set_option linter.unusedSimpArgs false

namespace NemoVerif.PipelineCtx
open NemoVerif NemoVerif.Pipeline

def Sync (v : Var) (t : Text) (es : List Ev) : Prop :=
  actCtx es v = some t ∧ visCtx es v = some t ∧ flowCtx es v = some t

theorem visOf_other (es : List Ev) : visOf (.other :: es) = .other :: visOf es := rfl
theorem visOf_update (v : Var) (x : Text) (es : List Ev) : visOf (.update v x :: es) = .update v x :: visOf es := rfl
theorem visOf_set (v : Var) (x : Text) (es : List Ev) : visOf (.set v x :: es) = .set v x :: visOf es := rfl
theorem visOf_user (es : List Ev) : visOf (.user :: es) = .user :: visOf es := rfl

theorem Sync_other {v : Var} {t : Text} {es : List Ev} (h : Sync v t es) : Sync v t (.other :: es) := by
  obtain ⟨h1, h2, h3⟩ := h
  refine ⟨?_, ?_, ?_⟩
  · simpa [actCtx, lookupU] using h1
  · simpa [visCtx, visOf_other, lookupU] using h2
  · simpa [flowCtx, visOf_other, lookupF] using h3

theorem Sync_update (v : Var) (w : Text) (es : List Ev) : Sync v w (.update v w :: es) := by
  refine ⟨?_, ?_, ?_⟩
  · simp [actCtx, lookupU]
  · simp [visCtx, visOf_update, lookupU]
  · simp [flowCtx, visOf_update, lookupF]

/-- the as-is `slide`: whatever the event list, after `$v = x` all three views hold `x` -/
theorem Sync_slideSet (v : Var) (x : Text) (es : List Ev) : Sync v x (slideSet false v x es) := by
  simp only [slideSet, Bool.false_and]
  exact Sync_update v x _

/-- `_process_start_action` keeps the views together -/
theorem Sync_actionResult {v : Var} {t : Text} {es : List Ev} (w : Text) (h : Sync v t es) :
    Sync v w (actionResult v w es) := by
  have hvis : (if hasHide es then visCtx es v else actCtx es v) = some t := by
    split
    · exact h.2.1
    · exact h.1
  simp only [actionResult, hvis]
  by_cases htw : t = w
  · subst htw
    simp only [beq_self_eq_true, if_true]
    exact Sync_other h
  · have : ((some t : Option Text) == some w) = false := by simp [htw]
    simp only [this]
    exact Sync_other (Sync_update v w es)

theorem shown_of_Sync {v : Var} {t : Text} {es : List Ev} (r : Rail) (h : Sync v t es) : shown r v es = t := by
  unfold shown
  split
  · simp [h.2.2]
  · simp [h.1]

def ids (rails : List Rail) : List Nat := rails.map (·.id)

/-- The rail loop over the event list computes `gate`: every rail — action rail or pure-Colang rail — is
    shown the current text; on success the views agree on the final text. -/
theorem railsE_spec (var : Var) (verd : Nat → Text → Verdict) :
    ∀ (rails : List Rail) (t : Text) (es : List Ev), Sync var t es →
      (railsE false var verd rails es).1 = gate verd (ids rails) t ∧
      (match gateStop verd (ids rails) t with
       | none => (railsE false var verd rails es).2.1 = .pass (gateText verd (ids rails) t) ∧
                 Sync var (gateText verd (ids rails) t) (railsE false var verd rails es).2.2
       | some _ => ∀ x, (railsE false var verd rails es).2.1 ≠ .pass x)
  | [], t, es, h => by
    simp [railsE, ids, gate, gateStop, gateText, h.1, h]
  | r :: rs, t, es, h => by
    have hx : shown r var es = t := shown_of_Sync r h
    have hids : ids (r :: rs) = r.id :: ids rs := rfl
    simp only [railsE, hx, hids, gate, gateStop, gateText]
    cases hv : verd r.id t with
    | accept =>
      have hs : Sync var t (if r.pure then Ev.other :: es else actionResult var t (Ev.other :: es)) := by
        split
        · exact Sync_other h
        · exact Sync_actionResult t (Sync_other h)
      have ih := railsE_spec var verd rs t _ hs
      simp only [Verdict.continues, Verdict.apply, if_true]
      exact ⟨by simp [ih.1], ih.2⟩
    | rewrite w =>
      have hs : Sync var w (if r.pure then slideSet false var w (Ev.other :: es) else actionResult var w (Ev.other :: es)) := by
        split
        · exact Sync_slideSet var w _
        · exact Sync_actionResult w (Sync_other h)
      have ih := railsE_spec var verd rs w _ hs
      simp only [Verdict.continues, Verdict.apply, if_true]
      exact ⟨by simp [ih.1], ih.2⟩
    | reject => simp [Verdict.continues]
    | fault => simp [Verdict.continues]
    | escape => simp [Verdict.continues]

/-- `process bot message`, specification: a function of the text and the verdicts only. -/
def outSpec (outIds : List Nat) (vout : Nat → Text → Verdict) (text : Text) : List (Nat × Text) × Option Text :=
  (gate vout outIds text,
   match gateStop vout outIds text with
   | none => some (gateText vout outIds text)
   | some _ => none)

theorem outStageE_spec (outRails : List Rail) (vout : Nat → Text → Verdict) (text : Text) (es : List Ev) :
    ((outStageE false outRails vout text es).1, (outStageE false outRails vout text es).2.1) = outSpec (ids outRails) vout text := by
  have hs := Sync_slideSet .botMessage text (.other :: es)
  have sp := railsE_spec .botMessage vout outRails text _ hs
  simp only [outStageE, outSpec]
  generalize hres : railsE false .botMessage vout outRails (slideSet false .botMessage text (.other :: es)) = res at sp
  obtain ⟨cs, rr, es2⟩ := res
  simp only at sp
  cases hg : gateStop vout (ids outRails) text with
  | none =>
    simp only [hg] at sp
    obtain ⟨hc, hp, hsy⟩ := sp
    subst hp
    simp [hc, hsy.1]
  | some w =>
    simp only [hg] at sp
    obtain ⟨hc, hnp⟩ := sp
    cases rr with
    | pass x => exact absurd rfl (hnp x)
    | blocked => simp [hc]
    | faulted => simp [hc]
    | escaped => simp [hc]

/-- A turn, specification: a function of the turn alone — no event list. -/
def specTurn (inIds outIds : List Nat) (t : TurnE) : TurnObs :=
  match gateStop t.vin inIds t.user with
  | some _ => { inCalls := gate t.vin inIds t.user, userMsg := none, outCalls := [], uttered := none }
  | none =>
    if t.dialogFault then
      { inCalls := gate t.vin inIds t.user, userMsg := some (gateText t.vin inIds t.user), outCalls := [], uttered := none }
    else
      { inCalls := gate t.vin inIds t.user, userMsg := some (gateText t.vin inIds t.user),
        outCalls := (outSpec outIds t.vout t.bot).1, uttered := (outSpec outIds t.vout t.bot).2 }

theorem turnE_spec (inRails outRails : List Rail) (t : TurnE) (es : List Ev) :
    (turnE false inRails outRails t es).1 = specTurn (ids inRails) (ids outRails) t := by
  have hs := Sync_slideSet .userMessage t.user (.user :: es)
  have sp := railsE_spec .userMessage t.vin inRails t.user _ hs
  simp only [turnE, specTurn]
  generalize hres : railsE false .userMessage t.vin inRails (slideSet false .userMessage t.user (.user :: es)) = res at sp
  obtain ⟨ics, rr, es2⟩ := res
  simp only at sp
  cases hg : gateStop t.vin (ids inRails) t.user with
  | none =>
    simp only [hg] at sp
    obtain ⟨hc, hp, hsy⟩ := sp
    subst hp
    by_cases hd : t.dialogFault = true
    · simp [hd, hc, hsy.1]
    · have := outStageE_spec outRails t.vout t.bot (.other :: es2)
      have h1 := congrArg Prod.fst this
      have h2 := congrArg Prod.snd this
      simp only at h1 h2
      simp [hd, hc, hsy.1, h1, h2]
  | some w =>
    simp only [hg] at sp
    obtain ⟨hc, hnp⟩ := sp
    cases rr with
    | pass x => exact absurd rfl (hnp x)
    | blocked => simp [hc]
    | faulted => simp [hc]
    | escaped => simp [hc]

/-- Every conversation, from every event list: the observable behaviour of each turn is that of the
    turn alone.  Nothing a hidden turn leaves behind — on either side — reaches a later turn. -/
theorem convE_eq_spec (inRails outRails : List Rail) :
    ∀ (es : List Ev) (ts : List TurnE),
      convE false inRails outRails es ts = ts.map (specTurn (ids inRails) (ids outRails))
  | _, [] => rfl
  | es, t :: ts => by
    simp only [convE, List.map_cons, turnE_spec, convE_eq_spec inRails outRails _ ts]

end NemoVerif.PipelineCtx
