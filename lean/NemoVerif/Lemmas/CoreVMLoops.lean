/-
  C09 / CoreVM — the three nested loops of `run_to_completion` keep (on normal return) every state invariant that
  `_advance_head_front` keeps on normal return.  Errors are never caught above `_advance_head_front`, so only the
  normal-return half of its specification is needed here.
-/
import NemoVerif.Lemmas.CoreVMKeepsRun

open NemoVerif NemoVerif.CoreIndex
open Std.Do
set_option mvcgen.warning false

namespace NemoVerif.CoreVM

/-- `x` keeps the invariant when it returns normally -/
abbrev KeepsOk (I : StInv) {α} (x : M α) : Prop :=
  ⦃fun s => ⌜I.J s⌝⦄ x ⦃post⟨fun _ s => ⌜I.J s⌝, fun _ _ => ⌜True⌝⟩⦄

theorem Keeps.ok {I : StInv} {α} {x : M α} (h : Keeps I x) : KeepsOk I x := by
  have hh := fn_of_triple h
  apply triple_of_fn
  · exact hh.1
  · intros; trivial

section loops
attribute [local spec] forInL_keeps mapM_keeps getRest_keeps getIx_keeps pyRaise_keeps unsupported_keeps modifyRest_keeps freshUid_keeps getInst?_keeps getInst_keeps getInstX?_keeps getInstX_keeps modInstX_keeps ctxHolder_keeps getCtx_keeps setCtxVar_keeps getHead?_keeps getHeadX_keeps modHeadX_keeps getCfg_keeps cfgOfInst_keeps getAction?_keeps setAction_keeps pushEvent_keeps pushLeftEvent_keeps valueErr_keeps lookupVar_keeps attrOf_keeps evalExpr_keeps evalIn_keeps evalEmpty_keeps evalArgs_keeps
attribute [local spec] attemptPy_keeps instanceArguments_keeps flowObjOf_keeps flowStartEvent_keeps flowGetEvent_keeps actionGetEvent_keeps tempAction_keeps tempFlowObj_keeps resolveRef_keeps getEventName_keeps getEvent_keeps eventMatchingScore_keeps updateActionStatusByEvent_keeps generateUmimEvent_keeps releaseAction_keeps isReferenceActivated_keeps deactivatesRef_keeps isChildActivated_keeps failedEvent_keeps restartActivated_keeps logActionOrIntents_keeps nameFor_keeps headScores_keeps headKeyScores_keeps labelPos_keeps pickChoice_keeps applyOp_keeps

variable (I : StInv) (hall : ∀ op, NotStoppingOp op → I.okOp op)
  (hadv : ∀ fuel heads, KeepsOk I (advanceHeadFront fuel heads))
include hall hadv

set_option maxHeartbeats 8000000 in
/-- one internal event -/
theorem processEvent_keepsOk (fuel e acts) : KeepsOk I (processEvent fuel e acts) := by
  have hend := hend_of_hall I hall
  have h1 := abortFlow_keeps I hend fuel
  have h2 := processInternalEvent_keeps I hall fuel
  have h3 := getAllHeadCandidates_keeps I
  have h4 := handleEventMatching_keeps I
  have h5 := setHeadPos_keeps I hall
  have h6 := hadv fuel
  unfold processEvent
  simp only [forIn_eq_forInL]
  mvcgen [h1, h2, h3, h4, h5, h6]
  all_goals (first | keeps_side hall | skip)

/-- `while state.internal_events` -/
theorem drainEvents_keepsOk : ∀ fuel acts, KeepsOk I (drainEvents fuel acts)
  | 0, acts => by unfold drainEvents; mvcgen
  | fuel + 1, acts => by
    have ih := drainEvents_keepsOk fuel
    have h1 := processEvent_keepsOk I hall hadv fuel
    unfold drainEvents
    mvcgen [ih, h1]
    all_goals (first | keeps_side hall | skip)

/-- `while heads_are_merging` -/
theorem mergeLoop_keepsOk : ∀ fuel acts, KeepsOk I (mergeLoop fuel acts)
  | 0, acts => by unfold mergeLoop; mvcgen
  | fuel + 1, acts => by
    have ih := mergeLoop_keepsOk fuel
    have h1 := drainEvents_keepsOk I hall hadv fuel
    have h2 := hadv fuel
    unfold mergeLoop
    mvcgen [ih, h1, h2, unsupported]
    all_goals (first | keeps_side hall | skip)

/-- `while heads_are_advancing` -/
theorem mainLoop_keepsOk : ∀ fuel acts, KeepsOk I (mainLoop fuel acts)
  | 0, acts => by unfold mainLoop; mvcgen
  | fuel + 1, acts => by
    have ih := mainLoop_keepsOk fuel
    have h1 := mergeLoop_keepsOk I hall hadv fuel
    have h2 := hadv fuel
    have h3 := resolveActionConflicts_keeps I hall fuel
    unfold mainLoop
    mvcgen [ih, h1, h2, h3]
    all_goals (first | keeps_side hall | skip)

end loops
end NemoVerif.CoreVM
