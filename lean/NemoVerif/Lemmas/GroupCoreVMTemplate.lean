/-
  C07 (T2') — the template hypotheses of `and_clause_phase1` hold for what the mirrored code generator emits:
  a CoreVM flow configuration that contains `GroupExpand.expandAnd c k` (the and-template of `_expand_match_element`, ≥ 2 atoms)
  at offset `B`, translated element by element (`toCore`), with the end label registered in its label table, satisfies
  `ClauseShape` and `MembersShape` for the member match positions `B + 3 + 3j` — for every clause `c`, every `k`, every offset.
-/
import NemoVerif.Lemmas.GroupCoreVMCompose
import NemoVerif.Lemmas.GroupExpand
set_option linter.unusedSimpArgs false
namespace NemoVerif.CoreVM
open NemoVerif NemoVerif.CoreIndex

/-- the string name of a fresh name `k` of the mirror (the real names are uuid-bearing strings; any injective naming does) -/
def nmOf (k : Nat) : String := "n" ++ toString k

/-- element-by-element translation of the mirror's primitives into CoreVM syntax (`spec a` = the Spec of atom `a`) -/
def toCore (spec : Nat → Spec) : GroupExpand.Prim → Prim
  | .matchEv a => .matchOp (spec a) false
  | .label l => .label (nmOf l)
  | .goto l => .goto (.lit (.bool true)) (nmOf l)
  | .fork u ls => .fork (nmOf u) (ls.map nmOf)
  | .merge u => .merge (nmOf u)
  | .wait n => .waitHeads n
  | .catchPF l => .catchFail (l.map nmOf)
  | .abort => .abort
  | _ => .other

/-- `cfg` contains the element list `ps` at offset `B` -/
def ContainsAt (cfg : FlowCfg) (spec : Nat → Spec) (B : Nat) (ps : List GroupExpand.Prim) : Prop :=
  B + ps.length ≤ cfg.elements.size ∧ ∀ j, j < ps.length → cfg.elements[B + j]! = toCore spec (ps.getD j .other)

open NemoVerif.GroupExpand in
theorem andItems_length (e : Nat) : ∀ (ls c : List Nat), ls.length = c.length → (andItems e ls c).length = 3 * c.length := by
  intro ls
  induction ls with
  | nil => intro c h; cases c with
    | nil => rfl
    | cons a c => simp at h
  | cons l ls ih =>
    intro c h
    cases c with
    | nil => simp at h
    | cons a c =>
      have := ih c (by simpa using h)
      simp only [andItems, List.length_cons, this]; omega

open NemoVerif.GroupExpand in
/-- the goto of member `j` -/
theorem andItems_goto (e : Nat) : ∀ (ls c : List Nat) (j : Nat), ls.length = c.length → j < c.length →
    (andItems e ls c).getD (3 * j + 2) .other = .goto e := by
  intro ls
  induction ls with
  | nil => intro c j h hj; cases c with
    | nil => simp at hj
    | cons a c => simp at h
  | cons l ls ih =>
    intro c j h hj
    cases c with
    | nil => simp at h
    | cons a c =>
      cases j with
      | zero => simp [andItems]
      | succ j =>
        have := ih c j (by simpa using h) (by simpa using hj)
        simp only [andItems]
        rw [show 3 * (j + 1) + 2 = (3 * j + 2) + 3 from by omega]
        simpa [List.getD_cons_succ] using this

open NemoVerif.GroupExpand in
theorem expandAnd_template (c : List Nat) (k : Nat) (h2 : 2 ≤ c.length) :
    (expandAnd c k).1 = [.catchPF (some (k + 1)), .fork k (freshLabels (k + 3) c.length)] ++
      andItems (k + 2) (freshLabels (k + 3) c.length) c ++ andTrailer k (k + 1) (k + 2) c.length := by
  cases c with
  | nil => simp at h2
  | cons a t =>
    cases t with
    | nil => simp at h2
    | cons b t => rfl

open NemoVerif.GroupExpand in
/-- **The and-template satisfies the template hypotheses.**  `c` has at least two atoms; the template sits at offset `B`; the label
    table resolves the end label to its position.  Then the end of the clause is `label; WaitForHeads |c|; MergeHeads` and every
    member's match (position `B + 3 + 3j`) is followed by `goto end` and lies before it. -/
theorem shapes_of_expandAnd (cfg : FlowCfg) (spec : Nat → Spec) (B k : Nat) (c : List Nat) (h2 : 2 ≤ c.length)
    (uids : List HUid) (hu : uids.length = c.length)
    (hc : ContainsAt cfg spec B (expandAnd c k).1)
    (hl : cfg.label (nmOf (k + 2)) = some (B + 2 + 3 * c.length + 4)) :
    ClauseShape cfg (nmOf (k + 2)) (nmOf k) (B + 2 + 3 * c.length + 4) c.length ∧
    MembersShape cfg (nmOf (k + 2)) (B + 2 + 3 * c.length + 4)
      (uids.zipIdx.map fun p => (p.1, B + 3 + 3 * p.2)) := by
  obtain ⟨hsz, hel⟩ := hc
  rw [expandAnd_template c k h2] at hsz hel
  have hfl : (freshLabels (k + 3) c.length).length = c.length := freshLabels_length _ _
  have hil := andItems_length (k + 2) (freshLabels (k + 3) c.length) c hfl
  have hlen : ([GroupExpand.Prim.catchPF (some (k + 1)), .fork k (freshLabels (k + 3) c.length)] ++
      andItems (k + 2) (freshLabels (k + 3) c.length) c ++ andTrailer k (k + 1) (k + 2) c.length).length = 2 + 3 * c.length + 8 := by
    simp only [List.length_append, List.length_cons, List.length_nil, andTrailer, hil]
  rw [hlen] at hsz hel
  -- the trailer elements
  have htr : ∀ j, j < 8 → ([GroupExpand.Prim.catchPF (some (k + 1)), .fork k (freshLabels (k + 3) c.length)] ++
      andItems (k + 2) (freshLabels (k + 3) c.length) c ++ andTrailer k (k + 1) (k + 2) c.length).getD (2 + 3 * c.length + j) .other
        = (andTrailer k (k + 1) (k + 2) c.length).getD j .other := by
    intro j hj
    simp only [List.getD_eq_getElem?_getD]
    rw [List.getElem?_append_right (by simp only [List.length_append, List.length_cons, List.length_nil, hil]; omega)]
    congr 2
    simp only [List.length_append, List.length_cons, List.length_nil, hil]; omega
  have hitem : ∀ j, j < c.length → ([GroupExpand.Prim.catchPF (some (k + 1)), .fork k (freshLabels (k + 3) c.length)] ++
      andItems (k + 2) (freshLabels (k + 3) c.length) c ++ andTrailer k (k + 1) (k + 2) c.length).getD (2 + (3 * j + 2)) .other
        = .goto (k + 2) := by
    intro j hj
    have := andItems_goto (k + 2) (freshLabels (k + 3) c.length) c j hfl hj
    simp only [List.getD_eq_getElem?_getD] at this ⊢
    rw [List.getElem?_append_left (by simp only [List.length_append, List.length_cons, List.length_nil, hil]; omega)]
    rw [List.getElem?_append_right (by simp)]
    simpa using this
  refine ⟨?_, ?_⟩
  · refine { hl := hl, hsize := by omega, hw := ?_, hm := ?_ }
    · have := hel (2 + 3 * c.length + 5) (by omega)
      rw [htr 5 (by omega)] at this
      have e : B + (2 + 3 * c.length + 5) = B + 2 + 3 * c.length + 4 + 1 := by omega
      rw [e] at this
      simpa [andTrailer, toCore] using this
    · have := hel (2 + 3 * c.length + 6) (by omega)
      rw [htr 6 (by omega)] at this
      have e : B + (2 + 3 * c.length + 6) = B + 2 + 3 * c.length + 4 + 2 := by omega
      rw [e] at this
      simpa [andTrailer, toCore] using this
  · intro u hmem
    simp only [List.mem_map] at hmem
    obtain ⟨p, hp, rfl⟩ := hmem
    have hj : p.2 < c.length := by
      have := List.mem_zipIdx hp
      simp at this
      omega
    constructor
    · have := hel (2 + (3 * p.2 + 2)) (by omega)
      rw [hitem p.2 hj] at this
      have e : B + (2 + (3 * p.2 + 2)) = B + 3 + 3 * p.2 + 1 := by omega
      rw [e] at this
      simpa [toCore] using this
    · show B + 3 + 3 * p.2 + 1 < B + 2 + 3 * c.length + 4 + 1
      omega

end NemoVerif.CoreVM
