/-
  C11 / T3 — `Aged rm s s'` and the CoreVM functions that only LOOK UP live things (see Lemmas/CleanUpBisim.lean for the logic).

  Naming: `ro_f` = `f` is an observation; `Aged.rel_f` = `f` cannot tell the live state from the aged one
  (same value up to the stated relation, or the same exception).
-/
import NemoVerif.Lemmas.CleanUpBisim
open NemoVerif NemoVerif.CoreIndex NemoVerif.CoreVM NemoVerif.C11.Bisim

namespace NemoVerif.C11.Bisim

def keepB (rm : List FUid) (u : FUid) : Bool := !rm.contains u

/-- what `_clean_up_state` does to a remaining record when the instances `rm` go -/
def agedX (rm : List FUid) (x : InstX) : InstX :=
  { x with childFlowUids := x.childFlowUids.filter (keepB rm),
           scopes := x.scopes.map fun e => (e.1, (e.2.1.filter (keepB rm), e.2.2)) }

/-- records of a kept instance in the live and in the aged run: equal up to occurrences of discarded uids in the child / scope
    lists and the time stamp, and the aged record is at least as old.  (Both sides are filtered: `_clean_up_state` drops a
    discarded uid from the child list of its `parent_uid` only, while a flow activated by a second parent is ALSO listed by
    that parent — the aged record of the second parent keeps the dangling uid.  Found by the run-time check of this relation.) -/
structure XRel (rm : List FUid) (clk clk' : Nat) (x x' : InstX) : Prop where
  eq : agedX rm { x' with statusUpdated := x.statusUpdated } = agedX rm x
  stamp : clk - x.statusUpdated ≤ clk' - x'.statusUpdated

def ORel {α β} (ρ : α → β → Prop) : Option α → Option β → Prop
  | some a, some b => ρ a b
  | none, none => True
  | _, _ => False

structure Aged (rm : List FUid) (s s' : VM) : Prop where
  insts : s'.ixs.ix.insts = s.ixs.ix.insts.filter (fun i => keepB rm i.uid)
  index : s'.ixs.ix.index = s.ixs.ix.index
  rev : s'.ixs.ix.rev = s.ixs.ix.rev
  fxKept : ∀ f, keepB rm f = true → ORel (XRel rm s.r.clock s'.r.clock) (OMap.lookup f s.r.fx) (OMap.lookup f s'.r.fx)
  fxGone : ∀ f, keepB rm f = false → OMap.lookup f s'.r.fx = none
  fxOrder : s'.r.fx.map (·.1) = (s.r.fx.map (·.1)).filter (keepB rm)
  hx : s'.r.hx = s.r.hx
  prog : s'.r.prog = s.r.prog
  /-- `flow_id_states`: the discarded instances are gone from every entry, the entries themselves stay -/
  idStates : s'.r.idStates = s.r.idStates.map (fun e => (e.1, e.2.filter (keepB rm)))
  /-- the aged action table is a part of the live one … -/
  actionsSub : ∀ u a, OMap.lookup u s'.r.actions = some a → OMap.lookup u s.r.actions = some a
  /-- … that contains every action a kept instance refers to -/
  actionsKept : ∀ f x, keepB rm f = true → OMap.lookup f s.r.fx = some x → ∀ au ∈ x.actionUids,
    OMap.lookup au s'.r.actions = OMap.lookup au s.r.actions
  queue : s'.r.queue = s.r.queue
  outgoing : s'.r.outgoing = s.r.outgoing
  gctx : s'.r.gctx = s.r.gctx
  events : s'.r.events = s.r.events
  mainUid : s'.r.mainUid = s.r.mainUid
  nextUid : s'.r.nextUid = s.r.nextUid
  choices : s'.r.choices = s.r.choices
  choiceLog : s'.r.choiceLog = s.r.choiceLog
  lastEvents : s'.r.lastEvents = s.r.lastEvents
  cleared : s'.r.cleared = s.r.cleared
  caught : s'.r.caught = s.r.caught
  /-- the aged run is later on the clock -/
  clock : s.r.clock ≤ s'.r.clock
  /-- only done instances are ever discarded -/
  rmDone : ∀ u ∈ rm, ∀ i, findInst s.ixs.ix u = some i → i.status.done = true

theorem find_filter_kept (rm : List FUid) (f : FUid) (hk : keepB rm f = true) :
    ∀ l : List Inst, (l.filter (fun i => keepB rm i.uid)).find? (·.uid = f) = l.find? (·.uid = f)
  | [] => rfl
  | i :: l => by
    by_cases hi : i.uid = f
    · simp [List.filter, hi, hk]
    · by_cases hq : keepB rm i.uid = true
      · simp [List.filter, hi, hq, find_filter_kept rm f hk l]
      · simp [List.filter, hi, hq, find_filter_kept rm f hk l]

theorem Aged.findInst_kept {rm s s'} (h : Aged rm s s') {f : FUid} (hk : keepB rm f = true) :
    findInst s'.ixs.ix f = findInst s.ixs.ix f := by
  unfold findInst
  rw [h.insts]
  exact find_filter_kept rm f hk _

theorem Aged.bucket {rm s s'} (h : Aged rm s s') (nm : String) : bucket s'.ixs.ix nm = bucket s.ixs.ix nm := by
  unfold CoreIndex.bucket; rw [h.index]

/-- every candidate head belongs to a kept instance: the index lists only existing heads (C09 `IndexOK`, by construction
    of `IxS`), done instances hold no head (C09 `NoPos`), and only done instances are discarded -/
theorem Aged.candidate_kept {rm s s'} (h : Aged rm s s') {nm : String} {k : Key} (hk : k ∈ CoreIndex.bucket s.ixs.ix nm) :
    keepB rm k.1 = true := by
  have ok := indexOK_of_vm s
  have np := noPos_of_vm s
  have hc := ok.maps k nm
  have hpos : 0 < (CoreIndex.bucket s.ixs.ix nm).count k := List.count_pos_iff.mpr hk
  have hreg : reg s.ixs.ix k = some nm := by
    by_cases hne : reg s.ixs.ix k = some nm
    · exact hne
    · rw [if_neg hne] at hc
      omega
  obtain ⟨i, hi, hh⟩ := ok.owned k nm hreg
  by_cases hrm : keepB rm k.1 = true
  · exact hrm
  · have hmem : k.1 ∈ rm := by
      simpa [keepB] using hrm
    have hd := h.rmDone k.1 hmem i hi
    have := np k.1 i hi hd
    simp [Inst.findHead, this] at hh


theorem XRel.flowId {rm c c' x x'} (h : XRel rm c c' x x') : x'.flowId = x.flowId := by
  have := congrArg InstX.flowId h.eq
  simpa [agedX] using this
theorem XRel.hierPos {rm c c' x x'} (h : XRel rm c c' x x') : x'.hierPos = x.hierPos := by
  have := congrArg InstX.hierPos h.eq
  simpa [agedX] using this
theorem XRel.parentUid {rm c c' x x'} (h : XRel rm c c' x x') : x'.parentUid = x.parentUid := by
  have := congrArg InstX.parentUid h.eq
  simpa [agedX] using this
theorem XRel.activated {rm c c' x x'} (h : XRel rm c c' x x') : x'.activated = x.activated := by
  have := congrArg InstX.activated h.eq
  simpa [agedX] using this
theorem XRel.loopId {rm c c' x x'} (h : XRel rm c c' x x') : x'.loopId = x.loopId := by
  have := congrArg InstX.loopId h.eq
  simpa [agedX] using this

theorem ro_getInstX? (f : FUid) : RO (getInstX? f) := RO.bind RO.getRest fun _ => RO.pure _
theorem ro_getInst? (f : FUid) : RO (getInst? f) := RO.bind RO.getIx fun _ => RO.pure _
theorem ro_getInstX (f : FUid) : RO (getInstX f) :=
  RO.bind (ro_getInstX? f) fun o => by cases o <;> first | exact RO.pure _ | exact RO.pyRaise _ _
theorem ro_getInst (f : FUid) : RO (getInst f) :=
  RO.bind (ro_getInst? f) fun o => by cases o <;> first | exact RO.pure _ | exact RO.pyRaise _ _
theorem ro_getCfg (n : String) : RO (getCfg n) :=
  RO.bind RO.getRest fun r => by
    show RO (match r.prog.find n with | some c => Pure.pure c | none => CoreVM.pyRaise "KeyError" n)
    cases r.prog.find n <;> first | exact RO.pure _ | exact RO.pyRaise _ _

theorem Aged.rel_getInstX? {rm s s'} (h : Aged rm s s') {f : FUid} (hk : keepB rm f = true) :
    Rel2 (ORel (XRel rm s.r.clock s'.r.clock)) (getInstX? f) (getInstX? f) s s' := h.fxKept f hk

theorem Aged.rel_getInstX {rm s s'} (h : Aged rm s s') {f : FUid} (hk : keepB rm f = true) :
    Rel2 (XRel rm s.r.clock s'.r.clock) (getInstX f) (getInstX f) s s' := by
  unfold getInstX
  refine Rel2.bind (ro_getInstX? f) (ro_getInstX? f) (h.rel_getInstX? hk) ?_
  intro o o' _ _ ho
  cases o <;> cases o' <;> simp only [ORel] at ho
  · exact Rel2.throw _ s s'
  · exact Rel2.pure ho s s'

theorem Aged.rel_getCfg {rm s s'} (h : Aged rm s s') (n : String) : Rel2 Eq (getCfg n) (getCfg n) s s' := by
  unfold Rel2 res CoreVM.getCfg
  simp only [bind, EStateM.bind, getRest, get, getThe, MonadStateOf.get, EStateM.get, Pure.pure, EStateM.pure, h.prog]
  cases s.r.prog.find n <;> simp [RelE, pyRaise, throw, throwThe, MonadExceptOf.throw, EStateM.throw, EStateM.pure]


/-- the body of the candidate loop -/
theorem Aged.candLoop {rm s s'} (h : Aged rm s s') (cands : List Key) (hc : ∀ k ∈ cands, keepB rm k.1 = true)
    (body : Key → List ((Int × String) × Key) → M (ForInStep (List ((Int × String) × Key))))
    (hb : body = fun k keyed => do
          let x ← getInstX k.fst
          let cfg ← getCfg x.flowId
          Pure.pure (ForInStep.yield (keyed ++ [((-cfg.loopPriority, x.hierPos), k)]))) (init) :
    Rel2 Eq (forIn cands init body) (forIn cands init body) s s' := by
  subst hb
  refine Rel2.forIn _ _ ?_ ?_ cands init init rfl ?_
  · intro a b; exact RO.bind (ro_getInstX _) fun x => RO.bind (ro_getCfg _) fun c => RO.pure _
  · intro a b; exact RO.bind (ro_getInstX _) fun x => RO.bind (ro_getCfg _) fun c => RO.pure _
  · intro k hk b b' hbb
    subst hbb
    refine Rel2.bind (ro_getInstX _) (ro_getInstX _) (h.rel_getInstX (hc k hk)) ?_
    intro x x' _ _ hx
    rw [hx.flowId]
    refine Rel2.bind (ro_getCfg _) (ro_getCfg _) (h.rel_getCfg _) ?_
    intro c c' _ _ hcc
    subst hcc
    rw [hx.hierPos]
    exact Rel2.pure (by simp) s s'

/-- **`_get_all_head_candidates` is preserved**: the live and the aged state give the same candidate list (or the same
    exception). Invariants used: C09 `IndexOK` + `NoPos` (by construction of every `VM`), `Aged.rmDone`. -/
theorem Aged.rel_getAllHeadCandidates {rm s s'} (h : Aged rm s s') (name : String) :
    Rel2 Eq (CoreVM.getAllHeadCandidates name) (CoreVM.getAllHeadCandidates name) s s' := by
  unfold CoreVM.getAllHeadCandidates
  refine Rel2.bind RO.getIx RO.getIx (ρ := fun ix ix' => ix = s.ixs.ix ∧ ix' = s'.ixs.ix) ⟨rfl, rfl⟩ ?_
  intro ix ix' _ _ hix
  obtain ⟨rfl, rfl⟩ := hix
  simp only [h.bucket]
  have key : ∀ cands : List Key, (∀ k ∈ cands, keepB rm k.1 = true) →
      Rel2 Eq
        (do
          let __s ← forIn cands ([] : List ((Int × String) × Key)) fun k __s => do
              let x ← getInstX k.fst
              let cfg ← getCfg x.flowId
              Pure.pure (ForInStep.yield (__s ++ [((-cfg.loopPriority, x.hierPos), k)]))
          Pure.pure (List.map (fun x => x.snd) (sortBy (fun a b =>
            decide (a.fst.fst < b.fst.fst) || decide (a.fst.fst = b.fst.fst) && decide (a.fst.snd < b.fst.snd)) __s)))
        (do
          let __s ← forIn cands ([] : List ((Int × String) × Key)) fun k __s => do
              let x ← getInstX k.fst
              let cfg ← getCfg x.flowId
              Pure.pure (ForInStep.yield (__s ++ [((-cfg.loopPriority, x.hierPos), k)]))
          Pure.pure (List.map (fun x => x.snd) (sortBy (fun a b =>
            decide (a.fst.fst < b.fst.fst) || decide (a.fst.fst = b.fst.fst) && decide (a.fst.snd < b.fst.snd)) __s)))
        s s' := by
    intro cands hc
    have hro : RO (forIn cands ([] : List ((Int × String) × Key)) fun k __s => do
              let x ← getInstX k.fst
              let cfg ← getCfg x.flowId
              Pure.pure (ForInStep.yield (__s ++ [((-cfg.loopPriority, x.hierPos), k)]))) :=
      RO.forIn _ (fun a b => RO.bind (ro_getInstX _) fun x => RO.bind (ro_getCfg _) fun c => RO.pure _) _ _
    refine Rel2.bind hro hro (h.candLoop cands hc _ rfl []) ?_
    intro r r' _ _ hr
    subst hr
    exact Rel2.pure rfl s s'
  have mem := fun nm k (hk : k ∈ CoreIndex.bucket s.ixs.ix nm) => h.candidate_kept hk
  split
  · apply key
    intro k hk
    simp only [List.mem_append] at hk
    rcases hk with (hk | hk) | hk <;> exact mem _ k hk
  · split
    · apply key
      intro k hk
      simp only [List.mem_append] at hk
      rcases hk with (hk | hk) | hk <;> exact mem _ k hk
    · apply key
      intro k hk
      exact mem _ k hk

end NemoVerif.C11.Bisim
