/-
  C01–C03 — lemmas about the Colang 2.x instantiation of the `Pipeline` model (`turnV2`).

  In 2.x a rail cannot rewrite the text (guardrails.co passes it by value) and a failing rail action
  yields `None`, which `if not $allowed` treats as a rejection: `norm2` maps the verdicts accordingly
  and the rail lists are again `gate`s (of the normalised verdict function).
-/
import NemoVerif.Lemmas.Pipeline

set_option linter.unusedSimpArgs false

namespace NemoVerif.Pipeline

/-- How a 2.x rail flow reads a verdict. -/
def norm2 : Verdict → Verdict
  | .accept => .accept
  | .rewrite _ => .accept
  | .reject => .reject
  | .fault => .reject
  | .escape => .escape

def n2 (v : Nat → Text → Verdict) : Nat → Text → Verdict := fun r x => norm2 (v r x)

theorem norm2_apply (w : Verdict) (t : Text) : (norm2 w).apply t = t := by
  cases w <;> rfl

/-- A 2.x rail list shows every rail the same text (nothing rewrites it). -/
theorem gate_n2_text (v : Nat → Text → Verdict) : ∀ (rails : List Nat) (t : Text), ∀ c ∈ gate (n2 v) rails t, c.2 = t
  | [], _ => by simp [gate]
  | r :: rs, t => by
    intro c hc
    by_cases h : (n2 v r t).continues = true
    · simp only [gate, h, if_true] at hc
      rcases List.mem_cons.mp hc with rfl | hc
      · rfl
      · have := gate_n2_text v rs ((n2 v r t).apply t) c hc
        rw [this]
        exact norm2_apply (v r t) t
    · simp [gate, h] at hc
      rw [hc]

def stopStepsV2 (cfg : Cfg) (k : Kind) : Option Verdict → List Step
  | some .reject => if cfg.exc then [.exc k] else [.utter refusal]
  | _ => []

def stopResV2 : Option Verdict → Res2
  | none => .pass
  | some .reject => .blocked
  | some _ => .escaped

theorem railsOutV2_nf (cfg : Cfg) (v : Nat → Text → Verdict) (hwf : WF cfg .output) :
    ∀ (rails : List Nat) (t : Text),
    railsOutV2 cfg v rails t =
      (railSteps .output (gate (n2 v) rails t) ++ stopStepsV2 cfg .output (gateStop (n2 v) rails t),
       stopResV2 (gateStop (n2 v) rails t))
  | [], t => by simp [railsOutV2, gate, gateStop, railSteps, stopStepsV2, stopResV2]
  | r :: rs, t => by
    have ih := railsOutV2_nf cfg v hwf rs t
    cases hv : v r t with
    | accept => simp [railsOutV2, hv, gate, gateStop, n2, norm2, Verdict.continues, Verdict.apply, ih, railSteps]
    | rewrite t' => simp [railsOutV2, hv, gate, gateStop, n2, norm2, Verdict.continues, Verdict.apply, ih, railSteps]
    | escape => simp [railsOutV2, hv, gate, gateStop, n2, norm2, Verdict.continues, railSteps, stopStepsV2, stopResV2]
    | reject =>
      by_cases he : cfg.exc = true
      · simp [railsOutV2, hv, gate, gateStop, n2, norm2, Verdict.continues, railSteps, stopStepsV2, stopResV2, he, hwf he r]
      · have he' : cfg.exc = false := by simpa using he
        simp [railsOutV2, hv, gate, gateStop, n2, norm2, Verdict.continues, railSteps, stopStepsV2, stopResV2, he']
    | fault =>
      by_cases he : cfg.exc = true
      · simp [railsOutV2, hv, gate, gateStop, n2, norm2, Verdict.continues, railSteps, stopStepsV2, stopResV2, he, hwf he r]
      · have he' : cfg.exc = false := by simpa using he
        simp [railsOutV2, hv, gate, gateStop, n2, norm2, Verdict.continues, railSteps, stopStepsV2, stopResV2, he']

/-- What `_bot_say $text` does when the output rails are not in progress (closed form). -/
def sayTailV2 (cfg : Cfg) (text : Text) : Option Verdict → List Step
  | none => [.utter text]
  | w => stopStepsV2 cfg .output w

def sayHistV2 (cfg : Cfg) : Option Verdict → HistV2
  | none => { orip := false, talking := false }
  | some .reject => { orip := !cfg.flagReset, talking := cfg.exc }
  | some _ => { orip := !cfg.flagReset, talking := true }

def sayEscV2 : Option Verdict → Bool
  | none => false
  | some .reject => false
  | some _ => true

theorem botSayV2_nf (cfg : Cfg) (vout : Nat → Text → Verdict) (hwf : WF cfg .output) (h : HistV2) (ho : h.orip = false) (text : Text) :
    botSayV2 cfg vout h text =
      (railSteps .output (gate (n2 vout) cfg.outRails text) ++ sayTailV2 cfg text (gateStop (n2 vout) cfg.outRails text),
       sayHistV2 cfg (gateStop (n2 vout) cfg.outRails text),
       sayEscV2 (gateStop (n2 vout) cfg.outRails text)) := by
  unfold botSayV2
  simp only [ho, Bool.false_eq_true, if_false]
  cases hr : cfg.outRails with
  | nil => simp [gate, gateStop, railSteps, sayTailV2, sayHistV2, sayEscV2]
  | cons r rs =>
    simp only [List.isEmpty_cons, Bool.false_eq_true, if_false]
    rw [railsOutV2_nf cfg vout hwf]
    cases hs : gateStop (n2 vout) (r :: rs) text with
    | none => simp [stopResV2, stopStepsV2, sayTailV2, sayHistV2, sayEscV2]
    | some w => cases w <;> simp [stopResV2, stopStepsV2, sayTailV2, sayHistV2, sayEscV2]

/-- What `_bot_say` does while the output rails are in progress: it just utters. -/
theorem botSayV2_orip (cfg : Cfg) (vout : Nat → Text → Verdict) (h : HistV2) (ho : h.orip = true) (text : Text) :
    botSayV2 cfg vout h text = ([.utter text], { h with talking := false }, false) := by
  simp [botSayV2, ho]

/-- The refusal said by a blocking input rail (non-exception mode), closed form for `orip = false`. -/
def inStopV2 (cfg : Cfg) (vout : Nat → Text → Verdict) (h : HistV2) : Option Verdict → List Step × HistV2 × Res2
  | none => ([], h, .pass)
  | some .reject =>
    if cfg.exc then ([.exc .input], h, .blocked)
    else (railSteps .output (gate (n2 vout) cfg.outRails refusal) ++ sayTailV2 cfg refusal (gateStop (n2 vout) cfg.outRails refusal),
          sayHistV2 cfg (gateStop (n2 vout) cfg.outRails refusal),
          if sayEscV2 (gateStop (n2 vout) cfg.outRails refusal) then .escaped else .blocked)
  | some _ => ([], h, .escaped)

theorem railsInV2_nf (cfg : Cfg) (t : Turn) (hi : WF cfg .input) (hwo : WF cfg .output) (h : HistV2) (ho : h.orip = false) :
    ∀ (rails : List Nat),
    railsInV2 cfg t rails h =
      (railSteps .input (gate (n2 t.vin) rails t.user) ++ (inStopV2 cfg t.vout h (gateStop (n2 t.vin) rails t.user)).1,
       (inStopV2 cfg t.vout h (gateStop (n2 t.vin) rails t.user)).2.1,
       (inStopV2 cfg t.vout h (gateStop (n2 t.vin) rails t.user)).2.2)
  | [] => by simp [railsInV2, gate, gateStop, railSteps, inStopV2]
  | r :: rs => by
    have ih := railsInV2_nf cfg t hi hwo h ho rs
    cases hv : t.vin r t.user with
    | accept => simp [railsInV2, hv, gate, gateStop, n2, norm2, Verdict.continues, Verdict.apply, ih, railSteps]
    | rewrite t' => simp [railsInV2, hv, gate, gateStop, n2, norm2, Verdict.continues, Verdict.apply, ih, railSteps]
    | escape => simp [railsInV2, hv, gate, gateStop, n2, norm2, Verdict.continues, railSteps, inStopV2]
    | reject =>
      by_cases he : cfg.exc = true
      · simp [railsInV2, hv, gate, gateStop, n2, norm2, Verdict.continues, railSteps, inStopV2, he, hi he r]
      · have he' : cfg.exc = false := by simpa using he
        simp [railsInV2, hv, gate, gateStop, n2, norm2, Verdict.continues, railSteps, inStopV2, he', botSayV2_nf cfg t.vout hwo h ho]
    | fault =>
      by_cases he : cfg.exc = true
      · simp [railsInV2, hv, gate, gateStop, n2, norm2, Verdict.continues, railSteps, inStopV2, he, hi he r]
      · have he' : cfg.exc = false := by simpa using he
        simp [railsInV2, hv, gate, gateStop, n2, norm2, Verdict.continues, railSteps, inStopV2, he', botSayV2_nf cfg t.vout hwo h ho]

/-- The dialog / generation steps of a 2.x turn that precede `bot say` (empty list together with
    `false`: the LLM continuation is suppressed because `$bot_talking_state` is stuck). -/
def genPrefixV2 (cfg : Cfg) (t : Turn) (h : HistV2) : Option (List Step) :=
  if !cfg.dialog then some [.llm .value t.user]
  else match t.intent with
    | .act => some [.act .dialog, .llm .value t.user]
    | _ => if h.talking then none else some [.llm .intentV2 t.user, .llm .continuation t.user]

theorem genV2_nf (cfg : Cfg) (t : Turn) (h : HistV2) :
    genV2 cfg t h =
      match genPrefixV2 cfg t h with
      | none => ([], h, false)
      | some pre => (pre ++ (botSayV2 cfg t.vout h t.bot).1, (botSayV2 cfg t.vout h t.bot).2.1, (botSayV2 cfg t.vout h t.bot).2.2) := by
  unfold genV2 genPrefixV2
  cases cfg.dialog <;> cases t.intent <;> cases h.talking <;> simp

/-- The `CheckFlowDefinedAction("input rails")` shortcut agrees with the empty list. -/
theorem inputPartV2_eq (cfg : Cfg) (h : HistV2) (t : Turn) :
    (if cfg.inRails.isEmpty then (([] : List Step), h, Res2.pass) else railsInV2 cfg t cfg.inRails h) = railsInV2 cfg t cfg.inRails h := by
  cases hr : cfg.inRails with
  | nil => simp [railsInV2]
  | cons r rs => simp

/-- Closed form of a Colang 2.x turn for well-formed rails, entered with `$output_rails_in_progress` unset. -/
def turnSpecV2 (cfg : Cfg) (h : HistV2) (t : Turn) : List Step × Reply × HistV2 :=
  let inTr := railSteps .input (gate (n2 t.vin) cfg.inRails t.user)
  let stop := inStopV2 cfg t.vout h (gateStop (n2 t.vin) cfg.inRails t.user)
  match stop.2.2 with
  | .pass =>
    (match genPrefixV2 cfg t h with
     | none => (inTr ++ stop.1 ++ [], replyV2 (inTr ++ stop.1 ++ []) false, h)
     | some pre =>
       let tr := inTr ++ stop.1 ++ (pre ++ (railSteps .output (gate (n2 t.vout) cfg.outRails t.bot)
                  ++ sayTailV2 cfg t.bot (gateStop (n2 t.vout) cfg.outRails t.bot)))
       (tr, replyV2 tr (sayEscV2 (gateStop (n2 t.vout) cfg.outRails t.bot)), sayHistV2 cfg (gateStop (n2 t.vout) cfg.outRails t.bot)))
  | .blocked => (inTr ++ stop.1, replyV2 (inTr ++ stop.1) false, stop.2.1)
  | .escaped => (inTr ++ stop.1, replyV2 (inTr ++ stop.1) true, stop.2.1)

theorem inStopV2_pass_hist (cfg : Cfg) (vout : Nat → Text → Verdict) (h : HistV2) (w : Option Verdict)
    (hp : (inStopV2 cfg vout h w).2.2 = .pass) : w = none ∧ (inStopV2 cfg vout h w).2.1 = h ∧ (inStopV2 cfg vout h w).1 = [] := by
  cases w with
  | none => simp [inStopV2]
  | some v =>
    cases v <;> simp [inStopV2] at hp
    split at hp
    · simp at hp
    · simp at hp; split at hp <;> simp at hp

theorem turnV2_eq_spec (cfg : Cfg) (h : HistV2) (t : Turn) (hi : WF cfg .input) (ho : WF cfg .output) (hor : h.orip = false) :
    turnV2 cfg h t = turnSpecV2 cfg h t := by
  unfold turnV2 turnSpecV2
  rw [inputPartV2_eq, railsInV2_nf cfg t hi ho h hor]
  simp only
  cases hres : (inStopV2 cfg t.vout h (gateStop (n2 t.vin) cfg.inRails t.user)).2.2 with
  | blocked => simp
  | escaped => simp
  | pass =>
    obtain ⟨_, hh, htr⟩ := inStopV2_pass_hist cfg t.vout h _ hres
    simp only [hh, htr]
    rw [genV2_nf]
    cases hg : genPrefixV2 cfg t h with
    | none => simp
    | some pre => simp [botSayV2_nf cfg t.vout ho h hor]

end NemoVerif.Pipeline

namespace NemoVerif.Pipeline

/-! ## `$output_rails_in_progress` is unset after every turn (repaired guardrails.co) — no well-formedness needed -/

theorem botSayV2_orip_inv (cfg : Cfg) (vout : Nat → Text → Verdict) (hfr : cfg.flagReset = true) (h : HistV2) (ho : h.orip = false)
    (text : Text) : (botSayV2 cfg vout h text).2.1.orip = false := by
  unfold botSayV2
  simp only [ho, Bool.false_eq_true, if_false]
  by_cases he : cfg.outRails.isEmpty = true
  · simp [he]
  · have he' : cfg.outRails.isEmpty = false := by simpa using he
    simp only [he', Bool.false_eq_true, if_false]
    rcases hr : railsOutV2 cfg vout cfg.outRails text with ⟨tr, res⟩
    cases res <;> simp [hfr]

theorem railsInV2_orip_inv (cfg : Cfg) (t : Turn) (hfr : cfg.flagReset = true) (h : HistV2) (ho : h.orip = false) :
    ∀ (rails : List Nat), (railsInV2 cfg t rails h).2.1.orip = false
  | [] => by simp [railsInV2, ho]
  | r :: rs => by
    have ih := railsInV2_orip_inv cfg t hfr h ho rs
    cases hv : t.vin r t.user with
    | accept => simpa [railsInV2, hv] using ih
    | rewrite x => simpa [railsInV2, hv] using ih
    | escape => simp [railsInV2, hv, ho]
    | reject =>
      by_cases he : cfg.exc = true
      · by_cases hs : cfg.stops .input r = true
        · simp [railsInV2, hv, he, hs, ho]
        · have hs' : cfg.stops .input r = false := by simpa using hs
          simpa [railsInV2, hv, he, hs'] using ih
      · have he' : cfg.exc = false := by simpa using he
        simpa [railsInV2, hv, he'] using botSayV2_orip_inv cfg t.vout hfr h ho refusal
    | fault =>
      by_cases he : cfg.exc = true
      · by_cases hs : cfg.stops .input r = true
        · simp [railsInV2, hv, he, hs, ho]
        · have hs' : cfg.stops .input r = false := by simpa using hs
          simpa [railsInV2, hv, he, hs'] using ih
      · have he' : cfg.exc = false := by simpa using he
        simpa [railsInV2, hv, he'] using botSayV2_orip_inv cfg t.vout hfr h ho refusal

theorem turnV2_orip (cfg : Cfg) (h : HistV2) (t : Turn) (hfr : cfg.flagReset = true) (ho : h.orip = false) :
    (turnV2 cfg h t).2.2.orip = false := by
  unfold turnV2
  rw [inputPartV2_eq]
  have hin := railsInV2_orip_inv cfg t hfr h ho cfg.inRails
  rcases hr : railsInV2 cfg t cfg.inRails h with ⟨trIn, h1, res⟩
  rw [hr] at hin
  simp only at hin
  cases res with
  | blocked => simpa using hin
  | escaped => simpa using hin
  | pass =>
    simp only
    rw [genV2_nf]
    cases hg : genPrefixV2 cfg t h1 with
    | none => simpa using hin
    | some pre => simpa using botSayV2_orip_inv cfg t.vout hfr h1 hin t.bot

/-! ## consequences of the closed form -/

theorem railCalls_stopStepsV2 (cfg : Cfg) (k k' : Kind) (w : Option Verdict) : railCalls k' (stopStepsV2 cfg k w) = [] := by
  cases w with
  | none => simp [stopStepsV2, railCalls]
  | some v => cases v <;> simp [stopStepsV2, railCalls] <;> (split <;> simp [railCalls])

theorem railCalls_sayTailV2 (cfg : Cfg) (k : Kind) (x : Text) (w : Option Verdict) : railCalls k (sayTailV2 cfg x w) = [] := by
  cases w with
  | none => simp [sayTailV2, railCalls]
  | some v => simp [sayTailV2, railCalls_stopStepsV2]

theorem railCalls_input_inStopV2 (cfg : Cfg) (vout : Nat → Text → Verdict) (h : HistV2) (w : Option Verdict) :
    railCalls .input (inStopV2 cfg vout h w).1 = [] := by
  cases w with
  | none => simp [inStopV2, railCalls]
  | some v =>
    cases v <;> simp [inStopV2, railCalls]
    split
    · simp [railCalls]
    · simp [railCalls_sayTailV2, railCalls_railSteps_other .input .output (by decide)]

theorem isGen_sayTailV2 (cfg : Cfg) (x : Text) (w : Option Verdict) : ∀ s ∈ sayTailV2 cfg x w, s.isGen = false := by
  cases w with
  | none => simp [sayTailV2, Step.isGen]
  | some v =>
    cases v <;> simp [sayTailV2, stopStepsV2, Step.isGen]
    split <;> simp [Step.isGen]

theorem isGen_inStopV2 (cfg : Cfg) (vout : Nat → Text → Verdict) (h : HistV2) (w : Option Verdict) :
    ∀ s ∈ (inStopV2 cfg vout h w).1, s.isGen = false := by
  cases w with
  | none => simp [inStopV2]
  | some v =>
    cases v <;> simp [inStopV2]
    split
    · simp [Step.isGen]
    · intro s hs
      rcases List.mem_append.mp hs with h1 | h1
      · exact isGen_railSteps _ _ s h1
      · exact isGen_sayTailV2 _ _ _ s h1

theorem railCalls_genPrefixV2 (cfg : Cfg) (t : Turn) (h : HistV2) (k : Kind) (pre : List Step)
    (hp : genPrefixV2 cfg t h = some pre) : railCalls k pre = [] := by
  unfold genPrefixV2 at hp
  cases hd : cfg.dialog <;> cases hi : t.intent <;> cases ht : h.talking <;> simp [hd, hi, ht] at hp <;> subst hp <;> simp [railCalls]

theorem utters_genPrefixV2 (cfg : Cfg) (t : Turn) (h : HistV2) (pre : List Step)
    (hp : genPrefixV2 cfg t h = some pre) : ∀ x, Step.utter x ∉ pre := by
  unfold genPrefixV2 at hp
  cases hd : cfg.dialog <;> cases hi : t.intent <;> cases ht : h.talking <;> simp [hd, hi, ht] at hp <;> subst hp <;> simp

/-- What follows the input rails in the closed form. -/
def restV2 (cfg : Cfg) (h : HistV2) (t : Turn) : List Step :=
  match gateStop (n2 t.vin) cfg.inRails t.user with
  | some _ => []
  | none =>
    match genPrefixV2 cfg t h with
    | none => []
    | some pre =>
      pre ++ (railSteps .output (gate (n2 t.vout) cfg.outRails t.bot)
        ++ sayTailV2 cfg t.bot (gateStop (n2 t.vout) cfg.outRails t.bot))

/-- the trace of the closed form -/
theorem turnSpecV2_trace (cfg : Cfg) (h : HistV2) (t : Turn) :
    (turnSpecV2 cfg h t).1 =
      railSteps .input (gate (n2 t.vin) cfg.inRails t.user)
        ++ (inStopV2 cfg t.vout h (gateStop (n2 t.vin) cfg.inRails t.user)).1 ++ restV2 cfg h t := by
  unfold turnSpecV2 restV2
  cases hg : gateStop (n2 t.vin) cfg.inRails t.user with
  | none =>
    simp only [inStopV2]
    cases hp : genPrefixV2 cfg t h with
    | none => simp
    | some pre => simp
  | some v =>
    cases v with
    | accept => simp [inStopV2]
    | rewrite x => simp [inStopV2]
    | fault => simp [inStopV2]
    | escape => simp [inStopV2]
    | reject =>
      by_cases he : cfg.exc = true
      · simp [inStopV2, he]
      · have he' : cfg.exc = false := by simpa using he
        by_cases hesc : sayEscV2 (gateStop (n2 t.vout) cfg.outRails refusal) = true
        · simp [inStopV2, he', hesc]
        · have hesc' : sayEscV2 (gateStop (n2 t.vout) cfg.outRails refusal) = false := by simpa using hesc
          simp [inStopV2, he', hesc']

theorem railCalls_input_restV2 (cfg : Cfg) (h : HistV2) (t : Turn) : railCalls .input (restV2 cfg h t) = [] := by
  unfold restV2
  cases gateStop (n2 t.vin) cfg.inRails t.user with
  | some v => rfl
  | none =>
    simp only
    cases hp : genPrefixV2 cfg t h with
    | none => rfl
    | some pre =>
      simp [railCalls_genPrefixV2 cfg t h .input pre hp, railCalls_sayTailV2, railCalls_railSteps_other .input .output (by decide)]

theorem utter_mem_sayTailV2 (cfg : Cfg) (text : Text) (w : Option Verdict) (x : Text) (hx : Step.utter x ∈ sayTailV2 cfg text w) :
    x = refusal ∨ (w = none ∧ x = text) := by
  cases w with
  | none => simp [sayTailV2] at hx; exact Or.inr ⟨rfl, hx⟩
  | some v =>
    cases v <;> simp [sayTailV2, stopStepsV2] at hx
    split at hx <;> simp at hx
    exact Or.inl hx

theorem utter_mem_inStopV2 (cfg : Cfg) (vout : Nat → Text → Verdict) (h : HistV2) (w : Option Verdict) (x : Text)
    (hx : Step.utter x ∈ (inStopV2 cfg vout h w).1) : x = refusal := by
  cases w with
  | none => simp [inStopV2] at hx
  | some v =>
    cases v <;> simp [inStopV2] at hx
    split at hx
    · simp at hx
    · rcases List.mem_append.mp hx with h1 | h1
      · simp [railSteps] at h1
      · rcases utter_mem_sayTailV2 _ _ _ x h1 with h2 | ⟨_, h2⟩
        · exact h2
        · exact h2

theorem utter_mem_restV2 (cfg : Cfg) (h : HistV2) (t : Turn) (x : Text) (hx : Step.utter x ∈ restV2 cfg h t) :
    x = refusal ∨ (x = t.bot ∧ gateStop (n2 t.vin) cfg.inRails t.user = none
      ∧ gateStop (n2 t.vout) cfg.outRails t.bot = none
      ∧ railCalls .output (restV2 cfg h t) = gate (n2 t.vout) cfg.outRails t.bot) := by
  unfold restV2 at hx ⊢
  cases hg : gateStop (n2 t.vin) cfg.inRails t.user with
  | some v => rw [hg] at hx; simp at hx
  | none =>
    rw [hg] at hx
    simp only at hx ⊢
    cases hp : genPrefixV2 cfg t h with
    | none => rw [hp] at hx; simp at hx
    | some pre =>
      rw [hp] at hx
      simp only at hx ⊢
      rcases List.mem_append.mp hx with h1 | h1
      · exact absurd h1 (utters_genPrefixV2 cfg t h pre hp x)
      · rcases List.mem_append.mp h1 with h2 | h2
        · simp [railSteps] at h2
        · rcases utter_mem_sayTailV2 _ _ _ x h2 with h3 | ⟨h3, h4⟩
          · exact Or.inl h3
          · refine Or.inr ⟨h4, trivial, h3, ?_⟩
            simp [railCalls_genPrefixV2 cfg t h .output pre hp, railCalls_sayTailV2]

theorem llm_mem_restV2 (cfg : Cfg) (h : HistV2) (t : Turn) (task : Task) (u : Text) (hx : Step.llm task u ∈ restV2 cfg h t) :
    gateStop (n2 t.vin) cfg.inRails t.user = none := by
  unfold restV2 at hx
  cases hg : gateStop (n2 t.vin) cfg.inRails t.user with
  | some v => rw [hg] at hx; simp at hx
  | none => rfl

theorem isGen_mem_restV2 (cfg : Cfg) (h : HistV2) (t : Turn) (s : Step) (hs : s ∈ restV2 cfg h t) :
    gateStop (n2 t.vin) cfg.inRails t.user = none := by
  unfold restV2 at hs
  cases hgs : gateStop (n2 t.vin) cfg.inRails t.user with
  | some v => rw [hgs] at hs; simp at hs
  | none => rfl

end NemoVerif.Pipeline
