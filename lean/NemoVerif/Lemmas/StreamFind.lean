/-
  C18 — `completion[: min(completion.find(s) for s in stop if s in completion)]` (the code of `_process`) is the
  left-to-right scan `cutStop` of the model.
-/
import NemoVerif.Lemmas.Stream
namespace NemoVerif.Stream

theorem minList_map_succ : ∀ (l : List Nat), l ≠ [] → minList (l.map (· + 1)) = minList l + 1
  | [], h => absurd rfl h
  | [a], _ => rfl
  | a :: b :: r, _ => by
    have ih := minList_map_succ (b :: r) (by simp)
    simp only [List.map_cons, minList] at ih ⊢
    rw [ih]; omega

theorem minList_zero_mem : ∀ (l : List Nat), 0 ∈ l → minList l = 0
  | [], h => by cases h
  | [a], h => by simp at h; simp [minList, h]
  | a :: b :: r, h => by
    simp only [minList]
    rcases List.mem_cons.1 h with h | h
    · subst h; simp
    · rw [minList_zero_mem (b :: r) h]; simp

theorem stopPositions_here {stops : List Str} {t : Str} (h : stopHere stops t = true) : 0 ∈ stopPositions stops t := by
  obtain ⟨p, hp, hpre⟩ := stopHere_iff.1 h
  have hpre' : p.isPrefixOf t = true := List.isPrefixOf_iff_prefix.2 hpre
  refine List.mem_filterMap.2 ⟨p, hp, ?_⟩
  cases t with
  | nil => simp [findStr, hpre']
  | cons c t => simp [findStr, hpre']

theorem stopPositions_cons {stops : List Str} {c : Char} {t : Str} (h : stopHere stops (c :: t) = false) :
    stopPositions stops (c :: t) = (stopPositions stops t).map (· + 1) := by
  induction stops with
  | nil => rfl
  | cons p ps ih =>
    have hp : p.isPrefixOf (c :: t) = false := by
      simp only [stopHere, List.any_cons, Bool.or_eq_false_iff] at h; exact h.1
    have hps : stopHere ps (c :: t) = false := by
      simp only [stopHere, List.any_cons, Bool.or_eq_false_iff] at h; exact h.2
    have ih' := ih hps
    simp only [stopPositions, List.filterMap_cons, findStr, hp] at ih' ⊢
    cases hf : findStr p t with
    | none => simpa [hf] using ih'
    | some n => simpa [hf] using ih'

/-- the left-to-right scan `cutStop` of the model IS the code's `completion[: min(find …)]` -/
theorem cutStop_eq_cutMin (stops : List Str) : ∀ t : Str, cutStop stops t = cutMin stops t
  | [] => by
    by_cases h : stopHere stops [] = true
    · have := stopPositions_here h
      simp only [cutStop, h, if_true, cutMin]
      cases hp : stopPositions stops [] with
      | nil => rw [hp] at this; cases this
      | cons a r => simp
    · have h' : stopHere stops [] = false := by simpa using h
      simp only [cutStop, h', Bool.false_eq_true, if_false, cutMin]
      have : stopPositions stops [] = [] := by
        simp only [stopPositions]
        apply List.filterMap_eq_nil_iff.2
        intro p hp
        have : p.isPrefixOf [] = false := by
          cases hpp : p.isPrefixOf [] with
          | false => rfl
          | true =>
            have : stopHere stops [] = true := by
              simp only [stopHere, List.any_eq_true]; exact ⟨p, hp, hpp⟩
            rw [h'] at this; cases this
        simp [findStr, this]
      rw [this]
  | c :: t => by
    by_cases h : stopHere stops (c :: t) = true
    · have hm := stopPositions_here h
      simp only [cutStop, h, if_true, cutMin]
      cases hp : stopPositions stops (c :: t) with
      | nil => rw [hp] at hm; cases hm
      | cons a r =>
        rw [hp] at hm
        simp [minList_zero_mem _ hm]
    · have h' : stopHere stops (c :: t) = false := by simpa using h
      have ih := cutStop_eq_cutMin stops t
      simp only [cutStop, h', Bool.false_eq_true, if_false, ih, cutMin, stopPositions_cons h']
      cases hp : stopPositions stops t with
      | nil => simp
      | cons a r =>
        have : minList ((a :: r).map (· + 1)) = minList (a :: r) + 1 := minList_map_succ _ (by simp)
        simp only [List.map_cons] at this
        simp [this]

end NemoVerif.Stream
