/-
  C08 — surplus positional arguments: exact behaviour of `create_flow_instance` + `_start_flow` as they are
  (outside the property statement; mirrored, characterised, tied by the fn-level differential).
-/
import NemoVerif.Lemmas.Bind
namespace NemoVerif.Bind
open NemoVerif

/-! ### surplus positional arguments: what `_start_flow` does, exactly -/

/-- number of keys of `arguments` after the second loop of `create_flow_instance`, for `k` contiguous positionals -/
theorem bindPos_keys_length (ev : Ctx) (k : Nat) (hpos : ∀ j, j < k → (lookup (.pos j) ev).isSome)
    (hnopos : ∀ j, k ≤ j → lookup (.pos j) ev = none) : ∀ (ps : List Param) (i : Nat) (a : Ctx),
    (∀ p ∈ ps, argKey p.name ∈ keys a) → (∀ j, i ≤ j → Key.pos j ∉ keys a) →
    (keys (bindPos ev ps i a)).length = (keys a).length + (min k (i + ps.length) - i)
  | [], i, a, _, _ => by simp only [bindPos, List.length_nil, Nat.add_zero]; omega
  | p :: ps, i, a, h, hfree => by
    simp only [bindPos]
    cases hl : lookup (.pos i) ev with
    | none =>
      simp only
      have hik : k ≤ i := by
        rcases Nat.lt_or_ge i k with hlt | hge
        · have := hpos i hlt; rw [hl] at this; simp at this
        · exact hge
      rw [bindPos_keys_length ev k hpos hnopos ps (i + 1) a (fun q hq => h q (by simp [hq])) (fun j hj => hfree j (by omega))]
      simp only [List.length_cons]; omega
    | some v =>
      simp only
      have hik : i < k := by
        rcases Nat.lt_or_ge i k with hlt | hge
        · exact hlt
        · rw [hnopos i hge] at hl; cases hl
      have hp : argKey p.name ∈ keys a := h p (by simp)
      have h1 : keys (set (argKey p.name) v a) = keys a := keys_set_of_mem _ _ _ hp
      have h2 : keys (set (.pos i) v (set (argKey p.name) v a)) = keys a ++ [.pos i] := by
        rw [keys_set_of_not_mem _ _ _ (by rw [h1]; exact hfree i (Nat.le_refl _)), h1]
      rw [bindPos_keys_length ev k hpos hnopos ps (i + 1) _ (fun q hq => by rw [h2]; exact List.mem_append_left _ (h q (by simp [hq])))
        (fun j hj => by
          rw [h2]; intro hm
          rcases List.mem_append.1 hm with hm | hm
          · exact hfree j (by omega) hm
          · simp at hm; omega)]
      rw [h2]; simp only [List.length_append, List.length_cons, List.length_nil]; omega

/-- `last_idx + 1` of `_start_flow`'s loop, exactly: with `m` contiguous positionals from `idx` on (and none
    at `idx+m`), the loop breaks at the first missing one — unless the key list is exhausted first -/
theorem startLoop_next_exact (ev : Ctx) : ∀ (ks : List Key) (idx m : Nat) (c : Ctx),
    (∀ j, j < m → (lookup (.pos (idx + j)) ev).isSome) → lookup (.pos (idx + m)) ev = none →
    (startLoop ev ks idx c).2 = if m < ks.length then idx + m + 1 else idx + ks.length
  | [], idx, m, c, _, _ => by simp [startLoop]
  | a :: ks, idx, m, c, hp, hn => by
    simp only [startLoop]
    cases m with
    | zero =>
      simp only [Nat.add_zero] at hn
      simp [hn]
    | succ m =>
      have h0 := hp 0 (by omega)
      simp only [Nat.add_zero] at h0
      cases hl : lookup (.pos idx) ev with
      | none => rw [hl] at h0; simp at h0
      | some v =>
        simp only
        rw [startLoop_next_exact ev ks (idx + 1) m _ (fun j hj => by
          have := hp (j + 1) (by omega)
          rwa [show idx + (j + 1) = idx + 1 + j by omega] at this) (by
          rwa [show idx + (m + 1) = idx + 1 + m by omega] at hn)]
        simp only [List.length_cons]
        split <;> split <;> omega


/-- a purely positional call: `k` contiguous positionals `$0..$k-1` (any `k`, also more than the flow has
    parameters), parent link keys present, no shared `context` -/
structure PositionalCall (params : List Param) (ev : Ctx) (k : Nat) : Prop where
  nodup : (pnames params).Nodup
  noCtx : lookup (.name "context") ev = none
  parentUid : (lookup (.name "source_flow_instance_uid") ev).isSome
  parentHead : (lookup (.name "source_head_uid") ev).isSome
  pos : ∀ i, i < k → (lookup (.pos i) ev).isSome
  nopos : ∀ i, k ≤ i → lookup (.pos i) ev = none

theorem surplus_core (fid : String) (params rets : List Param) (ev : Ctx) (k : Nat) (h : PositionalCall params ev k) :
    ∃ f0, createFlowInstance fid params rets ev = .ok f0 ∧
      (2 * params.length < k → startFlow false ev f0 = .error .tooMany) ∧
      (k ≤ 2 * params.length → ∃ f, startFlow false ev f0 = .ok f) := by
  obtain ⟨hnd, hctx, hpu, hph, hpos, hnopos⟩ := h
  have hcreate : createFlowInstance fid params rets ev =
      .ok { flowId := fid, arguments := bindPos ev params 0 (bindNamed ev params ([], [])).1,
            context := bindRet rets (bindNamed ev params ([], [])).2 } := by
    simp [createFlowInstance, startCtx, hctx]
  have hk1 : keys (bindNamed ev params ([], [])).1 = (pnames params).map argKey := by
    have := bindNamed_keys ev params [] [] hnd (by simp [keys])
    simpa [keys] using this
  have hlen : (keys (bindPos ev params 0 (bindNamed ev params ([], [])).1)).length = params.length + min k params.length := by
    have := bindPos_keys_length ev k hpos hnopos params 0 (bindNamed ev params ([], [])).1
      (by intro p hp; rw [hk1]; exact List.mem_map_of_mem (List.mem_map_of_mem hp))
      (by
        intro j _ hm
        rw [hk1] at hm
        obtain ⟨x, _, e⟩ := List.mem_map.1 hm
        exact argKey_ne_pos x j e)
    rw [this, hk1]
    simp [pnames]
  obtain ⟨pu, hpu'⟩ := Option.isSome_iff_exists.1 hpu
  obtain ⟨ph, hph'⟩ := Option.isSome_iff_exists.1 hph
  have hnext := startLoop_next_exact ev (keys (bindPos ev params 0 (bindNamed ev params ([], [])).1)) 0 k
    (bindRet rets (bindNamed ev params ([], [])).2) (fun j hj => by simpa using hpos j hj) (by simpa using hnopos k (Nat.le_refl _))
  rw [hlen] at hnext
  refine ⟨_, hcreate, fun hgt => ?_, fun hle => ?_⟩
  · have h2 : (startLoop ev (keys (bindPos ev params 0 (bindNamed ev params ([], [])).1)) 0 (bindRet rets (bindNamed ev params ([], [])).2)).2
        = 2 * params.length := by
      rw [hnext]; split <;> omega
    have hhas : has (.pos (2 * params.length)) ev = true := by
      simp only [has]; exact hpos _ hgt
    simp [startFlow, hpu', hph', h2, hhas]
  · have hhas : has (.pos (startLoop ev (keys (bindPos ev params 0 (bindNamed ev params ([], [])).1)) 0 (bindRet rets (bindNamed ev params ([], [])).2)).2) ev = false := by
      simp only [has]
      rw [hnopos _ (by rw [hnext]; split <;> omega)]
      rfl
    refine ⟨{ flowId := fid, arguments := bindPos ev params 0 (bindNamed ev params ([], [])).1,
              context := (startLoop ev (keys (bindPos ev params 0 (bindNamed ev params ([], [])).1)) 0 (bindRet rets (bindNamed ev params ([], [])).2)).1,
              parent := some pu }, ?_⟩
    simp [startFlow, hpu', hph', hhas]

end NemoVerif.Bind
