/-
  C06, goal 4 (refinement `CoreVM → Lifetime`), first layer.

  `absVM ν φ : CoreVM.VM → Lifetime.State` — the abstraction function (uids, action uids and scope names through a
  numbering `ν`, flow ids through `φ`; the flow status and the number of heads are read from the index component,
  contexts / payloads / the dispatch maps are dropped; queue and outgoing events are NOT abstracted here).
  Refinement lemmas, function by function (each: the CoreVM monadic program, run on `vm`, answers what the `Lifetime`
  function answers on `absVM vm`, and changes the state as the `Lifetime` function does):
    look-ups, `modInstX ↦ modFlow`, `isReferenceActivated ↦ isRefActivated` (incl. the KeyError case),
    `isChildActivated ↦ isChildActivated`, the `new_instance_started` mark, the reference-count decrement.
  NOT reached: the action loop (`releaseAction ↦ stopAction1` needs the substring tests of `generateUmimEvent` on
  `"Stop" ++ name`), the remove-from-parent block, `restartActivated` (event payloads), the `for` loops and the
  recursion of `abortFlow` / `finishFlow`, `EndScope`, StartFlow processing; see design_notes/C06.md.
-/
import NemoVerif.Models.CoreVM.Run
import NemoVerif.Lemmas.LifetimeGen
namespace NemoVerif.Lifetime.Refine
open NemoVerif NemoVerif.CoreVM NemoVerif.CoreIndex NemoVerif.Lifetime

variable (ν : String → Nat) (φ : String → Nat)

def absStatus : FlowStatus → FStatus
  | .waiting => .waiting | .starting => .starting | .started => .started
  | .stopping => .stopping | .stopped => .stopped | .finished => .finished

def absAStatus : ActStatus → AStatus
  | .initialized => .initialized | .starting => .starting | .started => .started
  | .stopping => .stopping | .finished => .finished

theorem absStatus_listening (st : FlowStatus) : (absStatus st).listening = st.listening := by
  cases st <;> rfl

/-- the abstract record of instance `uid` with non-index part `x` -/
def absFlow (vm : VM) (uid : FUid) (x : InstX) : Flow :=
  { flowId := φ x.flowId, parent := x.parentUid.map ν, children := x.childFlowUids.map ν,
    status := match findInst vm.ixs.ix uid with | some i => absStatus i.status | none => .stopped,
    activated := x.activated.toNat, nis := x.newInstanceStarted, actionUids := x.actionUids.map ν,
    scopes := x.scopes.map fun e => (ν e.1, e.2.1.map ν, e.2.2.map ν),
    heads := match findInst vm.ixs.ix uid with | some i => i.heads.length | none => 0,
    isMain := x.flowId == "main" }

/-- the abstraction function (queue / outgoing events not abstracted: empty) -/
def absVM (vm : VM) : State :=
  { flows := fun n => (vm.r.fx.find? fun e => ν e.1 = n).map fun e => absFlow ν φ vm e.1 e.2,
    actions := fun n => (vm.r.actions.find? fun e => ν e.1 = n).map fun e => ⟨absAStatus e.2.status, e.2.scopeCount⟩,
    order := vm.r.fx.map fun e => ν e.1,
    queue := [], out := [] }

/-! ### look-ups -/

theorem find?_lookup {α : Type} (hν : Function.Injective ν) (f : String) : ∀ (l : List (String × α)),
    (l.find? fun e => ν e.1 = ν f) = (OMap.lookup f l).map fun v => (f, v)
  | [] => rfl
  | (k, v) :: rest => by
    simp only [List.find?_cons, OMap.lookup]
    by_cases h : k = f
    · subst h; simp
    · have : ¬ ν k = ν f := fun e => h (hν e)
      simp only [this, decide_false, h, if_false]
      exact find?_lookup hν f rest

theorem absVM_flows (hν : Function.Injective ν) (vm : VM) (f : FUid) :
    (absVM ν φ vm).flows (ν f) = (OMap.lookup f vm.r.fx).map (absFlow ν φ vm f) := by
  simp only [absVM, find?_lookup ν hν f vm.r.fx, Option.map_map]
  rfl

theorem getInstX?_run (f : FUid) (vm : VM) : getInstX? f vm = .ok (OMap.lookup f vm.r.fx) vm := rfl

theorem bind_getInstX? {β : Type} (p : FUid) (k : Option InstX → M β) (vm : VM) :
    EStateM.bind (getInstX? p) k vm = k (OMap.lookup p vm.r.fx) vm := rfl

theorem getInstX_run_some (f : FUid) (vm : VM) (x : InstX) (h : OMap.lookup f vm.r.fx = some x) :
    getInstX f vm = .ok x vm := by
  simp only [getInstX, bind, EStateM.bind, getInstX?_run, h]
  rfl

theorem getInstX_run_none (f : FUid) (vm : VM) (h : OMap.lookup f vm.r.fx = none) :
    getInstX f vm = .error (.py "KeyError" f) vm := by
  simp only [getInstX, bind, EStateM.bind, getInstX?_run, h]
  rfl

/-- `state.flow_states[f]`: found ⇔ the abstract state has a record; KeyError ⇔ it has none -/
theorem getInstX_refines (hν : Function.Injective ν) (f : FUid) (vm : VM) :
    (∃ x, getInstX f vm = .ok x vm ∧ (absVM ν φ vm).flows (ν f) = some (absFlow ν φ vm f x)) ∨
    (getInstX f vm = .error (.py "KeyError" f) vm ∧ (absVM ν φ vm).flows (ν f) = none) := by
  cases h : OMap.lookup f vm.r.fx with
  | none => exact Or.inr ⟨getInstX_run_none f vm h, by rw [absVM_flows ν φ hν, h]; rfl⟩
  | some x => exact Or.inl ⟨x, getInstX_run_some f vm x h, by rw [absVM_flows ν φ hν, h]; rfl⟩

/-! ### `_is_reference_activated_flow` / `_is_child_activated_flow` -/

/-- `CoreVM.isReferenceActivated f` answers exactly what `Lifetime.isRefActivated` answers on the abstract state —
    value `b` or KeyError — and does not change the state -/
theorem isReferenceActivated_refines (hν : Function.Injective ν) (hφ : Function.Injective φ) (f : FUid) (vm : VM) (x : InstX)
    (hx : OMap.lookup f vm.r.fx = some x) :
    (∃ b, isReferenceActivated f vm = .ok b vm ∧ isRefActivated (absVM ν φ vm) (absFlow ν φ vm f x) = .ok b) ∨
    (∃ msg, isReferenceActivated f vm = .error (.py "KeyError" msg) vm ∧
      isRefActivated (absVM ν φ vm) (absFlow ν φ vm f x) = .error .key) := by
  unfold isReferenceActivated
  simp only [bind, EStateM.bind, getInstX_run_some f vm x hx]
  unfold isRefActivated
  cases hp : x.parentUid with
  | none =>
    left
    refine ⟨false, rfl, ?_⟩
    simp only [absFlow, hp, Option.map_none]
    split <;> rfl
  | some p =>
    by_cases hact : x.activated > 0
    · have hact' : (absFlow ν φ vm f x).activated > 0 := by
        simp only [absFlow]; omega
      simp only [hact, hact', if_true, bind_getInstX?]
      have hpar : (absFlow ν φ vm f x).parent = some (ν p) := by simp [absFlow, hp]
      rw [hpar]
      simp only [absVM_flows ν φ hν]
      cases hpx : OMap.lookup p vm.r.fx with
      | none =>
        right
        exact ⟨_, rfl, rfl⟩
      | some px =>
        left
        refine ⟨decide (x.flowId ≠ px.flowId), rfl, ?_⟩
        simp only [Option.map_some, absFlow]
        congr 1
        by_cases e : x.flowId = px.flowId
        · simp [e]
        · have : φ x.flowId ≠ φ px.flowId := fun h => e (hφ h)
          simp [e, this]
    · left
      have hact' : ¬ (absFlow ν φ vm f x).activated > 0 := by
        simp only [absFlow]; omega
      simp only [hact, hact', if_false]
      exact ⟨false, rfl, rfl⟩

theorem isChildActivated_refines (hν : Function.Injective ν) (hφ : Function.Injective φ) (f : FUid) (vm : VM) (x : InstX)
    (hx : OMap.lookup f vm.r.fx = some x) :
    CoreVM.isChildActivated f vm = .ok (Lifetime.isChildActivated (absVM ν φ vm) (absFlow ν φ vm f x)) vm := by
  unfold CoreVM.isChildActivated
  simp only [bind, EStateM.bind, getInstX_run_some f vm x hx]
  unfold Lifetime.isChildActivated
  cases hp : x.parentUid with
  | none =>
    simp only [absFlow, hp, Option.map_none, Bool.and_false]
    rfl
  | some p =>
    have hpar : (absFlow ν φ vm f x).parent = some (ν p) := by simp [absFlow, hp]
    rw [hpar]
    simp only [absVM_flows ν φ hν]
    by_cases hact : x.activated > 0
    · have hact' : (absFlow ν φ vm f x).activated > 0 := by
        simp only [absFlow]; omega
      simp only [hact, if_true, bind_getInstX?, hact', decide_true, Bool.true_and]
      cases hpx : OMap.lookup p vm.r.fx with
      | none => rfl
      | some px =>
        simp only [Option.map_some, absFlow]
        by_cases e : x.flowId = px.flowId
        · simp [e]; rfl
        · have hne : (φ x.flowId == φ px.flowId) = false := by
            simp only [beq_eq_false_iff_ne, ne_eq]; exact fun h => e (hφ h)
          simp only [e, decide_false, hne]; rfl
    · have hact' : ¬ (absFlow ν φ vm f x).activated > 0 := by
        simp only [absFlow]; omega
      simp only [hact, if_false, hact', decide_false, Bool.false_and]
      rfl

/-! ### record updates: `modInstX ↦ modFlow` -/

theorem lookup_modify {α : Type} (f k : String) (g : α → α) : ∀ (l : List (String × α)),
    OMap.lookup k (OMap.modify f g l) = if k = f then (OMap.lookup k l).map g else OMap.lookup k l
  | [] => by simp [OMap.lookup, OMap.modify]
  | (k', v) :: rest => by
    simp only [OMap.modify]
    by_cases h1 : k' = f
    · subst h1
      simp only [if_true, OMap.lookup]
      by_cases h2 : k' = k
      · subst h2; simp
      · have h3 : ¬ k = k' := fun e => h2 e.symm
        simp only [h2, h3, if_false]
        have := lookup_modify k' k g rest
        simp only [h3, if_false] at this
        exact this
    · simp only [h1, if_false, OMap.lookup]
      by_cases h2 : k' = k
      · subst h2
        simp [h1]
      · simp only [h2, if_false]
        exact lookup_modify f k g rest

theorem keys_modify {α : Type} (ν : String → Nat) (f : String) (g : α → α) : ∀ (l : List (String × α)),
    (OMap.modify f g l).map (fun e => ν e.1) = l.map (fun e => ν e.1)
  | [] => rfl
  | (k', v) :: rest => by
    simp only [OMap.modify]
    split <;> simp [keys_modify ν f g rest]

/-- the state after `modInstX f g` -/
def vmMod (vm : VM) (f : FUid) (g : InstX → InstX) : VM := { vm with r := { vm.r with fx := OMap.modify f g vm.r.fx } }

theorem modInstX_run (f : FUid) (g : InstX → InstX) (vm : VM) : modInstX f g vm = .ok () (vmMod vm f g) := rfl

/-- a record update of the non-index part whose abstraction is the record update `g'`: `modInstX f g` IS `modFlow (ν f) g'`
    on the abstract state (`ν` ranges over ALL uids here, so it must be injective on them) -/
theorem modInstX_refines (hν : Function.Injective ν) (f : FUid) (g : InstX → InstX) (g' : Flow → Flow) (vm : VM)
    (hg : ∀ (u : FUid) (x : InstX), absFlow ν φ (vmMod vm f g) u (g x) = g' (absFlow ν φ vm u x))
    (hother : ∀ (u : FUid) (x : InstX), absFlow ν φ (vmMod vm f g) u x = absFlow ν φ vm u x) :
    (absVM ν φ (vmMod vm f g)).flows = (modFlow (absVM ν φ vm) (ν f) g').flows ∧
    (absVM ν φ (vmMod vm f g)).order = (absVM ν φ vm).order ∧
    (absVM ν φ (vmMod vm f g)).actions = (absVM ν φ vm).actions := by
  refine ⟨?_, ?_, rfl⟩
  · funext n
    -- every Nat is either the number of some uid in the table or of none
    by_cases hn : ∃ k, ν k = n
    · obtain ⟨k, rfl⟩ := hn
      rw [absVM_flows ν φ hν]
      have hl : OMap.lookup k (vmMod vm f g).r.fx = if k = f then (OMap.lookup k vm.r.fx).map g else OMap.lookup k vm.r.fx :=
        lookup_modify f k g vm.r.fx
      rw [hl]
      by_cases hkf : k = f
      · subst hkf
        simp only [if_true]
        cases hx : OMap.lookup k vm.r.fx with
        | none =>
          have : (absVM ν φ vm).flows (ν k) = none := by rw [absVM_flows ν φ hν, hx]; rfl
          rw [modFlow_none _ _ _ this, this]; rfl
        | some x =>
          have : (absVM ν φ vm).flows (ν k) = some (absFlow ν φ vm k x) := by rw [absVM_flows ν φ hν, hx]; rfl
          rw [modFlow_some _ _ _ _ this, setFlow_flows_same]
          simp only [Option.map_some]
          rw [hg]
      · simp only [hkf, if_false]
        have hne : ν k ≠ ν f := fun e => hkf (hν e)
        rw [modFlow_flows_ne _ _ _ _ hne, absVM_flows ν φ hν]
        cases hx : OMap.lookup k vm.r.fx with
        | none => rfl
        | some x => simp only [Option.map_some]; rw [hother]
    · -- no uid has this number: no record on either side
      have hnone : ∀ (vm' : VM), (absVM ν φ vm').flows n = none := by
        intro vm'
        simp only [absVM]
        rw [List.find?_eq_none.2 (fun e _ => by simpa using fun h => hn ⟨e.1, h⟩)]
        rfl
      rw [hnone]
      have hne : n ≠ ν f := fun e => hn ⟨f, e.symm⟩
      rw [modFlow_flows_ne _ _ _ _ hne, hnone]
  · simp only [absVM, vmMod]
    exact keys_modify ν f g vm.r.fx

/-- `flow_state.activated = flow_state.activated - 1` (reference-count decrement of the deactivation block) -/
theorem decr_refines (hν : Function.Injective ν) (f : FUid) (vm : VM) (hpos : ∀ x, OMap.lookup f vm.r.fx = some x → 0 < x.activated) :
    (absVM ν φ (vmMod vm f fun x => { x with activated := x.activated - 1 })).flows (ν f) =
      ((absVM ν φ vm).flows (ν f)).map fun fl => { fl with activated := fl.activated - 1 } := by
  rw [absVM_flows ν φ hν, absVM_flows ν φ hν]
  have hl := lookup_modify f f (fun x : InstX => { x with activated := x.activated - 1 }) vm.r.fx
  simp only [if_true] at hl
  show (OMap.lookup f (OMap.modify f _ vm.r.fx)).map _ = _
  rw [hl]
  cases hx : OMap.lookup f vm.r.fx with
  | none => rfl
  | some x =>
    have := hpos x hx
    simp only [Option.map_some, absFlow, vmMod]
    congr 2
    omega

/-- `flow_state.new_instance_started = True` -/
theorem nis_refines (hν : Function.Injective ν) (f : FUid) (vm : VM) :
    (absVM ν φ (vmMod vm f fun x => { x with newInstanceStarted := true })).flows (ν f) =
      ((absVM ν φ vm).flows (ν f)).map fun fl => { fl with nis := true } := by
  rw [absVM_flows ν φ hν, absVM_flows ν φ hν]
  have hl := lookup_modify f f (fun x : InstX => { x with newInstanceStarted := true }) vm.r.fx
  simp only [if_true] at hl
  show (OMap.lookup f (OMap.modify f _ vm.r.fx)).map _ = _
  rw [hl]
  cases hx : OMap.lookup f vm.r.fx with
  | none => rfl
  | some x => rfl

theorem absFlow_vmMod (vm : VM) (f : FUid) (g : InstX → InstX) (u : FUid) (x : InstX) :
    absFlow ν φ (vmMod vm f g) u x = absFlow ν φ vm u x := rfl

/-- the three record updates of the deactivation block / the restart guard, as `modFlow` steps of the abstract state -/
theorem decr_is_modFlow (hν : Function.Injective ν) (f : FUid) (vm : VM) :
    (absVM ν φ (vmMod vm f fun x => { x with activated := x.activated - 1 })).flows =
      (modFlow (absVM ν φ vm) (ν f) fun fl => { fl with activated := fl.activated - 1 }).flows :=
  (modInstX_refines ν φ hν f _ _ vm (fun u x => by
      rw [absFlow_vmMod]; simp only [absFlow]; congr 1; omega) (fun u x => absFlow_vmMod ν φ vm f _ u x)).1

theorem zero_is_modFlow (hν : Function.Injective ν) (f : FUid) (vm : VM) :
    (absVM ν φ (vmMod vm f fun x => { x with activated := 0 })).flows =
      (modFlow (absVM ν φ vm) (ν f) fun fl => { fl with activated := 0 }).flows :=
  (modInstX_refines ν φ hν f _ _ vm (fun u x => by rw [absFlow_vmMod]; rfl) (fun u x => absFlow_vmMod ν φ vm f _ u x)).1

theorem nis_is_modFlow (hν : Function.Injective ν) (f : FUid) (vm : VM) :
    (absVM ν φ (vmMod vm f fun x => { x with newInstanceStarted := true })).flows =
      (modFlow (absVM ν φ vm) (ν f) fun fl => { fl with nis := true }).flows :=
  (modInstX_refines ν φ hν f _ _ vm (fun u x => by rw [absFlow_vmMod]; rfl) (fun u x => absFlow_vmMod ν φ vm f _ u x)).1

/-- `child_flow_uids.remove(f)` of the parent (`listRemoveFirst` is `List.erase` under an injective numbering) -/
theorem listRemoveFirst_map (hν : Function.Injective ν) (f : String) : ∀ (l : List String),
    (listRemoveFirst f l).map ν = (l.map ν).erase (ν f)
  | [] => rfl
  | y :: l => by
    simp only [listRemoveFirst, List.map_cons]
    by_cases h : y = f
    · subst h; simp
    · have hne : ν y ≠ ν f := fun e => h (hν e)
      have hne' : ¬ y = f := h
      simp only [hne', if_false, List.map_cons, List.erase_cons, beq_iff_eq, hne]
      rw [listRemoveFirst_map hν f l]

theorem unlink_is_modFlow (hν : Function.Injective ν) (p f : FUid) (vm : VM) :
    (absVM ν φ (vmMod vm p fun y => { y with childFlowUids := listRemoveFirst f y.childFlowUids })).flows =
      (modFlow (absVM ν φ vm) (ν p) fun pf => { pf with children := pf.children.erase (ν f) }).flows :=
  (modInstX_refines ν φ hν p _ _ vm (fun u x => by
      rw [absFlow_vmMod]; simp only [absFlow]; congr 1; exact listRemoveFirst_map ν hν f _)
    (fun u x => absFlow_vmMod ν φ vm p _ u x)).1

end NemoVerif.Lifetime.Refine
