/-
  C06, goal 4 (refinement `CoreVM → Lifetime`), first layer.

  `absVM ν φ : CoreVM.VM → Lifetime.State` — the abstraction function (uids, action uids and scope names through a
  numbering `ν`, flow ids through `φ`; the flow status and the number of heads are read from the index component,
  contexts / payloads / the dispatch maps are dropped; queue and outgoing events are NOT abstracted here).
  Refinement lemmas, function by function (each: the CoreVM monadic program, run on `vm`, answers what the `Lifetime`
  function answers on `absVM vm`, and changes the state as the `Lifetime` function does):
    look-ups, `modInstX ↦ modFlow`, `isReferenceActivated ↦ isRefActivated` (incl. the KeyError case),
    `isChildActivated ↦ isChildActivated`, the `new_instance_started` mark, the reference-count decrement.
  NOT reached: the action loop (`releaseAction ↦ stopAction1` needs the substring tests of `generateUmimEvent` on
  `"Stop" ++ name`), the remove-from-parent block, `restartActivated` (event payloads), the `for` loops and the
  recursion of `abortFlow` / `finishFlow`, `EndScope`, StartFlow processing; see design_notes/C06.md.
-/
import NemoVerif.Models.CoreVM.Run
import NemoVerif.Lemmas.LifetimeGen
namespace NemoVerif.Lifetime.Refine
open NemoVerif NemoVerif.CoreVM NemoVerif.CoreIndex NemoVerif.Lifetime

variable (ν : String → Nat) (φ : String → Nat)

def absStatus : FlowStatus → FStatus
  | .waiting => .waiting | .starting => .starting | .started => .started
  | .stopping => .stopping | .stopped => .stopped | .finished => .finished

def absAStatus : ActStatus → AStatus
  | .initialized => .initialized | .starting => .starting | .started => .started
  | .stopping => .stopping | .finished => .finished

theorem absStatus_listening (st : FlowStatus) : (absStatus st).listening = st.listening := by
  cases st <;> rfl

/-- the abstract record of instance `uid` with non-index part `x` -/
def absFlow (vm : VM) (uid : FUid) (x : InstX) : Flow :=
  { flowId := φ x.flowId, parent := x.parentUid.map ν, children := x.childFlowUids.map ν,
    status := match findInst vm.ixs.ix uid with | some i => absStatus i.status | none => .stopped,
    activated := x.activated.toNat, nis := x.newInstanceStarted, actionUids := x.actionUids.map ν,
    scopes := x.scopes.map fun e => (ν e.1, e.2.1.map ν, e.2.2.map ν),
    heads := match findInst vm.ixs.ix uid with | some i => i.heads.length | none => 0,
    isMain := x.flowId == "main" }

/-- the abstraction function (queue / outgoing events not abstracted: empty) -/
def absVM (vm : VM) : State :=
  { flows := fun n => (vm.r.fx.find? fun e => ν e.1 = n).map fun e => absFlow ν φ vm e.1 e.2,
    actions := fun n => (vm.r.actions.find? fun e => ν e.1 = n).map fun e => ⟨absAStatus e.2.status, e.2.scopeCount⟩,
    order := vm.r.fx.map fun e => ν e.1,
    queue := [], out := [] }

/-! ### look-ups -/

theorem find?_lookup {α : Type} (hν : Function.Injective ν) (f : String) : ∀ (l : List (String × α)),
    (l.find? fun e => ν e.1 = ν f) = (OMap.lookup f l).map fun v => (f, v)
  | [] => rfl
  | (k, v) :: rest => by
    simp only [List.find?_cons, OMap.lookup]
    by_cases h : k = f
    · subst h; simp
    · have : ¬ ν k = ν f := fun e => h (hν e)
      simp only [this, decide_false, h, if_false]
      exact find?_lookup hν f rest

theorem absVM_flows (hν : Function.Injective ν) (vm : VM) (f : FUid) :
    (absVM ν φ vm).flows (ν f) = (OMap.lookup f vm.r.fx).map (absFlow ν φ vm f) := by
  simp only [absVM, find?_lookup ν hν f vm.r.fx, Option.map_map]
  rfl

theorem getInstX?_run (f : FUid) (vm : VM) : getInstX? f vm = .ok (OMap.lookup f vm.r.fx) vm := rfl

theorem bind_getInstX? {β : Type} (p : FUid) (k : Option InstX → M β) (vm : VM) :
    EStateM.bind (getInstX? p) k vm = k (OMap.lookup p vm.r.fx) vm := rfl

theorem getInstX_run_some (f : FUid) (vm : VM) (x : InstX) (h : OMap.lookup f vm.r.fx = some x) :
    getInstX f vm = .ok x vm := by
  simp only [getInstX, bind, EStateM.bind, getInstX?_run, h]
  rfl

theorem getInstX_run_none (f : FUid) (vm : VM) (h : OMap.lookup f vm.r.fx = none) :
    getInstX f vm = .error (.py "KeyError" f) vm := by
  simp only [getInstX, bind, EStateM.bind, getInstX?_run, h]
  rfl

/-- `state.flow_states[f]`: found ⇔ the abstract state has a record; KeyError ⇔ it has none -/
theorem getInstX_refines (hν : Function.Injective ν) (f : FUid) (vm : VM) :
    (∃ x, getInstX f vm = .ok x vm ∧ (absVM ν φ vm).flows (ν f) = some (absFlow ν φ vm f x)) ∨
    (getInstX f vm = .error (.py "KeyError" f) vm ∧ (absVM ν φ vm).flows (ν f) = none) := by
  cases h : OMap.lookup f vm.r.fx with
  | none => exact Or.inr ⟨getInstX_run_none f vm h, by rw [absVM_flows ν φ hν, h]; rfl⟩
  | some x => exact Or.inl ⟨x, getInstX_run_some f vm x h, by rw [absVM_flows ν φ hν, h]; rfl⟩

/-! ### `_is_reference_activated_flow` / `_is_child_activated_flow` -/

/-- `CoreVM.isReferenceActivated f` answers exactly what `Lifetime.isRefActivated` answers on the abstract state —
    value `b` or KeyError — and does not change the state -/
theorem isReferenceActivated_refines (hν : Function.Injective ν) (hφ : Function.Injective φ) (f : FUid) (vm : VM) (x : InstX)
    (hx : OMap.lookup f vm.r.fx = some x) :
    (∃ b, isReferenceActivated f vm = .ok b vm ∧ isRefActivated (absVM ν φ vm) (absFlow ν φ vm f x) = .ok b) ∨
    (∃ msg, isReferenceActivated f vm = .error (.py "KeyError" msg) vm ∧
      isRefActivated (absVM ν φ vm) (absFlow ν φ vm f x) = .error .key) := by
  unfold isReferenceActivated
  simp only [bind, EStateM.bind, getInstX_run_some f vm x hx]
  unfold isRefActivated
  cases hp : x.parentUid with
  | none =>
    left
    refine ⟨false, rfl, ?_⟩
    simp only [absFlow, hp, Option.map_none]
    split <;> rfl
  | some p =>
    by_cases hact : x.activated > 0
    · have hact' : (absFlow ν φ vm f x).activated > 0 := by
        simp only [absFlow]; omega
      simp only [hact, hact', if_true, bind_getInstX?]
      have hpar : (absFlow ν φ vm f x).parent = some (ν p) := by simp [absFlow, hp]
      rw [hpar]
      simp only [absVM_flows ν φ hν]
      cases hpx : OMap.lookup p vm.r.fx with
      | none =>
        right
        exact ⟨_, rfl, rfl⟩
      | some px =>
        left
        refine ⟨decide (x.flowId ≠ px.flowId), rfl, ?_⟩
        simp only [Option.map_some, absFlow]
        congr 1
        by_cases e : x.flowId = px.flowId
        · simp [e]
        · have : φ x.flowId ≠ φ px.flowId := fun h => e (hφ h)
          simp [e, this]
    · left
      have hact' : ¬ (absFlow ν φ vm f x).activated > 0 := by
        simp only [absFlow]; omega
      simp only [hact, hact', if_false]
      exact ⟨false, rfl, rfl⟩

theorem isChildActivated_refines (hν : Function.Injective ν) (hφ : Function.Injective φ) (f : FUid) (vm : VM) (x : InstX)
    (hx : OMap.lookup f vm.r.fx = some x) :
    CoreVM.isChildActivated f vm = .ok (Lifetime.isChildActivated (absVM ν φ vm) (absFlow ν φ vm f x)) vm := by
  unfold CoreVM.isChildActivated
  simp only [bind, EStateM.bind, getInstX_run_some f vm x hx]
  unfold Lifetime.isChildActivated
  cases hp : x.parentUid with
  | none =>
    simp only [absFlow, hp, Option.map_none, Bool.and_false]
    rfl
  | some p =>
    have hpar : (absFlow ν φ vm f x).parent = some (ν p) := by simp [absFlow, hp]
    rw [hpar]
    simp only [absVM_flows ν φ hν]
    by_cases hact : x.activated > 0
    · have hact' : (absFlow ν φ vm f x).activated > 0 := by
        simp only [absFlow]; omega
      simp only [hact, if_true, bind_getInstX?, hact', decide_true, Bool.true_and]
      cases hpx : OMap.lookup p vm.r.fx with
      | none => rfl
      | some px =>
        simp only [Option.map_some, absFlow]
        by_cases e : x.flowId = px.flowId
        · simp [e]; rfl
        · have hne : (φ x.flowId == φ px.flowId) = false := by
            simp only [beq_eq_false_iff_ne, ne_eq]; exact fun h => e (hφ h)
          simp only [e, decide_false, hne]; rfl
    · have hact' : ¬ (absFlow ν φ vm f x).activated > 0 := by
        simp only [absFlow]; omega
      simp only [hact, if_false, hact', decide_false, Bool.false_and]
      rfl

/-! ### record updates: `modInstX ↦ modFlow` -/

theorem lookup_modify {α : Type} (f k : String) (g : α → α) : ∀ (l : List (String × α)),
    OMap.lookup k (OMap.modify f g l) = if k = f then (OMap.lookup k l).map g else OMap.lookup k l
  | [] => by simp [OMap.lookup, OMap.modify]
  | (k', v) :: rest => by
    simp only [OMap.modify]
    by_cases h1 : k' = f
    · subst h1
      simp only [if_true, OMap.lookup]
      by_cases h2 : k' = k
      · subst h2; simp
      · have h3 : ¬ k = k' := fun e => h2 e.symm
        simp only [h2, h3, if_false]
        have := lookup_modify k' k g rest
        simp only [h3, if_false] at this
        exact this
    · simp only [h1, if_false, OMap.lookup]
      by_cases h2 : k' = k
      · subst h2
        simp [h1]
      · simp only [h2, if_false]
        exact lookup_modify f k g rest

theorem keys_modify {α : Type} (ν : String → Nat) (f : String) (g : α → α) : ∀ (l : List (String × α)),
    (OMap.modify f g l).map (fun e => ν e.1) = l.map (fun e => ν e.1)
  | [] => rfl
  | (k', v) :: rest => by
    simp only [OMap.modify]
    split <;> simp [keys_modify ν f g rest]

/-- the state after `modInstX f g` -/
def vmMod (vm : VM) (f : FUid) (g : InstX → InstX) : VM := { vm with r := { vm.r with fx := OMap.modify f g vm.r.fx } }

theorem modInstX_run (f : FUid) (g : InstX → InstX) (vm : VM) : modInstX f g vm = .ok () (vmMod vm f g) := rfl

/-- a record update of the non-index part whose abstraction is the record update `g'`: `modInstX f g` IS `modFlow (ν f) g'`
    on the abstract state (`ν` ranges over ALL uids here, so it must be injective on them) -/
theorem modInstX_refines (hν : Function.Injective ν) (f : FUid) (g : InstX → InstX) (g' : Flow → Flow) (vm : VM)
    (hg : ∀ (u : FUid) (x : InstX), absFlow ν φ (vmMod vm f g) u (g x) = g' (absFlow ν φ vm u x))
    (hother : ∀ (u : FUid) (x : InstX), absFlow ν φ (vmMod vm f g) u x = absFlow ν φ vm u x) :
    (absVM ν φ (vmMod vm f g)).flows = (modFlow (absVM ν φ vm) (ν f) g').flows ∧
    (absVM ν φ (vmMod vm f g)).order = (absVM ν φ vm).order ∧
    (absVM ν φ (vmMod vm f g)).actions = (absVM ν φ vm).actions := by
  refine ⟨?_, ?_, rfl⟩
  · funext n
    -- every Nat is either the number of some uid in the table or of none
    by_cases hn : ∃ k, ν k = n
    · obtain ⟨k, rfl⟩ := hn
      rw [absVM_flows ν φ hν]
      have hl : OMap.lookup k (vmMod vm f g).r.fx = if k = f then (OMap.lookup k vm.r.fx).map g else OMap.lookup k vm.r.fx :=
        lookup_modify f k g vm.r.fx
      rw [hl]
      by_cases hkf : k = f
      · subst hkf
        simp only [if_true]
        cases hx : OMap.lookup k vm.r.fx with
        | none =>
          have : (absVM ν φ vm).flows (ν k) = none := by rw [absVM_flows ν φ hν, hx]; rfl
          rw [modFlow_none _ _ _ this, this]; rfl
        | some x =>
          have : (absVM ν φ vm).flows (ν k) = some (absFlow ν φ vm k x) := by rw [absVM_flows ν φ hν, hx]; rfl
          rw [modFlow_some _ _ _ _ this, setFlow_flows_same]
          simp only [Option.map_some]
          rw [hg]
      · simp only [hkf, if_false]
        have hne : ν k ≠ ν f := fun e => hkf (hν e)
        rw [modFlow_flows_ne _ _ _ _ hne, absVM_flows ν φ hν]
        cases hx : OMap.lookup k vm.r.fx with
        | none => rfl
        | some x => simp only [Option.map_some]; rw [hother]
    · -- no uid has this number: no record on either side
      have hnone : ∀ (vm' : VM), (absVM ν φ vm').flows n = none := by
        intro vm'
        simp only [absVM]
        rw [List.find?_eq_none.2 (fun e _ => by simpa using fun h => hn ⟨e.1, h⟩)]
        rfl
      rw [hnone]
      have hne : n ≠ ν f := fun e => hn ⟨f, e.symm⟩
      rw [modFlow_flows_ne _ _ _ _ hne, hnone]
  · simp only [absVM, vmMod]
    exact keys_modify ν f g vm.r.fx

/-- `flow_state.activated = flow_state.activated - 1` (reference-count decrement of the deactivation block) -/
theorem decr_refines (hν : Function.Injective ν) (f : FUid) (vm : VM) (hpos : ∀ x, OMap.lookup f vm.r.fx = some x → 0 < x.activated) :
    (absVM ν φ (vmMod vm f fun x => { x with activated := x.activated - 1 })).flows (ν f) =
      ((absVM ν φ vm).flows (ν f)).map fun fl => { fl with activated := fl.activated - 1 } := by
  rw [absVM_flows ν φ hν, absVM_flows ν φ hν]
  have hl := lookup_modify f f (fun x : InstX => { x with activated := x.activated - 1 }) vm.r.fx
  simp only [if_true] at hl
  show (OMap.lookup f (OMap.modify f _ vm.r.fx)).map _ = _
  rw [hl]
  cases hx : OMap.lookup f vm.r.fx with
  | none => rfl
  | some x =>
    have := hpos x hx
    simp only [Option.map_some, absFlow, vmMod]
    congr 2
    omega

/-- `flow_state.new_instance_started = True` -/
theorem nis_refines (hν : Function.Injective ν) (f : FUid) (vm : VM) :
    (absVM ν φ (vmMod vm f fun x => { x with newInstanceStarted := true })).flows (ν f) =
      ((absVM ν φ vm).flows (ν f)).map fun fl => { fl with nis := true } := by
  rw [absVM_flows ν φ hν, absVM_flows ν φ hν]
  have hl := lookup_modify f f (fun x : InstX => { x with newInstanceStarted := true }) vm.r.fx
  simp only [if_true] at hl
  show (OMap.lookup f (OMap.modify f _ vm.r.fx)).map _ = _
  rw [hl]
  cases hx : OMap.lookup f vm.r.fx with
  | none => rfl
  | some x => rfl

theorem absFlow_vmMod (vm : VM) (f : FUid) (g : InstX → InstX) (u : FUid) (x : InstX) :
    absFlow ν φ (vmMod vm f g) u x = absFlow ν φ vm u x := rfl

/-- the three record updates of the deactivation block / the restart guard, as `modFlow` steps of the abstract state -/
theorem decr_is_modFlow (hν : Function.Injective ν) (f : FUid) (vm : VM) :
    (absVM ν φ (vmMod vm f fun x => { x with activated := x.activated - 1 })).flows =
      (modFlow (absVM ν φ vm) (ν f) fun fl => { fl with activated := fl.activated - 1 }).flows :=
  (modInstX_refines ν φ hν f _ _ vm (fun u x => by
      rw [absFlow_vmMod]; simp only [absFlow]; congr 1; omega) (fun u x => absFlow_vmMod ν φ vm f _ u x)).1

theorem zero_is_modFlow (hν : Function.Injective ν) (f : FUid) (vm : VM) :
    (absVM ν φ (vmMod vm f fun x => { x with activated := 0 })).flows =
      (modFlow (absVM ν φ vm) (ν f) fun fl => { fl with activated := 0 }).flows :=
  (modInstX_refines ν φ hν f _ _ vm (fun u x => by rw [absFlow_vmMod]; rfl) (fun u x => absFlow_vmMod ν φ vm f _ u x)).1

theorem nis_is_modFlow (hν : Function.Injective ν) (f : FUid) (vm : VM) :
    (absVM ν φ (vmMod vm f fun x => { x with newInstanceStarted := true })).flows =
      (modFlow (absVM ν φ vm) (ν f) fun fl => { fl with nis := true }).flows :=
  (modInstX_refines ν φ hν f _ _ vm (fun u x => by rw [absFlow_vmMod]; rfl) (fun u x => absFlow_vmMod ν φ vm f _ u x)).1

/-- `child_flow_uids.remove(f)` of the parent (`listRemoveFirst` is `List.erase` under an injective numbering) -/
theorem listRemoveFirst_map (hν : Function.Injective ν) (f : String) : ∀ (l : List String),
    (listRemoveFirst f l).map ν = (l.map ν).erase (ν f)
  | [] => rfl
  | y :: l => by
    simp only [listRemoveFirst, List.map_cons]
    by_cases h : y = f
    · subst h; simp
    · have hne : ν y ≠ ν f := fun e => h (hν e)
      have hne' : ¬ y = f := h
      simp only [hne', if_false, List.map_cons, List.erase_cons, beq_iff_eq, hne]
      rw [listRemoveFirst_map hν f l]

theorem unlink_is_modFlow (hν : Function.Injective ν) (p f : FUid) (vm : VM) :
    (absVM ν φ (vmMod vm p fun y => { y with childFlowUids := listRemoveFirst f y.childFlowUids })).flows =
      (modFlow (absVM ν φ vm) (ν p) fun pf => { pf with children := pf.children.erase (ν f) }).flows :=
  (modInstX_refines ν φ hν p _ _ vm (fun u x => by
      rw [absFlow_vmMod]; simp only [absFlow]; congr 1; exact listRemoveFirst_map ν hν f _)
    (fun u x => absFlow_vmMod ν φ vm p _ u x)).1

/-! ### actions: `Action.process_event`, `state.actions[..]` -/

def absAct (a : CoreVM.Action) : Lifetime.Action := ⟨absAStatus a.status, a.scopeCount⟩

/-- what `Lifetime.processEvent` reads of an event: the six substring tests and the action uid -/
def absEv (e : Match.Ev) : AEv :=
  { uid := ν (e.actionUid.getD ""), isAction := hasSub e.name "Action" && e.actionUid.isSome,
    started := hasSub e.name "ActionStarted", updated := hasSub e.name "ActionUpdated",
    finished := hasSub e.name "ActionFinished", start := hasSub e.name "Start", stop := hasSub e.name "Stop" }

theorem processEvent_refines (hν : Function.Injective ν) (a : CoreVM.Action) (e : Match.Ev) :
    absAct (a.processEvent e) = Lifetime.processEvent (absAct a) (ν a.uid) (absEv ν e) := by
  unfold CoreVM.Action.processEvent Lifetime.processEvent
  have hcond : (hasSub e.name "Action" && decide (e.actionUid = some a.uid)) =
      ((absEv ν e).isAction && (absEv ν e).uid == ν a.uid) := by
    simp only [absEv]
    cases hu : e.actionUid with
    | none => simp
    | some u =>
      simp only [Option.isSome_some, Bool.and_true, Option.getD_some, Option.some.injEq]
      by_cases h : u = a.uid
      · subst h; simp
      · have : ν u ≠ ν a.uid := fun e' => h (hν e')
        simp [h, this]
  rw [← hcond]
  by_cases hc : (hasSub e.name "Action" && decide (e.actionUid = some a.uid)) = true
  · simp only [hc, if_true, absEv]
    by_cases h1 : hasSub e.name "ActionStarted" = true
    · simp only [h1, if_true]; rfl
    · simp only [h1, if_false]
      by_cases h2 : hasSub e.name "ActionUpdated" = true
      · simp only [h2, if_true]; rfl
      · simp only [h2, if_false]
        by_cases h3 : hasSub e.name "ActionFinished" = true
        · simp only [h3, if_true]; rfl
        · simp only [h3, if_false]
          by_cases h4 : hasSub e.name "Start" = true
          · simp only [h4, if_true]; rfl
          · simp only [h4, if_false]
            by_cases h5 : hasSub e.name "Stop" = true
            · simp only [h5, if_true]; rfl
            · simp only [h5, Bool.false_eq_true, if_false]
  · simp only [hc, Bool.false_eq_true, if_false]

theorem absVM_actions (hν : Function.Injective ν) (vm : VM) (au : String) :
    (absVM ν φ vm).actions (ν au) = (OMap.lookup au vm.r.actions).map absAct := by
  simp only [absVM, find?_lookup ν hν au vm.r.actions, Option.map_map]
  rfl

theorem lookup_insert_same {α : Type} (k : String) (v : α) : ∀ (l : List (String × α)), OMap.lookup k (OMap.insert k v l) = some v
  | [] => by simp [OMap.lookup, OMap.insert]
  | (k', v') :: rest => by
    simp only [OMap.insert]
    by_cases h : k' = k
    · simp [h, OMap.lookup]
    · simp only [h, if_false, OMap.lookup]
      exact lookup_insert_same k v rest

theorem lookup_insert_ne {α : Type} (k k2 : String) (v : α) (h : k2 ≠ k) : ∀ (l : List (String × α)),
    OMap.lookup k2 (OMap.insert k v l) = OMap.lookup k2 l
  | [] => by
    have : ¬ k = k2 := fun e => h e.symm
    simp [OMap.lookup, OMap.insert, this]
  | (k', v') :: rest => by
    simp only [OMap.insert]
    by_cases h1 : k' = k
    · subst h1
      have : ¬ k' = k2 := fun e => h e.symm
      simp [OMap.lookup, this]
    · simp only [h1, if_false, OMap.lookup]
      by_cases h2 : k' = k2
      · simp [h2]
      · simp only [h2, if_false]
        exact lookup_insert_ne k k2 v h rest

/-- the action table is keyed by the uid field -/
def WFA (vm : VM) : Prop := ∀ k a, OMap.lookup k vm.r.actions = some a → a.uid = k

/-- the state after `setAction a` -/
def vmSetAction (vm : VM) (a : CoreVM.Action) : VM := { vm with r := { vm.r with actions := OMap.insert a.uid a vm.r.actions } }

theorem setAction_run (a : CoreVM.Action) (vm : VM) : CoreVM.setAction a vm = .ok () (vmSetAction vm a) := rfl

theorem vmSetAction_wfa (vm : VM) (a : CoreVM.Action) (h : WFA vm) : WFA (vmSetAction vm a) := by
  intro k x hx
  simp only [vmSetAction] at hx
  by_cases hk : k = a.uid
  · subst hk; rw [lookup_insert_same] at hx; cases hx; rfl
  · rw [lookup_insert_ne a.uid k a hk] at hx; exact h k x hx

/-- `state.actions[a.uid] = a'` IS `Lifetime.setAction (ν uid) (abs a')` on the abstract state -/
theorem setAction_refines (hν : Function.Injective ν) (vm : VM) (a : CoreVM.Action) :
    (absVM ν φ (vmSetAction vm a)).actions = (Lifetime.setAction (absVM ν φ vm) (ν a.uid) (absAct a)).actions := by
  funext n
  by_cases hn : ∃ k, ν k = n
  · obtain ⟨k, rfl⟩ := hn
    rw [absVM_actions ν φ hν, setAction_actions]
    by_cases hk : k = a.uid
    · subst hk
      simp only [vmSetAction, lookup_insert_same, if_true, Option.map_some]
    · have hne : ν k ≠ ν a.uid := fun e => hk (hν e)
      simp only [vmSetAction, lookup_insert_ne a.uid k a hk, hne, if_false]
      rw [absVM_actions ν φ hν]
  · have hnone : ∀ (vm' : VM), (absVM ν φ vm').actions n = none := by
      intro vm'
      simp only [absVM]
      rw [List.find?_eq_none.2 (fun e _ => by simpa using fun h => hn ⟨e.1, h⟩)]
      rfl
    have hne : n ≠ ν a.uid := fun e => hn ⟨a.uid, e.symm⟩
    rw [hnone, setAction_actions]
    simp only [hne, if_false]
    rw [hnone]

/-! ### `_update_action_status_by_event`: the first complete function (two nested `for` loops) -/

theorem state_ext {s t : State} (h1 : s.flows = t.flows) (h2 : s.actions = t.actions) (h3 : s.order = t.order)
    (h4 : s.queue = t.queue) (h5 : s.out = t.out) (h6 : s.busy = t.busy) : s = t := by
  cases s; cases t; simp_all

/-- body of the inner loop (over `flow_state.action_uids`) -/
def innerStep (e : Match.Ev) (au : String) (_ : PUnit) : M (ForInStep PUnit) := do
  let r ← getAction? au
  match r with
  | some a =>
    if (a.status != ActStatus.finished) = true then do
      CoreVM.setAction (a.processEvent e)
      pure (ForInStep.yield PUnit.unit)
    else pure (ForInStep.yield PUnit.unit)
  | none => pure (ForInStep.yield PUnit.unit)

/-- body of the outer loop (over `state.flow_states.values()`) -/
def outerStep (e : Match.Ev) (i : Inst) (_ : PUnit) : M (ForInStep PUnit) :=
  if i.status.listening = true then do
    let x ← getInstX i.uid
    forIn x.actionUids PUnit.unit (innerStep e)
    pure (ForInStep.yield PUnit.unit)
  else pure (ForInStep.yield PUnit.unit)

theorem update_unfold (e : Match.Ev) :
    CoreVM.updateActionStatusByEvent e = (do let ix ← getIx; forIn ix.insts PUnit.unit (outerStep e); pure ()) := rfl

/-- the state after one iteration of the inner loop -/
def innerNext (e : Match.Ev) (au : String) (vm : VM) : VM :=
  match OMap.lookup au vm.r.actions with
  | some a => if (a.status != ActStatus.finished) = true then vmSetAction vm (a.processEvent e) else vm
  | none => vm

theorem innerStep_run (e : Match.Ev) (au : String) (vm : VM) :
    innerStep e au PUnit.unit vm = .ok (ForInStep.yield PUnit.unit) (innerNext e au vm) := by
  unfold innerStep innerNext
  simp only [bind, EStateM.bind]
  have : getAction? au vm = .ok (OMap.lookup au vm.r.actions) vm := rfl
  rw [this]
  cases h : OMap.lookup au vm.r.actions with
  | none => rfl
  | some a =>
    simp only
    by_cases hs : (a.status != ActStatus.finished) = true
    · simp only [hs, if_true, EStateM.bind, setAction_run]; rfl
    · simp only [hs, if_false]; rfl

theorem processEvent_uid (a : CoreVM.Action) (e : Match.Ev) : (a.processEvent e).uid = a.uid := by
  unfold CoreVM.Action.processEvent
  split
  · split
    · rfl
    · split
      · rfl
      · split
        · rfl
        · split
          · rfl
          · split <;> rfl
  · rfl

theorem absAStatus_finished (st : ActStatus) : (absAStatus st != AStatus.finished) = (st != ActStatus.finished) := by
  cases st <;> rfl

theorem innerNext_frame (e : Match.Ev) (au : String) (vm : VM) :
    (innerNext e au vm).ixs = vm.ixs ∧ (innerNext e au vm).r.fx = vm.r.fx := by
  unfold innerNext
  split
  · split
    · exact ⟨rfl, rfl⟩
    · exact ⟨rfl, rfl⟩
  · exact ⟨rfl, rfl⟩

theorem innerNext_wfa (e : Match.Ev) (au : String) (vm : VM) (h : WFA vm) : WFA (innerNext e au vm) := by
  unfold innerNext
  split
  · split
    · exact vmSetAction_wfa vm _ h
    · exact h
  · exact h

/-- one iteration of the inner loop IS one iteration of `updActs` on the abstract state -/
theorem innerNext_refines (hν : Function.Injective ν) (e : Match.Ev) (au : String) (as : List Nat) (vm : VM) (hw : WFA vm) :
    updActs (absEv ν e) (absVM ν φ vm) (ν au :: as) = updActs (absEv ν e) (absVM ν φ (innerNext e au vm)) as := by
  simp only [updActs, absVM_actions ν φ hν]
  unfold innerNext
  cases h : OMap.lookup au vm.r.actions with
  | none => rfl
  | some a =>
    have huid : a.uid = au := hw au a h
    simp only [Option.map_some, absAct, absAStatus_finished]
    by_cases hs : (a.status != ActStatus.finished) = true
    · simp only [hs, if_true]
      congr 1
      apply state_ext
      · rfl
      · rw [setAction_refines ν φ hν, processEvent_uid, huid]
        have := processEvent_refines ν hν a e
        rw [huid] at this
        rw [this]; rfl
      · rfl
      · rfl
      · rfl
      · rfl
    · simp only [hs, Bool.false_eq_true, if_false]

theorem inner_loop (hν : Function.Injective ν) (e : Match.Ev) : ∀ (l : List String) (vm : VM), WFA vm →
    ∃ vm', forIn l PUnit.unit (innerStep e) vm = .ok PUnit.unit vm' ∧ WFA vm' ∧ vm'.ixs = vm.ixs ∧ vm'.r.fx = vm.r.fx ∧
      absVM ν φ vm' = updActs (absEv ν e) (absVM ν φ vm) (l.map ν)
  | [], vm, hw => ⟨vm, rfl, hw, rfl, rfl, rfl⟩
  | au :: l, vm, hw => by
    obtain ⟨vm', h1, h2, h3, h4, h5⟩ := inner_loop hν e l (innerNext e au vm) (innerNext_wfa e au vm hw)
    refine ⟨vm', ?_, h2, h3.trans (innerNext_frame e au vm).1, h4.trans (innerNext_frame e au vm).2, ?_⟩
    · rw [List.forIn_cons]
      simp only [bind, EStateM.bind, innerStep_run]
      exact h1
    · rw [h5, List.map_cons, innerNext_refines ν φ hν e au _ vm hw]

/-- the state after one iteration of the outer loop exists and is one iteration of `updFlows` on the abstract state -/
theorem outer_iter (hν : Function.Injective ν) (e : Match.Ev) (i : Inst) (us : List Nat) (vm : VM) (hw : WFA vm)
    (hi : findInst vm.ixs.ix i.uid = some i) (hx : ∃ x, OMap.lookup i.uid vm.r.fx = some x) :
    ∃ vm1, outerStep e i PUnit.unit vm = .ok (ForInStep.yield PUnit.unit) vm1 ∧ WFA vm1 ∧ vm1.ixs = vm.ixs ∧ vm1.r.fx = vm.r.fx ∧
      updFlows (absEv ν e) (absVM ν φ vm) (ν i.uid :: us) = updFlows (absEv ν e) (absVM ν φ vm1) us := by
  obtain ⟨x, hx⟩ := hx
  have hfl : (absVM ν φ vm).flows (ν i.uid) = some (absFlow ν φ vm i.uid x) := by
    rw [absVM_flows ν φ hν, hx]; rfl
  have hst : (absFlow ν φ vm i.uid x).status.listening = i.status.listening := by
    simp only [absFlow, hi, absStatus_listening]
  unfold outerStep
  simp only [updFlows, hfl, hst]
  by_cases hl : i.status.listening = true
  · simp only [hl, if_true, bind, EStateM.bind, getInstX_run_some i.uid vm x hx]
    obtain ⟨vm', h1, h2, h3, h4, h5⟩ := inner_loop ν φ hν e x.actionUids vm hw
    refine ⟨vm', ?_, h2, h3, h4, ?_⟩
    · rw [h1]; rfl
    · rw [h5]; rfl
  · simp only [hl, if_false]
    exact ⟨vm, rfl, hw, rfl, rfl, rfl⟩

theorem outer_loop (hν : Function.Injective ν) (e : Match.Ev) : ∀ (is : List Inst) (vm : VM), WFA vm →
    (∀ i, i ∈ is → findInst vm.ixs.ix i.uid = some i ∧ ∃ x, OMap.lookup i.uid vm.r.fx = some x) →
    ∃ vm', forIn is PUnit.unit (outerStep e) vm = .ok PUnit.unit vm' ∧ WFA vm' ∧ vm'.ixs = vm.ixs ∧ vm'.r.fx = vm.r.fx ∧
      absVM ν φ vm' = updFlows (absEv ν e) (absVM ν φ vm) (is.map fun i => ν i.uid)
  | [], vm, hw, _ => ⟨vm, rfl, hw, rfl, rfl, rfl⟩
  | i :: is, vm, hw, hall => by
    obtain ⟨hi, hx⟩ := hall i (List.mem_cons_self ..)
    obtain ⟨vm1, r1, w1, f1, g1, e1⟩ := outer_iter ν φ hν e i (is.map fun i => ν i.uid) vm hw hi hx
    obtain ⟨vm', r2, w2, f2, g2, e2⟩ := outer_loop hν e is vm1 w1 (fun j hj => by
      obtain ⟨a, b⟩ := hall j (List.mem_cons_of_mem _ hj)
      rw [f1, g1]; exact ⟨a, b⟩)
    refine ⟨vm', ?_, w2, f2.trans f1, g2.trans g1, ?_⟩
    · rw [List.forIn_cons]
      simp only [bind, EStateM.bind]
      rw [r1]
      exact r2
    · rw [e2, List.map_cons, e1]

/-- the index instances are the entries of `flow_states`, in the same order, without duplicate uids -/
def WFI (vm : VM) : Prop :=
  vm.ixs.ix.insts.map (·.uid) = vm.r.fx.map (·.1) ∧ (vm.ixs.ix.insts.map (·.uid)).Nodup

theorem find?_of_nodup : ∀ (l : List Inst), (l.map (·.uid)).Nodup → ∀ i, i ∈ l → l.find? (·.uid = i.uid) = some i
  | [], _, _, h => by cases h
  | j :: l, hn, i, hi => by
    rw [List.map_cons, List.nodup_cons] at hn
    simp only [List.find?_cons]
    by_cases hji : j.uid = i.uid
    · simp only [hji, decide_true]
      cases hi with
      | head => rfl
      | tail _ h' =>
        exfalso
        apply hn.1
        rw [hji]
        exact List.mem_map_of_mem (f := (·.uid)) h'
    · simp only [hji, decide_false]
      cases hi with
      | head => exact absurd rfl hji
      | tail _ h' => exact find?_of_nodup l hn.2 i h'

theorem lookup_isSome_of_mem {α : Type} (k : String) : ∀ (l : List (String × α)), k ∈ l.map (·.1) → ∃ x, OMap.lookup k l = some x
  | [], h => by cases h
  | (k', v) :: rest, h => by
    simp only [OMap.lookup]
    by_cases hk : k' = k
    · exact ⟨v, by simp [hk]⟩
    · simp only [hk, if_false]
      apply lookup_isSome_of_mem k rest
      simp only [List.map_cons, List.mem_cons] at h
      rcases h with h | h
      · exact absurd h.symm hk
      · exact h

/-- **`corevm_update_is_op`**: `CoreVM.updateActionStatusByEvent e` terminates normally and IS
    `Lifetime.updateActionStatusByEvent` (the operation `.event` / the inner step of `startAction` and of the Stop echo)
    on the abstract state, for every well-formed VM state. -/
theorem corevm_update_is_op (hν : Function.Injective ν) (e : Match.Ev) (vm : VM) (hw : WFA vm) (hi : WFI vm) :
    ∃ vm', CoreVM.updateActionStatusByEvent e vm = .ok () vm' ∧ WFA vm' ∧ vm'.ixs = vm.ixs ∧ vm'.r.fx = vm.r.fx ∧
      absVM ν φ vm' = Lifetime.updateActionStatusByEvent (absVM ν φ vm) (absEv ν e) := by
  obtain ⟨vm', r, w, f, g, eq⟩ := outer_loop ν φ hν e vm.ixs.ix.insts vm hw (fun i hmem => by
    refine ⟨?_, ?_⟩
    · exact find?_of_nodup vm.ixs.ix.insts hi.2 i hmem
    · apply lookup_isSome_of_mem
      rw [← hi.1]
      exact List.mem_map_of_mem (f := (·.uid)) hmem)
  refine ⟨vm', ?_, w, f, g, ?_⟩
  · rw [update_unfold]
    simp only [bind, EStateM.bind]
    have : getIx vm = .ok vm.ixs.ix vm := rfl
    rw [this]
    simp only [r]
    rfl
  · rw [eq]
    unfold Lifetime.updateActionStatusByEvent
    congr 1
    show vm.ixs.ix.insts.map (fun i => ν i.uid) = vm.r.fx.map (fun e => ν e.1)
    have := congrArg (List.map ν) hi.1
    rw [List.map_map, List.map_map] at this
    exact this

/-! ### action names never change -/

def NamesLe (vm vm' : VM) : Prop :=
  ∀ k a', OMap.lookup k vm'.r.actions = some a' → ∃ a, OMap.lookup k vm.r.actions = some a ∧ a'.name = a.name

theorem NamesLe.refl (vm : VM) : NamesLe vm vm := fun _ a' h => ⟨a', h, rfl⟩
theorem NamesLe.trans {v1 v2 v3 : VM} (a : NamesLe v1 v2) (b : NamesLe v2 v3) : NamesLe v1 v3 := by
  intro k x hx
  obtain ⟨y, hy, e1⟩ := b k x hx
  obtain ⟨z, hz, e2⟩ := a k y hy
  exact ⟨z, hz, e1.trans e2⟩

theorem vmSetAction_names (vm : VM) (a a0 : CoreVM.Action) (h0 : OMap.lookup a.uid vm.r.actions = some a0) (hn : a.name = a0.name) :
    NamesLe vm (vmSetAction vm a) := by
  intro k x hx
  simp only [vmSetAction] at hx
  by_cases hk : k = a.uid
  · subst hk; rw [lookup_insert_same] at hx; cases hx; exact ⟨a0, h0, hn⟩
  · rw [lookup_insert_ne a.uid k a hk] at hx; exact ⟨x, hx, rfl⟩

theorem processEvent_name (a : CoreVM.Action) (e : Match.Ev) : (a.processEvent e).name = a.name := by
  unfold CoreVM.Action.processEvent
  split
  · split
    · rfl
    · split
      · rfl
      · split
        · rfl
        · split
          · rfl
          · split <;> rfl
  · rfl

theorem innerNext_names (e : Match.Ev) (au : String) (vm : VM) (hw : WFA vm) : NamesLe vm (innerNext e au vm) := by
  unfold innerNext
  cases h : OMap.lookup au vm.r.actions with
  | none => exact NamesLe.refl vm
  | some a =>
    simp only
    split
    · have huid : a.uid = au := hw au a h
      exact vmSetAction_names vm _ a (by rw [processEvent_uid, huid]; exact h) (processEvent_name a e)
    · exact NamesLe.refl vm

theorem inner_names (e : Match.Ev) : ∀ (l : List String) (vm vm' : VM), WFA vm →
    forIn l PUnit.unit (innerStep e) vm = .ok PUnit.unit vm' → NamesLe vm vm'
  | [], vm, vm', _, h => by rw [List.forIn_nil] at h; cases h; exact NamesLe.refl vm
  | au :: l, vm, vm', hw, h => by
    rw [List.forIn_cons] at h
    simp only [bind, EStateM.bind, innerStep_run] at h
    exact (innerNext_names e au vm hw).trans (inner_names e l _ vm' (innerNext_wfa e au vm hw) h)

theorem update_names (hν : Function.Injective ν) (e : Match.Ev) (vm vm' : VM) (hw : WFA vm) (hi : WFI vm)
    (h : CoreVM.updateActionStatusByEvent e vm = .ok () vm') : NamesLe vm vm' := by
  -- the run is the one constructed in `outer_loop`; names: by induction over the same iteration
  have key : ∀ (is : List Inst) (v v' : VM), WFA v →
      (∀ i, i ∈ is → findInst v.ixs.ix i.uid = some i ∧ ∃ x, OMap.lookup i.uid v.r.fx = some x) →
      forIn is PUnit.unit (outerStep e) v = .ok PUnit.unit v' → NamesLe v v' := by
    intro is
    induction is with
    | nil => intro v v' _ _ h; rw [List.forIn_nil] at h; cases h; exact NamesLe.refl v
    | cons i is ih =>
      intro v v' hwv hall h
      obtain ⟨hi', ⟨x, hx⟩⟩ := hall i (List.mem_cons_self ..)
      rw [List.forIn_cons] at h
      simp only [bind, EStateM.bind] at h
      by_cases hl : i.status.listening = true
      · obtain ⟨v1, r1, w1, f1, g1, _⟩ := inner_loop ν (fun _ => 0) hν e x.actionUids v hwv
        have hrun : outerStep e i PUnit.unit v = .ok (ForInStep.yield PUnit.unit) v1 := by
          unfold outerStep
          simp only [hl, if_true, bind, EStateM.bind, getInstX_run_some i.uid v x hx, r1]
          rfl
        rw [hrun] at h
        have n1 := inner_names e x.actionUids v v1 hwv r1
        exact n1.trans (ih v1 v' w1 (fun j hj => by
          obtain ⟨a, b⟩ := hall j (List.mem_cons_of_mem _ hj)
          rw [f1, g1]; exact ⟨a, b⟩) h)
      · have hrun : outerStep e i PUnit.unit v = .ok (ForInStep.yield PUnit.unit) v := by
          unfold outerStep
          simp only [hl, if_false]
          rfl
        rw [hrun] at h
        exact ih v v' hwv (fun j hj => hall j (List.mem_cons_of_mem _ hj)) h
  rw [update_unfold] at h
  simp only [bind, EStateM.bind] at h
  have hix : getIx vm = .ok vm.ixs.ix vm := rfl
  rw [hix] at h
  simp only at h
  cases hf : forIn vm.ixs.ix.insts PUnit.unit (outerStep e) vm with
  | error er v2 => rw [hf] at h; cases h
  | ok u v2 =>
    rw [hf] at h
    cases h
    cases u
    exact key vm.ixs.ix.insts vm _ hw (fun i hmem => ⟨find?_of_nodup vm.ixs.ix.insts hi.2 i hmem, by
      apply lookup_isSome_of_mem
      rw [← hi.1]
      exact List.mem_map_of_mem (f := (·.uid)) hmem⟩) hf

/-! ### `releaseAction ↦ stopAction1` (one iteration of the "abort all started actions" loop), modulo outgoing events -/

/-- forget the outgoing events (`absVM` does not abstract them) -/
def so (s : State) : State := { s with out := [] }

def stopEv (a : CoreVM.Action) : Match.Ev := { kind := .action, name := "Stop" ++ a.name, args := [], actionUid := some a.uid }
def vmOut (vm : VM) (se : Match.Ev) : VM :=
  { vm with r := { vm.r with nextUid := vm.r.nextUid + 1, outgoing := vm.r.outgoing ++ [se] } }

/-- what `generateUmimEvent` and `Action.processEvent` test on the name of the Stop event of an action
    ("action names end in `Action` and contain neither `Start` nor `Stop`", harness assumption) -/
structure GoodStop (name : String) : Prop where
  action : hasSub ("Stop" ++ name) "Action" = true
  started : hasSub ("Stop" ++ name) "ActionStarted" = false
  updated : hasSub ("Stop" ++ name) "ActionUpdated" = false
  finished : hasSub ("Stop" ++ name) "ActionFinished" = false
  start : hasSub ("Stop" ++ name) "Start" = false
  stop : hasSub ("Stop" ++ name) "Stop" = true
  notUtt : ("Stop" ++ name) ≠ "StartUtteranceBotAction"

theorem generateUmim_stop_run (a : CoreVM.Action) (vm vm2 : VM) (h1 : hasSub ("Stop" ++ a.name) "ActionFinished" = false)
    (h2 : ("Stop" ++ a.name) ≠ "StartUtteranceBotAction")
    (hupd : CoreVM.updateActionStatusByEvent (stopEv a) (vmOut vm (stopEv a)) = .ok () vm2) :
    generateUmimEvent (stopEv a) vm = .ok (stopEv a) vm2 := by
  unfold generateUmimEvent
  simp only [stopEv, lookupArg, Match.lookup, Option.isSome_some, if_true, h1, h2, Bool.false_eq_true, if_false]
  simp only [bind, EStateM.bind, freshUid, getRest, modifyRest, pure, modify, modifyGet, MonadStateOf.modifyGet,
    get, getThe, MonadStateOf.get, EStateM.map, Functor.map]
  simp only [↓reduceIte]
  simp only [EStateM.bind, EStateM.get, EStateM.pure, EStateM.modifyGet]
  simp only [vmOut, stopEv] at hupd
  rw [hupd]

theorem absEv_stop (a : CoreVM.Action) (hg : GoodStop a.name) : absEv ν (stopEv a) = AEv.stopOf (ν a.uid) := by
  simp only [absEv, stopEv, AEv.stopOf, hg.action, hg.started, hg.updated, hg.finished, hg.start, hg.stop,
    Option.isSome_some, Option.getD_some, Bool.and_self]

theorem absAStatus_running (st : ActStatus) :
    (absAStatus st).running = (decide (st = ActStatus.starting) || decide (st = ActStatus.started)) := by
  cases st <;> rfl

theorem setAction_setAction (s : State) (a : Nat) (x y : Lifetime.Action) :
    Lifetime.setAction (Lifetime.setAction s a x) a y = Lifetime.setAction s a y := by
  apply state_ext
  · rfl
  · funext v
    simp only [setAction_actions]
    split <;> rfl
  · rfl
  · rfl
  · rfl
  · rfl

theorem absVM_vmSetAction (hν : Function.Injective ν) (vm : VM) (a : CoreVM.Action) :
    absVM ν φ (vmSetAction vm a) = Lifetime.setAction (absVM ν φ vm) (ν a.uid) (absAct a) :=
  state_ext rfl (setAction_refines ν φ hν vm a) rfl rfl rfl rfl

theorem emit_updActs (e : AEv) (o : OEv) : ∀ (l : List Nat) (s : State), updActs e (emit s o) l = emit (updActs e s l) o
  | [], s => rfl
  | a :: as, s => by
    simp only [updActs, emit_actions]
    split
    · split
      · exact emit_updActs e o as (Lifetime.setAction s a _)
      · exact emit_updActs e o as s
    · exact emit_updActs e o as s

theorem emit_updFlows (e : AEv) (o : OEv) : ∀ (l : List Nat) (s : State), updFlows e (emit s o) l = emit (updFlows e s l) o
  | [], s => rfl
  | u :: us, s => by
    simp only [updFlows, emit_flows]
    split
    · split
      · rw [emit_updActs, emit_updFlows e o us]
      · exact emit_updFlows e o us s
    · exact emit_updFlows e o us s

theorem so_generateUmim (s : State) (o : OEv) (e : AEv) (h : s.out = []) :
    so (generateUmim s o e) = Lifetime.updateActionStatusByEvent s e := by
  unfold generateUmim Lifetime.updateActionStatusByEvent
  have : (emit s o).order = s.order := rfl
  rw [this, emit_updFlows]
  obtain ⟨_, hout, _, _, _⟩ := update_rel e s
  unfold Lifetime.updateActionStatusByEvent at hout
  apply state_ext <;> try rfl
  simp only [so, emit_out]
  rw [hout, h]

/-- **`releaseAction au` IS `stopAction1 (ν au)`** on the abstract state (all three branches; the KeyError case too),
    up to the outgoing events, which `absVM` does not abstract -/
theorem releaseAction_refines (hν : Function.Injective ν) (au : String) (vm : VM) (hw : WFA vm) (hi : WFI vm)
    (hgood : ∀ a, OMap.lookup au vm.r.actions = some a → GoodStop a.name) :
    (OMap.lookup au vm.r.actions = none ∧ releaseAction au vm = .error (.py "KeyError" au) vm ∧
      stopAction1 (absVM ν φ vm) (ν au) = .error .key) ∨
    ∃ vm' t, releaseAction au vm = .ok () vm' ∧ stopAction1 (absVM ν φ vm) (ν au) = .ok t ∧ absVM ν φ vm' = so t ∧
      WFA vm' ∧ vm'.ixs = vm.ixs ∧ vm'.r.fx = vm.r.fx ∧ NamesLe vm vm' := by
  have hga : getAction? au vm = .ok (OMap.lookup au vm.r.actions) vm := rfl
  have habs0 : (absVM ν φ vm).out = [] := rfl
  unfold releaseAction stopAction1
  simp only [bind, EStateM.bind, hga, absVM_actions ν φ hν]
  cases h : OMap.lookup au vm.r.actions with
  | none => exact Or.inl ⟨rfl, rfl, rfl⟩
  | some a =>
    right
    have huid : a.uid = au := hw au a h
    simp only [Option.map_some, absAct, absAStatus_running]
    by_cases hr : (decide (a.status = ActStatus.starting) || decide (a.status = ActStatus.started)) = true
    · simp only [hr, if_true, setAction_run]
      by_cases hz : a.scopeCount - 1 = 0
      · -- the count reaches 0: Stop
        have hz' : ((a.scopeCount - 1 == 0) = true) := by simp [hz]
        simp only [hz, hz', if_true, setAction_run, EStateM.bind]
        -- the state before `generateUmimEvent`
        obtain ⟨vmA, hA⟩ : ∃ vmA, vmA = vmSetAction (vmSetAction vm { a with scopeCount := 0 })
            { ({ a with scopeCount := 0 } : CoreVM.Action) with status := .stopping } := ⟨_, rfl⟩
        have hwA : WFA vmA := by rw [hA]; exact vmSetAction_wfa _ _ (vmSetAction_wfa _ _ hw)
        have hiA : WFI (vmOut vmA (stopEv a)) := by rw [hA]; exact hi
        have hwO : WFA (vmOut vmA (stopEv a)) := hwA
        obtain ⟨vm2, r2, w2, f2, g2, e2⟩ := corevm_update_is_op ν φ hν (stopEv a) (vmOut vmA (stopEv a)) hwO hiA
        have hgen := generateUmim_stop_run a vmA vm2 (hgood a h).finished (hgood a h).notUtt r2
        have hse : (({ kind := Match.EvKind.action, name := "Stop" ++ a.name, args := [], actionUid := some a.uid } : Match.Ev)) = stopEv a := rfl
        have hgen' : generateUmimEvent { kind := Match.EvKind.action, name := "Stop" ++ a.name, args := [], actionUid := some a.uid }
            (vmSetAction (vmSetAction vm { a with scopeCount := 0 })
              { ({ a with scopeCount := 0 } : CoreVM.Action) with status := .stopping }) = .ok (stopEv a) vm2 := by
          rw [hse, ← hA]; exact hgen
        have hn2 : NamesLe vm vm2 := by
          have nA : NamesLe vm vmA := by
            rw [hA]
            have n1 : NamesLe vm (vmSetAction vm { a with scopeCount := 0 }) :=
              vmSetAction_names vm _ a (by rw [huid]; exact h) rfl
            refine n1.trans (vmSetAction_names _ _ { a with scopeCount := 0 } ?_ rfl)
            show OMap.lookup a.uid (OMap.insert a.uid _ vm.r.actions) = _
            rw [lookup_insert_same]
          exact nA.trans (update_names ν hν (stopEv a) (vmOut vmA (stopEv a)) vm2 hwO hiA r2)
        refine ⟨vm2, _, ?_, rfl, ?_, w2, ?_, ?_, hn2⟩
        · rw [hgen']; rfl
        · rw [so_generateUmim _ _ _ (by rfl), e2]
          have hO : absVM ν φ (vmOut vmA (stopEv a)) = absVM ν φ vmA := rfl
          rw [hO, hA, absVM_vmSetAction ν φ hν, absVM_vmSetAction ν φ hν, setAction_setAction, absEv_stop ν a (hgood a h)]
          simp only [huid, absAct, absAStatus]
        · rw [f2, hA]; rfl
        · rw [g2, hA]; rfl
      · have hz' : ((a.scopeCount - 1 == 0) = false) := by simp [hz]
        simp only [hz, hz', if_false, Bool.false_eq_true]
        refine ⟨vmSetAction vm { a with scopeCount := a.scopeCount - 1 }, _, rfl, rfl, ?_, vmSetAction_wfa _ _ hw, rfl, rfl,
          vmSetAction_names vm _ a (by rw [huid]; exact h) rfl⟩
        rw [absVM_vmSetAction ν φ hν]
        simp only [huid, absAct]
        rfl
    · simp only [hr, if_false, Bool.false_eq_true]
      exact ⟨vm, _, rfl, rfl, rfl, hw, rfl, rfl, NamesLe.refl vm⟩

/-! ### the "abort all started actions that have not finished yet" loop: `for au in action_uids: releaseAction au ↦ stopActions` -/

/-- the Lifetime functions do not read the outgoing events: results agree up to `out` -/
theorem updActs_so (e : AEv) : ∀ (l : List Nat) (s : State), so (updActs e s l) = updActs e (so s) l
  | [], s => rfl
  | a :: as, s => by
    simp only [updActs]
    have : (so s).actions = s.actions := rfl
    rw [this]
    split
    · split
      · exact updActs_so e as (Lifetime.setAction s a _)
      · exact updActs_so e as s
    · exact updActs_so e as s

theorem updFlows_so (e : AEv) : ∀ (l : List Nat) (s : State), so (updFlows e s l) = updFlows e (so s) l
  | [], s => rfl
  | u :: us, s => by
    simp only [updFlows]
    have : (so s).flows = s.flows := rfl
    rw [this]
    split
    · split
      · rw [updFlows_so e us, updActs_so]
      · exact updFlows_so e us s
    · exact updFlows_so e us s

theorem so_generateUmim' (s : State) (o : OEv) (e : AEv) : so (generateUmim s o e) = Lifetime.updateActionStatusByEvent (so s) e := by
  unfold generateUmim Lifetime.updateActionStatusByEvent
  rw [updFlows_so]
  rfl

/-- `stopAction1` commutes with forgetting the outgoing events -/
theorem stopAction1_so (s : State) (a : Nat) :
    (match stopAction1 s a with | .ok t => Except.ok (so t) | .error e => .error e) =
    (match stopAction1 (so s) a with | .ok t => Except.ok (so t) | .error e => .error e) := by
  unfold stopAction1
  have : (so s).actions = s.actions := rfl
  rw [this]
  cases s.actions a with
  | none => rfl
  | some x =>
    simp only
    by_cases hr : x.status.running = true
    · simp only [hr, if_true]
      by_cases hz : (x.count - 1 == 0) = true
      · simp only [hz, if_true, so_generateUmim']; rfl
      · simp only [hz, Bool.false_eq_true, if_false]; rfl
    · simp only [hr, Bool.false_eq_true, if_false]; rfl

theorem stopActions_so : ∀ (l : List Nat) (s : State),
    (match stopActions s l with | .ok t => Except.ok (so t) | .error e => .error e) =
    (match stopActions (so s) l with | .ok t => Except.ok (so t) | .error e => .error e)
  | [], s => rfl
  | a :: as, s => by
    simp only [stopActions]
    have h1 := stopAction1_so s a
    cases hs : stopAction1 s a with
    | error e =>
      rw [hs] at h1
      cases hs' : stopAction1 (so s) a with
      | error e' => rw [hs'] at h1; simp only at h1 ⊢; exact h1
      | ok t' => rw [hs'] at h1; cases h1
    | ok t =>
      rw [hs] at h1
      cases hs' : stopAction1 (so s) a with
      | error e' => rw [hs'] at h1; cases h1
      | ok t' =>
        rw [hs'] at h1
        simp only [Except.ok.injEq] at h1
        simp only
        rw [stopActions_so as t, h1, ← stopActions_so as t']

/-- every action in the table has a well-behaved Stop-event name; names never change -/
def WFG (vm : VM) : Prop := ∀ k a, OMap.lookup k vm.r.actions = some a → GoodStop a.name

/-- body of the loop in `_abort_flow` / `_finish_flow` / `EndScope` -/
def releaseStep (au : String) (_ : PUnit) : M (ForInStep PUnit) := do
  releaseAction au
  pure (ForInStep.yield PUnit.unit)

/-- **the stop-actions loop, normal termination**: if the CoreVM loop over `l` returns normally from a well-formed state
    (`WFG`: the Stop-event names of all actions are well-behaved), then `Lifetime.stopActions` over the abstracted list returns normally
    and the abstract post-states agree up to the outgoing events -/
theorem release_loop (hν : Function.Injective ν) : ∀ (l : List String) (vm vm' : VM), WFA vm → WFI vm → WFG vm →
    forIn l PUnit.unit releaseStep vm = .ok PUnit.unit vm' →
    ∃ t, stopActions (absVM ν φ vm) (l.map ν) = .ok t ∧ absVM ν φ vm' = so t ∧ WFA vm' ∧ vm'.ixs = vm.ixs ∧ vm'.r.fx = vm.r.fx ∧
      NamesLe vm vm'
  | [], vm, vm', hw, _, _, h => by
    have : vm' = vm := by
      rw [List.forIn_nil] at h
      cases h; rfl
    subst this
    exact ⟨absVM ν φ vm', rfl, rfl, hw, rfl, rfl, NamesLe.refl _⟩
  | au :: l, vm, vm', hw, hi, hg, h => by
    rw [List.forIn_cons] at h
    simp only [releaseStep, bind, EStateM.bind] at h
    rcases releaseAction_refines ν φ hν au vm hw hi (fun a ha => hg au a ha) with ⟨_, hr, _⟩ | ⟨vm1, t1, hr, hs1, habs1, hw1, hix1, hfx1, hn1⟩
    · rw [hr] at h; cases h
    · rw [hr] at h
      have hi1 : WFI vm1 := by unfold WFI; rw [hix1, hfx1]; exact hi
      have h' : forIn l PUnit.unit releaseStep vm1 = .ok PUnit.unit vm' := h
      have hg1 : WFG vm1 := fun k x hx => by
        obtain ⟨y, hy, e⟩ := hn1 k x hx
        rw [e]; exact hg k y hy
      obtain ⟨t2, hs2, habs2, hw2, hix2, hfx2, hn2⟩ := release_loop hν l vm1 vm' hw1 hi1 hg1 h'
      rw [habs1] at hs2
      -- transport along `so`
      have hso := stopActions_so (l.map ν) t1
      rw [hs2] at hso
      cases hs3 : stopActions t1 (l.map ν) with
      | error e => rw [hs3] at hso; cases hso
      | ok t3 =>
        rw [hs3] at hso
        simp only [Except.ok.injEq] at hso
        refine ⟨t3, ?_, ?_, hw2, hix2.trans hix1, hfx2.trans hfx1, hn1.trans hn2⟩
        · simp only [List.map_cons, stopActions, hs1]; exact hs3
        · rw [habs2, ← hso]

/-! ### the index component: `heads.clear()` and `flow_state.status = st` -/

theorem rawRemove_insts (s : IState) (k : Key) : (rawRemove s k).insts = s.insts := by
  unfold rawRemove; split <;> rfl

theorem foldl_rawRemove_insts (f : FUid) : ∀ (l : List Head) (s : IState),
    (l.foldl (fun acc hd => rawRemove acc (f, hd.uid)) s).insts = s.insts
  | [], _ => rfl
  | hd :: l, s => by
    simp only [List.foldl_cons]
    rw [foldl_rawRemove_insts f l, rawRemove_insts]

theorem findInst_modifyInst (s : IState) (f f' : FUid) (g : Inst → Inst) (hg : ∀ i, (g i).uid = i.uid) :
    findInst (modifyInst s f g) f' = (findInst s f').map fun i => if i.uid = f then g i else i := by
  unfold findInst modifyInst
  simp only
  induction s.insts with
  | nil => rfl
  | cons i l ih =>
    simp only [List.map_cons, List.find?_cons]
    by_cases hi : i.uid = f
    · simp only [hi, if_true]
      by_cases hf : f = f'
      · subst hf
        have : (g i).uid = f := by rw [hg]; exact hi
        simp [this, hi]
      · have : ¬ (g i).uid = f' := by rw [hg, hi]; exact hf
        simp only [this, decide_false, hf]
        exact ih
    · simp only [hi, if_false]
      by_cases hf : i.uid = f'
      · have hff : ¬ f' = f := fun e => hi (hf.trans e)
        simp [hf, hff]
      · simp only [hf, decide_false]
        exact ih

theorem findInst_dropHeads (s : IState) (f f' : FUid) :
    findInst (step s (.dropHeads f)) f' = (findInst s f').map fun i => if i.uid = f then { i with heads := [] } else i := by
  simp only [step]
  cases h : findInst s f with
  | none =>
    simp only
    -- no instance `f`: nothing changes, and no instance has uid `f`
    cases h' : findInst s f' with
    | none => rfl
    | some i =>
      simp only [Option.map_some]
      have : i.uid ≠ f := by
        intro e
        unfold findInst at h h'
        have hi := List.find?_some h'
        simp only [decide_eq_true_eq] at hi
        rw [← e, hi] at h
        rw [h'] at h; cases h
      simp [this]
  | some i0 =>
    simp only
    have : findInst (modifyInst (i0.heads.foldl (fun acc hd => rawRemove acc (f, hd.uid)) s) f fun i => { i with heads := [] }) f' =
        (findInst (i0.heads.foldl (fun acc hd => rawRemove acc (f, hd.uid)) s) f').map fun i => if i.uid = f then { i with heads := [] } else i :=
      findInst_modifyInst _ f f' _ (fun _ => rfl)
    rw [this]
    unfold findInst
    rw [foldl_rawRemove_insts]

theorem findInst_setFlowStatus (s : IState) (f f' : FUid) (st : FlowStatus) :
    findInst (step s (.setFlowStatus f st)) f' = (findInst s f').map fun i => if i.uid = f then { i with status := st } else i := by
  simp only [step]
  exact findInst_modifyInst s f f' _ (fun _ => rfl)

theorem modifyInst_uids (s : IState) (f : FUid) (g : Inst → Inst) (hg : ∀ i, (g i).uid = i.uid) :
    (modifyInst s f g).insts.map (·.uid) = s.insts.map (·.uid) := by
  unfold modifyInst
  simp only [List.map_map]
  apply List.map_congr_left
  intro i _
  simp only [Function.comp]
  split
  · exact hg i
  · rfl

theorem dropHeads_uids (s : IState) (f : FUid) : (step s (.dropHeads f)).insts.map (·.uid) = s.insts.map (·.uid) := by
  simp only [step]
  cases findInst s f with
  | none => rfl
  | some i0 =>
    simp only
    rw [modifyInst_uids _ f (fun i => { i with heads := [] }) (fun _ => rfl), foldl_rawRemove_insts]

theorem setFlowStatus_uids (s : IState) (f : FUid) (st : FlowStatus) :
    (step s (.setFlowStatus f st)).insts.map (·.uid) = s.insts.map (·.uid) := by
  simp only [step]
  exact modifyInst_uids s f (fun i => { i with status := st }) (fun _ => rfl)

/-- `find?` returns an element satisfying the predicate: the instance found for `f'` has uid `f'` -/
theorem findInst_uid (s : IState) (f' : FUid) (i : Inst) (h : findInst s f' = some i) : i.uid = f' := by
  unfold findInst at h
  have := List.find?_some h
  simpa using this

/-- the state after a guarded index operation -/
theorem applyOp_run (op : Op) (vm : VM) (hg : op.guard vm.ixs.ix = true) :
    CoreVM.applyOp op vm = .ok () { vm with ixs := vm.ixs.apply op hg } := by
  unfold CoreVM.applyOp
  simp only [hg, dite_true]

/-- `for head in heads.values(): _remove_head…; heads.clear()` IS `heads := 0` on the abstract state -/
theorem dropHeads_refines (hν : Function.Injective ν) (f : FUid) (vm : VM) :
    ∃ vm', CoreVM.dropHeads f vm = .ok () vm' ∧ vm'.r.fx = vm.r.fx ∧ vm'.r.actions = vm.r.actions ∧
      (absVM ν φ vm').flows = (modFlow (absVM ν φ vm) (ν f) fun fl => { fl with heads := 0 }).flows := by
  have hg : (Op.dropHeads f).guard vm.ixs.ix = true := rfl
  refine ⟨{ ({ vm with ixs := vm.ixs.apply (.dropHeads f) hg } : VM) with
      r := { vm.r with hx := vm.r.hx.filter (fun e => e.1.1 ≠ f),
                       cleared := vm.r.cleared ++ (match findInst vm.ixs.ix f with
                         | some i => i.heads.map fun hd => (f, hd.uid)
                         | none => []) } }, ?_, rfl, rfl, ?_⟩
  · unfold CoreVM.dropHeads
    simp only [bind, EStateM.bind]
    have : getIx vm = .ok vm.ixs.ix vm := rfl
    rw [this]
    simp only [applyOp_run _ vm hg]
    rfl
  · funext n
    by_cases hn : ∃ k, ν k = n
    · obtain ⟨k, rfl⟩ := hn
      rw [absVM_flows ν φ hν]
      show (OMap.lookup k vm.r.fx).map _ = _
      by_cases hk : k = f
      · subst hk
        cases hx : OMap.lookup k vm.r.fx with
        | none =>
          have : (absVM ν φ vm).flows (ν k) = none := by rw [absVM_flows ν φ hν, hx]; rfl
          rw [modFlow_none _ _ _ this, this]; rfl
        | some x =>
          have : (absVM ν φ vm).flows (ν k) = some (absFlow ν φ vm k x) := by rw [absVM_flows ν φ hν, hx]; rfl
          rw [modFlow_some _ _ _ _ this, setFlow_flows_same]
          simp only [Option.map_some, absFlow]
          have hfi : findInst (step vm.ixs.ix (.dropHeads k)) k = (findInst vm.ixs.ix k).map fun i => if i.uid = k then { i with heads := [] } else i :=
            findInst_dropHeads _ k k
          show some _ = some _
          congr 1
          show ({ flowId := _, parent := _, children := _, status := _, activated := _, nis := _, actionUids := _, scopes := _, heads := _, isMain := _ } : Flow) = _
          simp only [IxS.apply, hfi]
          cases hi : findInst vm.ixs.ix k with
          | none => rfl
          | some i =>
            have := findInst_uid _ _ _ hi
            simp [this]
      · have hne : ν k ≠ ν f := fun e => hk (hν e)
        rw [modFlow_flows_ne _ _ _ _ hne, absVM_flows ν φ hν]
        cases hx : OMap.lookup k vm.r.fx with
        | none => rfl
        | some x =>
          simp only [Option.map_some, absFlow]
          have hfi : findInst (step vm.ixs.ix (.dropHeads f)) k = (findInst vm.ixs.ix k).map fun i => if i.uid = f then { i with heads := [] } else i :=
            findInst_dropHeads _ f k
          congr 1
          show ({ flowId := _, parent := _, children := _, status := _, activated := _, nis := _, actionUids := _, scopes := _, heads := _, isMain := _ } : Flow) = _
          simp only [IxS.apply, hfi]
          cases hi : findInst vm.ixs.ix k with
          | none => rfl
          | some i =>
            have := findInst_uid _ _ _ hi
            have hne' : ¬ i.uid = f := by rw [this]; exact hk
            simp [hne']
    · have hnone : ∀ (vm' : VM), (absVM ν φ vm').flows n = none := by
        intro vm'
        simp only [absVM]
        rw [List.find?_eq_none.2 (fun e _ => by simpa using fun h => hn ⟨e.1, h⟩)]
        rfl
      have hne : n ≠ ν f := fun e => hn ⟨f, e.symm⟩
      rw [hnone, modFlow_flows_ne _ _ _ _ hne, hnone]

/-- `flow_state.status = st` (index operation + `status_updated`) IS `status := st` on the abstract state, whenever the
    index guard of the operation holds (otherwise CoreVM stops with `guardFailed`: not a Python exception) -/
theorem setFlowStatus_refines (hν : Function.Injective ν) (f : FUid) (st : FlowStatus) (vm : VM)
    (hg : (Op.setFlowStatus f st).guard vm.ixs.ix = true) (hfi : ∃ i, findInst vm.ixs.ix f = some i) :
    ∃ vm', CoreVM.setFlowStatus f st vm = .ok () vm' ∧ vm'.r.fx.map (·.1) = vm.r.fx.map (·.1) ∧ vm'.r.actions = vm.r.actions ∧
      (absVM ν φ vm').flows = (modFlow (absVM ν φ vm) (ν f) fun fl => { fl with status := absStatus st }).flows := by
  obtain ⟨vm1, hvm1⟩ : ∃ vm1 : VM, vm1 = { vm with ixs := vm.ixs.apply (.setFlowStatus f st) hg } := ⟨_, rfl⟩
  refine ⟨vmMod vm1 f (fun x => { x with statusUpdated := vm1.r.clock }), ?_, ?_, by rw [hvm1]; rfl, ?_⟩
  · unfold CoreVM.setFlowStatus
    simp only [bind, EStateM.bind, applyOp_run _ vm hg]
    rw [hvm1]
    rfl
  · rw [hvm1]
    show (OMap.modify f _ vm.r.fx).map (·.1) = _
    induction vm.r.fx with
    | nil => rfl
    | cons e l ih =>
      simp only [OMap.modify]
      split <;> simp [ih]
  · funext n
    have hfis : ∀ k, findInst vm1.ixs.ix k = (findInst vm.ixs.ix k).map fun i => if i.uid = f then { i with status := st } else i := by
      intro k; rw [hvm1]; exact findInst_setFlowStatus _ f k st
    by_cases hn : ∃ k, ν k = n
    · obtain ⟨k, rfl⟩ := hn
      rw [absVM_flows ν φ hν]
      have hl : OMap.lookup k (vmMod vm1 f fun x => { x with statusUpdated := vm1.r.clock }).r.fx =
          if k = f then (OMap.lookup k vm1.r.fx).map (fun x => { x with statusUpdated := vm1.r.clock }) else OMap.lookup k vm1.r.fx :=
        lookup_modify f k _ vm1.r.fx
      have hfx1 : vm1.r.fx = vm.r.fx := by rw [hvm1]
      rw [hl, hfx1]
      by_cases hk : k = f
      · subst hk
        simp only [if_true]
        cases hx : OMap.lookup k vm.r.fx with
        | none =>
          have : (absVM ν φ vm).flows (ν k) = none := by rw [absVM_flows ν φ hν, hx]; rfl
          rw [modFlow_none _ _ _ this, this]; rfl
        | some x =>
          have : (absVM ν φ vm).flows (ν k) = some (absFlow ν φ vm k x) := by rw [absVM_flows ν φ hν, hx]; rfl
          rw [modFlow_some _ _ _ _ this, setFlow_flows_same]
          simp only [Option.map_some, absFlow]
          obtain ⟨i, hi⟩ := hfi
          have hu := findInst_uid _ _ _ hi
          have h1 : findInst (vmMod vm1 k fun x => { x with statusUpdated := vm1.r.clock }).ixs.ix k = some { i with status := st } := by
            show findInst vm1.ixs.ix k = _
            rw [hfis, hi]; simp [hu]
          simp only [h1, hi]
      · simp only [hk, if_false]
        have hne : ν k ≠ ν f := fun e => hk (hν e)
        rw [modFlow_flows_ne _ _ _ _ hne, absVM_flows ν φ hν]
        cases hx : OMap.lookup k vm.r.fx with
        | none => rfl
        | some x =>
          simp only [Option.map_some, absFlow]
          have h1 : findInst (vmMod vm1 f fun x => { x with statusUpdated := vm1.r.clock }).ixs.ix k = findInst vm.ixs.ix k := by
            show findInst vm1.ixs.ix k = _
            rw [hfis]
            cases hi : findInst vm.ixs.ix k with
            | none => rfl
            | some i =>
              have := findInst_uid _ _ _ hi
              have hne' : ¬ i.uid = f := by rw [this]; exact hk
              simp [hne']
          simp only [h1]
    · have hnone : ∀ (vm' : VM), (absVM ν φ vm').flows n = none := by
        intro vm'
        simp only [absVM]
        rw [List.find?_eq_none.2 (fun e _ => by simpa using fun h => hn ⟨e.1, h⟩)]
        rfl
      have hne : n ≠ ν f := fun e => hn ⟨f, e.symm⟩
      rw [hnone, modFlow_flows_ne _ _ _ _ hne, hnone]

end NemoVerif.Lifetime.Refine
