/-
  C20 — lemmas about `Models/Server.lean` (core Lean only).
-/
import NemoVerif.Models.Server

namespace NemoVerif.Server
open NemoVerif.Generated.C20

/-! ### names, normal form, "inside the root" -/

/-- a proper directory-entry name: non-empty, not `.` / `..`, no separator. -/
def IsName (n : Str) : Prop := n ≠ [] ∧ n ≠ dot ∧ n ≠ dotdot ∧ '/' ∉ n

instance (n : Str) : Decidable (IsName n) := by unfold IsName; infer_instance

/-- an absolute normalised POSIX path: one or two leading slashes followed by proper names joined by `/`.
    (`normpath_abs_isNorm` / `absNorm_fix`: these are exactly the values `os.path.abspath` can return.) -/
def AbsNorm (b : Str) : Prop :=
  ∃ (k : Nat) (comps : List Str), (k = 1 ∨ k = 2) ∧ (∀ c ∈ comps, IsName c) ∧
    b = List.replicate k '/' ++ joinSep ['/'] comps

/-- the path of the entry `n` of directory `base`. -/
def childPath (base n : Str) : Str := if endsWithSlash base = true then base ++ n else base ++ '/' :: n

/-- `p` is the root itself or a direct entry of the root with a proper name. -/
def Inside (base p : Str) : Prop := p = base ∨ ∃ n, IsName n ∧ p = childPath base n

/-! ### splitOn / joinSep -/

theorem splitOn_ne_nil (sep : Char) (s : Str) : splitOn sep s ≠ [] := by
  cases s with
  | nil => simp [splitOn]
  | cons c cs =>
    simp only [splitOn]
    split
    · simp
    · split <;> simp

theorem splitOn_nosep {sep : Char} {s : Str} (h : sep ∉ s) : splitOn sep s = [s] := by
  induction s with
  | nil => rfl
  | cons c cs ih =>
    have hc : c ≠ sep := fun e => h (by simp [e])
    have hcs : sep ∉ cs := fun m => h (List.mem_cons_of_mem _ m)
    simp [splitOn, hc, ih hcs]

theorem splitOn_append_sep {sep : Char} {a : Str} (b : Str) (h : sep ∉ a) :
    splitOn sep (a ++ sep :: b) = a :: splitOn sep b := by
  induction a with
  | nil => simp [splitOn]
  | cons c cs ih =>
    have hc : c ≠ sep := fun e => h (by simp [e])
    have hcs : sep ∉ cs := fun m => h (List.mem_cons_of_mem _ m)
    simp [splitOn, hc, ih hcs]

theorem splitOn_mem_nosep (sep : Char) (s : Str) : ∀ c ∈ splitOn sep s, sep ∉ c := by
  induction s with
  | nil => intro c hc; simp [splitOn] at hc; simp [hc]
  | cons x xs ih =>
    intro c hc
    simp only [splitOn] at hc
    split at hc
    · rcases List.mem_cons.1 hc with rfl | h
      · simp
      · exact ih c h
    · rename_i hx
      split at hc
      · rename_i he; exact absurd he (splitOn_ne_nil sep xs)
      · rename_i h t he
        have hh : sep ∉ h := ih h (by rw [he]; simp)
        rcases List.mem_cons.1 hc with rfl | hm
        · intro m
          rcases List.mem_cons.1 m with e | m'
          · exact hx e.symm
          · exact hh m'
        · exact ih c (by rw [he]; exact List.mem_cons_of_mem _ hm)

theorem splitOn_replicate (k : Nat) (s : Str) :
    splitOn '/' (List.replicate k '/' ++ s) = List.replicate k [] ++ splitOn '/' s := by
  induction k with
  | zero => simp
  | succ k ih => simp [List.replicate_succ, splitOn, ih]

theorem joinSep_cons_cons (sep a b : Str) (r : List Str) :
    joinSep sep (a :: b :: r) = a ++ sep ++ joinSep sep (b :: r) := rfl

theorem splitOn_joinSep (cs : List Str) (hne : cs ≠ []) (h : ∀ c ∈ cs, '/' ∉ c) :
    splitOn '/' (joinSep ['/'] cs) = cs := by
  induction cs with
  | nil => exact absurd rfl hne
  | cons a rest ih =>
    cases rest with
    | nil => simp [joinSep, splitOn_nosep (h a (by simp))]
    | cons b r =>
      rw [joinSep_cons_cons]
      have : a ++ ['/'] ++ joinSep ['/'] (b :: r) = a ++ '/' :: joinSep ['/'] (b :: r) := by simp
      rw [this, splitOn_append_sep _ (h a (by simp)), ih (by simp) (fun c hc => h c (List.mem_cons_of_mem _ hc))]

theorem joinSep_append_single (cs : List Str) (hne : cs ≠ []) (x : Str) :
    joinSep ['/'] (cs ++ [x]) = joinSep ['/'] cs ++ '/' :: x := by
  induction cs with
  | nil => exact absurd rfl hne
  | cons a rest ih =>
    cases rest with
    | nil => simp [joinSep]
    | cons b r =>
      have := ih (by simp)
      simp only [List.cons_append] at this ⊢
      rw [joinSep_cons_cons, this, joinSep_cons_cons]
      simp

/-! ### the component loop -/

def keep (c : Str) : Bool := !(decide (c = []) || decide (c = dot))

theorem normStep_skip (init : Nat) (st : List Str) (c : Str) (h : keep c = false) : normStep init st c = st := by
  have h' : c = [] ∨ c = dot := by
    simp [keep] at h
    by_cases hc : c = []
    · exact Or.inl hc
    · exact Or.inr (h hc)
  simp [normStep, h']

theorem normStep_push (init : Nat) (st : List Str) (c : Str) (h : keep c = true) (hd : c ≠ dotdot) :
    normStep init st c = c :: st := by
  simp [keep] at h
  simp [normStep, h, hd]

theorem foldl_noDotDot (init : Nat) (l : List Str) (st : List Str) (h : ∀ c ∈ l, c ≠ dotdot) :
    l.foldl (normStep init) st = (l.filter keep).reverse ++ st := by
  induction l generalizing st with
  | nil => simp
  | cons c cs ih =>
    have hcs : ∀ c ∈ cs, c ≠ dotdot := fun x hx => h x (List.mem_cons_of_mem _ hx)
    simp only [List.foldl_cons]
    cases hk : keep c with
    | false => rw [normStep_skip _ _ _ hk, ih _ hcs]; simp [hk]
    | true =>
      rw [normStep_push _ _ _ hk (h c (by simp)), ih _ hcs]
      simp [hk]

theorem foldl_replicate_nil (init k : Nat) (st : List Str) :
    (List.replicate k ([] : Str)).foldl (normStep init) st = st := by
  induction k with
  | zero => rfl
  | succ k ih => simp [List.replicate_succ, normStep, ih]

theorem initialSlashes_replicate (k : Nat) (hk : k = 1 ∨ k = 2) (s : Str) (hs : s.head? ≠ some '/') :
    initialSlashes (List.replicate k '/' ++ s) = k := by
  rcases hk with rfl | rfl
  · cases s with
    | nil => simp [initialSlashes, List.replicate]
    | cons c cs =>
      have : c ≠ '/' := fun e => hs (by simp [e])
      simp [initialSlashes, List.replicate, this, Ne.symm this]
  · cases s with
    | nil => simp [initialSlashes, List.replicate]
    | cons c cs =>
      have : c ≠ '/' := fun e => hs (by simp [e])
      simp [initialSlashes, List.replicate, this, Ne.symm this]

theorem filter_keep_split_join (cs : List Str) (h : ∀ c ∈ cs, '/' ∉ c) :
    (splitOn '/' (joinSep ['/'] cs)).filter keep = cs.filter keep := by
  cases cs with
  | nil => simp [joinSep, splitOn, keep]
  | cons a r => rw [splitOn_joinSep _ (by simp) h]

theorem split_join_noDotDot (cs : List Str) (h : ∀ c ∈ cs, '/' ∉ c ∧ c ≠ dotdot) :
    ∀ c ∈ splitOn '/' (joinSep ['/'] cs), c ≠ dotdot := by
  cases cs with
  | nil => intro c hc; simp [joinSep, splitOn] at hc; simp [hc, dotdot]
  | cons a r =>
    rw [splitOn_joinSep _ (by simp) (fun c hc => (h c hc).1)]
    exact fun c hc => (h c hc).2

/-- `normpath` on a path that is already "slashes ++ components joined by `/`" with no `..` component:
    the empty and `.` components are dropped, nothing else changes. -/
theorem normpath_canon (k : Nat) (hk : k = 1 ∨ k = 2) (cs : List Str)
    (hs : ∀ c ∈ cs, '/' ∉ c ∧ c ≠ dotdot) (hh : (joinSep ['/'] cs).head? ≠ some '/') :
    normpath (List.replicate k '/' ++ joinSep ['/'] cs) = List.replicate k '/' ++ joinSep ['/'] (cs.filter keep) := by
  have hne : List.replicate k '/' ++ joinSep ['/'] cs ≠ [] := by
    rcases hk with rfl | rfl <;> simp [List.replicate]
  have hr : ∀ x : Str, List.replicate k '/' ++ x ≠ [] := by
    intro x; rcases hk with rfl | rfl <;> simp [List.replicate]
  unfold normpath
  simp only [hne, if_false]
  rw [initialSlashes_replicate k hk _ hh, splitOn_replicate, List.foldl_append, foldl_replicate_nil,
    foldl_noDotDot _ _ _ (split_join_noDotDot cs hs)]
  simp only [List.append_nil, List.reverse_reverse]
  rw [filter_keep_split_join cs (fun c hc => (hs c hc).1)]
  simp [hr]

/-! ### the regex fragment -/

theorem search_of_suffix_match (rx : List Alt) (a : Alt) (ha : a ∈ rx) (pre s : Str) (hm : a.matchAt s = true) :
    search rx (pre ++ s) = true := by
  induction pre with
  | nil =>
    cases s with
    | nil => simp only [List.nil_append, search, List.any_eq_true]; exact ⟨a, ha, hm⟩
    | cons c cs =>
      simp only [List.nil_append, search, Bool.or_eq_true, List.any_eq_true]
      exact Or.inl ⟨a, ha, hm⟩
  | cons c cs ih => simp only [List.cons_append, search, Bool.or_eq_true]; exact Or.inr ih

/-- a character of a class occurring anywhere makes the search succeed. -/
theorem search_of_cls (rx : List Alt) (cs : List Char) (h : Alt.cls cs ∈ rx) (c : Char) (hc : c ∈ cs)
    (s : Str) (hs : c ∈ s) : search rx s = true := by
  obtain ⟨pre, post, rfl⟩ := List.append_of_mem hs
  exact search_of_suffix_match rx _ h pre (c :: post) (by simp [Alt.matchAt, hc])

/-- a literal occurring anywhere (as an infix) makes the search succeed. -/
theorem search_of_lit (rx : List Alt) (l : Str) (h : Alt.lit l ∈ rx) (s : Str) (hs : l <:+: s) :
    search rx s = true := by
  obtain ⟨pre, post, rfl⟩ := hs
  rw [List.append_assoc]
  exact search_of_suffix_match rx _ h pre (l ++ post) (by simp [Alt.matchAt])

/-- What the proofs need from the regex of the current source (checked against `Generated.C20`):
    it rejects every id that contains `/` or the two-character sequence `..`. -/
theorem rejectRx_has_slash : ∃ cs, Alt.cls cs ∈ rejectRx ∧ '/' ∈ cs := by
  have h : rejectRx.any (fun a => match a with | .cls cs => cs.contains '/' | .lit _ => false) = true := by decide
  obtain ⟨a, ha, hc⟩ := List.any_eq_true.1 h
  cases a with
  | cls cs => exact ⟨cs, ha, by simpa using hc⟩
  | lit l => simp at hc

theorem rejectRx_has_dotdot : Alt.lit dotdot ∈ rejectRx := by decide

theorem not_bad_no_slash {id : Str} (h : bad id = false) : '/' ∉ id := by
  intro hm
  obtain ⟨cs, hcs, hc⟩ := rejectRx_has_slash
  have := search_of_cls rejectRx cs hcs '/' hc id hm
  simp [bad] at h
  rw [h] at this
  exact Bool.noConfusion this

theorem not_bad_no_dotdot {id : Str} (h : bad id = false) : ¬ dotdot <:+: id := by
  intro hm
  have := search_of_lit rejectRx dotdot rejectRx_has_dotdot id hm
  simp [bad] at h
  rw [h] at this
  exact Bool.noConfusion this

/-! ### shape of normalised bases -/

theorem name_keep {c : Str} (h : IsName c) : keep c = true := by
  simp [keep, h.1, h.2.1]

theorem filter_keep_names (cs : List Str) (h : ∀ c ∈ cs, IsName c) : cs.filter keep = cs :=
  List.filter_eq_self.2 (fun c hc => name_keep (h c hc))

theorem getLast?_joinSep_names (cs : List Str) (hne : cs ≠ []) (h : ∀ c ∈ cs, IsName c) :
    ∃ x, (joinSep ['/'] cs).getLast? = some x ∧ x ≠ '/' := by
  induction cs with
  | nil => exact absurd rfl hne
  | cons a rest ih =>
    cases rest with
    | nil =>
      have ha := h a (by simp)
      simp only [joinSep]
      cases hl : a.getLast? with
      | none => exact absurd (List.getLast?_eq_none_iff.1 hl) ha.1
      | some x =>
        refine ⟨x, rfl, ?_⟩
        intro e
        exact ha.2.2.2 (e ▸ List.mem_of_getLast? hl)
    | cons b r =>
      obtain ⟨x, hx, hne'⟩ := ih (by simp) (fun c hc => h c (List.mem_cons_of_mem _ hc))
      refine ⟨x, ?_, hne'⟩
      rw [joinSep_cons_cons, List.getLast?_append, hx]
      rfl

theorem head?_joinSep_names (cs : List Str) (h : ∀ c ∈ cs, IsName c) : (joinSep ['/'] cs).head? ≠ some '/' := by
  cases cs with
  | nil => simp [joinSep]
  | cons a rest =>
    have ha := h a (by simp)
    cases a with
    | nil => exact absurd rfl ha.1
    | cons x xs =>
      have : x ≠ '/' := fun e => ha.2.2.2 (by simp [e])
      cases rest with
      | nil => simp [joinSep, this]
      | cons b r => simp [joinSep_cons_cons, this]

theorem endsWithSlash_base (k : Nat) (hk : k = 1 ∨ k = 2) (cs : List Str) (h : ∀ c ∈ cs, IsName c) :
    endsWithSlash (List.replicate k '/' ++ joinSep ['/'] cs) = decide (cs = []) := by
  cases cs with
  | nil => rcases hk with rfl | rfl <;> simp [endsWithSlash, joinSep, List.replicate]
  | cons a r =>
    obtain ⟨x, hx, hne⟩ := getLast?_joinSep_names (a :: r) (by simp) h
    simp [endsWithSlash, List.getLast?_append, hx, hne]

/-- an `AbsNorm` path is a fixed point of `normpath` … -/
theorem absNorm_fix {b : Str} (h : AbsNorm b) : normpath b = b := by
  obtain ⟨k, cs, hk, hn, rfl⟩ := h
  rw [normpath_canon k hk cs (fun c hc => ⟨(hn c hc).2.2.2, (hn c hc).2.2.1⟩) (head?_joinSep_names cs hn),
    filter_keep_names cs hn]

theorem absNorm_head {b : Str} (h : AbsNorm b) : b.head? = some '/' := by
  obtain ⟨k, cs, hk, _, rfl⟩ := h
  rcases hk with rfl | rfl <;> simp [List.replicate]

/-- … and `normpath` of any absolute path is `AbsNorm`. -/
theorem foldl_names (init : Nat) (hi : init ≠ 0) (l : List Str) (st : List Str)
    (hst : ∀ c ∈ st, IsName c) (hl : ∀ c ∈ l, '/' ∉ c) :
    ∀ c ∈ l.foldl (normStep init) st, IsName c := by
  induction l generalizing st with
  | nil => simpa using hst
  | cons x xs ih =>
    simp only [List.foldl_cons]
    apply ih
    · intro c hc
      unfold normStep at hc
      split at hc
      · exact hst c hc
      · rename_i hskip
        have hx1 : x ≠ [] := fun e => hskip (Or.inl e)
        have hx2 : x ≠ dot := fun e => hskip (Or.inr e)
        split at hc
        · rename_i hcond
          rcases hcond with hd | ⟨h0, _⟩ | hh
          · rcases List.mem_cons.1 hc with rfl | hm
            · exact ⟨hx1, hx2, hd, hl _ (by simp)⟩
            · exact hst c hm
          · exact absurd h0 hi
          · -- the top of the stack is a proper name, never `..`
            cases st with
            | nil => simp at hh
            | cons t ts =>
              simp at hh
              exact absurd hh (hst t (by simp)).2.2.1
        · exact hst c (List.mem_of_mem_tail hc)
    · exact fun c hc => hl c (List.mem_cons_of_mem _ hc)

theorem initialSlashes_abs {p : Str} (h : p.head? = some '/') : initialSlashes p = 1 ∨ initialSlashes p = 2 := by
  cases p with
  | nil => simp at h
  | cons c cs =>
    simp at h
    subst h
    unfold initialSlashes
    have : ['/'].isPrefixOf ('/' :: cs) = true := by simp
    rw [if_pos this]
    split <;> simp

theorem normpath_abs_isNorm {p : Str} (h : p.head? = some '/') : AbsNorm (normpath p) := by
  have hne : p ≠ [] := by intro e; simp [e] at h
  have hi := initialSlashes_abs h
  have hi0 : initialSlashes p ≠ 0 := by rcases hi with e | e <;> rw [e] <;> decide
  have hnames := foldl_names (initialSlashes p) hi0 (splitOn '/' p) [] (by simp) (splitOn_mem_nosep '/' p)
  have hr : List.replicate (initialSlashes p) '/' ++ joinSep ['/'] ((splitOn '/' p).foldl (normStep (initialSlashes p)) []).reverse ≠ [] := by
    rcases hi with e | e <;> rw [e] <;> simp [List.replicate]
  refine ⟨initialSlashes p, ((splitOn '/' p).foldl (normStep (initialSlashes p)) []).reverse, hi, ?_, ?_⟩
  · intro c hc
    exact hnames c (List.mem_reverse.1 hc)
  · unfold normpath
    simp [hne, hr]

theorem pjoin_head {a b : Str} (ha : a.head? = some '/') : (pjoin a b).head? = some '/' := by
  unfold pjoin
  split
  · assumption
  · cases a with
    | nil => simp at ha
    | cons x xs =>
      simp at ha
      subst ha
      split <;> simp

/-- `os.path.abspath` always returns an `AbsNorm` path (the current directory is absolute). -/
theorem abspath_absNorm (cwd p : Str) (hc : cwd.head? = some '/') : AbsNorm (abspath cwd p) := by
  unfold abspath
  split
  · rename_i h; exact normpath_abs_isNorm h
  · exact normpath_abs_isNorm (pjoin_head hc)

/-! ### confinement -/

theorem pjoin_base (k : Nat) (hk : k = 1 ∨ k = 2) (cs : List Str) (h : ∀ c ∈ cs, IsName c) (id : Str)
    (hid : '/' ∉ id) :
    pjoin (List.replicate k '/' ++ joinSep ['/'] cs) id = List.replicate k '/' ++ joinSep ['/'] (cs ++ [id]) ∧
    childPath (List.replicate k '/' ++ joinSep ['/'] cs) id = List.replicate k '/' ++ joinSep ['/'] (cs ++ [id]) := by
  have hh : id.head? ≠ some '/' := by
    intro e
    cases id with
    | nil => simp at e
    | cons x xs => simp at e; exact hid (by simp [e])
  have hne : List.replicate k '/' ++ joinSep ['/'] cs ≠ [] := by
    rcases hk with rfl | rfl <;> simp [List.replicate]
  unfold pjoin childPath
  rw [endsWithSlash_base k hk cs h]
  cases cs with
  | nil => simp [hh, joinSep]
  | cons a r =>
    rw [joinSep_append_single (a :: r) (by simp)]
    simp [hh, hne]

/-- **Confinement of one id.** For every absolute normalised base and every id the regex lets through,
    the loaded path is the base itself (ids `""` and `"."`) or the entry `id` of the base, `id` a proper name. -/
theorem confined_of_noslash {base id : Str} (hb : AbsNorm base) (hns : '/' ∉ id) (hnd : id ≠ dotdot) :
    normpath (pjoin base id) = base ∨ (IsName id ∧ normpath (pjoin base id) = childPath base id) := by
  obtain ⟨k, cs, hk, hn, rfl⟩ := hb
  obtain ⟨hj, hc⟩ := pjoin_base k hk cs hn id hns
  have hcomps : ∀ c ∈ cs ++ [id], '/' ∉ c ∧ c ≠ dotdot := by
    intro c hc
    rcases List.mem_append.1 hc with h | h
    · exact ⟨(hn c h).2.2.2, (hn c h).2.2.1⟩
    · simp at h; subst h; exact ⟨hns, hnd⟩
  have hhead : (joinSep ['/'] (cs ++ [id])).head? ≠ some '/' := by
    cases cs with
    | nil =>
      simp only [List.nil_append, joinSep]
      intro e
      cases id with
      | nil => simp at e
      | cons x xs => simp at e; exact hns (by simp [e])
    | cons a r =>
      rw [joinSep_append_single (a :: r) (by simp)]
      have := head?_joinSep_names (a :: r) hn
      cases hj' : joinSep ['/'] (a :: r) with
      | nil =>
        -- impossible: the first component is non-empty
        have ha := (hn a (by simp)).1
        cases r with
        | nil => simp [joinSep] at hj'; exact absurd hj' ha
        | cons b r' => rw [joinSep_cons_cons] at hj'; simp at hj'
      | cons x xs => rw [hj'] at this; simpa using this
  rw [hj, normpath_canon k hk (cs ++ [id]) hcomps hhead, List.filter_append, filter_keep_names cs hn]
  cases hk' : keep id with
  | false => left; simp [List.filter, hk']
  | true =>
    right
    have h1 : id ≠ [] := by intro e; simp [keep, e] at hk'
    have h2 : id ≠ dot := by intro e; simp [keep, e] at hk'
    refine ⟨⟨h1, h2, hnd, hns⟩, ?_⟩
    rw [hc]
    simp [List.filter, hk']

theorem confined_core {base id : Str} (hb : AbsNorm base) (hid : bad id = false) :
    normpath (pjoin base id) = base ∨ (IsName id ∧ normpath (pjoin base id) = childPath base id) :=
  confined_of_noslash hb (not_bad_no_slash hid) (fun e => not_bad_no_dotdot hid (e ▸ List.infix_refl _))

theorem confined_inside_of {base id : Str} (hb : AbsNorm base) (hns : '/' ∉ id) (hnd : id ≠ dotdot) :
    Inside base (normpath (pjoin base id)) := by
  rcases confined_of_noslash hb hns hnd with h | ⟨hn, h⟩
  · exact Or.inl h
  · exact Or.inr ⟨id, hn, h⟩

/-! ### common prefix -/

theorem lcp_append_self (b x : Str) : lcp (b ++ x) b = b := by
  induction b with
  | nil => cases x <;> simp [lcp]
  | cons c cs ih => simp [lcp, ih]

theorem lcp_self (b : Str) : lcp b b = b := by
  have := lcp_append_self b []
  simpa using this

theorem childPath_prefix (base n : Str) : ∃ x, childPath base n = base ++ x := by
  unfold childPath
  split
  · exact ⟨n, rfl⟩
  · exact ⟨'/' :: n, rfl⟩

theorem commonprefix_inside {base p : Str} (h : Inside base p) : commonprefix [p, base] = base := by
  rcases h with rfl | ⟨n, _, rfl⟩
  · simp [commonprefix, lcp_self]
  · obtain ⟨x, hx⟩ := childPath_prefix base n
    simp [commonprefix, hx, lcp_append_self]

theorem confined_inside {base id : Str} (hb : AbsNorm base) (hid : bad id = false) :
    Inside base (normpath (pjoin base id)) := by
  rcases confined_core hb hid with h | ⟨hn, h⟩
  · exact Or.inl h
  · exact Or.inr ⟨id, hn, h⟩

/-! ### `_get_rails` -/

/-- the common-prefix test never fires once the regex test has passed: `checkId` in closed form. -/
theorem checkId_eq {base : Str} (hb : AbsNorm base) (id : Str) :
    checkId base id = if bad id = true then .error .invalidId else .ok (normpath (pjoin base id)) := by
  unfold checkId
  cases hbad : bad id with
  | true => simp
  | false =>
    have := commonprefix_inside (confined_inside hb hbad)
    simp [this]

theorem checkId_ok_inside {base id p : Str} (hb : AbsNorm base) (h : checkId base id = .ok p) :
    bad id = false ∧ Inside base p := by
  rw [checkId_eq hb] at h
  cases hbad : bad id with
  | true => simp [hbad] at h
  | false =>
    simp [hbad] at h
    subst h
    exact ⟨rfl, confined_inside hb hbad⟩

theorem loadAll_inside {base : Str} (hb : AbsNorm base) (pathOk : Str → Bool) (ids : List Str) :
    ∀ p ∈ (loadAll base pathOk ids).1, Inside base p := by
  induction ids with
  | nil => simp [loadAll]
  | cons id rest ih =>
    intro p hp
    unfold loadAll at hp
    split at hp
    · simp at hp
    · rename_i full hfull
      have hin := (checkId_ok_inside hb hfull).2
      split at hp
      · rcases List.mem_cons.1 hp with rfl | hm
        · exact hin
        · exact ih p hm
      · simp at hp; subst hp; exact hin

/-- if the loop completed, every id passed the regex test. -/
theorem loadAll_ok_all_good {base : Str} (pathOk : Str → Bool) (ids : List Str)
    (h : (loadAll base pathOk ids).2 = .ok ()) : ∀ id ∈ ids, bad id = false := by
  induction ids with
  | nil => simp
  | cons id rest ih =>
    unfold loadAll at h
    split at h
    · simp at h
    · rename_i full hfull
      split at h
      · intro x hx
        rcases List.mem_cons.1 hx with rfl | hm
        · unfold checkId at hfull
          cases hb : bad x with
          | true => simp [hb] at hfull
          | false => rfl
        · exact ih h x hm
      · simp at h

def CacheOk (base : Str) (cache : Cache) : Prop := ∀ kp ∈ cache, ∀ p ∈ kp.2, Inside base p

theorem lookup_mem {V : Type} (k : Str) (l : List (Str × V)) (v : V) (h : lookup k l = some v) : (k, v) ∈ l := by
  induction l with
  | nil => simp [lookup] at h
  | cons kv rest ih =>
    obtain ⟨k', v'⟩ := kv
    simp only [lookup] at h
    split at h
    · rename_i e; simp at h; subst e; subst h; simp
    · exact List.mem_cons_of_mem _ (ih h)

theorem loadFresh_inside (cfg : Cfg) (hb : AbsNorm cfg.base) (pathOk : Str → Bool) (cache : Cache) (ids : List Str)
    (hc : CacheOk cfg.base cache) :
    (∀ p ∈ (loadFresh cfg pathOk cache ids).calls, Inside cfg.base p) ∧
    CacheOk cfg.base (loadFresh cfg pathOk cache ids).cache ∧
    (∀ key served, (loadFresh cfg pathOk cache ids).res = .ok (key, served) → ∀ p ∈ served, Inside cfg.base p) := by
  unfold loadFresh
  cases he : effectiveIds cfg ids with
  | error e => exact ⟨by simp, hc, by simp⟩
  | ok ids' =>
    have hin := loadAll_inside hb pathOk ids'
    simp only
    cases hr : (loadAll cfg.base pathOk ids').2 with
    | error e => exact ⟨hin, hc, by simp⟩
    | ok u =>
      refine ⟨hin, ?_, ?_⟩
      · intro kp hkp
        rcases List.mem_cons.1 hkp with rfl | hm
        · exact hin
        · exact hc kp hm
      · intro key served h p hp
        simp at h
        obtain ⟨_, rfl⟩ := h
        exact hin p hp

/-- `_get_rails`: every `from_path` call is inside the root, the cache stays valid, what serves is valid. -/
theorem getRails_inside (cfg : Cfg) (hb : AbsNorm cfg.base) (pathOk : Str → Bool) (cache : Cache) (ids : List Str)
    (hc : CacheOk cfg.base cache) :
    (∀ p ∈ (getRails cfg pathOk cache ids).calls, Inside cfg.base p) ∧
    CacheOk cfg.base (getRails cfg pathOk cache ids).cache ∧
    (∀ key served, (getRails cfg pathOk cache ids).res = .ok (key, served) → ∀ p ∈ served, Inside cfg.base p) := by
  unfold getRails
  cases hl : lookup (cacheKey ids) cache with
  | some paths =>
    refine ⟨by simp, hc, ?_⟩
    intro key served h p hp
    simp at h
    obtain ⟨_, rfl⟩ := h
    exact hc _ (lookup_mem _ _ _ hl) p hp
  | none => exact loadFresh_inside cfg hb pathOk cache ids hc

/-! ### `chat_completion`: configuration side -/

def Inv {M : Type} (cfg : Cfg) (s : State M) : Prop :=
  (∀ p ∈ s.loads, Inside cfg.base p) ∧ CacheOk cfg.base s.cache

theorem finishTurn_frame {M : Type} (cfg : Cfg) (gen : Gen M) (s : State M) (r : Req M) (served : List Str) :
    (finishTurn cfg gen s r served).2.cache = s.cache ∧ (finishTurn cfg gen s r served).2.loads = s.loads ∧
    (finishTurn cfg gen s r served).2.turn = s.turn := by
  unfold finishTurn
  cases ht : threadPart cfg s r with
  | error e => exact ⟨rfl, rfl, rfl⟩
  | ok ku =>
    obtain ⟨key?, used⟩ := ku
    simp only
    split
    · exact ⟨rfl, rfl, rfl⟩
    · cases hg : gen s.turn served used with
      | none => exact ⟨rfl, rfl, rfl⟩
      | some reply => cases key? <;> exact ⟨rfl, rfl, rfl⟩

theorem finishTurn_served {M : Type} (cfg : Cfg) (gen : Gen M) (s : State M) (r : Req M) (served : List Str)
    (reply : M) (used : List M) (sv : List Str)
    (h : (finishTurn cfg gen s r served).1 = .ok reply used sv) : sv = served := by
  unfold finishTurn at h
  cases ht : threadPart cfg s r with
  | error e =>
    rw [ht] at h
    simp only at h
    subst h
    unfold threadPart at ht
    cases hti : r.threadId with
    | none => simp [hti] at ht
    | some t =>
      simp only [hti] at ht
      split at ht
      · simp at ht
      · split at ht
        · simp at ht
        · split at ht <;> simp at ht
  | ok ku =>
    obtain ⟨key?, u⟩ := ku
    rw [ht] at h
    simp only at h
    split at h
    · simp at h
    · cases hg : gen s.turn served u with
      | none => rw [hg] at h; simp at h
      | some reply' => rw [hg] at h; simp at h; exact h.2.2.symm

theorem step_inv {M : Type} (cfg : Cfg) (hb : AbsNorm cfg.base) (pathOk : Str → Bool) (gen : Gen M)
    (s : State M) (r : Req M) (hs : Inv cfg s) :
    Inv cfg (step cfg pathOk gen s r).2 ∧
    (∀ reply used served, (step cfg pathOk gen s r).1 = .ok reply used served → ∀ p ∈ served, Inside cfg.base p) := by
  unfold step
  cases hv : validate r with
  | none => exact ⟨hs, by simp⟩
  | some ids? =>
    simp only
    cases hr : resolveIds cfg ids? with
    | none => exact ⟨hs, by simp⟩
    | some ids =>
      simp only
      have hg := getRails_inside cfg hb pathOk s.cache ids hs.2
      have hinv' : Inv cfg (s.tick.withRails (getRails cfg pathOk s.cache ids)) := by
        refine ⟨?_, hg.2.1⟩
        intro p hp
        rcases List.mem_append.1 hp with h | h
        · exact hs.1 p h
        · exact hg.1 p h
      unfold afterRails
      cases hres : (getRails cfg pathOk s.cache ids).res with
      | error e => exact ⟨hinv', by simp⟩
      | ok ks =>
        obtain ⟨key, served⟩ := ks
        simp only
        have hf := finishTurn_frame cfg gen (s.tick.withRails (getRails cfg pathOk s.cache ids)) r served
        refine ⟨⟨?_, ?_⟩, ?_⟩
        · rw [hf.2.1]; exact hinv'.1
        · rw [hf.1]; exact hinv'.2
        · intro reply used sv h p hp
          have := finishTurn_served cfg gen _ r served reply used sv h
          subst this
          exact hg.2.2 key sv hres p hp

theorem run_inv {M : Type} (cfg : Cfg) (hb : AbsNorm cfg.base) (pathOk : Str → Bool) (gen : Gen M)
    (reqs : List (Req M)) (s : State M) (hs : Inv cfg s) :
    Inv cfg (run cfg pathOk gen s reqs).2 ∧
    (∀ a ∈ (run cfg pathOk gen s reqs).1, ∀ reply used served, a = .ok reply used served → ∀ p ∈ served, Inside cfg.base p) := by
  induction reqs generalizing s with
  | nil => exact ⟨hs, by simp [run]⟩
  | cons r rs ih =>
    have h1 := step_inv cfg hb pathOk gen s r hs
    have h2 := ih (step cfg pathOk gen s r).2 h1.1
    simp only [run]
    refine ⟨h2.1, ?_⟩
    intro a ha
    rcases List.mem_cons.1 ha with rfl | hm
    · exact h1.2
    · exact h2.2 a hm

/-! ### `chat_completion`: thread side -/

theorem threadKey_inj {a b : Str} (h : threadKey a = threadKey b) : a = b := by
  unfold threadKey at h
  exact List.append_cancel_left h

/-- what the datastore holds for thread `tid` (`json.loads(await datastore.get(key) or "[]")`). -/
def stored {M : Type} (s : State M) (tid : Str) : List M := (s.get (threadKey tid)).getD []

/-- the messages a request/response pair appends to thread `tid`: a completed (non-streaming) turn
    carrying that thread id appends its new messages and the reply; nothing else appends anything. -/
def contrib {M : Type} (tid : Str) (r : Req M) : Resp M → List M
  | .ok reply _ _ => if r.threadId = some tid then newMsgs r ++ [reply] else []
  | _ => []

/-- the abstract thread: concatenation of the contributions of a request/response history. -/
def hist {M : Type} (tid : Str) : List (Req M) → List (Resp M) → List M
  | r :: rs, a :: as => contrib tid r a ++ hist tid rs as
  | _, _ => []

theorem fieldMin_pos : 0 < fieldMinThread := by decide
theorem handlerMin_le_fieldMin : handlerMinThread ≤ fieldMinThread := by decide

theorem validate_thread {M : Type} (r : Req M) (x : Option (List Str)) (h : validate r = some x) (t : Str)
    (ht : r.threadId = some t) : fieldMinThread ≤ t.length ∧ t.length ≤ fieldMaxThread := by
  unfold validate at h
  split at h
  · simp at h
  · split at h
    · simp at h
    · rename_i hok
      simp [ht, threadIdOk] at hok
      exact hok

theorem threadPart_error {M : Type} (cfg : Cfg) (s : State M) (r : Req M) (e : Resp M)
    (h : threadPart cfg s r = .error e) : e = .internalError ∨ e = .threadTooShort := by
  unfold threadPart at h
  cases hti : r.threadId with
  | none => simp [hti] at h
  | some t =>
    simp only [hti] at h
    split at h
    · simp at h
    · split at h
      · simp at h; exact Or.inl h.symm
      · split at h
        · simp at h; exact Or.inr h.symm
        · simp at h

theorem threadPart_ok {M : Type} (cfg : Cfg) (s : State M) (r : Req M) (key? : Option Str) (used : List M)
    (h : threadPart cfg s r = .ok (key?, used)) :
    ((r.threadId = none ∨ r.threadId = some []) ∧ key? = none ∧ used = newMsgs r) ∨
    (∃ t, r.threadId = some t ∧ t ≠ [] ∧ handlerMinThread ≤ t.length ∧ cfg.hasStore = true ∧
      key? = some (threadKey t) ∧ used = stored s t ++ newMsgs r) := by
  unfold threadPart at h
  cases hti : r.threadId with
  | none => simp [hti] at h; exact Or.inl ⟨Or.inl rfl, h.1.symm, h.2.symm⟩
  | some t =>
    simp only [hti] at h
    split at h
    · rename_i ht
      simp at h
      exact Or.inl ⟨Or.inr (by rw [ht]), h.1.symm, h.2.symm⟩
    · rename_i ht
      split at h
      · simp at h
      · rename_i hst
        split at h
        · simp at h
        · rename_i hlen
          simp at h
          refine Or.inr ⟨t, rfl, ht, Nat.le_of_not_lt hlen, by simpa using hst, h.1.symm, ?_⟩
          rw [← h.2]; rfl

theorem get_cons {M : Type} (s : State M) (k k' : Str) (v : List M) :
    ({ s with store := (k, v) :: s.store } : State M).get k' = if k = k' then some v else s.get k' := by
  simp [State.get, lookup]

/-- the store effect of the turn: thread `tid` grows by exactly the contribution of this turn. -/
theorem finishTurn_store {M : Type} (cfg : Cfg) (gen : Gen M) (s : State M) (r : Req M) (served : List Str)
    (hne : ∀ t, r.threadId = some t → t ≠ []) (tid : Str) :
    stored (finishTurn cfg gen s r served).2 tid = stored s tid ++ contrib tid r (finishTurn cfg gen s r served).1 := by
  unfold finishTurn
  cases ht : threadPart cfg s r with
  | error e =>
    simp only
    rcases threadPart_error cfg s r e ht with rfl | rfl <;> simp [contrib]
  | ok ku =>
    obtain ⟨key?, used⟩ := ku
    simp only
    split
    · simp [contrib]
    · cases hg : gen s.turn served used with
      | none => simp [contrib]
      | some reply =>
        simp only
        rcases threadPart_ok cfg s r key? used ht with ⟨hth, rfl, rfl⟩ | ⟨t, hth, htne, _, _, rfl, rfl⟩
        · rcases hth with h | h
          · simp [contrib, h]
          · exact absurd rfl (hne [] h)
        · simp only [contrib, hth, stored, get_cons]
          by_cases e : t = tid
          · subst e; simp
          · have : threadKey t ≠ threadKey tid := fun h => e (threadKey_inj h)
            simp [this, e]

/-- keys that are not thread keys are never written. -/
theorem finishTurn_other_keys {M : Type} (cfg : Cfg) (gen : Gen M) (s : State M) (r : Req M) (served : List Str)
    (k : Str) (hk : ∀ t, k ≠ threadKey t) : (finishTurn cfg gen s r served).2.get k = s.get k := by
  unfold finishTurn
  cases ht : threadPart cfg s r with
  | error e => rfl
  | ok ku =>
    obtain ⟨key?, used⟩ := ku
    simp only
    split
    · rfl
    · cases hg : gen s.turn served used with
      | none => rfl
      | some reply =>
        simp only
        rcases threadPart_ok cfg s r key? used ht with ⟨_, rfl, _⟩ | ⟨t, _, _, _, _, rfl, _⟩
        · rfl
        · simp only [get_cons]
          have : threadKey t ≠ k := fun h => hk t h.symm
          simp [this]

/-- the messages used for a turn and what is written back. -/
theorem finishTurn_used {M : Type} (cfg : Cfg) (gen : Gen M) (s : State M) (r : Req M) (served : List Str)
    (hne : ∀ t, r.threadId = some t → t ≠ []) :
    (∀ reply used sv, (finishTurn cfg gen s r served).1 = .ok reply used sv →
      used = (match r.threadId with | some t => stored s t | none => []) ++ newMsgs r ∧
      (∀ t, r.threadId = some t → (finishTurn cfg gen s r served).2.get (threadKey t) = some (used ++ [reply])) ∧
      gen s.turn served used = some reply) ∧
    (∀ used, (finishTurn cfg gen s r served).1 = .streaming used →
      used = (match r.threadId with | some t => stored s t | none => []) ++ newMsgs r ∧
      (finishTurn cfg gen s r served).2 = s) := by
  unfold finishTurn
  cases ht : threadPart cfg s r with
  | error e =>
    simp only
    rcases threadPart_error cfg s r e ht with rfl | rfl <;> simp
  | ok ku =>
    obtain ⟨key?, used⟩ := ku
    simp only
    have hused : used = (match r.threadId with | some t => stored s t | none => []) ++ newMsgs r := by
      rcases threadPart_ok cfg s r key? used ht with ⟨hth, _, rfl⟩ | ⟨t, hth, _, _, _, _, rfl⟩
      · rcases hth with h | h
        · simp [h]
        · exact absurd rfl (hne [] h)
      · simp [hth]
    split
    · refine ⟨by simp, ?_⟩
      intro u hu
      simp at hu
      subst hu
      exact ⟨hused, rfl⟩
    · cases hg : gen s.turn served used with
      | none => simp
      | some reply =>
        simp only
        refine ⟨?_, by simp⟩
        intro reply' used' sv h
        simp at h
        obtain ⟨rfl, rfl, rfl⟩ := h
        refine ⟨hused, ?_, hg⟩
        intro t hth
        rcases threadPart_ok cfg s r key? used ht with ⟨hth', _, _⟩ | ⟨t', hth', _, _, _, rfl, _⟩
        · rcases hth' with h | h
          · rw [h] at hth; simp at hth
          · exact absurd rfl (hne [] h)
        · rw [hth] at hth'
          simp at hth'
          subst hth'
          simp [get_cons]

theorem step_cases {M : Type} (cfg : Cfg) (pathOk : Str → Bool) (gen : Gen M) (s : State M) (r : Req M) :
    ((step cfg pathOk gen s r).2.store = s.store ∧
      (∀ reply used sv, (step cfg pathOk gen s r).1 ≠ .ok reply used sv) ∧
      (∀ used, (step cfg pathOk gen s r).1 ≠ .streaming used)) ∨
    (∃ ids? ids key served, validate r = some ids? ∧ resolveIds cfg ids? = some ids ∧
      (getRails cfg pathOk s.cache ids).res = .ok (key, served) ∧
      step cfg pathOk gen s r = finishTurn cfg gen (s.tick.withRails (getRails cfg pathOk s.cache ids)) r served) := by
  unfold step
  cases hv : validate r with
  | none => left; simp [State.tick]
  | some ids? =>
    simp only
    cases hr : resolveIds cfg ids? with
    | none => left; simp [State.tick]
    | some ids =>
      simp only
      unfold afterRails
      cases hres : (getRails cfg pathOk s.cache ids).res with
      | error e => left; simp [State.withRails, State.tick]
      | ok ks =>
        obtain ⟨key, served⟩ := ks
        right
        exact ⟨ids?, ids, key, served, rfl, hr, hres, rfl⟩

theorem validate_ne_nil {M : Type} (r : Req M) (x : Option (List Str)) (h : validate r = some x) :
    ∀ t, r.threadId = some t → t ≠ [] := by
  intro t ht e
  have := (validate_thread r x h t ht).1
  subst e
  have hp := fieldMin_pos
  simp at this
  omega

theorem stored_withRails {M : Type} (s : State M) (g : RailsRes) (tid : Str) :
    stored (s.tick.withRails g) tid = stored s tid := rfl

theorem step_store {M : Type} (cfg : Cfg) (pathOk : Str → Bool) (gen : Gen M) (s : State M) (r : Req M) (tid : Str) :
    stored (step cfg pathOk gen s r).2 tid = stored s tid ++ contrib tid r (step cfg pathOk gen s r).1 := by
  rcases step_cases cfg pathOk gen s r with ⟨hst, hok, _⟩ | ⟨ids?, ids, key, served, hv, _, _, heq⟩
  · have : contrib tid r (step cfg pathOk gen s r).1 = [] := by
      cases h : (step cfg pathOk gen s r).1 with
      | ok reply used sv => exact absurd h (hok reply used sv)
      | _ => rfl
    rw [this]
    simp [stored, State.get, hst]
  · rw [heq, finishTurn_store cfg gen _ r served (validate_ne_nil r ids? hv) tid, stored_withRails]

theorem run_store {M : Type} (cfg : Cfg) (pathOk : Str → Bool) (gen : Gen M) (reqs : List (Req M)) (s : State M) (tid : Str) :
    stored (run cfg pathOk gen s reqs).2 tid = stored s tid ++ hist tid reqs (run cfg pathOk gen s reqs).1 := by
  induction reqs generalizing s with
  | nil => simp [run, hist]
  | cons r rs ih =>
    simp only [run, hist]
    rw [ih, step_store, List.append_assoc]

theorem run_length {M : Type} (cfg : Cfg) (pathOk : Str → Bool) (gen : Gen M) (reqs : List (Req M)) (s : State M) :
    (run cfg pathOk gen s reqs).1.length = reqs.length := by
  induction reqs generalizing s with
  | nil => rfl
  | cons r rs ih => simp [run, ih]

theorem step_other_keys {M : Type} (cfg : Cfg) (pathOk : Str → Bool) (gen : Gen M) (s : State M) (r : Req M)
    (k : Str) (hk : ∀ t, k ≠ threadKey t) : (step cfg pathOk gen s r).2.get k = s.get k := by
  rcases step_cases cfg pathOk gen s r with ⟨hst, _, _⟩ | ⟨ids?, ids, key, served, _, _, _, heq⟩
  · simp [State.get, hst]
  · rw [heq, finishTurn_other_keys cfg gen _ r served k hk]; rfl

theorem step_used {M : Type} (cfg : Cfg) (pathOk : Str → Bool) (gen : Gen M) (s : State M) (r : Req M) :
    (∀ reply used sv, (step cfg pathOk gen s r).1 = .ok reply used sv →
      used = (match r.threadId with | some t => stored s t | none => []) ++ newMsgs r ∧
      (∀ t, r.threadId = some t → (step cfg pathOk gen s r).2.get (threadKey t) = some (used ++ [reply])) ∧
      gen (s.turn + 1) sv used = some reply) ∧
    (∀ used, (step cfg pathOk gen s r).1 = .streaming used →
      used = (match r.threadId with | some t => stored s t | none => []) ++ newMsgs r ∧
      (step cfg pathOk gen s r).2.store = s.store) := by
  rcases step_cases cfg pathOk gen s r with ⟨_, hok, hstr⟩ | ⟨ids?, ids, key, served, hv, _, _, heq⟩
  · exact ⟨fun reply used sv h => absurd h (hok reply used sv), fun used h => absurd h (hstr used)⟩
  · have hf := finishTurn_used cfg gen (s.tick.withRails (getRails cfg pathOk s.cache ids)) r served (validate_ne_nil r ids? hv)
    rw [heq]
    refine ⟨?_, ?_⟩
    · intro reply used sv h
      have hsv := finishTurn_served cfg gen _ r served reply used sv h
      subst hsv
      obtain ⟨h1, h2, h3⟩ := hf.1 reply used sv h
      exact ⟨h1, h2, h3⟩
    · intro used h
      obtain ⟨h1, h2⟩ := hf.2 used h
      refine ⟨h1, ?_⟩
      rw [h2]; rfl

theorem inside_absNorm {base p : Str} (hb : AbsNorm base) (h : Inside base p) : AbsNorm p := by
  rcases h with rfl | ⟨n, hn, rfl⟩
  · exact hb
  · obtain ⟨k, cs, hk, hcs, rfl⟩ := hb
    rw [(pjoin_base k hk cs hcs n hn.2.2.2).2]
    refine ⟨k, cs ++ [n], hk, ?_, rfl⟩
    intro c hc
    rcases List.mem_append.1 hc with h | h
    · exact hcs c h
    · simp at h; subst h; exact hn

/-! ### monotonicity of the search, cache keys -/

theorem matchAt_mono (a : Alt) (s x : Str) (h : a.matchAt s = true) : a.matchAt (s ++ x) = true := by
  cases a with
  | cls cs =>
    cases s with
    | nil => simp [Alt.matchAt] at h
    | cons c r => simpa [Alt.matchAt] using h
  | lit l =>
    simp only [Alt.matchAt] at h ⊢
    obtain ⟨t, ht⟩ := List.isPrefixOf_iff_prefix.1 h
    exact List.isPrefixOf_iff_prefix.2 ⟨t ++ x, by rw [← ht]; simp⟩

theorem search_iff (rx : List Alt) (s : Str) :
    search rx s = true ↔ ∃ a ∈ rx, ∃ pre suf, s = pre ++ suf ∧ a.matchAt suf = true := by
  constructor
  · intro h
    induction s with
    | nil =>
      simp only [search, List.any_eq_true] at h
      obtain ⟨a, ha, hm⟩ := h
      exact ⟨a, ha, [], [], rfl, hm⟩
    | cons c cs ih =>
      simp only [search, Bool.or_eq_true, List.any_eq_true] at h
      rcases h with ⟨a, ha, hm⟩ | h
      · exact ⟨a, ha, [], c :: cs, rfl, hm⟩
      · obtain ⟨a, ha, pre, suf, e, hm⟩ := ih h
        exact ⟨a, ha, c :: pre, suf, by rw [e]; rfl, hm⟩
  · rintro ⟨a, ha, pre, suf, rfl, hm⟩
    exact search_of_suffix_match rx a ha pre suf hm

/-- `re.search` is monotone under taking a superstring. -/
theorem search_infix_mono (rx : List Alt) (a b : Str) (hab : a <:+: b) (h : search rx a = true) : search rx b = true := by
  obtain ⟨p, q, rfl⟩ := hab
  obtain ⟨alt, halt, pre, suf, rfl, hm⟩ := (search_iff rx a).1 h
  have : p ++ (pre ++ suf) ++ q = (p ++ pre) ++ (suf ++ q) := by simp
  rw [this]
  exact search_of_suffix_match rx alt halt (p ++ pre) (suf ++ q) (matchAt_mono alt suf q hm)

theorem mem_infix_joinSep (sep : Str) (ids : List Str) (id : Str) (h : id ∈ ids) : id <:+: joinSep sep ids := by
  induction ids with
  | nil => simp at h
  | cons a rest ih =>
    cases rest with
    | nil => simp at h; subst h; simp [joinSep]
    | cons b r =>
      rw [joinSep]
      rcases List.mem_cons.1 h with rfl | hm
      · exact ⟨[], sep ++ joinSep sep (b :: r), by simp⟩
      · obtain ⟨p, q, e⟩ := ih hm
        exact ⟨a ++ sep ++ p, q, by rw [← e]; simp⟩
        

/-! ### cache keys of validated id lists are never matched by the regex -/

/-- the separator character `d` occurs in no class and in no literal of `rx`. -/
def sepFreeB (rx : List Alt) (d : Char) : Bool :=
  rx.all fun a => match a with
    | .cls cs => !cs.contains d
    | .lit l => !l.contains d

theorem prefix_of_sep {l t y : Str} {d : Char} (hd : d ∉ l) (h : l <+: t ++ d :: y) : l <+: t := by
  induction l generalizing t with
  | nil => exact List.nil_prefix
  | cons c l' ih =>
    cases t with
    | nil =>
      simp at h
      exact absurd h.1 (fun e => hd (by simp [e]))
    | cons c' t' =>
      simp only [List.cons_append, List.cons_prefix_cons] at h
      obtain ⟨rfl, h'⟩ := h
      have := ih (fun m => hd (List.mem_cons_of_mem _ m)) h'
      exact List.cons_prefix_cons.2 ⟨rfl, this⟩

theorem search_split (rx : List Alt) (d : Char) (hf : sepFreeB rx d = true) (x y : Str)
    (h : search rx (x ++ d :: y) = true) : search rx x = true ∨ search rx y = true := by
  obtain ⟨alt, halt, pre, suf, e, hm⟩ := (search_iff rx _).1 h
  have hfa := List.all_eq_true.1 hf alt halt
  rcases List.append_eq_append_iff.1 e with ⟨t, rfl, e2⟩ | ⟨t, rfl, e2⟩
  · -- pre = x ++ t, d :: y = t ++ suf
    cases t with
    | nil =>
      simp at e2
      subst e2
      cases alt with
      | cls cs =>
        simp [Alt.matchAt] at hm
        simp at hfa
        exact absurd hm hfa
      | lit l =>
        simp only [Alt.matchAt] at hm
        have hp := List.isPrefixOf_iff_prefix.1 hm
        simp at hfa
        cases l with
        | nil => left; exact search_of_suffix_match rx _ halt x [] (by simp [Alt.matchAt]) |> (by simpa using ·)
        | cons c l' =>
          simp only [List.cons_prefix_cons] at hp
          exact absurd hp.1 (fun e => hfa (by simp [e]))
    | cons c t' =>
      simp only [List.cons_append, List.cons.injEq] at e2
      obtain ⟨_, rfl⟩ := e2
      right
      exact search_of_suffix_match rx _ halt t' suf hm
  · -- x = pre ++ t, suf = t ++ d :: y
    subst e2
    left
    cases alt with
    | cls cs =>
      cases t with
      | nil =>
        simp [Alt.matchAt] at hm
        simp at hfa
        exact absurd hm hfa
      | cons c t' =>
        exact search_of_suffix_match rx _ halt pre (c :: t') (by simpa [Alt.matchAt] using hm)
    | lit l =>
      simp only [Alt.matchAt] at hm
      have hp := List.isPrefixOf_iff_prefix.1 hm
      simp at hfa
      have := prefix_of_sep hfa hp
      exact search_of_suffix_match rx _ halt pre t (by simpa [Alt.matchAt] using List.isPrefixOf_iff_prefix.2 this)

theorem search_joinSep (rx : List Alt) (d : Char) (hf : sepFreeB rx d = true) (ids : List Str)
    (h : search rx (joinSep [d] ids) = true) (hne : ids ≠ []) : ∃ id ∈ ids, search rx id = true := by
  induction ids with
  | nil => exact absurd rfl hne
  | cons a rest ih =>
    cases rest with
    | nil => exact ⟨a, by simp, by simpa [joinSep] using h⟩
    | cons b r =>
      rw [joinSep_cons_cons] at h
      have e : a ++ [d] ++ joinSep [d] (b :: r) = a ++ d :: joinSep [d] (b :: r) := by simp
      rw [e] at h
      rcases search_split rx d hf _ _ h with h1 | h2
      · exact ⟨a, by simp, h1⟩
      · obtain ⟨id, hid, hs⟩ := ih h2 (by simp)
        exact ⟨id, List.mem_cons_of_mem _ hid, hs⟩

/-- fact about the generated data: the key separator is one character that the regex never mentions. -/
theorem keySep_sepFree : ∃ d, keySep = [d] ∧ sepFreeB rejectRx d = true := by
  have h : (match keySep with | [d] => sepFreeB rejectRx d | _ => false) = true := by decide
  cases hk : keySep with
  | nil => rw [hk] at h; simp at h
  | cons d r =>
    cases r with
    | nil => rw [hk] at h; exact ⟨d, rfl, h⟩
    | cons _ _ => rw [hk] at h; simp at h

/-- a non-empty list of ids that all pass the regex has a cache key that passes the regex, and
    conversely a list with a matching id has a matching key: rejected and accepted lists never share a key. -/
theorem cacheKey_good (ids : List Str) (hne : ids ≠ []) (h : ∀ id ∈ ids, bad id = false) : bad (cacheKey ids) = false := by
  obtain ⟨d, hd, hf⟩ := keySep_sepFree
  cases hb : bad (cacheKey ids) with
  | false => rfl
  | true =>
    unfold bad cacheKey at hb
    rw [hd] at hb
    obtain ⟨id, hid, hs⟩ := search_joinSep rejectRx d hf ids hb hne
    have := h id hid
    unfold bad at this
    rw [this] at hs
    exact Bool.noConfusion hs

theorem cacheKey_bad (ids : List Str) (id : Str) (hid : id ∈ ids) (h : bad id = true) : bad (cacheKey ids) = true :=
  search_infix_mono rejectRx id _ (mem_infix_joinSep keySep ids id hid) h

def KeysGood (cache : Cache) : Prop := ∀ kp ∈ cache, bad kp.1 = false

theorem lookup_keysGood (cache : Cache) (hk : KeysGood cache) (key : Str) (hb : bad key = true) : lookup key cache = none := by
  cases h : lookup key cache with
  | none => rfl
  | some v =>
    have := hk _ (lookup_mem key cache v h)
    simp at this
    rw [this] at hb
    exact Bool.noConfusion hb

theorem getRails_keysGood (cfg : Cfg) (hs : cfg.single = none) (pathOk : Str → Bool) (cache : Cache) (ids : List Str)
    (hne : ids ≠ []) (hk : KeysGood cache) : KeysGood (getRails cfg pathOk cache ids).cache := by
  unfold getRails
  cases hl : lookup (cacheKey ids) cache with
  | some paths => exact hk
  | none =>
    simp only [loadFresh, effectiveIds, hs]
    cases hr : (loadAll cfg.base pathOk ids).2 with
    | error e => exact hk
    | ok u =>
      intro kp hkp
      rcases List.mem_cons.1 hkp with rfl | hm
      · exact cacheKey_good ids hne (loadAll_ok_all_good pathOk ids hr)
      · exact hk kp hm

/-- multi-config mode, valid cache: a request naming an id the regex matches is refused, whatever is cached. -/
theorem getRails_bad (cfg : Cfg) (hs : cfg.single = none) (pathOk : Str → Bool) (cache : Cache) (ids : List Str)
    (hk : KeysGood cache) (hbad : ∃ id ∈ ids, bad id = true) :
    (∃ e, (getRails cfg pathOk cache ids).res = .error e) ∧ (getRails cfg pathOk cache ids).cache = cache := by
  obtain ⟨id, hid, hb⟩ := hbad
  have hmiss := lookup_keysGood cache hk _ (cacheKey_bad ids id hid hb)
  unfold getRails
  rw [hmiss]
  simp only [loadFresh, effectiveIds, hs]
  cases hr : (loadAll cfg.base pathOk ids).2 with
  | error e => exact ⟨⟨e, rfl⟩, rfl⟩
  | ok u =>
    have := loadAll_ok_all_good pathOk ids hr id hid
    rw [this] at hb
    exact Bool.noConfusion hb

theorem resolveIds_ne_nil (cfg : Cfg) (x : Option (List Str)) (ids : List Str) (h : resolveIds cfg x = some ids) : ids ≠ [] := by
  unfold resolveIds at h
  split at h
  · simp at h; rw [← h]; simp
  · split at h
    · split at h
      · simp at h
      · simp at h; rw [← h]; simp
    · simp at h

theorem step_keysGood {M : Type} (cfg : Cfg) (hs : cfg.single = none) (pathOk : Str → Bool) (gen : Gen M)
    (s : State M) (r : Req M) (hk : KeysGood s.cache) : KeysGood (step cfg pathOk gen s r).2.cache := by
  unfold step
  cases hv : validate r with
  | none => exact hk
  | some ids? =>
    simp only
    cases hr : resolveIds cfg ids? with
    | none => exact hk
    | some ids =>
      simp only
      have hg := getRails_keysGood cfg hs pathOk s.cache ids (resolveIds_ne_nil cfg ids? ids hr) hk
      unfold afterRails
      cases hres : (getRails cfg pathOk s.cache ids).res with
      | error e => exact hg
      | ok ks =>
        obtain ⟨key, served⟩ := ks
        simp only
        rw [(finishTurn_frame cfg gen _ r served).1]
        exact hg

theorem run_keysGood {M : Type} (cfg : Cfg) (hs : cfg.single = none) (pathOk : Str → Bool) (gen : Gen M)
    (reqs : List (Req M)) (s : State M) (hk : KeysGood s.cache) : KeysGood (run cfg pathOk gen s reqs).2.cache := by
  induction reqs generalizing s with
  | nil => exact hk
  | cons r rs ih => simp only [run]; exact ih _ (step_keysGood cfg hs pathOk gen s r hk)

theorem step_bad {M : Type} (cfg : Cfg) (hs : cfg.single = none) (pathOk : Str → Bool) (gen : Gen M)
    (s : State M) (r : Req M) (hk : KeysGood s.cache) (ids? : Option (List Str)) (ids : List Str)
    (hv : validate r = some ids?) (hr : resolveIds cfg ids? = some ids) (hbad : ∃ id ∈ ids, bad id = true) :
    (step cfg pathOk gen s r).1 = .couldNotLoad ids ∧ (step cfg pathOk gen s r).2.cache = s.cache ∧
    (step cfg pathOk gen s r).2.store = s.store := by
  obtain ⟨⟨e, he⟩, hc⟩ := getRails_bad cfg hs pathOk s.cache ids hk hbad
  refine ⟨by simp [step, hv, hr, afterRails, he], ?_, ?_⟩
  · simp [step, hv, hr, afterRails, he, State.withRails, State.tick, hc]
  · simp [step, hv, hr, afterRails, he, State.withRails, State.tick]


/-! ### confinement from the separator class and the prefix test alone -/

theorem lcp_prefix_left (a b : Str) : lcp a b <+: a := by
  induction a generalizing b with
  | nil => simp [lcp]
  | cons x xs ih =>
    cases b with
    | nil => simp [lcp]
    | cons y ys =>
      simp only [lcp]
      split
      · exact List.cons_prefix_cons.2 ⟨rfl, ih ys⟩
      · exact List.nil_prefix

theorem joinSep_dropLast_prefix (cs : List Str) : joinSep ['/'] cs.dropLast <+: joinSep ['/'] cs := by
  rcases List.eq_nil_or_concat cs with rfl | ⟨l, x, rfl⟩
  · simp
  · simp only [List.concat_eq_append, List.dropLast_concat]
    cases l with
    | nil => simp [joinSep]
    | cons a r =>
      rw [joinSep_append_single (a :: r) (by simp)]
      exact List.prefix_append _ _

/-- `normpath` of `base/..` for a normalised base: the last component is dropped. -/
theorem normpath_parent (k : Nat) (hk : k = 1 ∨ k = 2) (cs : List Str) (hn : ∀ c ∈ cs, IsName c) :
    normpath (List.replicate k '/' ++ joinSep ['/'] (cs ++ [dotdot])) = List.replicate k '/' ++ joinSep ['/'] cs.dropLast := by
  have hk0 : k ≠ 0 := by rcases hk with rfl | rfl <;> decide
  have hnosl : ∀ c ∈ cs ++ [dotdot], '/' ∉ c := by
    intro c hc
    rcases List.mem_append.1 hc with h | h
    · exact (hn c h).2.2.2
    · simp at h; subst h; decide
  have hhead : (joinSep ['/'] (cs ++ [dotdot])).head? ≠ some '/' := by
    cases cs with
    | nil => simp [joinSep, dotdot]
    | cons a r =>
      have ha := hn a (by simp)
      cases a with
      | nil => exact absurd rfl ha.1
      | cons x xs =>
        have : x ≠ '/' := fun e => ha.2.2.2 (by simp [e])
        cases hr : r ++ [dotdot] with
        | nil => simp at hr
        | cons b r' => simp [hr, joinSep_cons_cons, this]
  have hne : List.replicate k '/' ++ joinSep ['/'] (cs ++ [dotdot]) ≠ [] := by
    rcases hk with rfl | rfl <;> simp [List.replicate]
  have hr : ∀ x : Str, List.replicate k '/' ++ x ≠ [] := by
    intro x; rcases hk with rfl | rfl <;> simp [List.replicate]
  unfold normpath
  simp only [hne, if_false]
  rw [initialSlashes_replicate k hk _ hhead, splitOn_replicate, List.foldl_append, foldl_replicate_nil,
    splitOn_joinSep _ (by simp) hnosl, List.foldl_append,
    foldl_noDotDot _ cs _ (fun c hc => (hn c hc).2.2.1), filter_keep_names cs hn]
  simp only [List.append_nil, List.foldl_cons, List.foldl_nil]
  have hstep : normStep k cs.reverse dotdot = cs.reverse.tail := by
    unfold normStep
    have h1 : ¬ (dotdot = [] ∨ dotdot = dot) := by decide
    have h2 : ¬ (dotdot ≠ dotdot ∨ (k = 0 ∧ cs.reverse = []) ∨ cs.reverse.head? = some dotdot) := by
      rintro (h | ⟨h, _⟩ | h)
      · exact h rfl
      · exact hk0 h
      · have hm : dotdot ∈ cs.reverse := List.mem_of_head? h
        exact (hn dotdot (List.mem_reverse.1 hm)).2.2.1 rfl
    rw [if_neg h1, if_neg h2]
  rw [hstep]
  have : cs.reverse.tail.reverse = cs.dropLast := by
    rw [List.tail_reverse, List.reverse_reverse]
  rw [this]
  simp [hr]

/-- Confinement from the separator class and the prefix test alone (no `..` rule needed):
    if `id` contains no `/` and the common-prefix test passes, the path is inside the root. -/
theorem inside_of_noslash_prefix {base id : Str} (hb : AbsNorm base) (hs : '/' ∉ id)
    (hcp : commonprefix [normpath (pjoin base id), base] = base) : Inside base (normpath (pjoin base id)) := by
  by_cases hd : id = dotdot
  · subst hd
    obtain ⟨k, cs, hk, hn, rfl⟩ := hb
    rw [(pjoin_base k hk cs hn dotdot hs).1, normpath_parent k hk cs hn] at hcp ⊢
    left
    simp only [commonprefix, List.foldl_cons, List.foldl_nil] at hcp
    have h1 : List.replicate k '/' ++ joinSep ['/'] cs <+: List.replicate k '/' ++ joinSep ['/'] cs.dropLast := by
      have := lcp_prefix_left (List.replicate k '/' ++ joinSep ['/'] cs.dropLast) (List.replicate k '/' ++ joinSep ['/'] cs)
      rwa [hcp] at this
    have h2 : List.replicate k '/' ++ joinSep ['/'] cs.dropLast <+: List.replicate k '/' ++ joinSep ['/'] cs :=
      (List.prefix_append_right_inj _).2 (joinSep_dropLast_prefix cs)
    exact List.IsPrefix.eq_of_length_le h2 h1.length_le
  · exact confined_inside_of hb hs hd


end NemoVerif.Server
