import NemoVerif.Models.V1Mut
namespace NemoVerif.V1Mut
open NemoVerif.V1Interp

theorem markAt_proj : ∀ (code : List MElem) (i : Nat) (a : Option String), proj (markAt code i a) = proj code := by
  intro code
  induction code with
  | nil => intro i a; rfl
  | cons m r ih =>
    intro i a
    cases i with
    | zero => rfl
    | succ i => simp only [markAt, proj, List.map_cons]; exact congrArg _ (ih i a)

theorem markAt_labels : ∀ (code : List MElem) (i : Nat) (a : Option String),
    (markAt code i a).map (·.label) = code.map (·.label) := by
  intro code
  induction code with
  | nil => intro i a; rfl
  | cons m r ih =>
    intro i a
    cases i with
    | zero => rfl
    | succ i => simp only [markAt, List.map_cons]; exact congrArg _ (ih i a)

theorem markAt_length (code : List MElem) (i : Nat) (a : Option String) : (markAt code i a).length = code.length := by
  have := congrArg List.length (markAt_proj code i a)
  simpa [proj] using this

theorem markIf_proj (code : List MElem) (h : Int) (a : Option String) : proj (markIf code h a) = proj code := by
  simp only [markIf]; split
  · exact markAt_proj _ _ _
  · rfl

theorem markIf_labels (code : List MElem) (h : Int) (a : Option String) : (markIf code h a).map (·.label) = code.map (·.label) := by
  simp only [markIf]; split
  · exact markAt_labels _ _ _
  · rfl

/-- the mutating slide computes what the pure slide computes, and the mutation changes neither the elements
    proper nor their `_label`s -/
theorem slideM_spec : ∀ (f : Nat) (code : List MElem) (st : SSt) (h prev : Int) (act : Option String),
    (slideM f code st h prev act).1 = slide f (proj code) st h prev ∧
    proj (slideM f code st h prev act).2 = proj code ∧
    (slideM f code st h prev act).2.map (·.label) = code.map (·.label) := by
  intro f
  induction f with
  | zero => intro code st h prev act; simp [slideM, slide]
  | succ f ih =>
    intro code st h prev act
    have hlen : (proj code).length = code.length := by simp [proj]
    simp only [slideM, slide, hlen]
    by_cases hend : h = (code.length : Int) ∨ h < 0
    · simp only [hend, if_true]; simp
    · simp only [hend, if_false]
      have hp := markIf_proj code h (nextAct code h act)
      have hl := markIf_labels code h (nextAct code h act)
      rw [hp]
      cases hs : sstep (proj code) st h with
      | next st' h' =>
        obtain ⟨i1, i2, i3⟩ := ih (markIf code h (nextAct code h act)) st' h' h (nextAct code h act)
        simp only []
        exact ⟨by rw [i1, hp], by rw [i2, hp], by rw [i3, hl]⟩
      | stop => exact ⟨rfl, hp, hl⟩
      | err => exact ⟨rfl, hp, hl⟩

end NemoVerif.V1Mut
