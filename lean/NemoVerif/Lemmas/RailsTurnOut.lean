/-
  C16 phase 4 — the output loop (`run output rails` inside the extension flow `process bot message`) at the level of the
  rounds of `generate_events`: the output twin of the input part of Lemmas/RailsTurn.lean (same method).
-/
import NemoVerif.Lemmas.RailsTurnPhases
namespace NemoVerif.RailsInterp
open NemoVerif.V1Interp
set_option linter.unusedSimpArgs false
set_option linter.unusedVariables false

/-! ### the input loop, round by round -/

def callStateO (σ : Ctx) (c u0 u1 : Nat) (r : IRail) : State :=
  { ctx := σ, flows := [{ uid := c, flowId := r.name, head := 0 }, fsRORint u1 c, fsPBMint u0 u1],
    next := some { elem := Elem.runAction r.action none "{}" (some (resultKeyO r)), uid := c, prio := 10000 }, upd := [], ctr := c + 1 }

def retStateO (σ : Ctx) (k : Nat) (c u0 u1 uc : Nat) (r : IRail) : State :=
  { ctx := σ, flows := [{ uid := uc, flowId := r.name, head := (match r.kind with | .check _ => -2 | .rewrite _ => -1), status := .completed },
                        fsROR u1 8, fsPBMint u0 u1],
    next := some { elem := createOutRailFinished, uid := u1, prio := 10000 }, upd := [("i", .int (k + 1))], ctr := c }

theorem roundAO_events (s : Setup) (σ u : Ctx) (c u0 u1 : Nat) (hu : u.isEmpty = false) :
    roundEvents s (headStateO σ u c u0 u1) = some ([.contextUpdate u, .startAction, .actionFinished "create_event" true,
      .other "StartOutputRail" [("flow_id", (σ.update u).get "triggered_output_rail")]], []) := by
  simp [roundEvents, stepDecision, headStateO, createStartOutRail, stepToEvent, roundPre, roundCtx, hu, actionEvents, createdEvent]

theorem roundAO_replay (rails : Cfgs) (hsub : ∀ r ∈ rails, r.isSubflow = true) (σ u : Ctx) (c u0 u1 : Nat) (h01 : u0 < u1) (h1c : u1 < c)
    (names : List String) (k : Nat) (um al : V) (r : IRail) (v1 : V)
    (hF : FactsO (σ.update u) k names um al) (hnm : names[k]? = some r.name) (hok : RailOKO rails r) :
    replay true (base ++ rails) [.contextUpdate u, .startAction, .actionFinished "create_event" true, .other "StartOutputRail" [("flow_id", v1)]]
      (headStateO σ u c u0 u1)
    = .ok (callStateO (((σ.update u).withEvent (.actionFinished "create_event" true)).withEvent (.other "StartOutputRail" [("flow_id", v1)])) c u0 u1 r) := by
  simp only [headStateO]
  rw [replay_cons_ok _ _ _ _ _ (cns_ctx _ _ _) (by simp), replay_cons_ok _ _ _ _ _ (cns_start _ _) (by simp),
    replay_cons_ok _ _ _ _ _ (TO_a4 rails hsub _ _ _ _ _ _) (by simp)]
  have hF1 := hF.withActFin "create_event" true
  rw [replay_cons_ok _ _ _ _ _ (TO_b rails hsub _ _ c u0 u1 h01 h1c _ names k r.name r v1 hF1.1 hF1.2.1 hnm hok.1 rfl) (by simp)]
  rfl


theorem RailOKO.not_utter {rails : Cfgs} {r : IRail} (h : RailOKO rails r) : (r.action == "utter") = false := beq_false_of_ne h.2

theorem roundBO_events (s : Setup) (hwf : s.WF) (k : Nat) (r : IRail) (hk : s.output[k]? = some r) (σ : Ctx) (c u0 u1 : Nat) :
    roundEvents s (callStateO σ c u0 u1 r) =
      some (.startAction :: resultEvents σ r.action [(resultKeyO r, railResult r (strOf (σ.get "bot_message")))],
            [Obs.railCall "output" k r.name (strOf (σ.get "bot_message"))]) := by
  have hne : r.action ≠ "utter" := (hwf.railOK_out r (List.mem_of_getElem? hk)).2
  simp [roundEvents, stepDecision, callStateO, stepToEvent, hne, roundPre, roundCtx, actionEvents_out s hwf k r hk]

theorem roundBO_pass_replay (rails : Cfgs) (hsub : ∀ r ∈ rails, r.isSubflow = true) (σ : Ctx) (c u0 u1 : Nat) (h01 : u0 < u1) (h1c : u1 < c)
    (names : List String) (k : Nat) (um al : V) (r : IRail) (hF : FactsO σ k names um al) (hp : passes r um) (hok : RailOKO rails r) :
    ∃ σ3, replay true (base ++ rails) (.startAction :: resultEvents σ r.action [(resultKeyO r, railResult r (strOf um))]) (callStateO σ c u0 u1 r)
        = .ok (retStateO σ3 k (c + 1) u0 u1 c r) ∧ FactsO σ3 (k + 1) names (stepVals r um al).1 (stepVals r um al).2 ∧ Keep K8 σ σ3 := by
  obtain ⟨hfind, hact⟩ := hok
  have hne : Event.actionFinished r.action true ≠ .botIntent "stop" := by simp
  have kev : ∀ k ∈ K8, plainFor (Event.actionFinished r.action true) k = true := by keys_tac8
  rw [resultEvents_single]
  -- the context after the (possible) result update, with the facts the pass gives
  have main : ∀ (σ2 : Ctx) (nx : Option NextStep) (u : Ctx), FactsO σ2 k names (stepVals r um al).1 (stepVals r um al).2 → Keep K8 σ σ2 →
      ∃ σ3, replay true (base ++ rails) [.actionFinished r.action true]
          { ctx := σ2, flows := [{ uid := c, flowId := r.name, head := 0 }, fsRORint u1 c, fsPBMint u0 u1], next := nx, upd := u, ctr := c + 1 }
        = .ok (retStateO σ3 k (c + 1) u0 u1 c r) ∧ FactsO σ3 (k + 1) names (stepVals r um al).1 (stepVals r um al).2 ∧ Keep K8 σ σ3 := by
    intro σ2 nx u hF2 hK2
    have hpass' : match r.kind with | .check _ => σ2.get "allowed" = .bool true | .rewrite _ => True := by
      cases hk : r.kind with
      | check a => simp only []; rw [hF2.2.2.2]; simp [stepVals, hk]
      | rewrite f => trivial
    refine ⟨(σ2.withEvent (.actionFinished r.action true)).set "i" (.int ((k : Int) + 1)), ?_, ?_, ?_⟩
    · rw [replay_cons_ok _ _ _ _ _ (TO_c rails hsub σ2 u (c + 1) u0 u1 c h01 h1c nx k r.name r hF2.1 hpass' hfind hact) hne]
      rfl
    · exact (hF2.withActFin _ _).setI (k + 1)
    · exact (hK2.withEvent _ kev).setNot _ _ (by decide)
  by_cases hch : σ.get (resultKeyO r) = railResult r (strOf um)
  · -- unchanged: no ContextUpdate
    simp only [hch, if_true, List.nil_append]
    have hF2 : FactsO σ k names (stepVals r um al).1 (stepVals r um al).2 := by
      obtain ⟨g1, g2, g3, g4⟩ := hF
      cases hk : r.kind with
      | check a =>
        simp only [resultKeyO, hk, railResult] at hch
        simp only [passes, hk] at hp
        simp only [stepVals, hk]
        exact ⟨g1, g2, g3, by rw [hch, hp]⟩
      | rewrite f =>
        simp only [resultKeyO, hk, railResult] at hch
        simp only [stepVals, hk]
        exact ⟨g1, g2, hch, g4⟩
    obtain ⟨σ3, e, hF3, hK3⟩ := main σ _ [] hF2 (Keep.refl _ _)
    refine ⟨σ3, ?_, hF3, hK3⟩
    rw [replay_cons_ok _ _ _ _ _ (cns_start _ _) (by simp)]
    exact e
  · simp only [hch, if_false, List.cons_append, List.nil_append]
    have hF2 : FactsO (σ.set (resultKeyO r) (railResult r (strOf um))) k names (stepVals r um al).1 (stepVals r um al).2 := by
      cases hk : r.kind with
      | check a =>
        simp only [passes, hk] at hp
        simp only [resultKeyO, hk, railResult, stepVals, hp]
        exact hF.setAllowed _
      | rewrite f =>
        simp only [resultKeyO, hk, railResult, stepVals]
        exact hF.setBM _
    have hK2 : Keep K8 σ (σ.set (resultKeyO r) (railResult r (strOf um))) := by
      apply (Keep.refl K8 σ).setNot
      cases hk : r.kind <;> simp [resultKeyO, hk] <;> decide
    obtain ⟨σ3, e, hF3, hK3⟩ := main _ none [] hF2 hK2
    refine ⟨σ3, ?_, hF3, hK3⟩
    rw [replay_cons_ok _ _ _ _ _ (cns_start _ _) (by simp), replay_cons_ok _ _ _ _ _ (cns_ctx _ _ _) (by simp)]
    exact e


theorem roundCO_events (s : Setup) (σ : Ctx) (k c u0 u1 uc : Nat) (r : IRail) :
    roundEvents s (retStateO σ k c u0 u1 uc r) = some ([.contextUpdate [("i", .int (k + 1))], .startAction, .actionFinished "create_event" true,
      .other "OutputRailFinished" [("flow_id", (σ.update [("i", .int (k + 1))]).get "triggered_output_rail")]], []) := by
  simp [roundEvents, stepDecision, retStateO, createOutRailFinished, stepToEvent, roundPre, roundCtx, actionEvents, createdEvent]

theorem roundCO_prefix (rails : Cfgs) (hsub : ∀ r ∈ rails, r.isSubflow = true) (σ : Ctx) (k c u0 u1 uc : Nat) (r : IRail) (hok : RailOKO rails r)
    (rest : List Event) :
    replay true (base ++ rails) ([.contextUpdate [("i", .int (k + 1))], .startAction, .actionFinished "create_event" true] ++ rest)
      (retStateO σ k c u0 u1 uc r)
    = replay true (base ++ rails) rest
        { ctx := (σ.set "i" (.int ((k : Int) + 1))).withEvent (.actionFinished "create_event" true), flows := [fsROR u1 9, fsPBMint u0 u1],
          next := none, upd := [], ctr := c } := by
  simp only [List.cons_append, List.nil_append, retStateO]
  rw [replay_cons_ok _ _ _ _ _ (cns_ctx _ _ _) (by simp), replay_cons_ok _ _ _ _ _ (cns_start _ _) (by simp)]
  simp only [update_single]
  rw [replay_cons_ok _ _ _ _ _ (TO_a8 rails hsub _ _ _ _ _ _ r.name _ _ hok.1 _) (by simp)]

theorem roundCO_cont_replay (rails : Cfgs) (hsub : ∀ r ∈ rails, r.isSubflow = true) (σ : Ctx) (k c u0 u1 uc : Nat) (h01 : u0 < u1)
    (names : List String) (um al : V) (r : IRail) (hok : RailOKO rails r) (v2 : V) (nm' : String)
    (hF : FactsO σ (k + 1) names um al) (hnm' : names[k + 1]? = some nm') :
    ∃ σ', replay true (base ++ rails) [.contextUpdate [("i", .int (k + 1))], .startAction, .actionFinished "create_event" true,
          .other "OutputRailFinished" [("flow_id", v2)]] (retStateO σ k c u0 u1 uc r)
        = .ok (headStateO σ' [("triggered_output_rail", .str nm')] c u0 u1) ∧
      FactsO (σ'.update [("triggered_output_rail", .str nm')]) (k + 1) names um al ∧ Keep K8 σ (σ'.update [("triggered_output_rail", .str nm')]) := by
  have hFc : FactsO ((σ.set "i" (.int ((k : Int) + 1))).withEvent (.actionFinished "create_event" true)) (k + 1) names um al :=
    (hF.setI (k + 1)).withActFin _ _
  have hKc : Keep K8 σ ((σ.set "i" (.int ((k : Int) + 1))).withEvent (.actionFinished "create_event" true)) :=
    ((Keep.refl K8 σ).setNot _ _ (by decide)).withEvent _ (by keys_tac8)
  have kev : ∀ k ∈ K8, plainFor (Event.other "OutputRailFinished" [("flow_id", v2)]) k = true := by keys_tac8
  refine ⟨((((σ.set "i" (.int ((k : Int) + 1))).withEvent (.actionFinished "create_event" true)).withEvent
      (.other "OutputRailFinished" [("flow_id", v2)])).set "triggered_output_rail" .none).set "triggered_output_rail" (.str nm'), ?_, ?_, ?_⟩
  · have := roundCO_prefix rails hsub σ k c u0 u1 uc r hok [.other "OutputRailFinished" [("flow_id", v2)]]
    simp only [List.cons_append, List.nil_append] at this
    rw [this, replay_cons_ok _ _ _ _ _ (TO_d_cont rails hsub _ _ c u0 u1 h01 _ names (k + 1) nm' v2 (by exact_mod_cast hFc.1) hFc.2.1 hnm') (by simp)]
    rfl
  · rw [update_single]
    exact (((hFc.withMarker _ _ (by decide) (by decide)).setOther _ _ (by decide)).setOther _ _ (by decide)).setOther _ _ (by decide)
  · rw [update_single]
    exact (((hKc.withEvent _ kev).setNot _ _ (by decide)).setNot _ _ (by decide)).setNot _ _ (by decide)

theorem roundCO_exit_replay (rails : Cfgs) (hsub : ∀ r ∈ rails, r.isSubflow = true) (σ : Ctx) (k c u0 u1 uc : Nat) (h01 : u0 < u1)
    (names : List String) (um al : V) (r : IRail) (hok : RailOKO rails r) (v2 : V)
    (hF : FactsO σ (k + 1) names um al) (hlen : k + 1 = names.length) :
    ∃ σ', replay true (base ++ rails) [.contextUpdate [("i", .int (k + 1))], .startAction, .actionFinished "create_event" true,
          .other "OutputRailFinished" [("flow_id", v2)]] (retStateO σ k c u0 u1 uc r)
        = .ok (exitStateO σ' c u0 u1) ∧ FactsO σ' (k + 1) names um al ∧ Keep K8 σ σ' := by
  have hFc : FactsO ((σ.set "i" (.int ((k : Int) + 1))).withEvent (.actionFinished "create_event" true)) (k + 1) names um al :=
    (hF.setI (k + 1)).withActFin _ _
  have hKc : Keep K8 σ ((σ.set "i" (.int ((k : Int) + 1))).withEvent (.actionFinished "create_event" true)) :=
    ((Keep.refl K8 σ).setNot _ _ (by decide)).withEvent _ (by keys_tac8)
  have kev : ∀ k ∈ K8, plainFor (Event.other "OutputRailFinished" [("flow_id", v2)]) k = true := by keys_tac8
  refine ⟨(((σ.set "i" (.int ((k : Int) + 1))).withEvent (.actionFinished "create_event" true)).withEvent
      (.other "OutputRailFinished" [("flow_id", v2)])).set "triggered_output_rail" .none, ?_, ?_, ?_⟩
  · have := roundCO_prefix rails hsub σ k c u0 u1 uc r hok [.other "OutputRailFinished" [("flow_id", v2)]]
    simp only [List.cons_append, List.nil_append] at this
    rw [this, replay_cons_ok _ _ _ _ _ (TO_d_exit rails hsub _ _ c u0 u1 h01 _ names v2 (by rw [← hlen]; exact_mod_cast hFc.1) hFc.2.1) (by simp)]
    rfl
  · exact (hFc.withMarker _ _ (by decide) (by decide)).setOther _ _ (by decide)
  · exact (hKc.withEvent _ kev).setNot _ _ (by decide)


/-- one iteration of the input loop for a passing rail when another rail follows -/
theorem iterO_cont_runs (s : Setup) (hwf : s.WF) (u0 u1 : Nat) (h01 : u0 < u1) (σ u : Ctx) (c : Nat) (hu : u.isEmpty = false) (h1c : u1 < c)
    (k : Nat) (um al : V) (r : IRail) (nm' : String) (hk : s.output[k]? = some r) (hnm' : (s.output.map (·.name))[k + 1]? = some nm')
    (hF : FactsO (σ.update u) k (s.output.map (·.name)) um al) (hp : passes r um) :
    ∃ σ', RunsTo s (base ++ s.rails) (headStateO σ u c u0 u1) [Obs.railCall "output" k r.name (strOf um)]
        (headStateO σ' [("triggered_output_rail", .str nm')] (c + 1) u0 u1) ∧
      FactsO (σ'.update [("triggered_output_rail", .str nm')]) (k + 1) (s.output.map (·.name)) (stepVals r um al).1 (stepVals r um al).2 ∧
      Keep K8 (σ.update u) (σ'.update [("triggered_output_rail", .str nm')]) := by
  have hok := hwf.railOK_out r (List.mem_of_getElem? hk)
  have hnm : (s.output.map (·.name))[k]? = some r.name := by simp [List.getElem?_map, hk]
  have hsub := s.rails_sub
  -- round A
  have eA := roundAO_events s σ u c u0 u1 hu
  have rA := roundAO_replay s.rails hsub σ u c u0 u1 h01 h1c _ k um al r ((σ.update u).get "triggered_output_rail") hF hnm hok
  have hF2 : FactsO (((σ.update u).withEvent (.actionFinished "create_event" true)).withEvent
      (.other "StartOutputRail" [("flow_id", (σ.update u).get "triggered_output_rail")])) k (s.output.map (·.name)) um al :=
    (hF.withActFin _ _).withMarker _ _ (by decide) (by decide)
  have hK2 : Keep K8 (σ.update u) (((σ.update u).withEvent (.actionFinished "create_event" true)).withEvent
      (.other "StartOutputRail" [("flow_id", (σ.update u).get "triggered_output_rail")])) :=
    ((Keep.refl K8 _).withEvent _ (by keys_tac8)).withEvent _ (by keys_tac8)
  have RA := RunsTo.one (s := s) (cfgs := base ++ s.rails) _ _ _ _ eA
    (decisions_ne_of_act _ _ _ _ _ _ rfl rfl (by simp [createStartOutRail])) (noHide_of_B _ rfl) (by simp [isStop]) (by simp) rA
  -- round B
  have eB := roundBO_events s hwf k r hk (((σ.update u).withEvent (.actionFinished "create_event" true)).withEvent
      (.other "StartOutputRail" [("flow_id", (σ.update u).get "triggered_output_rail")])) c u0 u1
  rw [hF2.2.2.1] at eB
  obtain ⟨σ3, rB, hF3, hK3⟩ := roundBO_pass_replay s.rails hsub _ c u0 u1 h01 h1c _ k um al r hF2 hp hok
  have RB := RunsTo.one (s := s) (cfgs := base ++ s.rails) _ _ _ _ eB
    (decisions_ne_of_act _ _ _ _ _ _ rfl rfl (fun e => absurd e hok.2)) (noHide_result _ _ _) (isStop_result _ _ _) (by simp) rB
  -- round C
  have eC := roundCO_events s σ3 k (c + 1) u0 u1 c r
  obtain ⟨σ', rC, hF', hK'⟩ := roundCO_cont_replay s.rails hsub σ3 k (c + 1) u0 u1 c h01 _ _ _ r hok
    ((σ3.update [("i", .int (k + 1))]).get "triggered_output_rail") nm' hF3 hnm'
  have RC := RunsTo.one (s := s) (cfgs := base ++ s.rails) _ _ _ _ eC
    (decisions_ne_of_act _ _ _ _ _ _ rfl rfl (by simp [createOutRailFinished])) (noHide_of_B _ rfl) (by simp [isStop]) (by simp) rC
  exact ⟨σ', by simpa using (RA.trans RB).trans RC, hF', (hK2.trans hK3).trans hK'⟩

/-- the last iteration of the input loop for a passing rail -/
theorem iterO_exit_runs (s : Setup) (hwf : s.WF) (u0 u1 : Nat) (h01 : u0 < u1) (σ u : Ctx) (c : Nat) (hu : u.isEmpty = false) (h1c : u1 < c)
    (k : Nat) (um al : V) (r : IRail) (hk : s.output[k]? = some r) (hlen : k + 1 = s.output.length)
    (hF : FactsO (σ.update u) k (s.output.map (·.name)) um al) (hp : passes r um) :
    ∃ σ', RunsTo s (base ++ s.rails) (headStateO σ u c u0 u1) [Obs.railCall "output" k r.name (strOf um)] (exitStateO σ' (c + 1) u0 u1) ∧
      FactsO σ' (k + 1) (s.output.map (·.name)) (stepVals r um al).1 (stepVals r um al).2 ∧ Keep K8 (σ.update u) σ' := by
  have hok := hwf.railOK_out r (List.mem_of_getElem? hk)
  have hnm : (s.output.map (·.name))[k]? = some r.name := by simp [List.getElem?_map, hk]
  have hsub := s.rails_sub
  have eA := roundAO_events s σ u c u0 u1 hu
  have rA := roundAO_replay s.rails hsub σ u c u0 u1 h01 h1c _ k um al r ((σ.update u).get "triggered_output_rail") hF hnm hok
  have hF2 : FactsO (((σ.update u).withEvent (.actionFinished "create_event" true)).withEvent
      (.other "StartOutputRail" [("flow_id", (σ.update u).get "triggered_output_rail")])) k (s.output.map (·.name)) um al :=
    (hF.withActFin _ _).withMarker _ _ (by decide) (by decide)
  have hK2 : Keep K8 (σ.update u) (((σ.update u).withEvent (.actionFinished "create_event" true)).withEvent
      (.other "StartOutputRail" [("flow_id", (σ.update u).get "triggered_output_rail")])) :=
    ((Keep.refl K8 _).withEvent _ (by keys_tac8)).withEvent _ (by keys_tac8)
  have RA := RunsTo.one (s := s) (cfgs := base ++ s.rails) _ _ _ _ eA
    (decisions_ne_of_act _ _ _ _ _ _ rfl rfl (by simp [createStartOutRail])) (noHide_of_B _ rfl) (by simp [isStop]) (by simp) rA
  have eB := roundBO_events s hwf k r hk (((σ.update u).withEvent (.actionFinished "create_event" true)).withEvent
      (.other "StartOutputRail" [("flow_id", (σ.update u).get "triggered_output_rail")])) c u0 u1
  rw [hF2.2.2.1] at eB
  obtain ⟨σ3, rB, hF3, hK3⟩ := roundBO_pass_replay s.rails hsub _ c u0 u1 h01 h1c _ k um al r hF2 hp hok
  have RB := RunsTo.one (s := s) (cfgs := base ++ s.rails) _ _ _ _ eB
    (decisions_ne_of_act _ _ _ _ _ _ rfl rfl (fun e => absurd e hok.2)) (noHide_result _ _ _) (isStop_result _ _ _) (by simp) rB
  have eC := roundCO_events s σ3 k (c + 1) u0 u1 c r
  obtain ⟨σ', rC, hF', hK'⟩ := roundCO_exit_replay s.rails hsub σ3 k (c + 1) u0 u1 c h01 _ _ _ r hok
    ((σ3.update [("i", .int (k + 1))]).get "triggered_output_rail") hF3 (by simpa using hlen)
  have RC := RunsTo.one (s := s) (cfgs := base ++ s.rails) _ _ _ _ eC
    (decisions_ne_of_act _ _ _ _ _ _ rfl rfl (by simp [createOutRailFinished])) (noHide_of_B _ rfl) (by simp [isStop]) (by simp) rC
  exact ⟨σ', by simpa using (RA.trans RB).trans RC, hF', (hK2.trans hK3).trans hK'⟩


/-- **a run of passing input rails followed by at least one more rail**: from the loop head at index `k` to the loop head at
    index `k + |pre|`, executing exactly the actions of `pre` in order, each on the text its predecessors left -/
theorem output_prefix_runs (s : Setup) (hwf : s.WF) (u0 u1 : Nat) (h01 : u0 < u1) :
    ∀ (pre : List IRail) (k : Nat) (σ u : Ctx) (c : Nat) (um al : V) (r' : IRail) (rest' : List IRail),
      s.output.drop k = pre ++ r' :: rest' → AllPassA pre um al → u.isEmpty = false → u1 < c →
      FactsO (σ.update u) k (s.output.map (·.name)) um al →
      ∃ σ' u' c', u'.isEmpty = false ∧ u1 < c' ∧
        RunsTo s (base ++ s.rails) (headStateO σ u c u0 u1) (railObs "output" k pre um al) (headStateO σ' u' c' u0 u1) ∧
        FactsO (σ'.update u') (k + pre.length) (s.output.map (·.name)) (finalVals pre um al).1 (finalVals pre um al).2 ∧
        Keep K8 (σ.update u) (σ'.update u')
  | [], k, σ, u, c, um, al, r', rest', _, _, hu, h1c, hF =>
    ⟨σ, u, c, hu, h1c, .refl _, by simpa [finalVals] using hF, Keep.refl _ _⟩
  | r :: pre, k, σ, u, c, um, al, r', rest', hdrop, hpass, hu, h1c, hF => by
    obtain ⟨hk, hdrop'⟩ := drop_cons_get s.output k r (pre ++ r' :: rest') (by simpa using hdrop)
    -- the name of the next rail
    obtain ⟨nm', hnm'⟩ : ∃ nm', (s.output.map (·.name))[k + 1]? = some nm' := by
      cases pre with
      | nil =>
        obtain ⟨h1, _⟩ := drop_cons_get s.output (k + 1) r' rest' (by simpa using hdrop')
        exact ⟨r'.name, by simp [List.getElem?_map, h1]⟩
      | cons p ps =>
        obtain ⟨h1, _⟩ := drop_cons_get s.output (k + 1) p (ps ++ r' :: rest') (by simpa using hdrop')
        exact ⟨p.name, by simp [List.getElem?_map, h1]⟩
    obtain ⟨σ1, R1, hF1, hK1⟩ := iterO_cont_runs s hwf u0 u1 h01 σ u c hu h1c k um al r nm' hk hnm' hF hpass.1
    obtain ⟨σ', u', c', hu', hc', R2, hF2, hK2⟩ := output_prefix_runs s hwf u0 u1 h01 pre (k + 1) σ1 [("triggered_output_rail", .str nm')] (c + 1)
      _ _ r' rest' hdrop' hpass.2 rfl (by omega) hF1
    refine ⟨σ', u', c', hu', hc', ?_, ?_, hK1.trans hK2⟩
    · have := R1.trans R2
      simpa [railObs] using this
    · have e : k + (r :: pre).length = k + 1 + pre.length := by simp; omega
      rw [e]; simpa [finalVals] using hF2

/-- **the whole input loop when every rail lets the message pass** (drive level): from the head of the loop at index 0 the
    driver executes exactly the rail actions in order and arrives at the exit state -/
theorem output_loop_runs (s : Setup) (hwf : s.WF) (u0 u1 : Nat) (h01 : u0 < u1) (σ u : Ctx) (c : Nat) (um al : V)
    (hne : s.output ≠ []) (hpass : AllPassA s.output um al) (hu : u.isEmpty = false) (h1c : u1 < c)
    (hF : FactsO (σ.update u) 0 (s.output.map (·.name)) um al) :
    ∃ σ' c', RunsTo s (base ++ s.rails) (headStateO σ u c u0 u1) (railObs "output" 0 s.output um al) (exitStateO σ' c' u0 u1) ∧
      FactsO σ' s.output.length (s.output.map (·.name)) (finalVals s.output um al).1 (finalVals s.output um al).2 ∧ Keep K8 (σ.update u) σ' ∧ u1 < c' := by
  -- split off the last rail
  obtain ⟨pre, last, hsplit⟩ : ∃ pre last, s.output = pre ++ [last] := ⟨s.output.dropLast, s.output.getLast hne, (List.dropLast_concat_getLast hne).symm⟩
  have allsplit : ∀ (l : List IRail) (um al : V), AllPassA (l ++ [last]) um al → AllPassA l um al ∧ passes last (finalVals l um al).1 := by
    intro l
    induction l with
    | nil => intro um al h; exact ⟨trivial, h.1⟩
    | cons x xs ih => intro um al h; obtain ⟨h1, h2⟩ := ih _ _ h.2; exact ⟨⟨h.1, h1⟩, h2⟩
  have obssplit : ∀ (l : List IRail) (k : Nat) (um al : V), railObs "output" k (l ++ [last]) um al =
      railObs "output" k l um al ++ [Obs.railCall "output" (k + l.length) last.name (strOf (finalVals l um al).1)] := by
    intro l
    induction l with
    | nil => intro k um al; simp [railObs, finalVals]
    | cons x xs ih => intro k um al; simp [railObs, finalVals, ih]; omega
  have finsplit : ∀ (l : List IRail) (um al : V), finalVals (l ++ [last]) um al = (stepVals last (finalVals l um al).1 (finalVals l um al).2) := by
    intro l
    induction l with
    | nil => intro um al; simp [finalVals]
    | cons x xs ih => intro um al; simp [finalVals, ih]
  rw [hsplit] at hpass
  obtain ⟨hp1, hp2⟩ := allsplit pre um al hpass
  obtain ⟨σ1, u1', c1, hu1, hc1, R1, hF1, hK1⟩ := output_prefix_runs s hwf u0 u1 h01 pre 0 σ u c um al last [] (by simp [hsplit]) hp1 hu h1c hF
  have hk : s.output[0 + pre.length]? = some last := by rw [hsplit]; simp
  have hlen : 0 + pre.length + 1 = s.output.length := by rw [hsplit]; simp
  obtain ⟨σ', R2, hF2, hK2⟩ := iterO_exit_runs s hwf u0 u1 h01 σ1 u1' c1 hu1 hc1 (0 + pre.length) _ _ last hk hlen hF1 hp2
  refine ⟨σ', c1 + 1, ?_, ?_, hK1.trans hK2, by omega⟩
  · have := R1.trans R2
    rw [hsplit, obssplit]; exact this
  · rw [← hlen]
    have e : finalVals s.output um al = stepVals last (finalVals pre um al).1 (finalVals pre um al).2 := by rw [hsplit, finsplit]
    rw [e]; exact hF2



end NemoVerif.RailsInterp
