/-
  C10 — the step-labelling lemma: one iteration of CoreVM's `slide` loop (`CoreVM.slideStep`) moves the head along an
  edge of the sliding graph `SlideGraph.Edge (classify cfg)` of its flow (`Models/SlideClassify.lean`).

  Main results (all for head `(f, h)` with index data `hd` in state `s`, flow config `cfg`):
    * `slideStep_moves_along_edge` — `slideStep fuel f h s = .ok (false, nh) s'` ⇒ in `s'` the head exists, has the same
      status, the config is unchanged and `SlideGraph.Edge (classify cfg) hd.pos hd'.pos`.
      Hypotheses: element not `EndScope`; on `MergeHeads` the head is ACTIVE; on `Abort` `CatchNamesOk`.
    * `slideStep_stop_no_move` — `… = .ok (true, nh) s'` on a sliding kind ⇒ same position, same status.
    * `slideStep_error_pos` — `… = .error (.py c m) s'` on a sliding kind with `hd.pos < size` ⇒ the head exists in `s'`,
      same status, position `< size`.
    * `slideStep_fork_merge_stops` — `ForkHead`, and `MergeHeads` on an ACTIVE head, always return `stop = true`.
    * `slideStep_lands` — the common source of the first three (`LandsR`), every kind except fork / merge / endScope.
    * `setHeadPos_spec`, `setHeadPos_ok_pos` — the position setter.
    * `keeps_*`, `*_ixs` — look-ups, non-index writes and the evaluation functions (`evalIn`, `evalArgs`, `getEvent`,
      `getEventName`, …) leave the index component, the program and every instance's flow id alone.
    * token level (last part of the file): `slideStep_simple` — on a simple element (`Prim.simple`) a normal return is
      `(false, [])` and the only visible change is `Moved`: head `(f, h)` is one edge further, queue / other heads / other
      instances untouched; `corevm_slide_step_is_machine_step` — hence `absTokens idx s'` is (a permutation of) a
      `RoundMachine.Step` successor of `absTokens idx s`.

  Structure of the file
    1. `Frame` / `KeepsFr` (definitions in the Models file): combinators (`bind`, `forIn`, `mapM`, `tryCatch`, …) and the
       tactic `keeps`; proved for every look-up / non-index write used by `slideStep` and for the evaluation functions.
    2. index writes: `applyOp_ok`, `step_setPos_head`, `attemptPy_run`, `nameFor_error_pos`, `setHeadPos_spec`.
    3. `Lands`: a Hoare-style specification "if head `k` (data `hd`) exists and the flow's config is `cfg`, then after a
       normal return the head exists, has the same status and its position satisfies `T`; after a Python exception the
       head exists and either did not move or sits on an element inside the flow"; rules and the tactic `lands`.
    4. `slideStep_lands` (one `cases` on the element kind; each branch by `lands`), the always-stopping kinds, the theorems.
-/
import NemoVerif.Lemmas.CoreVM
import NemoVerif.Lemmas.CoreIndex
import NemoVerif.Lemmas.SlideGraph
import NemoVerif.Models.SlideClassify
namespace NemoVerif.CoreVM
open NemoVerif NemoVerif.CoreIndex

theorem Frame.refl (s : VM) : Frame s s := ⟨rfl, rfl, rfl⟩
theorem Frame.trans {a b c : VM} (h1 : Frame a b) (h2 : Frame b c) : Frame a c :=
  ⟨h2.ixs.trans h1.ixs, h2.prog.trans h1.prog, h2.ids.trans h1.ids⟩

theorem KeepsFr.pure {α : Type} (a : α) : KeepsFr (EStateM.pure a : M α) := ⟨fun s => Frame.refl s⟩

theorem KeepsFr.bind {α β : Type} {x : M α} {f : α → M β} (hx : KeepsFr x) (hf : ∀ a, KeepsFr (f a)) :
    KeepsFr (EStateM.bind x f) := by
  refine ⟨fun s => ?_⟩
  have h1 := hx.frame s
  unfold EStateM.bind
  split
  · rename_i a s1 hxs
    rw [hxs] at h1
    exact Frame.trans h1 ((hf a).frame s1)
  · rename_i e s1 hxs
    rw [hxs] at h1
    exact h1

theorem KeepsFr.throw {α : Type} (e : VMErr) : KeepsFr (EStateM.throw e : M α) := ⟨fun s => Frame.refl s⟩
theorem KeepsFr.pyRaise {α : Type} (c m : String) : KeepsFr (pyRaise c m : M α) := ⟨fun s => Frame.refl s⟩
theorem KeepsFr.unsupported {α : Type} (w : String) : KeepsFr (unsupported w : M α) := ⟨fun s => Frame.refl s⟩
theorem KeepsFr.get : KeepsFr (EStateM.get : M VM) := ⟨fun s => Frame.refl s⟩

theorem KeepsFr.tryCatch {α : Type} {x : M α} {hdl : VMErr → M α} (hx : KeepsFr x) (hh : ∀ e, KeepsFr (hdl e)) :
    KeepsFr (tryCatch x hdl) := by
  refine ⟨fun s => ?_⟩
  have h1 := hx.frame s
  show Frame s (resSt (EStateM.tryCatch x hdl s))
  unfold EStateM.tryCatch
  simp only [EStateM.Backtrackable.restore, EStateM.dummyRestore]
  split
  · rename_i e s1 hxs
    rw [hxs] at h1
    exact Frame.trans h1 ((hh e).frame s1)
  · rename_i hne
    exact h1

theorem KeepsFr.modifyRest (g : Rest → Rest) (hp : ∀ r, (g r).prog = r.prog) (hi : ∀ r, fxIds (g r).fx = fxIds r.fx) :
    KeepsFr (modifyRest g) := by
  exact ⟨fun s => ⟨rfl, hp s.r, hi s.r⟩⟩

theorem KeepsFr.forIn {β σ : Type} (l : List β) (init : σ) (body : β → σ → M (ForInStep σ))
    (hb : ∀ a b, KeepsFr (body a b)) : KeepsFr (forIn l init body) := by
  induction l generalizing init with
  | nil => exact ⟨fun s => Frame.refl s⟩
  | cons a as ih =>
    rw [List.forIn_cons]
    apply KeepsFr.bind (hb a init)
    intro r
    cases r with
    | done b => exact ⟨fun s => Frame.refl s⟩
    | yield b => exact ih b

theorem KeepsFr.mapM {β γ : Type} (g : β → M γ) (l : List β) (hg : ∀ a, KeepsFr (g a)) : KeepsFr (l.mapM g) := by
  induction l with
  | nil => exact ⟨fun s => Frame.refl s⟩
  | cons a as ih =>
    rw [List.mapM_cons]
    apply KeepsFr.bind (hg a)
    intro b
    apply KeepsFr.bind ih
    intro bs
    exact ⟨fun s => Frame.refl s⟩


theorem fxIds_modify (f : FUid) (g : InstX → InstX) (hg : ∀ x, (g x).flowId = x.flowId) (l : List (FUid × InstX)) :
    fxIds (OMap.modify f g l) = fxIds l := by
  induction l with
  | nil => rfl
  | cons p rest ih =>
    obtain ⟨k, v⟩ := p
    unfold OMap.modify
    split
    · simp only [fxIds, List.map_cons, hg] at ih ⊢; rw [ih]
    · simp only [fxIds, List.map_cons] at ih ⊢; rw [ih]

theorem KeepsFr.modInstX (f : FUid) (g : InstX → InstX) (hg : ∀ x, (g x).flowId = x.flowId) : KeepsFr (modInstX f g) :=
  KeepsFr.modifyRest _ (fun _ => rfl) (fun r => fxIds_modify f g hg r.fx)

syntax "keeps_known" : tactic
macro_rules | `(tactic| keeps_known) => `(tactic| fail "no known KeepsFr lemma")

/-- the closing / decomposing steps, at whatever transparency the caller sets -/
macro "keeps_core" : tactic => `(tactic| first
  | keeps_known
  | exact KeepsFr.pure _
  | exact KeepsFr.throw _ | exact KeepsFr.pyRaise _ _ | exact KeepsFr.unsupported _ | exact KeepsFr.get
  | (apply KeepsFr.modInstX; intro _; rfl)
  | (apply KeepsFr.modifyRest <;> (intro _; rfl))
  | apply KeepsFr.tryCatch
  | apply KeepsFr.forIn
  | apply KeepsFr.mapM
  | apply KeepsFr.bind)

macro "keeps_step" : tactic => `(tactic| first
  | assumption
  | with_reducible_and_instances keeps_core
  | intro _
  | split
  | keeps_core
  | apply_assumption
  | dsimp only)
macro "keeps" : tactic => `(tactic| repeat keeps_step)

theorem keeps_getRest : KeepsFr getRest := by unfold getRest; keeps
macro_rules | `(tactic| keeps_known) => `(tactic| exact keeps_getRest)
theorem keeps_getIx : KeepsFr getIx := by unfold getIx; keeps
macro_rules | `(tactic| keeps_known) => `(tactic| exact keeps_getIx)
theorem keeps_freshUid : KeepsFr freshUid := by unfold freshUid; keeps
macro_rules | `(tactic| keeps_known) => `(tactic| exact keeps_freshUid)
theorem keeps_getInstX? (f) : KeepsFr (getInstX? f) := by unfold getInstX?; keeps
macro_rules | `(tactic| keeps_known) => `(tactic| exact keeps_getInstX? _)
theorem keeps_getInstX (f) : KeepsFr (getInstX f) := by unfold getInstX; keeps
macro_rules | `(tactic| keeps_known) => `(tactic| exact keeps_getInstX _)
theorem keeps_ctxHolder (f) : KeepsFr (ctxHolder f) := by unfold ctxHolder; keeps
macro_rules | `(tactic| keeps_known) => `(tactic| exact keeps_ctxHolder _)
theorem keeps_getCtx (f) : KeepsFr (getCtx f) := by unfold getCtx; keeps
macro_rules | `(tactic| keeps_known) => `(tactic| exact keeps_getCtx _)
theorem keeps_setCtxVar (f k v) : KeepsFr (setCtxVar f k v) := by unfold setCtxVar; keeps
macro_rules | `(tactic| keeps_known) => `(tactic| exact keeps_setCtxVar _ _ _)
theorem keeps_getAction? (u) : KeepsFr (getAction? u) := by unfold getAction?; keeps
macro_rules | `(tactic| keeps_known) => `(tactic| exact keeps_getAction? _)
theorem keeps_lookupVar (c n) : KeepsFr (lookupVar c n) := by unfold lookupVar; keeps
macro_rules | `(tactic| keeps_known) => `(tactic| exact keeps_lookupVar _ _)

theorem keeps_valueErr {α : Type} (m : String) : KeepsFr (valueErr m : M α) := KeepsFr.pyRaise _ _
macro_rules | `(tactic| keeps_known) => `(tactic| exact keeps_valueErr _)

theorem keeps_attrOf (v a l) : KeepsFr (attrOf v a l) := by unfold attrOf; keeps
macro_rules | `(tactic| keeps_known) => `(tactic| exact keeps_attrOf _ _ _)

section evalStep
set_option linter.unusedSectionVars false
variable (n : Nat) (ih1 : ∀ c e, KeepsFr (evalExpr c n e)) (ih2 : ∀ c e, KeepsFr (evalBase c n e)) (c : EvalCtx)
include ih1 ih2
theorem keeps_evalExpr_lit (v) : KeepsFr (evalExpr c (n+1) (.lit v)) := by
  simp only [evalExpr]; keeps
theorem keeps_evalExpr_interp (v) : KeepsFr (evalExpr c (n+1) (.interp v)) := by
  simp only [evalExpr]; keeps
theorem keeps_evalExpr_var (v) : KeepsFr (evalExpr c (n+1) (.var v)) := by
  simp only [evalExpr]; keeps
theorem keeps_evalExpr_name (v) : KeepsFr (evalExpr c (n+1) (.name v)) := by
  simp only [evalExpr]; keeps
theorem keeps_evalExpr_attr (e a) : KeepsFr (evalExpr c (n+1) (.attr e a)) := by
  simp only [evalExpr]; keeps
theorem keeps_evalExpr_index (e a) : KeepsFr (evalExpr c (n+1) (.index e a)) := by
  simp only [evalExpr]; keeps
theorem keeps_evalExpr_not (e) : KeepsFr (evalExpr c (n+1) (.not e)) := by
  simp only [evalExpr]; keeps
theorem keeps_evalExpr_and (e) : KeepsFr (evalExpr c (n+1) (.and e)) := by
  simp only [evalExpr]; keeps
theorem keeps_evalExpr_or (e) : KeepsFr (evalExpr c (n+1) (.or e)) := by
  simp only [evalExpr]; keeps
theorem keeps_evalExpr_cmp (e r) : KeepsFr (evalExpr c (n+1) (.cmp e r)) := by
  simp only [evalExpr]; keeps
theorem keeps_evalExpr_bin (o a b) : KeepsFr (evalExpr c (n+1) (.bin o a b)) := by
  simp only [evalExpr]; keeps
theorem keeps_evalExpr_neg (e) : KeepsFr (evalExpr c (n+1) (.neg e)) := by
  simp only [evalExpr]; keeps
theorem keeps_evalExpr_call (f args) : KeepsFr (evalExpr c (n+1) (.call f args)) := by
  simp only [evalExpr]; keeps
theorem keeps_evalExpr_list (e) : KeepsFr (evalExpr c (n+1) (.list e)) := by
  simp only [evalExpr]; keeps
theorem keeps_evalExpr_set (e) : KeepsFr (evalExpr c (n+1) (.set e)) := by
  simp only [evalExpr]; keeps
theorem keeps_evalExpr_dict (e) : KeepsFr (evalExpr c (n+1) (.dict e)) := by
  simp only [evalExpr]; keeps
theorem keeps_evalExpr_unsupported (e) : KeepsFr (evalExpr c (n+1) (.unsupported e)) := by
  simp only [evalExpr]; keeps

theorem keeps_evalExpr_succ (e) : KeepsFr (evalExpr c (n+1) e) := by
  cases e with
  | lit v => exact keeps_evalExpr_lit n ih1 ih2 c v
  | interp parts => exact keeps_evalExpr_interp n ih1 ih2 c parts
  | var name => exact keeps_evalExpr_var n ih1 ih2 c name
  | name m => exact keeps_evalExpr_name n ih1 ih2 c m
  | attr e a => exact keeps_evalExpr_attr n ih1 ih2 c e a
  | index e i => exact keeps_evalExpr_index n ih1 ih2 c e i
  | not e => exact keeps_evalExpr_not n ih1 ih2 c e
  | and es => exact keeps_evalExpr_and n ih1 ih2 c es
  | or es => exact keeps_evalExpr_or n ih1 ih2 c es
  | cmp e rest => exact keeps_evalExpr_cmp n ih1 ih2 c e rest
  | bin op a b => exact keeps_evalExpr_bin n ih1 ih2 c op a b
  | neg e => exact keeps_evalExpr_neg n ih1 ih2 c e
  | call f args => exact keeps_evalExpr_call n ih1 ih2 c f args
  | list es => exact keeps_evalExpr_list n ih1 ih2 c es
  | dict kvs => exact keeps_evalExpr_dict n ih1 ih2 c kvs
  | set es => exact keeps_evalExpr_set n ih1 ih2 c es
  | unsupported why => exact keeps_evalExpr_unsupported n ih1 ih2 c why

theorem keeps_evalBase_succ (e) : KeepsFr (evalBase c (n+1) e) := by
  cases e <;> simp only [evalBase] <;> keeps
end evalStep

theorem keeps_evalExpr_aux : ∀ fuel : Nat, (∀ c e, KeepsFr (evalExpr c fuel e)) ∧ (∀ c e, KeepsFr (evalBase c fuel e)) := by
  intro fuel
  induction fuel with
  | zero =>
    constructor
    · intro c e; rw [evalExpr.eq_1]; exact KeepsFr.throw _
    · intro c e; rw [evalBase.eq_1]; exact KeepsFr.throw _
  | succ n ih =>
    exact ⟨fun c e => keeps_evalExpr_succ n ih.1 ih.2 c e, fun c e => keeps_evalBase_succ n ih.1 ih.2 c e⟩

theorem keeps_evalExpr (c : EvalCtx) (fuel : Nat) (e : Expr) : KeepsFr (evalExpr c fuel e) := (keeps_evalExpr_aux fuel).1 c e
macro_rules | `(tactic| keeps_known) => `(tactic| exact keeps_evalExpr _ _ _)
theorem keeps_evalBase (c : EvalCtx) (fuel : Nat) (e : Expr) : KeepsFr (evalBase c fuel e) := (keeps_evalExpr_aux fuel).2 c e
macro_rules | `(tactic| keeps_known) => `(tactic| exact keeps_evalBase _ _ _)

theorem keeps_evalIn (f : FUid) (e : Expr) : KeepsFr (evalIn f e) := by unfold evalIn; keeps
macro_rules | `(tactic| keeps_known) => `(tactic| exact keeps_evalIn _ _)
theorem keeps_evalEmpty (e : Expr) : KeepsFr (evalEmpty e) := by unfold evalEmpty; keeps
macro_rules | `(tactic| keeps_known) => `(tactic| exact keeps_evalEmpty _)
theorem keeps_evalArgs (f : FUid) (args : List (String × Expr)) : KeepsFr (evalArgs f args) := by unfold evalArgs; keeps
macro_rules | `(tactic| keeps_known) => `(tactic| exact keeps_evalArgs _ _)


/-! ### events -/

theorem keeps_flowObjOf (f : FUid) : KeepsFr (flowObjOf f) := by unfold flowObjOf; keeps
macro_rules | `(tactic| keeps_known) => `(tactic| exact keeps_flowObjOf _)
theorem keeps_flowStartEvent (o : FlowObj) (args) : KeepsFr (flowStartEvent o args) := by unfold flowStartEvent; keeps
macro_rules | `(tactic| keeps_known) => `(tactic| exact keeps_flowStartEvent _ _)
theorem keeps_flowGetEvent (o : FlowObj) (n : String) (args) : KeepsFr (flowGetEvent o n args) := by unfold flowGetEvent; keeps
macro_rules | `(tactic| keeps_known) => `(tactic| exact keeps_flowGetEvent _ _ _)
theorem keeps_actionGetEvent (a : Action) (n : String) (args) : KeepsFr (actionGetEvent a n args) := by
  unfold actionGetEvent; dsimp only; keeps
macro_rules | `(tactic| keeps_known) => `(tactic| exact keeps_actionGetEvent _ _ _)
theorem keeps_instanceArguments (cfg : FlowCfg) (evArgs) : KeepsFr (instanceArguments cfg evArgs) := by unfold instanceArguments; keeps
macro_rules | `(tactic| keeps_known) => `(tactic| exact keeps_instanceArguments _ _)
theorem keeps_getCfg (id : String) : KeepsFr (getCfg id) := by unfold getCfg; keeps
macro_rules | `(tactic| keeps_known) => `(tactic| exact keeps_getCfg _)
theorem keeps_tempFlowObj (n : String) : KeepsFr (tempFlowObj n) := by unfold tempFlowObj; keeps
macro_rules | `(tactic| keeps_known) => `(tactic| exact keeps_tempFlowObj _)
theorem keeps_tempAction (n : String) (args) : KeepsFr (tempAction n args) := by unfold tempAction; keeps
macro_rules | `(tactic| keeps_known) => `(tactic| exact keeps_tempAction _ _)
theorem keeps_resolveRef (f : FUid) (spec : Spec) (v : String) : KeepsFr (resolveRef f spec v) := by unfold resolveRef; keeps
macro_rules | `(tactic| keeps_known) => `(tactic| exact keeps_resolveRef _ _ _)
theorem keeps_getEventName (f : FUid) (spec : Spec) : KeepsFr (getEventName f spec) := by unfold getEventName; keeps
macro_rules | `(tactic| keeps_known) => `(tactic| exact keeps_getEventName _ _)
theorem keeps_getEvent (f : FUid) (spec : Spec) (isMatch : Bool) : KeepsFr (getEvent f spec isMatch) := by unfold getEvent; keeps
macro_rules | `(tactic| keeps_known) => `(tactic| exact keeps_getEvent _ _ _)


/-! ### the remaining look-ups and non-index writes of `slideStep` -/

theorem keeps_getInst? (f) : KeepsFr (getInst? f) := by unfold getInst?; keeps
macro_rules | `(tactic| keeps_known) => `(tactic| exact keeps_getInst? _)
theorem keeps_getInst (f) : KeepsFr (getInst f) := by unfold getInst; keeps
macro_rules | `(tactic| keeps_known) => `(tactic| exact keeps_getInst _)
theorem keeps_getHead? (k) : KeepsFr (getHead? k) := by unfold getHead?; keeps
macro_rules | `(tactic| keeps_known) => `(tactic| exact keeps_getHead? _)
theorem keeps_getHeadX (k) : KeepsFr (getHeadX k) := by unfold getHeadX; keeps
macro_rules | `(tactic| keeps_known) => `(tactic| exact keeps_getHeadX _)
theorem keeps_modHeadX (k g) : KeepsFr (modHeadX k g) := by unfold modHeadX; keeps
macro_rules | `(tactic| keeps_known) => `(tactic| exact keeps_modHeadX _ _)
theorem keeps_cfgOfInst (f) : KeepsFr (cfgOfInst f) := by unfold cfgOfInst; keeps
macro_rules | `(tactic| keeps_known) => `(tactic| exact keeps_cfgOfInst _)
theorem keeps_setAction (a) : KeepsFr (setAction a) := by unfold setAction; keeps
macro_rules | `(tactic| keeps_known) => `(tactic| exact keeps_setAction _)
theorem keeps_pushEvent (e) : KeepsFr (pushEvent e) := by unfold pushEvent; keeps
macro_rules | `(tactic| keeps_known) => `(tactic| exact keeps_pushEvent _)
theorem keeps_pushLeftEvent (e) : KeepsFr (pushLeftEvent e) := by unfold pushLeftEvent; keeps
macro_rules | `(tactic| keeps_known) => `(tactic| exact keeps_pushLeftEvent _)
theorem keeps_headScores (k) : KeepsFr (headScores k) := by unfold headScores; keeps
macro_rules | `(tactic| keeps_known) => `(tactic| exact keeps_headScores _)
theorem keeps_labelPos (cfg l) : KeepsFr (labelPos cfg l) := by unfold labelPos; keeps
macro_rules | `(tactic| keeps_known) => `(tactic| exact keeps_labelPos _ _)
theorem keeps_nameFor (f p st) : KeepsFr (nameFor f p st) := by unfold nameFor; keeps
macro_rules | `(tactic| keeps_known) => `(tactic| exact keeps_nameFor _ _ _)

/-! ### the flow config of an instance as a pure function of the state -/

theorem lookup_fxIds (f : FUid) (l : List (FUid × InstX)) :
    OMap.lookup f (fxIds l) = (OMap.lookup f l).map (·.flowId) := by
  induction l with
  | nil => rfl
  | cons p rest ih =>
    obtain ⟨k, v⟩ := p
    simp only [fxIds, List.map_cons, OMap.lookup] at ih ⊢
    split
    · rfl
    · exact ih

theorem cfgOfInst_of_cfgOf {s : VM} {f : FUid} {cfg : FlowCfg} (h : cfgOf s.r f = some cfg) :
    cfgOfInst f s = .ok cfg s := by
  unfold cfgOf at h
  rw [lookup_fxIds] at h
  unfold cfgOfInst getInstX getInstX? getCfg getRest
  simp only [bind, EStateM.bind, get, getThe, MonadStateOf.get, EStateM.get, pure, EStateM.pure]
  cases hx : OMap.lookup f s.r.fx with
  | none => rw [hx] at h; cases h
  | some x =>
    rw [hx] at h
    simp only [Option.map, Option.bind] at h
    simp only [EStateM.pure, h]

theorem cfgOf_of_cfgOfInst {s s' : VM} {f : FUid} {cfg : FlowCfg} (h : cfgOfInst f s = .ok cfg s') :
    cfgOf s.r f = some cfg := by
  unfold cfgOf
  rw [lookup_fxIds]
  unfold cfgOfInst getInstX getInstX? getCfg getRest at h
  simp only [bind, EStateM.bind, get, getThe, MonadStateOf.get, EStateM.get, pure, EStateM.pure] at h
  cases hx : OMap.lookup f s.r.fx with
  | none => rw [hx] at h; simp [pyRaise, throw, throwThe, MonadExceptOf.throw, EStateM.throw] at h
  | some x =>
    rw [hx] at h
    simp only [Option.map, Option.bind, EStateM.pure] at h ⊢
    cases hp : s.r.prog.find x.flowId with
    | none => rw [hp] at h; simp [pyRaise, throw, throwThe, MonadExceptOf.throw, EStateM.throw] at h
    | some c =>
      rw [hp] at h
      simp only [EStateM.pure, EStateM.Result.ok.injEq] at h
      rw [h.1]

theorem Frame.cfgOf {s s' : VM} (h : Frame s s') (f : FUid) : cfgOf s'.r f = cfgOf s.r f := by
  unfold CoreVM.cfgOf; rw [h.ids, h.prog]

theorem Frame.headOf {s s' : VM} (h : Frame s s') (k : Key) : headOf s' k = headOf s k := by
  unfold CoreVM.headOf; rw [h.ixs]

/-! ### index writes -/

theorem applyOp_ok (op : Op) (s : VM) (hg : op.guard s.ixs.ix = true) :
    ∃ s', applyOp op s = .ok () s' ∧ s'.ixs.ix = step s.ixs.ix op ∧ s'.r = s.r := by
  unfold applyOp
  rw [dif_pos hg]
  exact ⟨_, rfl, rfl, rfl⟩

/-- `head.position = p` on an existing head at another position: the head is now at `p` (status and uid unchanged) -/
theorem step_setPos_head (ix : IState) (f : FUid) (h : HUid) (p : Nat) (nm : Option String) (hd : Head)
    (hh : (findInst ix f).bind (·.findHead h) = some hd) (hne : hd.pos ≠ p) :
    (findInst (step ix (.setPos f h p nm)) f).bind (·.findHead h) = some { hd with pos := p, elem := nm } := by
  cases hi : findInst ix f with
  | none => rw [hi] at hh; cases hh
  | some i =>
    rw [hi] at hh
    simp only [Option.bind] at hh
    simp only [step, hi, Option.bind, hh, hne, if_false]
    rw [touchHead_found _ hi hh, findInst_of_insts_eq (insts_headChanged _ _ _ _ _),
      findInst_modifyInst _ _ _ _ (by intro i; rfl), if_pos rfl, hi]
    simp only [Option.map]
    rw [findHead_modifyHead _ _ _ _ (by intro x; rfl), if_pos rfl, hh]
    rfl

theorem attemptPy_run {α : Type} (x : M α) (s : VM) :
    attemptPy x s = match x s with
      | .ok a s1 => .ok (.ok a) s1
      | .error (.py c m) s1 => .ok (.error (c, m)) s1
      | .error o s1 => .error o s1 := by
  unfold attemptPy
  show EStateM.tryCatch _ _ s = _
  unfold EStateM.tryCatch
  simp only [bind, EStateM.bind, pure, EStateM.pure, EStateM.Backtrackable.restore, EStateM.dummyRestore]
  cases hx : x s with
  | ok a s1 => rfl
  | error e s1 =>
    cases e <;> rfl

/-- `getInst` succeeds (without touching the state) when the instance is in the index -/
theorem getInst_ok {s : VM} {f : FUid} {i : Inst} (h : findInst s.ixs.ix f = some i) : getInst f s = .ok i s := by
  unfold getInst getInst? getIx
  simp only [bind, EStateM.bind, get, getThe, MonadStateOf.get, EStateM.get, pure, EStateM.pure, h]

/-- a Python exception out of `_flow_head_changed`'s name computation: the element at `p` is a match element of the flow -/
theorem nameFor_error_pos {s s1 : VM} {f : FUid} {p : Nat} {st : HeadStatus} {c m : String} {cfg : FlowCfg} {i : Inst}
    (hi : findInst s.ixs.ix f = some i) (hc : cfgOf s.r f = some cfg)
    (h : nameFor f p st s = .error (.py c m) s1) : p < cfg.elements.size := by
  unfold nameFor at h
  simp only [bind, EStateM.bind, getInst_ok hi] at h
  split at h
  · cases h
  · simp only [EStateM.bind, cfgOfInst_of_cfgOf hc] at h
    cases hel : elemAt cfg p with
    | none => rw [hel] at h; cases h
    | some pr =>
      unfold elemAt at hel
      exact (Array.getElem?_eq_some_iff.mp hel).1

/-! ### `Lands`: where head `k` is after a statement -/

/-- statements that keep the config and the data of head `k` (weaker than `KeepsFr`: `setFlowStatus` qualifies) -/
structure PresHd {α : Type} (k : Key) (cfg : FlowCfg) (hd : Head) (x : M α) : Prop where
  run : ∀ s, cfgOf s.r k.1 = some cfg → headOf s k = some hd →
    cfgOf (resSt (x s)).r k.1 = some cfg ∧ headOf (resSt (x s)) k = some hd

theorem KeepsFr.pres {α : Type} {x : M α} (h : KeepsFr x) (k : Key) (cfg : FlowCfg) (hd : Head) : PresHd k cfg hd x :=
  ⟨fun s hc hh => ⟨by rw [(h.frame s).cfgOf]; exact hc, by rw [(h.frame s).headOf]; exact hh⟩⟩

theorem Lands.pure {α : Type} {k : Key} {cfg : FlowCfg} {hd : Head} {T : α → Nat → Prop} (a : α) (hT : T a hd.pos) :
    Lands k cfg hd T (EStateM.pure a) :=
  ⟨fun _ hc hh => ⟨hc, hd, hh, rfl, hT⟩⟩

theorem Lands.bind_pres {α β : Type} {k : Key} {cfg : FlowCfg} {hd : Head} {T : β → Nat → Prop} {x : M α} {f : α → M β}
    (hx : PresHd k cfg hd x) (hf : ∀ a, Lands k cfg hd T (f a)) : Lands k cfg hd T (EStateM.bind x f) := by
  refine ⟨fun s hc hh => ?_⟩
  have h1 := hx.run s hc hh
  unfold EStateM.bind
  split
  · rename_i a s1 hxs
    rw [hxs] at h1
    exact (hf a).run s1 h1.1 h1.2
  · rename_i e s1 hxs
    rw [hxs] at h1
    cases e with
    | py c m => exact ⟨h1.1, hd, h1.2, rfl, Or.inl rfl⟩
    | _ => trivial

theorem Lands.bind_keeps {α β : Type} {k : Key} {cfg : FlowCfg} {hd : Head} {T : β → Nat → Prop} {x : M α} {f : α → M β}
    (hx : KeepsFr x) (hf : ∀ a, Lands k cfg hd T (f a)) : Lands k cfg hd T (EStateM.bind x f) :=
  Lands.bind_pres (hx.pres k cfg hd) hf

theorem Lands.of_keeps {α : Type} {k : Key} {cfg : FlowCfg} {hd : Head} {T : α → Nat → Prop} {x : M α}
    (hx : KeepsFr x) (hT : ∀ a, T a hd.pos) : Lands k cfg hd T x := by
  refine ⟨fun s hc hh => ?_⟩
  have h1 := (hx.pres k cfg hd).run s hc hh
  cases hxs : x s with
  | ok a s1 => rw [hxs] at h1; exact ⟨h1.1, hd, h1.2, rfl, hT a⟩
  | error e s1 =>
    rw [hxs] at h1
    cases e with
    | py c m => exact ⟨h1.1, hd, h1.2, rfl, Or.inl rfl⟩
    | _ => trivial

/-- `labelPos` either raises `KeyError` or returns the position of the label -/
theorem Lands.bind_labelPos {β : Type} {k : Key} {cfg : FlowCfg} {hd : Head} {T : β → Nat → Prop} {c : FlowCfg} {l : String}
    {f : Nat → M β} (hf : ∀ t, c.label l = some t → Lands k cfg hd T (f t)) :
    Lands k cfg hd T (EStateM.bind (labelPos c l) f) := by
  refine ⟨fun s hc hh => ?_⟩
  unfold labelPos EStateM.bind
  cases hl : c.label l with
  | none => exact ⟨hc, hd, hh, rfl, Or.inl rfl⟩
  | some t => exact (hf t hl).run s hc hh

theorem getHead?_run {s : VM} {k : Key} : getHead? k s = .ok (headOf s k) s := rfl

/-- **`head.position = p`** on an existing head: afterwards the head is at `p` with the same status; if the callback
    raised, the head is at `p` too and `p` is a (match) element of the flow. -/
theorem setHeadPos_spec {k : Key} {cfg : FlowCfg} {hd : Head} (p : Nat) :
    Lands k cfg hd (fun (_ : Unit) q => q = p) (setHeadPos k p) := by
  refine ⟨fun s hc hh => ?_⟩
  unfold setHeadPos
  simp only [bind, EStateM.bind, getHead?_run, hh]
  by_cases hp : hd.pos = p
  · rw [if_pos hp]
    exact ⟨hc, hd, hh, rfl, hp⟩
  · rw [if_neg hp]
    simp only [EStateM.bind, attemptPy_run]
    have hfr := (keeps_nameFor k.1 p hd.status).frame s
    have hisome : ∃ i, findInst s.ixs.ix k.1 = some i := by
      unfold headOf at hh
      cases hi : findInst s.ixs.ix k.1 with
      | none => rw [hi] at hh; cases hh
      | some i => exact ⟨i, rfl⟩
    obtain ⟨i, hi⟩ := hisome
    cases hn : nameFor k.1 p hd.status s with
    | ok nm s1 =>
      rw [hn] at hfr
      change Frame s s1 at hfr
      have hh1 : headOf s1 k = some hd := by rw [hfr.headOf]; exact hh
      have hg : (Op.setPos k.1 k.2 p nm).guard s1.ixs.ix = true := by
        unfold headOf at hh1
        simp only [Op.guard, hh1, Option.isSome]
      obtain ⟨s2, h2, hix, hr⟩ := applyOp_ok _ s1 hg
      simp only [h2]
      refine ⟨?_, { hd with pos := p, elem := nm }, ?_, rfl, rfl⟩
      · rw [hr, hfr.cfgOf]; exact hc
      · unfold headOf; rw [hix]; exact step_setPos_head _ _ _ _ _ _ hh1 hp
    | error e s1 =>
      rw [hn] at hfr
      change Frame s s1 at hfr
      cases e with
      | py c m =>
        have hlt := nameFor_error_pos hi hc hn
        have hh1 : headOf s1 k = some hd := by rw [hfr.headOf]; exact hh
        have hg : (Op.setPos k.1 k.2 p none).guard s1.ixs.ix = true := by
          unfold headOf at hh1
          simp only [Op.guard, hh1, Option.isSome]
        obtain ⟨s2, h2, hix, hr⟩ := applyOp_ok _ s1 hg
        simp only [EStateM.bind, h2]
        show LandsR k cfg hd _ (.error (.py c m) s2)
        refine ⟨?_, { hd with pos := p, elem := none }, ?_, rfl, Or.inr hlt⟩
        · rw [hr, hfr.cfgOf]; exact hc
        · unfold headOf; rw [hix]; exact step_setPos_head _ _ _ _ _ _ hh1 hp
      | _ => trivial

/-! ### none of these touches the index component (corollaries of `KeepsFr`) -/

theorem modifyRest_ixs (g : Rest → Rest) (s : VM) : (resSt (modifyRest g s)).ixs = s.ixs := rfl
theorem modInstX_ixs (f : FUid) (g : InstX → InstX) (s : VM) : (resSt (modInstX f g s)).ixs = s.ixs := rfl
theorem modHeadX_ixs (k : Key) (g : HeadX → HeadX) (s : VM) : (resSt (modHeadX k g s)).ixs = s.ixs := rfl
theorem pushEvent_ixs (e : Event) (s : VM) : (resSt (pushEvent e s)).ixs = s.ixs := rfl
theorem setAction_ixs (a : Action) (s : VM) : (resSt (setAction a s)).ixs = s.ixs := rfl
theorem freshUid_ixs (s : VM) : (resSt (freshUid s)).ixs = s.ixs := (keeps_freshUid.frame s).ixs
theorem setCtxVar_ixs (f : FUid) (k : String) (v : Val) (s : VM) : (resSt (setCtxVar f k v s)).ixs = s.ixs :=
  ((keeps_setCtxVar f k v).frame s).ixs
theorem evalIn_ixs (f : FUid) (e : Expr) (s : VM) : (resSt (evalIn f e s)).ixs = s.ixs := ((keeps_evalIn f e).frame s).ixs
theorem evalArgs_ixs (f : FUid) (args : List (String × Expr)) (s : VM) : (resSt (evalArgs f args s)).ixs = s.ixs :=
  ((keeps_evalArgs f args).frame s).ixs
theorem getEvent_ixs (f : FUid) (spec : Spec) (b : Bool) (s : VM) : (resSt (getEvent f spec b s)).ixs = s.ixs :=
  ((keeps_getEvent f spec b).frame s).ixs
theorem getEventName_ixs (f : FUid) (spec : Spec) (s : VM) : (resSt (getEventName f spec s)).ixs = s.ixs :=
  ((keeps_getEventName f spec).frame s).ixs

/-- **`head.position = p`, normal return**: the head's data afterwards is the old data with the new position and the
    ghost `elem` the callback computed; uid and status are untouched. -/
theorem setHeadPos_ok_pos {k : Key} {p : Nat} {s s' : VM} {hd : Head}
    (hh : headOf s k = some hd) (hrun : setHeadPos k p s = .ok () s') :
    ∃ nm, headOf s' k = some { hd with pos := p, elem := nm } := by
  unfold setHeadPos at hrun
  simp only [bind, EStateM.bind, getHead?_run, hh] at hrun
  by_cases hp : hd.pos = p
  · rw [if_pos hp] at hrun
    cases hrun
    exact ⟨hd.elem, by rw [hh, ← hp]⟩
  · rw [if_neg hp] at hrun
    simp only [EStateM.bind, attemptPy_run] at hrun
    have hfr := (keeps_nameFor k.1 p hd.status).frame s
    cases hn : nameFor k.1 p hd.status s with
    | ok nm s1 =>
      rw [hn] at hfr hrun
      change Frame s s1 at hfr
      simp only at hrun
      have hh1 : headOf s1 k = some hd := by rw [hfr.headOf]; exact hh
      have hg : (Op.setPos k.1 k.2 p nm).guard s1.ixs.ix = true := by
        unfold headOf at hh1
        simp only [Op.guard, hh1, Option.isSome]
      obtain ⟨s2, h2, hix, _⟩ := applyOp_ok _ s1 hg
      rw [h2] at hrun
      cases hrun
      exact ⟨nm, by unfold headOf; rw [hix]; exact step_setPos_head _ _ _ _ _ _ hh1 hp⟩
    | error e s1 =>
      rw [hn] at hrun
      cases e with
      | py c m =>
        simp only at hrun
        obtain ⟨_, s2, _, h3⟩ := bind_ok hrun
        cases h3
      | _ => cases hrun


/-- the usual end of a sliding branch: `head.position = p`, then the loop goes on -/
theorem Lands.setHeadPos_pure {β : Type} {k : Key} {cfg : FlowCfg} {hd : Head} {T : β → Nat → Prop} (p : Nat) (b : β)
    (hT : T b p) : Lands k cfg hd T (EStateM.bind (setHeadPos k p) fun _ => EStateM.pure b) := by
  refine ⟨fun s hc hh => ?_⟩
  have h1 := (setHeadPos_spec (cfg := cfg) (hd := hd) p).run s hc hh
  unfold EStateM.bind
  split
  · rename_i a s1 hxs
    rw [hxs] at h1
    obtain ⟨h1c, hd', h1h, h1s, h1p⟩ := h1
    exact ⟨h1c, hd', h1h, h1s, by rw [h1p]; exact hT⟩
  · rename_i e s1 hxs
    rw [hxs] at h1
    cases e <;> exact h1

theorem Lands.pure_stop {k : Key} {cfg : FlowCfg} {hd : Head} {P : Nat → Prop} (nh : List Key) :
    Lands k cfg hd (fun (a : Bool × List Key) q => (a.1 = false → P q) ∧ (a.1 = true → q = hd.pos))
      (EStateM.pure (true, nh)) :=
  Lands.pure _ ⟨fun h => (by cases h), fun _ => rfl⟩

theorem PresHd.bind {α β : Type} {k : Key} {cfg : FlowCfg} {hd : Head} {x : M α} {f : α → M β}
    (hx : PresHd k cfg hd x) (hf : ∀ a, PresHd k cfg hd (f a)) : PresHd k cfg hd (EStateM.bind x f) := by
  refine ⟨fun s hc hh => ?_⟩
  have h1 := hx.run s hc hh
  unfold EStateM.bind
  split
  · rename_i a s1 hxs
    rw [hxs] at h1
    exact (hf a).run s1 h1.1 h1.2
  · rename_i e s1 hxs
    rw [hxs] at h1
    exact h1

/-- `flow_state.status = STOPPING` (the `Abort` element without a catch label): an index write that leaves every head alone -/
theorem pres_setFlowStatus_stopping (f : FUid) (h : HUid) (cfg : FlowCfg) (hd : Head) :
    PresHd (f, h) cfg hd (setFlowStatus f .stopping) := by
  unfold setFlowStatus
  refine PresHd.bind ?_ (fun _ => KeepsFr.pres (by keeps) _ _ _)
  refine ⟨fun s hc hh => ?_⟩
  have hg : (Op.setFlowStatus f FlowStatus.stopping).guard s.ixs.ix = true := by
    simp only [Op.guard]
    split <;> simp
  obtain ⟨s1, h1, hix, hr⟩ := applyOp_ok _ s hg
  rw [h1]
  refine ⟨by show cfgOf s1.r f = some cfg; rw [hr]; exact hc, ?_⟩
  show headOf s1 (f, h) = some hd
  unfold headOf at hh ⊢
  rw [hix]
  simp only [step]
  rw [findInst_modifyInst _ _ _ _ (by intro i; rfl), if_pos rfl]
  cases hi : findInst s.ixs.ix f with
  | none => rw [hi] at hh; cases hh
  | some i => rw [hi] at hh; exact hh


theorem Lands.bind_pyRaise {α β : Type} {k : Key} {cfg : FlowCfg} {hd : Head} {T : β → Nat → Prop} (c m : String)
    (f : α → M β) : Lands k cfg hd T (EStateM.bind (pyRaise c m) f) :=
  ⟨fun _ hc hh => ⟨hc, hd, hh, rfl, Or.inl rfl⟩⟩

theorem Lands.bind_unsupported {α β : Type} {k : Key} {cfg : FlowCfg} {hd : Head} {T : β → Nat → Prop} (w : String)
    (f : α → M β) : Lands k cfg hd T (EStateM.bind (unsupported w) f) :=
  ⟨fun _ _ _ => trivial⟩

/-- side conditions `… → Edge (classify cfg) u v` of the rules: with `succs (classify cfg) u = […]` among the hypotheses -/
macro "lands_side" : tactic =>
  `(tactic| (refine ⟨?_, fun h => by cases h⟩; intros; simp only [SlideGraph.Edge]; simp [*]; done))

macro "lands_step" : tactic => `(tactic| first
  | with_reducible_and_instances exact Lands.pure_stop _
  | (with_reducible_and_instances refine Lands.setHeadPos_pure _ _ ?_; try lands_side)
  | (with_reducible_and_instances refine Lands.bind_labelPos ?_; intro _ _)
  | with_reducible_and_instances exact Lands.bind_pyRaise _ _ _
  | with_reducible_and_instances exact Lands.bind_unsupported _ _
  | (with_reducible_and_instances refine Lands.bind_pres (pres_setFlowStatus_stopping _ _ _ _) ?_)
  | (with_reducible_and_instances refine Lands.bind_keeps (by keeps) ?_)
  | intro _
  | split
  | dsimp only)
macro "lands" : tactic => `(tactic| repeat (any_goals lands_step))

/-! ### the classification, pointwise -/

theorem classify_length (cfg : FlowCfg) : (classify cfg).length = cfg.elements.size := by
  simp [classify]

theorem classify_get (cfg : FlowCfg) (u : Nat) (hlt : u < cfg.elements.size) :
    (classify cfg)[u]? = some (classifyPrim cfg cfg.elements[u]!) := by
  unfold classify
  simp [hlt]

theorem succs_classify (cfg : FlowCfg) (u : Nat) (hlt : u < cfg.elements.size) :
    SlideGraph.succs (classify cfg) u =
      match classifyPrim cfg cfg.elements[u]! with
      | .wait _ => []
      | .step _ => [u + 1]
      | .restartLabel => [u + 1]
      | .goto (some t) => [t + 1, u + 1]
      | .goto none => [u + 1]
      | .jump (some t) => [t + 1]
      | .jump none => [u + 1]
      | .ret => [cfg.elements.size]
      | .abort => cfg.elements.size :: (SlideGraph.catchTargets (classify cfg)).map (· + 1)
      | .catchPush _ => [u + 1]
      | .catchPop => [u + 1]
      | .fork ts => ts.map (· + 1)
      | .merge => [u + 1]
      | .waitHeads => [u + 1] := by
  unfold SlideGraph.succs
  rw [classify_get cfg u hlt, classify_length]
  generalize classifyPrim cfg cfg.elements[u]! = e
  cases e <;> try rfl
  all_goals (rename_i t; cases t <;> rfl)

/-! ### one iteration of `slide` -/

theorem landsR_bind_ok {α β : Type} {k : Key} {cfg : FlowCfg} {hd : Head} {T : β → Nat → Prop} {x : M α} {f : α → M β}
    {s : VM} {a : α} (hx : x s = .ok a s) (h : LandsR k cfg hd T (f a s)) : LandsR k cfg hd T (EStateM.bind x f s) := by
  unfold EStateM.bind
  rw [hx]
  exact h

set_option maxHeartbeats 1000000 in
/-- **One iteration of `slide`, every sliding element kind** (everything except `ForkHead`, `MergeHeads`, `EndScope`):
    if the loop goes on the head has moved along an edge of the sliding graph, if it stops the head has not moved.
    `C` is a side condition under which the catch-stack invariant holds for an `Abort` element (take `C := False` when
    only the exception clause is wanted). -/
theorem slideStep_lands (C : Prop) (fuel : Nat) (f : FUid) (h : HUid) (cfg : FlowCfg) (hd : Head) (s : VM)
    (hc : cfgOf s.r f = some cfg) (hh : headOf s (f, h) = some hd)
    (hk : (cfg.elements[hd.pos]!).slides = true)
    (hcatch : C → cfg.elements[hd.pos]! = .abort → CatchNamesOk cfg ((OMap.lookup (f, h) s.r.hx).getD {})) :
    LandsR (f, h) cfg hd
      (fun (a : Bool × List Key) q => (a.1 = false → C → SlideGraph.Edge (classify cfg) hd.pos q) ∧ (a.1 = true → q = hd.pos))
      (slideStep fuel f h s) := by
  unfold slideStep
  simp only [bind, EStateM.bind, cfgOfInst_of_cfgOf hc]
  simp only [getHead?_run, hh, pure]
  by_cases hnot : (decide (hd.pos ≥ cfg.elements.size) || decide (hd.status = HeadStatus.inactive)) = true
  · rw [if_pos hnot]
    exact (Lands.pure_stop []).run s hc hh
  · rw [if_neg hnot]
    have hlt : hd.pos < cfg.elements.size := by
      simp only [ge_iff_le, Bool.or_eq_true, decide_eq_true_eq, not_or, Nat.not_le] at hnot
      exact hnot.1
    have hs := succs_classify cfg hd.pos hlt
    generalize heq : cfg.elements[hd.pos]! = el at hs hk hcatch ⊢
    cases el
    all_goals (simp only [classifyPrim] at hs; dsimp only)
    case fork => cases hk
    case merge => cases hk
    case endScope => cases hk
    case abort =>
      have hgx : getHeadX (f, h) s = .ok ((OMap.lookup (f, h) s.r.hx).getD {}) s := rfl
      refine landsR_bind_ok hgx ?_
      generalize (OMap.lookup (f, h) s.r.hx).getD {} = hx at hcatch ⊢
      cases hgl : hx.catchLabels.getLast? with
      | none =>
        dsimp only
        refine Lands.run ?_ s hc hh
        lands
      | some l =>
        dsimp only
        refine Lands.run ?_ s hc hh
        lands
        rename_i t hlab
        refine ⟨fun _ hC => ?_, fun hF => by cases hF⟩
        have hcn := hcatch hC rfl
        have hmem : l ∈ hx.catchLabels := List.mem_of_getLast? hgl
        have h1 : SlideGraph.Elem.catchPush t ∈ classify cfg := by
          have := List.mem_map_of_mem (f := classifyPrim cfg) (hcn l hmem)
          simp only [classifyPrim, hlab, Option.getD] at this
          exact this
        have h2 : t ∈ SlideGraph.catchTargets (classify cfg) :=
          List.mem_filterMap.mpr ⟨_, h1, rfl⟩
        show _ ∈ _
        rw [hs]
        exact List.mem_cons_of_mem _ (List.mem_map_of_mem h2)
    case goto =>
      rename_i e l
      cases hl : cfg.label l <;> simp only [hl] at hs <;> refine Lands.run ?_ s hc hh <;> lands
    all_goals (refine Lands.run ?_ s hc hh; lands)

/-! ### element kinds after which the loop always ends: `ForkHead`, `MergeHeads` on an ACTIVE head -/

/-- every normal return of `x` says "stop" -/
structure Stops (x : M (Bool × List Key)) : Prop where
  run : ∀ s a s', x s = .ok a s' → a.1 = true

theorem Stops.pure_true (nh : List Key) : Stops (EStateM.pure (true, nh)) :=
  ⟨fun _ _ _ h => by cases h; rfl⟩

theorem Stops.bind {α : Type} {x : M α} {f : α → M (Bool × List Key)} (hf : ∀ a, Stops (f a)) :
    Stops (EStateM.bind x f) := by
  refine ⟨fun s a s' h => ?_⟩
  obtain ⟨b, s1, _, h2⟩ := bind_ok h
  exact (hf b).run s1 a s' h2

macro "stops" : tactic => `(tactic| repeat (first
  | with_reducible_and_instances exact Stops.pure_true _
  | with_reducible_and_instances refine Stops.bind ?_
  | intro _))

theorem slideStep_at_end (fuel : Nat) (f : FUid) (h : HUid) (cfg : FlowCfg) (hd : Head) (s : VM)
    (hc : cfgOf s.r f = some cfg) (hh : headOf s (f, h) = some hd)
    (hend : ¬ hd.pos < cfg.elements.size ∨ hd.status = .inactive) :
    slideStep fuel f h s = .ok (true, []) s := by
  unfold slideStep
  simp only [bind, EStateM.bind, cfgOfInst_of_cfgOf hc]
  simp only [getHead?_run, hh, pure]
  have hnot : (decide (hd.pos ≥ cfg.elements.size) || decide (hd.status = HeadStatus.inactive)) = true := by
    simp only [ge_iff_le, Bool.or_eq_true, decide_eq_true_eq]
    cases hend with
    | inl h1 => exact Or.inl (Nat.le_of_not_lt h1)
    | inr h2 => exact Or.inr h2
  rw [if_pos hnot]
  rfl

theorem slideStep_fork_merge_stops (fuel : Nat) (f : FUid) (h : HUid) (cfg : FlowCfg) (hd : Head) (s : VM)
    (hc : cfgOf s.r f = some cfg) (hh : headOf s (f, h) = some hd)
    (hel : (∃ u ls, cfg.elements[hd.pos]! = .fork u ls) ∨ (∃ u, cfg.elements[hd.pos]! = .merge u ∧ hd.status = .active))
    (a : Bool × List Key) (s' : VM) (hrun : slideStep fuel f h s = .ok a s') : a.1 = true := by
  revert hrun
  unfold slideStep
  simp only [bind, EStateM.bind, cfgOfInst_of_cfgOf hc]
  simp only [getHead?_run, hh, pure]
  by_cases hnot : (decide (hd.pos ≥ cfg.elements.size) || decide (hd.status = HeadStatus.inactive)) = true
  · rw [if_pos hnot]
    intro hrun; cases hrun; rfl
  · rw [if_neg hnot]
    cases hel with
    | inl hf =>
      obtain ⟨u, ls, heq⟩ := hf
      rw [heq]
      dsimp only
      refine Stops.run ?_ s a s'
      stops
    | inr hm =>
      obtain ⟨u, heq, hst⟩ := hm
      rw [heq]
      dsimp only
      rw [if_pos hst]
      refine Stops.run ?_ s a s'
      stops

/-! ### the theorems -/

theorem elem_get_of_lt (cfg : FlowCfg) (u : Nat) (hlt : u < cfg.elements.size) :
    cfg.elements[u]? = some cfg.elements[u]! := by
  simp [hlt]

/-- **Step labelling.**  A non-stopping iteration of CoreVM's `slide` loop for head `(f, h)` moves the head along an edge
    of the sliding graph of its flow: afterwards the head still exists, has the same status, the flow's config is
    unchanged, and `(old position, new position)` is an edge of `SlideGraph` for `classify cfg`.

    Explicit hypotheses: the element under the head is not `EndScope` (it calls `_abort_flow` on child flows — not
    covered); on a `MergeHeads` element the head is ACTIVE (a MERGING head becomes INACTIVE and the loop goes on without
    a move of this head — `slide` on a MERGING head is the merge itself, not a slide); on an `Abort` element the names on
    the head's catch stack are labels of `CatchPatternFailure` elements of the flow. -/
theorem slideStep_moves_along_edge (fuel : Nat) (f : FUid) (h : HUid) (s s' : VM) (cfg : FlowCfg) (hd : Head)
    (nh : List Key)
    (hcfg : cfgOfInst f s = .ok cfg s)
    (hhd : (findInst s.ixs.ix f).bind (·.findHead h) = some hd)
    (hrun : slideStep fuel f h s = .ok (false, nh) s')
    (hscope : ∀ n, cfg.elements[hd.pos]? ≠ some (.endScope n))
    (hmerge : ∀ u, cfg.elements[hd.pos]? = some (.merge u) → hd.status = .active)
    (hcatch : cfg.elements[hd.pos]? = some .abort → CatchNamesOk cfg ((OMap.lookup (f, h) s.r.hx).getD {})) :
    ∃ hd', (findInst s'.ixs.ix f).bind (·.findHead h) = some hd' ∧ hd'.status = hd.status ∧
      cfgOfInst f s' = .ok cfg s' ∧ SlideGraph.Edge (classify cfg) hd.pos hd'.pos := by
  have hc := cfgOf_of_cfgOfInst hcfg
  have hh : headOf s (f, h) = some hd := hhd
  by_cases hlt : hd.pos < cfg.elements.size
  · have hget := elem_get_of_lt cfg hd.pos hlt
    by_cases hk : (cfg.elements[hd.pos]!).slides = true
    · have hl := slideStep_lands True fuel f h cfg hd s hc hh hk
        (fun _ he => hcatch (by rw [hget, he]))
      rw [hrun] at hl
      obtain ⟨hc', hd', hh', hst, hT⟩ := hl
      exact ⟨hd', hh', hst, cfgOfInst_of_cfgOf hc', hT.1 rfl trivial⟩
    · exfalso
      have hstop : (false, nh).1 = true := by
        refine slideStep_fork_merge_stops fuel f h cfg hd s hc hh ?_ (false, nh) s' hrun
        cases hel : cfg.elements[hd.pos]! with
        | fork u ls => exact Or.inl ⟨u, ls, rfl⟩
        | merge u => exact Or.inr ⟨u, rfl, hmerge u (by rw [hget, hel])⟩
        | endScope n => exact absurd (by rw [hget, hel]) (hscope n)
        | _ => rw [hel] at hk; exact absurd rfl hk
      cases hstop
  · have := slideStep_at_end fuel f h cfg hd s hc hh (Or.inl hlt)
    rw [this] at hrun
    cases hrun

/-- **A stopping iteration does not move the head** (sliding element kinds: a wait, an action `send`, `WaitForHeads`
    without enough heads, the end of the flow). -/
theorem slideStep_stop_no_move (fuel : Nat) (f : FUid) (h : HUid) (s s' : VM) (cfg : FlowCfg) (hd : Head)
    (nh : List Key)
    (hcfg : cfgOfInst f s = .ok cfg s)
    (hhd : (findInst s.ixs.ix f).bind (·.findHead h) = some hd)
    (hk : (cfg.elements[hd.pos]!).slides = true)
    (hrun : slideStep fuel f h s = .ok (true, nh) s') :
    ∃ hd', (findInst s'.ixs.ix f).bind (·.findHead h) = some hd' ∧ hd'.status = hd.status ∧
      cfgOfInst f s' = .ok cfg s' ∧ hd'.pos = hd.pos := by
  have hc := cfgOf_of_cfgOfInst hcfg
  have hh : headOf s (f, h) = some hd := hhd
  have hl := slideStep_lands False fuel f h cfg hd s hc hh hk (fun hF => hF.elim)
  rw [hrun] at hl
  obtain ⟨hc', hd', hh', hst, hT⟩ := hl
  exact ⟨hd', hh', hst, cfgOfInst_of_cfgOf hc', hT.2 rfl⟩

/-- **Position after an exception.**  If one iteration of `slide` raises a Python exception while the head is on an
    element inside its flow (not `ForkHead` / `MergeHeads` / `EndScope`), the head still exists, has the same status and
    is still on an element inside the flow (it did not move, or the position setter moved it onto a match element whose
    event-name evaluation raised): `flow_config.elements[head.position]` in the exception handler of
    `_advance_head_front` cannot raise `IndexError`. -/
theorem slideStep_error_pos (fuel : Nat) (f : FUid) (h : HUid) (s s' : VM) (cfg : FlowCfg) (hd : Head) (c m : String)
    (hcfg : cfgOfInst f s = .ok cfg s)
    (hhd : (findInst s.ixs.ix f).bind (·.findHead h) = some hd)
    (hlt : hd.pos < cfg.elements.size)
    (hk : (cfg.elements[hd.pos]!).slides = true)
    (hrun : slideStep fuel f h s = .error (.py c m) s') :
    ∃ hd', (findInst s'.ixs.ix f).bind (·.findHead h) = some hd' ∧ hd'.status = hd.status ∧
      cfgOfInst f s' = .ok cfg s' ∧ hd'.pos < cfg.elements.size := by
  have hc := cfgOf_of_cfgOfInst hcfg
  have hh : headOf s (f, h) = some hd := hhd
  have hl := slideStep_lands False fuel f h cfg hd s hc hh hk (fun hF => hF.elim)
  rw [hrun] at hl
  obtain ⟨hc', hd', hh', hst, hp⟩ := hl
  refine ⟨hd', hh', hst, cfgOfInst_of_cfgOf hc', ?_⟩
  cases hp with
  | inl h1 => rw [h1]; exact hlt
  | inr h2 => exact h2

/-- the frame facts asked for separately: none of these touches the index component -/
theorem ixs_of_keeps {α : Type} {x : M α} (hx : KeepsFr x) (s : VM) : (resSt (x s)).ixs = s.ixs := (hx.frame s).ixs

/-! ## The token level: `slideStep` on a simple element is one `RoundMachine.Step`

  `FrameQ` / `KeepsQ` = `Frame` / `KeepsFr` plus "the queue of internal events is unchanged"; the calculus and its lemmas are
  the same as above (everything except `pushEvent`, `pushLeftEvent`). -/

open NemoVerif.RoundMachine


theorem FrameQ.refl (s : VM) : FrameQ s s := ⟨rfl, rfl, rfl, rfl⟩
theorem FrameQ.trans {a b c : VM} (h1 : FrameQ a b) (h2 : FrameQ b c) : FrameQ a c :=
  ⟨h2.ixs.trans h1.ixs, h2.prog.trans h1.prog, h2.ids.trans h1.ids, h2.queue.trans h1.queue⟩

theorem KeepsQ.pure {α : Type} (a : α) : KeepsQ (EStateM.pure a : M α) := ⟨fun s => FrameQ.refl s⟩

theorem KeepsQ.bind {α β : Type} {x : M α} {f : α → M β} (hx : KeepsQ x) (hf : ∀ a, KeepsQ (f a)) :
    KeepsQ (EStateM.bind x f) := by
  refine ⟨fun s => ?_⟩
  have h1 := hx.frame s
  unfold EStateM.bind
  split
  · rename_i a s1 hxs
    rw [hxs] at h1
    exact FrameQ.trans h1 ((hf a).frame s1)
  · rename_i e s1 hxs
    rw [hxs] at h1
    exact h1

theorem KeepsQ.throw {α : Type} (e : VMErr) : KeepsQ (EStateM.throw e : M α) := ⟨fun s => FrameQ.refl s⟩
theorem KeepsQ.pyRaise {α : Type} (c m : String) : KeepsQ (pyRaise c m : M α) := ⟨fun s => FrameQ.refl s⟩
theorem KeepsQ.unsupported {α : Type} (w : String) : KeepsQ (unsupported w : M α) := ⟨fun s => FrameQ.refl s⟩
theorem KeepsQ.get : KeepsQ (EStateM.get : M VM) := ⟨fun s => FrameQ.refl s⟩

theorem KeepsQ.tryCatch {α : Type} {x : M α} {hdl : VMErr → M α} (hx : KeepsQ x) (hh : ∀ e, KeepsQ (hdl e)) :
    KeepsQ (tryCatch x hdl) := by
  refine ⟨fun s => ?_⟩
  have h1 := hx.frame s
  show FrameQ s (resSt (EStateM.tryCatch x hdl s))
  unfold EStateM.tryCatch
  simp only [EStateM.Backtrackable.restore, EStateM.dummyRestore]
  split
  · rename_i e s1 hxs
    rw [hxs] at h1
    exact FrameQ.trans h1 ((hh e).frame s1)
  · rename_i hne
    exact h1

theorem KeepsQ.modifyRest (g : Rest → Rest) (hp : ∀ r, (g r).prog = r.prog) (hi : ∀ r, fxIds (g r).fx = fxIds r.fx)
    (hq : ∀ r, (g r).queue = r.queue) :
    KeepsQ (modifyRest g) := by
  exact ⟨fun s => ⟨rfl, hp s.r, hi s.r, hq s.r⟩⟩

theorem KeepsQ.forIn {β σ : Type} (l : List β) (init : σ) (body : β → σ → M (ForInStep σ))
    (hb : ∀ a b, KeepsQ (body a b)) : KeepsQ (forIn l init body) := by
  induction l generalizing init with
  | nil => exact ⟨fun s => FrameQ.refl s⟩
  | cons a as ih =>
    rw [List.forIn_cons]
    apply KeepsQ.bind (hb a init)
    intro r
    cases r with
    | done b => exact ⟨fun s => FrameQ.refl s⟩
    | yield b => exact ih b

theorem KeepsQ.mapM {β γ : Type} (g : β → M γ) (l : List β) (hg : ∀ a, KeepsQ (g a)) : KeepsQ (l.mapM g) := by
  induction l with
  | nil => exact ⟨fun s => FrameQ.refl s⟩
  | cons a as ih =>
    rw [List.mapM_cons]
    apply KeepsQ.bind (hg a)
    intro b
    apply KeepsQ.bind ih
    intro bs
    exact ⟨fun s => FrameQ.refl s⟩


theorem KeepsQ.modInstX (f : FUid) (g : InstX → InstX) (hg : ∀ x, (g x).flowId = x.flowId) : KeepsQ (modInstX f g) :=
  KeepsQ.modifyRest _ (fun _ => rfl) (fun r => fxIds_modify f g hg r.fx) (fun _ => rfl)

syntax "keepsq_known" : tactic
macro_rules | `(tactic| keepsq_known) => `(tactic| fail "no known KeepsQ lemma")

/-- the closing / decomposing steps, at whatever transparency the caller sets -/
macro "keepsq_core" : tactic => `(tactic| first
  | keepsq_known
  | exact KeepsQ.pure _
  | exact KeepsQ.throw _ | exact KeepsQ.pyRaise _ _ | exact KeepsQ.unsupported _ | exact KeepsQ.get
  | (apply KeepsQ.modInstX; intro _; rfl)
  | (apply KeepsQ.modifyRest <;> (intro _; rfl))
  | apply KeepsQ.tryCatch
  | apply KeepsQ.forIn
  | apply KeepsQ.mapM
  | apply KeepsQ.bind)

macro "keepsq_step" : tactic => `(tactic| first
  | assumption
  | with_reducible_and_instances keepsq_core
  | intro _
  | split
  | keepsq_core
  | apply_assumption
  | dsimp only)
macro "keepsq" : tactic => `(tactic| repeat keepsq_step)

theorem keepsq_getRest : KeepsQ getRest := by unfold getRest; keepsq
macro_rules | `(tactic| keepsq_known) => `(tactic| exact keepsq_getRest)
theorem keepsq_getIx : KeepsQ getIx := by unfold getIx; keepsq
macro_rules | `(tactic| keepsq_known) => `(tactic| exact keepsq_getIx)
theorem keepsq_freshUid : KeepsQ freshUid := by unfold freshUid; keepsq
macro_rules | `(tactic| keepsq_known) => `(tactic| exact keepsq_freshUid)
theorem keepsq_getInstX? (f) : KeepsQ (getInstX? f) := by unfold getInstX?; keepsq
macro_rules | `(tactic| keepsq_known) => `(tactic| exact keepsq_getInstX? _)
theorem keepsq_getInstX (f) : KeepsQ (getInstX f) := by unfold getInstX; keepsq
macro_rules | `(tactic| keepsq_known) => `(tactic| exact keepsq_getInstX _)
theorem keepsq_ctxHolder (f) : KeepsQ (ctxHolder f) := by unfold ctxHolder; keepsq
macro_rules | `(tactic| keepsq_known) => `(tactic| exact keepsq_ctxHolder _)
theorem keepsq_getCtx (f) : KeepsQ (getCtx f) := by unfold getCtx; keepsq
macro_rules | `(tactic| keepsq_known) => `(tactic| exact keepsq_getCtx _)
theorem keepsq_setCtxVar (f k v) : KeepsQ (setCtxVar f k v) := by unfold setCtxVar; keepsq
macro_rules | `(tactic| keepsq_known) => `(tactic| exact keepsq_setCtxVar _ _ _)
theorem keepsq_getAction? (u) : KeepsQ (getAction? u) := by unfold getAction?; keepsq
macro_rules | `(tactic| keepsq_known) => `(tactic| exact keepsq_getAction? _)
theorem keepsq_lookupVar (c n) : KeepsQ (lookupVar c n) := by unfold lookupVar; keepsq
macro_rules | `(tactic| keepsq_known) => `(tactic| exact keepsq_lookupVar _ _)

theorem keepsq_valueErr {α : Type} (m : String) : KeepsQ (valueErr m : M α) := KeepsQ.pyRaise _ _
macro_rules | `(tactic| keepsq_known) => `(tactic| exact keepsq_valueErr _)

theorem keepsq_attrOf (v a l) : KeepsQ (attrOf v a l) := by unfold attrOf; keepsq
macro_rules | `(tactic| keepsq_known) => `(tactic| exact keepsq_attrOf _ _ _)

section evalStepQ
set_option linter.unusedSectionVars false
variable (n : Nat) (ih1 : ∀ c e, KeepsQ (evalExpr c n e)) (ih2 : ∀ c e, KeepsQ (evalBase c n e)) (c : EvalCtx)
include ih1 ih2
theorem keepsq_evalExpr_lit (v) : KeepsQ (evalExpr c (n+1) (.lit v)) := by
  simp only [evalExpr]; keepsq
theorem keepsq_evalExpr_interp (v) : KeepsQ (evalExpr c (n+1) (.interp v)) := by
  simp only [evalExpr]; keepsq
theorem keepsq_evalExpr_var (v) : KeepsQ (evalExpr c (n+1) (.var v)) := by
  simp only [evalExpr]; keepsq
theorem keepsq_evalExpr_name (v) : KeepsQ (evalExpr c (n+1) (.name v)) := by
  simp only [evalExpr]; keepsq
theorem keepsq_evalExpr_attr (e a) : KeepsQ (evalExpr c (n+1) (.attr e a)) := by
  simp only [evalExpr]; keepsq
theorem keepsq_evalExpr_index (e a) : KeepsQ (evalExpr c (n+1) (.index e a)) := by
  simp only [evalExpr]; keepsq
theorem keepsq_evalExpr_not (e) : KeepsQ (evalExpr c (n+1) (.not e)) := by
  simp only [evalExpr]; keepsq
theorem keepsq_evalExpr_and (e) : KeepsQ (evalExpr c (n+1) (.and e)) := by
  simp only [evalExpr]; keepsq
theorem keepsq_evalExpr_or (e) : KeepsQ (evalExpr c (n+1) (.or e)) := by
  simp only [evalExpr]; keepsq
theorem keepsq_evalExpr_cmp (e r) : KeepsQ (evalExpr c (n+1) (.cmp e r)) := by
  simp only [evalExpr]; keepsq
theorem keepsq_evalExpr_bin (o a b) : KeepsQ (evalExpr c (n+1) (.bin o a b)) := by
  simp only [evalExpr]; keepsq
theorem keepsq_evalExpr_neg (e) : KeepsQ (evalExpr c (n+1) (.neg e)) := by
  simp only [evalExpr]; keepsq
theorem keepsq_evalExpr_call (f args) : KeepsQ (evalExpr c (n+1) (.call f args)) := by
  simp only [evalExpr]; keepsq
theorem keepsq_evalExpr_list (e) : KeepsQ (evalExpr c (n+1) (.list e)) := by
  simp only [evalExpr]; keepsq
theorem keepsq_evalExpr_set (e) : KeepsQ (evalExpr c (n+1) (.set e)) := by
  simp only [evalExpr]; keepsq
theorem keepsq_evalExpr_dict (e) : KeepsQ (evalExpr c (n+1) (.dict e)) := by
  simp only [evalExpr]; keepsq
theorem keepsq_evalExpr_unsupported (e) : KeepsQ (evalExpr c (n+1) (.unsupported e)) := by
  simp only [evalExpr]; keepsq

theorem keepsq_evalExpr_succ (e) : KeepsQ (evalExpr c (n+1) e) := by
  cases e with
  | lit v => exact keepsq_evalExpr_lit n ih1 ih2 c v
  | interp parts => exact keepsq_evalExpr_interp n ih1 ih2 c parts
  | var name => exact keepsq_evalExpr_var n ih1 ih2 c name
  | name m => exact keepsq_evalExpr_name n ih1 ih2 c m
  | attr e a => exact keepsq_evalExpr_attr n ih1 ih2 c e a
  | index e i => exact keepsq_evalExpr_index n ih1 ih2 c e i
  | not e => exact keepsq_evalExpr_not n ih1 ih2 c e
  | and es => exact keepsq_evalExpr_and n ih1 ih2 c es
  | or es => exact keepsq_evalExpr_or n ih1 ih2 c es
  | cmp e rest => exact keepsq_evalExpr_cmp n ih1 ih2 c e rest
  | bin op a b => exact keepsq_evalExpr_bin n ih1 ih2 c op a b
  | neg e => exact keepsq_evalExpr_neg n ih1 ih2 c e
  | call f args => exact keepsq_evalExpr_call n ih1 ih2 c f args
  | list es => exact keepsq_evalExpr_list n ih1 ih2 c es
  | dict kvs => exact keepsq_evalExpr_dict n ih1 ih2 c kvs
  | set es => exact keepsq_evalExpr_set n ih1 ih2 c es
  | unsupported why => exact keepsq_evalExpr_unsupported n ih1 ih2 c why

theorem keepsq_evalBase_succ (e) : KeepsQ (evalBase c (n+1) e) := by
  cases e <;> simp only [evalBase] <;> keepsq
end evalStepQ

theorem keepsq_evalExpr_aux : ∀ fuel : Nat, (∀ c e, KeepsQ (evalExpr c fuel e)) ∧ (∀ c e, KeepsQ (evalBase c fuel e)) := by
  intro fuel
  induction fuel with
  | zero =>
    constructor
    · intro c e; rw [evalExpr.eq_1]; exact KeepsQ.throw _
    · intro c e; rw [evalBase.eq_1]; exact KeepsQ.throw _
  | succ n ih =>
    exact ⟨fun c e => keepsq_evalExpr_succ n ih.1 ih.2 c e, fun c e => keepsq_evalBase_succ n ih.1 ih.2 c e⟩

theorem keepsq_evalExpr (c : EvalCtx) (fuel : Nat) (e : Expr) : KeepsQ (evalExpr c fuel e) := (keepsq_evalExpr_aux fuel).1 c e
macro_rules | `(tactic| keepsq_known) => `(tactic| exact keepsq_evalExpr _ _ _)
theorem keepsq_evalBase (c : EvalCtx) (fuel : Nat) (e : Expr) : KeepsQ (evalBase c fuel e) := (keepsq_evalExpr_aux fuel).2 c e
macro_rules | `(tactic| keepsq_known) => `(tactic| exact keepsq_evalBase _ _ _)

theorem keepsq_evalIn (f : FUid) (e : Expr) : KeepsQ (evalIn f e) := by unfold evalIn; keepsq
macro_rules | `(tactic| keepsq_known) => `(tactic| exact keepsq_evalIn _ _)
theorem keepsq_evalEmpty (e : Expr) : KeepsQ (evalEmpty e) := by unfold evalEmpty; keepsq
macro_rules | `(tactic| keepsq_known) => `(tactic| exact keepsq_evalEmpty _)
theorem keepsq_evalArgs (f : FUid) (args : List (String × Expr)) : KeepsQ (evalArgs f args) := by unfold evalArgs; keepsq
macro_rules | `(tactic| keepsq_known) => `(tactic| exact keepsq_evalArgs _ _)



theorem keepsq_flowObjOf (f : FUid) : KeepsQ (flowObjOf f) := by unfold flowObjOf; keepsq
macro_rules | `(tactic| keepsq_known) => `(tactic| exact keepsq_flowObjOf _)
theorem keepsq_flowStartEvent (o : FlowObj) (args) : KeepsQ (flowStartEvent o args) := by unfold flowStartEvent; keepsq
macro_rules | `(tactic| keepsq_known) => `(tactic| exact keepsq_flowStartEvent _ _)
theorem keepsq_flowGetEvent (o : FlowObj) (n : String) (args) : KeepsQ (flowGetEvent o n args) := by unfold flowGetEvent; keepsq
macro_rules | `(tactic| keepsq_known) => `(tactic| exact keepsq_flowGetEvent _ _ _)
theorem keepsq_actionGetEvent (a : Action) (n : String) (args) : KeepsQ (actionGetEvent a n args) := by
  unfold actionGetEvent; dsimp only; keepsq
macro_rules | `(tactic| keepsq_known) => `(tactic| exact keepsq_actionGetEvent _ _ _)
theorem keepsq_instanceArguments (cfg : FlowCfg) (evArgs) : KeepsQ (instanceArguments cfg evArgs) := by unfold instanceArguments; keepsq
macro_rules | `(tactic| keepsq_known) => `(tactic| exact keepsq_instanceArguments _ _)
theorem keepsq_getCfg (id : String) : KeepsQ (getCfg id) := by unfold getCfg; keepsq
macro_rules | `(tactic| keepsq_known) => `(tactic| exact keepsq_getCfg _)
theorem keepsq_tempFlowObj (n : String) : KeepsQ (tempFlowObj n) := by unfold tempFlowObj; keepsq
macro_rules | `(tactic| keepsq_known) => `(tactic| exact keepsq_tempFlowObj _)
theorem keepsq_tempAction (n : String) (args) : KeepsQ (tempAction n args) := by unfold tempAction; keepsq
macro_rules | `(tactic| keepsq_known) => `(tactic| exact keepsq_tempAction _ _)
theorem keepsq_resolveRef (f : FUid) (spec : Spec) (v : String) : KeepsQ (resolveRef f spec v) := by unfold resolveRef; keepsq
macro_rules | `(tactic| keepsq_known) => `(tactic| exact keepsq_resolveRef _ _ _)
theorem keepsq_getEventName (f : FUid) (spec : Spec) : KeepsQ (getEventName f spec) := by unfold getEventName; keepsq
macro_rules | `(tactic| keepsq_known) => `(tactic| exact keepsq_getEventName _ _)
theorem keepsq_getEvent (f : FUid) (spec : Spec) (isMatch : Bool) : KeepsQ (getEvent f spec isMatch) := by unfold getEvent; keepsq
macro_rules | `(tactic| keepsq_known) => `(tactic| exact keepsq_getEvent _ _ _)



theorem keepsq_getInst? (f) : KeepsQ (getInst? f) := by unfold getInst?; keepsq
macro_rules | `(tactic| keepsq_known) => `(tactic| exact keepsq_getInst? _)
theorem keepsq_getInst (f) : KeepsQ (getInst f) := by unfold getInst; keepsq
macro_rules | `(tactic| keepsq_known) => `(tactic| exact keepsq_getInst _)
theorem keepsq_getHead? (k) : KeepsQ (getHead? k) := by unfold getHead?; keepsq
macro_rules | `(tactic| keepsq_known) => `(tactic| exact keepsq_getHead? _)
theorem keepsq_getHeadX (k) : KeepsQ (getHeadX k) := by unfold getHeadX; keepsq
macro_rules | `(tactic| keepsq_known) => `(tactic| exact keepsq_getHeadX _)
theorem keepsq_modHeadX (k g) : KeepsQ (modHeadX k g) := by unfold modHeadX; keepsq
macro_rules | `(tactic| keepsq_known) => `(tactic| exact keepsq_modHeadX _ _)
theorem keepsq_cfgOfInst (f) : KeepsQ (cfgOfInst f) := by unfold cfgOfInst; keepsq
macro_rules | `(tactic| keepsq_known) => `(tactic| exact keepsq_cfgOfInst _)
theorem keepsq_setAction (a) : KeepsQ (setAction a) := by unfold setAction; keepsq
macro_rules | `(tactic| keepsq_known) => `(tactic| exact keepsq_setAction _)
theorem keepsq_headScores (k) : KeepsQ (headScores k) := by unfold headScores; keepsq
macro_rules | `(tactic| keepsq_known) => `(tactic| exact keepsq_headScores _)
theorem keepsq_labelPos (cfg l) : KeepsQ (labelPos cfg l) := by unfold labelPos; keepsq
macro_rules | `(tactic| keepsq_known) => `(tactic| exact keepsq_labelPos _ _)
theorem keepsq_nameFor (f p st) : KeepsQ (nameFor f p st) := by unfold nameFor; keepsq
macro_rules | `(tactic| keepsq_known) => `(tactic| exact keepsq_nameFor _ _ _)


/-! ### the global effect of a simple step -/


theorem FrameQ.headOf {s s' : VM} (h : FrameQ s s') (k : Key) : headOf s' k = headOf s k := by
  unfold CoreVM.headOf; rw [h.ixs]

theorem Moved.of_frameQ {k : Key} {hd : Head} {p : Nat} {s s1 s' : VM} (h1 : FrameQ s s1) (h2 : Moved k hd p s1 s') :
    Moved k hd p s s' :=
  ⟨h2.prog.trans h1.prog, h2.ids.trans h1.ids, h2.queue.trans h1.queue, by rw [← h1.ixs]; exact h2.insts⟩

theorem step_setPos_insts (ix : IState) (f : FUid) (h : HUid) (p : Nat) (nm : Option String) (hd : Head)
    (hh : (findInst ix f).bind (·.findHead h) = some hd) (hne : hd.pos ≠ p) :
    (step ix (.setPos f h p nm)).insts =
      ix.insts.map fun i => if i.uid = f then i.modifyHead h (fun x => { x with pos := p, elem := nm }) else i := by
  cases hi : findInst ix f with
  | none => rw [hi] at hh; cases hh
  | some i =>
    rw [hi] at hh
    simp only [Option.bind] at hh
    simp only [step, hi, Option.bind, hh, hne, if_false]
    rw [touchHead_found _ hi hh, insts_headChanged]
    rfl

/-- **`head.position = p`, normal return, globally**: nothing but the position / ghost `elem` of head `k` changes -/
theorem setHeadPos_ok_moved {k : Key} {p : Nat} {s s' : VM} {hd : Head}
    (hh : headOf s k = some hd) (hrun : setHeadPos k p s = .ok () s') : Moved k hd p s s' := by
  unfold setHeadPos at hrun
  simp only [bind, EStateM.bind, getHead?_run, hh] at hrun
  by_cases hp : hd.pos = p
  · rw [if_pos hp] at hrun
    cases hrun
    exact ⟨rfl, rfl, rfl, Or.inl ⟨rfl, hp⟩⟩
  · rw [if_neg hp] at hrun
    simp only [EStateM.bind, attemptPy_run] at hrun
    have hfr := (keepsq_nameFor k.1 p hd.status).frame s
    cases hn : nameFor k.1 p hd.status s with
    | ok nm s1 =>
      rw [hn] at hfr hrun
      change FrameQ s s1 at hfr
      simp only at hrun
      have hh1 : headOf s1 k = some hd := by rw [hfr.headOf]; exact hh
      have hg : (Op.setPos k.1 k.2 p nm).guard s1.ixs.ix = true := by
        unfold headOf at hh1
        simp only [Op.guard, hh1, Option.isSome]
      obtain ⟨s2, h2, hix, hr⟩ := applyOp_ok _ s1 hg
      rw [h2] at hrun
      cases hrun
      refine Moved.of_frameQ hfr ⟨by rw [hr], by rw [hr], by rw [hr], Or.inr ⟨nm, ?_⟩⟩
      rw [hix]
      exact step_setPos_insts _ _ _ _ _ _ hh1 hp
    | error e s1 =>
      rw [hn] at hrun
      cases e with
      | py c m =>
        simp only at hrun
        obtain ⟨_, s2, _, h3⟩ := bind_ok hrun
        cases h3
      | _ => cases hrun

theorem SimpleMove.bind_keepsq {α : Type} {k : Key} {hd : Head} {P : Nat → Prop} {x : M α} {f : α → M (Bool × List Key)}
    (hx : KeepsQ x) (hf : ∀ a, SimpleMove k hd P (f a)) : SimpleMove k hd P (EStateM.bind x f) := by
  refine ⟨fun s b s' hh h => ?_⟩
  obtain ⟨a, s1, h1, h2⟩ := bind_ok h
  have hfr := hx.frame s
  rw [h1] at hfr
  change FrameQ s s1 at hfr
  obtain ⟨hb, p, hp, hm⟩ := (hf a).run s1 b s' (by rw [hfr.headOf]; exact hh) h2
  exact ⟨hb, p, hp, Moved.of_frameQ hfr hm⟩

theorem SimpleMove.setHeadPos_pure {k : Key} {hd : Head} {P : Nat → Prop} (p : Nat) (hP : P p) :
    SimpleMove k hd P (EStateM.bind (setHeadPos k p) fun _ => EStateM.pure (false, [])) := by
  refine ⟨fun s b s' hh h => ?_⟩
  obtain ⟨_, s1, h1, h2⟩ := bind_ok h
  cases h2
  exact ⟨rfl, p, hP, setHeadPos_ok_moved hh h1⟩

theorem SimpleMove.bind_labelPos {k : Key} {hd : Head} {P : Nat → Prop} {c : FlowCfg} {l : String}
    {f : Nat → M (Bool × List Key)} (hf : ∀ t, c.label l = some t → SimpleMove k hd P (f t)) :
    SimpleMove k hd P (EStateM.bind (labelPos c l) f) := by
  refine ⟨fun s b s' hh h => ?_⟩
  unfold labelPos EStateM.bind at h
  cases hl : c.label l with
  | none => rw [hl] at h; cases h
  | some t => rw [hl] at h; exact (hf t hl).run s b s' hh h

theorem SimpleMove.bind_pyRaise {α : Type} {k : Key} {hd : Head} {P : Nat → Prop} (c m : String)
    (f : α → M (Bool × List Key)) : SimpleMove k hd P (EStateM.bind (pyRaise c m) f) :=
  ⟨fun _ _ _ _ h => by cases h⟩

macro "simple_side" : tactic => `(tactic| (simp only [SlideGraph.Edge]; simp [*]; done))

macro "simple_step" : tactic => `(tactic| first
  | (with_reducible_and_instances refine SimpleMove.setHeadPos_pure _ ?_; try simple_side)
  | (with_reducible_and_instances refine SimpleMove.bind_labelPos ?_; intro _ _)
  | with_reducible_and_instances exact SimpleMove.bind_pyRaise _ _ _
  | (with_reducible_and_instances refine SimpleMove.bind_keepsq (by keepsq) ?_)
  | intro _
  | split
  | dsimp only)
macro "simple_move" : tactic => `(tactic| repeat (any_goals simple_step))

set_option maxHeartbeats 1000000 in
/-- **One iteration of `slide` on a simple element**: whenever it returns normally the loop goes on, no head was created,
    and the only change the token abstraction can see is the move of head `(f, h)` along an edge of the sliding graph. -/
theorem slideStep_simple (fuel : Nat) (f : FUid) (h : HUid) (cfg : FlowCfg) (hd : Head) (s s' : VM) (b : Bool × List Key)
    (hc : cfgOf s.r f = some cfg) (hh : headOf s (f, h) = some hd)
    (hlt : hd.pos < cfg.elements.size) (hact : hd.status ≠ .inactive)
    (hk : (cfg.elements[hd.pos]!).simple = true)
    (hrun : slideStep fuel f h s = .ok b s') :
    b = (false, []) ∧ ∃ p, SlideGraph.Edge (classify cfg) hd.pos p ∧ Moved (f, h) hd p s s' := by
  revert hrun
  unfold slideStep
  simp only [bind, EStateM.bind, cfgOfInst_of_cfgOf hc]
  simp only [getHead?_run, hh, pure]
  have hnot : ¬ (decide (hd.pos ≥ cfg.elements.size) || decide (hd.status = HeadStatus.inactive)) = true := by
    simp only [ge_iff_le, Bool.or_eq_true, decide_eq_true_eq, not_or, Nat.not_le]
    exact ⟨hlt, hact⟩
  rw [if_neg hnot]
  have hs := succs_classify cfg hd.pos hlt
  generalize heq : cfg.elements[hd.pos]! = el at hs hk ⊢
  cases el
  all_goals (first | (cases hk; done) | skip)
  all_goals (simp only [classifyPrim] at hs; dsimp only)
  case goto =>
    rename_i e l
    cases hl : cfg.label l <;> simp only [hl] at hs <;> refine SimpleMove.run ?_ s b s' hh <;> simple_move
  case label =>
    rename_i name
    have hne : ¬ name = "start_new_flow_instance" := by simpa [Prim.simple] using hk
    rw [if_neg hne] at hs ⊢
    refine SimpleMove.run ?_ s b s' hh
    simple_move
  all_goals (refine SimpleMove.run ?_ s b s' hh; simple_move)



/-! ### replacing the one element with a given key -/

theorem map_update_id {α : Type} (key : α → String) (f : String) (g : α → α) (l : List α)
    (h : ∀ a ∈ l, key a ≠ f) : l.map (fun a => if key a = f then g a else a) = l := by
  induction l with
  | nil => rfl
  | cons a rest ih =>
    simp only [List.map_cons]
    rw [if_neg (h a (List.mem_cons_self ..)), ih (fun b hb => h b (List.mem_cons_of_mem _ hb))]

theorem map_update_split {α : Type} (key : α → String) (f : String) (l : List α) (x : α)
    (hnd : (l.map key).Nodup) (hf : l.find? (fun a => decide (key a = f)) = some x) :
    ∃ l1 l2, l = l1 ++ x :: l2 ∧ ∀ g : α → α, l.map (fun a => if key a = f then g a else a) = l1 ++ g x :: l2 := by
  induction l with
  | nil => cases hf
  | cons a rest ih =>
    simp only [List.map_cons, List.nodup_cons] at hnd
    by_cases ha : key a = f
    · have : a = x := by simpa [List.find?, ha] using hf
      subst this
      refine ⟨[], rest, rfl, fun g => ?_⟩
      have hrest : ∀ b ∈ rest, key b ≠ f := by
        intro b hb hbf
        exact hnd.1 (List.mem_map.mpr ⟨b, hb, hbf.trans ha.symm⟩)
      simp only [List.map_cons, if_pos ha, List.nil_append]
      rw [map_update_id key f g rest hrest]
    · have hf' : rest.find? (fun a => decide (key a = f)) = some x := by simpa [List.find?, ha] using hf
      obtain ⟨l1, l2, h1, h2⟩ := ih hnd.2 hf'
      refine ⟨a :: l1, l2, by rw [h1]; rfl, fun g => ?_⟩
      simp only [List.map_cons, if_neg ha, List.cons_append]
      rw [h2 g]



theorem classifyPrim_simple (cfg : FlowCfg) (el : Prim) (h : el.simple = true) : plainElem (classifyPrim cfg el) = true := by
  cases el <;> simp only [Prim.simple] at h <;> try (simp only [classifyPrim, plainElem]; done)
  case label name =>
    have hne : ¬ name = "start_new_flow_instance" := by simpa using h
    simp only [classifyPrim, if_neg hne, plainElem]
  case catchFail l => cases l <;> simp only [classifyPrim, plainElem]
  all_goals cases h

theorem headOutcomes_plain (P : RProg) (fl : RFlow) (f u v : Nat) (b : Bool) (e : SlideGraph.Elem)
    (hP : P[f]? = some fl) (he : fl.ctl[u]? = some e) (hpl : plainElem e = true) (hv : v ∈ SlideGraph.succs fl.ctl u) :
    (fl.emit.getD u []).map Token.ev ++ [Token.head f v b] ∈ headOutcomes P f u b false := by
  unfold headOutcomes
  rw [hP]
  simp only
  apply List.mem_append_right
  rw [he]
  cases e <;> simp only [plainElem] at hpl <;> first | (cases hpl; done) | exact List.mem_map.mpr ⟨v, hv, rfl⟩



theorem instTokens_split (idx : String → Option Nat) (ids : List (FUid × String)) (i : Inst) (n : Nat)
    (H1 H2 : List Head) (x : Head)
    (hl : i.status.listening = true) (hn : (OMap.lookup i.uid ids).bind idx = some n) (hh : i.heads = H1 ++ x :: H2)
    (hx : x.status ≠ .inactive) :
    instTokens idx ids i =
      H1.filterMap (headToken n (decide (i.status = .started))) ++
        Token.head n x.pos (decide (i.status = .started)) :: H2.filterMap (headToken n (decide (i.status = .started))) := by
  unfold instTokens
  rw [if_pos hl, hn, hh]
  simp only [List.filterMap_append, List.filterMap_cons, headToken, if_pos hx]

/-- **Token level.**  A normally returning `slideStep` on a simple element (no event pushed, no head created) is one step
    of the `RoundMachine`: the token of head `(f, h)` is replaced by the token of the same head one edge further; all
    other tokens (queued events, other heads) are untouched.  `P` is any `RProg` whose flow number `n = idx (flow id)`
    has the control skeleton `classify cfg` and pushes nothing at this element. -/
theorem corevm_slide_step_is_machine_step (idx : String → Option Nat) (P : RProg) (fl : RFlow) (n : Nat)
    (fuel : Nat) (f : FUid) (h : HUid) (cfg : FlowCfg) (hd : Head) (i : Inst) (s s' : VM) (b : Bool × List Key)
    (hcfg : cfgOfInst f s = .ok cfg s)
    (hi : findInst s.ixs.ix f = some i) (hhd : i.findHead h = some hd)
    (hlt : hd.pos < cfg.elements.size) (hact : hd.status ≠ .inactive)
    (hk : (cfg.elements[hd.pos]!).simple = true)
    (hlisten : i.status.listening = true)
    (hidx : (OMap.lookup f (fxIds s.r.fx)).bind idx = some n)
    (hP : P[n]? = some fl) (hctl : fl.ctl = classify cfg) (hemit : fl.emit.getD hd.pos [] = [])
    (hrun : slideStep fuel f h s = .ok b s') :
    b = (false, []) ∧ ∃ T', Step P (absTokens idx s) T' ∧ (absTokens idx s').Perm T' := by
  have hc := cfgOf_of_cfgOfInst hcfg
  have hh : headOf s (f, h) = some hd := by unfold headOf; rw [hi]; exact hhd
  obtain ⟨hb, p, hedge, hm⟩ := slideStep_simple fuel f h cfg hd s s' b hc hh hlt hact hk hrun
  refine ⟨hb, ?_⟩
  have huid : i.uid = f := findInst_uid hi
  have hu := (indexOK_of_vm s).uids
  -- the instance list and the head list around the one head
  obtain ⟨I1, I2, hI, hI'⟩ := map_update_split Inst.uid f s.ixs.ix.insts i hu.1 hi
  have himem : i ∈ s.ixs.ix.insts := by rw [hI]; simp
  obtain ⟨H1, H2, hH, hH'⟩ := map_update_split Head.uid h i.heads hd (hu.2 i himem) hhd
  let bb : Bool := decide (i.status = .started)
  let tk := instTokens idx (fxIds s.r.fx)
  let ht := headToken n bb
  have hidx' : (OMap.lookup i.uid (fxIds s.r.fx)).bind idx = some n := by rw [huid]; exact hidx
  -- the outcome of the machine
  have hout : [Token.head n p bb] ∈ tokOutcomes P (Token.head n hd.pos bb) := by
    have he : fl.ctl[hd.pos]? = some (classifyPrim cfg cfg.elements[hd.pos]!) := by rw [hctl]; exact classify_get cfg hd.pos hlt
    have := headOutcomes_plain P fl n hd.pos p bb _ hP he (classifyPrim_simple cfg _ hk) (by rw [hctl]; exact hedge)
    rw [hemit] at this
    exact this
  let T1 := s.r.queue.map (fun e => Token.ev (evKindOf idx e)) ++ I1.flatMap tk ++ H1.filterMap ht
  let T2 := H2.filterMap ht ++ I2.flatMap tk
  have hT : absTokens idx s = T1 ++ Token.head n hd.pos bb :: T2 := by
    unfold absTokens
    rw [hI]
    simp only [List.flatMap_append, List.flatMap_cons]
    rw [instTokens_split idx (fxIds s.r.fx) i n H1 H2 hd hlisten hidx' hH hact]
    simp only [T1, T2, tk, ht, bb, List.append_assoc, List.cons_append]
  refine ⟨T1 ++ [Token.head n p bb] ++ T2, ⟨T1, _, T2, _, hT, hout, rfl⟩, ?_⟩
  have hT' : absTokens idx s' = T1 ++ [Token.head n p bb] ++ T2 := by
    cases hm.insts with
    | inl hsame =>
      unfold absTokens at hT ⊢
      rw [hm.queue, hm.ids, hsame.1, hT, ← hsame.2]
      simp only [List.append_assoc, List.cons_append, List.nil_append]
    | inr hmov =>
      obtain ⟨nm, hins⟩ := hmov
      have hins' : s'.ixs.ix.insts = I1 ++ i.modifyHead h (fun x => { x with pos := p, elem := nm }) :: I2 := by
        rw [hins]; exact hI' _
      have hheads : (i.modifyHead h (fun x => { x with pos := p, elem := nm })).heads =
          H1 ++ { hd with pos := p, elem := nm } :: H2 := hH' _
      unfold absTokens
      rw [hm.queue, hm.ids, hins']
      simp only [List.flatMap_append, List.flatMap_cons]
      rw [instTokens_split idx (fxIds s.r.fx) (i.modifyHead h _) n H1 H2 { hd with pos := p, elem := nm } hlisten hidx' hheads hact]
      simp only [T1, T2, tk, ht, bb, Inst.modifyHead, List.append_assoc, List.cons_append, List.nil_append]
  rw [hT']


end NemoVerif.CoreVM
