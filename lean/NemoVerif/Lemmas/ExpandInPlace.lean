/-
  Lemmas for C12 (phase 4): the in-place labelling model `expandA` against the pure model `expand`.
-/
import NemoVerif.Models.ExpandInPlace
import NemoVerif.Lemmas.Expand
namespace NemoVerif.Expand
open NemoVerif.Closed

theorem unlabelled_nil : Unlabelled [] := by intro o ho; simp at ho

theorem unlabelled_tail (sl : Slots) (h : Unlabelled sl) : Unlabelled sl.tail := by
  intro o ho; exact h o (List.mem_of_mem_tail ho)

theorem unlabelled_append (a b : Slots) (ha : Unlabelled a) (hb : Unlabelled b) : Unlabelled (a ++ b) := by
  intro o ho
  rcases List.mem_append.1 ho with ho | ho
  · exact ha o ho
  · exact hb o ho

theorem headSlot_unlabelled (sl : Slots) (h : Unlabelled sl) : headSlot sl = none := by
  cases sl with
  | nil => rfl
  | cons o r => exact h o List.mem_cons_self

theorem unlabelled_replicate (n : Nat) : Unlabelled (List.replicate n none) := by
  intro o ho; exact (List.mem_replicate.1 ho).2

/-! On a freshly parsed AST (no label set) the in-place procedure emits exactly what the pure model emits — in both
    modes —, the slots it has not reached are still unset, and in repaired mode so are the slots it went through. -/
mutual
  theorem expandA_unl : ∀ (ip : Bool) (cb : Option (Lbl × Lbl)) (ss : List Stmt) (sl : Slots) (c : Nat), Unlabelled sl →
      (expandA ip cb ss sl c).1 = expand cb ss c ∧ Unlabelled (expandA ip cb ss sl c).2.2 ∧
      (ip = false → Unlabelled (expandA ip cb ss sl c).2.1)
    | ip, cb, [], sl, c, h => by
      unfold expandA expand
      exact ⟨rfl, h, fun _ => unlabelled_nil⟩
    | ip, cb, s :: r, sl, c, h => by
      obtain ⟨a1, a2, a3⟩ := expandStmtA_unl ip cb s sl c h
      obtain ⟨b1, b2, b3⟩ := expandA_unl ip cb r _ (expandStmtA ip cb s sl c).1.2 a2
      unfold expandA expand
      simp only
      refine ⟨?_, b2, fun hip => unlabelled_append _ _ (a3 hip) (b3 hip)⟩
      rw [b1, a1]
  theorem expandStmtA_unl : ∀ (ip : Bool) (cb : Option (Lbl × Lbl)) (s : Stmt) (sl : Slots) (c : Nat), Unlabelled sl →
      (expandStmtA ip cb s sl c).1 = expandStmt cb s c ∧ Unlabelled (expandStmtA ip cb s sl c).2.2 ∧
      (ip = false → Unlabelled (expandStmtA ip cb s sl c).2.1)
    | ip, cb, .brk, sl, c, h => by
      unfold expandStmtA expandStmt
      simp only [headSlot_unlabelled sl h, slotOut]
      refine ⟨by first | trivial | rfl, unlabelled_tail sl h, fun hip => ?_⟩
      subst hip; intro o ho; simpa using ho
    | ip, cb, .cont, sl, c, h => by
      unfold expandStmtA expandStmt
      simp only [headSlot_unlabelled sl h, slotOut]
      refine ⟨by first | trivial | rfl, unlabelled_tail sl h, fun hip => ?_⟩
      subst hip; intro o ho; simpa using ho
    | ip, cb, .whileS b, sl, c, h => by
      obtain ⟨a1, a2, a3⟩ := expandA_unl ip (some (("_while_begin_", c), ("_while_end_", c))) b sl (c + 1) h
      unfold expandStmtA expandStmt
      simp only
      refine ⟨?_, a2, a3⟩
      rw [a1]
    | ip, cb, .ifS t f, sl, c, h => by
      obtain ⟨a1, a2, a3⟩ := expandA_unl ip cb t sl (c + 2) h
      obtain ⟨b1, b2, b3⟩ := expandA_unl ip cb f _ (expandA ip cb t sl (c + 2)).1.2 a2
      unfold expandStmtA expandStmt
      by_cases hf : f.isEmpty = true
      · simp only [hf, if_true]
        refine ⟨?_, a2, a3⟩
        rw [a1]
      · have hf' : f.isEmpty = false := by simpa using hf
        simp only [hf', Bool.false_eq_true, if_false]
        refine ⟨?_, b2, fun hip => unlabelled_append _ _ (a3 hip) (b3 hip)⟩
        rw [b1, a1]
    | ip, cb, .send, sl, c, h => by unfold expandStmtA; exact ⟨rfl, h, fun _ => unlabelled_nil⟩
    | ip, cb, .matchEv, sl, c, h => by unfold expandStmtA; exact ⟨rfl, h, fun _ => unlabelled_nil⟩
    | ip, cb, .assign, sl, c, h => by unfold expandStmtA; exact ⟨rfl, h, fun _ => unlabelled_nil⟩
    | ip, cb, .other k, sl, c, h => by unfold expandStmtA; exact ⟨rfl, h, fun _ => unlabelled_nil⟩
    | ip, cb, .ret, sl, c, h => by unfold expandStmtA; exact ⟨rfl, h, fun _ => unlabelled_nil⟩
    | ip, cb, .abort, sl, c, h => by unfold expandStmtA; exact ⟨rfl, h, fun _ => unlabelled_nil⟩
    | ip, cb, .matchG d, sl, c, h => by unfold expandStmtA; exact ⟨rfl, h, fun _ => unlabelled_nil⟩
    | ip, cb, .sendG d, sl, c, h => by unfold expandStmtA; exact ⟨rfl, h, fun _ => unlabelled_nil⟩
    | ip, cb, .startS d, sl, c, h => by unfold expandStmtA; exact ⟨rfl, h, fun _ => unlabelled_nil⟩
    | ip, cb, .awaitOne k rv, sl, c, h => by unfold expandStmtA; exact ⟨rfl, h, fun _ => unlabelled_nil⟩
    | ip, cb, .awaitG d, sl, c, h => by unfold expandStmtA; exact ⟨rfl, h, fun _ => unlabelled_nil⟩
    | ip, cb, .activateS n, sl, c, h => by unfold expandStmtA; exact ⟨rfl, h, fun _ => unlabelled_nil⟩
    | ip, cb, .deactivateS n, sl, c, h => by unfold expandStmtA; exact ⟨rfl, h, fun _ => unlabelled_nil⟩
    | ip, cb, .nld, sl, c, h => by unfold expandStmtA; exact ⟨rfl, h, fun _ => unlabelled_nil⟩
    | ip, cb, .whenS specs thens els hasElse, sl, c, h => by unfold expandStmtA; exact ⟨rfl, h, fun _ => unlabelled_nil⟩
end

/-- repaired mode: every further compilation of the same parsed flow starts again from an unlabelled AST, so each one is
    the pure expansion at the current counter value — and therefore closed -/
theorem recompile_repaired_closed (ss : List Stmt) (hwf : wfList ss = true) : ∀ (k : Nat) (sl : Slots) (c : Nat),
    Unlabelled sl → Closed (recompile false ss k sl c).1 := by
  intro k
  induction k with
  | zero =>
    intro sl c h
    obtain ⟨a1, _, _⟩ := expandA_unl false none ss sl c h
    unfold recompile
    simp only
    rw [a1]
    exact closed_of_inv _ c (expand_inv none ss c hwf)
  | succ k ih =>
    intro sl c h
    obtain ⟨_, a2, a3⟩ := expandA_unl false none ss sl c h
    unfold recompile
    simp only
    exact ih _ _ (unlabelled_append _ _ (a3 rfl) a2)

/-- both modes: the FIRST compilation of a freshly parsed flow is the pure expansion -/
theorem recompile_first (ip : Bool) (ss : List Stmt) (sl : Slots) (c : Nat) (h : Unlabelled sl) :
    (recompile ip ss 0 sl c).1 = (expand none ss c).1 := by
  obtain ⟨a1, _, _⟩ := expandA_unl ip none ss sl c h
  unfold recompile
  simp only
  rw [a1]

/-! as is: programs without a loop exit under a `while` are not touched by the in-place labelling -/
mutual
  theorem expandA_exitFree : ∀ (cb : Option (Lbl × Lbl)) (ss : List Stmt) (sl : Slots) (c : Nat), Unlabelled sl →
      exitFree cb.isSome ss = true →
      (expandA true cb ss sl c).1 = expand cb ss c ∧ Unlabelled (expandA true cb ss sl c).2.2 ∧
      Unlabelled (expandA true cb ss sl c).2.1
    | cb, [], sl, c, h, _ => by
      unfold expandA expand
      exact ⟨rfl, h, unlabelled_nil⟩
    | cb, s :: r, sl, c, h, he => by
      unfold exitFree at he
      simp only [Bool.and_eq_true] at he
      obtain ⟨a1, a2, a3⟩ := expandStmtA_exitFree cb s sl c h he.1
      obtain ⟨b1, b2, b3⟩ := expandA_exitFree cb r _ (expandStmtA true cb s sl c).1.2 a2 he.2
      unfold expandA expand
      simp only
      refine ⟨?_, b2, unlabelled_append _ _ a3 b3⟩
      rw [b1, a1]
  theorem expandStmtA_exitFree : ∀ (cb : Option (Lbl × Lbl)) (s : Stmt) (sl : Slots) (c : Nat), Unlabelled sl →
      exitFreeStmt cb.isSome s = true →
      (expandStmtA true cb s sl c).1 = expandStmt cb s c ∧ Unlabelled (expandStmtA true cb s sl c).2.2 ∧
      Unlabelled (expandStmtA true cb s sl c).2.1
    | cb, .brk, sl, c, h, he => by
      unfold exitFreeStmt at he
      cases cb with
      | some x => simp at he
      | none =>
        unfold expandStmtA expandStmt
        simp only [headSlot_unlabelled sl h, slotOut, Option.map_none]
        refine ⟨by first | trivial | rfl, unlabelled_tail sl h, ?_⟩
        intro o ho; simpa using ho
    | cb, .cont, sl, c, h, he => by
      unfold exitFreeStmt at he
      cases cb with
      | some x => simp at he
      | none =>
        unfold expandStmtA expandStmt
        simp only [headSlot_unlabelled sl h, slotOut, Option.map_none]
        refine ⟨by first | trivial | rfl, unlabelled_tail sl h, ?_⟩
        intro o ho; simpa using ho
    | cb, .whileS b, sl, c, h, he => by
      unfold exitFreeStmt at he
      obtain ⟨a1, a2, a3⟩ := expandA_exitFree (some (("_while_begin_", c), ("_while_end_", c))) b sl (c + 1) h he
      unfold expandStmtA expandStmt
      simp only
      refine ⟨?_, a2, a3⟩
      rw [a1]
    | cb, .ifS t f, sl, c, h, he => by
      unfold exitFreeStmt at he
      simp only [Bool.and_eq_true] at he
      obtain ⟨a1, a2, a3⟩ := expandA_exitFree cb t sl (c + 2) h he.1
      obtain ⟨b1, b2, b3⟩ := expandA_exitFree cb f _ (expandA true cb t sl (c + 2)).1.2 a2 he.2
      unfold expandStmtA expandStmt
      by_cases hf : f.isEmpty = true
      · simp only [hf, if_true]
        refine ⟨?_, a2, a3⟩
        rw [a1]
      · have hf' : f.isEmpty = false := by simpa using hf
        simp only [hf', Bool.false_eq_true, if_false]
        refine ⟨?_, b2, unlabelled_append _ _ a3 b3⟩
        rw [b1, a1]
    | cb, .send, sl, c, h, _ => by unfold expandStmtA; exact ⟨rfl, h, unlabelled_nil⟩
    | cb, .matchEv, sl, c, h, _ => by unfold expandStmtA; exact ⟨rfl, h, unlabelled_nil⟩
    | cb, .assign, sl, c, h, _ => by unfold expandStmtA; exact ⟨rfl, h, unlabelled_nil⟩
    | cb, .other k, sl, c, h, _ => by unfold expandStmtA; exact ⟨rfl, h, unlabelled_nil⟩
    | cb, .ret, sl, c, h, _ => by unfold expandStmtA; exact ⟨rfl, h, unlabelled_nil⟩
    | cb, .abort, sl, c, h, _ => by unfold expandStmtA; exact ⟨rfl, h, unlabelled_nil⟩
    | cb, .matchG d, sl, c, h, _ => by unfold expandStmtA; exact ⟨rfl, h, unlabelled_nil⟩
    | cb, .sendG d, sl, c, h, _ => by unfold expandStmtA; exact ⟨rfl, h, unlabelled_nil⟩
    | cb, .startS d, sl, c, h, _ => by unfold expandStmtA; exact ⟨rfl, h, unlabelled_nil⟩
    | cb, .awaitOne k rv, sl, c, h, _ => by unfold expandStmtA; exact ⟨rfl, h, unlabelled_nil⟩
    | cb, .awaitG d, sl, c, h, _ => by unfold expandStmtA; exact ⟨rfl, h, unlabelled_nil⟩
    | cb, .activateS n, sl, c, h, _ => by unfold expandStmtA; exact ⟨rfl, h, unlabelled_nil⟩
    | cb, .deactivateS n, sl, c, h, _ => by unfold expandStmtA; exact ⟨rfl, h, unlabelled_nil⟩
    | cb, .nld, sl, c, h, _ => by unfold expandStmtA; exact ⟨rfl, h, unlabelled_nil⟩
    | cb, .whenS specs thens els hasElse, sl, c, h, _ => by unfold expandStmtA; exact ⟨rfl, h, unlabelled_nil⟩
end

theorem recompile_as_is_exitFree_closed (ss : List Stmt) (hwf : wfList ss = true) (he : exitFree false ss = true) :
    ∀ (k : Nat) (sl : Slots) (c : Nat), Unlabelled sl → Closed (recompile true ss k sl c).1 := by
  intro k
  induction k with
  | zero =>
    intro sl c h
    obtain ⟨a1, _, _⟩ := expandA_exitFree none ss sl c h he
    unfold recompile
    simp only
    rw [a1]
    exact closed_of_inv _ c (expand_inv none ss c hwf)
  | succ k ih =>
    intro sl c h
    obtain ⟨_, a2, a3⟩ := expandA_exitFree none ss sl c h he
    unfold recompile
    simp only
    exact ih _ _ (unlabelled_append _ _ a3 a2)

/-! what a compilation does to the label slots of the parsed AST -/

theorem take_drop_one (sl : Slots) (h : 1 ≤ sl.length) : [headSlot sl] = sl.take 1 ∧ sl.tail = sl.drop 1 := by
  cases sl with
  | nil => simp at h
  | cons o r => simp [headSlot]

mutual
  theorem expandA_repaired_slots : ∀ (cb : Option (Lbl × Lbl)) (ss : List Stmt) (sl : Slots) (c : Nat), nslots ss ≤ sl.length →
      (expandA false cb ss sl c).2.1 = sl.take (nslots ss) ∧ (expandA false cb ss sl c).2.2 = sl.drop (nslots ss)
    | cb, [], sl, c, _ => by
      unfold expandA nslots; simp
    | cb, s :: r, sl, c, h => by
      unfold nslots at h
      obtain ⟨a1, a2⟩ := expandStmtA_repaired_slots cb s sl c (by omega)
      obtain ⟨b1, b2⟩ := expandA_repaired_slots cb r (expandStmtA false cb s sl c).2.2 (expandStmtA false cb s sl c).1.2
        (by rw [a2]; simp; omega)
      unfold expandA nslots
      simp only
      rw [b1, b2, a1, a2]
      refine ⟨?_, by rw [List.drop_drop]⟩
      rw [List.take_add]
  theorem expandStmtA_repaired_slots : ∀ (cb : Option (Lbl × Lbl)) (s : Stmt) (sl : Slots) (c : Nat), nslotsStmt s ≤ sl.length →
      (expandStmtA false cb s sl c).2.1 = sl.take (nslotsStmt s) ∧ (expandStmtA false cb s sl c).2.2 = sl.drop (nslotsStmt s)
    | cb, .brk, sl, c, h => by
      unfold nslotsStmt at h
      unfold expandStmtA nslotsStmt
      simpa using take_drop_one sl h
    | cb, .cont, sl, c, h => by
      unfold nslotsStmt at h
      unfold expandStmtA nslotsStmt
      simpa using take_drop_one sl h
    | cb, .whileS b, sl, c, h => by
      unfold nslotsStmt at h
      obtain ⟨a1, a2⟩ := expandA_repaired_slots (some (("_while_begin_", c), ("_while_end_", c))) b sl (c + 1) h
      unfold expandStmtA nslotsStmt
      exact ⟨a1, a2⟩
    | cb, .ifS t f, sl, c, h => by
      unfold nslotsStmt at h
      obtain ⟨a1, a2⟩ := expandA_repaired_slots cb t sl (c + 2) (by omega)
      obtain ⟨b1, b2⟩ := expandA_repaired_slots cb f (expandA false cb t sl (c + 2)).2.2 (expandA false cb t sl (c + 2)).1.2
        (by rw [a2]; simp; omega)
      unfold expandStmtA nslotsStmt
      by_cases hf : f.isEmpty = true
      · have hf0 : nslots f = 0 := by
          cases f with
          | nil => unfold nslots; rfl
          | cons x y => simp at hf
        simp only [hf, if_true, hf0, Nat.add_zero]
        exact ⟨a1, a2⟩
      · have hf' : f.isEmpty = false := by simpa using hf
        simp only [hf', Bool.false_eq_true, if_false]
        rw [b1, b2, a1, a2]
        refine ⟨?_, by rw [List.drop_drop]⟩
        rw [List.take_add]
    | cb, .send, sl, c, _ => by unfold expandStmtA nslotsStmt; simp
    | cb, .matchEv, sl, c, _ => by unfold expandStmtA nslotsStmt; simp
    | cb, .assign, sl, c, _ => by unfold expandStmtA nslotsStmt; simp
    | cb, .other k, sl, c, _ => by unfold expandStmtA nslotsStmt; simp
    | cb, .ret, sl, c, _ => by unfold expandStmtA nslotsStmt; simp
    | cb, .abort, sl, c, _ => by unfold expandStmtA nslotsStmt; simp
    | cb, .matchG d, sl, c, _ => by unfold expandStmtA nslotsStmt; simp
    | cb, .sendG d, sl, c, _ => by unfold expandStmtA nslotsStmt; simp
    | cb, .startS d, sl, c, _ => by unfold expandStmtA nslotsStmt; simp
    | cb, .awaitOne k rv, sl, c, _ => by unfold expandStmtA nslotsStmt; simp
    | cb, .awaitG d, sl, c, _ => by unfold expandStmtA nslotsStmt; simp
    | cb, .activateS n, sl, c, _ => by unfold expandStmtA nslotsStmt; simp
    | cb, .deactivateS n, sl, c, _ => by unfold expandStmtA nslotsStmt; simp
    | cb, .nld, sl, c, _ => by unfold expandStmtA nslotsStmt; simp
    | cb, .whenS specs thens els hasElse, sl, c, _ => by unfold expandStmtA nslotsStmt; simp
end

/-- the repaired compiler leaves the parsed AST exactly as it found it -/
theorem expandA_repaired_ast_unchanged (cb : Option (Lbl × Lbl)) (ss : List Stmt) (sl : Slots) (c : Nat)
    (h : nslots ss ≤ sl.length) : (expandA false cb ss sl c).2.1 ++ (expandA false cb ss sl c).2.2 = sl := by
  obtain ⟨a1, a2⟩ := expandA_repaired_slots cb ss sl c h
  rw [a1, a2, List.take_append_drop]

theorem keeps_refl (a : Slots) : Keeps a a := ⟨rfl, fun _ _ h => h⟩

theorem keeps_append (a a' b b' : Slots) (h1 : Keeps a a') (h2 : Keeps b b') : Keeps (a ++ b) (a' ++ b') := by
  refine ⟨by simp [h1.1, h2.1], ?_⟩
  intro i l h
  by_cases hi : i < a.length
  · rw [List.getElem?_append_left hi] at h
    rw [List.getElem?_append_left (by rw [← h1.1]; exact hi)]
    exact h1.2 i l h
  · have hi' : a.length ≤ i := by omega
    rw [List.getElem?_append_right hi'] at h
    rw [List.getElem?_append_right (by rw [← h1.1]; exact hi'), ← h1.1]
    exact h2.2 _ l h

theorem keeps_one (sl : Slots) (cbl : Option Lbl) (h : 1 ≤ sl.length) :
    Keeps (sl.take 1) [slotOut cbl (headSlot sl)] ∧ sl.tail = sl.drop 1 := by
  cases sl with
  | nil => simp at h
  | cons o r =>
    refine ⟨⟨by simp, ?_⟩, by simp⟩
    intro i l hi
    cases i with
    | zero => simp at hi; subst hi; simp [headSlot, slotOut]
    | succ i => simp at hi

mutual
  theorem expandA_as_is_keeps : ∀ (cb : Option (Lbl × Lbl)) (ss : List Stmt) (sl : Slots) (c : Nat), nslots ss ≤ sl.length →
      Keeps (sl.take (nslots ss)) (expandA true cb ss sl c).2.1 ∧ (expandA true cb ss sl c).2.2 = sl.drop (nslots ss)
    | cb, [], sl, c, _ => by
      unfold expandA nslots; simp [keeps_refl]
    | cb, s :: r, sl, c, h => by
      unfold nslots at h
      obtain ⟨a1, a2⟩ := expandStmtA_as_is_keeps cb s sl c (by omega)
      obtain ⟨b1, b2⟩ := expandA_as_is_keeps cb r (expandStmtA true cb s sl c).2.2 (expandStmtA true cb s sl c).1.2
        (by rw [a2]; simp; omega)
      unfold expandA nslots
      simp only
      refine ⟨?_, by rw [b2, a2, List.drop_drop]⟩
      rw [List.take_add]
      refine keeps_append _ _ _ _ a1 ?_
      rw [← a2]; exact b1
  theorem expandStmtA_as_is_keeps : ∀ (cb : Option (Lbl × Lbl)) (s : Stmt) (sl : Slots) (c : Nat), nslotsStmt s ≤ sl.length →
      Keeps (sl.take (nslotsStmt s)) (expandStmtA true cb s sl c).2.1 ∧ (expandStmtA true cb s sl c).2.2 = sl.drop (nslotsStmt s)
    | cb, .brk, sl, c, h => by
      unfold nslotsStmt at h
      unfold expandStmtA nslotsStmt
      simpa using keeps_one sl (cb.map (·.2)) h
    | cb, .cont, sl, c, h => by
      unfold nslotsStmt at h
      unfold expandStmtA nslotsStmt
      simpa using keeps_one sl (cb.map (·.1)) h
    | cb, .whileS b, sl, c, h => by
      unfold nslotsStmt at h
      obtain ⟨a1, a2⟩ := expandA_as_is_keeps (some (("_while_begin_", c), ("_while_end_", c))) b sl (c + 1) h
      unfold expandStmtA nslotsStmt
      exact ⟨a1, a2⟩
    | cb, .ifS t f, sl, c, h => by
      unfold nslotsStmt at h
      obtain ⟨a1, a2⟩ := expandA_as_is_keeps cb t sl (c + 2) (by omega)
      obtain ⟨b1, b2⟩ := expandA_as_is_keeps cb f (expandA true cb t sl (c + 2)).2.2 (expandA true cb t sl (c + 2)).1.2
        (by rw [a2]; simp; omega)
      unfold expandStmtA nslotsStmt
      by_cases hf : f.isEmpty = true
      · have hf0 : nslots f = 0 := by
          cases f with
          | nil => unfold nslots; rfl
          | cons x y => simp at hf
        simp only [hf, if_true, hf0, Nat.add_zero]
        exact ⟨a1, a2⟩
      · have hf' : f.isEmpty = false := by simpa using hf
        simp only [hf', Bool.false_eq_true, if_false]
        refine ⟨?_, by rw [b2, a2, List.drop_drop]⟩
        rw [List.take_add]
        refine keeps_append _ _ _ _ a1 ?_
        rw [← a2]; exact b1
    | cb, .send, sl, c, _ => by unfold expandStmtA nslotsStmt; simp [keeps_refl]
    | cb, .matchEv, sl, c, _ => by unfold expandStmtA nslotsStmt; simp [keeps_refl]
    | cb, .assign, sl, c, _ => by unfold expandStmtA nslotsStmt; simp [keeps_refl]
    | cb, .other k, sl, c, _ => by unfold expandStmtA nslotsStmt; simp [keeps_refl]
    | cb, .ret, sl, c, _ => by unfold expandStmtA nslotsStmt; simp [keeps_refl]
    | cb, .abort, sl, c, _ => by unfold expandStmtA nslotsStmt; simp [keeps_refl]
    | cb, .matchG d, sl, c, _ => by unfold expandStmtA nslotsStmt; simp [keeps_refl]
    | cb, .sendG d, sl, c, _ => by unfold expandStmtA nslotsStmt; simp [keeps_refl]
    | cb, .startS d, sl, c, _ => by unfold expandStmtA nslotsStmt; simp [keeps_refl]
    | cb, .awaitOne k rv, sl, c, _ => by unfold expandStmtA nslotsStmt; simp [keeps_refl]
    | cb, .awaitG d, sl, c, _ => by unfold expandStmtA nslotsStmt; simp [keeps_refl]
    | cb, .activateS n, sl, c, _ => by unfold expandStmtA nslotsStmt; simp [keeps_refl]
    | cb, .deactivateS n, sl, c, _ => by unfold expandStmtA nslotsStmt; simp [keeps_refl]
    | cb, .nld, sl, c, _ => by unfold expandStmtA nslotsStmt; simp [keeps_refl]
    | cb, .whenS specs thens els hasElse, sl, c, _ => by unfold expandStmtA nslotsStmt; simp [keeps_refl]
end

/-- as is: a compilation never changes a label that is already set (it only fills slots that are None) -/
theorem expandA_as_is_labels_kept (cb : Option (Lbl × Lbl)) (ss : List Stmt) (sl : Slots) (c : Nat)
    (h : nslots ss ≤ sl.length) : Keeps sl ((expandA true cb ss sl c).2.1 ++ (expandA true cb ss sl c).2.2) := by
  obtain ⟨a1, a2⟩ := expandA_as_is_keeps cb ss sl c h
  have := keeps_append _ _ _ _ a1 (keeps_refl (sl.drop (nslots ss)))
  rw [List.take_append_drop] at this
  rw [a2]; exact this

end NemoVerif.Expand
