/-
  C16 wave 6 — nothing is checked again after a rail has blocked.

  `tailOK s tr`: behind every call of a rail that rejects the text it is shown, the trace consists of the utterance of the refusal
  and nothing else — in particular no output rail is called on the refusal, whatever the refusal says (`s.refusal`, the result of
  rendering the configured message `s.refusalTpl`, is an arbitrary string of the set-up).  Proved for the specification trace
  `specTrace` by induction over the rail lists; `Theorems/C16.lean` transports it to the interpreter's trace.
-/
import NemoVerif.Lemmas.RailsRefine
namespace NemoVerif.RailsInterp
open NemoVerif.V1Interp

/-- does the `k`-th rail of the list reject the text `t`? (a rewriting rail never does) -/
def rejectsAt (rs : List IRail) (k : Nat) (t : String) : Bool :=
  match rs[k]? with
  | some r => (match r.kind with | .check a => !a t | .rewrite _ => false)
  | none => false

/-- does the rail `k` of category `cat` reject the text `t`? -/
def Setup.rejects (s : Setup) (cat : String) (k : Nat) (t : String) : Bool :=
  if cat == "input" then rejectsAt s.input k t else if cat == "output" then rejectsAt s.output k t else false

/-- behind the call of a rejecting rail there is the utterance of the refusal and nothing else -/
def tailOK (s : Setup) : List Obs → Prop
  | [] => True
  | .railCall c k _ t :: rest => (s.rejects c k t = true → rest = [Obs.utter s.refusal]) ∧ tailOK s rest
  | _ :: rest => tailOK s rest

theorem tailOK_utter (s : Setup) (t : String) : tailOK s [Obs.utter t] := trivial

/-- the split form: whatever precedes the call -/
theorem tailOK_split (s : Setup) : ∀ (pre : List Obs) (c : String) (k : Nat) (n t : String) (post : List Obs),
    tailOK s (pre ++ Obs.railCall c k n t :: post) → s.rejects c k t = true → post = [Obs.utter s.refusal]
  | [], c, k, n, t, post, h, hr => h.1 hr
  | x :: pre, c, k, n, t, post, h, hr => by
    cases x with
    | railCall c' k' n' t' => exact tailOK_split s pre c k n t post h.2 hr
    | llmCall => exact tailOK_split s pre c k n t post h hr
    | utter u => exact tailOK_split s pre c k n t post h hr

/-- **one category**: the calls `loopSpec` lists are calls of rails that let the text pass — except the last one when the
    category blocks; behind that one only the refusal follows, behind the others whatever continuation `cont` is allowed -/
theorem loop_tailOK (s : Setup) (cat : String) (full : List IRail) (hrej : ∀ k t, s.rejects cat k t = rejectsAt full k t)
    (cont : List Obs) (hc : tailOK s cont) :
    ∀ (rs : List IRail) (k0 : Nat) (t : String), rs = full.drop k0 →
      tailOK s ((loopSpec cat k0 rs t).1 ++ (match (loopSpec cat k0 rs t).2 with | some _ => cont | none => [Obs.utter s.refusal]))
  | [], k0, t, _ => by simpa [loopSpec] using hc
  | r :: rs, k0, t, hd => by
    have hk : full[k0]? = some r := by
      have := congrArg (fun l => l[0]?) hd
      simpa [List.getElem?_drop] using this.symm
    have htl : rs = full.drop (k0 + 1) := by
      have := congrArg List.tail hd
      simpa [List.tail_drop] using this
    have ih := loop_tailOK s cat full hrej cont hc rs (k0 + 1)
    cases hkind : r.kind with
    | check a =>
      by_cases ha : a t = true
      · have hnr : s.rejects cat k0 t = false := by simp [hrej, rejectsAt, hk, hkind, ha]
        have := ih t htl
        simp only [loopSpec, hkind, ha, if_true, List.cons_append]
        exact ⟨fun h => (by rw [hnr] at h; cases h), this⟩
      · simp only [loopSpec, hkind, ha, Bool.false_eq_true, if_false, List.cons_append, List.nil_append]
        exact ⟨fun _ => rfl, trivial⟩
    | rewrite f =>
      have hnr : s.rejects cat k0 t = false := by simp [hrej, rejectsAt, hk, hkind]
      have := ih (f t) htl
      simp only [loopSpec, hkind, List.cons_append]
      exact ⟨fun h => (by rw [hnr] at h; cases h), this⟩

theorem rejects_input (s : Setup) (k : Nat) (t : String) : s.rejects "input" k t = rejectsAt s.input k t := by
  simp [Setup.rejects]

theorem rejects_output (s : Setup) (k : Nat) (t : String) : s.rejects "output" k t = rejectsAt s.output k t := by
  simp [Setup.rejects]

theorem pbmSpec_tailOK (s : Setup) (o : OptsT) (bm : String) : tailOK s (pbmSpec s o bm) := by
  unfold pbmSpec
  split
  · have h := loop_tailOK s "output" s.output (rejects_output s) [] trivial s.output 0 bm (by simp)
    cases hres : (loopSpec "output" 0 s.output bm).2 with
    | none => simpa [hres] using h
    | some t' =>
      have h2 := loop_tailOK s "output" s.output (rejects_output s) [Obs.utter t'] trivial s.output 0 bm (by simp)
      simpa [hres] using h2
  · trivial

theorem afterSpec_tailOK (s : Setup) (o : OptsT) (um : String) (bot : Option String) : tailOK s (afterSpec s o um bot) := by
  unfold afterSpec
  split
  · split
    · trivial
    · exact pbmSpec_tailOK s o _
  · exact pbmSpec_tailOK s o _

/-- **the whole turn** -/
theorem specTrace_tailOK (s : Setup) (o : OptsT) (user : String) (bot : Option String) : tailOK s (specTrace s o user bot) := by
  unfold specTrace
  split
  · cases hres : (loopSpec "input" 0 s.input user).2 with
    | none =>
      have h := loop_tailOK s "input" s.input (rejects_input s) [] trivial s.input 0 user (by simp)
      simpa [hres] using h
    | some um =>
      have h := loop_tailOK s "input" s.input (rejects_input s) (afterSpec s o um bot) (afterSpec_tailOK s o um bot) s.input 0 user (by simp)
      simpa [hres] using h
  · exact afterSpec_tailOK s o user bot

end NemoVerif.RailsInterp
