/-
  Generic preservation skeleton for C06 (phase 4).

  `_abort_flow` / `_finish_flow` are split into their recursive part (deactivation loop, child loop) and a
  STRAIGHT-LINE tail (`abortTail` / `finishTail`: stop the actions, clear heads, unlink from the parent, mark the
  instance, push the end event, restart).  A state predicate that is preserved by the handful of primitive
  updates of the recursive part and by the two tails (`Closed P`) is preserved by every `.ok` run of `abortFlow`,
  `finishFlow`, `endScope` — for every fuel and every (even cyclic) hierarchy: ONE induction on the fuel
  (`abortFlow_closed`), reused by the invariants `Linked` (Lemmas/LifetimeLinked.lean) and `CountInv`
  (Lemmas/LifetimeCount.lean).
-/
import NemoVerif.Lemmas.LifetimeT2
namespace NemoVerif.Lifetime

/-- the part of `_abort_flow` after the "abort all running child flows" loop (no recursive call) -/
def abortTail (s1 : State) (u : Nat) (d : Bool) : Except Err State :=
  match s1.flows u with
  | none => .error .key
  | some f1 =>
    match stopActions s1 f1.actionUids with
    | .error e => .error e
    | .ok s2 =>
      let s3 := modFlow s2 u fun f => { f with heads := 0 }
      match removeFromParent s3 u with
      | .error e => .error e
      | .ok s4 =>
        let s5 := modFlow s4 u fun f => { f with status := .stopped }
        let s6 := push s5 (.flowFailed u)
        restart s6 u d

/-- the part of `_finish_flow` after the child loop (no recursive call) -/
def finishTail (s1 : State) (u : Nat) (d : Bool) : Except Err State :=
  match s1.flows u with
  | none => .error .key
  | some f1 =>
    match stopActions s1 f1.actionUids with
    | .error e => .error e
    | .ok s2 =>
      let s3 := modFlow s2 u fun f => { f with heads := 0 }
      if f1.isMain then
        .ok (modFlow s3 u fun f => { f with heads := 1, status := .waiting })
      else
        let s4 := modFlow s3 u fun f => { f with status := .finished }
        match removeFromParent s4 u with
        | .error e => .error e
        | .ok s5 =>
          let s6 := push s5 (.flowFinished u)
          restart s6 u d

theorem abortBody_eq (rec : State → Nat → Except Err State) (s : State) (u : Nat) (d : Bool) :
    abortBody rec s u d =
      match s.flows u with
      | none => .error .key
      | some f =>
        if !f.status.listening && f.status != .stopping then .ok s
        else
          match childLoop rec (markNoRestart s u) f.children with
          | .error e => .error e
          | .ok s1 => abortTail s1 u d := by
  unfold abortBody abortTail
  rfl

theorem finishBody_eq (rec : State → Nat → Except Err State) (s : State) (u : Nat) (d : Bool) :
    finishBody rec s u d =
      match s.flows u with
      | none => .error .key
      | some f =>
        if !f.status.listening then .ok s
        else
          match childLoop rec s f.children with
          | .error e => .error e
          | .ok s1 => finishTail s1 u d := by
  unfold finishBody finishTail
  rfl

/-- what a state predicate must be preserved by, in order to be preserved by the whole recursion -/
structure Closed (P : State → Prop) : Prop where
  /-- `flow_state.activated = flow_state.activated - 1` -/
  decr : ∀ s u f, P s → s.flows u = some f → P (setFlow s u { f with activated := f.activated - 1 })
  /-- `child_flow.activated = 0` -/
  zero : ∀ s c, P s → P (modFlow s c fun f => { f with activated := 0 })
  /-- `flow_state.new_instance_started = True` (activated flow failing while STARTING) -/
  mark : ∀ s u, P s → P (markNoRestart s u)
  abortTail : ∀ s u d s', P s → abortTail s u d = .ok s' → P s'
  finishTail : ∀ s u d s', P s → finishTail s u d = .ok s' → P s'
  /-- `flow_state.scopes.pop(name)` -/
  scopes : ∀ s u f sc, P s → s.flows u = some f → P (setFlow s u { f with scopes := sc })
  /-- the stop-actions loop over an arbitrary list (the scope's action list in `EndScope`) -/
  stopActions : ∀ s l s', P s → stopActions s l = .ok s' → P s'

section
variable {P : State → Prop} (hP : Closed P)

/-- contract of the recursive call at fuel `n` -/
def RecP (P : State → Prop) (n : Nat) : Prop :=
  ∀ (s : State) (c : Nat) (d : Bool) (s' : State), P s → abortFlow n s c d = .ok s' → P s'

theorem childLoop_closed (n : Nat) (hrec : RecP P n) : ∀ (l : List Nat) (s s' : State), P s →
    childLoop (fun s c => abortFlow n s c true) s l = .ok s' → P s'
  | [], s, s', hp, h => by simp only [childLoop] at h; cases h; exact hp
  | c :: cs, s, s', hp, h => by
    simp only [childLoop] at h
    split at h
    · exact childLoop_closed n hrec cs s s' hp h
    · split at h
      · split at h
        · next s1 h1 => exact childLoop_closed n hrec cs s1 s' (hrec s c true s1 hp h1) h
        · cases h
      · exact childLoop_closed n hrec cs s s' hp h

include hP in
theorem deactLoop_closed (n : Nat) (hrec : RecP P n) (fid : Nat) : ∀ (l : List Nat) (s s' : State), P s →
    deactLoop (fun s c => abortFlow n s c true) fid s l = .ok s' → P s'
  | [], s, s', hp, h => by simp only [deactLoop] at h; cases h; exact hp
  | c :: cs, s, s', hp, h => by
    simp only [deactLoop] at h
    split at h
    · cases h
    · split at h
      · split at h
        · next s1 h1 =>
          exact deactLoop_closed n hrec fid cs _ s' (hP.zero s1 c (hrec s c true s1 hp h1)) h
        · cases h
      · exact deactLoop_closed n hrec fid cs s s' hp h

include hP in
theorem deactivatePhase_closed (n : Nat) (hrec : RecP P n) (s : State) (u : Nat) (d : Bool) (s1 : State) (b : Bool)
    (hp : P s) (h : deactivatePhase (fun s c => abortFlow n s c true) s u d = .ok (s1, b)) : P s1 := by
  unfold deactivatePhase at h
  split at h
  · cases h
  · next f hf =>
    split at h
    · cases h
    · cases h; exact hp
    · split at h
      · dsimp only at h
        split at h
        · next s2 h2 =>
          have hp2 := deactLoop_closed hP n hrec f.flowId f.children _ s2 (hP.decr s u f hp hf) h2
          cases h; exact hp2
        · cases h
      · cases h; exact hP.decr s u f hp hf

include hP in
theorem abortBody_closed (n : Nat) (hrec : RecP P n) (s : State) (u : Nat) (d : Bool) (s' : State)
    (hp : P s) (h : abortBody (fun s c => abortFlow n s c true) s u d = .ok s') : P s' := by
  rw [abortBody_eq] at h
  split at h
  · cases h
  · next f hf =>
    split at h
    · cases h; exact hp
    · split at h
      · cases h
      · next s1 h1 =>
        exact hP.abortTail s1 u d s' (childLoop_closed n hrec f.children _ s1 (hP.mark s u hp) h1) h

include hP in
theorem abortFlow_closed : ∀ (n : Nat), RecP P n
  | 0 => by intro s c d s' _ h; simp [abortFlow] at h
  | n + 1 => by
    intro s c d s' hp h
    simp only [abortFlow] at h
    split at h
    · cases h
    · next s1 h1 => cases h; exact deactivatePhase_closed hP n (abortFlow_closed n) s c d _ true hp h1
    · next s1 h1 =>
      exact abortBody_closed hP n (abortFlow_closed n) s1 c d s'
        (deactivatePhase_closed hP n (abortFlow_closed n) s c d s1 false hp h1) h

include hP in
theorem finishFlow_closed (n : Nat) (s : State) (u : Nat) (d : Bool) (s' : State) (hp : P s)
    (h : finishFlow n s u d = .ok s') : P s' := by
  unfold finishFlow at h
  split at h
  · cases h
  · next s1 h1 => cases h; exact deactivatePhase_closed hP n (abortFlow_closed hP n) s u d _ true hp h1
  · next s1 h1 =>
    have hp1 := deactivatePhase_closed hP n (abortFlow_closed hP n) s u d s1 false hp h1
    rw [finishBody_eq] at h
    split at h
    · cases h
    · next f hf =>
      split at h
      · cases h; exact hp1
      · split at h
        · cases h
        · next s2 h2 =>
          exact hP.finishTail s2 u d s' (childLoop_closed n (abortFlow_closed hP n) f.children _ s2 hp1 h2) h

include hP in
theorem scopeFlowLoop_closed (n : Nat) : ∀ (l : List Nat) (s s' : State), P s →
    scopeFlowLoop (fun s c => abortFlow n s c false) s l = .ok s' → P s'
  | [], s, s', hp, h => by simp only [scopeFlowLoop] at h; cases h; exact hp
  | c :: cs, s, s', hp, h => by
    simp only [scopeFlowLoop] at h
    split at h
    · exact scopeFlowLoop_closed n cs s s' hp h
    · split at h
      · split at h
        · next s1 h1 => exact scopeFlowLoop_closed n cs s1 s' (abortFlow_closed hP n s c false s1 hp h1) h
        · cases h
      · exact scopeFlowLoop_closed n cs s s' hp h

include hP in
theorem endScope_closed (n : Nat) (s : State) (u nm : Nat) (s' : State) (hp : P s)
    (h : endScope n s u nm = .ok s') : P s' := by
  unfold endScope at h
  split at h
  · cases h
  · next f hf =>
    split at h
    · cases h
    · next fl al hsc =>
      simp only at h
      split at h
      · cases h
      · next s2 h2 =>
        exact hP.stopActions s2 al s' (scopeFlowLoop_closed hP n fl _ s2 (hP.scopes s u f _ hp hf) h2) h

end

end NemoVerif.Lifetime
