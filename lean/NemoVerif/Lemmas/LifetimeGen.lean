/-
  Generic preservation skeleton for C06 (phase 4).

  `_abort_flow` / `_finish_flow` are split into their recursive part (deactivation loop, child loop) and a
  STRAIGHT-LINE tail (`abortTail` / `finishTail`: stop the actions, clear heads, unlink from the parent, mark the
  instance, push the end event, restart).  A state predicate that is preserved by the handful of primitive
  updates of the recursive part and by the two tails (`Closed P`) is preserved by every `.ok` run of `abortFlow`,
  `finishFlow`, `endScope` — for every fuel and every (even cyclic) hierarchy: ONE induction on the fuel
  (`abortFlow_closed`), reused by the invariants `Linked` (Lemmas/LifetimeLinked.lean) and `CountInv`
  (Lemmas/LifetimeCount.lean).
-/
import NemoVerif.Lemmas.LifetimeT2
import NemoVerif.Models.LifetimeV
namespace NemoVerif.Lifetime

/-- the part of `_abort_flow` after the "abort all running child flows" loop (no recursive call) -/
def abortTail (s1 : State) (u : Nat) (d : Bool) : Except Err State :=
  match s1.flows u with
  | none => .error .key
  | some f1 =>
    match stopActions s1 f1.actionUids with
    | .error e => .error e
    | .ok s2 =>
      let s3 := modFlow s2 u fun f => { f with heads := 0 }
      match removeFromParent s3 u with
      | .error e => .error e
      | .ok s4 =>
        let s5 := modFlow s4 u fun f => { f with status := .stopped }
        let s6 := push s5 (.flowFailed u)
        restart s6 u d

/-- the part of `_finish_flow` after the child loop (no recursive call) -/
def finishTail (s1 : State) (u : Nat) (d : Bool) : Except Err State :=
  match s1.flows u with
  | none => .error .key
  | some f1 =>
    match stopActions s1 f1.actionUids with
    | .error e => .error e
    | .ok s2 =>
      let s3 := modFlow s2 u fun f => { f with heads := 0 }
      if f1.isMain then
        .ok (modFlow s3 u fun f => { f with heads := 1, status := .waiting })
      else
        let s4 := modFlow s3 u fun f => { f with status := .finished }
        match removeFromParent s4 u with
        | .error e => .error e
        | .ok s5 =>
          let s6 := push s5 (.flowFinished u)
          restart s6 u d

theorem abortBody_eq (rec : State → Nat → Except Err State) (s : State) (u : Nat) (d : Bool) :
    abortBody rec s u d =
      match s.flows u with
      | none => .error .key
      | some f =>
        if !f.status.listening && f.status != .stopping then .ok s
        else
          match childLoop rec (markNoRestart s u) f.children with
          | .error e => .error e
          | .ok s1 => abortTail s1 u d := by
  unfold abortBody abortTail
  rfl

theorem finishBody_eq (rec : State → Nat → Except Err State) (s : State) (u : Nat) (d : Bool) :
    finishBody rec s u d =
      match s.flows u with
      | none => .error .key
      | some f =>
        if !f.status.listening then .ok s
        else
          match childLoop rec s f.children with
          | .error e => .error e
          | .ok s1 => finishTail s1 u d := by
  unfold finishBody finishTail
  rfl

/-- what a state predicate must be preserved by, in order to be preserved by the whole recursion -/
structure Closed (P : State → Prop) : Prop where
  /-- `flow_state.activated = flow_state.activated - 1` -/
  decr : ∀ s u f, P s → s.flows u = some f → P (setFlow s u { f with activated := f.activated - 1 })
  /-- `child_flow.activated = 0` -/
  zero : ∀ s c, P s → P (modFlow s c fun f => { f with activated := 0 })
  /-- `flow_state.new_instance_started = True` (activated flow failing while STARTING) -/
  mark : ∀ s u, P s → P (markNoRestart s u)
  abortTail : ∀ s u d s', P s → abortTail s u d = .ok s' → P s'
  finishTail : ∀ s u d s', P s → finishTail s u d = .ok s' → P s'
  /-- `flow_state.scopes.pop(name)` -/
  scopes : ∀ s u f sc, P s → s.flows u = some f → P (setFlow s u { f with scopes := sc })
  /-- the stop-actions loop over an arbitrary list (the scope's action list in `EndScope`) -/
  stopActions : ∀ s l s', P s → stopActions s l = .ok s' → P s'

section
variable {P : State → Prop} (hP : Closed P)

/-- contract of an arbitrary recursive-call parameter `rec` -/
def RecOK (P : State → Prop) (rec : State → Nat → Except Err State) : Prop :=
  ∀ (s : State) (c : Nat) (s' : State), P s → rec s c = .ok s' → P s'

theorem childLoop_closedR (rec : State → Nat → Except Err State) (hrec : RecOK P rec) : ∀ (l : List Nat) (s s' : State), P s →
    childLoop rec s l = .ok s' → P s'
  | [], s, s', hp, h => by simp only [childLoop] at h; cases h; exact hp
  | c :: cs, s, s', hp, h => by
    simp only [childLoop] at h
    split at h
    · exact childLoop_closedR rec hrec cs s s' hp h
    · split at h
      · split at h
        · next s1 h1 => exact childLoop_closedR rec hrec cs s1 s' (hrec s c s1 hp h1) h
        · cases h
      · exact childLoop_closedR rec hrec cs s s' hp h

include hP in
theorem deactLoop_closedR (rec : State → Nat → Except Err State) (hrec : RecOK P rec) (fid : Nat) : ∀ (l : List Nat) (s s' : State), P s →
    deactLoop rec fid s l = .ok s' → P s'
  | [], s, s', hp, h => by simp only [deactLoop] at h; cases h; exact hp
  | c :: cs, s, s', hp, h => by
    simp only [deactLoop] at h
    split at h
    · cases h
    · split at h
      · split at h
        · next s1 h1 =>
          exact deactLoop_closedR rec hrec fid cs _ s' (hP.zero s1 c (hrec s c s1 hp h1)) h
        · cases h
      · exact deactLoop_closedR rec hrec fid cs s s' hp h

include hP in
theorem deactivatePhase_closedR (rec : State → Nat → Except Err State) (hrec : RecOK P rec) (s : State) (u : Nat) (d : Bool)
    (s1 : State) (b : Bool) (hp : P s) (h : deactivatePhase rec s u d = .ok (s1, b)) : P s1 := by
  unfold deactivatePhase at h
  split at h
  · cases h
  · next f hf =>
    split at h
    · cases h
    · cases h; exact hp
    · split at h
      · dsimp only at h
        split at h
        · next s2 h2 =>
          have hp2 := deactLoop_closedR hP rec hrec f.flowId f.children _ s2 (hP.decr s u f hp hf) h2
          cases h; exact hp2
        · cases h
      · cases h; exact hP.decr s u f hp hf

include hP in
theorem abortBody_closedR (rec : State → Nat → Except Err State) (hrec : RecOK P rec) (s : State) (u : Nat) (d : Bool) (s' : State)
    (hp : P s) (h : abortBody rec s u d = .ok s') : P s' := by
  rw [abortBody_eq] at h
  split at h
  · cases h
  · next f hf =>
    split at h
    · cases h; exact hp
    · split at h
      · cases h
      · next s1 h1 =>
        exact hP.abortTail s1 u d s' (childLoop_closedR rec hrec f.children _ s1 (hP.mark s u hp) h1) h

include hP in
theorem finishBody_closedR (rec : State → Nat → Except Err State) (hrec : RecOK P rec) (s : State) (u : Nat) (d : Bool) (s' : State)
    (hp : P s) (h : finishBody rec s u d = .ok s') : P s' := by
  rw [finishBody_eq] at h
  split at h
  · cases h
  · next f hf =>
    split at h
    · cases h; exact hp
    · split at h
      · cases h
      · next s2 h2 =>
        exact hP.finishTail s2 u d s' (childLoop_closedR rec hrec f.children _ s2 hp h2) h

theorem scopeFlowLoop_closedR (rec : State → Nat → Except Err State) (hrec : RecOK P rec) : ∀ (l : List Nat) (s s' : State), P s →
    scopeFlowLoop rec s l = .ok s' → P s'
  | [], s, s', hp, h => by simp only [scopeFlowLoop] at h; cases h; exact hp
  | c :: cs, s, s', hp, h => by
    simp only [scopeFlowLoop] at h
    split at h
    · exact scopeFlowLoop_closedR rec hrec cs s s' hp h
    · split at h
      · split at h
        · next s1 h1 => exact scopeFlowLoop_closedR rec hrec cs s1 s' (hrec s c s1 hp h1) h
        · cases h
      · exact scopeFlowLoop_closedR rec hrec cs s s' hp h

/-- contract of the recursive call at fuel `n` -/
def RecP (P : State → Prop) (n : Nat) : Prop :=
  ∀ (s : State) (c : Nat) (d : Bool) (s' : State), P s → abortFlow n s c d = .ok s' → P s'

include hP in
theorem abortFlow_closed : ∀ (n : Nat), RecP P n
  | 0 => by intro s c d s' _ h; simp [abortFlow] at h
  | n + 1 => by
    intro s c d s' hp h
    have hrec : RecOK P (fun s c => abortFlow n s c true) := fun s c s' hp h => abortFlow_closed n s c true s' hp h
    simp only [abortFlow] at h
    split at h
    · cases h
    · next s1 h1 => cases h; exact deactivatePhase_closedR hP _ hrec s c d _ true hp h1
    · next s1 h1 =>
      exact abortBody_closedR hP _ hrec s1 c d s' (deactivatePhase_closedR hP _ hrec s c d s1 false hp h1) h

include hP in
theorem finishFlow_closed (n : Nat) (s : State) (u : Nat) (d : Bool) (s' : State) (hp : P s)
    (h : finishFlow n s u d = .ok s') : P s' := by
  have hrec : RecOK P (fun s c => abortFlow n s c true) := fun s c s' hp h => abortFlow_closed hP n s c true s' hp h
  unfold finishFlow at h
  split at h
  · cases h
  · next s1 h1 => cases h; exact deactivatePhase_closedR hP _ hrec s u d _ true hp h1
  · next s1 h1 =>
    exact finishBody_closedR hP _ hrec s1 u d s' (deactivatePhase_closedR hP _ hrec s u d s1 false hp h1) h

include hP in
theorem endScope_closed (n : Nat) (s : State) (u nm : Nat) (s' : State) (hp : P s)
    (h : endScope n s u nm = .ok s') : P s' := by
  have hrec : RecOK P (fun s c => abortFlow n s c false) := fun s c s' hp h => abortFlow_closed hP n s c false s' hp h
  unfold endScope at h
  split at h
  · cases h
  · next f hf =>
    split at h
    · cases h
    · next fl al hsc =>
      simp only at h
      split at h
      · cases h
      · next s2 h2 =>
        exact hP.stopActions s2 al s' (scopeFlowLoop_closedR _ hrec fl _ s2 (hP.scopes s u f _ hp hf) h2) h

/-! ### the repaired recursion (Models/LifetimeV.lean) -/

/-- the two extra updates of the repaired functions: `in_progress.add(uid)` and a fresh `in_progress` set -/
structure ClosedBusy (P : State → Prop) : Prop where
  mark : ∀ s u, P s → P (markBusy s u)
  reset : ∀ s l, P s → P { s with busy := l }

def RecPV (P : State → Prop) (n : Nat) : Prop :=
  ∀ (s : State) (c : Nat) (d : Bool) (s' : State), P s → abortFlowV n s c d = .ok s' → P s'

include hP in
theorem abortFlowV_closed (hmark : ∀ s u, P s → P (markBusy s u)) : ∀ (n : Nat), RecPV P n
  | 0 => by intro s c d s' _ h; simp [abortFlowV] at h
  | n + 1 => by
    intro s c d s' hp h
    have hrec : RecOK P (fun s c => abortFlowV n s c true) := fun s c s' hp h => abortFlowV_closed hmark n s c true s' hp h
    simp only [abortFlowV] at h
    split at h
    · cases h
    · next s1 h1 => cases h; exact deactivatePhase_closedR hP _ hrec s c d _ true hp h1
    · next s1 h1 =>
      have hp1 := deactivatePhase_closedR hP _ hrec s c d s1 false hp h1
      unfold abortBodyV at h
      split at h
      · cases h
      · split at h
        · cases h; exact hp1
        · split at h
          · cases h; exact hp1
          · exact abortBody_closedR hP _ hrec _ c d s' (hmark s1 c hp1) h

include hP in
theorem finishFlowV_closed (hB : ClosedBusy P) (n : Nat) (s : State) (u : Nat) (d : Bool) (s' : State) (hp : P s)
    (h : finishFlowV n s u d = .ok s') : P s' := by
  have hrec : RecOK P (fun s c => abortFlowV n s c true) := fun s c s' hp h => abortFlowV_closed hP hB.mark n s c true s' hp h
  unfold finishFlowV at h
  split at h
  · cases h
  · next s1 h1 => cases h; exact deactivatePhase_closedR hP _ hrec _ u d _ true (hB.reset s [u] hp) h1
  · next s1 h1 =>
    exact finishBody_closedR hP _ hrec s1 u d s' (deactivatePhase_closedR hP _ hrec _ u d s1 false (hB.reset s [u] hp) h1) h

include hP in
theorem abortTopV_closed (hB : ClosedBusy P) (n : Nat) (s : State) (u : Nat) (d : Bool) (s' : State) (hp : P s)
    (h : abortTopV n s u d = .ok s') : P s' :=
  abortFlowV_closed hP hB.mark n _ u d s' (hB.reset s [] hp) h

include hP in
theorem endScopeV_closed (hB : ClosedBusy P) (n : Nat) (s : State) (u nm : Nat) (s' : State) (hp : P s)
    (h : endScopeV n s u nm = .ok s') : P s' := by
  have hrec : RecOK P (fun s c => abortTopV n s c false) := fun s c s' hp h => abortTopV_closed hP hB n s c false s' hp h
  unfold endScopeV at h
  split at h
  · cases h
  · next f hf =>
    split at h
    · cases h
    · next fl al hsc =>
      simp only at h
      split at h
      · cases h
      · next s2 h2 =>
        exact hP.stopActions s2 al s' (scopeFlowLoop_closedR _ hrec fl _ s2 (hP.scopes s u f _ hp hf) h2) h

end

end NemoVerif.Lifetime
