/- C10 on CoreVM: corollaries of the frame relation used by Theorems/C10.lean -/
import NemoVerif.Lemmas.ErrFrameVM

namespace NemoVerif.CoreVM
open NemoVerif NemoVerif.CoreIndex

/-- the part of an instance record the frame keeps (everything but the child list) agrees -/
theorem ctx_of_frame {G : FUid → Prop} {s s' : VM} (h : FrameOut G s s') (g : FUid) (hg : ¬ G g) :
    (OMap.lookup g s'.r.fx).map (fun x => { x with childFlowUids := [] }) =
    (OMap.lookup g s.r.fx).map (fun x => { x with childFlowUids := [] }) := by
  rcases h.fx g hg with ⟨n1, n2⟩ | ⟨x, x', e1, e2, k⟩
  · rw [n1, n2]
  · rw [e1, e2]
    simp only [Option.map_some, Option.some.injEq]
    rw [k.1]

end NemoVerif.CoreVM
