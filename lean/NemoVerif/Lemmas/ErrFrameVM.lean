/-
  C10 on CoreVM, frame part: advancing heads of a family `G` of flow instances (closed under child / scope flows, no borrowed
  context) — every error path, `_abort_flow`, `_finish_flow`, fork recursion and scope clean-up included — leaves every
  instance outside `G` untouched.
-/
import NemoVerif.Lemmas.ErrContainVM

set_option linter.unusedSimpArgs false
set_option linter.unusedVariables false

namespace NemoVerif.CoreIndex

/-- the flow instance an index operation is about -/
def Op.flow : Op → FUid
  | .addInst f _ _ | .setPos f _ _ _ | .setStatus f _ _ _ | .fork f _ _ _ _ | .delHead f _ | .dropHeads f | .rmHead f _
  | .clearHeads f | .mainRestart f _ _ | .setFlowStatus f _ | .removeInst f => f

theorem findInst_touchHead_other (s : IState) (f : FUid) (h : HUid) (u : Head → Head) (g : FUid) (hne : g ≠ f) :
    findInst (touchHead s f h u) g = findInst s g := by
  unfold touchHead
  split
  · rfl
  · split
    · rfl
    · simp only []
      rw [findInst_of_insts_eq (insts_headChanged _ _ _ _ _), findInst_modifyInst _ _ _ _ (by intro i; rfl)]
      simp [hne]

/-- an index operation only changes the record of the instance it is about -/
theorem findInst_step_other (s : IState) (op : Op) (g : FUid) (hne : g ≠ op.flow) :
    findInst (step s op) g = findInst s g := by
  cases op with
  | addInst f h nm0 =>
    simp only [step, Op.flow] at *
    rw [findInst_of_insts_eq (insts_headChanged _ _ _ _ _)]
    unfold findInst
    simp only [List.find?_append, List.find?_cons, List.find?_nil]
    have : ¬ (f = g) := fun e => hne e.symm
    cases List.find? (fun x => decide (x.uid = g)) s.insts <;> simp [this]
  | setPos f h p nm =>
    simp only [step, Op.flow] at *; split
    · rfl
    · split
      · rfl
      · exact findInst_touchHead_other _ _ _ _ _ hne
  | setStatus f h st nm =>
    simp only [step, Op.flow] at *; split
    · rfl
    · split
      · rfl
      · exact findInst_touchHead_other _ _ _ _ _ hne
  | fork f h' nm0 p nm =>
    simp only [step, Op.flow] at *; split
    · rw [findInst_modifyInst _ _ _ _ (by intro i; rfl)]; simp [hne]
    · rw [findInst_touchHead_other _ _ _ _ _ hne, findInst_modifyInst _ _ _ _ (by intro i; rfl)]; simp [hne]
  | delHead f h => simp only [step, Op.flow] at *; rw [findInst_modifyInst _ _ _ _ (by intro i; rfl)]; simp [hne]
  | dropHeads f =>
    simp only [step, Op.flow] at *; split
    · rfl
    · rename_i i hi
      rw [findInst_modifyInst _ _ _ _ (by intro i; rfl), findInst_of_insts_eq (foldl_rawRemove_spec f i.heads s).1]; simp [hne]
  | rmHead f h => simp only [step, Op.flow] at *; rw [findInst_of_insts_eq (insts_rawRemove _ _)]
  | clearHeads f => simp only [step, Op.flow] at *; rw [findInst_modifyInst _ _ _ _ (by intro i; rfl)]; simp [hne]
  | mainRestart f h nm0 =>
    simp only [step, Op.flow] at *; split
    · rfl
    · rw [findInst_modifyInst _ _ _ _ (by intro i; rfl), findInst_of_insts_eq (insts_headChanged _ _ _ _ _)]; simp [hne]
  | setFlowStatus f st => simp only [step, Op.flow] at *; rw [findInst_modifyInst _ _ _ _ (by intro i; rfl)]; simp [hne]
  | removeInst f =>
    simp only [step, Op.flow] at *
    unfold findInst
    simp only [List.find?_filter]
    congr 1; funext x
    by_cases hx : x.uid = g
    · simp [hx, hne]
    · simp [hx]

end NemoVerif.CoreIndex

namespace NemoVerif.CoreVM
open NemoVerif NemoVerif.CoreIndex

/-! ### the frame relation -/

@[reducible] def scopeFlows (x : InstX) : List FUid := x.scopes.flatMap (fun e => e.2.1)
/-- the instances an instance can abort: its child flows and the flows registered in its open scopes -/
@[reducible] def kids (x : InstX) : List FUid := x.childFlowUids ++ scopeFlows x

/-- `G` contains every child / scope flow of its members, and no member borrows its context dict from another instance -/
def Closed (G : FUid → Prop) (s : VM) : Prop :=
  ∀ g x, G g → OMap.lookup g s.r.fx = some x → (∀ c ∈ kids x, G c) ∧ x.ctxOwner = none

/-- what may differ in the record of an instance OUTSIDE `G`: its child list may lose entries (`parent.child_flow_uids.remove`) -/
def SameButKids (x x' : InstX) : Prop :=
  x' = { x with childFlowUids := x'.childFlowUids } ∧ ∀ c ∈ x'.childFlowUids, c ∈ x.childFlowUids

structure FrameOut (G : FUid → Prop) (s s' : VM) : Prop where
  /-- status, heads, head positions and head statuses -/
  ix : ∀ g, ¬ G g → findInst s'.ixs.ix g = findInst s.ixs.ix g
  /-- matching scores, catch labels, scopes of the heads -/
  hx : ∀ g h, ¬ G g → OMap.lookup (g, h) s'.r.hx = OMap.lookup (g, h) s.r.hx
  /-- context, arguments, activation, scopes, actions, parent link … -/
  fx : ∀ g, ¬ G g → (OMap.lookup g s.r.fx = none ∧ OMap.lookup g s'.r.fx = none) ∨
        ∃ x x', OMap.lookup g s.r.fx = some x ∧ OMap.lookup g s'.r.fx = some x' ∧ SameButKids x x'

/-- the frame relation: if `G` is closed at the start, it is closed at the end and nothing outside `G` changed -/
def Fr (G : FUid → Prop) (s s' : VM) : Prop := Closed G s → Closed G s' ∧ FrameOut G s s'

theorem SameButKids.refl (x : InstX) : SameButKids x x := ⟨rfl, fun _ h => h⟩
theorem SameButKids.trans {x y z : InstX} (h1 : SameButKids x y) (h2 : SameButKids y z) : SameButKids x z := by
  obtain ⟨e1, s1⟩ := h1
  obtain ⟨e2, s2⟩ := h2
  refine ⟨?_, fun c hc => s1 c (s2 c hc)⟩
  rw [e2, e1]

theorem FrameOut.refl (G : FUid → Prop) (s : VM) : FrameOut G s s :=
  ⟨fun _ _ => rfl, fun _ _ _ => rfl, fun g _ => by
    cases h : OMap.lookup g s.r.fx with
    | none => exact Or.inl ⟨rfl, rfl⟩
    | some x => exact Or.inr ⟨x, x, rfl, rfl, SameButKids.refl x⟩⟩

theorem FrameOut.trans {G : FUid → Prop} {a b c : VM} (h1 : FrameOut G a b) (h2 : FrameOut G b c) : FrameOut G a c := by
  refine ⟨fun g hg => by rw [h2.ix g hg, h1.ix g hg], fun g h hg => by rw [h2.hx g h hg, h1.hx g h hg], fun g hg => ?_⟩
  rcases h1.fx g hg with ⟨n1, n2⟩ | ⟨x, y, e1, e2, k1⟩
  · rcases h2.fx g hg with ⟨m1, m2⟩ | ⟨y', z, e3, e4, k2⟩
    · exact Or.inl ⟨n1, m2⟩
    · rw [n2] at e3; cases e3
  · rcases h2.fx g hg with ⟨m1, m2⟩ | ⟨y', z, e3, e4, k2⟩
    · rw [e2] at m1; cases m1
    · rw [e2] at e3; cases e3
      exact Or.inr ⟨x, z, e1, e4, k1.trans k2⟩

theorem frPO (G : FUid → Prop) : PreOrd (Fr G) where
  refl s := fun hc => ⟨hc, FrameOut.refl G s⟩
  trans := by
    intro a b c h1 h2 hc
    obtain ⟨hb, f1⟩ := h1 hc
    obtain ⟨hcc, f2⟩ := h2 hb
    exact ⟨hcc, f1.trans f2⟩


/-! ### primitives -/

section prims
variable {G : FUid → Prop}

/-- a write to `Rest` that touches neither `fx` nor `hx` -/
theorem Fr.modifyRest_other (g : Rest → Rest) (hfx : ∀ r, (g r).fx = r.fx) (hhx : ∀ r, (g r).hx = r.hx) :
    Pres (Fr G) (CoreVM.modifyRest g) := by
  refine ⟨fun s hc => ?_⟩
  simp only [outState, CoreVM.modifyRest, modify, modifyGet, MonadStateOf.modifyGet, EStateM.modifyGet]
  refine ⟨?_, ⟨fun _ _ => rfl, fun _ _ _ => by simp only [hhx], fun g' _ => ?_⟩⟩
  · intro g' x hg hl; simp only [hfx] at hl; exact hc g' x hg hl
  · simp only [hfx]
    cases h : OMap.lookup g' s.r.fx with
    | none => exact Or.inl ⟨rfl, rfl⟩
    | some x => exact Or.inr ⟨x, x, rfl, rfl, SameButKids.refl x⟩

theorem Fr.uid (s : VM) (n : Nat) : Fr G s { s with r := { s.r with nextUid := n } } := by
  intro hc
  refine ⟨hc, ⟨fun _ _ => rfl, fun _ _ _ => rfl, fun g' _ => ?_⟩⟩
  cases h : OMap.lookup g' s.r.fx with
  | none => exact Or.inl ⟨rfl, rfl⟩
  | some x => exact Or.inr ⟨x, x, rfl, rfl, SameButKids.refl x⟩

theorem Fr.of_same {α : Type} {x : M α} (h : Pres Same x) : Pres (Fr G) x := Pres.of_same Fr.uid h

/-- a write to the record of a member of `G` that adds no child / scope flow and keeps the context ownership -/
theorem Fr.modInstX_in (f : FUid) (u : InstX → InstX) (hG : G f)
    (hu : ∀ x, (∀ c ∈ kids (u x), c ∈ kids x) ∧ (u x).ctxOwner = x.ctxOwner) : Pres (Fr G) (modInstX f u) := by
  refine ⟨fun s hc => ?_⟩
  simp only [outState, CoreVM.modInstX, CoreVM.modifyRest, modify, modifyGet, MonadStateOf.modifyGet, EStateM.modifyGet]
  refine ⟨?_, ⟨fun _ _ => rfl, fun _ _ _ => rfl, fun g' hg' => ?_⟩⟩
  · intro g' x hg hl
    simp only [OMap.lookup_modify] at hl
    split at hl
    · rename_i e; subst e
      cases hx : OMap.lookup g' s.r.fx with
      | none => rw [hx] at hl; cases hl
      | some x0 =>
        rw [hx] at hl; simp only [Option.map_some, Option.some.injEq] at hl; subst hl
        obtain ⟨k0, o0⟩ := hc g' x0 hg hx
        exact ⟨fun c hcm => k0 c ((hu x0).1 c hcm), by rw [(hu x0).2]; exact o0⟩
    · exact hc g' x hg hl
  · have hne : g' ≠ f := fun e => hg' (e ▸ hG)
    simp only [OMap.lookup_modify, hne, if_false]
    cases h : OMap.lookup g' s.r.fx with
    | none => exact Or.inl ⟨rfl, rfl⟩
    | some x => exact Or.inr ⟨x, x, rfl, rfl, SameButKids.refl x⟩

theorem mem_listRemoveFirst {x c : String} : ∀ {l : List String}, c ∈ listRemoveFirst x l → c ∈ l
  | [], h => by simp [listRemoveFirst] at h
  | y :: ys, h => by
    unfold listRemoveFirst at h
    split at h
    · exact List.mem_cons_of_mem _ h
    · rcases List.mem_cons.mp h with e | h'
      · exact e ▸ List.mem_cons_self
      · exact List.mem_cons_of_mem _ (mem_listRemoveFirst h')

/-- `parent.child_flow_uids.remove(uid)`: allowed on ANY instance -/
theorem Fr.modInstX_unlink (p : FUid) (c : FUid) :
    Pres (Fr G) (modInstX p fun y => { y with childFlowUids := listRemoveFirst c y.childFlowUids }) := by
  refine ⟨fun s hc => ?_⟩
  simp only [outState, CoreVM.modInstX, CoreVM.modifyRest, modify, modifyGet, MonadStateOf.modifyGet, EStateM.modifyGet]
  refine ⟨?_, ⟨fun _ _ => rfl, fun _ _ _ => rfl, fun g' hg' => ?_⟩⟩
  · intro g' x hg hl
    simp only [OMap.lookup_modify] at hl
    split at hl
    · rename_i e; subst e
      cases hx : OMap.lookup g' s.r.fx with
      | none => rw [hx] at hl; cases hl
      | some x0 =>
        rw [hx] at hl; simp only [Option.map_some, Option.some.injEq] at hl; subst hl
        obtain ⟨k0, o0⟩ := hc g' x0 hg hx
        refine ⟨fun c' hcm => k0 c' ?_, o0⟩
        simp only [kids, scopeFlows, List.mem_append] at hcm ⊢
        rcases hcm with h1 | h1
        · exact Or.inl (mem_listRemoveFirst h1)
        · exact Or.inr h1
    · exact hc g' x hg hl
  · simp only [OMap.lookup_modify]
    split
    · rename_i e; subst e
      cases h : OMap.lookup g' s.r.fx with
      | none => exact Or.inl ⟨rfl, rfl⟩
      | some x => exact Or.inr ⟨x, _, rfl, rfl, ⟨rfl, fun c' h' => mem_listRemoveFirst h'⟩⟩
    · cases h : OMap.lookup g' s.r.fx with
      | none => exact Or.inl ⟨rfl, rfl⟩
      | some x => exact Or.inr ⟨x, x, rfl, rfl, SameButKids.refl x⟩

/-- a write to the head table that only concerns heads of a member of `G` -/
theorem Fr.modifyRest_hx (f : FUid) (hG : G f) (g : Rest → Rest) (hfx : ∀ r, (g r).fx = r.fx)
    (hhx : ∀ r g' h', g' ≠ f → OMap.lookup (g', h') (g r).hx = OMap.lookup (g', h') r.hx) :
    Pres (Fr G) (CoreVM.modifyRest g) := by
  refine ⟨fun s hc => ?_⟩
  simp only [outState, CoreVM.modifyRest, modify, modifyGet, MonadStateOf.modifyGet, EStateM.modifyGet]
  refine ⟨?_, ⟨fun _ _ => rfl, fun g' h' hg' => hhx s.r g' h' (fun e => hg' (e ▸ hG)), fun g' _ => ?_⟩⟩
  · intro g' x hg hl; simp only [hfx] at hl; exact hc g' x hg hl
  · simp only [hfx]
    cases h : OMap.lookup g' s.r.fx with
    | none => exact Or.inl ⟨rfl, rfl⟩
    | some x => exact Or.inr ⟨x, x, rfl, rfl, SameButKids.refl x⟩

/-- an index operation about a member of `G` -/
theorem Fr.applyOp (op : Op) (hG : G op.flow) : Pres (Fr G) (applyOp op) := by
  refine ⟨fun s hc => ?_⟩
  unfold CoreVM.applyOp
  split
  · simp only [outState]
    refine ⟨hc, ⟨fun g' hg' => ?_, fun _ _ _ => rfl, fun g' _ => ?_⟩⟩
    · simp only [IxS.apply]
      exact findInst_step_other _ _ _ (fun e => hg' (e ▸ hG))
    · cases h : OMap.lookup g' s.r.fx with
      | none => exact Or.inl ⟨rfl, rfl⟩
      | some x => exact Or.inr ⟨x, x, rfl, rfl, SameButKids.refl x⟩
  · exact (frPO G).refl s hc

end prims


/-! ### instance-neutral computations (queue, actions, outgoing events, uid counter, global context …) -/

def Neutral (s s' : VM) : Prop := s'.ixs = s.ixs ∧ s'.r.fx = s.r.fx ∧ s'.r.hx = s.r.hx
theorem neutralPO : PreOrd Neutral :=
  ⟨fun _ => ⟨rfl, rfl, rfl⟩, fun h1 h2 => ⟨by rw [h2.1, h1.1], by rw [h2.2.1, h1.2.1], by rw [h2.2.2, h1.2.2]⟩⟩

theorem Neutral.modifyRest (g : Rest → Rest) (hfx : ∀ r, (g r).fx = r.fx) (hhx : ∀ r, (g r).hx = r.hx) :
    Pres Neutral (CoreVM.modifyRest g) := ⟨fun s => ⟨rfl, hfx s.r, hhx s.r⟩⟩
theorem Neutral.of_same {α : Type} {x : M α} (h : Pres Same x) : Pres Neutral x :=
  Pres.of_same (fun s n => ⟨rfl, rfl, rfl⟩) h

theorem Fr.of_neutral {G : FUid → Prop} {α : Type} {x : M α} (h : Pres Neutral x) : Pres (Fr G) x := by
  refine ⟨fun s hc => ?_⟩
  obtain ⟨e1, e2, e3⟩ := h.app s
  refine ⟨?_, ⟨fun _ _ => by rw [e1], fun _ _ _ => by rw [e3], fun g' _ => ?_⟩⟩
  · intro g' x hg hl; rw [e2] at hl; exact hc g' x hg hl
  · rw [e2]
    cases h : OMap.lookup g' s.r.fx with
    | none => exact Or.inl ⟨rfl, rfl⟩
    | some x => exact Or.inr ⟨x, x, rfl, rfl, SameButKids.refl x⟩

syntax "neutral_leaf" : tactic
macro_rules | `(tactic| neutral_leaf) => `(tactic| first
  | (apply Neutral.of_same; same_leaf)
  | (apply Neutral.modifyRest <;> (intro r; rfl)))
syntax "neutral_auto" : tactic
macro_rules | `(tactic| neutral_auto) => `(tactic| pres_search Neutral neutralPO (neutral_leaf))

theorem Neutral.pushEvent (e : Event) : Pres Neutral (pushEvent e) := Neutral.modifyRest _ (fun _ => rfl) (fun _ => rfl)
theorem Neutral.pushLeftEvent (e : Event) : Pres Neutral (pushLeftEvent e) := Neutral.modifyRest _ (fun _ => rfl) (fun _ => rfl)
theorem Neutral.setAction (a : Action) : Pres Neutral (setAction a) := Neutral.modifyRest _ (fun _ => rfl) (fun _ => rfl)
macro_rules | `(tactic| neutral_leaf) => `(tactic| first
  | exact Neutral.pushEvent _ | exact Neutral.pushLeftEvent _ | exact Neutral.setAction _)
theorem Neutral.updateActionStatusByEvent (e : Match.Ev) : Pres Neutral (updateActionStatusByEvent e) := by
  unfold CoreVM.updateActionStatusByEvent; neutral_auto
macro_rules | `(tactic| neutral_leaf) => `(tactic| exact Neutral.updateActionStatusByEvent _)
theorem Neutral.generateUmimEvent (e : Match.Ev) : Pres Neutral (generateUmimEvent e) := by
  unfold CoreVM.generateUmimEvent; neutral_auto
macro_rules | `(tactic| neutral_leaf) => `(tactic| exact Neutral.generateUmimEvent _)
theorem Neutral.releaseAction (au : String) : Pres Neutral (releaseAction au) := by
  unfold CoreVM.releaseAction; neutral_auto


/-! ### the frame relation through the interpreter functions -/

theorem Same.failedEvent (f : FUid) (sc : List Score) : Pres Same (failedEvent f sc) := by
  unfold CoreVM.failedEvent; same_auto
macro_rules | `(tactic| same_leaf) => `(tactic| first | exact Same.failedEvent _ _ | exact Same.isReferenceActivated _ | exact Same.deactivatesRef _ _ | exact Same.isChildActivated _)

section fr
variable {G : FUid → Prop}

theorem lookup_filter_other {α : Type} (f : FUid) (l : List (Key × α)) (g' : FUid) (h' : HUid) (hne : g' ≠ f) :
    OMap.lookup (g', h') (l.filter fun e => decide (e.1.1 ≠ f)) = OMap.lookup (g', h') l := by
  induction l with
  | nil => rfl
  | cons e rest ih =>
    obtain ⟨⟨a, b⟩, v⟩ := e
    rw [List.filter_cons]
    by_cases ha : a = f
    · subst ha
      have hk : ¬ ((a, b) = (g', h')) := by intro e; cases e; exact hne rfl
      have hd : decide (((a, b), v).1.1 ≠ a) = false := by simp
      rw [hd]
      simp only [Bool.false_eq_true, if_false, OMap.lookup, hk]
      exact ih
    · have hd : decide (((a, b), v).1.1 ≠ f) = true := by simp [ha]
      rw [hd]
      simp only [if_true, OMap.lookup]
      split
      · rfl
      · exact ih

/-- closes the side condition of `Fr.modInstX_in` for record updates that leave child list and scopes alone -/
syntax "kids_tac" : tactic
macro_rules | `(tactic| kids_tac) => `(tactic| (intro x; exact ⟨fun c h => h, rfl⟩))

/-- membership in `G`: a hypothesis, or a child / scope flow of a record read from a member -/
syntax "g_mem" : tactic
macro_rules | `(tactic| g_mem) => `(tactic| assumption)

syntax "fr_leaf" : tactic
macro_rules | `(tactic| fr_leaf) => `(tactic| first
  | (apply Fr.of_same; same_leaf)
  | (apply Fr.of_neutral; neutral_leaf)
  | exact Fr.of_neutral (Neutral.releaseAction _)
  | exact Fr.modInstX_unlink _ _
  | (refine Fr.modInstX_in _ _ ?_ ?_; (g_mem); (kids_tac))
  | (refine Fr.applyOp _ ?_; g_mem))

theorem Fr.dropHeads (f : FUid) (hG : G f) : Pres (Fr G) (dropHeads f) := by
  unfold CoreVM.dropHeads
  have hop : G (Op.dropHeads f).flow := hG
  have hflt := fun (c : Rest → List Key) => Fr.modifyRest_hx (G := G) f hG (fun r => { r with hx := r.hx.filter (fun e => e.1.1 ≠ f), cleared := c r }) (fun _ => rfl) (fun r g' h' hne => lookup_filter_other f r.hx g' h' hne)
  pres_search (Fr G) (frPO G) (first | fr_leaf | exact Fr.applyOp _ hop | exact hflt _)

theorem Fr.setFlowStatus (f : FUid) (st : FlowStatus) (hG : G f) : Pres (Fr G) (setFlowStatus f st) := by
  unfold CoreVM.setFlowStatus
  have hop : G (Op.setFlowStatus f st).flow := hG
  pres_search (Fr G) (frPO G) (first | fr_leaf | exact Fr.applyOp _ hop)

theorem Fr.restartActivated (f : FUid) (sc : List Score) (d : Bool) (hG : G f) : Pres (Fr G) (restartActivated f sc d) := by
  unfold CoreVM.restartActivated
  pres_search (Fr G) (frPO G) (fr_leaf)


/-- reading the record of a member of `G` tells that its child and scope flows are members too -/
theorem Fr.bind_getInstX {β : Type} (f : FUid) (hG : G f) (k : InstX → M β)
    (hk : ∀ x, (∀ c ∈ kids x, G c) → Pres (Fr G) (k x)) : Pres (Fr G) (getInstX f >>= k) := by
  refine ⟨fun s hc => ?_⟩
  cases hl : OMap.lookup f s.r.fx with
  | none =>
    have : getInstX f s = .error (.py "KeyError" f) s := by
      simp [getInstX, getInstX?, getRest, bind, EStateM.bind, get, getThe, MonadStateOf.get, EStateM.get, pure, EStateM.pure, hl,
        pyRaise, throw, throwThe, MonadExceptOf.throw, EStateM.throw]
    rw [bind_err_eq this]
    exact (frPO G).refl s hc
  | some x =>
    have : getInstX f s = .ok x s := by
      simp [getInstX, getInstX?, getRest, bind, EStateM.bind, get, getThe, MonadStateOf.get, EStateM.get, pure, EStateM.pure, hl]
    rw [bind_ok_eq this]
    exact (hk x (hc f x hG hl).1).app s hc

theorem Pres.forIn_mem {R : VM → VM → Prop} (po : PreOrd R) {α β : Type} (xs : List α) (init : β)
    (body : α → β → M (ForInStep β)) (hb : ∀ a ∈ xs, ∀ b, Pres R (body a b)) : Pres R (ForIn.forIn xs init body) := by
  induction xs generalizing init with
  | nil => simp only [List.forIn_nil]; exact Pres.pure po _
  | cons a as ih =>
    simp only [List.forIn_cons]
    apply Pres.bind po (hb a List.mem_cons_self init)
    intro r
    cases r with
    | done b => exact Pres.pure po _
    | yield b => exact ih b (fun a' h' => hb a' (List.mem_cons_of_mem _ h'))

theorem kids_child {x : InstX} {c : FUid} (h : ∀ c ∈ kids x, G c) (hc : c ∈ x.childFlowUids) : G c :=
  h c (List.mem_append_left _ hc)
macro_rules | `(tactic| g_mem) => `(tactic| exact kids_child (by assumption) (by assumption))

theorem Fr.abortFlow : ∀ (fuel : Nat) (f : FUid) (sc : List Score) (d : Bool), G f → Pres (Fr G) (abortFlow fuel f sc d)
  | 0, f, sc, d, _ => by unfold CoreVM.abortFlow; exact Pres.throw (frPO G) _
  | fuel + 1, f, sc, d, hG => by
    unfold CoreVM.abortFlow
    have ih := Fr.abortFlow fuel
    pres_search (Fr G) (frPO G) (first | fr_leaf | (refine Fr.dropHeads _ ?_; g_mem) | (refine Fr.setFlowStatus _ _ ?_; g_mem) | (refine Fr.restartActivated _ _ _ ?_; g_mem) | (refine ih _ _ _ ?_; g_mem) | (refine Fr.bind_getInstX _ ?_ _ ?_; (g_mem); intro x hkids) | (refine Pres.forIn_mem (frPO G) _ _ _ ?_; intro c hc b))


theorem Fr.setHeadPos (k : Key) (p : Nat) (hG : G k.1) : Pres (Fr G) (setHeadPos k p) := by
  unfold CoreVM.setHeadPos
  have h1 : ∀ nm, G (Op.setPos k.1 k.2 p nm).flow := fun _ => hG
  pres_search (Fr G) (frPO G) (first | fr_leaf | exact Fr.applyOp _ (h1 _))

theorem Fr.setHeadStatus (k : Key) (st : HeadStatus) (hG : G k.1) : Pres (Fr G) (setHeadStatus k st) := by
  unfold CoreVM.setHeadStatus
  have h1 : ∀ nm, G (Op.setStatus k.1 k.2 st nm).flow := fun _ => hG
  pres_search (Fr G) (frPO G) (first | fr_leaf | exact Fr.applyOp _ (h1 _))

theorem lookup_modify_other {α : Type} (k : Key) (u : α → α) (l : List (Key × α)) (g' : FUid) (h' : HUid) (hne : g' ≠ k.1) :
    OMap.lookup (g', h') (OMap.modify k u l) = OMap.lookup (g', h') l := by
  rw [OMap.lookup_modify]
  have : ¬ ((g', h') = k) := by intro e; exact hne (by rw [← e])
  simp [this]

theorem Fr.modHeadX (k : Key) (u : HeadX → HeadX) (hG : G k.1) : Pres (Fr G) (modHeadX k u) := by
  unfold CoreVM.modHeadX
  exact Fr.modifyRest_hx k.1 hG _ (fun _ => rfl) (fun r g' h' hne => lookup_modify_other k u r.hx g' h' hne)

/-- `flow_state.context.update(...)` of a member of `G` (which owns its context) -/
theorem Fr.setCtxVar (f : FUid) (key : String) (v : Val) (hG : G f) : Pres (Fr G) (setCtxVar f key v) := by
  refine ⟨fun s hc => ?_⟩
  unfold CoreVM.setCtxVar CoreVM.ctxHolder
  cases hl : OMap.lookup f s.r.fx with
  | none =>
    have : getInstX f s = .error (.py "KeyError" f) s := by
      simp [getInstX, getInstX?, getRest, bind, EStateM.bind, get, getThe, MonadStateOf.get, EStateM.get, pure, EStateM.pure, hl,
        pyRaise, throw, throwThe, MonadExceptOf.throw, EStateM.throw]
    simp only [bind_assoc]
    rw [bind_err_eq this]
    exact (frPO G).refl s hc
  | some x =>
    have h1 : getInstX f s = .ok x s := by
      simp [getInstX, getInstX?, getRest, bind, EStateM.bind, get, getThe, MonadStateOf.get, EStateM.get, pure, EStateM.pure, hl]
    have ho : x.ctxOwner = none := (hc f x hG hl).2
    simp only [bind_assoc]
    rw [bind_ok_eq h1]
    simp only [ho, pure_bind]
    exact (Fr.modInstX_in f (fun x => { x with context := OMap.insert key v x.context }) hG (fun x => ⟨fun c h => h, rfl⟩)).app s hc


theorem Same.flowHierarchy : ∀ (fuel : Nat) (f : FUid), Pres Same (flowHierarchy fuel f)
  | 0, f => by unfold CoreVM.flowHierarchy; exact Pres.throw samePO _
  | fuel + 1, f => by
    unfold CoreVM.flowHierarchy
    have ih := Same.flowHierarchy fuel
    pres_search Same samePO (first | same_leaf | exact ih _)

theorem Neutral.logActionOrIntents (fuel : Nat) (f : FUid) (sc : List Score) : Pres Neutral (logActionOrIntents fuel f sc) := by
  unfold CoreVM.logActionOrIntents
  pres_search Neutral neutralPO (first | neutral_leaf | exact Neutral.of_same (Same.flowHierarchy _ _))

theorem lookup_append_other {α : Type} (f : FUid) (h : HUid) (v : α) (l : List (Key × α)) (g' : FUid) (h' : HUid) (hne : g' ≠ f) :
    OMap.lookup (g', h') (l ++ [((f, h), v)]) = OMap.lookup (g', h') l := by
  rw [OMap.lookup_append_single]
  have : ¬ ((g', h') = (f, h)) := by intro e; cases e; exact hne rfl
  cases OMap.lookup (g', h') l <;> simp [this]

theorem Fr.finishFlow (fuel : Nat) (f : FUid) (sc : List Score) (d : Bool) (hG : G f) : Pres (Fr G) (finishFlow fuel f sc d) := by
  unfold CoreVM.finishFlow
  have happ := fun (h : HUid) (v : HeadX) => Fr.modifyRest_hx (G := G) f hG (fun r => { r with hx := r.hx ++ [((f, h), v)] }) (fun _ => rfl) (fun r g' h' hne => lookup_append_other f h v r.hx g' h' hne)
  have hop : ∀ h nm, G (Op.mainRestart f h nm).flow := fun _ _ => hG
  pres_search (Fr G) (frPO G) (first | fr_leaf | (refine Fr.dropHeads _ ?_; g_mem) | (refine Fr.setFlowStatus _ _ ?_; g_mem) | (refine Fr.restartActivated _ _ _ ?_; g_mem) | (refine Fr.abortFlow _ _ _ _ ?_; g_mem) | exact Fr.of_neutral (Neutral.logActionOrIntents _ _ _) | exact Fr.applyOp _ (hop _ _) | exact happ _ _ | (refine Fr.bind_getInstX _ ?_ _ ?_; (g_mem); intro x hkids) | (refine Pres.forIn_mem (frPO G) _ _ _ ?_; intro c hc b))


/-! #### `slide` -/

theorem Same.childHeadUids : ∀ (fuel : Nat) (f : FUid) (h : HUid), Pres Same (childHeadUids fuel f h)
  | 0, f, h => by unfold CoreVM.childHeadUids; exact Pres.throw samePO _
  | fuel + 1, f, h => by
    unfold CoreVM.childHeadUids
    have ih := Same.childHeadUids fuel
    pres_search Same samePO (first | same_leaf | exact ih _ _)

theorem Neutral.pickChoice (n : Nat) : Pres Neutral (pickChoice n) := by
  unfold CoreVM.pickChoice; neutral_auto

theorem flatMap_modify_snd (sc : String) (g : List String → List String) (l : List (String × (List String × List String))) :
    (OMap.modify sc (fun p => (p.1, g p.2)) l).flatMap (fun e => e.2.1) = l.flatMap (fun e => e.2.1) := by
  induction l with
  | nil => rfl
  | cons e rest ih =>
    unfold OMap.modify
    split <;> simp [List.flatMap_cons, ih]

theorem mem_flatMap_erase (n : String) (c : String) (l : List (String × (List String × List String)))
    (h : c ∈ (OMap.erase n l).flatMap (fun e => e.2.1)) : c ∈ l.flatMap (fun e => e.2.1) := by
  induction l with
  | nil => exact h
  | cons e rest ih =>
    unfold OMap.erase at h
    split at h
    · simp only [List.flatMap_cons, List.mem_append]; exact Or.inr (ih h)
    · simp only [List.flatMap_cons, List.mem_append] at h ⊢
      rcases h with h | h
      · exact Or.inl h
      · exact Or.inr (ih h)

theorem mem_scope_of_lookup {n : String} {l : List (String × (List String × List String))} {p : List String × List String}
    (h : OMap.lookup n l = some p) {c : String} (hc : c ∈ p.1) : c ∈ l.flatMap (fun e => e.2.1) := by
  induction l with
  | nil => cases h
  | cons e rest ih =>
    unfold OMap.lookup at h
    simp only [List.flatMap_cons, List.mem_append]
    split at h
    · cases h; exact Or.inl hc
    · exact Or.inr (ih h)

theorem kids_scope {x : InstX} {n : String} {p : List String × List String} {c : FUid}
    (h : ∀ c ∈ kids x, G c) (hl : OMap.lookup n x.scopes = some p) (hc : c ∈ p.1) : G c :=
  h c (List.mem_append_right _ (mem_scope_of_lookup hl hc))

macro_rules | `(tactic| kids_tac) => `(tactic| (intro x; refine ⟨fun c hc => ?_, rfl⟩; simp only [kids, scopeFlows, List.mem_append, flatMap_modify_snd, List.flatMap_append, List.flatMap_cons, List.flatMap_nil, List.append_nil, List.not_mem_nil, or_false] at hc ⊢; first | exact hc | exact hc.imp id (mem_flatMap_erase _ _ _)))

theorem lookup_erase_other {α : Type} (k : Key) (l : List (Key × α)) (g' : FUid) (h' : HUid) (hne : g' ≠ k.1) :
    OMap.lookup (g', h') (OMap.erase k l) = OMap.lookup (g', h') l := by
  rw [OMap.lookup_erase]
  have : ¬ ((g', h') = k) := by intro e; exact hne (by rw [← e])
  simp [this]

theorem flatMap_modify_append (sc : String) (u : String) (l : List (String × (List String × List String))) :
    (OMap.modify sc (fun p => (p.1, p.2 ++ [u])) l).flatMap (fun e => e.2.1) = l.flatMap (fun e => e.2.1) :=
  flatMap_modify_snd sc (· ++ [u]) l

macro_rules | `(tactic| kids_tac) => `(tactic| (intro x; refine ⟨fun c hc => ?_, rfl⟩; simp only [kids, scopeFlows, flatMap_modify_append] at hc ⊢; exact hc))
macro_rules | `(tactic| g_mem) => `(tactic| exact kids_scope (by assumption) (by assumption) (by assumption))

set_option maxHeartbeats 1000000 in
theorem Fr.slideStep (fuel : Nat) (f : FUid) (h : HUid) (hG : G f) : Pres (Fr G) (slideStep fuel f h) := by
  unfold CoreVM.slideStep
  have happ := fun (nk : Key) (hnk : nk.1 = f) (v : HeadX) => Fr.modifyRest_hx (G := G) f hG (fun r => { r with hx := r.hx ++ [(nk, v)] }) (fun _ => rfl) (fun r g' h' hne => by obtain ⟨a, b⟩ := nk; simp only at hnk; subst hnk; exact lookup_append_other a b v r.hx g' h' hne)
  have hers := fun (u : HUid) => Fr.modifyRest_hx (G := G) f hG (fun r => { r with hx := OMap.erase (f, u) r.hx }) (fun _ => rfl) (fun r g' h' hne => lookup_erase_other (f, u) r.hx g' h' hne)
  have hgctx := fun (g : List (String × Val) → List (String × Val)) => Fr.modifyRest_other (G := G) (fun r => { r with gctx := g r.gctx }) (fun _ => rfl) (fun _ => rfl)
  have hfork : ∀ nu a p b, G (Op.fork f nu a p b).flow := fun _ _ _ _ => hG
  have hdel : ∀ u, G (Op.delHead f u).flow := fun _ => hG
  pres_search (Fr G) (frPO G) (first | fr_leaf | (refine Fr.setHeadPos _ _ ?_; g_mem) | (refine Fr.setHeadStatus _ _ ?_; g_mem) | (refine Fr.modHeadX _ _ ?_; g_mem) | (refine Fr.setCtxVar _ _ _ ?_; g_mem) | (refine Fr.setFlowStatus _ _ ?_; g_mem) | (refine Fr.abortFlow _ _ _ _ ?_; g_mem) | exact Fr.of_neutral (Neutral.pickChoice _) | exact Fr.of_same (Same.childHeadUids _ _ _) | exact Fr.applyOp _ (hfork _ _ _ _) | exact Fr.applyOp _ (hdel _) | exact happ _ rfl _ | exact hers _ | exact hgctx _ | (refine Fr.bind_getInstX _ ?_ _ ?_; (g_mem); intro x hkids) | (refine Pres.forIn_mem (frPO G) _ _ _ ?_; intro c hc b))

theorem Fr.slideLoop : ∀ (fuel : Nat) (f : FUid) (h : HUid) (acc : List Key), G f → Pres (Fr G) (slideLoop fuel f h acc)
  | 0, f, h, acc, _ => by unfold CoreVM.slideLoop; exact Pres.throw (frPO G) _
  | fuel + 1, f, h, acc, hG => by
    unfold CoreVM.slideLoop
    have ih := Fr.slideLoop fuel
    pres_search (Fr G) (frPO G) (first | (refine Fr.slideStep _ _ _ ?_; g_mem) | (refine ih _ _ _ ?_; g_mem))

theorem Fr.slide (fuel : Nat) (f : FUid) (h : HUid) (hG : G f) : Pres (Fr G) (slide fuel f h) := Fr.slideLoop fuel f h [] hG

theorem Pres.bind_ret {R : VM → VM → Prop} (po : PreOrd R) {α β : Type} {x : M α} {f : α → M β} (P : α → Prop)
    (hx : Pres R x) (hP : ∀ s a s', x s = .ok a s' → P a) (hf : ∀ a, P a → Pres R (f a)) : Pres R (x >>= f) := by
  refine ⟨fun s => ?_⟩
  cases hxs : x s with
  | ok a s1 =>
    rw [bind_ok_eq hxs]
    exact po.trans (ok_of_pres hx hxs) ((hf a (hP s a s1 hxs)).app s1)
  | error e s1 =>
    rw [bind_err_eq hxs]
    exact err_of_pres hx hxs


end fr

end NemoVerif.CoreVM
