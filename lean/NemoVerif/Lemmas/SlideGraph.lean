/-
  Lemmas about `Models/SlideGraph.lean` (core Lean only).
-/
import NemoVerif.Models.SlideGraph

namespace NemoVerif.SlideGraph

theorem mem_catchTargets_of_getElem? {p : Prog} {u t : Nat} (h : p[u]? = some (.catchPush t)) :
    t ∈ catchTargets p := by
  unfold catchTargets
  rw [List.mem_filterMap]
  exact ⟨.catchPush t, List.mem_of_getElem? h, rfl⟩

/-- One loop iteration that moves the head follows an edge of the sliding graph, starts inside the
    element list, and keeps the catch-stack invariant. -/
theorem stepAt_next {p : Prog} {a : Ans} {h h' : Head} (hs : stepAt p a h = .next h') (hc : CatchOk p h) :
    Edge p h.pos h'.pos ∧ CatchOk p h' ∧ h.pos < p.length := by
  unfold stepAt at hs
  cases hp : p[h.pos]? with
  | none => simp [hp] at hs
  | some e =>
    have hlt : h.pos < p.length := by
      rcases List.getElem?_eq_some_iff.mp hp with ⟨hl, _⟩; exact hl
    simp only [hp] at hs
    unfold Edge succs
    simp only [hp]
    cases e with
    | wait evals => simp only at hs; split at hs <;> simp at hs
    | step evals =>
      simp only at hs
      split at hs
      · simp at hs
      · injection hs with hs; subst hs; exact ⟨by simp, hc, hlt⟩
    | restartLabel =>
      simp only at hs
      injection hs with hs; subst hs; exact ⟨by simp, hc, hlt⟩
    | goto target =>
      cases a <;> cases target <;> simp only at hs <;>
        first
        | (injection hs with hs; subst hs; exact ⟨by simp, hc, hlt⟩)
        | (simp at hs)
    | jump target =>
      cases target <;> simp only at hs <;> (injection hs with hs; subst hs; exact ⟨by simp, hc, hlt⟩)
    | ret =>
      simp only at hs
      split at hs
      · simp at hs
      · injection hs with hs; subst hs; exact ⟨by simp, hc, hlt⟩
    | abort =>
      simp only at hs
      cases hl : h.cstack.getLast? with
      | none =>
        simp only [hl] at hs
        injection hs with hs; subst hs; exact ⟨by simp, hc, hlt⟩
      | some t =>
        simp only [hl] at hs
        injection hs with hs; subst hs
        have ht : t ∈ h.cstack := List.mem_of_getLast? hl
        refine ⟨?_, hc, hlt⟩
        simp only [List.mem_cons, List.mem_map]
        exact Or.inr ⟨t, hc t ht, rfl⟩
    | catchPush t =>
      simp only at hs
      injection hs with hs; subst hs
      refine ⟨by simp, ?_, hlt⟩
      intro x hx
      simp only [List.mem_append, List.mem_singleton] at hx
      rcases hx with hx | hx
      · exact hc x hx
      · subst hx; exact mem_catchTargets_of_getElem? hp
    | catchPop =>
      simp only at hs
      cases hcs : h.cstack with
      | nil => simp [hcs] at hs
      | cons c cs =>
        simp only [hcs] at hs
        injection hs with hs; subst hs
        refine ⟨by simp, ?_, hlt⟩
        intro x hx
        exact hc x (by rw [hcs]; exact List.dropLast_subset _ hx)
    | fork ts => simp at hs
    | merge => simp at hs
    | waitHeads =>
      simp only at hs
      split at hs
      · injection hs with hs; subst hs; exact ⟨by simp, hc, hlt⟩
      · simp at hs

theorem Reach.trans {p : Prog} {u v w : Nat} (h1 : Reach p u v) (h2 : Reach p v w) : Reach p u w := by
  induction h1 with
  | refl _ => exact h2
  | step e _ ih => exact .step e (ih h2)

/-- every position in the trace of `slide` is reachable from the start position -/
theorem slide_trace_reach {p : Prog} {o : Nat → Ans} :
    ∀ (fuel k : Nat) (h : Head), CatchOk p h → ∀ x ∈ (slide p o fuel k h).trace, Reach p h.pos x := by
  intro fuel
  induction fuel with
  | zero => intro k h _ x hx; simp [slide] at hx
  | succ n ih =>
    intro k h hc x hx
    unfold slide at hx
    cases hs : stepAt p (o k) h with
    | stop s =>
      simp only [hs, List.mem_singleton] at hx
      subst hx; exact .refl _
    | next h' =>
      simp only [hs, List.mem_cons] at hx
      obtain ⟨he, hc', _⟩ := stepAt_next hs hc
      rcases hx with hx | hx
      · subst hx; exact .refl _
      · exact .step he (ih (k + 1) h' hc' x hx)

/-- if the fuel runs out, the trace has exactly `fuel` positions, all inside the element list -/
theorem slide_out_of_fuel {p : Prog} {o : Nat → Ans} :
    ∀ (fuel k : Nat) (h : Head), CatchOk p h → (slide p o fuel k h).stop = none →
      (slide p o fuel k h).trace.length = fuel ∧ ∀ x ∈ (slide p o fuel k h).trace, x < p.length := by
  intro fuel
  induction fuel with
  | zero => intro k h _ _; simp [slide]
  | succ n ih =>
    intro k h hc hst
    unfold slide at hst ⊢
    cases hs : stepAt p (o k) h with
    | stop s => simp [hs] at hst
    | next h' =>
      simp only [hs] at hst ⊢
      obtain ⟨_, hc', hlt⟩ := stepAt_next hs hc
      obtain ⟨hl, hb⟩ := ih (k + 1) h' hc' hst
      refine ⟨by simp [hl], ?_⟩
      intro x hx
      simp only [List.mem_cons] at hx
      rcases hx with hx | hx
      · subst hx; exact hlt
      · exact hb x hx

/-- without a cycle of sliding elements `slide` never looks at a position twice -/
theorem slide_trace_nodup {p : Prog} {o : Nat → Ans} (hac : SlideAcyclic p) :
    ∀ (fuel k : Nat) (h : Head), CatchOk p h → (slide p o fuel k h).trace.Nodup := by
  intro fuel
  induction fuel with
  | zero => intro k h _; simp [slide]
  | succ n ih =>
    intro k h hc
    unfold slide
    cases hs : stepAt p (o k) h with
    | stop s => simp
    | next h' =>
      simp only
      obtain ⟨he, hc', _⟩ := stepAt_next hs hc
      rw [List.nodup_cons]
      refine ⟨?_, ih (k + 1) h' hc'⟩
      intro hmem
      exact hac _ _ he (slide_trace_reach n (k + 1) h' hc' _ hmem)

/-- pigeonhole: distinct naturals below `n` are at most `n` many -/
theorem nodup_bounded_length {l : List Nat} {n : Nat} (hn : l.Nodup) (hb : ∀ x ∈ l, x < n) : l.length ≤ n := by
  have hsub : l ⊆ List.range n := by
    intro x hx; exact List.mem_range.mpr (hb x hx)
  have := List.Nodup.length_le_of_subset hn hsub
  simpa using this

/-- a run that stopped does not depend on how much fuel was left -/
theorem slide_fuel_mono {p : Prog} {o : Nat → Ans} :
    ∀ (fuel k : Nat) (h : Head), (slide p o fuel k h).stop ≠ none →
      ∀ extra, slide p o (fuel + extra) k h = slide p o fuel k h := by
  intro fuel
  induction fuel with
  | zero => intro k h hst; simp [slide] at hst
  | succ n ih =>
    intro k h hst extra
    have e : n + 1 + extra = (n + extra) + 1 := by omega
    rw [e]
    unfold slide at hst ⊢
    cases hs : stepAt p (o k) h with
    | stop s => simp
    | next h' =>
      simp only [hs] at hst ⊢
      rw [ih (k + 1) h' hst extra]

theorem stepAt_atEnd {p : Prog} {a : Ans} {h : Head} (hs : stepAt p a h = .stop .atEnd) : p.length ≤ h.pos := by
  unfold stepAt at hs
  cases hp : p[h.pos]? with
  | none => exact List.getElem?_eq_none_iff.mp hp
  | some e =>
    exfalso
    simp only [hp] at hs
    cases e with
    | wait evals => simp only at hs; split at hs <;> simp at hs
    | step evals => simp only at hs; split at hs <;> simp at hs
    | restartLabel => simp at hs
    | goto target => cases a <;> cases target <;> simp at hs
    | jump target => cases target <;> simp at hs
    | ret => simp only at hs; split at hs <;> simp at hs
    | abort => simp only at hs; split at hs <;> simp at hs
    | catchPush t => simp at hs
    | catchPop => simp only at hs; split at hs <;> simp at hs
    | fork ts => simp at hs
    | merge => simp at hs
    | waitHeads => simp only at hs; split at hs <;> simp at hs

/-- a run that ended with `atEnd` left the head at or behind the end of the element list -/
theorem slide_atEnd {p : Prog} {o : Nat → Ans} :
    ∀ (fuel k : Nat) (h : Head), (slide p o fuel k h).stop = some .atEnd → p.length ≤ (slide p o fuel k h).final.pos := by
  intro fuel
  induction fuel with
  | zero => intro k h hst; simp [slide] at hst
  | succ n ih =>
    intro k h hst
    unfold slide at hst ⊢
    cases hs : stepAt p (o k) h with
    | stop s =>
      simp only [hs, Option.some.injEq] at hst ⊢
      subst hst
      exact stepAt_atEnd hs
    | next h' =>
      simp only [hs] at hst ⊢
      exact ih (k + 1) h' hst

/-! ### checker soundness -/

theorem checkRank_edge {p : Prog} {r : Array Nat} (hck : checkRank p r = true) {u v : Nat} (he : Edge p u v) :
    r.getD v 0 < r.getD u 0 := by
  unfold checkRank at hck
  rw [List.all_eq_true] at hck
  have hu : u < p.length := by
    unfold Edge succs at he
    cases hp : p[u]? with
    | none => simp [hp] at he
    | some e => rcases List.getElem?_eq_some_iff.mp hp with ⟨hl, _⟩; exact hl
  have h1 := hck u (List.mem_range.mpr hu)
  rw [List.all_eq_true] at h1
  have h2 := h1 v he
  simpa using h2

theorem rank_reach {p : Prog} {r : Array Nat} (hck : checkRank p r = true) {u v : Nat} (hr : Reach p u v) :
    r.getD v 0 ≤ r.getD u 0 := by
  induction hr with
  | refl _ => exact Nat.le_refl _
  | step e _ ih => exact Nat.le_trans ih (Nat.le_of_lt (checkRank_edge hck e))

theorem checkRank_sound {p : Prog} {r : Array Nat} (hck : checkRank p r = true) : SlideAcyclic p := by
  intro u v he hr
  have h1 := checkRank_edge hck he
  have h2 := rank_reach hck hr
  omega


/-! ### stack-sensitive certificate -/

theorem stepAt_next_lt {p : Prog} {a : Ans} {h h' : Head} (hs : stepAt p a h = .next h') : h.pos < p.length := by
  unfold stepAt at hs
  cases hp : p[h.pos]? with
  | none => simp [hp] at hs
  | some e => rcases List.getElem?_eq_some_iff.mp hp with ⟨hl, _⟩; exact hl

/-- the `stopping` flag of the head does not influence where `slide` goes -/
theorem stepAt_proj {p : Prog} {a : Ans} {h h' : Head} (hs : stepAt p a h = .next h') :
    ∃ h'', stepAt p a { pos := h.pos, cstack := h.cstack } = .next h'' ∧ h''.pos = h'.pos ∧ h''.cstack = h'.cstack := by
  unfold stepAt at hs ⊢
  simp only at hs ⊢
  cases hp : p[h.pos]? with
  | none => simp [hp] at hs
  | some e =>
    simp only [hp] at hs ⊢
    cases e with
    | wait evals => simp only at hs; split at hs <;> simp at hs
    | step evals =>
      simp only at hs ⊢
      split at hs
      · simp at hs
      · rename_i hc; injection hs with hs; subst hs; simp [hc]
    | restartLabel => simp only at hs ⊢; injection hs with hs; subst hs; exact ⟨_, rfl, rfl, rfl⟩
    | goto target =>
      cases a <;> cases target <;> simp only at hs ⊢ <;>
        first
        | (injection hs with hs; subst hs; exact ⟨_, rfl, rfl, rfl⟩)
        | (simp at hs)
    | jump target =>
      cases target <;> simp only at hs ⊢ <;> (injection hs with hs; subst hs; exact ⟨_, rfl, rfl, rfl⟩)
    | ret =>
      simp only at hs ⊢
      split at hs
      · simp at hs
      · rename_i hc; injection hs with hs; subst hs; simp [hc]
    | abort =>
      simp only at hs ⊢
      cases hl : h.cstack.getLast? with
      | none => simp only [hl] at hs ⊢; injection hs with hs; subst hs; exact ⟨_, rfl, rfl, rfl⟩
      | some t => simp only [hl] at hs ⊢; injection hs with hs; subst hs; exact ⟨_, rfl, rfl, rfl⟩
    | catchPush t => simp only at hs ⊢; injection hs with hs; subst hs; exact ⟨_, rfl, rfl, rfl⟩
    | catchPop =>
      simp only at hs ⊢
      cases hcs : h.cstack with
      | nil => simp [hcs] at hs
      | cons c cs => simp only [hcs] at hs ⊢; injection hs with hs; subst hs; exact ⟨_, rfl, rfl, rfl⟩
    | fork ts => simp at hs
    | merge => simp at hs
    | waitHeads =>
      simp only at hs ⊢
      split at hs
      · rename_i hc; injection hs with hs; subst hs; simp [hc]
      · simp at hs

theorem mem_contMoves {p : Prog} {a : Ans} {h h' : Head} (hs : stepAt p a h = .next h') :
    (h'.pos, h'.cstack) ∈ contMoves p h.pos h.cstack := by
  obtain ⟨h'', h1, h2, h3⟩ := stepAt_proj hs
  unfold contMoves
  apply List.mem_append_left
  rw [List.mem_filterMap]
  refine ⟨a, by cases a <;> simp, ?_⟩
  rw [h1]
  simp only [h2, h3]

theorem certOk_move {p : Prog} {c : Cert} (hc : certOk p c = true) {u : Nat} {s : List Nat} (hu : u < p.length)
    (ha : c.allowed u s = true) {m : Nat × List Nat} (hm : m ∈ contMoves p u s) :
    c.allowed m.1 m.2 = true ∧ c.rank.getD m.1 0 < c.rank.getD u 0 := by
  unfold certOk at hc
  simp only [Bool.and_eq_true, List.all_eq_true] at hc
  have h1 := hc.1.2 u (List.mem_range.mpr hu) s (by
    unfold Cert.allowed at ha
    exact List.contains_iff_mem.mp ha)
  have h2 := h1.1 m hm
  simpa using h2

theorem certOk_rank_le {p : Prog} {c : Cert} (hc : certOk p c = true) {u : Nat} (hu : u ≤ p.length) :
    c.rank.getD u 0 ≤ p.length := by
  unfold certOk at hc
  simp only [Bool.and_eq_true, List.all_eq_true] at hc
  have := hc.2 u (List.mem_range.mpr (Nat.lt_succ_of_le hu))
  simpa using this

/-- with a verified certificate, `slide` started in an allowed state stops as soon as the fuel exceeds the rank -/
theorem slide_stops_ranked {p : Prog} {c : Cert} (hc : certOk p c = true) {o : Nat → Ans} :
    ∀ (fuel k : Nat) (h : Head), c.allowed h.pos h.cstack = true → c.rank.getD h.pos 0 < fuel →
      (slide p o fuel k h).stop ≠ none := by
  intro fuel
  induction fuel with
  | zero => intro k h _ hr; omega
  | succ n ih =>
    intro k h ha hr
    unfold slide
    cases hs : stepAt p (o k) h with
    | stop s => simp
    | next h' =>
      simp only
      have hm := mem_contMoves hs
      obtain ⟨ha', hlt⟩ := certOk_move hc (stepAt_next_lt hs) ha hm
      exact ih (k + 1) h' ha' (by simp only at hlt; omega)


theorem slide_final_allowed {p : Prog} {c : Cert} (hc : certOk p c = true) {o : Nat → Ans} :
    ∀ (fuel k : Nat) (h : Head), c.allowed h.pos h.cstack = true →
      c.allowed (slide p o fuel k h).final.pos (slide p o fuel k h).final.cstack = true := by
  intro fuel
  induction fuel with
  | zero => intro k h ha; simpa [slide] using ha
  | succ n ih =>
    intro k h ha
    unfold slide
    cases hs : stepAt p (o k) h with
    | stop s => simpa using ha
    | next h' =>
      simp only
      exact ih (k + 1) h' (certOk_move hc (stepAt_next_lt hs) ha (mem_contMoves hs)).1

theorem certOk_resume {p : Prog} {c : Cert} (hc : certOk p c = true) {u : Nat} {s : List Nat} (hu : u < p.length)
    (ha : c.allowed u s = true) {m : Nat × List Nat} (hm : m ∈ resumeMoves p u s) : c.allowed m.1 m.2 = true := by
  unfold certOk at hc
  simp only [Bool.and_eq_true, List.all_eq_true] at hc
  have h1 := hc.1.2 u (List.mem_range.mpr hu) s (by
    unfold Cert.allowed at ha
    exact List.contains_iff_mem.mp ha)
  exact h1.2 m hm

end NemoVerif.SlideGraph
