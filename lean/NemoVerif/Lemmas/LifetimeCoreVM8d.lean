/-
  C06 / refinement CoreVM → Lifetime, part 8d: instance creation.  `add_new_flow_instance` (called when a `StartFlow` event is
  processed) creates an isolated WAITING instance: on the abstraction it IS `createInst` (a fresh record, appended to the order).
  The link to the parent (`_start_flow`, run later by `_handle_event_matching`) is NOT refined; the Lifetime machine has the two
  together as ONE operation (`IOp.startChild`), so creation is an abstract step of its own here.
-/
import NemoVerif.Lemmas.LifetimeCoreVM8c
namespace NemoVerif.Lifetime.Refine
open NemoVerif NemoVerif.CoreVM NemoVerif.CoreIndex NemoVerif.Lifetime

/-- `addNewFlowInstance` after the loop id has been determined -/
def vmAddRest (uid : FUid) (cfg : FlowCfg) (hierPos : String) (evArgs : List (String × Val)) (loopId : Option String) : M Unit := do
  let headUid ← freshUid
  let owner ← match lookupArg "context" evArgs with
    | some (.ref "ctx" o) =>
      if !cfg.params.isEmpty then pyRaise "ColangRuntimeError" s!"Context cannot be shared to flows with parameters: '{cfg.id}'"
      if (← getInstX? o).isNone then unsupported "shared context whose owning instance was cleaned up"
      pure (some o)
    | some _ =>
      if !cfg.params.isEmpty then pyRaise "ColangRuntimeError" s!"Context cannot be shared to flows with parameters: '{cfg.id}'"
      unsupported "StartFlow(context=…) with something that is not a flow context"
    | none => pure none
  let (args, ctx) ← instanceArguments cfg evArgs
  let x : InstX := { flowId := cfg.id, loopId := loopId, hierPos := hierPos, context := if owner.isSome then [] else ctx,
                     ctxOwner := owner, arguments := args, statusUpdated := (← getRest).clock }
  match owner with
  | some o => modInstX o fun y => { y with context := updateArgs y.context ctx }
  | none => pure ()
  if (← getInstX? uid).isSome then unsupported "flow instance uid re-used"
  modifyRest fun r => { r with
    fx := r.fx ++ [(uid, x)],
    hx := r.hx ++ [((uid, headUid), {})],
    idStates := match OMap.lookup cfg.id r.idStates with
      | some _ => OMap.modify cfg.id (· ++ [uid]) r.idStates
      | none => r.idStates ++ [(cfg.id, [uid])] }
  let nm0 ← match elemAt cfg 0 with
    | some (.matchOp spec _) => do
      match spec.varName, spec.members with
      | none, none => pure spec.name
      | _, _ => unsupported "first element of a flow is not a plain event match"
    | _ => pure none
  CoreVM.applyOp (.addInst uid headUid nm0)

theorem addNew_unfold (uid : FUid) (cfg : FlowCfg) (hp : String) (args : List (String × Val)) :
    addNewFlowInstance uid cfg hp args =
      (match cfg.loopId with
       | some "NEW" => EStateM.bind freshUid fun u => vmAddRest uid cfg hp args (some u)
       | some l => vmAddRest uid cfg hp args (some l)
       | none => vmAddRest uid cfg hp args none) := by
  unfold addNewFlowInstance
  simp only [bind]
  cases hl : cfg.loopId with
  | none => rfl
  | some l =>
    by_cases hn : l = "NEW"
    · subst hn; rfl
    · simp only
      rfl


variable (ν φ : String → Nat)

/-- creation of an isolated WAITING instance `c` of flow `fid` on the abstract state -/
def createInst (s : State) (c fid : Nat) : State := { setFlow s c (freshFlow fid) with order := s.order ++ [c] }

theorem not_mem_of_lookup_none {α : Type} (k : String) : ∀ (l : List (String × α)), OMap.lookup k l = none → k ∉ l.map (·.1)
  | [], _ => by simp
  | (k', v) :: l, h => by
    simp only [OMap.lookup] at h
    by_cases hk : k' = k
    · simp [hk] at h
    · simp only [hk, if_false] at h
      simp only [List.map_cons, List.mem_cons, not_or]
      exact ⟨fun e => hk e.symm, not_mem_of_lookup_none k l h⟩

theorem lookup_append_ne {α : Type} (k u : String) (x : α) (h : k ≠ u) : ∀ (l : List (String × α)),
    OMap.lookup k (l ++ [(u, x)]) = OMap.lookup k l
  | [] => by simp [OMap.lookup, h.symm]
  | (k', v) :: l => by
    simp only [List.cons_append, OMap.lookup]
    split
    · rfl
    · exact lookup_append_ne k u x h l

theorem lookup_append_new {α : Type} (u : String) (x : α) : ∀ (l : List (String × α)), OMap.lookup u l = none →
    OMap.lookup u (l ++ [(u, x)]) = some x
  | [], _ => by simp [OMap.lookup]
  | (k', v) :: l, h => by
    simp only [OMap.lookup] at h
    by_cases hk : k' = u
    · simp [hk] at h
    · simp only [hk, if_false] at h
      simp only [List.cons_append, OMap.lookup, hk, if_false]
      exact lookup_append_new u x l h

theorem find?_append_ne (l : List Inst) (i : Inst) (u : FUid) (h : i.uid ≠ u) :
    (l ++ [i]).find? (·.uid = u) = l.find? (·.uid = u) := by
  rw [List.find?_append]
  cases l.find? (·.uid = u) with
  | some j => rfl
  | none => simp [List.find?, h]

theorem find?_append_new (l : List Inst) (i : Inst) (h : i.uid ∉ l.map (·.uid)) :
    (l ++ [i]).find? (·.uid = i.uid) = some i := by
  rw [List.find?_append]
  have : l.find? (·.uid = i.uid) = none := by
    rw [List.find?_eq_none]
    intro j hj
    simp only [decide_eq_true_eq]
    intro e
    exact h (by rw [← e]; exact List.mem_map_of_mem (f := (·.uid)) hj)
  rw [this]
  simp [List.find?]

theorem addInst_insts (s : IState) (f : FUid) (h : HUid) (nm0 : Option String) :
    (step s (.addInst f h nm0)).insts = s.insts ++ [{ uid := f, status := .waiting, heads := [newHead h nm0] }] := by
  simp only [step]
  rw [headChanged_insts]

/-- **appending a fresh record + `addInst` on the index IS `createInst`** -/
theorem absVM_append (hν : Function.Injective ν) (vmB vm' : VM) (hw : WF vmB) (uid : FUid) (x : InstX) (headUid : HUid)
    (nm0 : Option String) (hfresh : OMap.lookup uid vmB.r.fx = none)
    (hg : (Op.addInst uid headUid nm0).guard vmB.ixs.ix = true)
    (hx : x.parentUid = none ∧ x.childFlowUids = [] ∧ x.activated = 0 ∧ x.newInstanceStarted = false ∧ x.actionUids = [] ∧
      x.scopes = [] ∧ x.flowId ≠ "main")
    (hixs : vm'.ixs = vmB.ixs.apply (.addInst uid headUid nm0) hg) (hfx : vm'.r.fx = vmB.r.fx ++ [(uid, x)])
    (hact : vm'.r.actions = vmB.r.actions) :
    absVM ν φ vm' = createInst (absVM ν φ vmB) (ν uid) (φ x.flowId) ∧ WF vm' := by
  have hnk : uid ∉ vmB.r.fx.map (·.1) := not_mem_of_lookup_none uid _ hfresh
  have hni : uid ∉ vmB.ixs.ix.insts.map (·.uid) := by rw [hw.i.1]; exact hnk
  have hinsts : vm'.ixs.ix.insts = vmB.ixs.ix.insts ++ [{ uid := uid, status := .waiting, heads := [newHead headUid nm0] }] := by
    rw [hixs]; exact addInst_insts _ _ _ _
  have hfi_new : findInst vm'.ixs.ix uid = some { uid := uid, status := .waiting, heads := [newHead headUid nm0] } := by
    unfold findInst; rw [hinsts]
    exact find?_append_new _ { uid := uid, status := .waiting, heads := [newHead headUid nm0] } hni
  have hfi_old : ∀ u, u ≠ uid → findInst vm'.ixs.ix u = findInst vmB.ixs.ix u := by
    intro u hu
    unfold findInst; rw [hinsts]
    exact find?_append_ne _ _ u (fun e => hu e.symm)
  have habsF : ∀ u y, u ≠ uid → absFlow ν φ vm' u y = absFlow ν φ vmB u y := by
    intro u y hu
    simp only [absFlow, hfi_old u hu]
  obtain ⟨h1, h2, h3, h4, h5, h6, h7⟩ := hx
  refine ⟨?_, ?_⟩
  · apply state_ext
    · funext n
      show (absVM ν φ vm').flows n = (setFlow (absVM ν φ vmB) (ν uid) (freshFlow (φ x.flowId))).flows n
      rw [setFlow_flows]
      by_cases hn : n = ν uid
      · subst hn
        simp only [if_true]
        rw [absVM_flows ν φ hν, hfx, lookup_append_new uid x _ hfresh]
        simp only [Option.map_some, Option.some.injEq]
        have hm : (x.flowId == "main") = false := by simpa using h7
        simp only [absFlow, hfi_new, freshFlow, h1, h2, h3, h4, h5, h6, hm, absStatus, Option.map_none, List.map_nil,
          List.length_singleton]
        rfl
      · simp only [hn, if_false]
        simp only [absVM, hfx, List.find?_append]
        cases hfo : vmB.r.fx.find? (fun e => ν e.1 = n) with
        | some e =>
          simp only [Option.map_some, Option.some_or]
          have : e.1 ≠ uid := by
            intro e'
            have := List.find?_some hfo
            simp only [decide_eq_true_eq] at this
            exact hn (by rw [← this, e'])
          rw [habsF e.1 e.2 this]
        | none =>
          have : ¬ ν uid = n := fun e => hn e.symm
          simp [List.find?, this]
    · simp only [absVM, hact]; rfl
    · simp only [absVM, hfx, List.map_append, List.map_cons, List.map_nil]; rfl
    all_goals rfl
  · refine ⟨?_, ?_, ?_, ?_⟩
    · intro k a hk; rw [hact] at hk; exact hw.a k a hk
    · unfold WFI
      rw [hinsts, hfx]
      simp only [List.map_append, List.map_cons, List.map_nil]
      refine ⟨by rw [hw.i.1], ?_⟩
      rw [List.nodup_append]
      refine ⟨hw.i.2, by simp, ?_⟩
      intro a ha b hb
      simp only [List.mem_singleton] at hb
      subst hb
      intro e; subst e; exact hni ha
    · intro k a hk; rw [hact] at hk; exact hw.g k a hk
    · intro k y hk
      rw [hfx] at hk
      by_cases hku : k = uid
      · subst hku
        rw [lookup_append_new k x _ hfresh] at hk
        cases hk; rw [h3]; exact Int.le_refl 0
      · rw [lookup_append_ne k uid x hku] at hk
        exact hw.n k y hk


/-- hypothesis on `create_flow_instance`'s parameter evaluation (default-value expressions are evaluated): it leaves index,
    instance table and action table alone (true when the flow has neither parameters nor return members: `argsFrame_of_empty`) -/
def ArgsFrame (cfg : FlowCfg) (evArgs : List (String × Val)) : Prop :=
  ∀ vm r vm', instanceArguments cfg evArgs vm = .ok r vm' → vm'.ixs = vm.ixs ∧ vm'.r.fx = vm.r.fx ∧ vm'.r.actions = vm.r.actions

theorem freshUid_run (vm : VM) : ∃ u, freshUid vm = .ok u (vmFresh vm) := ⟨_, rfl⟩

theorem vmAddRest_is_create (hν : Function.Injective ν) (uid : FUid) (cfg : FlowCfg) (hp : String) (args : List (String × Val))
    (loopId : Option String) (vm vm' : VM) (hw : WF vm) (hctx : lookupArg "context" args = none) (hargs : ArgsFrame cfg args)
    (hmain : cfg.id ≠ "main") (hrun : vmAddRest uid cfg hp args loopId vm = .ok () vm') :
    OMap.lookup uid vm.r.fx = none ∧ absVM ν φ vm' = createInst (absVM ν φ vm) (ν uid) (φ cfg.id) ∧ WF vm' := by
  unfold vmAddRest at hrun
  simp only [bind, EStateM.bind, hctx] at hrun
  obtain ⟨hu, hfr⟩ := freshUid_run vm
  rw [hfr] at hrun
  simp only [pure, EStateM.pure] at hrun
  cases hia : instanceArguments cfg args (vmFresh vm) with
  | error e s => rw [hia] at hrun; cases hrun
  | ok ac vmA =>
    rw [hia] at hrun
    obtain ⟨e1, e2, e3⟩ := hargs _ _ _ hia
    have hgr : getRest vmA = .ok vmA.r vmA := rfl
    simp only [hgr] at hrun
    simp only [EStateM.bind, getInstX?_run] at hrun
    have wA : WF vmA := hw.of_same e1 e2 e3
    have absA : absVM ν φ vmA = absVM ν φ vm := absVM_of_same ν φ vm vmA (fun u => by rw [e1]; rfl) e2 e3
    cases hx : OMap.lookup uid vmA.r.fx with
    | some x0 => rw [hx] at hrun; simp only [Option.isSome_some, if_true] at hrun; cases hrun
    | none =>
      rw [hx] at hrun
      simp only [Option.isSome_none, Bool.false_eq_true, if_false, modifyRest, modify, modifyGet, MonadStateOf.modifyGet,
        EStateM.modifyGet] at hrun
      have hx' : OMap.lookup uid vm.r.fx = none := by
        have : vmA.r.fx = vm.r.fx := e2
        rw [← this]; exact hx
      refine ⟨hx', ?_⟩
      rw [← absA]
      -- whatever the name oracle of element 0 is, the run ends with `addInst` on the extended state
      suffices H : ∀ (nm0 : Option String) (x : InstX) (vmC : VM), CoreVM.applyOp (.addInst uid hu nm0) vmC = .ok () vm' →
          vmC.ixs = vmA.ixs → vmC.r.fx = vmA.r.fx ++ [(uid, x)] →
          vmC.r.actions = vmA.r.actions → x.flowId = cfg.id →
          (x.parentUid = none ∧ x.childFlowUids = [] ∧ x.activated = 0 ∧ x.newInstanceStarted = false ∧ x.actionUids = [] ∧
            x.scopes = [] ∧ x.flowId ≠ "main") →
          absVM ν φ vm' = createInst (absVM ν φ vmA) (ν uid) (φ cfg.id) ∧ WF vm' by
        obtain ⟨x, hxd⟩ : ∃ x : InstX, x = { flowId := cfg.id, loopId := loopId, hierPos := hp, context := ac.snd, arguments := ac.fst, statusUpdated := vmA.r.clock } := ⟨_, rfl⟩
        split at hrun
        · split at hrun
          · exact H _ x _ hrun rfl (by subst hxd; rfl) rfl (by subst hxd; rfl) (by subst hxd; exact ⟨rfl, rfl, rfl, rfl, rfl, rfl, hmain⟩)
          · cases hrun
        · exact H _ x _ hrun rfl (by subst hxd; rfl) rfl (by subst hxd; rfl) (by subst hxd; exact ⟨rfl, rfl, rfl, rfl, rfl, rfl, hmain⟩)
      intro nm0 x vmC hap c1 c2 c3 hfid hxp
      by_cases hg : (Op.addInst uid hu nm0).guard vmC.ixs.ix = true
      · rw [applyOp_run _ vmC hg] at hap
        cases hap
        have hg' : (Op.addInst uid hu nm0).guard vmA.ixs.ix = true := by rw [← c1]; exact hg
        have := absVM_append ν φ hν vmA { vmC with ixs := vmC.ixs.apply (.addInst uid hu nm0) hg } wA uid x hu nm0 hx hg'
          hxp (by show vmC.ixs.apply _ hg = vmA.ixs.apply _ hg'; congr 1 <;> simp [c1]) c2 c3
        rw [hfid] at this
        exact this
      · unfold CoreVM.applyOp at hap
        simp only [hg, dite_false] at hap
        cases hap


/-- **`add_new_flow_instance` IS `createInst`**: a normally terminating `CoreVM.addNewFlowInstance` from a well-formed state (flow
    not started with a shared context; parameter evaluation is a frame; not the main flow) creates, on the abstraction, exactly one
    fresh WAITING record (no parent, no children, one head, `activated = 0`) at a uid that was not in use, appended to the order -/
theorem corevm_addNewFlowInstance_is_create (hν : Function.Injective ν) (uid : FUid) (cfg : FlowCfg) (hp : String)
    (args : List (String × Val)) (vm vm' : VM) (hw : WF vm) (hctx : lookupArg "context" args = none) (hargs : ArgsFrame cfg args)
    (hmain : cfg.id ≠ "main") (hrun : addNewFlowInstance uid cfg hp args vm = .ok () vm') :
    (absVM ν φ vm).flows (ν uid) = none ∧ absVM ν φ vm' = createInst (absVM ν φ vm) (ν uid) (φ cfg.id) ∧ WF vm' := by
  rw [addNew_unfold] at hrun
  have key : ∀ (loopId : Option String) (vmS : VM), WF vmS → absVM ν φ vmS = absVM ν φ vm → vmS.r.fx = vm.r.fx →
      vmAddRest uid cfg hp args loopId vmS = .ok () vm' →
      (absVM ν φ vm).flows (ν uid) = none ∧ absVM ν φ vm' = createInst (absVM ν φ vm) (ν uid) (φ cfg.id) ∧ WF vm' := by
    intro loopId vmS wS aS fS hr
    obtain ⟨h1, h2, h3⟩ := vmAddRest_is_create ν φ hν uid cfg hp args loopId vmS vm' wS hctx hargs hmain hr
    refine ⟨?_, by rw [h2, aS], h3⟩
    rw [absVM_flows ν φ hν, ← fS, h1]; rfl
  cases hl : cfg.loopId with
  | none =>
    rw [hl] at hrun
    exact key _ vm hw rfl rfl hrun
  | some l =>
    rw [hl] at hrun
    by_cases hn : l = "NEW"
    · subst hn
      simp only [EStateM.bind] at hrun
      obtain ⟨u, hu⟩ := freshUid_run vm
      rw [hu] at hrun
      exact key _ (vmFresh vm) (hw.of_same rfl rfl rfl) (absVM_of_same ν φ vm (vmFresh vm) (fun _ => rfl) rfl rfl) rfl hrun
    · simp only at hrun
      exact key _ vm hw rfl rfl hrun

/-- `ArgsFrame` holds for a flow without parameters and return members (nothing is evaluated) -/
theorem argsFrame_of_empty (cfg : FlowCfg) (evArgs : List (String × Val)) (hp : cfg.params = []) (hr : cfg.returnMembers = []) :
    ArgsFrame cfg evArgs := by
  intro vm r vm' h
  unfold instanceArguments at h
  simp only [hp, hr, List.forIn_nil, bind, EStateM.bind, pure, EStateM.pure] at h
  cases h
  exact ⟨rfl, rfl, rfl⟩

/-! ### `createInst` keeps the hierarchy invariants (the new instance is isolated) -/

theorem createInst_flows (s : State) (c fid : Nat) (v : Nat) :
    (createInst s c fid).flows v = if v = c then some (freshFlow fid) else s.flows v := by
  show (setFlow s c (freshFlow fid)).flows v = _
  rw [setFlow_flows]

theorem createInst_flowInv (s : State) (c fid : Nat) (hi : FlowInv s) (hc : s.flows c = none) (hu : unlisted s c = true) :
    FlowInv (createInst s c fid) := by
  -- nobody lists `c`
  have hul : ∀ p pf, s.flows p = some pf → c ∉ pf.children := by
    intro p pf hp hmem
    have hdom := hi.dom p pf hp
    simp only [unlisted, List.all_eq_true] at hu
    have := hu p hdom
    rw [hp] at this
    simp only [Bool.not_eq_true', List.contains_eq_mem, decide_eq_false_iff_not] at this
    exact this hmem
  have back : ∀ v f, (createInst s c fid).flows v = some f → (v = c ∧ f = freshFlow fid) ∨ (v ≠ c ∧ s.flows v = some f) := by
    intro v f hv
    rw [createInst_flows] at hv
    split at hv
    · next e => cases hv; exact Or.inl ⟨e, rfl⟩
    · next e => exact Or.inr ⟨e, hv⟩
  refine ⟨?_, ?_, ?_, ?_, ?_⟩
  · intro p pf c' cf hp hc' hcf hE ha hl
    rcases back p pf hp with ⟨_, e⟩ | ⟨_, hp0⟩
    · subst e; simp [freshFlow] at hc'
    · rcases back c' cf hcf with ⟨e1, _⟩ | ⟨_, hc0⟩
      · subst e1; exact absurd hc' (hul p pf hp0)
      · exact hi.dc p pf c' cf hp0 hc' hc0 hE ha hl
  · intro p pf c' cf hp hc' hcf hid
    rcases back p pf hp with ⟨_, e⟩ | ⟨_, hp0⟩
    · subst e; simp [freshFlow] at hc'
    · rcases back c' cf hcf with ⟨e1, _⟩ | ⟨_, hc0⟩
      · subst e1; exact absurd hc' (hul p pf hp0)
      · exact hi.sfc p pf c' cf hp0 hc' hc0 hid
  · intro p pf c' cf hp hc' hcf
    rcases back p pf hp with ⟨_, e⟩ | ⟨_, hp0⟩
    · subst e; simp [freshFlow] at hc'
    · rcases back c' cf hcf with ⟨e1, _⟩ | ⟨_, hc0⟩
      · subst e1; exact absurd hc' (hul p pf hp0)
      · exact hi.noMainChild p pf c' cf hp0 hc' hc0
  · intro v f hv hm
    rcases back v f hv with ⟨_, e⟩ | ⟨_, hv0⟩
    · subst e; rfl
    · exact hi.mainRoot v f hv0 hm
  · intro v f hv
    show v ∈ s.order ++ [c]
    rcases back v f hv with ⟨e, _⟩ | ⟨_, hv0⟩
    · subst e; simp
    · exact List.mem_append_left _ (hi.dom v f hv0)

theorem createInst_linkInv (s : State) (c fid : Nat) (hi : LinkInv s) (hc : s.flows c = none) : LinkInv (createInst s c fid) := by
  have back : ∀ v f, (createInst s c fid).flows v = some f → (v = c ∧ f = freshFlow fid) ∨ (v ≠ c ∧ s.flows v = some f) := by
    intro v f hv
    rw [createInst_flows] at hv
    split at hv
    · next e => cases hv; exact Or.inl ⟨e, rfl⟩
    · next e => exact Or.inr ⟨e, hv⟩
  refine ⟨?_, ?_, ?_⟩
  · intro c' cf p pf hc' hl hp hpf
    rcases back c' cf hc' with ⟨_, e⟩ | ⟨_, hc0⟩
    · subst e; simp [freshFlow] at hp
    · rcases back p pf hpf with ⟨e1, _⟩ | ⟨_, hp0⟩
      · subst e1
        obtain ⟨pf0, hpf0⟩ := hi.parentLive c' cf p hc0 hp
        rw [hc] at hpf0; cases hpf0
      · exact hi.linked c' cf p pf hc0 hl hp hp0
  · intro c' cf p hc' hp
    rcases back c' cf hc' with ⟨_, e⟩ | ⟨_, hc0⟩
    · subst e; simp [freshFlow] at hp
    · obtain ⟨pf0, hpf0⟩ := hi.parentLive c' cf p hc0 hp
      refine ⟨pf0, ?_⟩
      rw [createInst_flows]
      have : p ≠ c := fun e => by subst e; rw [hc] at hpf0; cases hpf0
      simp only [this, if_false]; exact hpf0
  · intro v f hv hm
    rcases back v f hv with ⟨_, e⟩ | ⟨_, hv0⟩
    · subst e; rfl
    · exact hi.mainRoot v f hv0 hm


/-! ### `_start_flow`: the link of a created instance to its parent, on the abstract state.
  Only the Lifetime side is done (`linkInst`, its invariants, and `linkInst_eq_mods`: the four record updates of `_start_flow` in code
  order ARE `linkInst`); the CoreVM side (`CoreVM.startFlow` = those four updates on `absVM`) is NOT proved. -/

/-- `flow_state.parent_uid = p; parent.child_flow_uids.append(c); flow_state.activated = k` -/
def linkInst (s : State) (c p k : Nat) : State :=
  match s.flows c, s.flows p with
  | some cf, some pf =>
    setFlow (setFlow s c { cf with parent := some p, activated := k }) p { pf with children := pf.children ++ [c] }
  | _, _ => s

theorem linkInst_recs (t : State) (c p k : Nat) (cf pf : Flow) (hc : t.flows c = some cf) (hp : t.flows p = some pf) (hcp : c ≠ p) :
    ∀ v g, (linkInst t c p k).flows v = some g →
      (v = c ∧ g = { cf with parent := some p, activated := k }) ∨
      (v ≠ c ∧ ∃ g0, t.flows v = some g0 ∧ g0.flowId = g.flowId ∧ g0.parent = g.parent ∧ g0.isMain = g.isMain ∧
        g0.status = g.status ∧ g0.activated = g.activated ∧ (∀ x, x ∈ g0.children → x ∈ g.children) ∧
        (∀ x, x ∈ g.children → x ∈ g0.children ∨ (v = p ∧ x = c))) := by
  have hpc : p ≠ c := fun e => hcp e.symm
  intro v g hv
  simp only [linkInst, hc, hp] at hv
  rw [setFlow_flows] at hv
  split at hv
  · next e =>
    subst e; cases hv
    refine Or.inr ⟨hpc, pf, hp, rfl, rfl, rfl, rfl, rfl, fun x hx => List.mem_append_left _ hx, ?_⟩
    intro x hx
    rcases List.mem_append.1 hx with h | h
    · exact Or.inl h
    · simp at h; exact Or.inr ⟨rfl, h⟩
  · rw [setFlow_flows] at hv
    split at hv
    · next e => subst e; cases hv; exact Or.inl ⟨rfl, rfl⟩
    · next e => exact Or.inr ⟨e, g, hv, rfl, rfl, rfl, rfl, rfl, fun x hx => hx, fun x hx => Or.inl hx⟩

theorem linkInst_flowInv (t : State) (c p k : Nat) (cf pf : Flow) (hi : FlowInv t) (hc : t.flows c = some cf)
    (hp : t.flows p = some pf) (hch : cf.children = []) (hm : cf.isMain = false) (hun : unlisted t c = true) (hcp : c ≠ p)
    (hg : pf.status.listening = true ∨ 0 < k) : FlowInv (linkInst t c p k) := by
  have hpc : p ≠ c := fun e => hcp e.symm
  have recs := linkInst_recs t c p k cf pf hc hp hcp
  have only_p : ∀ q qf, (linkInst t c p k).flows q = some qf → c ∈ qf.children → q = p := by
    intro q qf hq hcq
    rcases recs q qf hq with ⟨_, e⟩ | ⟨_, q0, a1, _, _, _, _, _, _, a7⟩
    · subst e; simp [hch] at hcq
    · rcases a7 c hcq with h | ⟨h, _⟩
      · exact absurd h (unlisted_spec t c hun q q0 (hi.dom q q0 a1) a1)
      · exact h
  refine ⟨?_, ?_, ?_, ?_, ?_⟩
  · intro q qf x xf hq hx hxf he ha hl
    rcases recs x xf hxf with ⟨e1, e2⟩ | ⟨hxc, x0, b1, _, _, _, b5, b6, _, _⟩
    · subst e1
      have := only_p q qf hq hx
      subst this
      rcases recs q qf hq with ⟨e, _⟩ | ⟨_, q0, a1, _, _, _, a5, _, _, _⟩
      · exact absurd e hpc
      · rw [hp] at a1; cases a1
        subst e2
        simp at ha
        rcases hg with h | h
        · left; rw [← a5]; exact h
        · omega
    · rcases recs q qf hq with ⟨_, e⟩ | ⟨_, q0, a1, _, _, _, a5, _, _, a7⟩
      · subst e; simp [hch] at hx
      · rcases a7 x hx with h | ⟨_, h⟩
        · rw [← a5]; exact hi.dc q q0 x x0 a1 h b1 he (by rw [b6]; exact ha) (by rw [b5]; exact hl)
        · exact absurd h hxc
  · intro q qf x xf hq hx hxf hid
    rcases recs x xf hxf with ⟨e1, e2⟩ | ⟨hxc, x0, b1, b2, b3, _, _, _, _, _⟩
    · subst e1
      have := only_p q qf hq hx
      subst this; subst e2; rfl
    · rcases recs q qf hq with ⟨_, e⟩ | ⟨_, q0, a1, a2, _, _, _, _, _, a7⟩
      · subst e; simp [hch] at hx
      · rcases a7 x hx with h | ⟨_, h⟩
        · rw [← b3]; exact hi.sfc q q0 x x0 a1 h b1 (by rw [b2, a2]; exact hid)
        · exact absurd h hxc
  · intro q qf x xf hq hx hxf
    rcases recs x xf hxf with ⟨_, e2⟩ | ⟨hxc, x0, b1, _, _, b4, _, _, _, _⟩
    · subst e2; exact hm
    · rcases recs q qf hq with ⟨_, e⟩ | ⟨_, q0, a1, _, _, _, _, _, _, a7⟩
      · subst e; simp [hch] at hx
      · rcases a7 x hx with h | ⟨_, h⟩
        · rw [← b4]; exact hi.noMainChild q q0 x x0 a1 h b1
        · exact absurd h hxc
  · intro v g hv hmain
    rcases recs v g hv with ⟨_, e⟩ | ⟨_, g0, a1, _, a3, a4, _, _, _, _⟩
    · subst e; simp [hm] at hmain
    · rw [← a3]; exact hi.mainRoot v g0 a1 (by rw [a4]; exact hmain)
  · intro v g hv
    have ho : (linkInst t c p k).order = t.order := by simp only [linkInst, hc, hp]; rfl
    rw [ho]
    rcases recs v g hv with ⟨e, _⟩ | ⟨_, g0, a1, _⟩
    · subst e; exact hi.dom v cf hc
    · exact hi.dom v g0 a1

theorem linkInst_linkInv (t : State) (c p k : Nat) (cf pf : Flow) (hi : LinkInv t) (hc : t.flows c = some cf)
    (hp : t.flows p = some pf) (hch : cf.children = []) (hm : cf.isMain = false) (hcp : c ≠ p) : LinkInv (linkInst t c p k) := by
  have recs := linkInst_recs t c p k cf pf hc hp hcp
  have fwd : ∀ v g0, t.flows v = some g0 → ∃ g, (linkInst t c p k).flows v = some g := by
    intro v g0 hv
    simp only [linkInst, hc, hp, setFlow_flows]
    split
    · exact ⟨_, rfl⟩
    · split
      · exact ⟨_, rfl⟩
      · exact ⟨g0, hv⟩
  refine ⟨?_, ?_, ?_⟩
  · intro c' cf' p' pf' hc' hl hpar hpf'
    rcases recs c' cf' hc' with ⟨e1, e2⟩ | ⟨hne, g0, a1, _, a3, _, a5, _, _, _⟩
    · rw [e2] at hpar
      simp only [Option.some.injEq] at hpar
      have hpf2 : (linkInst t c p k).flows p = some { pf with children := pf.children ++ [c] } := by
        simp only [linkInst, hc, hp, setFlow_flows, if_true]
      rw [← hpar, hpf2] at hpf'
      cases hpf'
      rw [e1]; simp
    · rcases recs p' pf' hpf' with ⟨e1, e2⟩ | ⟨_, q0, b1, _, _, _, _, _, b6, _⟩
      · subst e1
        -- `c'` would have been a child of the isolated `c`
        have := hi.linked c' g0 p' cf a1 (by rw [a5]; exact hl) (by rw [a3]; exact hpar) hc
        rw [hch] at this; cases this
      · exact b6 c' (hi.linked c' g0 p' q0 a1 (by rw [a5]; exact hl) (by rw [a3]; exact hpar) b1)
  · intro c' cf' p' hc' hpar
    rcases recs c' cf' hc' with ⟨e1, e2⟩ | ⟨hne, g0, a1, _, a3, _, _, _, _, _⟩
    · rw [e2] at hpar
      simp only [Option.some.injEq] at hpar
      rw [← hpar]
      exact fwd _ pf hp
    · obtain ⟨q0, hq0⟩ := hi.parentLive c' g0 p' a1 (by rw [a3]; exact hpar)
      exact fwd p' q0 hq0
  · intro v g hv hmain
    rcases recs v g hv with ⟨_, e⟩ | ⟨_, g0, a1, _, a3, a4, _, _, _, _⟩
    · subst e; simp [hm] at hmain
    · rw [← a3]; exact hi.mainRoot v g0 a1 (by rw [a4]; exact hmain)


theorem modFlow_flows (s : State) (u : Nat) (g : Flow → Flow) (v : Nat) :
    (modFlow s u g).flows v = if v = u then (s.flows u).map g else s.flows v := by
  unfold modFlow
  cases h : s.flows u with
  | none =>
    simp only [Option.map_none]
    split
    · next e => rw [e]; exact h
    · rfl
  | some f => simp only [setFlow_flows, Option.map_some]

theorem modFlow_rest (s : State) (u : Nat) (g : Flow → Flow) :
    (modFlow s u g).actions = s.actions ∧ (modFlow s u g).order = s.order ∧ (modFlow s u g).queue = s.queue ∧
      (modFlow s u g).out = s.out ∧ (modFlow s u g).busy = s.busy := by
  unfold modFlow; split <;> exact ⟨rfl, rfl, rfl, rfl, rfl⟩

/-- the four record updates of `_start_flow`, in the order of the code, ARE `linkInst` -/
theorem linkInst_eq_mods (s : State) (c p k : Nat) (cf pf : Flow) (hc : s.flows c = some cf) (hp : s.flows p = some pf) (hcp : c ≠ p) :
    modFlow (modFlow (modFlow (modFlow s c fun f => { f with parent := some p }) p fun f => { f with children := f.children ++ [c] })
      c fun f => f) c (fun f => { f with activated := k }) = linkInst s c p k := by
  have hpc : p ≠ c := fun e => hcp e.symm
  apply state_ext
  · funext v
    simp only [modFlow_flows, linkInst, hc, hp, setFlow_flows]
    by_cases hv : v = c
    · subst hv
      simp only [if_true, hcp, if_false, hc, Option.map_some]
    · by_cases hv2 : v = p
      · subst hv2
        simp only [hv, if_false, if_true, hpc, hp, Option.map_some]
      · simp only [hv, hv2, if_false]
  all_goals simp only [linkInst, hc, hp, (modFlow_rest _ _ _).1, (modFlow_rest _ _ _).2.1, (modFlow_rest _ _ _).2.2.1,
      (modFlow_rest _ _ _).2.2.2.1, (modFlow_rest _ _ _).2.2.2.2] <;> rfl


end NemoVerif.Lifetime.Refine
