/-
  C07 (T2') — symbolic execution of CoreVM's `slide` (Models/CoreVM/Interp.lean, the whole-interpreter model; import-only)
  over the CLAUSE SEGMENT of an expanded group:

      … match <atom> ; goto end ; …      label end ; WaitForHeads n ; MergeHeads u ; …

  A member head that has been advanced past its `match` element sits on `goto end`.  `slide` takes it over
  `goto → (label end + 1 =) WaitForHeads n`, where it PARKS when fewer than `n` non-inactive heads of the flow are on the
  wait element (itself included), and otherwise passes on to `MergeHeads`, where an ACTIVE head becomes MERGING and stops.
  This is exactly the macro-step `GroupVM.p1Members` takes (`countWait … + 1 ≥ need`).

  The lemmas are parametric: nothing is assumed about the program except the elements at the positions involved, so they
  apply to every and-clause of every expanded `match` / `await` / `when` group, for every `n`.

  One-step lemmas (`slideStep_*`) are stated as: under explicit hypotheses about the state (`HeadAt`), `slideStep` returns
  `ok` with a result state given in closed form (`s.ixs.apply (.setPos …)`: the index component changes by ONE guarded
  operation, `Rest` is untouched).  `HeadAt` is re-established for the result state (`headAt_setPos`, `headAt_setStatus`), so the
  steps compose (`clause_segment_parks`, `clause_segment_passes`).
-/
import NemoVerif.Models.CoreVM
import NemoVerif.Lemmas.CoreIndex
set_option linter.unusedSimpArgs false
namespace NemoVerif.CoreVM
open NemoVerif NemoVerif.CoreIndex

/-- the flow instance `f` as the lemmas see it: its index entry, its non-index part and its flow configuration -/
structure FlowAt (s : VM) (f : FUid) (i : Inst) (x : InstX) (cfg : FlowCfg) : Prop where
  hi : findInst s.ixs.ix f = some i
  hx : OMap.lookup f s.r.fx = some x
  hc : s.r.prog.find x.flowId = some cfg

/-- … and one of its heads, inside the program and not INACTIVE -/
structure HeadAt (s : VM) (f : FUid) (h : HUid) (i : Inst) (x : InstX) (cfg : FlowCfg) (hd : Head) : Prop
    extends FlowAt s f i x cfg where
  hh : i.findHead h = some hd
  hlt : hd.pos < cfg.elements.size
  hst : hd.status ≠ .inactive

/-- the element at `p` is not a `match` (so `_flow_head_changed` registers nothing for a head moved there) -/
def NotMatchAt (cfg : FlowCfg) (p : Nat) : Prop := ∀ spec b, elemAt cfg p ≠ some (.matchOp spec b)

theorem notMatchAt_of (cfg : FlowCfg) (p : Nat) (e : Prim) (hp : p < cfg.elements.size) (he : cfg.elements[p]! = e)
    (hne : e.isMatch = false) : NotMatchAt cfg p := by
  intro spec b hcon
  have : cfg.elements[p]? = some e := by
    rw [← he]; simp [getElem!_pos, hp]
  simp only [elemAt] at hcon
  rw [this] at hcon
  cases hcon
  simp [Prim.isMatch] at hne

/-! ### the two index-aware writes -/

theorem nameFor_none (s : VM) (f : FUid) (i : Inst) (x : InstX) (cfg : FlowCfg) (p : Nat) (st : HeadStatus)
    (F : FlowAt s f i x cfg) (hnm : NotMatchAt cfg p) : nameFor f p st s = .ok none s := by
  unfold nameFor
  simp only [bind, EStateM.bind, getInst, getInst?, getIx, get, getThe, MonadStateOf.get, EStateM.get, pure, EStateM.pure,
    cfgOfInst, getInstX, getInstX?, getRest, getCfg, F.hi]
  split
  · rfl
  · simp only [bind, EStateM.bind, getInst, getInst?, getIx, get, getThe, MonadStateOf.get, EStateM.get, pure, EStateM.pure,
      cfgOfInst, getInstX, getInstX?, getRest, getCfg, F.hi, F.hx, F.hc]
    cases hE : elemAt cfg p with
    | none => rfl
    | some el => cases el <;> first | rfl | exact absurd hE (hnm _ _)

/-- `head.position = p` on a head that is somewhere else, `p` not a match element: ONE guarded `setPos` operation -/
theorem setHeadPos_ok (s : VM) (f : FUid) (h : HUid) (i : Inst) (x : InstX) (cfg : FlowCfg) (hd : Head) (p : Nat)
    (F : FlowAt s f i x cfg) (hh : i.findHead h = some hd) (hne : hd.pos ≠ p) (hnm : NotMatchAt cfg p) :
    ∃ hg, setHeadPos (f, h) p s = .ok () { s with ixs := s.ixs.apply (.setPos f h p none) hg } := by
  have hg : (Op.setPos f h p none).guard s.ixs.ix = true := by
    simp [Op.guard, F.hi, hh]
  refine ⟨hg, ?_⟩
  unfold setHeadPos
  simp only [bind, EStateM.bind, getIx, get, getThe, MonadStateOf.get, EStateM.get, pure, EStateM.pure, getHead?,
    F.hi, Option.bind, hh, hne, if_false, attemptPy, tryCatch, tryCatchThe, MonadExceptOf.tryCatch, EStateM.tryCatch,
    nameFor_none s f i x cfg p hd.status F hnm]
  unfold applyOp
  rw [dif_pos hg]

/-- `head.status = st` (a status change at a position that is not a match element): ONE guarded `setStatus` operation -/
theorem setHeadStatus_ok (s : VM) (f : FUid) (h : HUid) (i : Inst) (x : InstX) (cfg : FlowCfg) (hd : Head) (st : HeadStatus)
    (F : FlowAt s f i x cfg) (hh : i.findHead h = some hd) (hne : hd.status ≠ st) (hnm : NotMatchAt cfg hd.pos) :
    ∃ hg, setHeadStatus (f, h) st s = .ok () { s with ixs := s.ixs.apply (.setStatus f h st none) hg } := by
  have hg : (Op.setStatus f h st none).guard s.ixs.ix = true := by
    simp [Op.guard, F.hi, hh]
  refine ⟨hg, ?_⟩
  unfold setHeadStatus
  simp only [bind, EStateM.bind, getIx, get, getThe, MonadStateOf.get, EStateM.get, pure, EStateM.pure, getHead?,
    F.hi, Option.bind, hh, hne, if_false, attemptPy, tryCatch, tryCatchThe, MonadExceptOf.tryCatch, EStateM.tryCatch,
    nameFor_none s f i x cfg hd.pos st F hnm]
  unfold applyOp
  rw [dif_pos hg]

/-! ### what the operation does to the instance -/

theorem findInst_headChanged (s : IState) (k : Key) (fst hst elem) (f : FUid) :
    findInst (headChanged s k fst hst elem) f = findInst s f :=
  findInst_of_insts_eq (insts_headChanged s k fst hst elem) f

theorem findInst_setPos (ix : IState) (f : FUid) (h : HUid) (i : Inst) (hd : Head) (p : Nat) (nm : Option String)
    (hi : findInst ix f = some i) (hh : i.findHead h = some hd) (hne : hd.pos ≠ p) :
    findInst (step ix (.setPos f h p nm)) f = some (i.modifyHead h fun y => { y with pos := p, elem := nm }) := by
  simp only [step, hi, Option.bind, hh, hne, if_false]
  rw [touchHead_found _ hi hh, findInst_headChanged]
  have := findInst_modifyInst ix f f (fun i => i.modifyHead h fun y => { y with pos := p, elem := nm }) (fun _ => rfl)
  rw [this]
  simp [hi]

theorem findInst_setStatus (ix : IState) (f : FUid) (h : HUid) (i : Inst) (hd : Head) (st : HeadStatus) (nm : Option String)
    (hi : findInst ix f = some i) (hh : i.findHead h = some hd) (hne : hd.status ≠ st) :
    findInst (step ix (.setStatus f h st nm)) f = some (i.modifyHead h fun y => { y with status := st, elem := nm }) := by
  simp only [step, hi, Option.bind, hh, hne, if_false]
  rw [touchHead_found _ hi hh, findInst_headChanged]
  have := findInst_modifyInst ix f f (fun i => i.modifyHead h fun y => { y with status := st, elem := nm }) (fun _ => rfl)
  rw [this]
  simp [hi]

/-- the moved head in the new instance -/
theorem findHead_moved (i : Inst) (h : HUid) (hd : Head) (g : Head → Head) (hg : ∀ y, (g y).uid = y.uid)
    (hh : i.findHead h = some hd) : (i.modifyHead h g).findHead h = some (g hd) := by
  rw [findHead_modifyHead _ _ _ _ hg]; simp [hh]

/-- every other head is untouched -/
theorem findHead_other (i : Inst) (h h' : HUid) (g : Head → Head) (hg : ∀ y, (g y).uid = y.uid) (hne : h' ≠ h) :
    (i.modifyHead h g).findHead h' = i.findHead h' := by
  rw [findHead_modifyHead _ _ _ _ hg]; simp [hne]

theorem flowAt_apply (s : VM) (f : FUid) (i i' : Inst) (x : InstX) (cfg : FlowCfg) (op : Op) (hg : op.guard s.ixs.ix = true)
    (F : FlowAt s f i x cfg) (hi' : findInst (step s.ixs.ix op) f = some i') :
    FlowAt { s with ixs := s.ixs.apply op hg } f i' x cfg :=
  { hi := hi', hx := F.hx, hc := F.hc }

/-! ### one iteration of `slide` on the elements of a clause segment -/

theorem evalIn_lit (s : VM) (f : FUid) (i : Inst) (x : InstX) (cfg : FlowCfg) (v : Val)
    (F : FlowAt s f i x cfg) (hown : x.ctxOwner = none) : evalIn f (.lit v) s = .ok v s := by
  unfold evalIn
  simp only [bind, EStateM.bind, getCtx, ctxHolder, getInstX, getInstX?, getRest, get, getThe, MonadStateOf.get, EStateM.get, pure, EStateM.pure,
    F.hx, hown, exprFuel, evalExpr]

theorem slideStep_goto (fuel : Nat) (s : VM) (f : FUid) (h : HUid) (i : Inst) (x : InstX) (cfg : FlowCfg) (hd : Head)
    (l : String) (p : Nat)
    (H : HeadAt s f h i x cfg hd) (hown : x.ctxOwner = none)
    (hel : cfg.elements[hd.pos]! = .goto (.lit (.bool true)) l) (hl : cfg.label l = some p)
    (hne : hd.pos ≠ p + 1) (hnm : NotMatchAt cfg (p + 1)) :
    ∃ hg, slideStep fuel f h s = .ok (false, []) { s with ixs := s.ixs.apply (.setPos f h (p + 1) none) hg } := by
  obtain ⟨hg, hset⟩ := setHeadPos_ok s f h i x cfg hd (p + 1) H.toFlowAt H.hh hne hnm
  refine ⟨hg, ?_⟩
  have hge : decide (hd.pos ≥ cfg.elements.size) = false := by simp; exact H.hlt
  have hin : decide (hd.status = HeadStatus.inactive) = false := by simp [H.hst]
  unfold slideStep
  simp only [bind, EStateM.bind, cfgOfInst, getInstX, getInstX?, getRest, get, getThe, MonadStateOf.get, EStateM.get, pure, EStateM.pure,
    H.hx, getCfg, H.hc, getHead?, getIx, H.hi, Option.bind, H.hh, hge, hin, Bool.or_false, Bool.false_eq_true, if_false, hel,
    evalIn_lit s f i x cfg _ H.toFlowAt hown, truthy, if_true, hl, hset]

/-- the heads of the flow that count at a `WaitForHeads` element at `pos`: not INACTIVE and positioned on it -/
def waitingAt (i : Inst) (pos : Nat) : Nat := (i.heads.filter fun o => o.status ≠ .inactive && o.pos = pos).length

theorem slideStep_wait_parks (fuel : Nat) (s : VM) (f : FUid) (h : HUid) (i : Inst) (x : InstX) (cfg : FlowCfg) (hd : Head) (n : Nat)
    (H : HeadAt s f h i x cfg hd) (hel : cfg.elements[hd.pos]! = .waitHeads n) (hcnt : waitingAt i hd.pos < n) :
    slideStep fuel f h s = .ok (true, []) s := by
  have hge : decide (hd.pos ≥ cfg.elements.size) = false := by simp; exact H.hlt
  have hin : decide (hd.status = HeadStatus.inactive) = false := by simp [H.hst]
  have hc : ¬ (List.filter (fun o => decide (o.status ≠ HeadStatus.inactive) && decide (o.pos = hd.pos)) i.heads).length ≥ n := by
    simp only [waitingAt] at hcnt; omega
  unfold slideStep
  simp only [bind, EStateM.bind, cfgOfInst, getInstX, getInstX?, getRest, get, getThe, MonadStateOf.get, EStateM.get, pure, EStateM.pure,
    H.hx, getCfg, H.hc, getHead?, getIx, H.hi, Option.bind, H.hh, hge, hin, Bool.or_false, Bool.false_eq_true, if_false, hel,
    getInst, getInst?, hc]

theorem slideStep_wait_passes (fuel : Nat) (s : VM) (f : FUid) (h : HUid) (i : Inst) (x : InstX) (cfg : FlowCfg) (hd : Head) (n : Nat)
    (H : HeadAt s f h i x cfg hd) (hel : cfg.elements[hd.pos]! = .waitHeads n) (hcnt : waitingAt i hd.pos ≥ n)
    (hnm : NotMatchAt cfg (hd.pos + 1)) :
    ∃ hg, slideStep fuel f h s = .ok (false, []) { s with ixs := s.ixs.apply (.setPos f h (hd.pos + 1) none) hg } := by
  obtain ⟨hg, hset⟩ := setHeadPos_ok s f h i x cfg hd (hd.pos + 1) H.toFlowAt H.hh (by omega) hnm
  refine ⟨hg, ?_⟩
  have hge : decide (hd.pos ≥ cfg.elements.size) = false := by simp; exact H.hlt
  have hin : decide (hd.status = HeadStatus.inactive) = false := by simp [H.hst]
  have hc : (List.filter (fun o => decide (o.status ≠ HeadStatus.inactive) && decide (o.pos = hd.pos)) i.heads).length ≥ n := by
    simpa only [waitingAt] using hcnt
  unfold slideStep
  simp only [bind, EStateM.bind, cfgOfInst, getInstX, getInstX?, getRest, get, getThe, MonadStateOf.get, EStateM.get, pure, EStateM.pure,
    H.hx, getCfg, H.hc, getHead?, getIx, H.hi, Option.bind, H.hh, hge, hin, Bool.or_false, Bool.false_eq_true, if_false, hel,
    getInst, getInst?, hc, if_true, hset]

theorem slideStep_merge_active (fuel : Nat) (s : VM) (f : FUid) (h : HUid) (i : Inst) (x : InstX) (cfg : FlowCfg) (hd : Head) (u : String)
    (H : HeadAt s f h i x cfg hd) (hel : cfg.elements[hd.pos]! = .merge u) (hact : hd.status = .active) :
    ∃ hg, slideStep fuel f h s = .ok (true, []) { s with ixs := s.ixs.apply (.setStatus f h .merging none) hg } := by
  have hnm : NotMatchAt cfg hd.pos := notMatchAt_of cfg hd.pos _ H.hlt hel rfl
  obtain ⟨hg, hset⟩ := setHeadStatus_ok s f h i x cfg hd .merging H.toFlowAt H.hh (by rw [hact]; decide) hnm
  refine ⟨hg, ?_⟩
  have hge : decide (hd.pos ≥ cfg.elements.size) = false := by simp; exact H.hlt
  have hin : decide (hd.status = HeadStatus.inactive) = false := by simp [H.hst]
  unfold slideStep
  simp only [bind, EStateM.bind, cfgOfInst, getInstX, getInstX?, getRest, get, getThe, MonadStateOf.get, EStateM.get, pure, EStateM.pure,
    H.hx, getCfg, H.hc, getHead?, getIx, H.hi, Option.bind, H.hh, hge, hin, Bool.or_false, Bool.false_eq_true, if_false, hel,
    hact, if_true, hset, show decide (HeadStatus.active = HeadStatus.inactive) = false from by decide, Bool.or_self]

/-! ### `HeadAt` is re-established after the write, so the steps compose -/

theorem headAt_setPos (s : VM) (f : FUid) (h : HUid) (i : Inst) (x : InstX) (cfg : FlowCfg) (hd : Head) (p : Nat)
    (H : HeadAt s f h i x cfg hd) (hne : hd.pos ≠ p) (hp : p < cfg.elements.size)
    (hg : (Op.setPos f h p none).guard s.ixs.ix = true) :
    HeadAt { s with ixs := s.ixs.apply (.setPos f h p none) hg } f h
      (i.modifyHead h fun y => { y with pos := p, elem := none }) x cfg { hd with pos := p, elem := none } :=
  { hi := findInst_setPos s.ixs.ix f h i hd p none H.hi H.hh hne
    hx := H.hx
    hc := H.hc
    hh := findHead_moved i h hd _ (fun _ => rfl) H.hh
    hlt := hp
    hst := H.hst }

theorem headAt_setStatus (s : VM) (f : FUid) (h : HUid) (i : Inst) (x : InstX) (cfg : FlowCfg) (hd : Head) (st : HeadStatus)
    (H : HeadAt s f h i x cfg hd) (hne : hd.status ≠ st) (hst : st ≠ .inactive)
    (hg : (Op.setStatus f h st none).guard s.ixs.ix = true) :
    HeadAt { s with ixs := s.ixs.apply (.setStatus f h st none) hg } f h
      (i.modifyHead h fun y => { y with status := st, elem := none }) x cfg { hd with status := st, elem := none } :=
  { hi := findInst_setStatus s.ixs.ix f h i hd st none H.hi H.hh hne
    hx := H.hx
    hc := H.hc
    hh := findHead_moved i h hd _ (fun _ => rfl) H.hh
    hlt := H.hlt
    hst := hst }

/-! ### the clause segment: `goto end → WaitForHeads n (→ MergeHeads)` -/

/-- **Clause segment, parking.**  A member head on `goto end` (it has just matched its atom) whose arrival brings the
    number of heads on `WaitForHeads n` to LESS than `n`: `slide` moves it onto the wait element and stops — one `setPos`,
    nothing else changes, no new heads. -/
theorem clause_segment_parks (fuel : Nat) (s : VM) (f : FUid) (h : HUid) (i : Inst) (x : InstX) (cfg : FlowCfg) (hd : Head)
    (l : String) (p n : Nat)
    (H : HeadAt s f h i x cfg hd) (hown : x.ctxOwner = none)
    (hgoto : cfg.elements[hd.pos]! = .goto (.lit (.bool true)) l) (hl : cfg.label l = some p)
    (hp : p + 1 < cfg.elements.size) (hw : cfg.elements[p + 1]! = .waitHeads n) (hne : hd.pos ≠ p + 1)
    (hcnt : waitingAt (i.modifyHead h fun y => { y with pos := p + 1, elem := none }) (p + 1) < n) :
    ∃ hg, slide (fuel + 2) f h s = .ok [] { s with ixs := s.ixs.apply (.setPos f h (p + 1) none) hg } := by
  have hnm : NotMatchAt cfg (p + 1) := notMatchAt_of cfg (p + 1) _ hp hw rfl
  obtain ⟨hg, h1⟩ := slideStep_goto (fuel + 1) s f h i x cfg hd l p H hown hgoto hl hne hnm
  refine ⟨hg, ?_⟩
  have H1 := headAt_setPos s f h i x cfg hd (p + 1) H hne hp hg
  have h2 := slideStep_wait_parks fuel _ f h _ x cfg _ n H1 hw hcnt
  simp only [slide, slideLoop, bind, EStateM.bind, h1, h2, Bool.false_eq_true, if_false, if_true, pure, EStateM.pure, List.append_nil]

/-- **Clause segment, passing.**  … whose arrival brings the number of heads on `WaitForHeads n` to AT LEAST `n`: `slide` moves
    it over the wait element onto `MergeHeads`, where the ACTIVE head becomes MERGING and stops — `setPos`, `setPos`,
    `setStatus`, nothing else changes, no new heads.  (The merging loop of `run_to_completion` takes over from here.) -/
theorem clause_segment_passes (fuel : Nat) (s : VM) (f : FUid) (h : HUid) (i : Inst) (x : InstX) (cfg : FlowCfg) (hd : Head)
    (l u : String) (p n : Nat)
    (H : HeadAt s f h i x cfg hd) (hown : x.ctxOwner = none) (hact : hd.status = .active)
    (hgoto : cfg.elements[hd.pos]! = .goto (.lit (.bool true)) l) (hl : cfg.label l = some p)
    (hp : p + 2 < cfg.elements.size) (hw : cfg.elements[p + 1]! = .waitHeads n) (hm : cfg.elements[p + 2]! = .merge u)
    (hne : hd.pos ≠ p + 1)
    (hcnt : waitingAt (i.modifyHead h fun y => { y with pos := p + 1, elem := none }) (p + 1) ≥ n) :
    ∃ hg1 hg2 hg3, slide (fuel + 3) f h s = .ok []
      { s with ixs := IxS.apply (IxS.apply (IxS.apply s.ixs (.setPos f h (p + 1) none) hg1) (.setPos f h (p + 2) none) hg2)
                        (.setStatus f h .merging none) hg3 } := by
  have hnm1 : NotMatchAt cfg (p + 1) := notMatchAt_of cfg (p + 1) _ (by omega) hw rfl
  have hnm2 : NotMatchAt cfg (p + 2) := notMatchAt_of cfg (p + 2) _ hp hm rfl
  obtain ⟨hg1, h1⟩ := slideStep_goto (fuel + 2) s f h i x cfg hd l p H hown hgoto hl hne hnm1
  have H1 := headAt_setPos s f h i x cfg hd (p + 1) H hne (by omega) hg1
  obtain ⟨hg2, h2⟩ := slideStep_wait_passes (fuel + 1) _ f h _ x cfg _ n H1 hw hcnt hnm2
  have H2 := headAt_setPos _ f h _ x cfg _ (p + 2) H1 (by simp) hp hg2
  obtain ⟨hg3, h3⟩ := slideStep_merge_active fuel _ f h _ x cfg _ u H2 hm hact
  refine ⟨hg1, hg2, hg3, ?_⟩
  simp only [slide, slideLoop, bind, EStateM.bind, h1, h2, h3, Bool.false_eq_true, if_false, if_true, pure, EStateM.pure,
    List.append_nil]

/-- `goto end → MergeHeads` (branch of an or-template whose clause is one atom, or a clause that has completed) -/
theorem branch_segment_merges (fuel : Nat) (s : VM) (f : FUid) (h : HUid) (i : Inst) (x : InstX) (cfg : FlowCfg) (hd : Head)
    (l u : String) (p : Nat)
    (H : HeadAt s f h i x cfg hd) (hown : x.ctxOwner = none) (hact : hd.status = .active)
    (hgoto : cfg.elements[hd.pos]! = .goto (.lit (.bool true)) l) (hl : cfg.label l = some p)
    (hp : p + 1 < cfg.elements.size) (hm : cfg.elements[p + 1]! = .merge u) (hne : hd.pos ≠ p + 1) :
    ∃ hg1 hg2, slide (fuel + 2) f h s = .ok []
      { s with ixs := IxS.apply (IxS.apply s.ixs (.setPos f h (p + 1) none) hg1) (.setStatus f h .merging none) hg2 } := by
  have hnm1 : NotMatchAt cfg (p + 1) := notMatchAt_of cfg (p + 1) _ hp hm rfl
  obtain ⟨hg1, h1⟩ := slideStep_goto (fuel + 1) s f h i x cfg hd l p H hown hgoto hl hne hnm1
  have H1 := headAt_setPos s f h i x cfg hd (p + 1) H hne hp hg1
  obtain ⟨hg2, h2⟩ := slideStep_merge_active fuel _ f h _ x cfg _ u H1 hm hact
  refine ⟨hg1, hg2, ?_⟩
  simp only [slide, slideLoop, bind, EStateM.bind, h1, h2, Bool.false_eq_true, if_false, if_true, pure, EStateM.pure, List.append_nil]

/-! ### the heads of an instance as (uid, position, status) -/

abbrev HCore := HUid × Nat × HeadStatus

def hview (i : Inst) : List HCore := i.heads.map fun o => (o.uid, o.pos, o.status)

/-- set position and status of the entry of head `h` -/
def setCore (h : HUid) (p : Nat) (st : HeadStatus) (t : HCore) : HCore := if t.1 = h then (t.1, p, st) else t
def setPosCore (h : HUid) (p : Nat) (t : HCore) : HCore := if t.1 = h then (t.1, p, t.2.2) else t
def setStCore (h : HUid) (st : HeadStatus) (t : HCore) : HCore := if t.1 = h then (t.1, t.2.1, st) else t

theorem hview_setPos (i : Inst) (h : HUid) (p : Nat) (nm : Option String) :
    hview (i.modifyHead h fun y => { y with pos := p, elem := nm }) = (hview i).map (setPosCore h p) := by
  simp only [hview, Inst.modifyHead, List.map_map]
  apply List.map_congr_left
  intro o _
  simp only [Function.comp, setPosCore]
  split <;> rfl

theorem hview_setStatus (i : Inst) (h : HUid) (st : HeadStatus) (nm : Option String) :
    hview (i.modifyHead h fun y => { y with status := st, elem := nm }) = (hview i).map (setStCore h st) := by
  simp only [hview, Inst.modifyHead, List.map_map]
  apply List.map_congr_left
  intro o _
  simp only [Function.comp, setStCore]
  split <;> rfl

theorem waitingAt_hview (i : Inst) (q : Nat) :
    waitingAt i q = ((hview i).filter fun t => t.2.2 ≠ .inactive && t.2.1 = q).length := by
  simp only [waitingAt, hview, List.filter_map, List.length_map]
  rfl


theorem map_setPosCore_of_not_mem (h : HUid) (q : Nat) (l : List HCore) (hn : h ∉ l.map (·.1)) :
    l.map (setPosCore h q) = l := by
  induction l with
  | nil => rfl
  | cons t l ih =>
    have h1 : t.1 ≠ h := fun e => hn (by simp [e])
    have h2 : h ∉ l.map (·.1) := fun e => hn (by simp only [List.map_cons, List.mem_cons]; exact Or.inr e)
    simp only [List.map_cons, ih h2, setPosCore, h1, if_false]

/-- moving a (counted-elsewhere) live head onto `q` raises the number of live heads on `q` by one -/
theorem count_after_move (h : HUid) (q : Nat) : ∀ (l : List HCore), (l.map (·.1)).Nodup →
    ∀ m st, (h, m, st) ∈ l → st ≠ HeadStatus.inactive → m ≠ q →
    ((l.map (setPosCore h q)).filter fun t => t.2.2 ≠ .inactive && t.2.1 = q).length
      = (l.filter fun t => t.2.2 ≠ .inactive && t.2.1 = q).length + 1 := by
  intro l
  induction l with
  | nil => intro _ m st hmem; cases hmem
  | cons t l ih =>
    intro hnd m st hmem hst hmq
    have hnd' : (l.map (·.1)).Nodup := (List.nodup_cons.1 hnd).2
    have hnot : t.1 ∉ l.map (·.1) := (List.nodup_cons.1 hnd).1
    rcases List.mem_cons.1 hmem with heq | hmem'
    · subst heq
      simp only [List.map_cons, map_setPosCore_of_not_mem h q l hnot, setPosCore, if_true]
      rw [List.filter_cons_of_pos (by simp [hst]), List.filter_cons_of_neg (by simp [hmq])]
      simp
    · have hin : h ∈ l.map (·.1) := List.mem_map.2 ⟨_, hmem', rfl⟩
      have h1 : t.1 ≠ h := fun e => hnot (e ▸ hin)
      simp only [List.map_cons, setPosCore, h1, if_false]
      by_cases hc : (t.2.2 ≠ HeadStatus.inactive && t.2.1 = q) = true
      · rw [List.filter_cons_of_pos (by simpa using hc), List.filter_cons_of_pos (by simpa using hc)]
        simp only [List.length_cons]
        have := ih hnd' m st hmem' hst hmq
        omega
      · rw [List.filter_cons_of_neg (by simpa using hc), List.filter_cons_of_neg (by simpa using hc)]
        exact ih hnd' m st hmem' hst hmq

theorem setPosCore_comp (h : HUid) (a b : Nat) (t : HCore) : setPosCore h b (setPosCore h a t) = setPosCore h b t := by
  simp only [setPosCore]; split <;> simp_all

/-- with unique uids, moving head `h` = rewriting its one entry -/
theorem map_setPos_eq_setCore (h : HUid) (q : Nat) (l : List HCore) (hnd : (l.map (·.1)).Nodup) (m : Nat) (st : HeadStatus)
    (hmem : (h, m, st) ∈ l) : l.map (setPosCore h q) = l.map (setCore h q st) := by
  apply List.map_congr_left
  intro t ht
  simp only [setPosCore, setCore]
  split
  · rename_i e
    have := eq_of_mem_of_nodup_map (fun (t : HCore) => t.1) l hnd t ht (h, m, st) hmem e
    rw [this]
  · rfl

theorem map_setSt_setPos_eq_setCore (h : HUid) (q : Nat) (st' : HeadStatus) (l : List HCore) :
    (l.map (setPosCore h q)).map (setStCore h st') = l.map (setCore h q st') := by
  rw [List.map_map]
  apply List.map_congr_left
  intro t _
  simp only [Function.comp, setPosCore, setStCore, setCore]
  split <;> simp_all

theorem mem_hview_of_findHead (i : Inst) (h : HUid) (hd : Head) (hh : i.findHead h = some hd) :
    (h, hd.pos, hd.status) ∈ hview i := by
  have hm : hd ∈ i.heads := List.mem_of_find?_eq_some hh
  have hu := findHead_uid hh
  simp only [hview, List.mem_map]
  exact ⟨hd, hm, by rw [hu]⟩

/-- what `_advance_head_front` does first with an ACTIVE head that matched: `head.position += 1`, then `slide` -/
def advanceMember (fuel : Nat) (f : FUid) (h : HUid) : M (List Key) := do
  match ← getHead? (f, h) with
  | none => pure []
  | some hd =>
    setHeadPos (f, h) (hd.pos + 1)
    slide fuel f h

/-- where the end of an and-clause is: `label l` at `pe`, then `WaitForHeads n`, then `MergeHeads u` -/
structure ClauseShape (cfg : FlowCfg) (l u : String) (pe n : Nat) : Prop where
  hl : cfg.label l = some pe
  hsize : pe + 2 < cfg.elements.size
  hw : cfg.elements[pe + 1]! = .waitHeads n
  hm : cfg.elements[pe + 2]! = .merge u

/-- **One member of an and-clause, at CoreVM level.**  The head `h` is ACTIVE on its `match` element, followed by `goto l`.
    Advancing it (position + 1, `slide`) rewrites exactly its own entry in the list of heads: it parks on `WaitForHeads n`
    (ACTIVE) when the heads parked there, itself included, are fewer than `n`, and otherwise ends MERGING on `MergeHeads`.
    No other head, nothing outside the index component changes, no new head is created. -/
theorem advanceMember_spec (fuel : Nat) (s : VM) (f : FUid) (h : HUid) (i : Inst) (x : InstX) (cfg : FlowCfg) (hd : Head)
    (l u : String) (pe n : Nat)
    (H : HeadAt s f h i x cfg hd) (hown : x.ctxOwner = none) (hact : hd.status = .active)
    (C : ClauseShape cfg l u pe n)
    (hgoto : cfg.elements[hd.pos + 1]! = .goto (.lit (.bool true)) l) (hlt : hd.pos + 1 < pe + 1)
    (hnd : ((hview i).map (·.1)).Nodup) :
    ∃ s' i', advanceMember (fuel + 3) f h s = .ok [] s' ∧ FlowAt s' f i' x cfg ∧ s'.r = s.r ∧
      hview i' = (hview i).map
        (if ((hview i).filter fun t => t.2.2 ≠ .inactive && t.2.1 = pe + 1).length + 1 ≥ n
          then setCore h (pe + 2) .merging else setCore h (pe + 1) .active) ∧ i'.status = i.status := by
  have hsz := C.hsize
  have hnm0 : NotMatchAt cfg (hd.pos + 1) := notMatchAt_of cfg (hd.pos + 1) _ (by omega) hgoto rfl
  obtain ⟨hg0, h0⟩ := setHeadPos_ok s f h i x cfg hd (hd.pos + 1) H.toFlowAt H.hh (by omega) hnm0
  have H0 := headAt_setPos s f h i x cfg hd (hd.pos + 1) H (by omega) (by omega) hg0
  have hmem := mem_hview_of_findHead i h hd H.hh
  -- the number of heads on the wait element once `h` has arrived
  have hcnt : waitingAt ((i.modifyHead h fun y => { y with pos := hd.pos + 1, elem := none }).modifyHead h
        fun y => { y with pos := pe + 1, elem := none }) (pe + 1)
      = ((hview i).filter fun t => t.2.2 ≠ .inactive && t.2.1 = pe + 1).length + 1 := by
    rw [waitingAt_hview, hview_setPos, hview_setPos, List.map_map]
    have : (setPosCore h (pe + 1) ∘ setPosCore h (hd.pos + 1)) = setPosCore h (pe + 1) := by
      funext t; exact setPosCore_comp h _ _ t
    rw [this]
    exact count_after_move h (pe + 1) (hview i) hnd hd.pos hd.status hmem H.hst (by omega)
  have hunf : ∀ (r : EStateM.Result VMErr VM (List Key)),
      slide (fuel + 3) f h { s with ixs := s.ixs.apply (.setPos f h (hd.pos + 1) none) hg0 } = r →
      advanceMember (fuel + 3) f h s = r := by
    intro r hr
    simp only [advanceMember, bind, EStateM.bind, getHead?, getIx, get, getThe, MonadStateOf.get, EStateM.get, pure, EStateM.pure,
      H.hi, Option.bind, H.hh, h0, hr]
  by_cases hc : ((hview i).filter fun t => t.2.2 ≠ .inactive && t.2.1 = pe + 1).length + 1 ≥ n
  · obtain ⟨hg1, hg2, hg3, hsl⟩ := clause_segment_passes fuel _ f h _ x cfg _ l u pe n H0 hown hact hgoto C.hl C.hsize C.hw C.hm
      (by simp; omega) (by rw [hcnt]; exact hc)
    have H1 := headAt_setPos _ f h _ x cfg _ (pe + 1) H0 (by simp; omega) (by omega) hg1
    have H2 := headAt_setPos _ f h _ x cfg _ (pe + 2) H1 (by simp) C.hsize hg2
    have H3 := headAt_setStatus _ f h _ x cfg _ .merging H2 (by simp [hact]) (by decide) hg3
    refine ⟨_, _, hunf _ hsl, H3.toFlowAt, rfl, ?_, rfl⟩
    rw [if_pos hc, hview_setStatus, hview_setPos, hview_setPos, hview_setPos]
    simp only [List.map_map]
    apply List.map_congr_left
    intro t _
    simp only [Function.comp, setPosCore, setStCore, setCore]
    split <;> simp_all
  · obtain ⟨hg1, hsl⟩ := clause_segment_parks (fuel + 1) _ f h _ x cfg _ l pe n H0 hown hgoto C.hl (by omega) C.hw
      (by simp; omega) (by rw [hcnt]; omega)
    have H1 := headAt_setPos _ f h _ x cfg _ (pe + 1) H0 (by simp; omega) (by omega) hg1
    refine ⟨_, _, hunf _ hsl, H1.toFlowAt, rfl, ?_, rfl⟩
    rw [if_neg hc, hview_setPos, hview_setPos]
    simp only [List.map_map]
    apply List.map_congr_left
    intro t ht
    simp only [Function.comp, setPosCore, setCore]
    split
    · rename_i e
      have := eq_of_mem_of_nodup_map (fun (t : HCore) => t.1) (hview i) hnd t ht (h, hd.pos, hd.status) hmem e
      rw [this]; simp [hact]
    · simp_all

end NemoVerif.CoreVM
