/-
  C06 / refinement CoreVM → Lifetime, part 8: `StartFlow` processing in `_process_internal_events_without_default_matchers`,
  the paths that do NOT create an instance: unknown flow, dropped (sender ended / deactivated) and the re-activation of an
  already activated reference instance (`IOp.reactivate` = `Lifetime.processStartFlow`).  Stated on `CoreVM.processInternalEvent`
  itself.  The reference-instance lookup (`_get_reference_activated_flow_instance`, with its parameter comparison) is NOT refined:
  its agreement with `Lifetime.getRefActivated` under the oracle table `pm` is an explicit hypothesis (`RefAgree`) — exactly the part
  that is an oracle in the record/replay tie as well.
-/
import NemoVerif.Lemmas.LifetimeCoreVM7
namespace NemoVerif.Lifetime.Refine
open NemoVerif NemoVerif.CoreVM NemoVerif.CoreIndex NemoVerif.Lifetime

variable (ν φ : String → Nat)

/-- `d[f] = g(d[f])` on the abstraction, given the stored record (no condition on `g` at other records) -/
theorem absVM_vmMod_at (hν : Function.Injective ν) (vm : VM) (hw : WF vm) (f : FUid) (g : InstX → InstX) (x : InstX)
    (hx : OMap.lookup f vm.r.fx = some x) (fl' : Flow) (hfl : absFlow ν φ vm f (g x) = fl') :
    absVM ν φ (vmMod vm f g) = setFlow (absVM ν φ vm) (ν f) fl' := by
  have hkeys : (vm.r.fx.map (·.1)).Nodup := by rw [← hw.i.1]; exact hw.i.2
  have hvm1 : vmMod vm f g = vmMod vm f (fun _ => g x) := by
    unfold vmMod
    rw [modify_const_of_lookup f g x vm.r.fx hkeys hx]
  rw [hvm1, absVM_vmMod ν φ hν vm f (fun _ => g x)
    (fun fl'' => { absFlow ν φ vm f (g x) with status := fl''.status, heads := fl''.heads }) (fun u x' => rfl)]
  unfold modFlow
  rw [absVM_flows ν φ hν, hx]
  simp only [Option.map_some]
  congr 1

theorem argStr_ro (args : List (String × Val)) (k : String) (vm : VM) (v : String) (vm' : VM) (h : argStr args k vm = .ok v vm') : vm' = vm := by
  unfold argStr at h
  cases hl : lookupArg k args with
  | none => rw [hl] at h; cases h
  | some w =>
    rw [hl] at h
    cases w <;> first | (cases h; rfl) | cases h


/-- the second component of every normal result is `[]` -/
def SndNil (m : M (Event × List String)) : Prop := ∀ vm r vm', m vm = .ok r vm' → r.2 = []

theorem sndNil_bind {α : Type} (m : M α) (k : α → M (Event × List String)) (hk : ∀ a, SndNil (k a)) : SndNil (EStateM.bind m k) := by
  intro vm r vm' h
  simp only [EStateM.bind] at h
  cases hm : m vm with
  | error e s => rw [hm] at h; cases h
  | ok a s => rw [hm] at h; exact hk a s r vm' h

theorem sndNil_pure (e : Event) : SndNil (pure (e, [])) := by
  intro vm r vm' h
  cases h; rfl

/-- the event's `activated` argument, as `_process_internal_events_without_default_matchers` reads it -/
def actArg (args : List (String × Val)) : Bool := match lookupArg "activated" args with | some v => truthy v | none => false

/-- agreement of the reference-instance lookup with `Lifetime.getRefActivated` under the oracle table `pm` (NOT refined) -/
def RefAgree (vm : VM) (flowId : String) (args : List (String × Val)) (pm : Nat → Bool) : Prop :=
  ∀ st vm1, referenceActivatedInstance flowId args vm = .ok st vm1 →
    vm1 = vm ∧ getRefActivated (absVM ν φ vm) (φ flowId) pm (absVM ν φ vm).order = st.map ν

theorem getRefActivated_some (s : State) (fid : Nat) (pm : Nat → Bool) (u : Nat) : ∀ (l : List Nat),
    getRefActivated s fid pm l = some u → ∃ f, s.flows u = some f
  | [], h => by cases h
  | v :: l, h => by
    simp only [getRefActivated] at h
    cases hv : s.flows v with
    | none => rw [hv] at h; exact getRefActivated_some s fid pm u l h
    | some f =>
      rw [hv] at h
      simp only at h
      split at h
      · cases h; exact ⟨f, hv⟩
      · exact getRefActivated_some s fid pm u l h

theorem done_abs (st : FlowStatus) : (absStatus st == FStatus.stopped || absStatus st == FStatus.finished) = st.done := by
  cases st <;> rfl

theorem corevm_startflow_nocreate_is_op (hν : Function.Injective ν) (hφ : Function.Injective φ) (fuel : Nat) (event : Event)
    (vm vm' : VM) (flowId src : String) (r : Event × List String) (pm : Nat → Bool)
    (hname : event.ev.name = "StartFlow")
    (hfid : lookupArg "flow_id" event.ev.args = some (.str flowId))
    (hsrc : lookupArg "source_flow_instance_uid" event.ev.args = some (.str src))
    (hknown : ((vm.r.prog.find flowId).isSome && decide (flowId ≠ "main")) = true)
    (hw : WF vm) (href : RefAgree ν φ vm flowId event.ev.args pm)
    (hrun : processInternalEvent fuel event vm = .ok r vm') (hr : r.2 ≠ []) :
    ∃ t res, processStartFlow (absVM ν φ vm) (φ flowId) true (actArg event.ev.args) (OMap.lookup flowId vm.r.idStates).isSome (ν src) pm
        = .ok (t, res) ∧ (∀ c, res ≠ .create c) ∧ absVM ν φ vm' = cs t ∧ WF vm' := by
  unfold processInternalEvent at hrun
  simp only [bind, EStateM.bind, hname] at hrun
  have hgr : getRest vm = .ok vm.r vm := rfl
  have ha1 : argStr event.ev.args "flow_id" vm = .ok flowId vm := by unfold argStr; rw [hfid]; rfl
  have ha2 : ∀ s : VM, argStr event.ev.args "source_flow_instance_uid" s = .ok src s := by intro s; unfold argStr; rw [hsrc]; rfl
  rw [hgr] at hrun
  simp only [ha1, hknown, if_true] at hrun
  have hact : referenceActivatedInstance.match_5 (fun _ => Bool) (lookupArg "activated" event.ev.args) (fun v => truthy v) (fun _ => false)
      = actArg event.ev.args := by
    unfold actArg
    cases lookupArg "activated" event.ev.args <;> rfl
  simp only [hact] at hrun
  generalize actArg event.ev.args = act at hrun ⊢
  generalize (OMap.lookup flowId vm.r.idStates).isSome = hasInst at hrun ⊢
  clear hact
  unfold processStartFlow
  simp only [Bool.not_true, Bool.false_eq_true, if_false]
  -- the create continuations never return a non-empty list of handled loops
  have hcreate : ∀ (args : List (String × Val)) (ev' : Event), SndNil (EStateM.bind (argStr args "flow_instance_uid") fun uid =>
      EStateM.bind (argStr args "flow_hierarchy_position") fun hp =>
        EStateM.bind (getCfg flowId) fun c =>
          EStateM.bind (addNewFlowInstance uid c hp args) fun _ => pure (ev', [])) :=
    fun args ev' => sndNil_bind _ _ fun _ => sndNil_bind _ _ fun _ => sndNil_bind _ _ fun _ => sndNil_bind _ _ fun _ => sndNil_pure _
  -- the tail after the reference-instance lookup, for a given `started`
  by_cases hah : (act && hasInst) = true
  · simp only [hah, if_true] at hrun ⊢
    simp only [EStateM.bind] at hrun
    cases hre : referenceActivatedInstance flowId event.ev.args vm with
    | error e s => rw [hre] at hrun; cases hrun
    | ok st vm1 =>
      obtain ⟨e1, hst⟩ := href st vm1 hre
      subst e1
      rw [hre] at hrun
      simp only [ha2] at hrun
      rw [hst]
      cases hx : OMap.lookup src vm1.r.fx with
      | none => rw [getInstX_run_none src vm1 hx] at hrun; cases hrun
      | some srcX =>
      rw [getInstX_run_some src vm1 srcX hx] at hrun
      simp only at hrun
      cases hfi : findInst vm1.ixs.ix src with
      | none => rw [getInst_run_none src vm1 hfi] at hrun; cases hrun
      | some i =>
      rw [getInst_run_some src vm1 i hfi] at hrun
      simp only at hrun
      rw [absVM_flows ν φ hν, hx]
      simp only [Option.map_some]
      have hic : (φ flowId == (absFlow ν φ vm1 src srcX).flowId) = decide (flowId = srcX.flowId) := by
        simp only [absFlow]
        by_cases he : flowId = srcX.flowId
        · simp [he]
        · have : ¬ φ flowId = φ srcX.flowId := fun e => he (hφ e)
          simp [he, this]
      have hdn : ((absFlow ν φ vm1 src srcX).status == FStatus.stopped || (absFlow ν φ vm1 src srcX).status == FStatus.finished) = i.status.done := by
        have : (absFlow ν φ vm1 src srcX).status = absStatus i.status := by simp only [absFlow, hfi]
        rw [this]; exact done_abs _
      have hz : ((absFlow ν φ vm1 src srcX).activated == 0) = decide (srcX.activated = 0) := by
        have h0 := hw.n src srcX hx
        simp only [absFlow]
        by_cases he : srcX.activated = 0
        · simp [he]
        · have : ¬ srcX.activated.toNat = 0 := by omega
          simp [he, this]
      rw [hic, hdn, hz]
      by_cases hc : (i.status.done && !(decide (flowId = srcX.flowId) && act) || decide (flowId = srcX.flowId) && act && decide (srcX.activated = 0)) = true
      · simp only [hc, if_true] at hrun ⊢
        cases hrun
        exact ⟨_, .ignored, rfl, (fun c h => by cases h), rfl, hw⟩
      · simp only [hc, Bool.false_eq_true, if_false] at hrun ⊢
        cases st with
        | none =>
          simp only [Option.isSome_none, Bool.false_and, Bool.false_eq_true, if_false] at hrun
          exact absurd (hcreate _ _ vm1 r vm' hrun) hr
        | some s =>
          simp only [Option.map_some] at hst ⊢
          simp only at hrun
          by_cases hchild : flowId = srcX.flowId
          · have hd : decide (flowId = srcX.flowId) = true := by simp [hchild]
            simp only [hd, Bool.not_true, Bool.false_eq_true, if_false, Option.isSome_some, Bool.and_self, if_true] at hrun
            exact absurd (hcreate _ _ vm1 r vm' hrun) hr
          · have hd : decide (flowId = srcX.flowId) = false := by simp [hchild]
            simp only [hd, Bool.not_false, if_true] at hrun ⊢
            -- the record of the reference instance
            obtain ⟨rf, hrf⟩ := getRefActivated_some _ _ _ _ _ hst
            rw [hrf]
            simp only
            have hrf' := hrf
            rw [absVM_flows ν φ hν] at hrf'
            cases hxs : OMap.lookup s vm1.r.fx with
            | none => rw [hxs] at hrf'; cases hrf'
            | some xs =>
            rw [hxs] at hrf'
            simp only [Option.map_some, Option.some.injEq] at hrf'
            simp only [EStateM.bind, modInstX_run] at hrun
            obtain ⟨g1, hg1⟩ : ∃ g1 : InstX → InstX, g1 = fun x => { x with activated := x.activated + 1 } := ⟨_, rfl⟩
            obtain ⟨g2, hg2⟩ : ∃ g2 : InstX → InstX, g2 = fun x => { x with childFlowUids := x.childFlowUids ++ [s] } := ⟨_, rfl⟩
            rw [← hg1, ← hg2] at hrun
            have w1 : WF (vmMod vm1 s g1) := hw.vmMod s g1 (fun x hx => by rw [hg1]; show (0 : Int) ≤ x.activated + 1; omega)
            have w2 : WF (vmMod (vmMod vm1 s g1) src g2) := w1.vmMod src g2 (fun x hx => by rw [hg2]; exact hx)
            have habs1 : absVM ν φ (vmMod vm1 s g1) = setFlow (absVM ν φ vm1) (ν s) { rf with activated := rf.activated + 1 } := by
              apply absVM_vmMod_at ν φ hν vm1 hw s g1 xs hxs
              rw [← hrf', hg1]
              have h0 := hw.n s xs hxs
              simp only [absFlow]
              congr 1
              omega
            have habs2 : absVM ν φ (vmMod (vmMod vm1 s g1) src g2) =
                modFlow (absVM ν φ (vmMod vm1 s g1)) (ν src) fun f => { f with children := f.children ++ [ν s] } := by
              rw [hg2]
              exact absVM_vmMod ν φ hν (vmMod vm1 s g1) src _ _ (fun u x => by simp only [absFlow, List.map_append, List.map_cons, List.map_nil])
            cases ho : flowObjOf s (vmMod (vmMod vm1 s g1) src g2) with
            | error e s' => rw [ho] at hrun; cases hrun
            | ok o s' =>
              have hs := readOnly_flowObjOf s _ o s' ho
              subst hs
              rw [ho] at hrun
              simp only at hrun
              cases hfu : lookupArg "flow_instance_uid" event.ev.args with
              | none => rw [hfu] at hrun; cases hrun
              | some v =>
                rw [hfu] at hrun
                simp only [EStateM.bind, pure, EStateM.pure] at hrun
                obtain ⟨vmP, hpush, hP⟩ : ∃ vmP : VM,
                    pushEvent { ev := { kind := .internal, name := "FlowStarted", args := outEventArgs o [("flow_instance_uid", v)] }, scores := event.scores } (vmMod (vmMod vm1 s g1) src g2) = .ok () vmP ∧
                    (vmP.ixs = (vmMod (vmMod vm1 s g1) src g2).ixs ∧ vmP.r.fx = (vmMod (vmMod vm1 s g1) src g2).r.fx ∧
                      vmP.r.actions = (vmMod (vmMod vm1 s g1) src g2).r.actions) := ⟨_, rfl, ⟨rfl, rfl, rfl⟩⟩
                rw [hpush] at hrun
                cases hrun
                refine ⟨_, _, rfl, (fun c h => by cases h), ?_, w2.of_same hP.1 hP.2.1 hP.2.2⟩
                rw [cs_push, ← habs1, ← habs2, cs_absVM]
                exact absVM_of_same ν φ _ vm' (fun u => by rw [hP.1]) hP.2.1 hP.2.2
  · simp only [hah, Bool.false_eq_true, if_false] at hrun ⊢
    simp only [EStateM.bind, ha2] at hrun
    cases hx : OMap.lookup src vm.r.fx with
    | none => rw [getInstX_run_none src vm hx] at hrun; cases hrun
    | some srcX =>
    rw [getInstX_run_some src vm srcX hx] at hrun
    simp only at hrun
    cases hfi : findInst vm.ixs.ix src with
    | none => rw [getInst_run_none src vm hfi] at hrun; cases hrun
    | some i =>
    rw [getInst_run_some src vm i hfi] at hrun
    simp only at hrun
    rw [absVM_flows ν φ hν, hx]
    simp only [Option.map_some]
    have hic : (φ flowId == (absFlow ν φ vm src srcX).flowId) = decide (flowId = srcX.flowId) := by
      simp only [absFlow]
      by_cases he : flowId = srcX.flowId
      · simp [he]
      · have : ¬ φ flowId = φ srcX.flowId := fun e => he (hφ e)
        simp [he, this]
    have hdn : ((absFlow ν φ vm src srcX).status == FStatus.stopped || (absFlow ν φ vm src srcX).status == FStatus.finished) = i.status.done := by
      have : (absFlow ν φ vm src srcX).status = absStatus i.status := by simp only [absFlow, hfi]
      rw [this]; exact done_abs _
    have hz : ((absFlow ν φ vm src srcX).activated == 0) = decide (srcX.activated = 0) := by
      have h0 := hw.n src srcX hx
      simp only [absFlow]
      by_cases he : srcX.activated = 0
      · simp [he]
      · have : ¬ srcX.activated.toNat = 0 := by omega
        simp [he, this]
    rw [hic, hdn, hz]
    by_cases hc : (i.status.done && !(decide (flowId = srcX.flowId) && act) || decide (flowId = srcX.flowId) && act && decide (srcX.activated = 0)) = true
    · simp only [hc, if_true] at hrun ⊢
      cases hrun
      exact ⟨_, .ignored, rfl, (fun c h => by cases h), rfl, hw⟩
    · simp only [hc, Bool.false_eq_true, if_false, Option.isSome_none, Bool.false_and] at hrun
      exact absurd (hcreate _ _ vm r vm' hrun) hr


/-- a `StartFlow` for an unknown flow id (or "main") is ignored, on both sides -/
theorem corevm_startflow_unknown_is_op (fuel : Nat) (event : Event) (vm vm' : VM) (flowId : String) (src : Nat) (r : Event × List String)
    (pm : Nat → Bool) (hname : event.ev.name = "StartFlow")
    (hfid : lookupArg "flow_id" event.ev.args = some (.str flowId))
    (hknown : ((vm.r.prog.find flowId).isSome && decide (flowId ≠ "main")) = false)
    (hrun : processInternalEvent fuel event vm = .ok r vm') :
    vm' = vm ∧ r = (event, []) ∧
      processStartFlow (absVM ν φ vm) (φ flowId) false (actArg event.ev.args) (OMap.lookup flowId vm.r.idStates).isSome src pm
        = .ok (absVM ν φ vm, .ignored) := by
  unfold processInternalEvent at hrun
  simp only [bind, EStateM.bind, hname] at hrun
  have hgr : getRest vm = .ok vm.r vm := rfl
  have ha1 : argStr event.ev.args "flow_id" vm = .ok flowId vm := by unfold argStr; rw [hfid]; rfl
  rw [hgr] at hrun
  simp only [ha1, hknown, Bool.false_eq_true, if_false] at hrun
  cases hrun
  exact ⟨rfl, rfl, rfl⟩


theorem getRefActivated_false (s : State) (fid : Nat) : ∀ (l : List Nat), getRefActivated s fid (fun _ => false) l = none
  | [] => rfl
  | u :: l => by
    simp only [getRefActivated]
    cases s.flows u with
    | none => exact getRefActivated_false s fid l
    | some f => simp only [Bool.and_false, Bool.false_eq_true, if_false]; exact getRefActivated_false s fid l

/-- `RefAgree` holds (with the empty oracle table) when no instance of the flow is registered in `flow_id_states` -/
theorem refAgree_of_no_inst (vm : VM) (flowId : String) (args : List (String × Val))
    (hid : (OMap.lookup flowId vm.r.idStates).getD [] = []) : RefAgree ν φ vm flowId args (fun _ => false) := by
  intro st vm1 h
  unfold referenceActivatedInstance at h
  simp only [bind, EStateM.bind] at h
  have hgr : getRest vm = .ok vm.r vm := rfl
  rw [hgr] at h
  simp only at h
  unfold getCfg at h
  simp only [bind, EStateM.bind, hgr] at h
  cases hp : vm.r.prog.find flowId with
  | none => rw [hp] at h; cases h
  | some c =>
    rw [hp] at h
    simp only [hid, List.forIn_nil, pure, EStateM.pure] at h
    cases h
    exact ⟨rfl, by rw [getRefActivated_false]; rfl⟩

end NemoVerif.Lifetime.Refine
