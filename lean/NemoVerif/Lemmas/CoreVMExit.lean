/-
  C09 / CoreVM — `run_to_completion` = body + exit assertion of the model; the body itself establishes
  "no instance is STOPPING" (given the specification of `_advance_head_front`), so the assertion always passes.
-/
import NemoVerif.Lemmas.CoreVMLoops
import NemoVerif.Lemmas.CoreVMStop
open NemoVerif NemoVerif.CoreIndex
open Std.Do
set_option mvcgen.warning false
namespace NemoVerif.CoreVM


/-- `run_to_completion` without the exit assertion of the model -/
def runBody (fuel : Nat) (ev : Match.Ev) : M Unit := do
  modifyRest fun r => { r with queue := [{ ev := ev }], outgoing := [], cleared := [], caught := [] }
  cleanUpState
  mainLoop fuel []

/-- the exit assertion of the model -/
def exitAssertion : M Unit := do
  let ix ← getIx
  if ix.insts.any (fun i => i.status = .stopping) then throw (.guardFailed "an instance is left STOPPING at the exit of run_to_completion")

theorem runToCompletion_eq (fuel : Nat) (ev : Match.Ev) : runToCompletion fuel ev = (do runBody fuel ev; exitAssertion) := by
  unfold runToCompletion runBody exitAssertion
  simp only [bind_assoc]

section exit
attribute [local spec] forInL_keeps mapM_keeps getRest_keeps getIx_keeps pyRaise_keeps unsupported_keeps freshUid_keeps getInst?_keeps getInst_keeps getInstX?_keeps getInstX_keeps ctxHolder_keeps getCtx_keeps getHead?_keeps getHeadX_keeps getCfg_keeps cfgOfInst_keeps getAction?_keeps
attribute [local spec] applyOp_keeps

/-- any update of `Rest` keeps an invariant of the index component alone -/
theorem modifyRest_stop (A : List FUid) (g : Rest → Rest) : Keeps (stopInv A) (modifyRest g) := by
  unfold modifyRest; mvcgen
theorem modInstX_stop (A : List FUid) (f g) : Keeps (stopInv A) (modInstX f g) := by
  unfold modInstX; exact modifyRest_stop A _

/-- `_clean_up_state` never makes an instance STOPPING -/
theorem cleanUpState_stop (A : List FUid) : Keeps (stopInv A) cleanUpState := by
  have h1 := modifyRest_stop A
  have h2 := modInstX_stop A
  unfold cleanUpState
  simp only [forIn_eq_forInL]
  mvcgen [h1, h2]
  all_goals (first | (intros; exact Or.inl trivial) | skip)


theorem stopSub_nil_iff (ix : IState) : StopSub [] ix.insts ↔ NoStopping ix := by
  constructor
  · intro h i hi hs; exact absurd (h i hi hs) (by simp)
  · intro h i hi hs; exact absurd hs (h i hi)

/-- the body of `run_to_completion` keeps "nobody is STOPPING", given that `_advance_head_front` does -/
theorem runBody_stop (hadv : ∀ fuel heads, KeepsOk (stopInv []) (advanceHeadFront fuel heads)) (fuel : Nat) (ev : Match.Ev) :
    KeepsOk (stopInv []) (runBody fuel ev) := by
  have h1 := modifyRest_stop []
  have h2 := cleanUpState_stop []
  have h3 := mainLoop_keepsOk (stopInv []) (stopInv_hall []) hadv fuel
  unfold runBody
  mvcgen [h1, h2, h3]

/-- in a state without STOPPING instance the exit assertion of the model passes -/
theorem exitAssertion_passes (s : VM) (h : NoStopping s.ixs.ix) : exitAssertion s = .ok () s := by
  unfold exitAssertion
  rw [bind_eval_ok (show getIx s = .ok s.ixs.ix s from rfl)]
  have : (s.ixs.ix.insts.any fun i => decide (i.status = .stopping)) = false := by
    simp only [List.any_eq_false, decide_eq_true_eq]
    intro i hi; exact h i hi
  simp only [this, Bool.false_eq_true, if_false]
  rfl

end exit

/-! ### fuel: `outOfFuel` is never mistaken for an outcome of the interpreter -/


/-- only Python exceptions are caught by the model's `try/except`: running out of fuel, leaving the fragment and a failed
    index guard always propagate (they are never turned into a Python-level outcome) -/
theorem attemptPy_propagates {α} (x : M α) (s s' : VM) (e : VMErr) (hx : x s = .error e s')
    (hne : ∀ c m, e ≠ .py c m) : attemptPy x s = .error e s' := by
  unfold attemptPy
  simp only [tryCatch, tryCatchThe, MonadExceptOf.tryCatch, EStateM.tryCatch, bind, EStateM.bind, hx]
  cases e with
  | py c m => exact absurd rfl (hne c m)
  | outOfFuel => rfl
  | unsupported w => rfl
  | guardFailed o => rfl

theorem attemptPy_outOfFuel {α} (x : M α) (s s' : VM) (hx : x s = .error .outOfFuel s') :
    attemptPy x s = .error .outOfFuel s' :=
  attemptPy_propagates x s s' _ hx (fun _ _ h => by cases h)

/-- and a normal return of `attemptPy` never hides a fuel exhaustion of the attempted computation -/
theorem attemptPy_ok_not_outOfFuel {α} (x : M α) (s s' s'' : VM) (r : Except (String × String) α)
    (h : attemptPy x s = .ok r s') : x s ≠ .error .outOfFuel s'' := by
  intro hx
  rw [attemptPy_outOfFuel x s s'' hx] at h
  cases h


end NemoVerif.CoreVM
