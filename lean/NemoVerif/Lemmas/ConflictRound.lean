/-
  Lemmas about `Models/ConflictRound.lean` (the round structure of `run_to_completion`); core Lean only.
-/
import NemoVerif.Models.ConflictRound
namespace NemoVerif.ConflictRound
open List

variable {σ : Type}

theorem mem_addNew {acts hs : List Nat} {u : Nat} : u ∈ addNew acts hs ↔ u ∈ acts ∨ u ∈ hs := by
  unfold addNew
  induction hs generalizing acts with
  | nil => simp
  | cons h t ih =>
    simp only [List.foldl_cons]
    rw [ih]
    by_cases hc : acts.contains h = true
    · simp only [hc, if_true, List.mem_cons]
      have : h ∈ acts := by simpa using hc
      constructor
      · rintro (h1 | h1)
        · exact Or.inl h1
        · exact Or.inr (Or.inr h1)
      · rintro (h1 | h1 | h1)
        · exact Or.inl h1
        · exact Or.inl (h1 ▸ this)
        · exact Or.inr h1
    · simp only [hc, List.mem_cons]
      simp only [Bool.false_eq_true, if_false, List.mem_append, List.mem_singleton]
      constructor
      · rintro ((h1 | h1) | h1)
        · exact Or.inl h1
        · exact Or.inr (Or.inl h1)
        · exact Or.inr (Or.inr h1)
      · rintro (h1 | h1 | h1)
        · exact Or.inl (Or.inl h1)
        · exact Or.inl (Or.inr h1)
        · exact Or.inr h1

/-- the ghost invariant of a phase: every head returned to the loop is still in `actionable_heads` or was handed to a merge
    pass, and `actionable_heads` holds nothing else -/
def Inv (acts em mg : List Nat) : Prop := (∀ u ∈ em, u ∈ acts ∨ u ∈ mg) ∧ (∀ u ∈ acts, u ∈ em)

theorem drain_inv (W : World σ) (mg : List Nat) :
    ∀ (f : Nat) (s : σ) (q : Nat) (acts em : List Nat), Inv acts em mg →
      Inv (drain W f s q acts em).2.1 (drain W f s q acts em).2.2.1 mg := by
  intro f
  induction f with
  | zero =>
    intro s q acts em h
    cases q <;> simpa [drain] using h
  | succ f ih =>
    intro s q acts em h
    cases q with
    | zero => simpa [drain] using h
    | succ q =>
      simp only [drain]
      apply ih
      refine ⟨?_, ?_⟩
      · intro u hu
        rcases List.mem_append.1 hu with h1 | h1
        · rcases h.1 u h1 with h2 | h2
          · exact Or.inl (mem_addNew.2 (Or.inl h2))
          · exact Or.inr h2
        · exact Or.inl (mem_addNew.2 (Or.inr h1))
      · intro u hu
        rcases mem_addNew.1 hu with h1 | h1
        · exact List.mem_append.2 (Or.inl (h.2 u h1))
        · exact List.mem_append.2 (Or.inr h1)

/-- what a completed phase guarantees -/
structure PhaseOk (W : World σ) (p : Phase σ) : Prop where
  inv : Inv p.acts p.emitted p.merged
  /-- the phase ended with a merge pass on NO merging head, entered with an empty queue: the queue it leaves is what that
      call of `_advance_head_front(state, [])` pushed -/
  queue : ∃ s1, p.queue = (W.advMerging s1 []).2.1

theorem mergePhase_ok (W : World σ) :
    ∀ (f : Nat) (s : σ) (q : Nat) (acts em mg : List Nat), Inv acts em mg →
      (mergePhase W f s q acts em mg).ok = true → PhaseOk W (mergePhase W f s q acts em mg) := by
  intro f
  induction f with
  | zero => intro s q acts em mg _ h; simp [mergePhase] at h
  | succ f ih =>
    intro s q acts em mg hinv hok
    have hd := drain_inv W mg f s q acts em hinv
    simp only [mergePhase] at hok ⊢
    generalize drain W f s q acts em = d at hd hok ⊢
    obtain ⟨s1, acts1, em1, ok1⟩ := d
    simp only at hd hok ⊢
    cases ok1 with
    | false => simp at hok
    | true =>
      simp only [Bool.not_true, Bool.false_eq_true, if_false] at hok ⊢
      have hinv2 : Inv (acts1.filter (fun h => !W.isMerging s1 h) ++ (W.advMerging s1 (acts1.filter (W.isMerging s1))).2.2)
          (em1 ++ (W.advMerging s1 (acts1.filter (W.isMerging s1))).2.2) (mg ++ acts1.filter (W.isMerging s1)) := by
        refine ⟨?_, ?_⟩
        · intro u hu
          rcases List.mem_append.1 hu with h1 | h1
          · rcases hd.1 u h1 with h2 | h2
            · by_cases hm : W.isMerging s1 u = true
              · exact Or.inr (List.mem_append.2 (Or.inr (List.mem_filter.2 ⟨h2, hm⟩)))
              · exact Or.inl (List.mem_append.2 (Or.inl (List.mem_filter.2 ⟨h2, by simpa using hm⟩)))
            · exact Or.inr (List.mem_append.2 (Or.inl h2))
          · exact Or.inl (List.mem_append.2 (Or.inr h1))
        · intro u hu
          rcases List.mem_append.1 hu with h1 | h1
          · exact List.mem_append.2 (Or.inl (hd.2 u (List.mem_filter.1 h1).1))
          · exact List.mem_append.2 (Or.inr h1)
      by_cases hempty : (acts1.filter (W.isMerging s1)).isEmpty = true
      · simp only [hempty, if_true] at hok ⊢
        refine ⟨hinv2, ⟨s1, ?_⟩⟩
        have : acts1.filter (W.isMerging s1) = [] := by simpa [List.isEmpty_iff] using hempty
        simp only [this]
      · simp only [hempty, Bool.false_eq_true, if_false] at hok ⊢
        exact ih _ _ _ _ _ hinv2 hok

/-- what every recorded resolution satisfies -/
structure CallOk (W : World σ) (c : Call) : Prop where
  /-- the queue at the resolution is what a merge pass on NO head pushed after a complete drain -/
  queue : ∃ s1, c.queue = (W.advMerging s1 []).2.1
  /-- nothing is deferred: every head returned to the loop since the previous resolution is resolved NOW, unless it was
      handed to a merge pass or is dead when the resolution starts -/
  conserve : ∀ u ∈ c.emitted, u ∈ c.input ∨ u ∈ c.merged ∨ u ∈ c.dead
  sound : ∀ u ∈ c.input, u ∈ c.emitted
  live : ∀ u ∈ c.input, u ∉ c.dead

theorem rounds_calls (W : World σ) :
    ∀ (f : Nat) (s : σ) (q : Nat) (acts : List Nat) (tr : List Call), (∀ c ∈ tr, CallOk W c) →
      ∀ c ∈ (rounds W f s q acts tr).1, CallOk W c := by
  intro f
  induction f with
  | zero => intro s q acts tr h c hc; simpa [rounds] using h c (by simpa [rounds] using hc)
  | succ f ih =>
    intro s q acts tr h
    simp only [rounds]
    have hp := mergePhase_ok W f s q acts acts [] ⟨fun u hu => Or.inl hu, fun u hu => hu⟩
    generalize mergePhase W f s q acts acts [] = p at hp ⊢
    by_cases hok : p.ok = true
    · have hP := hp hok
      simp only [hok, Bool.not_true, Bool.false_eq_true, if_false]
      have hnew : ∀ c ∈ tr ++ [(⟨p.queue, p.acts.filter (W.alive p.st), (W.resolve p.st (p.acts.filter (W.alive p.st))).2.2,
            p.emitted, p.merged, p.acts.filter (fun h => !W.alive p.st h)⟩ : Call)], CallOk W c := by
        intro c hc
        rcases List.mem_append.1 hc with h1 | h1
        · exact h c h1
        · have : c = ⟨p.queue, p.acts.filter (W.alive p.st), (W.resolve p.st (p.acts.filter (W.alive p.st))).2.2,
              p.emitted, p.merged, p.acts.filter (fun h => !W.alive p.st h)⟩ := by simpa using h1
          subst this
          refine ⟨hP.queue, ?_, ?_, ?_⟩
          · intro u hu
            rcases hP.inv.1 u hu with h2 | h2
            · by_cases ha : W.alive p.st u = true
              · exact Or.inl (List.mem_filter.2 ⟨h2, ha⟩)
              · exact Or.inr (Or.inr (List.mem_filter.2 ⟨h2, by simpa using ha⟩))
            · exact Or.inr (Or.inl h2)
          · intro u hu
            exact hP.inv.2 u (List.mem_filter.1 hu).1
          · intro u hu hd
            have h1 := (List.mem_filter.1 hu).2
            have h2 := (List.mem_filter.1 hd).2
            simp [h1] at h2
      by_cases hadv : (W.resolve p.st (p.acts.filter (W.alive p.st))).2.2.isEmpty = true
      · simp only [hadv, if_true]
        exact hnew
      · simp only [hadv, Bool.false_eq_true, if_false]
        exact ih _ _ _ _ hnew
    · simp only [hok, Bool.not_false, if_true] <;> first | exact h | (simp only [Bool.not_eq_true] at hok; simp only [hok, Bool.not_false, if_true]; exact h)

end NemoVerif.ConflictRound
