import NemoVerif.Models.Serialize

namespace NemoVerif.Serialize

/-! Finite facts about the generated class table (re-checked on every run): none of the built-in
    wrapper tags is shadowed by a class of `name_to_class`. -/
theorem builtin_tags_not_classes :
    isDataclassName "datetime" = false ∧ isDataclassName "deque" = false ∧ isDataclassName "tuple" = false
    ∧ isDataclassName "dict" = false ∧ isDataclassName "set" = false ∧ isDataclassName "regex" = false
    ∧ isDataclassName "comparison" = false := by
  simp [isDataclassName, NemoVerif.Generated.C11.nameToClass]

theorem keyStr_str {k : Key} (h : k.isStr = true) : keyStr k = .ok (keyName k) ∧ Key.str (keyName k) = k := by
  cases k <;> simp_all [Key.isStr, keyStr, keyName]

/-- whatever `allow_nan` is: `json.dumps` accepts a float iff it is finite or `allow_nan` holds -/
theorem dumpFlt_isOk (f : Flt) : (dumpFlt f).isOk = (f.isFinite || NemoVerif.Generated.C11.dumpsAllowNan) := by
  unfold dumpFlt; split <;> simp_all [Except.isOk, Except.toBool]

/-- `json.dumps` as `state_to_json` calls it writes EVERY float, the non-finite ones included (as the tokens `NaN`,
    `Infinity`, `-Infinity`).  Proved against the `allow_nan` value the translator reads off the source on every run:
    with `allow_nan=False` this lemma — and with it `roundtrip_tree`, `encode_total_iff` … — no longer re-proves. -/
@[simp] theorem dumpFlt_ok (f : Flt) : dumpFlt f = .ok (.flt f) := by
  simp [dumpFlt, NemoVerif.Generated.C11.dumpsAllowNan]

/-! ### raw payloads (Action.to_dict) -/
mutual
theorem raw_roundtrip : (v : PV) → RawOk v = true → ∃ j, rawDump v = .ok j ∧ decode j = .ok v
  | .none, _ => ⟨.null, by simp [rawDump], by simp [decode]⟩
  | .bool b, _ => ⟨.bool b, by simp [rawDump], by simp [decode]⟩
  | .int i, _ => ⟨.int i, by simp [rawDump], by simp [decode]⟩
  | .flt f, _ => ⟨.flt f, by simp [rawDump], by simp [decode]⟩
  | .str s, _ => ⟨.str s, by simp [rawDump], by simp [decode]⟩
  | .list xs, h => by
    simp only [RawOk] at h
    obtain ⟨js, h1, h2⟩ := raw_roundtrip_list xs h
    exact ⟨.arr js, by simp [rawDump, h1, bind, Except.bind, pure, Except.pure], by simp [decode, h2, bind, Except.bind, pure, Except.pure]⟩
  | .dict kvs, h => by
    simp only [RawOk] at h
    obtain ⟨o, h1, h2, h3⟩ := raw_roundtrip_kvs kvs h
    exact ⟨.obj o, by simp [rawDump, h1, bind, Except.bind, pure, Except.pure], by simp [decode, h2, h3, bind, Except.bind, pure, Except.pure]⟩
  | .tuple _, h => by simp [RawOk] at h
  | .set _, h => by simp [RawOk] at h
  | .deque _, h => by simp [RawOk] at h
  | .data _ _, h => by simp [RawOk] at h
  | .railsConfig _, h => by simp [RawOk] at h
  | .specType _, h => by simp [RawOk] at h
  | .enum _ _, h => by simp [RawOk] at h
  | .datetime _, h => by simp [RawOk] at h
  | .action _ _ _ _ _ _ _, h => by simp [RawOk] at h
  | .partialFn, h => by simp [RawOk] at h
  | .regex _ _, h => by simp [RawOk] at h
  | .cmp _ _, h => by simp [RawOk] at h
  | .other _, h => by simp [RawOk] at h
theorem raw_roundtrip_list : (xs : List PV) → RawOkList xs = true → ∃ js, rawDumpList xs = .ok js ∧ decodeList js = .ok xs
  | [], _ => ⟨[], by simp [rawDumpList], by simp [decodeList]⟩
  | x :: xs, h => by
    simp only [RawOkList, Bool.and_eq_true] at h
    obtain ⟨j, h1, h2⟩ := raw_roundtrip x h.1
    obtain ⟨js, h3, h4⟩ := raw_roundtrip_list xs h.2
    exact ⟨j :: js, by simp [rawDumpList, h1, h3, bind, Except.bind, pure, Except.pure], by simp [decodeList, h2, h4, bind, Except.bind, pure, Except.pure]⟩
theorem raw_roundtrip_kvs : (kvs : List (Key × PV)) → RawOkKvs kvs = true →
    ∃ o, rawDumpKvs kvs = .ok o ∧ decodePlain o = .ok kvs ∧ typeTag o = none
  | [], _ => ⟨[], by simp [rawDumpKvs], by simp [decodePlain], by simp [typeTag]⟩
  | (k, v) :: rest, h => by
    simp only [RawOkKvs, Bool.and_eq_true] at h
    obtain ⟨⟨⟨hv, hk⟩, hne⟩, hr⟩ := h
    obtain ⟨j, h1, h2⟩ := raw_roundtrip v hv
    obtain ⟨o, h3, h4, h5⟩ := raw_roundtrip_kvs rest hr
    obtain ⟨hk1, hk2⟩ := keyStr_str hk
    have hne' : keyName k ≠ "__type" := by
      intro e; rw [e] at hk2; simp [← hk2] at hne
    exact ⟨(keyName k, j) :: o, by simp [rawDumpKvs, h1, h3, hk1, bind, Except.bind, pure, Except.pure],
      by simp [decodePlain, h2, h4, hk2, bind, Except.bind, pure, Except.pure], by simp [typeTag, hne', h5]⟩
end


/-! ### keys written as values (`encode_to_dict(k, refs)`) -/
theorem encodeList_atoms : (xs : List Atom) → encodeList (xs.map Atom.toPV) = .ok (xs.map Atom.toJ)
  | [] => by simp [encodeList]
  | a :: xs => by
    have ih := encodeList_atoms xs
    cases a <;> simp [encodeList, encode, Atom.toPV, Atom.toJ, ih, bind, Except.bind, pure, Except.pure]

/-- `encodeKey` is `encode_to_dict` applied to the key -/
theorem encodeKey_spec (k : Key) : encode k.toPV = .ok (encodeKey k) := by
  cases k with
  | tuple xs => simp [Key.toPV, encode, encodeKey, encodeList_atoms xs, bind, Except.bind, pure, Except.pure]
  | _ => simp [Key.toPV, encode, encodeKey]

theorem decodeList_atoms : (xs : List Atom) → decodeList (xs.map Atom.toJ) = .ok (xs.map Atom.toPV)
  | [] => by simp [decodeList]
  | a :: xs => by
    have ih := decodeList_atoms xs
    cases a <;> simp [decodeList, decode, Atom.toPV, Atom.toJ, ih, bind, Except.bind, pure, Except.pure]

theorem atomsOfPVs_atoms : (xs : List Atom) → atomsOfPVs (xs.map Atom.toPV) = some xs
  | [] => rfl
  | a :: xs => by
    have ih := atomsOfPVs_atoms xs
    cases a <;> simp [atomsOfPVs, atomOfPV, Atom.toPV, ih]

theorem decode_encodeKey (k : Key) : decode (encodeKey k) = .ok k.toPV := by
  cases k with
  | tuple xs =>
    have := builtin_tags_not_classes
    simp [encodeKey, wrap, decode, typeTag, decodeAtValue, decodeList_atoms xs, Key.toPV, this, bind, Except.bind, pure, Except.pure]
  | _ => simp [encodeKey, decode, Key.toPV]

theorem keyOfPV_toPV (k : Key) : keyOfPV k.toPV = .ok k := by
  cases k with
  | tuple xs => simp [Key.toPV, keyOfPV, atomsOfPVs_atoms xs]
  | _ => simp [Key.toPV, keyOfPV]

theorem allStr_cons {k : Key} {v : PV} {rest : List (Key × PV)} (h : allStr ((k, v) :: rest) = true) :
    k.isStr = true ∧ allStr rest = true := by
  simpa [allStr] using h

theorem typeTag_none_of_noTypeKey : (kvs : List (Key × PV)) → (o : List (String × J)) →
    EncodableKvs kvs = true → noTypeKey kvs = true → encodeKvs kvs = .ok o → typeTag o = none
  | [], o, _, _, h => by simp [encodeKvs] at h; subst h; simp [typeTag]
  | (k, v) :: rest, o, he, hn, h => by
    simp only [EncodableKvs, Bool.and_eq_true] at he
    simp only [noTypeKey, Bool.and_eq_true] at hn
    obtain ⟨hk1, hk2⟩ := keyStr_str he.1.2
    simp only [encodeKvs, bind, Except.bind, hk1] at h
    split at h
    · simp at h
    · split at h
      · simp at h
      · rename_i j hj o' ho'
        simp [pure, Except.pure] at h
        subst h
        have := typeTag_none_of_noTypeKey rest o' he.2 hn.2 ho'
        have hne : keyName k ≠ "__type" := by
          intro e; rw [e] at hk2; simp [← hk2] at hn
        simp [typeTag, hne, this]

theorem typeTag_wrap (t : String) (v : J) : typeTag [("__type", .str t), ("value", v)] = some t := by
  simp [typeTag]

theorem lookup_action (uid name : String) (fu : PV) (st : String) (ctx args : PV) (sc : Int) :
    actionFromDict [(Key.str "uid", .str uid), (Key.str "name", .str name), (Key.str "flow_uid", fu),
      (Key.str "status", .str st), (Key.str "context", ctx), (Key.str "start_event_arguments", args),
      (Key.str "flow_scope_count", .int sc)]
    = (if enumOk "ActionStatus" st then
        (match fu with
         | .none => .ok (.action uid name none st ctx args sc)
         | .str f => .ok (.action uid name (some f) st ctx args sc)
         | _ => .error .typeError)
       else .error .keyError) := by
  cases fu <;> simp [actionFromDict, lookupPV, bind, Except.bind]

/-! ### T1: the sharing-free round trip -/
mutual
theorem roundtrip : (v : PV) → Encodable v = true → ∃ j, encode v = .ok j ∧ decode j = .ok v
  | .none, _ => ⟨.null, by simp [encode], by simp [decode]⟩
  | .bool b, _ => ⟨.bool b, by simp [encode], by simp [decode]⟩
  | .int i, _ => ⟨.int i, by simp [encode], by simp [decode]⟩
  | .flt f, _ => ⟨.flt f, by simp [encode], by simp [decode]⟩
  | .str s, _ => ⟨.str s, by simp [encode], by simp [decode]⟩
  | .list xs, h => by
    simp only [Encodable] at h
    obtain ⟨js, h1, h2⟩ := roundtrip_list xs h
    exact ⟨.arr js, by simp [encode, h1, bind, Except.bind, pure, Except.pure], by simp [decode, h2, bind, Except.bind, pure, Except.pure]⟩
  | .tuple xs, h => by
    simp only [Encodable] at h
    obtain ⟨js, h1, h2⟩ := roundtrip_list xs h
    refine ⟨wrap "tuple" (.arr js), by simp [encode, h1, bind, Except.bind, pure, Except.pure], ?_⟩
    have := builtin_tags_not_classes
    simp [wrap, decode, typeTag, decodeAtValue, h2, this, bind, Except.bind, pure, Except.pure]
  | .set xs, h => by
    simp only [Encodable] at h
    obtain ⟨js, h1, h2⟩ := roundtrip_list xs h
    refine ⟨wrap "set" (.arr js), by simp [encode, h1, bind, Except.bind, pure, Except.pure], ?_⟩
    have := builtin_tags_not_classes
    simp [wrap, decode, typeTag, decodeAtValue, h2, this, bind, Except.bind, pure, Except.pure]
  | .deque xs, h => by
    simp only [Encodable] at h
    obtain ⟨js, h1, h2⟩ := roundtrip_list xs h
    refine ⟨wrap "deque" (.arr js), by simp [encode, h1, bind, Except.bind, pure, Except.pure], ?_⟩
    have := builtin_tags_not_classes
    simp [wrap, decode, typeTag, decodeAtValue, h2, this, bind, Except.bind, pure, Except.pure]
  | .dict kvs, h => by
    simp only [Encodable] at h
    have := builtin_tags_not_classes
    by_cases hs : allStr kvs = true
    · obtain ⟨o, h1, h2⟩ := roundtrip_vals kvs h hs
      refine ⟨wrap "dict" (.obj o), by simp [encode, hs, h1, bind, Except.bind, pure, Except.pure], ?_⟩
      simp [wrap, decode, typeTag, hasKey, decodeItemsAtValue, h2, this, bind, Except.bind, pure, Except.pure]
    · obtain ⟨items, h1, h2⟩ := roundtrip_items kvs h
      refine ⟨.obj [("__type", .str "dict"), ("items", .arr items)], by simp [encode, hs, h1, bind, Except.bind, pure, Except.pure], ?_⟩
      simp [decode, typeTag, hasKey, decodePairsAtItems, h2, this, bind, Except.bind, pure, Except.pure]
  | .regex p f, _ => by
    refine ⟨_, by simp [encode]; rfl, ?_⟩
    have := builtin_tags_not_classes
    simp [decode, typeTag, strField, intField, this, bind, Except.bind, pure, Except.pure]
  | .railsConfig kvs, h => by
    simp only [Encodable] at h
    obtain ⟨o, h1, h2⟩ := roundtrip_kvs kvs h
    refine ⟨wrap "RailsConfig" (.obj o), by simp [encode, h1, bind, Except.bind, pure, Except.pure], ?_⟩
    simp [wrap, decode, typeTag, decodeItemsAtValue, h2, bind, Except.bind, pure, Except.pure]
  | .data cls kvs, h => by
    simp only [Encodable, Bool.and_eq_true] at h
    obtain ⟨⟨⟨⟨hk, hnt⟩, hcls⟩, hres⟩, hctor⟩ := h
    obtain ⟨o, h1, h2⟩ := roundtrip_kvs kvs hk
    have h3 := typeTag_none_of_noTypeKey kvs o hk hnt h1
    refine ⟨wrap cls (.obj o), by simp [encode, h1, bind, Except.bind, pure, Except.pure], ?_⟩
    simp [reservedTags] at hres
    obtain ⟨r1, r2, r3, r4, r5⟩ := hres
    simp [wrap, decode, typeTag, decodeAtValue, h2, h3, r1, r2, r3, r4, r5, hcls, hctor, bind, Except.bind, pure, Except.pure]
  | .specType v, h => by
    simp only [Encodable] at h
    refine ⟨wrap "SpecType" (.str v), by simp [encode], ?_⟩
    have h' : v ∈ NemoVerif.Generated.C11.specTypeValues := by simpa using h
    simp [wrap, decode, typeTag, strField, h', bind, Except.bind, pure, Except.pure]
  | .enum cls name, h => by
    simp only [Encodable] at h
    refine ⟨_, by simp [encode]; rfl, ?_⟩
    simp [decode, typeTag, strField, h, bind, Except.bind, pure, Except.pure]
  | .datetime iso, _ => by
    refine ⟨wrap "datetime" (.str iso), by simp [encode], ?_⟩
    have := builtin_tags_not_classes
    simp [wrap, decode, typeTag, strField, this, bind, Except.bind, pure, Except.pure]
  | .action uid name fu st ctx args sc, h => by
    simp only [Encodable, Bool.and_eq_true] at h
    obtain ⟨⟨hc, ha⟩, hs⟩ := h
    obtain ⟨jc, c1, c2⟩ := roundtrip ctx hc
    obtain ⟨ja, a1, a2⟩ := roundtrip args ha
    refine ⟨_, by simp [encode, c1, a1, bind, Except.bind, pure, Except.pure]; rfl, ?_⟩
    cases fu <;>
    simp [wrap, decode, typeTag, decodeAtValue, decodePlain, optStrJ, c2, a2, lookup_action, hs, bind, Except.bind, pure, Except.pure]
  | .partialFn, h => by simp [Encodable] at h
  | .cmp op v, h => by
    simp only [Encodable, Bool.and_eq_true] at h
    obtain ⟨hop, hv⟩ := h
    have hop' : op ∈ NemoVerif.Generated.C11.comparisonOps := by simpa using hop
    have := builtin_tags_not_classes
    cases v <;> simp [numJ] at hv <;>
      exact ⟨_, by simp [encode, numJ, hop'] <;> rfl, by
        simp [decode, typeTag, strField, fieldJ, numOfJ, hop', this, bind, Except.bind, pure, Except.pure]⟩
  | .other _, h => by simp [Encodable] at h
theorem roundtrip_list : (xs : List PV) → EncodableList xs = true → ∃ js, encodeList xs = .ok js ∧ decodeList js = .ok xs
  | [], _ => ⟨[], by simp [encodeList], by simp [decodeList]⟩
  | x :: xs, h => by
    simp only [EncodableList, Bool.and_eq_true] at h
    obtain ⟨j, h1, h2⟩ := roundtrip x h.1
    obtain ⟨js, h3, h4⟩ := roundtrip_list xs h.2
    exact ⟨j :: js, by simp [encodeList, h1, h3, bind, Except.bind, pure, Except.pure], by simp [decodeList, h2, h4, bind, Except.bind, pure, Except.pure]⟩
theorem roundtrip_kvs : (kvs : List (Key × PV)) → EncodableKvs kvs = true →
    ∃ o, encodeKvs kvs = .ok o ∧ decodePlain o = .ok kvs
  | [], _ => ⟨[], by simp [encodeKvs], by simp [decodePlain]⟩
  | (k, v) :: rest, h => by
    simp only [EncodableKvs, Bool.and_eq_true] at h
    obtain ⟨⟨hv, hk⟩, hr⟩ := h
    obtain ⟨j, h1, h2⟩ := roundtrip v hv
    obtain ⟨o, h3, h4⟩ := roundtrip_kvs rest hr
    obtain ⟨hk1, hk2⟩ := keyStr_str hk
    exact ⟨(keyName k, j) :: o, by simp [encodeKvs, h1, h3, hk1, bind, Except.bind, pure, Except.pure],
      by simp [decodePlain, h2, h4, hk2, bind, Except.bind, pure, Except.pure]⟩
theorem roundtrip_vals : (kvs : List (Key × PV)) → EncodableVals kvs = true → allStr kvs = true →
    ∃ o, encodeVals kvs = .ok o ∧ decodePlain o = .ok kvs
  | [], _, _ => ⟨[], by simp [encodeVals], by simp [decodePlain]⟩
  | (k, v) :: rest, h, hs => by
    simp only [EncodableVals, Bool.and_eq_true] at h
    obtain ⟨hk, hr⟩ := allStr_cons hs
    obtain ⟨j, h1, h2⟩ := roundtrip v h.1
    obtain ⟨o, h3, h4⟩ := roundtrip_vals rest h.2 hr
    obtain ⟨_, hk2⟩ := keyStr_str hk
    exact ⟨(keyName k, j) :: o, by simp [encodeVals, h1, h3, bind, Except.bind, pure, Except.pure],
      by simp [decodePlain, h2, h4, hk2, bind, Except.bind, pure, Except.pure]⟩
theorem roundtrip_items : (kvs : List (Key × PV)) → EncodableVals kvs = true →
    ∃ items, encodeItems kvs = .ok items ∧ decodePairs items = .ok kvs
  | [], _ => ⟨[], by simp [encodeItems], by simp [decodePairs]⟩
  | (k, v) :: rest, h => by
    simp only [EncodableVals, Bool.and_eq_true] at h
    obtain ⟨j, h1, h2⟩ := roundtrip v h.1
    obtain ⟨items, h3, h4⟩ := roundtrip_items rest h.2
    exact ⟨.arr [encodeKey k, j] :: items, by simp [encodeItems, h1, h3, bind, Except.bind, pure, Except.pure],
      by simp [decodePairs, decode_encodeKey, keyOfPV_toPV, h2, h4, bind, Except.bind, pure, Except.pure]⟩
end


/-! ### totality: the encoder succeeds exactly on `EncShape` -/
theorem keyStr_isOk (k : Key) : (keyStr k).isOk = k.dumpable := by
  cases k with
  | bool b => cases b <;> rfl
  | _ => rfl

mutual
theorem rawDump_isOk : (v : PV) → (rawDump v).isOk = RawShape v
  | .none | .bool _ | .int _ | .str _ => by simp [rawDump, RawShape, Except.isOk, Except.toBool]
  | .flt f => by simp only [rawDump, RawShape]; exact dumpFlt_isOk f
  | .list xs => by
    have := rawDumpList_isOk xs
    cases h : rawDumpList xs <;> simp_all [rawDump, RawShape, bind, Except.bind, pure, Except.pure, Except.isOk, Except.toBool]
  | .tuple xs => by
    have := rawDumpList_isOk xs
    cases h : rawDumpList xs <;> simp_all [rawDump, RawShape, bind, Except.bind, pure, Except.pure, Except.isOk, Except.toBool]
  | .dict kvs => by
    have := rawDumpKvs_isOk kvs
    cases h : rawDumpKvs kvs <;> simp_all [rawDump, RawShape, bind, Except.bind, pure, Except.pure, Except.isOk, Except.toBool]
  | .set _ | .deque _ | .data _ _ | .railsConfig _ | .specType _ | .enum _ _ | .datetime _
  | .action _ _ _ _ _ _ _ | .partialFn | .regex _ _ | .cmp _ _ | .other _ => by
    simp [rawDump, RawShape, Except.isOk, Except.toBool]
theorem rawDumpList_isOk : (xs : List PV) → (rawDumpList xs).isOk = RawShapeList xs
  | [] => by simp [rawDumpList, RawShapeList, Except.isOk, Except.toBool]
  | x :: xs => by
    have h1 := rawDump_isOk x
    have h2 := rawDumpList_isOk xs
    cases hx : rawDump x <;> cases hxs : rawDumpList xs <;>
      simp_all [rawDumpList, RawShapeList, bind, Except.bind, pure, Except.pure, Except.isOk, Except.toBool]
theorem rawDumpKvs_isOk : (kvs : List (Key × PV)) → (rawDumpKvs kvs).isOk = RawShapeKvs kvs
  | [] => by simp [rawDumpKvs, RawShapeKvs, Except.isOk, Except.toBool]
  | (k, v) :: rest => by
    have h1 := rawDump_isOk v
    have h2 := rawDumpKvs_isOk rest
    have h3 := keyStr_isOk k
    cases hv : rawDump v <;> cases hk : keyStr k <;> cases hr : rawDumpKvs rest <;>
      simp_all [rawDumpKvs, RawShapeKvs, bind, Except.bind, pure, Except.pure, Except.isOk, Except.toBool]
end

mutual
theorem encode_isOk : (v : PV) → (encode v).isOk = EncShape v
  | .none | .bool _ | .int _ | .str _ | .partialFn | .specType _ | .datetime _ | .enum _ _ | .regex _ _ => by
    simp [encode, EncShape, Except.isOk, Except.toBool]
  | .flt f => by simp only [encode, EncShape]; exact dumpFlt_isOk f
  | .list xs | .tuple xs | .set xs | .deque xs => by
    have := encodeList_isOk xs
    cases h : encodeList xs <;> simp_all [encode, EncShape, bind, Except.bind, pure, Except.pure, Except.isOk, Except.toBool]
  | .dict kvs => by
    have h1 := encodeVals_isOk kvs
    have h2 := encodeItems_isOk kvs
    cases hs : allStr kvs <;> cases hv : encodeVals kvs <;> cases hi : encodeItems kvs <;>
      simp_all [encode, EncShape, bind, Except.bind, pure, Except.pure, Except.isOk, Except.toBool]
  | .data _ kvs | .railsConfig kvs => by
    have := encodeKvs_isOk kvs
    cases h : encodeKvs kvs <;> simp_all [encode, EncShape, bind, Except.bind, pure, Except.pure, Except.isOk, Except.toBool]
  | .action _ _ _ _ ctx args _ => by
    have h1 := encode_isOk ctx
    have h2 := encode_isOk args
    cases hc : encode ctx <;> cases ha : encode args <;>
      simp_all [encode, EncShape, bind, Except.bind, pure, Except.pure, Except.isOk, Except.toBool]
  | .other _ => by simp [encode, EncShape, Except.isOk, Except.toBool]
  | .cmp op v => by
    by_cases hop : op ∈ NemoVerif.Generated.C11.comparisonOps
    · cases v <;> simp [encode, EncShape, numJ, hop, Except.isOk, Except.toBool]
    · simp [encode, EncShape, hop, Except.isOk, Except.toBool]
theorem encodeList_isOk : (xs : List PV) → (encodeList xs).isOk = EncShapeList xs
  | [] => by simp [encodeList, EncShapeList, Except.isOk, Except.toBool]
  | x :: xs => by
    have h1 := encode_isOk x
    have h2 := encodeList_isOk xs
    cases hx : encode x <;> cases hxs : encodeList xs <;>
      simp_all [encodeList, EncShapeList, bind, Except.bind, pure, Except.pure, Except.isOk, Except.toBool]
theorem encodeKvs_isOk : (kvs : List (Key × PV)) → (encodeKvs kvs).isOk = EncShapeKvs kvs
  | [] => by simp [encodeKvs, EncShapeKvs, Except.isOk, Except.toBool]
  | (k, v) :: rest => by
    have h1 := encode_isOk v
    have h2 := encodeKvs_isOk rest
    have h3 := keyStr_isOk k
    cases hv : encode v <;> cases hk : keyStr k <;> cases hr : encodeKvs rest <;>
      simp_all [encodeKvs, EncShapeKvs, bind, Except.bind, pure, Except.pure, Except.isOk, Except.toBool]
theorem encodeVals_isOk : (kvs : List (Key × PV)) → (encodeVals kvs).isOk = EncShapeVals kvs
  | [] => by simp [encodeVals, EncShapeVals, Except.isOk, Except.toBool]
  | (k, v) :: rest => by
    have h1 := encode_isOk v
    have h2 := encodeVals_isOk rest
    cases hv : encode v <;> cases hr : encodeVals rest <;>
      simp_all [encodeVals, EncShapeVals, bind, Except.bind, pure, Except.pure, Except.isOk, Except.toBool]
theorem encodeItems_isOk : (kvs : List (Key × PV)) → (encodeItems kvs).isOk = EncShapeVals kvs
  | [] => by simp [encodeItems, EncShapeVals, Except.isOk, Except.toBool]
  | (k, v) :: rest => by
    have h1 := encode_isOk v
    have h2 := encodeItems_isOk rest
    cases hv : encode v <;> cases hr : encodeItems rest <;>
      simp_all [encodeItems, EncShapeVals, bind, Except.bind, pure, Except.pure, Except.isOk, Except.toBool]
end

end NemoVerif.Serialize
