/-
  Helper lemmas for C07 (T3): the checker `readBackAwait` inverts the mirrored `await` code generator.
-/
import NemoVerif.Models.GroupExpandAwait
import NemoVerif.Lemmas.GroupExpand
namespace NemoVerif.GroupExpand
open NemoVerif.Dnf

theorem startRefs_length : ∀ (c : List Nat) (k : Nat), (startRefs c k).length = c.length := by
  intro c
  induction c with
  | nil => intro k; rfl
  | cons a c ih => intro k; simp [startRefs, ih]

theorem readStarts_startBlocks (tail : List Prim) (ht : readStarts tail = ([], tail)) :
    ∀ (c : List Nat) (k : Nat), readStarts (startBlocks c k ++ tail) = (c.zip (startRefs c k), tail) := by
  intro c
  induction c with
  | nil => intro k; simpa [startBlocks, startRefs] using ht
  | cons a c ih =>
    intro k
    simp [startBlocks, startRefs, readStarts, ih (k + 3)]

theorem zip_startRefs_snd : ∀ (c : List Nat) (k : Nat), (c.zip (startRefs c k)).map (·.2) = startRefs c k := by
  intro c
  induction c with
  | nil => intro k; rfl
  | cons a c ih => intro k; simp [startRefs, ih]

theorem zip_startRefs_fst : ∀ (c : List Nat) (k : Nat), (c.zip (startRefs c k)).map (·.1) = c := by
  intro c
  induction c with
  | nil => intro k; rfl
  | cons a c ih => intro k; simp [startRefs, ih]

theorem readAndItemsFin_andItemsFin (e : Nat) (tail : List Prim) :
    ∀ (ls rs : List Nat), ls.length = rs.length →
      readAndItemsFin ls (andItemsFin e ls rs ++ tail) = some (rs.map (fun r => (r, e)), tail) := by
  intro ls
  induction ls with
  | nil =>
    intro rs h
    cases rs with
    | nil => simp [andItemsFin, readAndItemsFin]
    | cons a c => simp at h
  | cons l ls ih =>
    intro rs h
    cases rs with
    | nil => simp at h
    | cons a c =>
      have h' : ls.length = c.length := by simpa using h
      simp [andItemsFin, readAndItemsFin, ih c h']

theorem readAndFin_expandAndFin (rs : List Nat) (k : Nat) (rest : List Prim) :
    readAndFin ((expandAndFin rs k).1 ++ rest) = some (rs, rest) := by
  cases rs with
  | nil =>
    simp [expandAndFin, readAndFin, freshLabels, andItemsFin, readAndItemsFin, andTrailer]
  | cons a t =>
    cases t with
    | nil => simp [expandAndFin, readAndFin]
    | cons b t =>
      have hl : (freshLabels (k + 3) (a :: b :: t).length).length = (a :: b :: t).length := freshLabels_length _ _
      have h := readAndItemsFin_andItemsFin (k + 2) (andTrailer k (k + 1) (k + 2) (a :: b :: t).length ++ rest)
        (freshLabels (k + 3) (a :: b :: t).length) (a :: b :: t) hl
      simp only [expandAndFin, List.cons_append, List.nil_append, List.append_assoc, readAndFin, h]
      simp [andTrailer, freshLabels_length, Function.comp_def]

theorem readStarts_expandAndFin (rs : List Nat) (k : Nat) (rest : List Prim) :
    readStarts ((expandAndFin rs k).1 ++ rest) = ([], (expandAndFin rs k).1 ++ rest) := by
  cases rs with
  | nil => simp [expandAndFin, readStarts]
  | cons a t =>
    cases t with
    | nil => simp [expandAndFin, readStarts]
    | cons b t => simp [expandAndFin, readStarts]

theorem readAwaitClause_expand (c : List Nat) (k : Nat) (rest : List Prim) :
    readAwaitClause ((expandAwaitClause c k).1 ++ rest) = some (c, rest) := by
  simp only [readAwaitClause, expandAwaitClause, List.append_assoc]
  rw [readStarts_startBlocks _ (readStarts_expandAndFin _ _ _)]
  simp only [readAndFin_expandAndFin, zip_startRefs_snd, zip_startRefs_fst, beq_self_eq_true, if_true]

theorem readAwaitItems_awaitItems (e : Nat) (tail : List Prim) :
    ∀ (ls : List Nat) (d : Clauses) (k : Nat), ls.length = d.length →
      readAwaitItems ls ((awaitItems e ls d k).1 ++ tail) = some (d.map (fun c => (c, e)), tail) := by
  intro ls
  induction ls with
  | nil =>
    intro d k h
    cases d with
    | nil => simp [awaitItems, readAwaitItems]
    | cons c d => simp at h
  | cons l ls ih =>
    intro d k h
    cases d with
    | nil => simp at h
    | cons c d =>
      have h' : ls.length = d.length := by simpa using h
      have hA := readAwaitClause_expand c k
        (.goto e :: ((awaitItems e ls d (expandAwaitClause c k).2).1 ++ tail))
      simp only [awaitItems, List.cons_append, List.append_assoc, readAwaitItems, beq_self_eq_true, if_true]
      rw [hA]
      simp [ih d _ h']

theorem readAwaitGroup_expand (d : Clauses) (k : Nat) :
    readAwaitGroup (expandAwaitClauses d k).1 = some (d, []) := by
  have hor : ∀ d : Clauses, readAwaitGroup
      ([.beginScope k, .catchPF (some (k + 1)), .fork (k + 2) (freshLabels (k + 4) d.length)] ++
        (awaitItems (k + 3) (freshLabels (k + 4) d.length) d (k + 4 + d.length)).1 ++
        awaitTrailer k (k + 2) (k + 1) (k + 3) d.length) = some (d, []) := by
    intro d
    have h := readAwaitItems_awaitItems (k + 3) (awaitTrailer k (k + 2) (k + 1) (k + 3) d.length)
      (freshLabels (k + 4) d.length) d (k + 4 + d.length) (freshLabels_length _ _)
    simp only [List.cons_append, List.nil_append, List.append_assoc, readAwaitGroup, h]
    simp [awaitTrailer, freshLabels_length, Function.comp_def]
  cases d with
  | nil => exact hor []
  | cons c d' =>
    cases d' with
    | cons c2 d'' => exact hor (c :: c2 :: d'')
    | nil =>
      have h := readAwaitClause_expand c k []
      simp only [List.append_nil] at h
      cases c with
      | nil =>
        simp only [expandAwaitClauses]
        simp only [expandAwaitClause, startBlocks, startRefs, expandAndFin, List.nil_append] at h ⊢
        simp only [readAwaitGroup, List.cons_append, List.nil_append] at h ⊢
        rw [h]
      | cons a t =>
        simp only [expandAwaitClauses]
        simp only [expandAwaitClause, startBlocks, List.cons_append] at h ⊢
        simp only [readAwaitGroup]
        rw [h]

end NemoVerif.GroupExpand
