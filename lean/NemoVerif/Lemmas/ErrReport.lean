/-
  Lemmas about `Models/ErrReport.lean` (core Lean only): every pass of `escape` / `escape_special_string_characters` maps strings
  accepted by one scanner to strings accepted by the next one.
-/
import NemoVerif.Models.ErrReport

namespace NemoVerif.ErrReport

theorem run_nil (A : Aut) (q : Q) : A.run q [] = some q := rfl

theorem run_cons (A : Aut) (q : Q) (c : Char) (r : Str) :
    A.run q (c :: r) = (match A.step q c with | none => none | some q' => A.run q' r) := rfl

theorem run_append (A : Aut) : ∀ (a b : Str) (q : Q), A.run q (a ++ b) = (A.run q a).bind fun q' => A.run q' b := by
  intro a
  induction a with
  | nil => intro b q; simp [Aut.run]
  | cons c r ih =>
    intro b q
    simp only [List.cons_append, run_cons]
    cases h : A.step q c with
    | none => simp
    | some q' => simp [ih]

theorem run_append_ok (A : Aut) {a b : Str} {q q1 q2 : Q} (h1 : A.run q a = some q1) (h2 : A.run q1 b = some q2) :
    A.run q (a ++ b) = some q2 := by
  rw [run_append, h1]; simpa using h2

/-- a weaker scanner accepts whatever a stronger one accepts, with the same states -/
theorem step_mono (A B : Aut) (hN : ∀ d, B.nbad d = true → A.nbad d = true) (hE : ∀ d, A.eok d = true → B.eok d = true)
    {q q' : Q} {c : Char} (h : A.step q c = some q') : B.step q c = some q' := by
  cases q with
  | N =>
    simp only [Aut.step] at h ⊢
    by_cases hc : c = '\\'
    · simpa [hc] using h
    · simp only [hc, if_false] at h ⊢
      by_cases hb : A.nbad c = true
      · simp [hb] at h
      · have : B.nbad c ≠ true := fun hh => hb (hN c hh)
        simp [hb] at h
        simp [this, h]
  | E =>
    simp only [Aut.step] at h ⊢
    by_cases he : A.eok c = true
    · simp only [he, if_true] at h
      simp [hE c he, h]
    · simp [he] at h

theorem run_mono (A B : Aut) (hN : ∀ d, B.nbad d = true → A.nbad d = true) (hE : ∀ d, A.eok d = true → B.eok d = true) :
    ∀ (s : Str) (q q' : Q), A.run q s = some q' → B.run q s = some q' := by
  intro s
  induction s with
  | nil => intro q q' h; simpa [Aut.run] using h
  | cons c r ih =>
    intro q q' h
    rw [run_cons] at h ⊢
    cases hs : A.step q c with
    | none => simp [hs] at h
    | some q1 =>
      simp only [hs] at h
      rw [step_mono A B hN hE hs]
      exact ih q1 q' h

/-! ### pass 1: backslashes doubled -/

theorem rep1_backslash (s : Str) : A0.run .N (rep1 '\\' ['\\', '\\'] s) = some .N := by
  induction s with
  | nil => rfl
  | cons d r ih =>
    by_cases hd : d = '\\'
    · subst hd
      simp only [rep1, if_true, List.cons_append, List.nil_append]
      rw [run_cons]
      have h1 : A0.step .N '\\' = some .E := by simp [Aut.step]
      rw [h1]
      show A0.run .E ('\\' :: rep1 '\\' ['\\', '\\'] r) = some .N
      rw [run_cons]
      have h2 : A0.step .E '\\' = some .N := by simp [Aut.step, A0]
      rw [h2]
      exact ih
    · simp only [rep1, hd, if_false]
      rw [run_cons]
      have h1 : A0.step .N d = some .N := by simp [Aut.step, hd, A0]
      rw [h1]
      exact ih

/-! ### a pass `c ↦ \x tail` -/

theorem rep1_pass (A : Aut) (c x : Char) (tail : Str) (hc : c ≠ '\\') (hE : A.eok c = false)
    (htail : (A.ext1 c x).run .N tail = some .N) :
    ∀ (s : Str) (q q' : Q), A.run q s = some q' → (A.ext1 c x).run q (rep1 c ('\\' :: x :: tail) s) = some q' := by
  intro s
  induction s with
  | nil => intro q q' h; simpa [rep1, Aut.run] using h
  | cons d r ih =>
    intro q q' h
    rw [run_cons] at h
    cases q with
    | N =>
      by_cases hd : d = c
      · subst hd
        have hs : A.step .N d = (if A.nbad d = true then none else some .N) := by simp [Aut.step, hc]
        rw [hs] at h
        by_cases hb : A.nbad d = true
        · simp [hb] at h
        · simp [hb] at h
          simp only [rep1, if_true]
          have e1 : (A.ext1 d x).run .N ('\\' :: x :: tail) = some .N := by
            rw [run_cons]
            have : (A.ext1 d x).step .N '\\' = some .E := by simp [Aut.step]
            rw [this]
            show (A.ext1 d x).run .E (x :: tail) = some .N
            rw [run_cons]
            have : (A.ext1 d x).step .E x = some .N := by simp [Aut.step, Aut.ext1]
            rw [this]
            exact htail
          exact run_append_ok _ e1 (ih .N q' h)
      · simp only [rep1, hd, if_false]
        rw [run_cons]
        by_cases hb : d = '\\'
        · subst hb
          have hs : A.step .N '\\' = some .E := by simp [Aut.step]
          have hs' : (A.ext1 c x).step .N '\\' = some .E := by simp [Aut.step]
          rw [hs] at h
          rw [hs']
          exact ih .E q' h
        · have hs : A.step .N d = (if A.nbad d = true then none else some .N) := by simp [Aut.step, hb]
          rw [hs] at h
          by_cases hn : A.nbad d = true
          · simp [hn] at h
          · simp [hn] at h
            have hs' : (A.ext1 c x).step .N d = some .N := by simp [Aut.step, hb, Aut.ext1, hd, hn]
            rw [hs']
            exact ih .N q' h
    | E =>
      have hs : A.step .E d = (if A.eok d = true then some .N else none) := by simp [Aut.step]
      rw [hs] at h
      by_cases he : A.eok d = true
      · simp only [he, if_true] at h
        have hd : d ≠ c := by intro e; subst e; rw [hE] at he; exact Bool.noConfusion he
        simp only [rep1, hd, if_false]
        rw [run_cons]
        have hs' : (A.ext1 c x).step .E d = some .N := by simp [Aut.step, Aut.ext1, he]
        rw [hs']
        exact ih .N q' h
      · simp [he] at h

/-! ### a pass `aa ↦ \a` -/

theorem ext2_step (A : Aut) (a : Char) {q q' : Q} {c : Char} (h : A.step q c = some q') : (A.ext2 a).step q c = some q' :=
  step_mono A (A.ext2 a) (fun _ hh => hh) (fun d hd => by simp [Aut.ext2, hd]) h

theorem rep2_pass (A : Aut) (a : Char) (ha : a ≠ '\\') (hE : A.eok a = false) :
    ∀ (n : Nat) (s : Str), s.length ≤ n → ∀ (q q' : Q), A.run q s = some q' → (A.ext2 a).run q (rep2 a s) = some q' := by
  intro n
  induction n with
  | zero =>
    intro s hs q q' h
    have : s = [] := List.eq_nil_of_length_eq_zero (Nat.le_zero.mp hs)
    subst this
    simpa [rep2, Aut.run] using h
  | succ n ih =>
    intro s hs q q' h
    match s, hs, h with
    | [], _, h => simpa [rep2, Aut.run] using h
    | [c], _, h =>
      simp only [rep2]
      rw [run_cons] at h ⊢
      cases hst : A.step q c with
      | none => simp [hst] at h
      | some q1 =>
        simp only [hst] at h
        rw [ext2_step A a hst]
        simpa [Aut.run] using h
    | c :: d :: r, hs, h =>
      have hlen : r.length ≤ n := by simp at hs; omega
      have hlen' : (d :: r).length ≤ n := by simp at hs ⊢; omega
      by_cases hcd : c = a ∧ d = a
      · obtain ⟨h1, h2⟩ := hcd
        subst h1; subst h2
        simp only [rep2, and_self, if_true]
        cases q with
        | N =>
          rw [run_cons] at h
          have hs1 : A.step .N d = (if A.nbad d = true then none else some .N) := by simp [Aut.step, ha]
          rw [hs1] at h
          by_cases hb : A.nbad d = true
          · simp [hb] at h
          · simp [hb] at h
            rw [run_cons, hs1] at h
            simp [hb] at h
            rw [run_cons]
            have e1 : (A.ext2 d).step .N '\\' = some .E := by simp [Aut.step]
            rw [e1]
            show (A.ext2 d).run .E (d :: rep2 d r) = some q'
            rw [run_cons]
            have e2 : (A.ext2 d).step .E d = some .N := by simp [Aut.step, Aut.ext2]
            rw [e2]
            exact ih r hlen .N q' h
        | E =>
          rw [run_cons] at h
          have hs1 : A.step .E d = none := by simp [Aut.step, hE]
          rw [hs1] at h
          simp at h
      · simp only [rep2, hcd, if_false]
        rw [run_cons] at h ⊢
        cases hst : A.step q c with
        | none => simp [hst] at h
        | some q1 =>
          simp only [hst] at h
          rw [ext2_step A a hst]
          exact ih (d :: r) hlen' q1 q' h

/-! ### the quote pass of `escape_special_string_characters` is the identity where no bare quote occurs -/

theorem escQ_id (A : Aut) (hq : ∀ c, isQuote c = true → A.nbad c = true ∧ c ≠ '\\') :
    ∀ (n : Nat) (s : Str), s.length ≤ n → ∀ (q q' : Q), A.run q s = some q' → escQ s = s := by
  intro n
  induction n with
  | zero =>
    intro s hs q q' _
    have : s = [] := List.eq_nil_of_length_eq_zero (Nat.le_zero.mp hs)
    subst this; rfl
  | succ n ih =>
    intro s hs q q' h
    match s, hs, h with
    | [], _, _ => rfl
    | [c], _, _ => rfl
    | c :: d :: r, hs, h =>
      have hlen' : (d :: r).length ≤ n := by simp at hs ⊢; omega
      rw [run_cons] at h
      cases hst : A.step q c with
      | none => simp [hst] at h
      | some q1 =>
        simp only [hst] at h
        by_cases hm : c ≠ '\\' ∧ isQuote d = true
        · -- impossible: behind a non-backslash the scanner is in state N, where a quote is rejected
          exfalso
          obtain ⟨hc, hd⟩ := hm
          have hq1 : q1 = .N := by
            cases q with
            | N =>
              simp only [Aut.step, hc, if_false] at hst
              by_cases hb : A.nbad c = true
              · simp [hb] at hst
              · simp only [hb] at hst; exact (Option.some.inj hst).symm
            | E =>
              simp only [Aut.step] at hst
              by_cases he : A.eok c = true
              · simp only [he, if_true] at hst; exact (Option.some.inj hst).symm
              · simp [he] at hst
          subst hq1
          rw [run_cons] at h
          have : A.step .N d = none := by simp [Aut.step, (hq d hd).2, (hq d hd).1]
          rw [this] at h
          simp at h
        · simp only [escQ, hm, if_false]
          rw [ih (d :: r) hlen' q1 q' h]

theorem escQ0_id (A : Aut) (hq : ∀ c, isQuote c = true → A.nbad c = true ∧ c ≠ '\\') (s : Str) (q' : Q)
    (h : A.run .N s = some q') : escQ0 s = s := by
  match s, h with
  | [], _ => rfl
  | c :: r, h =>
    by_cases hc : isQuote c = true
    · exfalso
      rw [run_cons] at h
      have : A.step .N c = none := by simp [Aut.step, (hq c hc).2, (hq c hc).1]
      rw [this] at h
      simp at h
    · simp only [escQ0, hc]
      exact escQ_id A hq _ (c :: r) (Nat.le_refl _) .N q' h

/-! ### the `{{` / `}}` collapse does not change the verdict of a scanner for which the brace is an ordinary character -/

theorem col_run (A : Aut) (a : Char) (ha : a ≠ '\\') (hn : A.nbad a = false) (he : A.eok a = true) :
    ∀ (n : Nat) (s : Str), s.length ≤ n → ∀ (q : Q), A.run q (col a s) = A.run q s := by
  have stepa : ∀ q, A.step q a = some .N := by
    intro q; cases q <;> simp [Aut.step, ha, hn, he]
  intro n
  induction n with
  | zero =>
    intro s hs q
    have : s = [] := List.eq_nil_of_length_eq_zero (Nat.le_zero.mp hs)
    subst this; rfl
  | succ n ih =>
    intro s hs q
    match s, hs with
    | [], _ => rfl
    | [c], _ => rfl
    | c :: d :: r, hs =>
      have hlen : r.length ≤ n := by simp at hs; omega
      have hlen' : (d :: r).length ≤ n := by simp at hs ⊢; omega
      by_cases hcd : c = a ∧ d = a
      · obtain ⟨h1, h2⟩ := hcd
        subst h1; subst h2
        simp only [col, and_self, if_true]
        simp only [run_cons, stepa]
        exact ih r hlen .N
      · simp only [col, hcd, if_false]
        rw [run_cons, run_cons (r := d :: r)]
        cases A.step q c with
        | none => rfl
        | some q1 => exact ih (d :: r) hlen' q1

/-! ### the abstract loop -/

theorem runLoop_total {Text : Type} (h : Text → Option Text) :
    ∀ (q : List Text) (k : Nat), (∀ t ∈ q, h t = none) → runLoop h (q.length + k) q = (q.length, []) := by
  intro q
  induction q with
  | nil => intro k _; cases k <;> rfl
  | cons t r ih =>
    intro k hq
    have e : (t :: r).length + k = (r.length + k) + 1 := by simp; omega
    rw [e]
    have ht : h t = none := hq t (by simp)
    simp only [runLoop, ht]
    rw [ih k (fun t' ht' => hq t' (by simp [ht']))]
    simp

theorem runLoop_diverges {Text : Type} (h : Text → Option Text) (Bad : Text → Prop)
    (hb : ∀ t, Bad t → ∃ t', h t = some t' ∧ Bad t') :
    ∀ (fuel : Nat) (q : List Text), q ≠ [] → (∀ t ∈ q, Bad t) → (runLoop h fuel q).1 = fuel ∧ (runLoop h fuel q).2 ≠ [] := by
  intro fuel
  induction fuel with
  | zero => intro q hq _; exact ⟨rfl, hq⟩
  | succ n ih =>
    intro q hq hall
    match q, hq, hall with
    | t :: r, _, hall =>
      obtain ⟨t', e, hbad'⟩ := hb t (hall t (by simp))
      simp only [runLoop, e]
      have := ih (r ++ [t']) (by simp) (by
        intro x hx
        simp only [List.mem_append, List.mem_singleton] at hx
        rcases hx with hx | hx
        · exact hall x (by simp [hx])
        · subst hx; exact hbad')
      exact ⟨by simp [this.1], this.2⟩

end NemoVerif.ErrReport
