import NemoVerif.Lemmas.Serialize

namespace NemoVerif.Serialize

theorem keyStr_norm {k : Key} (h : k.dumpable = true) :
    ∃ s, keyStr k = .ok s ∧ normKey k = Key.str s := by
  cases k with
  | none => exact ⟨_, rfl, rfl⟩
  | bool b => cases b <;> exact ⟨_, rfl, rfl⟩
  | int i => exact ⟨_, rfl, rfl⟩
  | str s => exact ⟨_, rfl, rfl⟩
  | tuple xs => simp [Key.dumpable] at h


theorem keyPlain_spec {k : Key} (h : keyPlain k = true) :
    ∃ s, keyStr k = .ok s ∧ normKey k = Key.str s ∧ s ≠ "__type" := by
  unfold keyPlain at h
  split at h
  · rename_i s hs
    have hd : k.dumpable = true := by cases k <;> simp_all [keyStr, Key.dumpable]
    obtain ⟨s', h1, h2⟩ := keyStr_norm hd
    rw [hs] at h1
    cases h1
    exact ⟨s, hs, h2, by simpa using h⟩
  · simp at h

mutual
theorem raw_lossy : (v : PV) → RawPlain v = true → ∃ j, rawDump v = .ok j ∧ decode j = .ok (rawNorm v)
  | .none, _ => ⟨.null, by simp [rawDump], by simp [decode, rawNorm]⟩
  | .bool b, _ => ⟨.bool b, by simp [rawDump], by simp [decode, rawNorm]⟩
  | .int i, _ => ⟨.int i, by simp [rawDump], by simp [decode, rawNorm]⟩
  | .flt f, _ => ⟨.flt f, by simp [rawDump], by simp [decode, rawNorm]⟩
  | .str s, _ => ⟨.str s, by simp [rawDump], by simp [decode, rawNorm]⟩
  | .list xs, h => by
    simp only [RawPlain] at h
    obtain ⟨js, h1, h2⟩ := raw_lossy_list xs h
    exact ⟨.arr js, by simp [rawDump, h1, bind, Except.bind, pure, Except.pure], by simp [decode, rawNorm, h2, bind, Except.bind, pure, Except.pure]⟩
  | .tuple xs, h => by
    simp only [RawPlain] at h
    obtain ⟨js, h1, h2⟩ := raw_lossy_list xs h
    exact ⟨.arr js, by simp [rawDump, h1, bind, Except.bind, pure, Except.pure], by simp [decode, rawNorm, h2, bind, Except.bind, pure, Except.pure]⟩
  | .dict kvs, h => by
    simp only [RawPlain] at h
    obtain ⟨o, h1, h2, h3⟩ := raw_lossy_kvs kvs h
    exact ⟨.obj o, by simp [rawDump, h1, bind, Except.bind, pure, Except.pure], by simp [decode, rawNorm, h2, h3, bind, Except.bind, pure, Except.pure]⟩
  | .set _, h => by simp [RawPlain] at h
  | .deque _, h => by simp [RawPlain] at h
  | .data _ _, h => by simp [RawPlain] at h
  | .railsConfig _, h => by simp [RawPlain] at h
  | .specType _, h => by simp [RawPlain] at h
  | .enum _ _, h => by simp [RawPlain] at h
  | .datetime _, h => by simp [RawPlain] at h
  | .action _ _ _ _ _ _ _, h => by simp [RawPlain] at h
  | .partialFn, h => by simp [RawPlain] at h
  | .regex _ _, h => by simp [RawPlain] at h
  | .cmp _ _, h => by simp [RawPlain] at h
  | .other _, h => by simp [RawPlain] at h
theorem raw_lossy_list : (xs : List PV) → RawPlainList xs = true → ∃ js, rawDumpList xs = .ok js ∧ decodeList js = .ok (rawNormList xs)
  | [], _ => ⟨[], by simp [rawDumpList], by simp [decodeList, rawNormList]⟩
  | x :: xs, h => by
    simp only [RawPlainList, Bool.and_eq_true] at h
    obtain ⟨j, h1, h2⟩ := raw_lossy x h.1
    obtain ⟨js, h3, h4⟩ := raw_lossy_list xs h.2
    exact ⟨j :: js, by simp [rawDumpList, h1, h3, bind, Except.bind, pure, Except.pure], by simp [decodeList, rawNormList, h2, h4, bind, Except.bind, pure, Except.pure]⟩
theorem raw_lossy_kvs : (kvs : List (Key × PV)) → RawPlainKvs kvs = true →
    ∃ o, rawDumpKvs kvs = .ok o ∧ decodePlain o = .ok (rawNormKvs kvs) ∧ typeTag o = none
  | [], _ => ⟨[], by simp [rawDumpKvs], by simp [decodePlain, rawNormKvs], by simp [typeTag]⟩
  | (k, v) :: rest, h => by
    simp only [RawPlainKvs, Bool.and_eq_true] at h
    obtain ⟨⟨hv, hk⟩, hr⟩ := h
    obtain ⟨j, h1, h2⟩ := raw_lossy v hv
    obtain ⟨o, h3, h4, h5⟩ := raw_lossy_kvs rest hr
    obtain ⟨s, hk1, hk2, hk3⟩ := keyPlain_spec hk
    exact ⟨(s, j) :: o, by simp [rawDumpKvs, h1, h3, hk1, bind, Except.bind, pure, Except.pure],
      by simp [decodePlain, rawNormKvs, h2, h4, hk2, bind, Except.bind, pure, Except.pure], by simp [typeTag, hk3, h5]⟩
end

theorem typeTag_none_of_plainKeys : (kvs : List (Key × PV)) → (o : List (String × J)) →
    plainKeys kvs = true → encodeKvs kvs = .ok o → typeTag o = none
  | [], o, _, h => by simp [encodeKvs] at h; subst h; simp [typeTag]
  | (k, v) :: rest, o, hn, h => by
    simp only [plainKeys, Bool.and_eq_true] at hn
    obtain ⟨s, hk1, _, hk3⟩ := keyPlain_spec hn.1
    simp only [encodeKvs, bind, Except.bind, hk1] at h
    split at h
    · simp at h
    · split at h
      · simp at h
      · rename_i j hj o' ho'
        simp [pure, Except.pure] at h
        subst h
        have := typeTag_none_of_plainKeys rest o' hn.2 ho'
        simp [typeTag, hk3, this]

mutual
theorem lossy : (v : PV) → Decodable v = true → ∃ j, encode v = .ok j ∧ decode j = .ok (norm v)
  | .none, _ => ⟨.null, by simp [encode], by simp [decode, norm]⟩
  | .bool b, _ => ⟨.bool b, by simp [encode], by simp [decode, norm]⟩
  | .int i, _ => ⟨.int i, by simp [encode], by simp [decode, norm]⟩
  | .flt f, _ => ⟨.flt f, by simp [encode], by simp [decode, norm]⟩
  | .str s, _ => ⟨.str s, by simp [encode], by simp [decode, norm]⟩
  | .partialFn, _ => ⟨.null, by simp [encode], by simp [decode, norm]⟩
  | .list xs, h => by
    simp only [Decodable] at h
    obtain ⟨js, h1, h2⟩ := lossy_list xs h
    exact ⟨.arr js, by simp [encode, h1, bind, Except.bind, pure, Except.pure], by simp [decode, norm, h2, bind, Except.bind, pure, Except.pure]⟩
  | .tuple xs, h => by
    simp only [Decodable] at h
    obtain ⟨js, h1, h2⟩ := lossy_list xs h
    refine ⟨wrap "tuple" (.arr js), by simp [encode, h1, bind, Except.bind, pure, Except.pure], ?_⟩
    have := builtin_tags_not_classes
    simp [wrap, decode, norm, typeTag, decodeAtValue, h2, this, bind, Except.bind, pure, Except.pure]
  | .set xs, h => by
    simp only [Decodable] at h
    obtain ⟨js, h1, h2⟩ := lossy_list xs h
    refine ⟨wrap "set" (.arr js), by simp [encode, h1, bind, Except.bind, pure, Except.pure], ?_⟩
    have := builtin_tags_not_classes
    simp [wrap, decode, norm, typeTag, decodeAtValue, h2, this, bind, Except.bind, pure, Except.pure]
  | .deque xs, h => by
    simp only [Decodable] at h
    obtain ⟨js, h1, h2⟩ := lossy_list xs h
    refine ⟨wrap "deque" (.arr js), by simp [encode, h1, bind, Except.bind, pure, Except.pure], ?_⟩
    have := builtin_tags_not_classes
    simp [wrap, decode, norm, typeTag, decodeAtValue, h2, this, bind, Except.bind, pure, Except.pure]
  | .dict kvs, h => by
    simp only [Decodable] at h
    have := builtin_tags_not_classes
    by_cases hs : allStr kvs = true
    · obtain ⟨o, h1, h2⟩ := lossy_vals kvs h hs
      refine ⟨wrap "dict" (.obj o), by simp [encode, hs, h1, bind, Except.bind, pure, Except.pure], ?_⟩
      simp [wrap, decode, norm, typeTag, hasKey, decodeItemsAtValue, h2, this, bind, Except.bind, pure, Except.pure]
    · obtain ⟨items, h1, h2⟩ := lossy_items kvs h
      refine ⟨.obj [("__type", .str "dict"), ("items", .arr items)], by simp [encode, hs, h1, bind, Except.bind, pure, Except.pure], ?_⟩
      simp [decode, norm, typeTag, hasKey, decodePairsAtItems, h2, this, bind, Except.bind, pure, Except.pure]
  | .regex p f, _ => by
    refine ⟨_, by simp [encode]; rfl, ?_⟩
    have := builtin_tags_not_classes
    simp [decode, norm, typeTag, strField, intField, this, bind, Except.bind, pure, Except.pure]
  | .railsConfig kvs, h => by
    simp only [Decodable] at h
    obtain ⟨o, h1, h2⟩ := lossy_kvs kvs h
    refine ⟨wrap "RailsConfig" (.obj o), by simp [encode, h1, bind, Except.bind, pure, Except.pure], ?_⟩
    simp [wrap, decode, norm, typeTag, decodeItemsAtValue, h2, bind, Except.bind, pure, Except.pure]
  | .data cls kvs, h => by
    simp only [Decodable, Bool.and_eq_true] at h
    obtain ⟨⟨⟨⟨hk, hnt⟩, hcls⟩, hres⟩, hctor⟩ := h
    obtain ⟨o, h1, h2⟩ := lossy_kvs kvs hk
    have h3 := typeTag_none_of_plainKeys kvs o hnt h1
    refine ⟨wrap cls (.obj o), by simp [encode, h1, bind, Except.bind, pure, Except.pure], ?_⟩
    simp [reservedTags] at hres
    obtain ⟨r1, r2, r3, r4, r5⟩ := hres
    simp [wrap, decode, norm, typeTag, decodeAtValue, h2, h3, r1, r2, r3, r4, r5, hcls, hctor, bind, Except.bind, pure, Except.pure]
  | .specType v, h => by
    simp only [Decodable] at h
    refine ⟨wrap "SpecType" (.str v), by simp [encode], ?_⟩
    have h' : v ∈ NemoVerif.Generated.C11.specTypeValues := by simpa using h
    simp [wrap, decode, norm, typeTag, strField, h', bind, Except.bind, pure, Except.pure]
  | .enum cls name, h => by
    simp only [Decodable] at h
    refine ⟨_, by simp [encode]; rfl, ?_⟩
    simp [decode, norm, typeTag, strField, h, bind, Except.bind, pure, Except.pure]
  | .datetime iso, _ => by
    refine ⟨wrap "datetime" (.str iso), by simp [encode], ?_⟩
    have := builtin_tags_not_classes
    simp [wrap, decode, norm, typeTag, strField, this, bind, Except.bind, pure, Except.pure]
  | .action uid name fu st ctx args sc, h => by
    simp only [Decodable, Bool.and_eq_true] at h
    obtain ⟨⟨hc, ha⟩, hs⟩ := h
    obtain ⟨jc, c1, c2⟩ := lossy ctx hc
    obtain ⟨ja, a1, a2⟩ := lossy args ha
    refine ⟨_, by simp [encode, c1, a1, bind, Except.bind, pure, Except.pure]; rfl, ?_⟩
    cases fu <;>
    simp [wrap, decode, norm, typeTag, decodeAtValue, decodePlain, optStrJ, c2, a2, lookup_action, hs, bind, Except.bind, pure, Except.pure]
  | .cmp op v, h => by
    simp only [Decodable, Bool.and_eq_true] at h
    obtain ⟨hop, hv⟩ := h
    have hop' : op ∈ NemoVerif.Generated.C11.comparisonOps := by simpa using hop
    have := builtin_tags_not_classes
    cases v <;> simp [numJ] at hv <;>
      exact ⟨_, by simp [encode, numJ, hop'] <;> rfl, by
        simp [decode, norm, typeTag, strField, fieldJ, numOfJ, hop', this, bind, Except.bind, pure, Except.pure]⟩
  | .other _, h => by simp [Decodable] at h
theorem lossy_list : (xs : List PV) → DecodableList xs = true → ∃ js, encodeList xs = .ok js ∧ decodeList js = .ok (normList xs)
  | [], _ => ⟨[], by simp [encodeList], by simp [decodeList, normList]⟩
  | x :: xs, h => by
    simp only [DecodableList, Bool.and_eq_true] at h
    obtain ⟨j, h1, h2⟩ := lossy x h.1
    obtain ⟨js, h3, h4⟩ := lossy_list xs h.2
    exact ⟨j :: js, by simp [encodeList, h1, h3, bind, Except.bind, pure, Except.pure], by simp [decodeList, normList, h2, h4, bind, Except.bind, pure, Except.pure]⟩
theorem lossy_kvs : (kvs : List (Key × PV)) → DecodableKvs kvs = true →
    ∃ o, encodeKvs kvs = .ok o ∧ decodePlain o = .ok (normKvs kvs)
  | [], _ => ⟨[], by simp [encodeKvs], by simp [decodePlain, normKvs]⟩
  | (k, v) :: rest, h => by
    simp only [DecodableKvs, Bool.and_eq_true] at h
    obtain ⟨⟨hv, hk⟩, hr⟩ := h
    obtain ⟨j, h1, h2⟩ := lossy v hv
    obtain ⟨o, h3, h4⟩ := lossy_kvs rest hr
    obtain ⟨s, hk1, hk2⟩ := keyStr_norm hk
    exact ⟨(s, j) :: o, by simp [encodeKvs, h1, h3, hk1, bind, Except.bind, pure, Except.pure],
      by simp [decodePlain, normKvs, h2, h4, hk2, bind, Except.bind, pure, Except.pure]⟩
theorem lossy_vals : (kvs : List (Key × PV)) → DecodableVals kvs = true → allStr kvs = true →
    ∃ o, encodeVals kvs = .ok o ∧ decodePlain o = .ok (normVals kvs)
  | [], _, _ => ⟨[], by simp [encodeVals], by simp [decodePlain, normVals]⟩
  | (k, v) :: rest, h, hs => by
    simp only [DecodableVals, Bool.and_eq_true] at h
    obtain ⟨hk, hr⟩ := allStr_cons hs
    obtain ⟨j, h1, h2⟩ := lossy v h.1
    obtain ⟨o, h3, h4⟩ := lossy_vals rest h.2 hr
    obtain ⟨_, hk2⟩ := keyStr_str hk
    exact ⟨(keyName k, j) :: o, by simp [encodeVals, h1, h3, bind, Except.bind, pure, Except.pure],
      by simp [decodePlain, normVals, h2, h4, hk2, bind, Except.bind, pure, Except.pure]⟩
theorem lossy_items : (kvs : List (Key × PV)) → DecodableVals kvs = true →
    ∃ items, encodeItems kvs = .ok items ∧ decodePairs items = .ok (normVals kvs)
  | [], _ => ⟨[], by simp [encodeItems], by simp [decodePairs, normVals]⟩
  | (k, v) :: rest, h => by
    simp only [DecodableVals, Bool.and_eq_true] at h
    obtain ⟨j, h1, h2⟩ := lossy v h.1
    obtain ⟨items, h3, h4⟩ := lossy_items rest h.2
    exact ⟨.arr [encodeKey k, j] :: items, by simp [encodeItems, h1, h3, bind, Except.bind, pure, Except.pure],
      by simp [decodePairs, normVals, decode_encodeKey, keyOfPV_toPV, h2, h4, bind, Except.bind, pure, Except.pure]⟩
end


/-! ### on `Encodable` values nothing is lost -/
theorem normKey_str {k : Key} (h : k.isStr = true) : normKey k = k := by
  cases k <;> simp_all [Key.isStr, normKey]

mutual
theorem rawNorm_id : (v : PV) → RawOk v = true → rawNorm v = v
  | .none, _ | .bool _, _ | .int _, _ | .flt _, _ | .str _, _ => by simp [rawNorm]
  | .list xs, h => by simp only [RawOk] at h; simp [rawNorm, rawNormList_id xs h]
  | .dict kvs, h => by simp only [RawOk] at h; simp [rawNorm, rawNormKvs_id kvs h]
  | .tuple _, h | .set _, h | .deque _, h | .data _ _, h | .railsConfig _, h | .specType _, h | .enum _ _, h
  | .datetime _, h | .action _ _ _ _ _ _ _, h | .partialFn, h | .regex _ _, h | .cmp _ _, h | .other _, h => by
    simp [RawOk] at h
theorem rawNormList_id : (xs : List PV) → RawOkList xs = true → rawNormList xs = xs
  | [], _ => rfl
  | x :: xs, h => by
    simp only [RawOkList, Bool.and_eq_true] at h
    simp [rawNormList, rawNorm_id x h.1, rawNormList_id xs h.2]
theorem rawNormKvs_id : (kvs : List (Key × PV)) → RawOkKvs kvs = true → rawNormKvs kvs = kvs
  | [], _ => rfl
  | (k, v) :: rest, h => by
    simp only [RawOkKvs, Bool.and_eq_true] at h
    simp [rawNormKvs, rawNorm_id v h.1.1.1, normKey_str h.1.1.2, rawNormKvs_id rest h.2]
end

mutual
theorem norm_id : (v : PV) → Encodable v = true → norm v = v
  | .none, _ | .bool _, _ | .int _, _ | .flt _, _ | .str _, _ | .datetime _, _ | .specType _, _ | .enum _ _, _
  | .regex _ _, _ => by
    simp [norm]
  | .list xs, h => by simp only [Encodable] at h; simp [norm, normList_id xs h]
  | .tuple xs, h => by simp only [Encodable] at h; simp [norm, normList_id xs h]
  | .set xs, h => by simp only [Encodable] at h; simp [norm, normList_id xs h]
  | .deque xs, h => by simp only [Encodable] at h; simp [norm, normList_id xs h]
  | .dict kvs, h => by simp only [Encodable] at h; simp [norm, normVals_id kvs h]
  | .railsConfig kvs, h => by simp only [Encodable] at h; simp [norm, normKvs_id kvs h]
  | .data cls kvs, h => by
    simp only [Encodable, Bool.and_eq_true] at h
    simp [norm, normKvs_id kvs h.1.1.1.1]
  | .action _ _ _ _ ctx args _, h => by
    simp only [Encodable, Bool.and_eq_true] at h
    simp [norm, norm_id ctx h.1.1, norm_id args h.1.2]
  | .cmp _ _, _ => by simp [norm]
  | .partialFn, h | .other _, h => by simp [Encodable] at h
theorem normList_id : (xs : List PV) → EncodableList xs = true → normList xs = xs
  | [], _ => rfl
  | x :: xs, h => by
    simp only [EncodableList, Bool.and_eq_true] at h
    simp [normList, norm_id x h.1, normList_id xs h.2]
theorem normKvs_id : (kvs : List (Key × PV)) → EncodableKvs kvs = true → normKvs kvs = kvs
  | [], _ => rfl
  | (k, v) :: rest, h => by
    simp only [EncodableKvs, Bool.and_eq_true] at h
    simp [normKvs, norm_id v h.1.1, normKey_str h.1.2, normKvs_id rest h.2]
theorem normVals_id : (kvs : List (Key × PV)) → EncodableVals kvs = true → normVals kvs = kvs
  | [], _ => rfl
  | (k, v) :: rest, h => by
    simp only [EncodableVals, Bool.and_eq_true] at h
    simp [normVals, norm_id v h.1, normVals_id rest h.2]
end

end NemoVerif.Serialize
