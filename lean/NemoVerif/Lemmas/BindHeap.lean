/-
  C08 — lemmas about the heap interpreter (`Models/BindHeap.lean`): defaults are fresh objects,
  frame of in-place mutation.
-/
import NemoVerif.Lemmas.Bind
import NemoVerif.Models.BindHeap
namespace NemoVerif.Bind
open NemoVerif

theorem lookup_derefCtx (h : Heap) (k : Key) : ∀ c : Ctx, lookup k (derefCtx h c) = (lookup k c).map (deref h)
  | [] => rfl
  | (k', v) :: r => by
    simp only [derefCtx, List.map_cons, lookup]
    split
    · rfl
    · exact lookup_derefCtx h k r

theorem deref_addr (h : Heap) (a : Nat) : deref h (addr a) = h.getD a .none := rfl

theorem deref_none (h : Heap) : deref h .none = .none := rfl

theorem pnames_allocDefaults : ∀ (ps : List Param) (h : Heap), pnames (allocDefaults h ps).2 = pnames ps
  | [], _ => rfl
  | p :: ps, h => by
    simp only [allocDefaults]
    split
    · simp only [pnames, List.map_cons]; congr 1; exact pnames_allocDefaults ps _
    · simp only [pnames, List.map_cons]; congr 1; exact pnames_allocDefaults ps _

theorem allocDefaults_prefix : ∀ (ps : List Param) (h : Heap), ∃ ext, (allocDefaults h ps).1 = h ++ ext
  | [], h => ⟨[], by simp [allocDefaults]⟩
  | p :: ps, h => by
    simp only [allocDefaults]
    split
    · obtain ⟨ext, he⟩ := allocDefaults_prefix ps (h ++ [p.dfltVal])
      exact ⟨p.dfltVal :: ext, by simp [he]⟩
    · exact allocDefaults_prefix ps h

theorem getD_append_left (h ext : Heap) (a : Nat) (ha : a < h.length) : (h ++ ext).getD a Val.none = h.getD a Val.none := by
  simp [List.getD_eq_getElem?_getD, List.getElem?_append_left ha]

theorem length_allocDefaults : ∀ (ps : List Param) (h : Heap), (allocDefaults h ps).2.length = ps.length
  | [], _ => rfl
  | p :: ps, h => by
    simp only [allocDefaults]
    split <;> simp [length_allocDefaults ps]

/-- what `allocDefaults` hands to the binding functions: same names; a parameter without default keeps
    `None`; a declared default is a NEW address (beyond every cell that existed) whose cell holds the
    default's value -/
theorem allocDefaults_spec : ∀ (ps : List Param) (h : Heap) (i : Nat) (hi : i < ps.length),
    ∃ hi' : i < (allocDefaults h ps).2.length,
      ((allocDefaults h ps).2[i]'hi').name = ps[i].name ∧
      (ps[i].dflt = none → ((allocDefaults h ps).2[i]'hi').dfltVal = .none ∧ ps[i].dfltVal = .none) ∧
      (ps[i].dflt.isSome → ∃ a, h.length ≤ a ∧ ((allocDefaults h ps).2[i]'hi').dfltVal = addr a ∧
          (allocDefaults h ps).1[a]? = some ps[i].dfltVal)
  | [], _, _, hi => by simp at hi
  | p :: ps, h, 0, _ => by
    refine ⟨by rw [length_allocDefaults]; simp, ?_⟩
    cases hd : p.dflt with
    | none =>
      simp only [allocDefaults, hd, List.getElem_cons_zero]
      refine ⟨trivial, fun _ => ?_, fun hs => by simp at hs⟩
      simp [Param.dfltVal, hd]
    | some e =>
      simp only [allocDefaults, hd, List.getElem_cons_zero]
      refine ⟨trivial, fun hn => by simp at hn, fun _ => ⟨h.length, Nat.le_refl _, ?_, ?_⟩⟩
      · simp [Param.dfltVal, eval]
      · obtain ⟨ext, he⟩ := allocDefaults_prefix ps (h ++ [p.dfltVal])
        rw [he]; simp
  | p :: ps, h, i + 1, hi => by
    have hi0 : i < ps.length := by simpa using hi
    cases hd : p.dflt with
    | none =>
      obtain ⟨hi', h1, h2, h3⟩ := allocDefaults_spec ps h i hi0
      refine ⟨by rw [length_allocDefaults]; exact hi, ?_⟩
      simp only [allocDefaults, hd, List.getElem_cons_succ]
      exact ⟨h1, h2, h3⟩
    | some e =>
      obtain ⟨hi', h1, h2, h3⟩ := allocDefaults_spec ps (h ++ [p.dfltVal]) i hi0
      refine ⟨by rw [length_allocDefaults]; exact hi, ?_⟩
      simp only [allocDefaults, hd, List.getElem_cons_succ]
      refine ⟨h1, h2, fun hs => ?_⟩
      obtain ⟨a, ha, h4, h5⟩ := h3 hs
      exact ⟨a, by simp at ha; omega, h4, h5⟩

theorem mem_pnames_of_mem {ps : List Param} {m : Param} (h : m ∈ ps) : m.name ∈ pnames ps :=
  List.mem_map.2 ⟨m, h, rfl⟩

theorem wellFormedCall_allocDefaults (params rets : List Param) (ua : Ctx) (k : Nat) (h h' : Heap)
    (hwf : WellFormedCall params rets ua k) :
    WellFormedCall (allocDefaults h params).2 (allocDefaults h' rets).2 ua k := by
  obtain ⟨hnd, hctx, hrets, hk, hpos, hnopos⟩ := hwf
  refine ⟨by rw [pnames_allocDefaults]; exact hnd, hctx, ?_, by rw [length_allocDefaults]; exact hk, hpos, hnopos⟩
  intro m hm
  rw [pnames_allocDefaults]
  have : m.name ∈ pnames rets := by rw [← pnames_allocDefaults rets h']; exact mem_pnames_of_mem hm
  obtain ⟨m', hm', he⟩ := List.mem_map.1 this
  rw [← he]; exact hrets m' hm'

/-- **Defaults are fresh, one call.**  Whatever the heap `h` holds (i.e. whatever earlier instances did
    to whatever objects), a well-formed call binds every OMITTED parameter `i` (not among the `k`
    positionals, not named) to its declared default: the callee's entry context, read in the heap of that
    moment, shows `params[i].dfltVal`; and when a default is declared the parameter refers to a NEW object
    — an address beyond every cell that existed before the call, so no other variable of any instance
    refers to it. -/
theorem defaults_fresh_call (h : Heap) (params rets : List Param) (ua : Ctx) (k : Nat) (form : CallForm)
    (flow : String) (n caller : Nat) (hwf : WellFormedCall params rets ua k) :
    ∃ f0 f, createFlowInstance flow (allocDefaults h params).2 (allocDefaults (allocDefaults h params).1 rets).2
          (startArgs ua form flow n caller) = .ok f0 ∧
      startFlow false (startArgs ua form flow n caller) f0 = .ok f ∧
      ∀ i (hi : i < params.length), k ≤ i → lookup (argKey params[i].name) ua = none →
        lookup (.name params[i].name) (derefCtx (allocDefaults (allocDefaults h params).1 rets).1 f.context)
          = some params[i].dfltVal ∧
        (params[i].dflt.isSome → ∃ a, h.length ≤ a ∧ lookup (.name params[i].name) f.context = some (addr a)) := by
  have hwf' := wellFormedCall_allocDefaults params rets ua k h (allocDefaults h params).1 hwf
  obtain ⟨f0, f, h1, h2, h3, _⟩ := bind_spec_core flow _ _ _ k (wellFormed_of_call _ _ ua k form flow n caller hwf')
  refine ⟨f0, f, h1, h2, fun i hi hki hnamed => ?_⟩
  obtain ⟨hi', hname, hnone, hsome⟩ := allocDefaults_spec params h i hi
  have hctx : lookup (.name params[i].name) f.context = some ((allocDefaults h params).2[i]'hi').dfltVal := by
    have := h3 i hi'
    rw [hname, specVal_startArgs] at this
    rw [this]
    simp only [specVal, Nat.not_lt.2 hki, if_false, namedVal, hname, hnamed]
  obtain ⟨ext, hext⟩ := allocDefaults_prefix rets (allocDefaults h params).1
  constructor
  · rw [lookup_derefCtx, hctx, Option.map_some]
    cases hd : params[i].dflt with
    | none => obtain ⟨e1, e2⟩ := hnone hd; rw [e1, e2]; rfl
    | some e =>
      obtain ⟨a, _, e1, e2⟩ := hsome (by simp [hd])
      have ha : a < (allocDefaults h params).1.length := by
        rcases Nat.lt_or_ge a (allocDefaults h params).1.length with hlt | hge
        · exact hlt
        · rw [List.getElem?_eq_none hge] at e2; cases e2
      rw [e1, deref_addr, hext, getD_append_left _ _ _ ha, List.getD_eq_getElem?_getD, e2]; rfl
  · intro hs
    obtain ⟨a, ha, e1, _⟩ := hsome hs
    exact ⟨a, ha, by rw [hctx, e1]⟩

/-! ### defaults are fresh in every call of every history -/

/-- the statement's rule for omitted parameters, on one recorded callee entry -/
def EntryOK (flows : List (String × HFlowDef)) (e : Entry) : Prop :=
  ∀ d, findHFlow e.flow flows = some d → ∀ k, WellFormedCall d.params d.rets e.ua k →
    ∀ i (hi : i < d.params.length), k ≤ i → lookup (argKey d.params[i].name) e.ua = none →
      lookup (.name d.params[i].name) e.ctx = some d.params[i].dfltVal

/-- every entry recorded on the way from `s` to `s'` obeys the rule -/
def EntriesOK (flows : List (String × HFlowDef)) (s s' : HSt) : Prop :=
  ∀ e ∈ s'.entries, e ∈ s.entries ∨ EntryOK flows e

theorem EntriesOK.of_eq {flows : List (String × HFlowDef)} {s s' : HSt} (h : s'.entries = s.entries) : EntriesOK flows s s' :=
  fun _ he => Or.inl (h ▸ he)

theorem EntriesOK.trans {flows : List (String × HFlowDef)} {a b c : HSt} (h1 : EntriesOK flows a b) (h2 : EntriesOK flows b c) :
    EntriesOK flows a c := fun e he =>
  match h2 e he with
  | .inl hb => h1 e hb
  | .inr ok => .inr ok

theorem hexec_entriesOK (flows : List (String × HFlowDef)) : ∀ (fuel : Nat) (s : HSt) (u : Nat) (body : List HStmt),
    EntriesOK flows s (hexec flows fuel s u body).1
  | 0, s, u, body => by simp only [hexec]; exact .of_eq rfl
  | fuel + 1, s, u, [] => by simp only [hexec]; exact .of_eq rfl
  | fuel + 1, s, u, stmt :: rest => by
    cases stmt with
    | assign k e =>
      simp only [hexec]
      exact EntriesOK.trans (.of_eq rfl) (hexec_entriesOK flows fuel _ u rest)
    | global x =>
      simp only [hexec]
      exact EntriesOK.trans (.of_eq rfl) (hexec_entriesOK flows fuel _ u rest)
    | ret e => simp only [hexec]; exact .of_eq rfl
    | send name args =>
      simp only [hexec]
      exact EntriesOK.trans (.of_eq rfl) (hexec_entriesOK flows fuel _ u rest)
    | block => simp only [hexec]; exact .of_eq rfl
    | «mut» x path m ret =>
      simp only [hexec]
      split
      · split
        · exact .of_eq rfl
        · split
          · exact .of_eq rfl
          · exact EntriesOK.trans (.of_eq rfl) (hexec_entriesOK flows fuel _ u rest)
      · exact .of_eq rfl
    | call form retVar flow pos named =>
      simp only [hexec]
      split
      · exact .of_eq rfl
      · rename_i d hd
        split
        · exact .of_eq rfl
        · rename_i f0 hf0
          split
          · exact .of_eq rfl
          · rename_i f1 hf1
            -- the new entry obeys the rule
            have hnew : EntriesOK flows s { (s.addInst s.st.next f1 (allocDefaults (allocDefaults (userArgsH s.heap s.st.globals (s.st.ctxOf u) pos named).1 d.params).1 d.rets).1) with
                entries := s.entries ++ [Entry.mk s.st.next flow (userArgsH s.heap s.st.globals (s.st.ctxOf u) pos named).2
                  (derefCtx (allocDefaults (allocDefaults (userArgsH s.heap s.st.globals (s.st.ctxOf u) pos named).1 d.params).1 d.rets).1 f1.context)] } := by
              intro e he
              simp only [List.mem_append, List.mem_singleton] at he
              rcases he with he | he
              · exact .inl he
              · right
                subst he
                intro d' hd' k hwf i hi hki hnamed
                simp only at hd'
                rw [hd] at hd'
                injection hd' with hd'
                subst hd'
                obtain ⟨g0, g1, e0, e1, hspec⟩ := defaults_fresh_call (userArgsH s.heap s.st.globals (s.st.ctxOf u) pos named).1 d.params d.rets _ k form flow s.st.next u hwf
                rw [hf0] at e0
                injection e0 with e0
                subst e0
                rw [hf1] at e1
                injection e1 with e1
                subst e1
                exact (hspec i hi hki hnamed).1
            have g2 := hnew.trans (hexec_entriesOK flows fuel _ s.st.next d.body)
            split
            · exact g2
            · exact g2
            · exact g2
            · split
              · exact g2
              · split
                · exact g2.trans (hexec_entriesOK flows fuel _ u rest)
                · split
                  · exact g2
                  · split
                    · exact g2
                    · split
                      · exact g2.trans (hexec_entriesOK flows fuel _ u rest)
                      · split
                        · exact g2
                        · exact g2.trans (EntriesOK.trans (.of_eq rfl) (hexec_entriesOK flows fuel _ u rest))

/-! ### provenance: the binding functions only MOVE values -/

def AllVals (P : Val → Prop) (c : Ctx) : Prop := ∀ kv ∈ c, P kv.2

theorem AllVals.nil (P : Val → Prop) : AllVals P [] := fun _ h => by cases h

theorem AllVals.set {P : Val → Prop} {c : Ctx} (hc : AllVals P c) (k : Key) {v : Val} (hv : P v) : AllVals P (set k v c) := by
  induction c with
  | nil => intro kv h; simp only [Bind.set, List.mem_singleton] at h; subst h; exact hv
  | cons x r ih =>
    obtain ⟨k', v'⟩ := x
    simp only [Bind.set]
    split
    · intro kv h
      simp only [List.mem_cons] at h
      rcases h with h | h
      · subst h; exact hv
      · exact hc kv (List.mem_cons_of_mem _ h)
    · intro kv h
      simp only [List.mem_cons] at h
      rcases h with h | h
      · subst h; exact hc _ (List.mem_cons_self)
      · exact ih (fun kv h => hc kv (List.mem_cons_of_mem _ h)) kv h

theorem AllVals.lookup {P : Val → Prop} {c : Ctx} (hc : AllVals P c) {k : Key} {v : Val} (h : lookup k c = some v) : P v := by
  induction c with
  | nil => simp [Bind.lookup] at h
  | cons x r ih =>
    obtain ⟨k', v'⟩ := x
    simp only [Bind.lookup] at h
    split at h
    · injection h with h; subst h; exact hc _ (List.mem_cons_self)
    · exact ih (fun kv h => hc kv (List.mem_cons_of_mem _ h)) h

theorem AllVals.update {P : Val → Prop} {new : Ctx} (hn : AllVals P new) : ∀ {c : Ctx}, AllVals P c → AllVals P (update c new) := by
  induction new with
  | nil => intro c hc; exact hc
  | cons x r ih =>
    intro c hc
    simp only [Bind.update, List.foldl_cons]
    exact ih (fun kv h => hn kv (List.mem_cons_of_mem _ h)) (hc.set x.1 (hn x List.mem_cons_self))

theorem allVals_bindNamed {P : Val → Prop} {ev : Ctx} (hev : AllVals P ev) : ∀ (ps : List Param) (a c : Ctx),
    (∀ p ∈ ps, P p.dfltVal) → AllVals P a → AllVals P c →
    AllVals P (bindNamed ev ps (a, c)).1 ∧ AllVals P (bindNamed ev ps (a, c)).2
  | [], a, c, _, ha, hc => ⟨ha, hc⟩
  | p :: ps, a, c, hp, ha, hc => by
    simp only [bindNamed]
    have hv : P (match Bind.lookup (argKey p.name) ev with | some v => v | none => p.dfltVal) := by
      split
      · rename_i v hv; exact hev.lookup hv
      · exact hp p List.mem_cons_self
    exact allVals_bindNamed hev ps _ _ (fun q hq => hp q (List.mem_cons_of_mem _ hq)) (ha.set _ hv) (hc.set _ hv)

theorem allVals_bindPos {P : Val → Prop} {ev : Ctx} (hev : AllVals P ev) : ∀ (ps : List Param) (i : Nat) (a : Ctx),
    AllVals P a → AllVals P (bindPos ev ps i a)
  | [], _, a, ha => ha
  | p :: ps, i, a, ha => by
    simp only [bindPos]
    split
    · rename_i v hv
      exact allVals_bindPos hev ps (i + 1) _ ((ha.set _ (hev.lookup hv)).set _ (hev.lookup hv))
    · exact allVals_bindPos hev ps (i + 1) a ha

theorem allVals_bindRet {P : Val → Prop} : ∀ (ms : List Param) (c : Ctx),
    (∀ m ∈ ms, P m.dfltVal) → AllVals P c → AllVals P (bindRet ms c)
  | [], c, _, hc => hc
  | m :: ms, c, hm, hc => by
    simp only [bindRet]
    exact allVals_bindRet ms _ (fun q hq => hm q (List.mem_cons_of_mem _ hq)) (hc.set _ (hm m List.mem_cons_self))

theorem allVals_startLoop {P : Val → Prop} {ev : Ctx} (hev : AllVals P ev) : ∀ (ks : List Key) (idx : Nat) (c : Ctx),
    AllVals P c → AllVals P (startLoop ev ks idx c).1
  | [], _, c, hc => hc
  | a :: rest, idx, c, hc => by
    simp only [startLoop]
    split
    · rename_i v hv; exact allVals_startLoop hev rest (idx + 1) _ (hc.set _ (hev.lookup hv))
    · exact hc

/-- values that are moved around: never an immediate dict (user values are boxed) -/
theorem allVals_createFlowInstance {P : Val → Prop} (hnd : ∀ v, P v → isDict v = false) {ev : Ctx} (hev : AllVals P ev)
    (fid : String) (params rets : List Param) (hp : ∀ p ∈ params, P p.dfltVal) (hr : ∀ m ∈ rets, P m.dfltVal)
    {f : Inst} (h : createFlowInstance fid params rets ev = .ok f) : AllVals P f.arguments ∧ AllVals P f.context := by
  simp only [createFlowInstance] at h
  split at h
  · cases h
  · rename_i c0 hc0
    have hc0' : AllVals P c0 := by
      simp only [startCtx] at hc0
      split at hc0
      · rename_i shared hs
        split at hc0
        · cases hc0
        · have := hnd shared (hev.lookup hs)
          split at hc0
          · simp [isDict] at this
          · cases hc0
      · injection hc0 with hc0; subst hc0; exact .nil P
    injection h with h
    subst h
    have hb := allVals_bindNamed hev params [] c0 hp (.nil P) hc0'
    exact ⟨allVals_bindPos hev params 0 _ hb.1, allVals_bindRet rets _ hr hb.2⟩

theorem allVals_startFlow {P : Val → Prop} {ev : Ctx} (hev : AllVals P ev) {f f' : Inst}
    (ha : AllVals P f.arguments) (hc : AllVals P f.context) (h : startFlow false ev f = .ok f') :
    AllVals P f'.arguments ∧ AllVals P f'.context := by
  simp only [startFlow, Bool.false_eq_true, if_false] at h
  split at h
  · split at h
    · cases h
    · injection h with h; subst h
      exact ⟨ha, allVals_startLoop hev _ 0 _ hc⟩
  · cases h

/-! ### frame of in-place mutation -/

/-- a value that may be stored in a context of the region `A`: if it is an address, the address is in `A`;
    and it is not an immediate dict (user values are boxed) -/
def PA (A : Nat → Prop) (v : Val) : Prop := (∀ a, v = addr a → A a) ∧ isDict v = false

theorem PA.none (A : Nat → Prop) : PA A .none := ⟨fun _ h => (by simp [Bind.addr] at h), rfl⟩
theorem PA.str (A : Nat → Prop) (s : String) : PA A (.str s) := ⟨fun _ h => (by simp [Bind.addr] at h), rfl⟩
theorem PA.bool (A : Nat → Prop) (b : Bool) : PA A (.bool b) := ⟨fun _ h => (by simp [Bind.addr] at h), rfl⟩
theorem PA.addr {A : Nat → Prop} {a : Nat} (h : A a) : PA A (addr a) :=
  ⟨fun b e => by simp only [Bind.addr, Val.int.injEq, Int.ofNat_eq_natCast, Int.natCast_inj] at e; exact e ▸ h, rfl⟩

theorem PA.evalVar {A : Nat → Prop} {g c : Ctx} (hg : AllVals (PA A) g) (hc : AllVals (PA A) c) (x : String) :
    PA A (evalVar g c x) := by
  simp only [Bind.evalVar]
  split
  · cases h : lookup (.name x) g with
    | none => exact .none A
    | some v => exact hg.lookup h
  · cases h : lookup (.name x) c with
    | none => exact .none A
    | some v => exact hc.lookup h

/-- heap `h'` extends `h` and everything beyond `h` is in the region -/
def Ext (h h' : Heap) : Prop := ∃ ext, h' = h ++ ext

theorem Ext.refl (h : Heap) : Ext h h := ⟨[], by simp⟩
theorem Ext.trans {a b c : Heap} (h1 : Ext a b) (h2 : Ext b c) : Ext a c := by
  obtain ⟨e1, rfl⟩ := h1; obtain ⟨e2, rfl⟩ := h2; exact ⟨e1 ++ e2, by simp⟩
theorem Ext.len {h h' : Heap} (e : Ext h h') : h.length ≤ h'.length := by
  obtain ⟨ext, rfl⟩ := e; simp
theorem Ext.get {h h' : Heap} (e : Ext h h') {a : Nat} (ha : a < h.length) : h'[a]? = h[a]? := by
  obtain ⟨ext, rfl⟩ := e; exact List.getElem?_append_left ha
theorem Ext.alloc (h : Heap) (v : Val) : Ext h (alloc h v).1 := ⟨[v], rfl⟩

theorem PA.alloc {A : Nat → Prop} {h : Heap} (hA : ∀ a, h.length ≤ a → A a) (v : Val) : PA A (alloc h v).2 :=
  PA.addr (hA _ (Nat.le_refl _))

theorem evalH_spec {A : Nat → Prop} {h : Heap} (hA : ∀ a, h.length ≤ a → A a) {g c : Ctx}
    (hg : AllVals (PA A) g) (hc : AllVals (PA A) c) (e : Expr) :
    Ext h (evalH h g c e).1 ∧ PA A (evalH h g c e).2 := by
  cases e with
  | var x =>
    simp only [evalH]
    split
    · exact ⟨Ext.alloc _ _, PA.alloc hA _⟩
    · exact ⟨Ext.refl _, PA.evalVar hg hc x⟩
  | lit v => exact ⟨Ext.alloc _ _, PA.alloc hA _⟩
  | list1 a => exact ⟨Ext.alloc _ _, PA.alloc hA _⟩
  | list2 a b => exact ⟨Ext.alloc _ _, PA.alloc hA _⟩

theorem hA_ext {A : Nat → Prop} {h h' : Heap} (hA : ∀ a, h.length ≤ a → A a) (e : Ext h h') : ∀ a, h'.length ≤ a → A a :=
  fun a ha => hA a (Nat.le_trans e.len ha)

theorem posArgsH_spec {A : Nat → Prop} {g c : Ctx} (hg : AllVals (PA A) g) (hc : AllVals (PA A) c) :
    ∀ (es : List Expr) (h : Heap) (i : Nat), (∀ a, h.length ≤ a → A a) →
      Ext h (posArgsH g c h es i).1 ∧ AllVals (PA A) (posArgsH g c h es i).2
  | [], h, _, _ => ⟨Ext.refl _, .nil _⟩
  | e :: es, h, i, hA => by
    simp only [posArgsH]
    obtain ⟨e1, p1⟩ := evalH_spec hA hg hc e
    obtain ⟨e2, p2⟩ := posArgsH_spec hg hc es _ (i + 1) (hA_ext hA e1)
    refine ⟨e1.trans e2, ?_⟩
    intro kv hkv
    simp only [List.mem_cons] at hkv
    rcases hkv with hkv | hkv
    · subst hkv; exact p1
    · exact p2 kv hkv

theorem namedArgsH_spec {A : Nat → Prop} {g c : Ctx} (hg : AllVals (PA A) g) (hc : AllVals (PA A) c) :
    ∀ (es : List (String × Expr)) (h : Heap), (∀ a, h.length ≤ a → A a) →
      Ext h (namedArgsH g c h es).1 ∧ AllVals (PA A) (namedArgsH g c h es).2
  | [], h, _ => ⟨Ext.refl _, .nil _⟩
  | e :: es, h, hA => by
    simp only [namedArgsH]
    obtain ⟨e1, p1⟩ := evalH_spec hA hg hc e.2
    obtain ⟨e2, p2⟩ := namedArgsH_spec hg hc es _ (hA_ext hA e1)
    refine ⟨e1.trans e2, ?_⟩
    intro kv hkv
    simp only [List.mem_cons] at hkv
    rcases hkv with hkv | hkv
    · subst hkv; exact p1
    · exact p2 kv hkv

theorem userArgsH_spec {A : Nat → Prop} {g c : Ctx} (hg : AllVals (PA A) g) (hc : AllVals (PA A) c)
    (h : Heap) (hA : ∀ a, h.length ≤ a → A a) (pos : List Expr) (named : List (String × Expr)) :
    Ext h (userArgsH h g c pos named).1 ∧ AllVals (PA A) (userArgsH h g c pos named).2 := by
  simp only [userArgsH]
  obtain ⟨e1, p1⟩ := posArgsH_spec hg hc pos h 0 hA
  obtain ⟨e2, p2⟩ := namedArgsH_spec hg hc named _ (hA_ext hA e1)
  exact ⟨e1.trans e2, AllVals.update p2 p1⟩

theorem startArgs_allVals {A : Nat → Prop} {ua : Ctx} (h : AllVals (PA A) ua) (form : CallForm) (flow : String) (n caller : Nat) :
    AllVals (PA A) (startArgs ua form flow n caller) := by
  simp only [startArgs, matchArgs, uidVal]
  refine AllVals.set (AllVals.set (AllVals.set ?_ _ (.str A _)) _ (.str A _)) _ (.str A _)
  split
  · exact AllVals.set (AllVals.set (AllVals.set h _ (.str A _)) _ (.str A _)) _ (.bool A _)
  · exact AllVals.set (AllVals.set h _ (.str A _)) _ (.str A _)

theorem allocDefaults_allVals {A : Nat → Prop} : ∀ (ps : List Param) (h : Heap), (∀ a, h.length ≤ a → A a) →
    Ext h (allocDefaults h ps).1 ∧ ∀ p ∈ (allocDefaults h ps).2, PA A p.dfltVal
  | [], h, _ => ⟨Ext.refl _, fun p hp => by cases hp⟩
  | p :: ps, h, hA => by
    simp only [allocDefaults]
    split
    · obtain ⟨e1, p1⟩ := allocDefaults_allVals ps (h ++ [p.dfltVal]) (hA_ext hA ⟨[p.dfltVal], rfl⟩)
      refine ⟨Ext.trans ⟨[p.dfltVal], rfl⟩ e1, fun q hq => ?_⟩
      simp only [List.mem_cons] at hq
      rcases hq with hq | hq
      · subst hq; simp only [Param.dfltVal, eval]; exact PA.addr (hA _ (Nat.le_refl _))
      · exact p1 q hq
    · rename_i hd
      obtain ⟨e1, p1⟩ := allocDefaults_allVals ps h hA
      refine ⟨e1, fun q hq => ?_⟩
      simp only [List.mem_cons] at hq
      rcases hq with hq | hq
      · subst hq; simp only [Param.dfltVal, hd]; exact .none A
      · exact p1 q hq

theorem finishedArgs_allVals {A : Nat → Prop} (n : Nat) {f : Inst} (ha : AllVals (PA A) f.arguments) (hc : AllVals (PA A) f.context) :
    AllVals (PA A) (finishedArgs (uidVal n) f) := by
  simp only [finishedArgs, uidVal]
  have hb : AllVals (PA A) (update [(Key.name "source_flow_instance_uid", Val.str ("#" ++ toString n)),
      (Key.name "flow_instance_uid", Val.str ("#" ++ toString n)), (Key.name "flow_id", Val.str f.flowId)] f.arguments) := by
    refine AllVals.update ha ?_
    intro kv hkv
    simp only [List.mem_cons, List.not_mem_nil, or_false] at hkv
    rcases hkv with hkv | hkv | hkv <;> subst hkv <;> exact .str A _
  split
  · rename_i v hv; exact hb.set _ (hc.lookup hv)
  · exact hb

theorem assignCtx_allVals {A : Nat → Prop} {g c : Ctx} (hg : AllVals (PA A) g) (hc : AllVals (PA A) c) (k : String) {v : Val}
    (hv : PA A v) : AllVals (PA A) (assignCtx k v g c).1 ∧ AllVals (PA A) (assignCtx k v g c).2 := by
  simp only [assignCtx]
  split
  · exact ⟨hg.set _ hv, hc⟩
  · exact ⟨hg, hc.set _ hv⟩

theorem globalCtx_allVals {A : Nat → Prop} {g c : Ctx} (hg : AllVals (PA A) g) (hc : AllVals (PA A) c) (x : String) :
    AllVals (PA A) (globalCtx x g c).1 ∧ AllVals (PA A) (globalCtx x g c).2 := by
  simp only [globalCtx]
  refine ⟨?_, hc.set _ (.none A)⟩
  split
  · exact hg
  · exact hg.set _ (.none A)

/-- instance `u` exists and everything it holds (context and `arguments`) is in the region -/
def InstIn (A : Nat → Prop) (s : HSt) (u : Nat) : Prop :=
  ∃ f, findInst u s.st.insts = some f ∧ AllVals (PA A) f.context ∧ AllVals (PA A) f.arguments

/-- the region `A` is closed for instance `u` in state `s`: it contains every address `u` can reach —
    its own variables, the global variables — and every address not yet allocated -/
structure Pre (A : Nat → Prop) (s : HSt) (u : Nat) : Prop where
  fresh : Fresh s.st
  lt : u < s.st.next
  beyond : ∀ a, s.heap.length ≤ a → A a
  inst : InstIn A s u
  glob : AllVals (PA A) s.st.globals

/-- what running instance `u` (and, transitively, the flows it calls) may do on the way from `s` to `s'` -/
structure FrameRel (A : Nat → Prop) (u : Nat) (s s' : HSt) : Prop where
  heap : ∀ a, ¬ A a → s'.heap[a]? = s.heap[a]?
  others : ∀ w, w ≠ u → w < s.st.next → findInst w s'.st.insts = findInst w s.st.insts
  fresh : Fresh s'.st
  next : s.st.next ≤ s'.st.next
  len : s.heap.length ≤ s'.heap.length
  inst : InstIn A s' u
  glob : AllVals (PA A) s'.st.globals

theorem FrameRel.refl {A : Nat → Prop} {s : HSt} {u : Nat} (h : Pre A s u) : FrameRel A u s s :=
  ⟨fun _ _ => rfl, fun _ _ _ => rfl, h.fresh, Nat.le_refl _, Nat.le_refl _, h.inst, h.glob⟩

theorem FrameRel.pre {A : Nat → Prop} {s s' : HSt} {u : Nat} (h : Pre A s u) (r : FrameRel A u s s') : Pre A s' u :=
  ⟨r.fresh, Nat.lt_of_lt_of_le h.lt r.next, fun a ha => h.beyond a (Nat.le_trans r.len ha), r.inst, r.glob⟩

theorem FrameRel.trans {A : Nat → Prop} {a b c : HSt} {u : Nat} (h1 : FrameRel A u a b) (h2 : FrameRel A u b c) : FrameRel A u a c :=
  ⟨fun x hx => (h2.heap x hx).trans (h1.heap x hx),
   fun w hw hlt => (h2.others w hw (Nat.lt_of_lt_of_le hlt h1.next)).trans (h1.others w hw hlt),
   h2.fresh, Nat.le_trans h1.next h2.next, Nat.le_trans h1.len h2.len, h2.inst, h2.glob⟩

theorem Pre.ctx {A : Nat → Prop} {s : HSt} {u : Nat} (h : Pre A s u) : AllVals (PA A) (s.st.ctxOf u) := by
  obtain ⟨f, hf, hc, _⟩ := h.inst
  rw [ctxOf_of_find hf]; exact hc

/-- instance `u` replaces its context / the globals by values of the region and the heap changes only inside it -/
theorem frame_step {A : Nat → Prop} {s : HSt} {u : Nat} (hpre : Pre A s u) (g c : Ctx) (h' : Heap)
    (hg : AllVals (PA A) g) (hc : AllVals (PA A) c) (hh : ∀ a, ¬ A a → h'[a]? = s.heap[a]?) (hl : s.heap.length ≤ h'.length) :
    FrameRel A u s { (s.setCtx u g c) with heap := h' } := by
  obtain ⟨f, hf, _, ha⟩ := hpre.inst
  refine ⟨hh, fun w hw _ => setCtx_frame s.st u w g c hw, setCtx_fresh s.st u g c hpre.fresh, ?_, hl, ?_, ?_⟩
  · show s.st.next ≤ (s.st.setCtx u g c).next
    rw [setCtx_next]; exact Nat.le_refl _
  · exact ⟨{ f with context := c }, find_setCtx_self s.st u g c f hf, hc, ha⟩
  · show AllVals (PA A) (s.st.setCtx u g c).globals
    rw [setCtx_globals]; exact hg

theorem ext_frame {A : Nat → Prop} {h h' : Heap} (hA : ∀ a, h.length ≤ a → A a) (e : Ext h h') : ∀ a, ¬ A a → h'[a]? = h[a]? := by
  intro a ha
  have : a < h.length := by
    rcases Nat.lt_or_ge a h.length with hlt | hge
    · exact hlt
    · exact absurd (hA a hge) ha
  exact e.get this

theorem findInst_append_new (n : Nat) (f : Inst) : ∀ l : List (Nat × Inst), (∀ x ∈ uids l, x < n) → findInst n (l ++ [(n, f)]) = some f
  | [], _ => by simp [findInst]
  | (u', f') :: r, h => by
    have h1 : u' ≠ n := Nat.ne_of_lt (h u' (by simp [uids]))
    simp only [List.cons_append, findInst, h1, if_false]
    exact findInst_append_new n f r (fun x hx => h x (by simp only [uids, List.map_cons, List.mem_cons] at hx ⊢; exact Or.inr hx))

/-- a new instance is added (heap extended): nothing of the old state is touched -/
theorem frame_addInst {A : Nat → Prop} {s : HSt} {u : Nat} (hpre : Pre A s u) (f : Inst) (h' : Heap) (e : Ext s.heap h')
    (ents : List Entry) : FrameRel A u s { (s.addInst s.st.next f h') with entries := ents } := by
  obtain ⟨fu, hfu, hc, ha⟩ := hpre.inst
  have hne : u ≠ s.st.next := Nat.ne_of_lt hpre.lt
  refine ⟨ext_frame hpre.beyond e, fun w _ hlt => findInst_append_ne _ _ _ (Nat.ne_of_lt hlt) _, ?_, Nat.le_succ _, e.len, ?_, hpre.glob⟩
  · exact (good_add u s.st f hpre.fresh hpre.lt).2.1
  · exact ⟨fu, (findInst_append_ne _ _ _ hne _).trans hfu, hc, ha⟩

/-- the new instance, filled with values of the region, satisfies the precondition for its own run -/
theorem pre_enter {A : Nat → Prop} {s : HSt} {u : Nat} (hpre : Pre A s u) (f : Inst) (h' : Heap) (e : Ext s.heap h')
    (ents : List Entry) (hc : AllVals (PA A) f.context) (ha : AllVals (PA A) f.arguments) :
    Pre A { (s.addInst s.st.next f h') with entries := ents } s.st.next :=
  ⟨(good_add u s.st f hpre.fresh hpre.lt).2.1, Nat.lt_succ_self _, hA_ext hpre.beyond e,
   ⟨f, findInst_append_new _ f _ hpre.fresh, hc, ha⟩, hpre.glob⟩

/-- the caller's view of a callee's whole run -/
theorem frame_callee {A : Nat → Prop} {s s1 s2 : HSt} {u : Nat} (hpre : Pre A s u) (r1 : FrameRel A u s s1)
    (hn : s1.st.next = s.st.next + 1) (r2 : FrameRel A s.st.next s1 s2) : FrameRel A u s s2 := by
  have hne : u ≠ s.st.next := Nat.ne_of_lt hpre.lt
  refine ⟨fun x hx => (r2.heap x hx).trans (r1.heap x hx), ?_, r2.fresh, Nat.le_trans r1.next r2.next,
    Nat.le_trans r1.len r2.len, ?_, r2.glob⟩
  · intro w hw hlt
    exact (r2.others w (Nat.ne_of_lt hlt) (by omega)).trans (r1.others w hw hlt)
  · obtain ⟨fu, hfu, hc, ha⟩ := r1.inst
    exact ⟨fu, (r2.others u hne (by have := hpre.lt; omega)).trans hfu, hc, ha⟩

theorem set_frame {A : Nat → Prop} (h : Heap) (a : Nat) (v : Val) (ha : A a) : ∀ x, ¬ A x → (h.set a v)[x]? = h[x]? := by
  intro x hx
  have : a ≠ x := fun e => hx (e ▸ ha)
  exact List.getElem?_set_ne this

/-- **Frame of in-place mutation, whole executions** (induction on the execution).  Let `A` be a region
    of addresses closed for instance `u` (it contains what `u`'s variables and `arguments` refer to, what
    the global variables refer to, and everything not yet allocated).  Whatever `u` executes — assignments,
    in-place method calls, calls of other flows with everything THEY execute, return-value capture — every
    heap cell outside `A` keeps its content, every other existing instance keeps its context and arguments,
    and the region stays closed for `u`. -/
theorem hexec_frame {A : Nat → Prop} (flows : List (String × HFlowDef)) : ∀ (fuel : Nat) (s : HSt) (u : Nat) (body : List HStmt),
    Pre A s u → FrameRel A u s (hexec flows fuel s u body).1
  | 0, s, u, body, hpre => by simp only [hexec]; exact .refl hpre
  | fuel + 1, s, u, [], hpre => by simp only [hexec]; exact .refl hpre
  | fuel + 1, s, u, stmt :: rest, hpre => by
    cases stmt with
    | assign k e =>
      simp only [hexec]
      obtain ⟨e1, p1⟩ := evalH_spec hpre.beyond hpre.glob hpre.ctx e
      obtain ⟨q1, q2⟩ := assignCtx_allVals hpre.glob hpre.ctx k p1
      have r1 := frame_step hpre _ _ _ q1 q2 (ext_frame hpre.beyond e1) e1.len
      exact r1.trans (hexec_frame flows fuel _ u rest (r1.pre hpre))
    | global x =>
      simp only [hexec]
      obtain ⟨q1, q2⟩ := globalCtx_allVals hpre.glob hpre.ctx x
      have r1 := frame_step hpre _ _ s.heap q1 q2 (fun _ _ => rfl) (Nat.le_refl _)
      exact r1.trans (hexec_frame flows fuel _ u rest (r1.pre hpre))
    | ret e =>
      simp only [hexec]
      obtain ⟨e1, p1⟩ := evalH_spec hpre.beyond hpre.glob hpre.ctx e
      exact frame_step hpre _ _ _ hpre.glob (hpre.ctx.set _ p1) (ext_frame hpre.beyond e1) e1.len
    | send name args =>
      simp only [hexec]
      have r1 : FrameRel A u s { s with st := { s.st with out := s.st.out ++ [(name, args.map fun ke => (ke.1, evalF s.heap s.st.globals (s.st.ctxOf u) ke.2))] } } :=
        ⟨fun _ _ => rfl, fun _ _ _ => rfl, hpre.fresh, Nat.le_refl _, Nat.le_refl _, hpre.inst, hpre.glob⟩
      exact r1.trans (hexec_frame flows fuel _ u rest (r1.pre hpre))
    | block => simp only [hexec]; exact .refl hpre
    | «mut» x path m ret =>
      simp only [hexec]
      split
      · rename_i a hx
        split
        · exact .refl hpre
        · split
          · exact .refl hpre
          · rename_i cell' res _
            have hAa : A a := (PA.evalVar hpre.glob hpre.ctx x).1 a hx
            have hlen : s.heap.length ≤ (s.heap.set a cell').length := by simp
            have hA2 : ∀ b, (s.heap.set a cell').length ≤ b → A b := fun b hb => hpre.beyond b (by simpa using hb)
            obtain ⟨q1, q2⟩ := assignCtx_allVals hpre.glob hpre.ctx ret (PA.alloc hA2 res)
            have r1 := frame_step hpre _ _ (alloc (s.heap.set a cell') res).1 q1 q2
              (fun b hb => (ext_frame hA2 (Ext.alloc _ res) b hb).trans (set_frame s.heap a cell' hAa b hb))
              (Nat.le_trans hlen (Ext.alloc _ res).len)
            exact r1.trans (hexec_frame flows fuel _ u rest (r1.pre hpre))
      · exact .refl hpre
    | call form retVar flow pos named =>
      simp only [hexec]
      split
      · exact .refl hpre
      · rename_i d hd
        obtain ⟨eu, pu⟩ := userArgsH_spec hpre.glob hpre.ctx s.heap hpre.beyond pos named
        obtain ⟨ep, pp⟩ := allocDefaults_allVals (A := A) d.params _ (hA_ext hpre.beyond eu)
        obtain ⟨er, pr⟩ := allocDefaults_allVals (A := A) d.rets _ (hA_ext hpre.beyond (eu.trans ep))
        have eall := (eu.trans ep).trans er
        have hev := startArgs_allVals pu form flow s.st.next u
        split
        · exact ⟨ext_frame hpre.beyond eall, fun _ _ _ => rfl, hpre.fresh, Nat.le_refl _, eall.len, hpre.inst, hpre.glob⟩
        · rename_i f0 hf0
          have hnd : ∀ v, PA A v → isDict v = false := fun _ h => h.2
          obtain ⟨a0, c0⟩ := allVals_createFlowInstance hnd hev flow _ _ pp pr hf0
          split
          · exact frame_addInst hpre f0 _ eall s.entries
          · rename_i f1 hf1
            obtain ⟨a1, c1⟩ := allVals_startFlow hev a0 c0 hf1
            have r1 := frame_addInst hpre f1 _ eall (s.entries ++ [Entry.mk s.st.next flow (userArgsH s.heap s.st.globals (s.st.ctxOf u) pos named).2
                  (derefCtx (allocDefaults (allocDefaults (userArgsH s.heap s.st.globals (s.st.ctxOf u) pos named).1 d.params).1 d.rets).1 f1.context)])
            have p1 := pre_enter hpre f1 _ eall (s.entries ++ [Entry.mk s.st.next flow (userArgsH s.heap s.st.globals (s.st.ctxOf u) pos named).2
                  (derefCtx (allocDefaults (allocDefaults (userArgsH s.heap s.st.globals (s.st.ctxOf u) pos named).1 d.params).1 d.rets).1 f1.context)]) c1 a1
            have r2 := hexec_frame flows fuel _ s.st.next d.body p1
            have g2 := frame_callee hpre r1 rfl r2
            have hp2 := g2.pre hpre
            split
            · exact g2
            · exact g2
            · exact g2
            · split
              · exact g2
              · split
                · exact g2.trans (hexec_frame flows fuel _ u rest hp2)
                · split
                  · exact g2
                  · split
                    · exact g2
                    · split
                      · exact g2.trans (hexec_frame flows fuel _ u rest hp2)
                      · split
                        · exact g2
                        · rename_i gc hgc
                          -- the captured return value: whatever the callee's `arguments` / context hold is in the region
                          obtain ⟨fn, hfn, cn, an⟩ := r2.inst
                          have hfin : AllVals (PA A) (finishedArgs (uidVal s.st.next) fn) := finishedArgs_allVals _ an cn
                          simp only [hfn, Option.getD_some, captureReturn] at hgc
                          split at hgc
                          · rename_i v hv
                            injection hgc with hgc
                            subst hgc
                            obtain ⟨q1, q2⟩ := assignCtx_allVals hp2.glob hp2.ctx _ (hfin.lookup hv)
                            have r3 := frame_step hp2 _ _ _ q1 q2 (fun _ _ => rfl) (Nat.le_refl _)
                            exact g2.trans (r3.trans (hexec_frame flows fuel _ u rest (r3.pre hp2)))
                          · cases hgc

/-! ### return members -/

theorem bindRet_lookup_mem : ∀ (ms : List Param) (c : Ctx), (pnames ms).Nodup → ∀ m ∈ ms,
    lookup (.name m.name) (bindRet ms c) = some m.dfltVal
  | [], _, _, m, hm => by cases hm
  | q :: ms, c, hnd, m, hm => by
    simp only [pnames, List.map_cons, List.nodup_cons] at hnd
    simp only [bindRet]
    rcases List.mem_cons.1 hm with e | e
    · subst e
      rw [bindRet_lookup_other _ ms _ (fun x hx he => hnd.1 (by
        injection he with he
        exact he ▸ List.mem_map_of_mem hx))]
      exact lookup_set_eq _ _ _
    · exact bindRet_lookup_mem ms _ hnd.2 m e

/-- **Return members are fresh, one call**: every return member of a well-formed call (member names distinct,
    none named like a parameter) starts as its declared default — a NEW object — in the callee's entry context. -/
theorem return_members_fresh_call_core (h : Heap) (params rets : List Param) (ua : Ctx) (k : Nat) (form : CallForm)
    (flow : String) (n caller : Nat) (hwf : WellFormedCall params rets ua k) (hrn : (pnames rets).Nodup) :
    ∃ f0 f, createFlowInstance flow (allocDefaults h params).2 (allocDefaults (allocDefaults h params).1 rets).2
          (startArgs ua form flow n caller) = .ok f0 ∧
      startFlow false (startArgs ua form flow n caller) f0 = .ok f ∧
      ∀ j (hj : j < rets.length),
        lookup (.name rets[j].name) (derefCtx (allocDefaults (allocDefaults h params).1 rets).1 f.context) = some rets[j].dfltVal ∧
        (rets[j].dflt.isSome → ∃ a, h.length ≤ a ∧ lookup (.name rets[j].name) f.context = some (addr a)) := by
  have hwf' := wellFormedCall_allocDefaults params rets ua k h (allocDefaults h params).1 hwf
  have hW := wellFormed_of_call _ _ ua k form flow n caller hwf'
  obtain ⟨f0, f, h1, h2, _, _⟩ := bind_spec_core flow _ _ _ k hW
  refine ⟨f0, f, h1, h2, fun j hj => ?_⟩
  -- explicit shape of the two instances
  obtain ⟨hnd, hctx, hretsd, hpu, hph, _, _, _⟩ := hW
  simp only [createFlowInstance, startCtx, hctx] at h1
  injection h1 with h1
  subst h1
  obtain ⟨pu, hpu'⟩ := Option.isSome_iff_exists.1 hpu
  obtain ⟨ph, hph'⟩ := Option.isSome_iff_exists.1 hph
  simp only [startFlow, Bool.false_eq_true, if_false, hpu', hph'] at h2
  split at h2
  · cases h2
  · injection h2 with h2
    subst h2
    simp only
    -- the keys `_start_flow` walks over: parameter keys, then `$i` keys — never a return member's name
    have hk1 : keys (bindNamed (startArgs ua form flow n caller) (allocDefaults h params).2 ([], [])).1
        = (pnames (allocDefaults h params).2).map argKey := by
      have := bindNamed_keys (startArgs ua form flow n caller) (allocDefaults h params).2 [] [] hnd (by simp [keys])
      simpa [keys] using this
    obtain ⟨rest, hkeys, hrest⟩ := bindPos_keys (startArgs ua form flow n caller) (allocDefaults h params).2 0 _ (by
      intro p hp; rw [hk1]; exact List.mem_map_of_mem (List.mem_map_of_mem hp))
    rw [hk1] at hkeys
    obtain ⟨hj', hname, hnone, hsome⟩ := allocDefaults_spec rets (allocDefaults h params).1 j hj
    have hmem : (allocDefaults (allocDefaults h params).1 rets).2[j]'hj' ∈ (allocDefaults (allocDefaults h params).1 rets).2 :=
      List.getElem_mem hj'
    have hnotparam : rets[j].name ∉ pnames (allocDefaults h params).2 := by
      rw [← hname]; exact hretsd _ hmem
    have hlook : lookup (.name rets[j].name) (startLoop (startArgs ua form flow n caller)
        (keys (bindPos (startArgs ua form flow n caller) (allocDefaults h params).2 0
          (bindNamed (startArgs ua form flow n caller) (allocDefaults h params).2 ([], [])).1)) 0
        (bindRet (allocDefaults (allocDefaults h params).1 rets).2
          (bindNamed (startArgs ua form flow n caller) (allocDefaults h params).2 ([], [])).2)).1
        = some ((allocDefaults (allocDefaults h params).1 rets).2[j]'hj').dfltVal := by
      rw [startLoop_lookup_not_mem _ _ _ _ _ (by
        rw [hkeys, List.map_append]
        intro hm
        rcases List.mem_append.1 hm with hm | hm
        · obtain ⟨y, hy, e⟩ := List.mem_map.1 hm
          obtain ⟨z, hz, e2⟩ := List.mem_map.1 hy
          subst e2
          rw [paramOfKey_argKey] at e
          injection e with e
          exact hnotparam (e ▸ hz)
        · obtain ⟨y, hy, e⟩ := List.mem_map.1 hm
          obtain ⟨i, e2⟩ := hrest _ hy
          subst e2
          simp [paramOfKey] at e)]
      have := bindRet_lookup_mem (allocDefaults (allocDefaults h params).1 rets).2
        (bindNamed (startArgs ua form flow n caller) (allocDefaults h params).2 ([], [])).2
        (by rw [pnames_allocDefaults]; exact hrn) _ hmem
      rw [hname] at this
      exact this
    constructor
    · rw [lookup_derefCtx, hlook, Option.map_some]
      cases hd : rets[j].dflt with
      | none => obtain ⟨e1, e2⟩ := hnone hd; rw [e1, e2]; rfl
      | some e =>
        obtain ⟨a, _, e1, e2⟩ := hsome (by simp [hd])
        rw [e1, deref_addr, List.getD_eq_getElem?_getD, e2]; rfl
    · intro hs
      obtain ⟨a, ha, e1, _⟩ := hsome hs
      obtain ⟨ext, hext⟩ := allocDefaults_prefix params h
      exact ⟨a, by rw [hext] at ha; simp at ha; omega, by rw [hlook, e1]⟩

end NemoVerif.Bind
