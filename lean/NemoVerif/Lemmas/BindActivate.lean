/-
  C08 — lemmas about `Models/BindActivate.lean` (the "same parameters" comparison of
  `_get_reference_activated_flow_instance` and the StartFlow decision built on it).
-/
import NemoVerif.Lemmas.Bind
import NemoVerif.Models.BindActivate

namespace NemoVerif.Bind
open NemoVerif

/-- The shape of a call the statement speaks about, as far as the comparison reads it: `k ≤ n`
    contiguous positionals, and no parameter given both positionally and by name. -/
structure CallShape (params : List Param) (ev : Ctx) (k : Nat) : Prop where
  kle : k ≤ params.length
  pos : ∀ i, i < k → (lookup (.pos i) ev).isSome
  nopos : ∀ i, k ≤ i → lookup (.pos i) ev = none
  noclash : ∀ i (hi : i < params.length), i < k → lookup (argKey params[i].name) ev = none

/-- parameter `idx` of the call `ev` is omitted -/
def Omitted (ev : Ctx) (k idx : Nat) (p : Param) : Prop :=
  k ≤ idx ∧ lookup (argKey p.name) ev = none

/-- Value `v` (held by a running activation for parameter `idx`) agrees with what the statement gives
    the call `ev` for that parameter — and the call does not rely on a default the parameter does
    not have (the code as it is never serves such a call by a running activation). -/
def Agrees (ev : Ctx) (k idx : Nat) (p : Param) (v : Val) : Prop :=
  pyEq v (specVal ev k idx p) = true ∧ (Omitted ev k idx p → p.dflt.isSome = true)

theorem paramMatches_spec (ev args : Ctx) (k idx : Nat) (p : Param) (v : Val)
    (hv : lookup (argKey p.name) args = some v)
    (hpos : idx < k → (lookup (.pos idx) ev).isSome ∧ lookup (argKey p.name) ev = none)
    (hnopos : k ≤ idx → lookup (.pos idx) ev = none) :
    ∃ b, paramMatches ev args idx p = .ok b ∧ (b = true ↔ Agrees ev k idx p v) := by
  unfold paramMatches Agrees Omitted
  rw [hv]
  by_cases hk : idx < k
  · obtain ⟨hp, hn⟩ := hpos hk
    obtain ⟨w, hw⟩ := Option.isSome_iff_exists.1 hp
    refine ⟨_, rfl, ?_⟩
    have hnk : ¬ k ≤ idx := by omega
    simp [hn, hw, has, specVal, hk, hnk]
  · have hk' : k ≤ idx := by omega
    have hp := hnopos hk'
    refine ⟨_, rfl, ?_⟩
    cases hn : lookup (argKey p.name) ev with
    | some w => simp [hn, hp, has, specVal, hk, namedVal]
    | none =>
      cases hd : p.dflt with
      | none => simp [hn, hp, has, hk']
      | some e => simp [hn, hp, has, hd, specVal, hk, namedVal, Param.dfltVal]

/-- The loop over the parameters decides exactly "every parameter agrees". `ps` is a suffix of the
    signature starting at index `j`; `vs i` the value the instance holds for `ps[i]`. -/
theorem sameParams_spec (ev args : Ctx) (k : Nat) : ∀ (ps : List Param) (j : Nat) (vs : Nat → Val),
    (∀ i (hi : i < ps.length), lookup (argKey ps[i].name) args = some (vs i)) →
    (∀ i (hi : i < ps.length), j + i < k → (lookup (.pos (j + i)) ev).isSome ∧ lookup (argKey ps[i].name) ev = none) →
    (∀ i, k ≤ i → lookup (.pos i) ev = none) →
    ∃ b, sameParams ev args ps j = .ok b ∧
      (b = true ↔ ∀ i (hi : i < ps.length), Agrees ev k (j + i) ps[i] (vs i))
  | [], j, vs, _, _, _ => ⟨true, rfl, by simp⟩
  | p :: ps, j, vs, hv, hpos, hnopos => by
    have hv0 : lookup (argKey p.name) args = some (vs 0) := hv 0 (Nat.zero_lt_succ _)
    have hpos0 : j < k → (lookup (.pos j) ev).isSome ∧ lookup (argKey p.name) ev = none :=
      fun h => hpos 0 (Nat.zero_lt_succ _) h
    have hvS : ∀ i (hi : i < ps.length), lookup (argKey ps[i].name) args = some (vs (i + 1)) :=
      fun i hi => hv (i + 1) (Nat.succ_lt_succ hi)
    have hposS : ∀ i (hi : i < ps.length), j + 1 + i < k →
        (lookup (.pos (j + 1 + i)) ev).isSome ∧ lookup (argKey ps[i].name) ev = none := by
      intro i hi h
      have e : j + 1 + i = j + (i + 1) := by omega
      rw [e]
      exact hpos (i + 1) (Nat.succ_lt_succ hi) (by omega)
    obtain ⟨b0, hb0, hiff0⟩ := paramMatches_spec ev args k j p (vs 0) hv0 hpos0 (hnopos j)
    cases b0 with
    | false =>
      refine ⟨false, by simp [sameParams, hb0], ?_⟩
      constructor
      · intro h; cases h
      · intro h
        have h0 : Agrees ev k (j + 0) p (vs 0) := h 0 (Nat.zero_lt_succ _)
        have := hiff0.2 h0
        cases this
    | true =>
      obtain ⟨b, hb, hiff⟩ := sameParams_spec ev args k ps (j + 1) (fun i => vs (i + 1)) hvS hposS hnopos
      refine ⟨b, by simp [sameParams, hb0, hb], ?_⟩
      rw [hiff]
      constructor
      · intro h i hi
        cases i with
        | zero => exact hiff0.1 rfl
        | succ i =>
          have := h i (Nat.lt_of_succ_lt_succ hi)
          have e : j + 1 + i = j + (i + 1) := by omega
          rw [e] at this
          exact this
      · intro h i hi
        have := h (i + 1) (Nat.succ_lt_succ hi)
        have e : j + 1 + i = j + (i + 1) := by omega
        rw [e]
        exact this

/-- An instance holds a value for every parameter (true of everything `create_flow_instance` makes). -/
def HoldsAll (params : List Param) (args : Ctx) : Prop :=
  ∀ p ∈ params, (lookup (argKey p.name) args).isSome

theorem sameParams_total (ev args : Ctx) : ∀ (ps : List Param) (j : Nat), HoldsAll ps args →
    ∃ b, sameParams ev args ps j = .ok b
  | [], _, _ => ⟨true, rfl⟩
  | p :: ps, j, h => by
    obtain ⟨v, hv⟩ := Option.isSome_iff_exists.1 (h p (by simp))
    obtain ⟨b, hb⟩ := sameParams_total ev args ps (j + 1) (fun q hq => h q (by simp [hq]))
    simp only [sameParams, paramMatches, hv]
    split
    · rename_i e he; cases he
    · exact ⟨false, rfl⟩
    · exact ⟨b, hb⟩

/-- what a successful lookup returns: a reference instance at that position of the list whose
    parameters are the event's -/
theorem refActivated_some (params : List Param) (ev : Ctx) : ∀ (l : List ActInst) (i0 j : Nat),
    refActivated params ev l i0 = .ok (some j) →
    i0 ≤ j ∧ ∃ a, l[j - i0]? = some a ∧ isReference a = true ∧ sameParams ev a.arguments params 0 = .ok true
  | [], _, _, h => by simp [refActivated] at h
  | a :: rest, i0, j, h => by
    simp only [refActivated] at h
    by_cases hr : isReference a = true
    · simp only [hr, Bool.not_true, Bool.false_eq_true, if_false] at h
      cases hs : sameParams ev a.arguments params 0 with
      | error e => simp [hs] at h
      | ok b =>
        cases b with
        | true =>
          simp only [hs] at h
          have : i0 = j := by injection h with h; injection h
          subst this
          exact ⟨Nat.le_refl _, a, by simp, hr, hs⟩
        | false =>
          simp only [hs] at h
          obtain ⟨hle, a', ha', h1, h2⟩ := refActivated_some params ev rest (i0 + 1) j h
          refine ⟨by omega, a', ?_, h1, h2⟩
          have : j - i0 = (j - (i0 + 1)) + 1 := by omega
          rw [this]; simpa using ha'
    · simp only [hr, Bool.not_false, if_true] at h
      obtain ⟨hle, a', ha', h1, h2⟩ := refActivated_some params ev rest (i0 + 1) j h
      refine ⟨by omega, a', ?_, h1, h2⟩
      have : j - i0 = (j - (i0 + 1)) + 1 := by omega
      rw [this]; simpa using ha'

/-- a lookup that finds nothing: no reference instance has the event's parameters -/
theorem refActivated_none (params : List Param) (ev : Ctx) : ∀ (l : List ActInst) (i0 : Nat),
    refActivated params ev l i0 = .ok none →
    ∀ a ∈ l, isReference a = true → sameParams ev a.arguments params 0 = .ok false
  | [], _, _, a, ha, _ => by simp at ha
  | a :: rest, i0, h, a', ha', hr' => by
    simp only [refActivated] at h
    by_cases hr : isReference a = true
    · simp only [hr, Bool.not_true, Bool.false_eq_true, if_false] at h
      cases hs : sameParams ev a.arguments params 0 with
      | error e => simp [hs] at h
      | ok b =>
        cases b with
        | true => simp [hs] at h
        | false =>
          simp only [hs] at h
          rcases List.mem_cons.1 ha' with e | hm
          · subst e; exact hs
          · exact refActivated_none params ev rest (i0 + 1) h a' hm hr'
    · simp only [hr, Bool.not_false, if_true] at h
      rcases List.mem_cons.1 ha' with e | hm
      · subst e; exact absurd hr' hr
      · exact refActivated_none params ev rest (i0 + 1) h a' hm hr'

/-- the lookup never raises on instances that hold a value for every parameter -/
theorem refActivated_total (params : List Param) (ev : Ctx) : ∀ (l : List ActInst) (i0 : Nat),
    (∀ a ∈ l, HoldsAll params a.arguments) → ∃ r, refActivated params ev l i0 = .ok r
  | [], _, _ => ⟨none, rfl⟩
  | a :: rest, i0, h => by
    obtain ⟨r, hr⟩ := refActivated_total params ev rest (i0 + 1) (fun a' ha' => h a' (by simp [ha']))
    obtain ⟨b, hb⟩ := sameParams_total ev a.arguments params 0 (h a (by simp))
    simp only [refActivated]
    split
    · exact ⟨r, hr⟩
    · cases b with
      | true => exact ⟨some i0, by simp [hb]⟩
      | false => exact ⟨r, by simp [hb, hr]⟩

theorem startFlow_arguments (ev : Ctx) (f0 f : Inst) (h : startFlow false ev f0 = .ok f) : f.arguments = f0.arguments := by
  unfold startFlow at h
  simp only [Bool.false_eq_true, if_false] at h
  split at h
  · split at h
    · cases h
    · injection h with h; subst h; rfl
  · cases h

theorem callShape_startArgs (params : List Param) (ua : Ctx) (k : Nat) (form : CallForm) (flow : String)
    (n caller : Nat) (h : CallShape params ua k) : CallShape params (startArgs ua form flow n caller) k :=
  ⟨h.kle, fun i hi => by rw [startArgs_lookup_pos]; exact h.pos i hi,
   fun i hi => by rw [startArgs_lookup_pos]; exact h.nopos i hi,
   fun i hi hik => by rw [startArgs_lookup_argKey]; exact h.noclash i hi hik⟩

theorem startArgs_activated (ua : Ctx) (flow : String) (n caller : Nat) :
    lookup (.name "activated") (startArgs ua .activate flow n caller) = some (.bool true) := by
  unfold startArgs
  have ne : ∀ {a b : String}, a ≠ b → Key.name a ≠ Key.name b := fun h e => h (by injection e)
  simp only [if_true]
  rw [lookup_set_ne _ _ _ _ (ne (by decide)), lookup_set_ne _ _ _ _ (ne (by decide)),
    lookup_set_ne _ _ _ _ (ne (by decide)), lookup_set_eq]

/-! ### histories of `activate` calls -/

/-- instance `a` runs with the values the statement gives the call `(ua, k)`: for every parameter it
    holds exactly that value — or, when the call was attached to an activation that already ran, a
    Python-equal one -/
def Serves (params : List Param) (a : ActInst) (ua : Ctx) (k : Nat) : Prop :=
  ∀ i (hi : i < params.length), ∃ v, lookup (argKey params[i].name) a.arguments = some v ∧
    (v = specVal ua k i params[i] ∨ pyEq v (specVal ua k i params[i]) = true)

theorem serves_congr (params : List Param) (a b : ActInst) (ua : Ctx) (k : Nat) (h : b.arguments = a.arguments)
    (hs : Serves params a ua k) : Serves params b ua k := by
  intro i hi; rw [h]; exact hs i hi

theorem mem_bump : ∀ (j : Nat) (l : List ActInst) (a : ActInst), a ∈ bump j l → ∃ a0 ∈ l, a.arguments = a0.arguments
  | _, [], a, h => by simp [bump] at h
  | 0, b :: r, a, h => by
    simp only [bump, List.mem_cons] at h
    rcases h with h | h
    · exact ⟨b, by simp, by rw [h]⟩
    · exact ⟨a, by simp [h], rfl⟩
  | j + 1, b :: r, a, h => by
    simp only [bump, List.mem_cons] at h
    rcases h with h | h
    · exact ⟨b, by simp, by rw [h]⟩
    · obtain ⟨a0, h0, e⟩ := mem_bump j r a h
      exact ⟨a0, by simp [h0], e⟩

theorem bump_mem : ∀ (j : Nat) (l : List ActInst) (a0 : ActInst), a0 ∈ l → ∃ a ∈ bump j l, a.arguments = a0.arguments
  | _, [], a0, h => by simp at h
  | 0, b :: r, a0, h => by
    rcases List.mem_cons.1 h with h | h
    · subst h; exact ⟨{ a0 with activated := a0.activated + 1 }, by simp [bump], rfl⟩
    · exact ⟨a0, by simp [bump, h], rfl⟩
  | j + 1, b :: r, a0, h => by
    rcases List.mem_cons.1 h with h | h
    · subst h; exact ⟨a0, by simp [bump], rfl⟩
    · obtain ⟨a, ha, e⟩ := bump_mem j r a0 h
      exact ⟨a, by simp [bump, ha], e⟩

/-- the value a running instance holds for parameter `i` (None if it held none) -/
def valOf (params : List Param) (a : ActInst) (i : Nat) : Val :=
  (lookup (argKey ((params[i]?).getD ⟨"", none⟩).name) a.arguments).getD .none

theorem holdsAll_valOf (params : List Param) (a : ActInst) (h : HoldsAll params a.arguments) (i : Nat) (hi : i < params.length) :
    lookup (argKey params[i].name) a.arguments = some (valOf params a i) := by
  obtain ⟨v, hv⟩ := Option.isSome_iff_exists.1 (h params[i] (List.getElem_mem hi))
  simp [valOf, hi, hv]

end NemoVerif.Bind
