/-
  The LLM-call entries of the processing log a turn writes (C16): every `Step.llmCall` of the trace writes exactly one
  `llm` entry, every called rail contributes the `llm` entries of its own body, nothing else does.  Together with
  `GenLog.compute_llmCalls` this ties `GenerationLog.stats.llm_calls_count` of the returned log to the trace.
-/
import NemoVerif.Lemmas.GenLogCounts
import NemoVerif.Lemmas.PipelineOpts

namespace NemoVerif.PipelineOpts
open NemoVerif.OptGuard NemoVerif.GenLog

/-- number of `llm_call_info` entries of a log -/
def logLlm (L : List LogEv) : Nat := (L.filter LogEv.isLlm).length

theorem logLlm_append (a b : List LogEv) : logLlm (a ++ b) = logLlm a + logLlm b := by
  simp only [logLlm, List.filter_append, List.length_append]

/-- the rails of a category, in configuration order -/
def Cfg.rails (cfg : Cfg) : Cat → List Rail
  | .input => cfg.input
  | .output => cfg.output
  | .retrieval => cfg.retrieval
  | .dialog => []

/-- the `llm` entries the body of the rail called by this step writes -/
def Step.noiseLlm (cfg : Cfg) : Step → Nat
  | .railCall c i _ _ => match (cfg.rails c)[i]? with
    | some r => logLlm r.noise
    | none => 0
  | _ => 0

/-- … summed over the rail calls of a trace -/
def noiseLlm (cfg : Cfg) (tr : List Step) : Nat := (tr.map (Step.noiseLlm cfg)).sum

/-- number of LLM generations of a trace -/
def llmSteps (tr : List Step) : Nat := tr.count Step.llmCall

theorem noiseLlm_append (cfg : Cfg) (a b : List Step) : noiseLlm cfg (a ++ b) = noiseLlm cfg a + noiseLlm cfg b := by
  simp only [noiseLlm, List.map_append, List.sum_append]

theorem llmSteps_append (a b : List Step) : llmSteps (a ++ b) = llmSteps a + llmSteps b := by
  simp only [llmSteps, List.count_append]

/-- the log segment `lg` holds exactly the LLM entries the trace segment `tr` accounts for -/
def Bal (cfg : Cfg) (tr : List Step) (lg : List LogEv) : Prop := logLlm lg = llmSteps tr + noiseLlm cfg tr

theorem Bal.nil (cfg : Cfg) : Bal cfg [] [] := rfl

theorem Bal.append {cfg : Cfg} {a b : List Step} {la lb : List LogEv} (h1 : Bal cfg a la) (h2 : Bal cfg b lb) :
    Bal cfg (a ++ b) (la ++ lb) := by
  unfold Bal at *
  rw [logLlm_append, llmSteps_append, noiseLlm_append, h1, h2]; omega

def BalO (cfg : Cfg) (o : Out) : Prop := Bal cfg o.trace o.log

theorem BalO.prepend {cfg : Cfg} {tr : List Step} {lg : List LogEv} {o : Out} (h1 : Bal cfg tr lg) (h2 : BalO cfg o) :
    BalO cfg (o.prepend tr lg) := Bal.append h1 h2

theorem drop_cons_getElem? {α : Type} (l : List α) (i : Nat) (x : α) (xs : List α) (h : l.drop i = x :: xs) :
    l[i]? = some x ∧ l.drop (i + 1) = xs := by
  constructor
  · rw [← List.head?_drop, h]; rfl
  · rw [← List.tail_drop, h]; rfl

theorem bal_call (cfg : Cfg) (c : Cat) (i : Nat) (r : Rail) (t : String) (h : (cfg.rails c)[i]? = some r) :
    Bal cfg [Step.railCall c i r.name t] (startEv c r.name ++ r.noise) := by
  have h0 : logLlm (startEv c r.name) = 0 := by cases c <;> rfl
  simp only [Bal, logLlm_append, h0, llmSteps, noiseLlm, Step.noiseLlm, h, List.map_cons, List.map_nil, List.sum_cons, List.sum_nil]
  simp

theorem bal_fin (cfg : Cfg) (c : Cat) : Bal cfg [] (finEv c) := by cases c <;> rfl

/-- a rail loop: the LLM entries of its log are those of the bodies of the rails it called -/
theorem runRails_bal (cfg : Cfg) (c : Cat) : ∀ (rs : List Rail) (i : Nat) (t : String), (cfg.rails c).drop i = rs →
    Bal cfg (runRails c i rs t).1 (runRails c i rs t).2.1
  | [], _, _, _ => Bal.nil cfg
  | r :: rs, i, t, hd => by
    obtain ⟨hi, hd'⟩ := drop_cons_getElem? _ _ _ _ hd
    have hcall := bal_call cfg c i r t hi
    simp only [runRails]
    cases hv : r.verdict t with
    | accept =>
      have ih := runRails_bal cfg c rs (i + 1) t hd'
      exact Bal.append (a := [_]) (Bal.append (a := [_]) (b := []) hcall (bal_fin cfg c)) ih
    | rewrite t' =>
      have ih := runRails_bal cfg c rs (i + 1) t' hd'
      exact Bal.append (a := [_]) (Bal.append (a := [_]) (b := []) hcall (bal_fin cfg c)) ih
    | reject => exact hcall
    | fault => exact hcall

theorem runRetrieval_bal (cfg : Cfg) : ∀ (rs : List Rail) (i : Nat), cfg.retrieval.drop i = rs →
    Bal cfg (runRetrieval i rs).1 (runRetrieval i rs).2
  | [], _, _ => Bal.nil cfg
  | r :: rs, i, hd => by
    obtain ⟨hi, hd'⟩ := drop_cons_getElem? _ _ _ _ hd
    have hcall : Bal cfg [Step.railCall .retrieval i r.name ""] ([] ++ r.noise) := bal_call cfg .retrieval i r "" hi
    simp only [runRetrieval]
    exact Bal.append (a := [_]) hcall (runRetrieval_bal cfg rs (i + 1) hd')

theorem retrievalPartR_bal (cfg : Cfg) (opts : Option Opts) : Bal cfg (retrievalPartR cfg opts).1 (retrievalPartR cfg opts).2 := by
  unfold retrievalPartR
  split
  · exact runRetrieval_bal cfg _ 0 rfl
  · exact Bal.nil cfg

theorem botIntentSegR_bal (cfg : Cfg) (opts : Option Opts) (p : Bool) : Bal cfg (botIntentSegR cfg opts p).1 (botIntentSegR cfg opts p).2 := by
  have h := retrievalPartR_bal cfg opts
  have hA : Bal cfg [] [LogEv.step gbmFlow [.act "retrieve_relevant_chunks"], .actStart "retrieve_relevant_chunks", .actFin "retrieve_relevant_chunks"] := rfl
  have hB : Bal cfg [] [LogEv.step gbmFlow [.act "generate_bot_message"], .actStart "generate_bot_message"] := rfl
  have hP : Bal cfg (if p then [] else [Step.llmCall]) (if p then [] else [LogEv.llm "generate_bot_message"]) := by cases p <;> rfl
  have hF : Bal cfg [] [LogEv.actFin "generate_bot_message"] := rfl
  have := Bal.append (Bal.append (Bal.append (Bal.append hA h) hB) hP) hF
  simpa [botIntentSegR] using this

theorem blockedTailR_bal (cfg : Cfg) (opts : Option Opts) (c : Cat) (n : String) : BalO cfg (blockedTailR cfg opts c n) := by
  unfold blockedTailR
  split
  · rfl
  · have h1 : Bal cfg [] [LogEv.step n [.intent "refuse to respond"]] := rfl
    have h2 : Bal cfg [.utter cfg.refusal] [] := rfl
    have := Bal.append h1 (Bal.append (botIntentSegR_bal cfg opts true) h2)
    simpa [BalO] using this

theorem balO_utter (cfg : Cfg) (t : String) (rp : Reply) (b : Option (Cat × String)) :
    BalO cfg { trace := [.utter t], log := [], reply := rp, blocker := b, skipAfter := false } := rfl

theorem outputPhaseR_bal (cfg : Cfg) (opts : Option Opts) (bm : String) : BalO cfg (outputPhaseR cfg opts bm) := by
  unfold outputPhaseR
  have hl := runRails_bal cfg .output cfg.output 0 bm rfl
  rcases hr : runRails .output 0 cfg.output bm with ⟨tr, lg, oc⟩
  rw [hr] at hl
  cases oc with
  | passed t =>
    have := @BalO.prepend cfg tr lg _ hl (balO_utter cfg t (.text t) none)
    simpa [Out.prepend] using this
  | blocked n => exact BalO.prepend hl (blockedTailR_bal cfg opts .output n)
  | faulted n =>
    have := @BalO.prepend cfg tr lg _ hl (balO_utter cfg cfg.internalError (.text cfg.internalError) (some (Cat.output, n)))
    simpa [Out.prepend] using this

theorem processBotMessageR_bal (cfg : Cfg) (opts : Option Opts) (sk : Bool) (bm : String) :
    BalO cfg (processBotMessageR cfg opts sk bm) := by
  unfold processBotMessageR
  split
  · rfl
  · split
    · exact outputPhaseR_bal cfg opts bm
    · rfl

theorem guiSeg_bal (cfg : Cfg) (task : String) : Bal cfg [.llmCall] (guiSeg task) := rfl

theorem afterInputR_bal (cfg : Cfg) (opts : Option Opts) (um : String) (bot : Option String) (dlg : Dialog) :
    BalO cfg (afterInputR cfg opts um bot dlg) := by
  unfold afterInputR
  split
  · split
    · rfl
    · cases bot with
      | none => rfl
      | some b => exact processBotMessageR_bal cfg opts false b
  · cases dlg with
    | general text => exact BalO.prepend (guiSeg_bal cfg "general") (processBotMessageR_bal cfg opts false text)
    | intent flow bi p text =>
      refine BalO.prepend ?_ (processBotMessageR_bal cfg opts p text)
      have h1 : Bal cfg [] [LogEv.step flow [.intent bi]] := rfl
      exact Bal.append (Bal.append (b := []) (guiSeg_bal cfg "generate_user_intent") h1) (botIntentSegR_bal cfg opts p)

theorem turnCoreR_bal (cfg : Cfg) (opts : Option Opts) (user : String) (bot : Option String) (dlg : Dialog) :
    BalO cfg (turnCoreR cfg opts user bot dlg) := by
  unfold turnCoreR
  have hl := runRails_bal cfg .input cfg.input 0 user rfl
  split
  all_goals rename_i tr1 lg1 x heq
  all_goals
    have hseg : Bal cfg tr1 lg1 := by
      split at heq
      · rw [heq] at hl; exact hl
      · cases heq <;> exact Bal.nil cfg
  · exact BalO.prepend hseg (blockedTailR_bal cfg opts .input x)
  · have := @BalO.prepend cfg tr1 lg1 _ hseg (balO_utter cfg cfg.internalError (.text cfg.internalError) (some (Cat.input, x)))
    simpa [Out.prepend] using this
  · exact BalO.prepend hseg (afterInputR_bal cfg opts x bot dlg)

/-- **the `llm` entries of a turn's processing log**: one per LLM generation of the trace plus those the bodies of the
    called rails write — whatever the configuration, options, texts and dialog. -/
theorem turn_logLlm (cfg : Cfg) (opts : Option Opts) (user : String) (bot : Option String) (dlg : Dialog) (out : Out)
    (h : turn Gd cfg opts user bot dlg = some out) : logLlm out.log = llmSteps out.trace + noiseLlm cfg out.trace := by
  rw [turn_eq] at h; cases h
  have hb := turnCoreR_bal cfg opts user bot dlg
  have h1 : Bal cfg [] [LogEv.other] := rfl
  have := Bal.append h1 (Bal.append hb h1)
  simpa [BalO, Bal] using this

/-- the LLM-call count of the generation log of a turn, in terms of the trace -/
theorem turn_llmCalls (cfg : Cfg) (opts : Option Opts) (user : String) (bot : Option String) (dlg : Dialog) (out : Out)
    (h : turn Gd cfg opts user bot dlg = some out) (gl : GenLog.Out) (hg : compute Kg out.log = .ok gl) :
    gl.llmCalls = llmSteps out.trace + noiseLlm cfg out.trace := by
  rw [compute_llmCalls Kg out.log gl hg]
  exact turn_logLlm cfg opts user bot dlg out h

/-- no rail body of the configuration records an LLM call -/
def Cfg.llmFree (cfg : Cfg) : Prop := ∀ c, ∀ r ∈ cfg.rails c, logLlm r.noise = 0

theorem noiseLlm_llmFree (cfg : Cfg) (hq : cfg.llmFree) : ∀ tr : List Step, noiseLlm cfg tr = 0
  | [] => rfl
  | s :: rest => by
    have ih := noiseLlm_llmFree cfg hq rest
    simp only [noiseLlm, List.map_cons, List.sum_cons] at ih ⊢
    rw [ih]
    cases s with
    | railCall c i n x =>
      simp only [Step.noiseLlm]
      cases hg : (cfg.rails c)[i]? with
      | none => rfl
      | some r => exact hq c r (List.mem_of_getElem? hg)
    | llmCall => rfl
    | utter t => rfl
    | exception c n => rfl

theorem llmSteps_dialog_off (cfg : Cfg) (o : Opts) (hd : o.dialog = false) (user : String) (bot : Option String) (dlg : Dialog) (out : Out)
    (h : turn Gd cfg (some o) user bot dlg = some out) : llmSteps out.trace = 0 := by
  rw [turn_eq] at h; cases h
  unfold llmSteps
  rw [List.count_eq_zero]
  intro hm
  have := turnCoreR_allowed cfg o user bot dlg _ hm
  simp [Allowed, hd] at this

/-- the example configuration of Theorems/C16.lean records no LLM call in its rail bodies (finite fact) -/
theorem exCfg_llmFree : exCfg.llmFree := by
  intro c r hr
  cases c <;> simp [Cfg.rails, exCfg] at hr
  · rcases hr with rfl | rfl <;> rfl
  · subst hr; rfl
  · subst hr; rfl


/-! ### the decisions of the input/output rails in the generation log of a turn -/

/-- the decisions carried by the `step` entries of a log segment -/
def stepDecs (K : Consts) : List LogEv → List String
  | [] => []
  | .step _ next :: rest => decisionsOf K next ++ stepDecs K rest
  | _ :: rest => stepDecs K rest

theorem stepDecs_append (K : Consts) (a b : List LogEv) : stepDecs K (a ++ b) = stepDecs K a ++ stepDecs K b := by
  induction a with
  | nil => rfl
  | cons e rest ih => cases e <;> simp [stepDecs, ih]

/-- a marker-free segment only adds its step decisions to the open rail -/
theorem spec_clean (K : Consts) : ∀ (a : List LogEv), CleanLog a → ∀ (s : Option (List String)) (X : List LogEv),
    decisionsSpec K s (a ++ X) = decisionsSpec K (s.map (· ++ stepDecs K a)) X
  | [], _, s, X => by cases s <;> simp [stepDecs]
  | e :: rest, h, s, X => by
    obtain ⟨h1, h2⟩ := h.cons_inv
    have ih := spec_clean K rest h2
    cases e with
    | startIn _ => simp [LogEv.isStartOrFin] at h1
    | startOut _ => simp [LogEv.isStartOrFin] at h1
    | railFin => simp [LogEv.isStartOrFin] at h1
    | step f n =>
      simp only [List.cons_append, decisionsSpec, stepDecs, ih]
      cases s <;> simp [List.append_assoc]
    | actStart n => simp only [List.cons_append, decisionsSpec, stepDecs, ih]
    | actFin n => simp only [List.cons_append, decisionsSpec, stepDecs, ih]
    | llm n => simp only [List.cons_append, decisionsSpec, stepDecs, ih]
    | other => simp only [List.cons_append, decisionsSpec, stepDecs, ih]

theorem spec_clean_end (K : Consts) (X : List LogEv) (h : CleanLog X) (s : Option (List String)) :
    decisionsSpec K s X = closeDec (s.map (· ++ stepDecs K X)) := by
  have := spec_clean K X h s []
  rw [List.append_nil] at this
  rw [this]; rfl

/-- for each input/output rail call of a trace: the decisions the called rail's own `step` entries carry -/
def calledDecs (K : Consts) (cfg : Cfg) : List Step → List (List String)
  | [] => []
  | .railCall c i _ _ :: rest => match catType c, (cfg.rails c)[i]? with
    | some _, some r => stepDecs K r.noise :: calledDecs K cfg rest
    | _, _ => calledDecs K cfg rest
  | _ :: rest => calledDecs K cfg rest

theorem calledDecs_append (K : Consts) (cfg : Cfg) (a b : List Step) : calledDecs K cfg (a ++ b) = calledDecs K cfg a ++ calledDecs K cfg b := by
  induction a with
  | nil => rfl
  | cons s rest ih =>
    cases s with
    | railCall c i n x => simp only [List.cons_append, calledDecs]; split <;> simp [ih]
    | llmCall => simpa [calledDecs] using ih
    | utter t => simpa [calledDecs] using ih
    | exception c n => simpa [calledDecs] using ih

theorem calledDecs_of_ioCalls_nil (K : Consts) (cfg : Cfg) : ∀ tr : List Step, ioCalls tr = [] → calledDecs K cfg tr = []
  | [], _ => rfl
  | s :: rest, h => by
    cases s with
    | railCall c i n x =>
      simp only [ioCalls] at h
      cases hc : catType c with
      | none =>
        rw [hc] at h
        simp only [calledDecs, hc]
        exact calledDecs_of_ioCalls_nil K cfg rest h
      | some ty => rw [hc] at h; simp at h
    | llmCall => exact calledDecs_of_ioCalls_nil K cfg rest (by simpa [ioCalls] using h)
    | utter t => exact calledDecs_of_ioCalls_nil K cfg rest (by simpa [ioCalls] using h)
    | exception c n => exact calledDecs_of_ioCalls_nil K cfg rest (by simpa [ioCalls] using h)

/-- the last rail stays open: it also collects `tl` and the final `"stop"` -/
def closeLast (tl : List String) : List (List String) → List (List String)
  | [] => []
  | [d] => [d ++ tl ++ ["stop"]]
  | d :: rest => d :: closeLast tl rest

theorem closeLast_cons (tl : List String) (d : List String) (D : List (List String)) (h : D ≠ []) :
    closeLast tl (d :: D) = d :: closeLast tl D := by
  cases D with
  | nil => exact absurd rfl h
  | cons d' D' => rfl

theorem closeLast_append (tl : List String) : ∀ (A B : List (List String)), B ≠ [] → closeLast tl (A ++ B) = A ++ closeLast tl B
  | [], _, _ => rfl
  | d :: A, B, h => by
    rw [List.cons_append, closeLast_cons tl d (A ++ B) (by simp [h]), closeLast_append tl A B h]; rfl

theorem closeLast_snoc (tl : List String) (A : List (List String)) (d : List String) :
    closeLast tl (A ++ [d]) = A ++ [d ++ tl ++ ["stop"]] := by
  rw [closeLast_append tl A [d] (by simp)]; rfl

/-- a segment that leaves no input/output rail open -/
def NeutralD (cfg : Cfg) (tr : List Step) (lg : List LogEv) : Prop :=
  ∀ X, decisionsSpec Kg none (lg ++ X) = calledDecs Kg cfg tr ++ decisionsSpec Kg none X

/-- a segment that ends inside the body of its last rail -/
def BlockedD (cfg : Cfg) (tr : List Step) (lg : List LogEv) : Prop :=
  calledDecs Kg cfg tr ≠ [] ∧
    ∀ X, CleanLog X → decisionsSpec Kg none (lg ++ X) = closeLast (stepDecs Kg X) (calledDecs Kg cfg tr)

/-- `t = none`: no input/output rail is open at the end of `o.log`; `t = some tl`: the last called one is, and has
    collected `tl` after its own body -/
def DecO (cfg : Cfg) (o : Out) : Option (List String) → Prop
  | none => NeutralD cfg o.trace o.log
  | some tl => calledDecs Kg cfg o.trace ≠ [] ∧
      ∀ X, CleanLog X → decisionsSpec Kg none (o.log ++ X) = closeLast (tl ++ stepDecs Kg X) (calledDecs Kg cfg o.trace)

theorem neutralD_clean {cfg : Cfg} {tr : List Step} {lg : List LogEv} (hc : CleanLog lg) (ht : ioCalls tr = []) : NeutralD cfg tr lg := by
  intro X
  rw [spec_clean Kg lg hc none X, calledDecs_of_ioCalls_nil Kg cfg tr ht]; rfl

theorem NeutralD.append {cfg : Cfg} {a b : List Step} {la lb : List LogEv} (h1 : NeutralD cfg a la) (h2 : NeutralD cfg b lb) :
    NeutralD cfg (a ++ b) (la ++ lb) := by
  intro X
  rw [List.append_assoc, h1, h2, calledDecs_append, List.append_assoc]

theorem decO_prepend_neutral {cfg : Cfg} {tr : List Step} {lg : List LogEv} {o : Out} {t : Option (List String)}
    (hn : NeutralD cfg tr lg) (ho : DecO cfg o t) : DecO cfg (o.prepend tr lg) t := by
  cases t with
  | none => exact NeutralD.append hn ho
  | some tl =>
    obtain ⟨hne, hX⟩ := ho
    refine ⟨by simp only [prepend_trace, calledDecs_append]; simp [hne], ?_⟩
    intro X hc
    simp only [prepend_trace, prepend_log, calledDecs_append]
    rw [List.append_assoc, hn, hX X hc, closeLast_append _ _ _ hne]

theorem decO_of_blocked_tail {cfg : Cfg} {tr : List Step} {lg : List LogEv} {o : Out}
    (hb : BlockedD cfg tr lg) (hc : CleanLog o.log) (ht : ioCalls o.trace = []) :
    DecO cfg (o.prepend tr lg) (some (stepDecs Kg o.log)) := by
  obtain ⟨hne, hX⟩ := hb
  have e : calledDecs Kg cfg (tr ++ o.trace) = calledDecs Kg cfg tr := by
    rw [calledDecs_append, calledDecs_of_ioCalls_nil Kg cfg _ ht, List.append_nil]
  refine ⟨by rw [prepend_trace, e]; exact hne, ?_⟩
  intro X hcx
  simp only [prepend_trace, prepend_log]
  rw [e, List.append_assoc, hX _ (CleanLog.append hc hcx), stepDecs_append]

theorem runRails_cons_accept (c : Cat) (i : Nat) (r : Rail) (rs : List Rail) (t : String) (hv : r.verdict t = .accept) :
    runRails c i (r :: rs) t = (Step.railCall c i r.name t :: (runRails c (i + 1) rs t).1,
      startEv c r.name ++ r.noise ++ finEv c ++ (runRails c (i + 1) rs t).2.1, (runRails c (i + 1) rs t).2.2) := by
  simp only [runRails, hv]

theorem runRails_cons_rewrite (c : Cat) (i : Nat) (r : Rail) (rs : List Rail) (t t' : String) (hv : r.verdict t = .rewrite t') :
    runRails c i (r :: rs) t = (Step.railCall c i r.name t :: (runRails c (i + 1) rs t').1,
      startEv c r.name ++ r.noise ++ finEv c ++ (runRails c (i + 1) rs t').2.1, (runRails c (i + 1) rs t').2.2) := by
  simp only [runRails, hv]

theorem runRails_cons_reject (c : Cat) (i : Nat) (r : Rail) (rs : List Rail) (t : String) (hv : r.verdict t = .reject) :
    runRails c i (r :: rs) t = ([Step.railCall c i r.name t], startEv c r.name ++ r.noise, .blocked r.name) := by
  simp only [runRails, hv]

theorem runRails_cons_fault (c : Cat) (i : Nat) (r : Rail) (rs : List Rail) (t : String) (hv : r.verdict t = .fault) :
    runRails c i (r :: rs) t = ([Step.railCall c i r.name t], startEv c r.name ++ r.noise, .faulted r.name) := by
  simp only [runRails, hv]

/-- the decisions structure of a rail loop (input or output category, rails with marker-free bodies) -/
theorem runRails_decs (cfg : Cfg) (c : Cat) (ty : RailType) (hc : catType c = some ty) : ∀ (rs : List Rail) (i : Nat) (t : String),
    (cfg.rails c).drop i = rs → (∀ r ∈ rs, r.clean) →
    ((∀ u, chain rs t = .passed u → NeutralD cfg (runRails c i rs t).1 (runRails c i rs t).2.1) ∧
     ((∀ u, chain rs t ≠ .passed u) → BlockedD cfg (runRails c i rs t).1 (runRails c i rs t).2.1))
  | [], _, t, _, _ => by
    refine ⟨fun u _ => neutralD_clean rfl rfl, fun h => absurd rfl (h t)⟩
  | r :: rs, i, t, hd, hcl => by
    obtain ⟨hi, hd'⟩ := drop_cons_getElem? _ _ _ _ hd
    have hr : CleanLog r.noise := hcl r (List.mem_cons_self ..)
    have hrest : ∀ r' ∈ rs, r'.clean := fun r' h' => hcl r' (List.mem_cons_of_mem _ h')
    have hstart : ∀ X, decisionsSpec Kg none (startEv c r.name ++ X) = decisionsSpec Kg (some []) X := by
      intro X; cases c <;> simp_all [catType, startEv, decisionsSpec]
    have hfin : ∀ d X, decisionsSpec Kg (some d) (finEv c ++ X) = [d] ++ decisionsSpec Kg none X := by
      intro d X; cases c <;> simp_all [catType, finEv, decisionsSpec]
    have hcd : ∀ x tr, calledDecs Kg cfg (Step.railCall c i r.name x :: tr) = stepDecs Kg r.noise :: calledDecs Kg cfg tr := by
      intro x tr; simp only [calledDecs, hc, hi]
    -- one complete rail: start, body, finish
    have hone : ∀ X, decisionsSpec Kg none (startEv c r.name ++ r.noise ++ finEv c ++ X)
        = [stepDecs Kg r.noise] ++ decisionsSpec Kg none X := by
      intro X
      rw [List.append_assoc, List.append_assoc, hstart, spec_clean Kg _ hr]
      simp only [Option.map, List.nil_append]
      rw [hfin]
    -- the rail that does not finish
    have hlast : BlockedD cfg [Step.railCall c i r.name t] (startEv c r.name ++ r.noise) := by
      refine ⟨by rw [hcd]; simp, ?_⟩
      intro X hcx
      rw [List.append_assoc, hstart, spec_clean Kg _ hr, spec_clean_end Kg X hcx, hcd]
      simp [closeDec, closeLast, calledDecs]
    have hcont : ∀ t', (chain (r :: rs) t = chain rs t') →
        (runRails c i (r :: rs) t = (Step.railCall c i r.name t :: (runRails c (i + 1) rs t').1,
          startEv c r.name ++ r.noise ++ finEv c ++ (runRails c (i + 1) rs t').2.1, (runRails c (i + 1) rs t').2.2)) →
        ((∀ u, chain (r :: rs) t = .passed u → NeutralD cfg (runRails c i (r :: rs) t).1 (runRails c i (r :: rs) t).2.1) ∧
         ((∀ u, chain (r :: rs) t ≠ .passed u) → BlockedD cfg (runRails c i (r :: rs) t).1 (runRails c i (r :: rs) t).2.1)) := by
      intro t' hch hrun
      obtain ⟨ih1, ih2⟩ := runRails_decs cfg c ty hc rs (i + 1) t' hd' hrest
      rw [hrun, hch]
      constructor
      · intro u hu X
        have := ih1 u hu X
        simp only []
        rw [List.append_assoc, hone, this, hcd]; rfl
      · intro hu
        obtain ⟨hne, hX⟩ := ih2 hu
        simp only []
        refine ⟨by rw [hcd]; simp, ?_⟩
        intro X hcx
        rw [List.append_assoc, hone, hX X hcx, hcd, closeLast_cons _ _ _ hne]; rfl
    cases hv : r.verdict t with
    | accept => exact hcont t (by simp only [chain, hv]) (runRails_cons_accept c i r rs t hv)
    | rewrite t' => exact hcont t' (by simp only [chain, hv]) (runRails_cons_rewrite c i r rs t t' hv)
    | reject =>
      rw [runRails_cons_reject c i r rs t hv]
      refine ⟨fun u hu => by simp [chain, hv] at hu, fun _ => hlast⟩
    | fault =>
      rw [runRails_cons_fault c i r rs t hv]
      refine ⟨fun u hu => by simp [chain, hv] at hu, fun _ => hlast⟩

/-- what a rejecting rail collects after its own body in refusal mode: the `bot refuse to respond` intent, then the steps
    of `generate bot message` (with the retrieval rails' own steps, if those run) -/
def refusalDecs (cfg : Cfg) (opts : Option Opts) : List String :=
  "refuse to respond" :: "execute retrieve_relevant_chunks" :: (stepDecs Kg (retrievalPartR cfg opts).2 ++ ["execute generate_bot_message"])

theorem blockedTailR_stepDecs (cfg : Cfg) (opts : Option Opts) (c : Cat) (n : String) :
    stepDecs Kg (blockedTailR cfg opts c n).log = if cfg.exceptions then [] else refusalDecs cfg opts := by
  unfold blockedTailR
  split
  · rfl
  · simp [botIntentSegR, stepDecs, stepDecs_append, refusalDecs, decisionsOf, Kg, Generated.C16.ignoredActions, toString]

/-- how the tail of a blocked rail's decisions relates to the reply -/
def TailSpec (cfg : Cfg) (opts : Option Opts) (rp : Reply) : Option (List String) → Prop
  | none => True
  | some tl => (tl = [] ∧ (rp = .text cfg.internalError ∨ (cfg.exceptions = true ∧ ∃ c, rp = .exception c))) ∨
      (cfg.exceptions = false ∧ tl = refusalDecs cfg opts ∧ rp = .text cfg.refusal)

def GoodD (cfg : Cfg) (opts : Option Opts) (o : Out) : Prop :=
  ∃ t : Option (List String), t.isSome = o.blocker.isSome ∧ DecO cfg o t ∧ TailSpec cfg opts o.reply t

theorem goodD_prepend {cfg : Cfg} {opts : Option Opts} {tr : List Step} {lg : List LogEv} {o : Out}
    (hn : NeutralD cfg tr lg) (ho : GoodD cfg opts o) : GoodD cfg opts (o.prepend tr lg) := by
  obtain ⟨t, h1, h2, h3⟩ := ho
  exact ⟨t, h1, decO_prepend_neutral hn h2, h3⟩

theorem goodD_leaf (cfg : Cfg) (opts : Option Opts) (tr : List Step) (rp : Reply) (ht : ioCalls tr = []) :
    GoodD cfg opts { trace := tr, log := [], reply := rp, blocker := none, skipAfter := false } :=
  ⟨none, rfl, neutralD_clean rfl ht, trivial⟩

theorem goodD_blockedTail (cfg : Cfg) (hc : cfg.clean) (opts : Option Opts) (c : Cat) (n : String) {tr : List Step} {lg : List LogEv}
    (hb : BlockedD cfg tr lg) : GoodD cfg opts ((blockedTailR cfg opts c n).prepend tr lg) := by
  obtain ⟨h1, h2, h3⟩ := blockedTailR_tail cfg hc opts c n
  refine ⟨some (stepDecs Kg (blockedTailR cfg opts c n).log), by rw [prepend_blocker, h3]; rfl, decO_of_blocked_tail hb h1 h2, ?_⟩
  rw [blockedTailR_stepDecs, prepend_reply]
  unfold blockedTailR TailSpec
  cases he : cfg.exceptions
  · right; exact ⟨rfl, rfl, rfl⟩
  · left; exact ⟨rfl, Or.inr ⟨rfl, c, rfl⟩⟩

theorem goodD_faulted (cfg : Cfg) (opts : Option Opts) (c : Cat) (n : String) {tr : List Step} {lg : List LogEv}
    (hb : BlockedD cfg tr lg) :
    GoodD cfg opts { trace := tr ++ [.utter cfg.internalError], log := lg, reply := .text cfg.internalError, blocker := some (c, n), skipAfter := false } := by
  have := @decO_of_blocked_tail cfg tr lg { trace := [.utter cfg.internalError], log := [], reply := .text cfg.internalError, blocker := some (c, n), skipAfter := false } hb rfl rfl
  refine ⟨some [], rfl, ?_, Or.inl ⟨rfl, Or.inl rfl⟩⟩
  simpa [Out.prepend, stepDecs] using this

theorem outputPhaseR_goodD (cfg : Cfg) (hc : cfg.clean) (opts : Option Opts) (bm : String) : GoodD cfg opts (outputPhaseR cfg opts bm) := by
  unfold outputPhaseR
  have hl := runRails_decs cfg .output .output rfl cfg.output 0 bm rfl hc.2.1
  have ho := runRails_outcome .output cfg.output 0 bm
  rcases hr : runRails .output 0 cfg.output bm with ⟨tr, lg, oc⟩
  rw [hr] at hl ho
  simp only at ho
  cases oc with
  | passed t =>
    have := @goodD_prepend cfg opts tr lg _ (hl.1 t ho.symm) (goodD_leaf cfg opts [.utter t] (.text t) rfl)
    simpa [Out.prepend] using this
  | blocked n => exact goodD_blockedTail cfg hc opts .output n (hl.2 (by intro u hu; rw [← ho] at hu; cases hu))
  | faulted n => exact goodD_faulted cfg opts .output n (hl.2 (by intro u hu; rw [← ho] at hu; cases hu))

theorem processBotMessageR_goodD (cfg : Cfg) (hc : cfg.clean) (opts : Option Opts) (sk : Bool) (bm : String) :
    GoodD cfg opts (processBotMessageR cfg opts sk bm) := by
  unfold processBotMessageR
  split
  · exact goodD_leaf cfg opts _ _ rfl
  · split
    · exact outputPhaseR_goodD cfg hc opts bm
    · exact goodD_leaf cfg opts _ _ rfl

theorem afterInputR_goodD (cfg : Cfg) (hc : cfg.clean) (opts : Option Opts) (um : String) (bot : Option String) (dlg : Dialog) :
    GoodD cfg opts (afterInputR cfg opts um bot dlg) := by
  unfold afterInputR
  split
  · split
    · exact goodD_leaf cfg opts _ _ rfl
    · cases bot with
      | none => exact goodD_leaf cfg opts _ _ rfl
      | some b => exact processBotMessageR_goodD cfg hc opts false b
  · cases dlg with
    | general text =>
      exact goodD_prepend (neutralD_clean rfl rfl) (processBotMessageR_goodD cfg hc opts false text)
    | intent flow bi p text =>
      obtain ⟨h1, h2⟩ := botIntentSegR_clean cfg hc opts p
      refine goodD_prepend (neutralD_clean ?_ ?_) (processBotMessageR_goodD cfg hc opts p text)
      · exact CleanLog.append (CleanLog.append rfl rfl) h1
      · simp only [ioCalls_append, h2]; rfl

theorem turnCoreR_goodD (cfg : Cfg) (hc : cfg.clean) (opts : Option Opts) (user : String) (bot : Option String) (dlg : Dialog) :
    GoodD cfg opts (turnCoreR cfg opts user bot dlg) := by
  unfold turnCoreR
  have hl := runRails_decs cfg .input .input rfl cfg.input 0 user rfl hc.1
  have ho := runRails_outcome .input cfg.input 0 user
  split
  all_goals rename_i tr1 lg1 x heq
  · have hb : BlockedD cfg tr1 lg1 := by
      split at heq
      · rw [heq] at hl ho; exact hl.2 (by intro u hu; simp only at ho; rw [← ho] at hu; cases hu)
      · cases heq
    exact goodD_blockedTail cfg hc opts .input x hb
  · have hb : BlockedD cfg tr1 lg1 := by
      split at heq
      · rw [heq] at hl ho; exact hl.2 (by intro u hu; simp only at ho; rw [← ho] at hu; cases hu)
      · cases heq
    exact goodD_faulted cfg opts .input x hb
  · have hb : NeutralD cfg tr1 lg1 := by
      split at heq
      · rw [heq] at hl ho; exact hl.1 x (by simp only at ho; exact ho.symm)
      · cases heq; exact neutralD_clean rfl rfl
    exact goodD_prepend hb (afterInputR_goodD cfg hc opts x bot dlg)

/-- `none`: every rail finished; `some tl`: the last one is left open with `tl` and `"stop"` -/
def closeLastO : Option (List String) → List (List String) → List (List String)
  | none, D => D
  | some tl, D => closeLast tl D

/-- **the decisions the processing log of a turn assigns to the input/output rails** -/
theorem turn_decisionsSpec (cfg : Cfg) (hc : cfg.clean) (opts : Option Opts) (user : String) (bot : Option String) (dlg : Dialog) (out : Out)
    (h : turn Gd cfg opts user bot dlg = some out) :
    ∃ t : Option (List String), t.isSome = out.blocker.isSome ∧ (t.isSome = true → calledDecs Kg cfg out.trace ≠ []) ∧
      decisionsSpec Kg none out.log = closeLastO t (calledDecs Kg cfg out.trace) ∧ TailSpec cfg opts out.reply t := by
  rw [turn_eq] at h; cases h
  obtain ⟨t, h1, h2, h3⟩ := turnCoreR_goodD cfg hc opts user bot dlg
  refine ⟨t, h1, ?_, ?_, h3⟩
  · intro hs
    cases t with
    | none => cases hs
    | some tl => exact h2.1
  · show decisionsSpec Kg none (LogEv.other :: ((turnCoreR cfg opts user bot dlg).log ++ [LogEv.other])) = _
    have e : decisionsSpec Kg none (LogEv.other :: ((turnCoreR cfg opts user bot dlg).log ++ [LogEv.other]))
        = decisionsSpec Kg none ((turnCoreR cfg opts user bot dlg).log ++ [LogEv.other]) := rfl
    rw [e]
    cases t with
    | none => rw [h2 [LogEv.other]]; simp [closeLastO, decisionsSpec, closeDec]
    | some tl => rw [h2.2 [LogEv.other] rfl]; simp [closeLastO, stepDecs]


theorem exists_snoc {α : Type} (l : List α) (h : l ≠ []) : ∃ a d, l = a ++ [d] :=
  ⟨l.dropLast, l.getLast h, (List.dropLast_concat_getLast h).symm⟩

/-- the generation log of a turn: decisions of the input/output rails in terms of the trace -/
theorem turn_ioDecs (cfg : Cfg) (hc : cfg.clean) (opts : Option Opts) (user : String) (bot : Option String) (dlg : Dialog) (out : Out)
    (h : turn Gd cfg opts user bot dlg = some out)
    (hn : ∀ c i n x, Step.railCall c i n x ∈ out.trace → n ≠ Kg.relabelName)
    (gl : GenLog.Out) (hg : compute Kg out.log = .ok gl) :
    ∃ t : Option (List String), t.isSome = out.blocker.isSome ∧ (t.isSome = true → calledDecs Kg cfg out.trace ≠ []) ∧
      ioDecs gl.rails = closeLastO t (calledDecs Kg cfg out.trace) ∧ TailSpec cfg opts out.reply t := by
  have hs := turn_stopSpec cfg hc opts user bot dlg out h
  have hn' : ∀ k ∈ stopSpec out.log, k.name ≠ Kg.relabelName := by
    intro k hk
    rw [hs] at hk
    obtain ⟨c, i, x, hm⟩ := mem_ioCalls _ _ _ (mem_markLast _ _ _ hk)
    exact hn c i k.name x hm
  rw [compute_ioDecs Kg out.log gl hg hn']
  exact turn_decisionsSpec cfg hc opts user bot dlg out h

/-- a turn no rail blocked: every input/output rail of the generation log carries exactly its own decisions -/
theorem turn_ioDecs_unblocked (cfg : Cfg) (hc : cfg.clean) (opts : Option Opts) (user : String) (bot : Option String) (dlg : Dialog) (out : Out)
    (h : turn Gd cfg opts user bot dlg = some out) (hb : out.blocker = none)
    (hn : ∀ c i n x, Step.railCall c i n x ∈ out.trace → n ≠ Kg.relabelName)
    (gl : GenLog.Out) (hg : compute Kg out.log = .ok gl) : ioDecs gl.rails = calledDecs Kg cfg out.trace := by
  obtain ⟨t, h1, _, h3, _⟩ := turn_ioDecs cfg hc opts user bot dlg out h hn gl hg
  rw [hb] at h1
  cases t with
  | none => exact h3
  | some tl => cases h1

/-- a turn ended by a rail in refusal mode with the refusal uttered: the earlier rails carry their own decisions, the
    blocking (last) one its own, then `refuse to respond`, the `generate bot message` steps, and `stop` -/
theorem turn_ioDecs_refused (cfg : Cfg) (hc : cfg.clean) (he : cfg.exceptions = false) (hne : cfg.refusal ≠ cfg.internalError)
    (opts : Option Opts) (user : String) (bot : Option String) (dlg : Dialog) (out : Out)
    (h : turn Gd cfg opts user bot dlg = some out) (hb : out.blocker.isSome = true) (hr : out.reply = .text cfg.refusal)
    (hn : ∀ c i n x, Step.railCall c i n x ∈ out.trace → n ≠ Kg.relabelName)
    (gl : GenLog.Out) (hg : compute Kg out.log = .ok gl) :
    ∃ D d, calledDecs Kg cfg out.trace = D ++ [d] ∧ ioDecs gl.rails = D ++ [d ++ refusalDecs cfg opts ++ ["stop"]] := by
  obtain ⟨t, h1, h2, h3, h4⟩ := turn_ioDecs cfg hc opts user bot dlg out h hn gl hg
  rw [hb] at h1
  cases t with
  | none => cases h1
  | some tl =>
    obtain ⟨D, d, hD⟩ := exists_snoc _ (h2 rfl)
    refine ⟨D, d, hD, ?_⟩
    have htl : tl = refusalDecs cfg opts := by
      rcases h4 with ⟨_, h5 | ⟨h5, _⟩⟩ | ⟨_, h5, _⟩
      · rw [hr] at h5; simp only [Reply.text.injEq] at h5; exact absurd h5 hne
      · rw [he] at h5; cases h5
      · exact h5
    rw [h3, hD, closeLastO, closeLast_snoc, htl]

/-- a turn ended by a faulting rail, or by a rejecting rail in rails-exception mode: the last rail carries its own
    decisions and `stop` -/
theorem turn_ioDecs_faulted (cfg : Cfg) (hc : cfg.clean)
    (opts : Option Opts) (user : String) (bot : Option String) (dlg : Dialog) (out : Out)
    (h : turn Gd cfg opts user bot dlg = some out) (hb : out.blocker.isSome = true) (hr : out.reply ≠ .text cfg.refusal)
    (hn : ∀ c i n x, Step.railCall c i n x ∈ out.trace → n ≠ Kg.relabelName)
    (gl : GenLog.Out) (hg : compute Kg out.log = .ok gl) :
    ∃ D d, calledDecs Kg cfg out.trace = D ++ [d] ∧ ioDecs gl.rails = D ++ [d ++ ["stop"]] := by
  obtain ⟨t, h1, h2, h3, h4⟩ := turn_ioDecs cfg hc opts user bot dlg out h hn gl hg
  rw [hb] at h1
  cases t with
  | none => cases h1
  | some tl =>
    obtain ⟨D, d, hD⟩ := exists_snoc _ (h2 rfl)
    refine ⟨D, d, hD, ?_⟩
    have htl : tl = [] := by
      rcases h4 with ⟨h5, _⟩ | ⟨_, _, h5⟩
      · exact h5
      · exact absurd h5 hr
    rw [h3, hD, closeLastO, closeLast_snoc, htl, List.append_nil]


/-! ### the executed actions of the input/output rails in the generation log of a turn -/

theorem startedActs_append (K : Consts) (a b : List LogEv) : startedActs K (a ++ b) = startedActs K a ++ startedActs K b := by
  simp only [startedActs, List.filterMap_append]

/-- a marker-free segment only adds the actions it starts to the open rail -/
theorem specA_clean (K : Consts) : ∀ (a : List LogEv), CleanLog a → ∀ (s : Option (List String)) (X : List LogEv),
    actionsSpec K s (a ++ X) = actionsSpec K (s.map (· ++ startedActs K a)) X
  | [], _, s, X => by cases s <;> simp [startedActs]
  | e :: rest, h, s, X => by
    obtain ⟨h1, h2⟩ := h.cons_inv
    have ih := specA_clean K rest h2
    cases e with
    | startIn _ => simp [LogEv.isStartOrFin] at h1
    | startOut _ => simp [LogEv.isStartOrFin] at h1
    | railFin => simp [LogEv.isStartOrFin] at h1
    | actStart n =>
      simp only [List.cons_append, actionsSpec, startedActs_cons, ih]
      cases s <;> simp [List.append_assoc]
    | step f n => simp only [List.cons_append, actionsSpec, startedActs_cons, ih, LogEv.startedAct, Option.toList, List.nil_append]
    | actFin n => simp only [List.cons_append, actionsSpec, startedActs_cons, ih, LogEv.startedAct, Option.toList, List.nil_append]
    | llm n => simp only [List.cons_append, actionsSpec, startedActs_cons, ih, LogEv.startedAct, Option.toList, List.nil_append]
    | other => simp only [List.cons_append, actionsSpec, startedActs_cons, ih, LogEv.startedAct, Option.toList, List.nil_append]

theorem specA_clean_end (K : Consts) (X : List LogEv) (h : CleanLog X) (s : Option (List String)) :
    actionsSpec K s X = (s.map (· ++ startedActs K X)).toList := by
  have := specA_clean K X h s []
  rw [List.append_nil] at this
  rw [this]; rfl

/-- for each input/output rail call of a trace: the actions the called rail's own body starts -/
def calledActs (K : Consts) (cfg : Cfg) : List Step → List (List String)
  | [] => []
  | .railCall c i _ _ :: rest => match catType c, (cfg.rails c)[i]? with
    | some _, some r => startedActs K r.noise :: calledActs K cfg rest
    | _, _ => calledActs K cfg rest
  | _ :: rest => calledActs K cfg rest

theorem calledActs_append (K : Consts) (cfg : Cfg) (a b : List Step) : calledActs K cfg (a ++ b) = calledActs K cfg a ++ calledActs K cfg b := by
  induction a with
  | nil => rfl
  | cons s rest ih =>
    cases s with
    | railCall c i n x => simp only [List.cons_append, calledActs]; split <;> simp [ih]
    | llmCall => simpa [calledActs] using ih
    | utter t => simpa [calledActs] using ih
    | exception c n => simpa [calledActs] using ih

theorem calledActs_of_ioCalls_nil (K : Consts) (cfg : Cfg) : ∀ tr : List Step, ioCalls tr = [] → calledActs K cfg tr = []
  | [], _ => rfl
  | s :: rest, h => by
    cases s with
    | railCall c i n x =>
      simp only [ioCalls] at h
      cases hc : catType c with
      | none =>
        rw [hc] at h
        simp only [calledActs, hc]
        exact calledActs_of_ioCalls_nil K cfg rest h
      | some ty => rw [hc] at h; simp at h
    | llmCall => exact calledActs_of_ioCalls_nil K cfg rest (by simpa [ioCalls] using h)
    | utter t => exact calledActs_of_ioCalls_nil K cfg rest (by simpa [ioCalls] using h)
    | exception c n => exact calledActs_of_ioCalls_nil K cfg rest (by simpa [ioCalls] using h)

/-- the last rail stays open: it also collects `tl` -/
def extendLast (tl : List String) : List (List String) → List (List String)
  | [] => []
  | [d] => [d ++ tl]
  | d :: rest => d :: extendLast tl rest

theorem extendLast_cons (tl : List String) (d : List String) (D : List (List String)) (h : D ≠ []) :
    extendLast tl (d :: D) = d :: extendLast tl D := by
  cases D with
  | nil => exact absurd rfl h
  | cons d' D' => rfl

theorem extendLast_append (tl : List String) : ∀ (A B : List (List String)), B ≠ [] → extendLast tl (A ++ B) = A ++ extendLast tl B
  | [], _, _ => rfl
  | d :: A, B, h => by
    rw [List.cons_append, extendLast_cons tl d (A ++ B) (by simp [h]), extendLast_append tl A B h]; rfl

theorem extendLast_snoc (tl : List String) (A : List (List String)) (d : List String) :
    extendLast tl (A ++ [d]) = A ++ [d ++ tl] := by
  rw [extendLast_append tl A [d] (by simp)]; rfl

/-- a segment that leaves no input/output rail open -/
def NeutralA (cfg : Cfg) (tr : List Step) (lg : List LogEv) : Prop :=
  ∀ X, actionsSpec Kg none (lg ++ X) = calledActs Kg cfg tr ++ actionsSpec Kg none X

/-- a segment that ends inside the body of its last rail -/
def BlockedA (cfg : Cfg) (tr : List Step) (lg : List LogEv) : Prop :=
  calledActs Kg cfg tr ≠ [] ∧
    ∀ X, CleanLog X → actionsSpec Kg none (lg ++ X) = extendLast (startedActs Kg X) (calledActs Kg cfg tr)

/-- `t = none`: no input/output rail is open at the end of `o.log`; `t = some tl`: the last called one is, and has
    collected `tl` after its own body -/
def ActO (cfg : Cfg) (o : Out) : Option (List String) → Prop
  | none => NeutralA cfg o.trace o.log
  | some tl => calledActs Kg cfg o.trace ≠ [] ∧
      ∀ X, CleanLog X → actionsSpec Kg none (o.log ++ X) = extendLast (tl ++ startedActs Kg X) (calledActs Kg cfg o.trace)

theorem neutralA_clean {cfg : Cfg} {tr : List Step} {lg : List LogEv} (hc : CleanLog lg) (ht : ioCalls tr = []) : NeutralA cfg tr lg := by
  intro X
  rw [specA_clean Kg lg hc none X, calledActs_of_ioCalls_nil Kg cfg tr ht]; rfl

theorem NeutralA.append {cfg : Cfg} {a b : List Step} {la lb : List LogEv} (h1 : NeutralA cfg a la) (h2 : NeutralA cfg b lb) :
    NeutralA cfg (a ++ b) (la ++ lb) := by
  intro X
  rw [List.append_assoc, h1, h2, calledActs_append, List.append_assoc]

theorem actO_prepend_neutral {cfg : Cfg} {tr : List Step} {lg : List LogEv} {o : Out} {t : Option (List String)}
    (hn : NeutralA cfg tr lg) (ho : ActO cfg o t) : ActO cfg (o.prepend tr lg) t := by
  cases t with
  | none => exact NeutralA.append hn ho
  | some tl =>
    obtain ⟨hne, hX⟩ := ho
    refine ⟨by simp only [prepend_trace, calledActs_append]; simp [hne], ?_⟩
    intro X hc
    simp only [prepend_trace, prepend_log, calledActs_append]
    rw [List.append_assoc, hn, hX X hc, extendLast_append _ _ _ hne]

theorem actO_of_blocked_tail {cfg : Cfg} {tr : List Step} {lg : List LogEv} {o : Out}
    (hb : BlockedA cfg tr lg) (hc : CleanLog o.log) (ht : ioCalls o.trace = []) :
    ActO cfg (o.prepend tr lg) (some (startedActs Kg o.log)) := by
  obtain ⟨hne, hX⟩ := hb
  have e : calledActs Kg cfg (tr ++ o.trace) = calledActs Kg cfg tr := by
    rw [calledActs_append, calledActs_of_ioCalls_nil Kg cfg _ ht, List.append_nil]
  refine ⟨by rw [prepend_trace, e]; exact hne, ?_⟩
  intro X hcx
  simp only [prepend_trace, prepend_log]
  rw [e, List.append_assoc, hX _ (CleanLog.append hc hcx), startedActs_append]

/-- the executed-actions structure of a rail loop (input or output category, rails with marker-free bodies) -/
theorem runRails_acts (cfg : Cfg) (c : Cat) (ty : RailType) (hc : catType c = some ty) : ∀ (rs : List Rail) (i : Nat) (t : String),
    (cfg.rails c).drop i = rs → (∀ r ∈ rs, r.clean) →
    ((∀ u, chain rs t = .passed u → NeutralA cfg (runRails c i rs t).1 (runRails c i rs t).2.1) ∧
     ((∀ u, chain rs t ≠ .passed u) → BlockedA cfg (runRails c i rs t).1 (runRails c i rs t).2.1))
  | [], _, t, _, _ => by
    refine ⟨fun u _ => neutralA_clean rfl rfl, fun h => absurd rfl (h t)⟩
  | r :: rs, i, t, hd, hcl => by
    obtain ⟨hi, hd'⟩ := drop_cons_getElem? _ _ _ _ hd
    have hr : CleanLog r.noise := hcl r (List.mem_cons_self ..)
    have hrest : ∀ r' ∈ rs, r'.clean := fun r' h' => hcl r' (List.mem_cons_of_mem _ h')
    have hstart : ∀ X, actionsSpec Kg none (startEv c r.name ++ X) = actionsSpec Kg (some []) X := by
      intro X; cases c <;> simp_all [catType, startEv, actionsSpec]
    have hfin : ∀ d X, actionsSpec Kg (some d) (finEv c ++ X) = [d] ++ actionsSpec Kg none X := by
      intro d X; cases c <;> simp_all [catType, finEv, actionsSpec]
    have hcd : ∀ x tr, calledActs Kg cfg (Step.railCall c i r.name x :: tr) = startedActs Kg r.noise :: calledActs Kg cfg tr := by
      intro x tr; simp only [calledActs, hc, hi]
    -- one complete rail: start, body, finish
    have hone : ∀ X, actionsSpec Kg none (startEv c r.name ++ r.noise ++ finEv c ++ X)
        = [startedActs Kg r.noise] ++ actionsSpec Kg none X := by
      intro X
      rw [List.append_assoc, List.append_assoc, hstart, specA_clean Kg _ hr]
      simp only [Option.map, List.nil_append]
      rw [hfin]
    -- the rail that does not finish
    have hlast : BlockedA cfg [Step.railCall c i r.name t] (startEv c r.name ++ r.noise) := by
      refine ⟨by rw [hcd]; simp, ?_⟩
      intro X hcx
      rw [List.append_assoc, hstart, specA_clean Kg _ hr, specA_clean_end Kg X hcx, hcd]
      simp [Option.toList, extendLast, calledActs]
    have hcont : ∀ t', (chain (r :: rs) t = chain rs t') →
        (runRails c i (r :: rs) t = (Step.railCall c i r.name t :: (runRails c (i + 1) rs t').1,
          startEv c r.name ++ r.noise ++ finEv c ++ (runRails c (i + 1) rs t').2.1, (runRails c (i + 1) rs t').2.2)) →
        ((∀ u, chain (r :: rs) t = .passed u → NeutralA cfg (runRails c i (r :: rs) t).1 (runRails c i (r :: rs) t).2.1) ∧
         ((∀ u, chain (r :: rs) t ≠ .passed u) → BlockedA cfg (runRails c i (r :: rs) t).1 (runRails c i (r :: rs) t).2.1)) := by
      intro t' hch hrun
      obtain ⟨ih1, ih2⟩ := runRails_acts cfg c ty hc rs (i + 1) t' hd' hrest
      rw [hrun, hch]
      constructor
      · intro u hu X
        have := ih1 u hu X
        simp only []
        rw [List.append_assoc, hone, this, hcd]; rfl
      · intro hu
        obtain ⟨hne, hX⟩ := ih2 hu
        simp only []
        refine ⟨by rw [hcd]; simp, ?_⟩
        intro X hcx
        rw [List.append_assoc, hone, hX X hcx, hcd, extendLast_cons _ _ _ hne]; rfl
    cases hv : r.verdict t with
    | accept => exact hcont t (by simp only [chain, hv]) (runRails_cons_accept c i r rs t hv)
    | rewrite t' => exact hcont t' (by simp only [chain, hv]) (runRails_cons_rewrite c i r rs t t' hv)
    | reject =>
      rw [runRails_cons_reject c i r rs t hv]
      refine ⟨fun u hu => by simp [chain, hv] at hu, fun _ => hlast⟩
    | fault =>
      rw [runRails_cons_fault c i r rs t hv]
      refine ⟨fun u hu => by simp [chain, hv] at hu, fun _ => hlast⟩

/-- the actions attributed to a rejecting rail after its own body in refusal mode: those of `generate bot message`
    (with the retrieval rails' own actions, if those run) -/
def refusalActs (cfg : Cfg) (opts : Option Opts) : List String :=
  "retrieve_relevant_chunks" :: (startedActs Kg (retrievalPartR cfg opts).2 ++ ["generate_bot_message"])

theorem blockedTailR_startedActs (cfg : Cfg) (opts : Option Opts) (c : Cat) (n : String) :
    startedActs Kg (blockedTailR cfg opts c n).log = if cfg.exceptions then [] else refusalActs cfg opts := by
  unfold blockedTailR
  split
  · rfl
  · have e1 : startedActs Kg [LogEv.step gbmFlow [.act "retrieve_relevant_chunks"], .actStart "retrieve_relevant_chunks",
        .actFin "retrieve_relevant_chunks"] = ["retrieve_relevant_chunks"] := by decide
    have e2 : startedActs Kg [LogEv.step gbmFlow [.act "generate_bot_message"], .actStart "generate_bot_message"]
        = ["generate_bot_message"] := by decide
    have e3 : startedActs Kg [LogEv.step n [.intent "refuse to respond"]] = [] := rfl
    have e4 : startedActs Kg [LogEv.actFin "generate_bot_message"] = [] := rfl
    have e5 : startedActs Kg (if true = true then [] else [LogEv.llm "generate_bot_message"]) = [] := rfl
    show startedActs Kg ([LogEv.step n [.intent "refuse to respond"]] ++
      ([LogEv.step gbmFlow [.act "retrieve_relevant_chunks"], .actStart "retrieve_relevant_chunks", .actFin "retrieve_relevant_chunks"]
        ++ (retrievalPartR cfg opts).2 ++ [LogEv.step gbmFlow [.act "generate_bot_message"], .actStart "generate_bot_message"]
        ++ (if true = true then [] else [LogEv.llm "generate_bot_message"]) ++ [LogEv.actFin "generate_bot_message"])) = refusalActs cfg opts
    rw [startedActs_append, startedActs_append, startedActs_append, startedActs_append, startedActs_append, e1, e2, e3, e4, e5]
    simp [refusalActs]

/-- how the tail of a blocked rail's actions relates to the reply -/
def TailSpecA (cfg : Cfg) (opts : Option Opts) (rp : Reply) : Option (List String) → Prop
  | none => True
  | some tl => (tl = [] ∧ (rp = .text cfg.internalError ∨ (cfg.exceptions = true ∧ ∃ c, rp = .exception c))) ∨
      (cfg.exceptions = false ∧ tl = refusalActs cfg opts ∧ rp = .text cfg.refusal)

def GoodA (cfg : Cfg) (opts : Option Opts) (o : Out) : Prop :=
  ∃ t : Option (List String), t.isSome = o.blocker.isSome ∧ ActO cfg o t ∧ TailSpecA cfg opts o.reply t

theorem goodA_prepend {cfg : Cfg} {opts : Option Opts} {tr : List Step} {lg : List LogEv} {o : Out}
    (hn : NeutralA cfg tr lg) (ho : GoodA cfg opts o) : GoodA cfg opts (o.prepend tr lg) := by
  obtain ⟨t, h1, h2, h3⟩ := ho
  exact ⟨t, h1, actO_prepend_neutral hn h2, h3⟩

theorem goodA_leaf (cfg : Cfg) (opts : Option Opts) (tr : List Step) (rp : Reply) (ht : ioCalls tr = []) :
    GoodA cfg opts { trace := tr, log := [], reply := rp, blocker := none, skipAfter := false } :=
  ⟨none, rfl, neutralA_clean rfl ht, trivial⟩

theorem goodA_blockedTail (cfg : Cfg) (hc : cfg.clean) (opts : Option Opts) (c : Cat) (n : String) {tr : List Step} {lg : List LogEv}
    (hb : BlockedA cfg tr lg) : GoodA cfg opts ((blockedTailR cfg opts c n).prepend tr lg) := by
  obtain ⟨h1, h2, h3⟩ := blockedTailR_tail cfg hc opts c n
  refine ⟨some (startedActs Kg (blockedTailR cfg opts c n).log), by rw [prepend_blocker, h3]; rfl, actO_of_blocked_tail hb h1 h2, ?_⟩
  rw [blockedTailR_startedActs, prepend_reply]
  unfold blockedTailR TailSpecA
  cases he : cfg.exceptions
  · right; exact ⟨rfl, rfl, rfl⟩
  · left; exact ⟨rfl, Or.inr ⟨rfl, c, rfl⟩⟩

theorem goodA_faulted (cfg : Cfg) (opts : Option Opts) (c : Cat) (n : String) {tr : List Step} {lg : List LogEv}
    (hb : BlockedA cfg tr lg) :
    GoodA cfg opts { trace := tr ++ [.utter cfg.internalError], log := lg, reply := .text cfg.internalError, blocker := some (c, n), skipAfter := false } := by
  have := @actO_of_blocked_tail cfg tr lg { trace := [.utter cfg.internalError], log := [], reply := .text cfg.internalError, blocker := some (c, n), skipAfter := false } hb rfl rfl
  refine ⟨some [], rfl, ?_, Or.inl ⟨rfl, Or.inl rfl⟩⟩
  simpa [Out.prepend, startedActs] using this

theorem outputPhaseR_goodA (cfg : Cfg) (hc : cfg.clean) (opts : Option Opts) (bm : String) : GoodA cfg opts (outputPhaseR cfg opts bm) := by
  unfold outputPhaseR
  have hl := runRails_acts cfg .output .output rfl cfg.output 0 bm rfl hc.2.1
  have ho := runRails_outcome .output cfg.output 0 bm
  rcases hr : runRails .output 0 cfg.output bm with ⟨tr, lg, oc⟩
  rw [hr] at hl ho
  simp only at ho
  cases oc with
  | passed t =>
    have := @goodA_prepend cfg opts tr lg _ (hl.1 t ho.symm) (goodA_leaf cfg opts [.utter t] (.text t) rfl)
    simpa [Out.prepend] using this
  | blocked n => exact goodA_blockedTail cfg hc opts .output n (hl.2 (by intro u hu; rw [← ho] at hu; cases hu))
  | faulted n => exact goodA_faulted cfg opts .output n (hl.2 (by intro u hu; rw [← ho] at hu; cases hu))

theorem processBotMessageR_goodA (cfg : Cfg) (hc : cfg.clean) (opts : Option Opts) (sk : Bool) (bm : String) :
    GoodA cfg opts (processBotMessageR cfg opts sk bm) := by
  unfold processBotMessageR
  split
  · exact goodA_leaf cfg opts _ _ rfl
  · split
    · exact outputPhaseR_goodA cfg hc opts bm
    · exact goodA_leaf cfg opts _ _ rfl

theorem afterInputR_goodA (cfg : Cfg) (hc : cfg.clean) (opts : Option Opts) (um : String) (bot : Option String) (dlg : Dialog) :
    GoodA cfg opts (afterInputR cfg opts um bot dlg) := by
  unfold afterInputR
  split
  · split
    · exact goodA_leaf cfg opts _ _ rfl
    · cases bot with
      | none => exact goodA_leaf cfg opts _ _ rfl
      | some b => exact processBotMessageR_goodA cfg hc opts false b
  · cases dlg with
    | general text =>
      exact goodA_prepend (neutralA_clean rfl rfl) (processBotMessageR_goodA cfg hc opts false text)
    | intent flow bi p text =>
      obtain ⟨h1, h2⟩ := botIntentSegR_clean cfg hc opts p
      refine goodA_prepend (neutralA_clean ?_ ?_) (processBotMessageR_goodA cfg hc opts p text)
      · exact CleanLog.append (CleanLog.append rfl rfl) h1
      · simp only [ioCalls_append, h2]; rfl

theorem turnCoreR_goodA (cfg : Cfg) (hc : cfg.clean) (opts : Option Opts) (user : String) (bot : Option String) (dlg : Dialog) :
    GoodA cfg opts (turnCoreR cfg opts user bot dlg) := by
  unfold turnCoreR
  have hl := runRails_acts cfg .input .input rfl cfg.input 0 user rfl hc.1
  have ho := runRails_outcome .input cfg.input 0 user
  split
  all_goals rename_i tr1 lg1 x heq
  · have hb : BlockedA cfg tr1 lg1 := by
      split at heq
      · rw [heq] at hl ho; exact hl.2 (by intro u hu; simp only at ho; rw [← ho] at hu; cases hu)
      · cases heq
    exact goodA_blockedTail cfg hc opts .input x hb
  · have hb : BlockedA cfg tr1 lg1 := by
      split at heq
      · rw [heq] at hl ho; exact hl.2 (by intro u hu; simp only at ho; rw [← ho] at hu; cases hu)
      · cases heq
    exact goodA_faulted cfg opts .input x hb
  · have hb : NeutralA cfg tr1 lg1 := by
      split at heq
      · rw [heq] at hl ho; exact hl.1 x (by simp only at ho; exact ho.symm)
      · cases heq; exact neutralA_clean rfl rfl
    exact goodA_prepend hb (afterInputR_goodA cfg hc opts x bot dlg)

/-- `none`: every rail finished; `some tl`: the last one is left open and also gets `tl` -/
def extendLastO : Option (List String) → List (List String) → List (List String)
  | none, D => D
  | some tl, D => extendLast tl D

/-- **the executed actions the processing log of a turn assigns to the input/output rails** -/
theorem turn_actionsSpec (cfg : Cfg) (hc : cfg.clean) (opts : Option Opts) (user : String) (bot : Option String) (dlg : Dialog) (out : Out)
    (h : turn Gd cfg opts user bot dlg = some out) :
    ∃ t : Option (List String), t.isSome = out.blocker.isSome ∧ (t.isSome = true → calledActs Kg cfg out.trace ≠ []) ∧
      actionsSpec Kg none out.log = extendLastO t (calledActs Kg cfg out.trace) ∧ TailSpecA cfg opts out.reply t := by
  rw [turn_eq] at h; cases h
  obtain ⟨t, h1, h2, h3⟩ := turnCoreR_goodA cfg hc opts user bot dlg
  refine ⟨t, h1, ?_, ?_, h3⟩
  · intro hs
    cases t with
    | none => cases hs
    | some tl => exact h2.1
  · show actionsSpec Kg none (LogEv.other :: ((turnCoreR cfg opts user bot dlg).log ++ [LogEv.other])) = _
    have e : actionsSpec Kg none (LogEv.other :: ((turnCoreR cfg opts user bot dlg).log ++ [LogEv.other]))
        = actionsSpec Kg none ((turnCoreR cfg opts user bot dlg).log ++ [LogEv.other]) := rfl
    rw [e]
    cases t with
    | none => rw [h2 [LogEv.other]]; simp [extendLastO, actionsSpec, Option.toList]
    | some tl =>
      have e3 : startedActs Kg [LogEv.other] = [] := rfl
      rw [h2.2 [LogEv.other] rfl, e3, List.append_nil]; rfl




/-- the generation log of a turn: executed actions of the input/output rails in terms of the trace -/
theorem turn_ioActs (cfg : Cfg) (hc : cfg.clean) (opts : Option Opts) (user : String) (bot : Option String) (dlg : Dialog) (out : Out)
    (h : turn Gd cfg opts user bot dlg = some out)
    (hn : ∀ c i n x, Step.railCall c i n x ∈ out.trace → n ≠ Kg.relabelName)
    (gl : GenLog.Out) (hg : compute Kg out.log = .ok gl) :
    ∃ t : Option (List String), t.isSome = out.blocker.isSome ∧ (t.isSome = true → calledActs Kg cfg out.trace ≠ []) ∧
      ioActs gl.rails = extendLastO t (calledActs Kg cfg out.trace) ∧ TailSpecA cfg opts out.reply t := by
  have hs := turn_stopSpec cfg hc opts user bot dlg out h
  have hn' : ∀ k ∈ stopSpec out.log, k.name ≠ Kg.relabelName := by
    intro k hk
    rw [hs] at hk
    obtain ⟨c, i, x, hm⟩ := mem_ioCalls _ _ _ (mem_markLast _ _ _ hk)
    exact hn c i k.name x hm
  rw [compute_ioActs Kg out.log gl hg hn']
  exact turn_actionsSpec cfg hc opts user bot dlg out h

/-- a turn no rail blocked: every input/output rail of the generation log carries exactly its own executed actions -/
theorem turn_ioActs_unblocked (cfg : Cfg) (hc : cfg.clean) (opts : Option Opts) (user : String) (bot : Option String) (dlg : Dialog) (out : Out)
    (h : turn Gd cfg opts user bot dlg = some out) (hb : out.blocker = none)
    (hn : ∀ c i n x, Step.railCall c i n x ∈ out.trace → n ≠ Kg.relabelName)
    (gl : GenLog.Out) (hg : compute Kg out.log = .ok gl) : ioActs gl.rails = calledActs Kg cfg out.trace := by
  obtain ⟨t, h1, _, h3, _⟩ := turn_ioActs cfg hc opts user bot dlg out h hn gl hg
  rw [hb] at h1
  cases t with
  | none => exact h3
  | some tl => cases h1

/-- a turn ended by a rail in refusal mode with the refusal uttered: the earlier rails carry their own executed actions, the
    blocking (last) one its own and then those of `generate bot message` (`refusalActs`) -/
theorem turn_ioActs_refused (cfg : Cfg) (hc : cfg.clean) (he : cfg.exceptions = false) (hne : cfg.refusal ≠ cfg.internalError)
    (opts : Option Opts) (user : String) (bot : Option String) (dlg : Dialog) (out : Out)
    (h : turn Gd cfg opts user bot dlg = some out) (hb : out.blocker.isSome = true) (hr : out.reply = .text cfg.refusal)
    (hn : ∀ c i n x, Step.railCall c i n x ∈ out.trace → n ≠ Kg.relabelName)
    (gl : GenLog.Out) (hg : compute Kg out.log = .ok gl) :
    ∃ D d, calledActs Kg cfg out.trace = D ++ [d] ∧ ioActs gl.rails = D ++ [d ++ refusalActs cfg opts] := by
  obtain ⟨t, h1, h2, h3, h4⟩ := turn_ioActs cfg hc opts user bot dlg out h hn gl hg
  rw [hb] at h1
  cases t with
  | none => cases h1
  | some tl =>
    obtain ⟨D, d, hD⟩ := exists_snoc _ (h2 rfl)
    refine ⟨D, d, hD, ?_⟩
    have htl : tl = refusalActs cfg opts := by
      rcases h4 with ⟨_, h5 | ⟨h5, _⟩⟩ | ⟨_, h5, _⟩
      · rw [hr] at h5; simp only [Reply.text.injEq] at h5; exact absurd h5 hne
      · rw [he] at h5; cases h5
      · exact h5
    rw [h3, hD, extendLastO, extendLast_snoc, htl]

/-- a turn ended by a faulting rail, or by a rejecting rail in rails-exception mode: the last rail carries its own
    executed actions only -/
theorem turn_ioActs_faulted (cfg : Cfg) (hc : cfg.clean)
    (opts : Option Opts) (user : String) (bot : Option String) (dlg : Dialog) (out : Out)
    (h : turn Gd cfg opts user bot dlg = some out) (hb : out.blocker.isSome = true) (hr : out.reply ≠ .text cfg.refusal)
    (hn : ∀ c i n x, Step.railCall c i n x ∈ out.trace → n ≠ Kg.relabelName)
    (gl : GenLog.Out) (hg : compute Kg out.log = .ok gl) :
    ioActs gl.rails = calledActs Kg cfg out.trace := by
  obtain ⟨t, h1, h2, h3, h4⟩ := turn_ioActs cfg hc opts user bot dlg out h hn gl hg
  rw [hb] at h1
  cases t with
  | none => cases h1
  | some tl =>
    obtain ⟨D, d, hD⟩ := exists_snoc _ (h2 rfl)
    have htl : tl = [] := by
      rcases h4 with ⟨h5, _⟩ | ⟨_, _, h5⟩
      · exact h5
      · exact absurd h5 hr
    rw [h3, hD, extendLastO, extendLast_snoc, htl, List.append_nil]



end NemoVerif.PipelineOpts
