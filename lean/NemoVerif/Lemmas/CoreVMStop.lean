/-
  C09 / CoreVM — `no_stopping_at_exit`: the interpreter logic itself never leaves an instance STOPPING.
  STOPPING is written only by the `Abort` element of `slide`, for the sliding flow itself, immediately
  followed by moving the sliding head behind the last element; `_advance_head_front` then calls `_abort_flow`.
-/
import NemoVerif.Lemmas.CoreVMKeeps
open NemoVerif NemoVerif.CoreIndex
open Std.Do
set_option mvcgen.warning false
namespace NemoVerif.CoreVM


def StInv.and (I1 I2 : StInv) : StInv where
  J s := I1.J s ∧ I2.J s
  okOp op := I1.okOp op ∧ I2.okOp op
  frame := fun s g h hg => ⟨I1.frame s g h.1 hg, I2.frame s g h.2 hg⟩
  step := fun s op hg h hop => ⟨I1.step s op hg h.1 hop.1, I2.step s op hg h.2 hop.2⟩

/-- `cfgOfInst f` answers `cfg` -/
def cfgInv (f : FUid) (cfg : FlowCfg) : StInv where
  J s := ∃ id, OMap.lookup f (flowIds s.r) = some id ∧ s.r.prog.find id = some cfg
  okOp _ := True
  frame := fun s g h hg => by
    obtain ⟨id, h1, h2⟩ := h
    exact ⟨id, (hg s.r).2 f id h1, by rw [(hg s.r).1]; exact h2⟩
  step := fun _ _ _ h _ => h

/-- the index component is exactly `ix0` (kept by everything that applies no operation) -/
def ixEqInv (ix0 : IState) : StInv where
  J s := s.ixs.ix = ix0
  okOp _ := False
  frame := fun _ _ h _ => h
  step := fun _ _ _ _ h => h.elim

def ForInStep.val {β} : ForInStep β → β
  | .yield b => b
  | .done b => b

/-- loop rule with an invariant over the loop variables and the state -/
theorem forInL_inv {α β} (Inv : β → VM → Prop) (E : VMErr → VM → Prop) (l : List α) (init : β) (f : α → β → M (ForInStep β))
    (hf : ∀ a b, ⦃fun s => ⌜Inv b s⌝⦄ f a b ⦃post⟨fun r s => ⌜Inv (ForInStep.val r) s⌝, fun e s => ⌜E e s⌝⟩⦄) :
    ⦃fun s => ⌜Inv init s⌝⦄ forInL l init f ⦃post⟨fun b s => ⌜Inv b s⌝, fun e s => ⌜E e s⌝⟩⦄ := by
  unfold forInL
  induction l generalizing init with
  | nil => simp only [List.forIn_nil]; mvcgen
  | cons a rest ih =>
    simp only [List.forIn_cons]
    mvcgen [hf, ih]



/-- every STOPPING instance is one of `A` -/
def StopSub (A : List FUid) (l : List Inst) : Prop := ∀ i ∈ l, i.status = .stopping → i.uid ∈ A

theorem mem_mapInst {l : List Inst} {f : FUid} {g : Inst → Inst} {i' : Inst} (h : i' ∈ mapInst l f g) :
    ∃ i ∈ l, i' = if i.uid = f then g i else i := by
  unfold mapInst at h
  simp only [List.mem_map] at h
  obtain ⟨i, hi, e⟩ := h
  exact ⟨i, hi, e.symm⟩

theorem stopSub_mapInst {A l f g} (h : StopSub A l) (hg : ∀ i, (g i).uid = i.uid ∧ ((g i).status = .stopping → i.status = .stopping ∨ i.uid ∈ A)) :
    StopSub A (mapInst l f g) := by
  intro i' hi' hst
  obtain ⟨i, hi, e⟩ := mem_mapInst hi'
  subst e
  split at hst
  · rename_i hf
    rw [if_pos hf, (hg i).1]
    rcases (hg i).2 hst with h1 | h1
    · exact h i hi h1
    · exact h1
  · rename_i hf
    rw [if_neg hf]; exact h i hi hst

theorem stopSub_touchInsts {A l f h g} (hs : StopSub A l) : StopSub A (touchInsts l f h g) := by
  unfold touchInsts
  split
  · exact hs
  · split
    · exact hs
    · apply stopSub_mapInst hs
      intro i; exact ⟨rfl, fun h => Or.inl h⟩

theorem stopSub_step {A : List FUid} {l : List Inst} {op : Op} (h : StopSub A l)
    (hop : NotStoppingOp op ∨ ∃ f ∈ A, op = .setFlowStatus f .stopping) : StopSub A (stepInsts l op) := by
  cases op with
  | addInst f hh nm0 =>
    intro i hi hst
    simp only [stepInsts, List.mem_append, List.mem_singleton] at hi
    rcases hi with hi | hi
    · exact h i hi hst
    · subst hi; cases hst
  | setPos f hh p nm =>
    simp only [stepInsts]
    split
    · exact h
    · split
      · exact h
      · exact stopSub_touchInsts h
  | setStatus f hh st nm =>
    simp only [stepInsts]
    split
    · exact h
    · split
      · exact h
      · exact stopSub_touchInsts h
  | fork f h' nm0 p nm =>
    simp only [stepInsts]
    have h1 : StopSub A (mapInst l f fun i => { i with heads := i.heads ++ [newHead h' nm0] }) :=
      stopSub_mapInst h (fun i => ⟨rfl, fun h => Or.inl h⟩)
    split
    · exact h1
    · exact stopSub_touchInsts h1
  | delHead f hh => exact stopSub_mapInst h (fun i => ⟨rfl, fun h => Or.inl h⟩)
  | dropHeads f =>
    simp only [stepInsts]
    split
    · exact h
    · exact stopSub_mapInst h (fun i => ⟨rfl, fun h => Or.inl h⟩)
  | rmHead f hh => exact h
  | clearHeads f => exact stopSub_mapInst h (fun i => ⟨rfl, fun h => Or.inl h⟩)
  | mainRestart f hh nm0 =>
    simp only [stepInsts]
    split
    · exact h
    · exact stopSub_mapInst h (fun i => ⟨rfl, fun h => by cases h⟩)
  | setFlowStatus f st =>
    simp only [stepInsts]
    rcases hop with hop | ⟨f', hf', e⟩
    · exact stopSub_mapInst h (fun i => ⟨rfl, fun h => by simp only [NotStoppingOp] at hop; exact absurd h hop⟩)
    · cases e
      intro i' hi' hst
      obtain ⟨i, hi, e⟩ := mem_mapInst hi'
      subst e
      split at hst
      · rename_i hf; rw [if_pos hf]; simpa [hf] using hf'
      · rename_i hf; rw [if_neg hf]; exact h i hi hst
  | removeInst f =>
    intro i hi hst
    simp only [stepInsts, List.mem_filter] at hi
    exact h i hi.1 hst

/-- the invariant "only instances in `A` are STOPPING" -/
def stopInv (A : List FUid) : StInv where
  J s := StopSub A s.ixs.ix.insts
  okOp op := NotStoppingOp op ∨ ∃ f ∈ A, op = .setFlowStatus f .stopping
  frame := fun _ _ h _ => h
  step := fun s op hg h hop => by
    show StopSub A (step s.ixs.ix op).insts
    rw [insts_step]; exact stopSub_step h hop

theorem stopInv_hall (A) : ∀ op, NotStoppingOp op → (stopInv A).okOp op := fun _ h => Or.inl h
theorem stopInv_hstop (A f) (h : f ∈ A) : (stopInv A).okOp (.setFlowStatus f .stopping) := Or.inr ⟨f, h, rfl⟩
theorem stopSub_mono {A B l} (h : StopSub A l) (hs : ∀ a ∈ A, a ∈ B) : StopSub B l := fun i hi hst => hs _ (h i hi hst)


/-- precise rule for `applyOp` -/
theorem applyOp_wp (op : Op) (P : VM → Prop) (Qok : VM → Prop) (Qerr : VM → Prop)
    (hok : ∀ s (hg : op.guard s.ixs.ix = true), P s → Qok { s with ixs := s.ixs.apply op hg })
    (herr : ∀ s, P s → Qerr s) :
    ⦃fun s => ⌜P s⌝⦄ applyOp op ⦃post⟨fun _ s => ⌜Qok s⌝, fun _ s => ⌜Qerr s⌝⟩⦄ := by
  apply triple_of_fn
  · intro s a s' hs heq
    unfold applyOp at heq
    split at heq
    · cases heq; exact hok _ _ hs
    · cases heq
  · intro s a s' hs heq
    unfold applyOp at heq
    split at heq
    · cases heq
    · cases heq; exact herr _ hs

/-- every instance called `f` is STOPPING -/
def FStopL (f : FUid) (l : List Inst) : Prop := ∀ i ∈ l, i.uid = f → i.status = .stopping

theorem fstopL_mapInst_heads {f f' l} {g : Inst → Inst} (h : FStopL f l) (hg : ∀ i, (g i).uid = i.uid ∧ (g i).status = i.status) :
    FStopL f (mapInst l f' g) := by
  intro i' hi' hu
  obtain ⟨i, hi, e⟩ := mem_mapInst hi'
  subst e
  split at hu
  · rename_i hf; rw [if_pos hf, (hg i).2]; exact h i hi (by rw [← (hg i).1]; exact hu)
  · rename_i hf; rw [if_neg hf]; exact h i hi hu

theorem fstopL_touchInsts {f f' h l g} (hs : FStopL f l) : FStopL f (touchInsts l f' h g) := by
  unfold touchInsts
  split
  · exact hs
  · split
    · exact hs
    · exact fstopL_mapInst_heads hs (fun i => ⟨rfl, rfl⟩)

/-- "all instances called `f` are STOPPING" is kept by head moves -/
def fstopInv (f : FUid) : StInv where
  J s := FStopL f s.ixs.ix.insts
  okOp op := match op with | .setPos .. => True | .setStatus .. => True | _ => False
  frame := fun _ _ h _ => h
  step := fun s op hg h hop => by
    show FStopL f (step s.ixs.ix op).insts
    rw [insts_step]
    cases op <;> simp only at hop
    · simp only [stepInsts]; split
      · exact h
      · split
        · exact h
        · exact fstopL_touchInsts h
    · simp only [stepInsts]; split
      · exact h
      · split
        · exact h
        · exact fstopL_touchInsts h

theorem stopSub_setStopping {A l f} (h : StopSub A l) : StopSub (f :: A) (stepInsts l (.setFlowStatus f .stopping)) :=
  stopSub_step (stopSub_mono h (fun _ ha => List.mem_cons_of_mem _ ha)) (Or.inr ⟨f, List.mem_cons_self, rfl⟩)

theorem fstopL_setStopping {l f} : FStopL f (stepInsts l (.setFlowStatus f .stopping)) := by
  intro i' hi' hu
  simp only [stepInsts] at hi'
  obtain ⟨i, hi, e⟩ := mem_mapInst hi'
  subst e
  split at hu
  · rename_i hf; rw [if_pos hf]
  · rename_i hf; rw [if_neg hf] at *; exact absurd hu hf

theorem setFlowStatus_stopping_spec (A : List FUid) (f : FUid) (cfg : FlowCfg) :
    ⦃fun s => ⌜StopSub A s.ixs.ix.insts ∧ (cfgInv f cfg).J s⌝⦄ setFlowStatus f .stopping
    ⦃post⟨fun _ s => ⌜((stopInv (f :: A)).and ((cfgInv f cfg).and (fstopInv f))).J s⌝, fun _ s => ⌜StopSub (f :: A) s.ixs.ix.insts⌝⟩⦄ := by
  have hspec := applyOp_wp (.setFlowStatus f .stopping)
    (fun s => StopSub A s.ixs.ix.insts ∧ (cfgInv f cfg).J s)
    (fun s => ((stopInv (f :: A)).and ((cfgInv f cfg).and (fstopInv f))).J s)
    (fun s => StopSub (f :: A) s.ixs.ix.insts)
    (by
      intro s hg ⟨h1, h2⟩
      refine ⟨?_, h2, ?_⟩
      · show StopSub (f :: A) (step s.ixs.ix _).insts
        rw [insts_step]; exact stopSub_setStopping h1
      · show FStopL f (step s.ixs.ix _).insts
        rw [insts_step]; exact fstopL_setStopping)
    (by intro s ⟨h1, _⟩; exact stopSub_mono h1 (fun _ ha => List.mem_cons_of_mem _ ha))
  unfold setFlowStatus
  mvcgen [hspec, getRest_keeps, modInstX_keeps]
  all_goals (intros; first | assumption | trivial | (rename_i h; exact h.1) | skip)

/-- head `h` of `f` exists and stands at `n` -/
def HeadPos (ix : IState) (f : FUid) (h : HUid) (n : Nat) : Prop :=
  ∃ i hd, findInst ix f = some i ∧ i.findHead h = some hd ∧ hd.pos = n

theorem headPos_setPos {ix : IState} {f h n nm hd} (hh : (findInst ix f).bind (·.findHead h) = some hd) :
    HeadPos (step ix (.setPos f h n nm)) f h n := by
  cases hi : findInst ix f with
  | none => simp [hi] at hh
  | some i =>
    simp only [hi, Option.bind_some] at hh
    simp only [step, hi, Option.bind_some, hh]
    split
    · rename_i hp; exact ⟨i, hd, hi, hh, hp⟩
    · rw [touchHead_found _ hi hh]
      refine ⟨i.modifyHead h fun x => { x with pos := n, elem := nm }, { hd with pos := n, elem := nm }, ?_, ?_, rfl⟩
      · rw [findInst_of_insts_eq (insts_headChanged _ _ _ _ _),
          findInst_modifyInst ix f f (fun i => i.modifyHead h fun x => { x with pos := n, elem := nm }) (fun _ => rfl)]
        simp [hi]
      · rw [findHead_modifyHead i h h (fun x => { x with pos := n, elem := nm }) (fun _ => rfl)]
        simp [hh]

/-- head `h` of `f` exists (kept by everything that applies no operation) -/
def headExInv (f : FUid) (h : HUid) : StInv where
  J s := ∃ hd, (findInst s.ixs.ix f).bind (·.findHead h) = some hd
  okOp _ := False
  frame := fun _ _ h _ => h
  step := fun _ _ _ _ h => h.elim

theorem setHeadPos_end_spec (B : List FUid) (f : FUid) (h : HUid) (cfg : FlowCfg) (n : Nat) :
    ⦃fun s => ⌜((stopInv B).and ((cfgInv f cfg).and (fstopInv f))).J s⌝⦄ setHeadPos (f, h) n
    ⦃post⟨fun _ s => ⌜((stopInv B).and ((cfgInv f cfg).and (fstopInv f))).J s ∧ HeadPos s.ixs.ix f h n⌝,
          fun _ s => ⌜StopSub B s.ixs.ix.insts⌝⟩⦄ := by
  have hok : ∀ nm, ((stopInv B).and ((cfgInv f cfg).and (fstopInv f))).okOp (.setPos f h n nm) :=
    fun nm => ⟨Or.inl trivial, trivial, trivial⟩
  have hspec : ∀ nm, ⦃fun s => ⌜(((stopInv B).and ((cfgInv f cfg).and (fstopInv f))).and (headExInv f h)).J s⌝⦄
      applyOp (.setPos f h n nm)
      ⦃post⟨fun _ s => ⌜((stopInv B).and ((cfgInv f cfg).and (fstopInv f))).J s ∧ HeadPos s.ixs.ix f h n⌝, fun _ s => ⌜StopSub B s.ixs.ix.insts⌝⟩⦄ := by
    intro nm
    apply applyOp_wp
    · intro s hg ⟨h1, hd, h2⟩
      exact ⟨StInv.step _ s _ hg h1 (hok nm), headPos_setPos h2⟩
    · intro s ⟨h1, _⟩; exact h1.1
  have hname := fun st => attemptPy_keeps (((stopInv B).and ((cfgInv f cfg).and (fstopInv f))).and (headExInv f h)) _ (nameFor_keeps _ f n st)
  unfold setHeadPos
  mvcgen [hspec, hname, getHead?, getIx, unsupported, pyRaise]
  · rename_i h1 _; exact h1.1
  · rename_i h1 hd hx hp
    refine ⟨h1, ?_⟩
    rename_i s0
    cases hi : findInst s0.ixs.ix f with
    | none => rw [hi] at hx; cases hx
    | some i => rw [hi] at hx; exact ⟨i, hd, hi, hx, hp⟩
  · rename_i h1 hd hx hp; exact ⟨h1, hd, hx⟩
  · rename_i h1; exact h1.1.1
  · intro h1; exact h1.1.1


/-- the `Abort` element without catch label: `flow_state.status = STOPPING; head.position = len(elements)` -/
def abortSeq2 {α} (f : FUid) (k : Key) (n : Nat) (rest : Unit → M α) : M α := do
  setFlowStatus f .stopping
  let r ← setHeadPos k n
  rest r

theorem abortSeq2_eq {α} (f : FUid) (k : Key) (n : Nat) (rest : Unit → M α) :
    (setFlowStatus f .stopping >>= fun _ => setHeadPos k n >>= rest) = abortSeq2 f k n rest := rfl

/-- after a step of `slide` for head `h` of `f`: either still only `A` is STOPPING, or `f` has just been set STOPPING and `h` stands
    behind the last element -/
def QS (A : List FUid) (f : FUid) (h : HUid) (n : Nat) (s : VM) : Prop :=
  StopSub A s.ixs.ix.insts ∨ (StopSub (f :: A) s.ixs.ix.insts ∧ FStopL f s.ixs.ix.insts ∧ HeadPos s.ixs.ix f h n)

theorem abortSeq2_spec {α} (A : List FUid) (f : FUid) (h : HUid) (cfg : FlowCfg) (rest : Unit → M α)
    (Qok : α → VM → Prop)
    (hrest : ∀ r, ⦃fun s => ⌜(cfgInv f cfg).J s ∧ QS A f h cfg.elements.size s⌝⦄ rest r
      ⦃post⟨fun a s => ⌜Qok a s⌝, fun _ s => ⌜StopSub (f :: A) s.ixs.ix.insts⌝⟩⦄) :
    ⦃fun s => ⌜((stopInv A).and (cfgInv f cfg)).J s⌝⦄ abortSeq2 f (f, h) cfg.elements.size rest
    ⦃post⟨fun a s => ⌜Qok a s⌝, fun _ s => ⌜StopSub (f :: A) s.ixs.ix.insts⌝⟩⦄ := by
  unfold abortSeq2
  have h1 := setFlowStatus_stopping_spec A f cfg
  have h2 := setHeadPos_end_spec (f :: A) f h cfg cfg.elements.size
  mvcgen [h1, h2, hrest]
  rename_i hh
  exact ⟨hh.1.2.1, Or.inr ⟨hh.1.1, hh.1.2.2, hh.2⟩⟩

theorem lookup_flowIds (f : FUid) (fx : List (FUid × InstX)) :
    OMap.lookup f (fx.map fun e => (e.1, e.2.flowId)) = (OMap.lookup f fx).map (·.flowId) := by
  induction fx with
  | nil => rfl
  | cons e rest ih =>
    obtain ⟨k, v⟩ := e
    simp only [List.map_cons, OMap.lookup]
    split <;> simp [ih]

/-- under `cfgInv f cfg0`, `cfgOfInst f` answers `cfg0` -/
theorem cfgOfInst_eq (I : StInv) (f : FUid) (cfg0 : FlowCfg) :
    ⦃fun s => ⌜(I.and (cfgInv f cfg0)).J s⌝⦄ cfgOfInst f
    ⦃post⟨fun r s => ⌜(I.and (cfgInv f cfg0)).J s ∧ r = cfg0⌝, fun _ s => ⌜(I.and (cfgInv f cfg0)).J s⌝⟩⦄ := by
  unfold cfgOfInst getInstX getInstX? getCfg
  mvcgen [getRest, pyRaise]
  rename_i s hs x hx cfg hcfg
  refine ⟨hs, ?_⟩
  obtain ⟨id, h1, h2⟩ := hs.2
  simp only [flowIds, lookup_flowIds] at h1
  rw [hx] at h1
  simp only [Option.map_some, Option.some.injEq] at h1
  rw [h1, h2] at hcfg
  exact (Option.some.inj hcfg).symm


section s1
attribute [local spec] forInL_keeps mapM_keeps getRest_keeps getIx_keeps pyRaise_keeps unsupported_keeps modifyRest_keeps freshUid_keeps getInst?_keeps getInst_keeps getInstX?_keeps getInstX_keeps modInstX_keeps ctxHolder_keeps getCtx_keeps setCtxVar_keeps getHead?_keeps getHeadX_keeps modHeadX_keeps getCfg_keeps getAction?_keeps setAction_keeps pushEvent_keeps pushLeftEvent_keeps valueErr_keeps lookupVar_keeps attrOf_keeps evalExpr_keeps evalIn_keeps evalEmpty_keeps evalArgs_keeps
attribute [local spec] attemptPy_keeps instanceArguments_keeps flowObjOf_keeps flowStartEvent_keeps flowGetEvent_keeps actionGetEvent_keeps tempAction_keeps tempFlowObj_keeps resolveRef_keeps getEventName_keeps getEvent_keeps eventMatchingScore_keeps updateActionStatusByEvent_keeps generateUmimEvent_keeps releaseAction_keeps isReferenceActivated_keeps deactivatesRef_keeps isChildActivated_keeps failedEvent_keeps restartActivated_keeps logActionOrIntents_keeps nameFor_keeps headScores_keeps headKeyScores_keeps labelPos_keeps pickChoice_keeps applyOp_keeps

set_option maxHeartbeats 4000000 in
/-- one step of `slide` (head `h` of flow `f`, whose configuration is `cfg0`) -/
theorem slideStep_stop (A : List FUid) (fuel : Nat) (f : FUid) (h : HUid) (cfg0 : FlowCfg) :
    ⦃fun s => ⌜((stopInv A).and (cfgInv f cfg0)).J s⌝⦄ slideStep fuel f h
    ⦃post⟨fun _ s => ⌜(cfgInv f cfg0).J s ∧ QS A f h cfg0.elements.size s⌝, fun _ s => ⌜StopSub (f :: A) s.ixs.ix.insts⌝⟩⦄ := by
  have hall : ∀ op, NotStoppingOp op → ((stopInv A).and (cfgInv f cfg0)).okOp op := fun op hh => ⟨Or.inl hh, trivial⟩
  have hend := hend_of_hall _ hall
  have hcfg := cfgOfInst_eq (stopInv A) f cfg0
  have hab := fun fuel => abortFlow_keeps _ hend fuel
  have hch := fun fuel => childHeadUids_keeps ((stopInv A).and (cfgInv f cfg0)) fuel
  have hsp := setHeadPos_keeps _ hall
  have hss := setHeadStatus_keeps _ hall
  unfold slideStep
  simp only [forIn_eq_forInL, abortSeq2_eq]
  mvcgen [hcfg, hab, hch, hsp, hss, abortSeq2_spec]
  all_goals (first
    | (rename_i hh; exact ⟨hh.2, Or.inl hh.1⟩)
    | (intro hh; exact stopSub_mono hh.1 (fun _ ha => List.mem_cons_of_mem _ ha))
    | (intro hh; exact hh)
    | exact hall _ trivial
    | (intros; trivial)
    | (rename_i hq; exact hq)
    | keeps_side hall
    | (rename_i hh; exact hh.1)
    | grind)
end s1


theorem bind_eval_ok {α β} {x : M α} {F : α → M β} {s s' : VM} {a : α} (h : x s = .ok a s') : (x >>= F) s = F a s' := by
  show EStateM.bind x F s = _
  unfold EStateM.bind; rw [h]

theorem bind_eval_err {α β} {x : M α} {F : α → M β} {s s' : VM} {e : VMErr} (h : x s = .error e s') : (x >>= F) s = .error e s' := by
  show EStateM.bind x F s = _
  unfold EStateM.bind; rw [h]

theorem slideStep_noop (fuel : Nat) (f : FUid) (h : HUid) (s : VM) (cfg0 : FlowCfg) (hd : Head)
    (h1 : cfgOfInst f s = .ok cfg0 s) (h2 : getHead? (f, h) s = .ok (some hd) s) (h3 : hd.pos ≥ cfg0.elements.size) :
    slideStep fuel f h s = .ok (true, []) s := by
  unfold slideStep
  rw [bind_eval_ok h1]
  simp only []
  rw [bind_eval_ok h2]
  simp only [h3, decide_true, Bool.true_or, if_true]
  rfl


theorem cfgOfInst_of_cfgInv {f : FUid} {cfg0 : FlowCfg} {s : VM} (h : (cfgInv f cfg0).J s) : cfgOfInst f s = .ok cfg0 s := by
  obtain ⟨id, h1, h2⟩ := h
  simp only [flowIds, lookup_flowIds] at h1
  cases hx : OMap.lookup f s.r.fx with
  | none => rw [hx] at h1; cases h1
  | some x =>
    rw [hx] at h1
    simp only [Option.map_some, Option.some.injEq] at h1
    subst h1
    simp [cfgOfInst, getInstX, getInstX?, getRest, getCfg, bind, EStateM.bind, get, getThe, MonadStateOf.get, EStateM.get, pure, EStateM.pure, hx, h2]

theorem getHead?_eval (k : Key) (s : VM) : getHead? k s = .ok ((findInst s.ixs.ix k.1).bind (·.findHead k.2)) s := rfl

theorem slideLoop_stop (A : List FUid) (f : FUid) (h : HUid) (cfg0 : FlowCfg) : ∀ (fuel : Nat) (acc : List Key),
    ⦃fun s => ⌜(cfgInv f cfg0).J s ∧ QS A f h cfg0.elements.size s⌝⦄ slideLoop fuel f h acc
    ⦃post⟨fun _ s => ⌜(cfgInv f cfg0).J s ∧ QS A f h cfg0.elements.size s⌝, fun _ s => ⌜StopSub (f :: A) s.ixs.ix.insts⌝⟩⦄
  | 0, acc => by
    apply triple_of_fn
    · intro s a s' _ heq; simp [slideLoop, throw, throwThe, MonadExceptOf.throw, EStateM.throw] at heq
    · intro s e s' hp heq
      simp [slideLoop, throw, throwThe, MonadExceptOf.throw, EStateM.throw] at heq
      obtain ⟨_, rfl⟩ := heq
      rcases hp.2 with hq | hq
      · exact stopSub_mono hq (fun _ ha => List.mem_cons_of_mem _ ha)
      · exact hq.1
  | fuel + 1, acc => by
    have ih := fun acc => fn_of_triple (slideLoop_stop A f h cfg0 fuel acc)
    have hstep := fn_of_triple (slideStep_stop A fuel f h cfg0)
    apply triple_of_fn
    · intro s a s' ⟨hc, hq⟩ heq
      unfold slideLoop at heq
      rcases hq with hq | hq
      · cases hst : slideStep fuel f h s with
        | error e s1 => rw [bind_eval_err hst] at heq; cases heq
        | ok r s1 =>
          rw [bind_eval_ok hst] at heq
          have h1 := hstep.1 s r s1 ⟨hq, hc⟩ hst
          obtain ⟨stop, nh⟩ := r
          simp only at heq
          split at heq
          · cases heq; exact h1
          · exact (ih (acc ++ nh)).1 s1 a s' h1 heq
      · obtain ⟨i, hd, hi, hh, hp⟩ := hq.2.2
        have hg : getHead? (f, h) s = .ok (some hd) s := by rw [getHead?_eval]; simp [hi, hh]
        rw [bind_eval_ok (slideStep_noop fuel f h s cfg0 hd (cfgOfInst_of_cfgInv hc) hg (by omega))] at heq
        simp only [if_true] at heq
        cases heq
        exact ⟨hc, Or.inr hq⟩
    · intro s e s' ⟨hc, hq⟩ heq
      unfold slideLoop at heq
      rcases hq with hq | hq
      · cases hst : slideStep fuel f h s with
        | error e1 s1 =>
          rw [bind_eval_err hst] at heq; cases heq
          exact hstep.2 s e s' ⟨hq, hc⟩ hst
        | ok r s1 =>
          rw [bind_eval_ok hst] at heq
          have h1 := hstep.1 s r s1 ⟨hq, hc⟩ hst
          obtain ⟨stop, nh⟩ := r
          simp only at heq
          split at heq
          · cases heq
          · exact (ih (acc ++ nh)).2 s1 e s' h1 heq
      · obtain ⟨i, hd, hi, hh, hp⟩ := hq.2.2
        have hg : getHead? (f, h) s = .ok (some hd) s := by rw [getHead?_eval]; simp [hi, hh]
        rw [bind_eval_ok (slideStep_noop fuel f h s cfg0 hd (cfgOfInst_of_cfgInv hc) hg (by omega))] at heq
        simp only [if_true] at heq
        cases heq


/-- **`slide` and STOPPING**: started in a state where only the instances `A` are STOPPING, `slide` for head `h` of flow `f`
    ends (normally) in a state where still only `A` is STOPPING, or `f` itself has been set STOPPING by an `Abort` element and
    the sliding head stands behind the last element (where `_advance_head_front` finds it and calls `_abort_flow`);
    when it raises, at most `f` has been added to the STOPPING instances. -/
theorem slide_stop (A : List FUid) (fuel : Nat) (f : FUid) (h : HUid) (cfg0 : FlowCfg) :
    ⦃fun s => ⌜(cfgInv f cfg0).J s ∧ StopSub A s.ixs.ix.insts⌝⦄ slide fuel f h
    ⦃post⟨fun _ s => ⌜(cfgInv f cfg0).J s ∧ QS A f h cfg0.elements.size s⌝, fun _ s => ⌜StopSub (f :: A) s.ixs.ix.insts⌝⟩⦄ := by
  have hl := fn_of_triple (slideLoop_stop A f h cfg0 fuel [])
  apply triple_of_fn
  · intro s a s' ⟨hc, hs⟩ heq; exact hl.1 s a s' ⟨hc, Or.inl hs⟩ heq
  · intro s e s' ⟨hc, hs⟩ heq; exact hl.2 s e s' ⟨hc, Or.inl hs⟩ heq

end NemoVerif.CoreVM
