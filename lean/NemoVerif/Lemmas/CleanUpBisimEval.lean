/-
  C11 / T3 — simulation UP TO THE MODEL GIVING UP (`Sim2U`, `Diag`) and the state-touching leaves of the expression evaluator.

  `CleanupBisim` speaks about continuations on which both runs stay inside the model.  The model leaves the fragment where
  Python would follow a reference to a discarded instance (the object is kept alive by the reference; the model has no heap):
  `OutU` therefore relates two outcomes when values / Python exceptions agree in `Aged` states, OR one side stopped with a
  model error (`unsupported`, `outOfFuel`, `guardFailed`).  `attemptPy` (the interpreter's `try … except Exception`) catches
  Python exceptions only, so the relation composes through it.
-/
import NemoVerif.Lemmas.CleanUpBisimWrites
open NemoVerif NemoVerif.CoreIndex NemoVerif.CoreVM NemoVerif.C11.Bisim

namespace NemoVerif.C11.Bisim

/-! ### simulation up to the model giving up -/

/-- the model (not Python) stopped: out of fuel, a construct outside the fragment, an index guard -/
def gaveUp : VMErr → Prop
  | .py _ _ => False
  | _ => True

/-- outcome of two runs side by side, tolerant to the model giving up on either side: both values related, or the same
    Python exception, in related states — or one of the runs left the model (then the bisimulation statement, which speaks
    about continuations on which both runs stay inside the model, says nothing) -/
def OutU (rm : List FUid) {α α'} (ρ : α → α' → Prop) : EStateM.Result VMErr VM α → EStateM.Result VMErr VM α' → Prop
  | .ok a s1, .ok a' s1' => ρ a a' ∧ Aged rm s1 s1'
  | .error e s1, .error e' s1' => gaveUp e ∨ gaveUp e' ∨ (e = e' ∧ Aged rm s1 s1')
  | .error e _, .ok _ _ => gaveUp e
  | .ok _ _, .error e' _ => gaveUp e'

def Sim2U {α α'} (rm : List FUid) (ρ : α → α' → Prop) (x : M α) (x' : M α') (s s' : VM) : Prop := OutU rm ρ (x s) (x' s')

theorem Sim2.toU {α α'} {rm} {ρ : α → α' → Prop} {x : M α} {x' : M α'} {s s'} (h : Sim2 rm ρ x x' s s') : Sim2U rm ρ x x' s s' := by
  unfold Sim2 at h
  unfold Sim2U
  cases h1 : x s <;> cases h2 : x' s' <;> rw [h1, h2] at h <;> simp only at h
  · exact h
  · exact .inr (.inr h)

theorem bind_run {α β} (x : M α) (f : α → M β) (s : VM) :
    (x >>= f) s = match x s with | .ok a s1 => f a s1 | .error e s1 => .error e s1 := by
  show EStateM.bind x f s = _
  unfold EStateM.bind; cases x s <;> rfl

theorem OutU.of_gaveUp_left {rm α α'} {ρ : α → α' → Prop} {e : VMErr} {s1 : VM} (h : gaveUp e) (r : EStateM.Result VMErr VM α') :
    OutU rm ρ (.error e s1 : EStateM.Result VMErr VM α) r := by
  cases r with
  | ok a s => exact h
  | error e' s => exact .inl h

theorem OutU.of_gaveUp_right {rm α α'} {ρ : α → α' → Prop} {e : VMErr} {s1 : VM} (h : gaveUp e) (r : EStateM.Result VMErr VM α) :
    OutU rm ρ r (.error e s1 : EStateM.Result VMErr VM α') := by
  cases r with
  | ok a s => exact h
  | error e0 s => exact .inr (.inl h)

theorem Sim2U.bind {α α' β β'} {rm} {ρ : α → α' → Prop} {σ : β → β' → Prop} {x : M α} {x' : M α'} {f : α → M β} {f' : α' → M β'}
    {s s' : VM} (h : Sim2U rm ρ x x' s s')
    (hf : ∀ a a' s1 s1', x s = .ok a s1 → x' s' = .ok a' s1' → ρ a a' → Aged rm s1 s1' → Sim2U rm σ (f a) (f' a') s1 s1') :
    Sim2U rm σ (x >>= f) (x' >>= f') s s' := by
  unfold Sim2U at h ⊢
  rw [bind_run, bind_run]
  cases h1 : x s with
  | ok a s1 =>
    cases h2 : x' s' with
    | ok a' s1' =>
      rw [h1, h2] at h
      exact hf a a' s1 s1' h1 h2 h.1 h.2
    | error e' s1' =>
      rw [h1, h2] at h
      exact OutU.of_gaveUp_right h _
  | error e s1 =>
    cases h2 : x' s' with
    | ok a' s1' =>
      rw [h1, h2] at h
      exact OutU.of_gaveUp_left h _
    | error e' s1' =>
      rw [h1, h2] at h
      exact h

theorem Sim2U.pure {α α'} {rm} {ρ : α → α' → Prop} {a : α} {a' : α'} {s s'} (h : ρ a a') (ha : Aged rm s s') :
    Sim2U rm ρ (Pure.pure a : M α) (Pure.pure a' : M α') s s' := ⟨h, ha⟩

theorem Sim2U.throw {α α'} {rm} {ρ : α → α' → Prop} (e : VMErr) {s s'} (ha : Aged rm s s') :
    Sim2U rm ρ (throw e : M α) (throw e : M α') s s' := .inr (.inr ⟨rfl, ha⟩)

/-- the aged run leaves the model (whatever the live one does) -/
theorem Sim2U.gaveUp_right {α α'} {rm} {ρ : α → α' → Prop} (x : M α) (w : String) (s s' : VM) :
    Sim2U rm ρ x (unsupported w : M α') s s' := OutU.of_gaveUp_right (by trivial) _

theorem Sim2U.gaveUp_left {α α'} {rm} {ρ : α → α' → Prop} (x' : M α') (w : String) (s s' : VM) :
    Sim2U rm ρ (unsupported w : M α) x' s s' := OutU.of_gaveUp_left (by trivial) _

theorem attemptPy_run {α} (x : M α) (s : VM) :
    CoreVM.attemptPy x s = match x s with
      | .ok a s1 => .ok (.ok a) s1
      | .error (.py c m) s1 => .ok (.error (c, m)) s1
      | .error o s1 => .error o s1 := by
  unfold CoreVM.attemptPy
  simp only [tryCatch, tryCatchThe, MonadExceptOf.tryCatch, EStateM.tryCatch, bind_run]
  cases h : x s with
  | ok a s1 => rfl
  | error e s1 => cases e <;> rfl

/-- `try … except Exception` of the interpreter (`attemptPy` catches Python exceptions only, never the model's own stops) -/
theorem Sim2U.attemptPy {α α'} {rm} {ρ : α → α' → Prop} {x : M α} {x' : M α'} {s s'} (h : Sim2U rm ρ x x' s s') :
    Sim2U rm (fun r r' => match r, r' with
        | .ok a, .ok a' => ρ a a' | .error e, .error e' => e = e' | _, _ => False) (CoreVM.attemptPy x) (CoreVM.attemptPy x') s s' := by
  unfold Sim2U at *
  rw [attemptPy_run, attemptPy_run]
  cases h1 : x s with
  | ok a s1 =>
    cases h2 : x' s' with
    | ok a' s1' => rw [h1, h2] at h; exact h
    | error e' s1' =>
      rw [h1, h2] at h
      cases e' <;> simp only [OutU, gaveUp] at h ⊢ <;> first | exact h.elim | trivial
  | error e s1 =>
    cases h2 : x' s' with
    | ok a' s1' =>
      rw [h1, h2] at h
      cases e <;> simp only [OutU, gaveUp] at h ⊢ <;> first | exact h.elim | trivial
    | error e' s1' =>
      rw [h1, h2] at h
      cases e <;> cases e' <;> simp [OutU, gaveUp] at h ⊢ <;> first | exact h | trivial


/-! ### the state-touching leaves of the expression evaluator -/

theorem XRel.ctxOwner {rm c c' x x'} (h : XRel rm c c' x x') : x'.ctxOwner = x.ctxOwner := by
  have := congrArg InstX.ctxOwner h.eq
  simpa [agedX] using this
theorem XRel.context {rm c c' x x'} (h : XRel rm c c' x x') : x'.context = x.context := by
  have := congrArg InstX.context h.eq
  simpa [agedX] using this
theorem XRel.arguments {rm c c' x x'} (h : XRel rm c c' x x') : x'.arguments = x.arguments := by
  have := congrArg InstX.arguments h.eq
  simpa [agedX] using this

/-- `getInstX? f` for ANY uid: related records for a kept one, nothing on the aged side for a discarded one -/
theorem sim_getInstX? {rm s s'} (h : Aged rm s s') (f : FUid) :
    Sim2U rm (fun o o' => if keepB rm f = true then ORel (XRel rm s.r.clock s'.r.clock) o o' else o' = none)
      (getInstX? f) (getInstX? f) s s' := by
  refine ⟨?_, h⟩
  by_cases hk : keepB rm f = true
  · simp only [hk, if_true]; exact h.fxKept f hk
  · simp only [hk]; exact h.fxGone f (by simpa using hk)

theorem getInstX?_run (f : FUid) (s : VM) : getInstX? f s = .ok (OMap.lookup f s.r.fx) s := rfl

/-- `ctxHolder f` (whose dict is `flow_state.context`) for a kept instance: the same holder, which is kept too —
    or the aged run leaves the model (the holder was discarded; Python keeps the dict alive through the reference) -/
theorem sim_ctxHolder {rm s s'} (h : Aged rm s s') {f : FUid} (hk : keepB rm f = true) :
    Sim2U rm (fun o o' => o = o' ∧ keepB rm o = true) (ctxHolder f) (ctxHolder f) s s' := by
  unfold CoreVM.ctxHolder
  refine Sim2U.bind (Sim2.toU (Sim2.of_rel (ro_getInstX f) (ro_getInstX f) h (h.rel_getInstX hk))) ?_
  intro x x' s1 s1' e1 e1' hx h1
  have hs1 : s1 = s := by
    have := (ro_getInstX f).run s; rw [e1] at this
    cases hr : res (getInstX f) s <;> rw [hr] at this <;> cases this; rfl
  have hs1' : s1' = s' := by
    have := (ro_getInstX f).run s'; rw [e1'] at this
    cases hr : res (getInstX f) s' <;> rw [hr] at this <;> cases this; rfl
  subst hs1; subst hs1'
  rw [hx.ctxOwner]
  cases x.ctxOwner with
  | none => exact Sim2U.pure ⟨rfl, hk⟩ h
  | some o =>
    simp only
    refine Sim2U.bind (sim_getInstX? h o) ?_
    intro oo oo' s2 s2' e2 e2' ho h2
    by_cases hko : keepB rm o = true
    · simp only [hko, if_true] at ho
      cases oo <;> cases oo' <;> simp only [ORel] at ho
      · exact Sim2U.gaveUp_right _ _ _ _
      · exact Sim2U.pure ⟨rfl, hko⟩ h2
    · simp only [hko] at ho
      subst ho
      exact Sim2U.gaveUp_right _ _ _ _


theorem RO.state_eq {α} {x : M α} (hx : RO x) {s s1 : VM} {a : α} (h : x s = .ok a s1) : s1 = s := by
  have := hx.run s; rw [h] at this
  cases hr : res x s <;> rw [hr] at this <;> cases this; rfl

/-- `flow_state.context` of a kept instance: the same dict -/
theorem sim_getCtx {rm s s'} (h : Aged rm s s') {f : FUid} (hk : keepB rm f = true) :
    Sim2U rm Eq (getCtx f) (getCtx f) s s' := by
  unfold CoreVM.getCtx
  refine Sim2U.bind (sim_ctxHolder h hk) ?_
  intro o o' s1 s1' _ _ ho h1
  obtain ⟨rfl, hko⟩ := ho
  refine Sim2U.bind (Sim2.toU (Sim2.of_rel (ro_getInstX o) (ro_getInstX o) h1 (h1.rel_getInstX hko))) ?_
  intro x x' s2 s2' _ _ hx h2
  exact Sim2U.pure hx.context.symm h2

/-- `flow_state.context.update({k: v})` on a kept instance -/
theorem sim_setCtxVar {rm s s'} (h : Aged rm s s') {f : FUid} (hk : keepB rm f = true) (k : String) (v : Val) :
    Sim2U rm (fun _ _ => True) (setCtxVar f k v) (setCtxVar f k v) s s' := by
  unfold CoreVM.setCtxVar
  refine Sim2U.bind (sim_ctxHolder h hk) ?_
  intro o o' s1 s1' _ _ ho h1
  obtain ⟨rfl, hko⟩ := ho
  refine ⟨trivial, h1.modInstX hko _ _ ?_ (fun _ => rfl)⟩
  intro x x' hx
  refine ⟨?_, hx.stamp⟩
  have := congrArg (fun y : InstX => { y with context := OMap.insert k v y.context }) hx.eq
  simpa [agedX] using this

/-- `$name` -/
theorem sim_lookupVar {rm s s'} (h : Aged rm s s') (c : EvalCtx) (n : String) :
    Sim2U rm Eq (lookupVar c n) (lookupVar c n) s s' := by
  have hjp : Sim2U rm Eq
      (if (c.useGlobals && (lookupArg (toString "_global_" ++ toString n) c.ctx).isSome) = true then do
          let __do_lift ← getRest
          Pure.pure ((lookupArg n __do_lift.gctx).getD Val.none)
        else Pure.pure ((lookupArg n c.ctx).getD Val.none) : M Val)
      (if (c.useGlobals && (lookupArg (toString "_global_" ++ toString n) c.ctx).isSome) = true then do
          let __do_lift ← getRest
          Pure.pure ((lookupArg n __do_lift.gctx).getD Val.none)
        else Pure.pure ((lookupArg n c.ctx).getD Val.none) : M Val) s s' := by
    split
    · exact ⟨by simp [h.gctx], h⟩
    · exact Sim2U.pure rfl h
  unfold CoreVM.lookupVar
  split
  · exact Sim2U.pure rfl h
  · dsimp only
    split
    · exact Sim2U.bind (ρ := fun _ _ => True) (Sim2U.throw _ h) (fun _ _ _ _ e _ _ _ => by cases e)
    · exact hjp


/-- the SAME computation run in the live and in the aged state gives the same value / exception (or the model gives up) -/
def Diag (rm : List FUid) {α} (x : M α) : Prop := ∀ s s', Aged rm s s' → Sim2U rm Eq x x s s'

theorem Diag.pure {rm α} (a : α) : Diag rm (Pure.pure a : M α) := fun _ _ h => Sim2U.pure rfl h
theorem Diag.throw {rm α} (e : VMErr) : Diag rm (throw e : M α) := fun _ _ h => Sim2U.throw e h
theorem Diag.bind {rm α β} {x : M α} {f : α → M β} (hx : Diag rm x) (hf : ∀ a, Diag rm (f a)) : Diag rm (x >>= f) :=
  fun s s' h => Sim2U.bind (hx s s' h) fun a a' s1 s1' _ _ e h1 => by subst e; exact hf a s1 s1' h1
theorem Diag.getRestEvents {rm} {α} (f : List (String × EvObj) → M α) (hf : ∀ ev, Diag rm (f ev)) :
    Diag rm (getRest >>= fun r => f r.events) := by
  intro s s' h
  refine Sim2U.bind (ρ := fun r r' => r = s.r ∧ r' = s'.r) ⟨⟨rfl, rfl⟩, h⟩ ?_
  intro r r' s1 s1' e1 e1' hr h1
  obtain ⟨rfl, rfl⟩ := hr
  rw [h.events]
  exact hf _ s1 s1' h1

theorem diag_ctxHolder {rm} {f : FUid} (hk : keepB rm f = true) : Diag rm (ctxHolder f) :=
  fun s s' h => by
    have := sim_ctxHolder h hk
    unfold Sim2U at this ⊢
    cases h1 : ctxHolder f s <;> cases h2 : ctxHolder f s' <;> rw [h1, h2] at this <;> simp only [OutU] at this ⊢
    · exact ⟨this.1.1, this.2⟩
    all_goals exact this

theorem diag_getCtx {rm} {f : FUid} (hk : keepB rm f = true) : Diag rm (getCtx f) := fun _ _ h => sim_getCtx h hk

/-- `state.actions.get(uid)`: what the aged table has, the live one has too -/
theorem sim_getAction? {rm s s'} (h : Aged rm s s') (u : String) :
    Sim2U rm (fun o o' => o' = none ∨ o' = o) (getAction? u) (getAction? u) s s' := by
  refine ⟨?_, h⟩
  cases h2 : OMap.lookup u s'.r.actions with
  | none => exact .inl rfl
  | some a => exact .inr (h.actionsSub u a h2).symm

/-- attribute access as `simpleeval` does it, on any value: flow / action / event references are looked up in the state -/
theorem diag_attrOf {rm} (v : Val) (a : String) (l : Bool) : Diag rm (attrOf v a l) := by
  unfold CoreVM.attrOf
  dsimp only
  have key : Diag rm (match v with
    | Val.dict kvs =>
      match lookupArg a kvs with
      | some x => Pure.pure x
      | none =>
        if l = true then Pure.pure Val.none
        else valueErr (toString "attribute " ++ toString a ++ toString " does not exist")
    | Val.ref "flow" uid => do
      let __do_lift ← getInstX? uid
      match __do_lift with
        | none => unsupported "attribute of a flow instance that was cleaned up"
        | some x =>
          match a with
          | "uid" => Pure.pure (Val.str uid)
          | "flow_id" => Pure.pure (Val.str x.flowId)
          | "loop_id" =>
            Pure.pure
              (match x.loopId with
              | some l => Val.str l
              | none => Val.none)
          | "hierarchy_position" => Pure.pure (Val.str x.hierPos)
          | "arguments" => Pure.pure (Val.dict x.arguments)
          | "activated" => Pure.pure (Val.int x.activated)
          | "parent_uid" =>
            Pure.pure
              (match x.parentUid with
              | some l => Val.str l
              | none => Val.none)
          | "context" => do
            let __do_lift ← ctxHolder uid
            Pure.pure (Val.ref "ctx" __do_lift)
          | "status" => unsupported (toString "FlowState." ++ toString a)
          | "heads" => unsupported (toString "FlowState." ++ toString a)
          | "scopes" => unsupported (toString "FlowState." ++ toString a)
          | "priority" => unsupported (toString "FlowState." ++ toString a)
          | "child_flow_uids" => unsupported (toString "FlowState." ++ toString a)
          | "action_uids" => unsupported (toString "FlowState." ++ toString a)
          | "head_fork_uids" => unsupported (toString "FlowState." ++ toString a)
          | "parent_head_uid" => unsupported (toString "FlowState." ++ toString a)
          | "status_updated" => unsupported (toString "FlowState." ++ toString a)
          | "new_instance_started" => unsupported (toString "FlowState." ++ toString a)
          | "active_heads" => unsupported (toString "FlowState." ++ toString a)
          | x => do
            let __do_lift ← getCtx uid
            match lookupArg a __do_lift with
              | some v => Pure.pure v
              | none => valueErr (toString "no attribute " ++ toString a)
    | Val.ref "action" uid => do
      let __do_lift ← getAction? uid
      match __do_lift with
        | none => unsupported "attribute of an action that was removed"
        | some act =>
          match a with
          | "uid" => Pure.pure (Val.str uid)
          | "name" => Pure.pure (Val.str act.name)
          | "status" => unsupported (toString "Action." ++ toString a)
          | "context" => unsupported (toString "Action." ++ toString a)
          | "start_event_arguments" => unsupported (toString "Action." ++ toString a)
          | "flow_scope_count" => unsupported (toString "Action." ++ toString a)
          | "flow_uid" => unsupported (toString "Action." ++ toString a)
          | x =>
            match lookupArg a act.context with
            | some v => Pure.pure v
            | none => valueErr (toString "no attribute " ++ toString a)
    | Val.ref "event" id => do
      let __do_lift ← getRest
      match OMap.lookup id __do_lift.events with
        | none => unsupported "dangling event object"
        | some eo =>
          match a with
          | "name" => Pure.pure (Val.str eo.ev.name)
          | "arguments" => Pure.pure (Val.dict eo.ev.args)
          | "flow" =>
            if eo.ev.kind = Match.EvKind.internal then
              Pure.pure
                (match eo.ev.flowUid with
                | some u => Val.ref "flow" u
                | none => Val.none)
            else
              match lookupArg a eo.ev.args with
              | some v => Pure.pure v
              | none => valueErr "no attribute flow"
          | "action_uid" =>
            if eo.ev.kind = Match.EvKind.action then
              Pure.pure
                (match eo.ev.actionUid with
                | some u => Val.str u
                | none => Val.none)
            else
              match lookupArg a eo.ev.args with
              | some v => Pure.pure v
              | none => valueErr "no attribute action_uid"
          | "action" => unsupported (toString "Event." ++ toString a)
          | "matching_scores" => unsupported (toString "Event." ++ toString a)
          | x =>
            match lookupArg a eo.ev.args with
            | some v => Pure.pure v
            | none => valueErr (toString "no attribute " ++ toString a)
    | Val.str a_1 => valueErr (toString "no attribute " ++ toString a)
    | Val.int a_1 => valueErr (toString "no attribute " ++ toString a)
    | Val.bool a_1 => valueErr (toString "no attribute " ++ toString a)
    | Val.none => valueErr (toString "no attribute " ++ toString a)
    | Val.flt a_1 a_2 => valueErr (toString "no attribute " ++ toString a)
    | Val.list a_1 => valueErr (toString "no attribute " ++ toString a)
    | Val.set a_1 => valueErr (toString "no attribute " ++ toString a)
    | x => unsupported (toString "attribute " ++ toString a ++ toString " of an opaque value") : M Val) := by
    split
    · split
      · exact Diag.pure _
      · split
        · exact Diag.pure _
        · exact Diag.throw _
    · rename_i uid
      intro s s' h
      refine Sim2U.bind (sim_getInstX? h uid) ?_
      intro o o' s1 s1' e1 e1' ho h1
      by_cases hk : keepB rm uid = true
      · simp only [hk, if_true] at ho
        cases o <;> cases o' <;> simp only [ORel] at ho
        · exact Sim2U.throw _ h1
        · rename_i x x'
          simp only [ho.flowId, ho.loopId, ho.hierPos, ho.arguments, ho.activated, ho.parentUid]
          refine (?_ : Diag rm _) s1 s1' h1
          split
          all_goals first
            | exact Diag.pure _
            | exact Diag.throw _
            | exact Diag.bind (diag_ctxHolder hk) fun _ => Diag.pure _
            | exact Diag.bind (diag_getCtx hk) fun c => by split <;> first | exact Diag.pure _ | exact Diag.throw _
      · simp only [hk] at ho
        subst ho
        exact Sim2U.gaveUp_right _ _ _ _
    · rename_i uid
      intro s s' h
      refine Sim2U.bind (sim_getAction? h uid) ?_
      intro o o' s1 s1' e1 e1' ho h1
      rcases ho with rfl | rfl
      · exact Sim2U.gaveUp_right _ _ _ _
      · refine (?_ : Diag rm _) s1 s1' h1
        split
        · exact Diag.throw _
        · split
          all_goals first
            | exact Diag.pure _
            | exact Diag.throw _
            | (split <;> first | exact Diag.pure _ | exact Diag.throw _)
    · rename_i id
      intro s s' h
      refine Sim2U.bind (ρ := fun r r' => r = s.r ∧ r' = s'.r) ⟨⟨rfl, rfl⟩, h⟩ ?_
      intro r r' s1 s1' e1 e1' hr h1
      obtain ⟨rfl, rfl⟩ := hr
      rw [h.events]
      refine (?_ : Diag rm _) s1 s1' h1
      split
      · exact Diag.throw _
      · split
        all_goals first
          | exact Diag.pure _
          | exact Diag.throw _
          | (split <;> first | exact Diag.pure _ | exact Diag.throw _)
          | (split <;> first | exact Diag.pure _ | (split <;> first | exact Diag.pure _ | exact Diag.throw _))
    all_goals first | exact Diag.throw _ | exact Diag.pure _
  split
  · exact Diag.bind (Diag.throw _) fun _ => key
  · exact key


/-! ### the expression evaluator -/

theorem Diag.forIn {rm α β} (body : α → β → M (ForInStep β)) (hb : ∀ a b, Diag rm (body a b)) :
    ∀ (l : List α) (init : β), Diag rm (forIn l init body)
  | [], init => by simpa using Diag.pure init
  | a :: l, init => by
    rw [List.forIn_cons]
    refine Diag.bind (hb a init) fun r => ?_
    cases r with
    | done b => exact Diag.pure b
    | yield b => exact Diag.forIn body hb l b

theorem Diag.mapM {rm α β} (f : α → M β) (hf : ∀ a, Diag rm (f a)) : ∀ l : List α, Diag rm (l.mapM f)
  | [] => by simpa using Diag.pure ([] : List β)
  | a :: l => by
    rw [List.mapM_cons]
    exact Diag.bind (hf a) fun b => Diag.bind (Diag.mapM f hf l) fun bs => Diag.pure _

theorem sim_freshUid {rm s s'} (h : Aged rm s s') : Sim2U rm Eq freshUid freshUid s s' := by
  refine ⟨?_, { h with nextUid := by simp [h.nextUid] }⟩
  simp [h.nextUid]

theorem diag_freshUid {rm} : Diag rm freshUid := fun _ _ h => sim_freshUid h

theorem tryCatch_run {α} (x : M α) (hd : VMErr → M α) (s : VM) :
    (tryCatch x hd) s = match x s with | .ok a s1 => .ok a s1 | .error e s1 => hd e s1 := by
  simp only [tryCatch, tryCatchThe, MonadExceptOf.tryCatch, EStateM.tryCatch]
  cases x s <;> rfl

/-- the evaluator's `try: … except Exception as e: raise ColangValueError(…)`: a Python exception is re-raised as another
    Python exception (a function of its message), the model's own stops propagate -/
theorem diag_tryCatchPy {rm α} {x : M α} (hx : Diag rm x) (hd : VMErr → M α)
    (hpy : ∀ c m, ∃ c' m', ∀ s, hd (.py c m) s = .error (.py c' m') s)
    (hother : ∀ e, gaveUp e → ∀ s, hd e s = .error e s) :
    Diag rm (tryCatch x hd) := by
  intro s s' h
  have := hx s s' h
  unfold Sim2U at this ⊢
  rw [tryCatch_run, tryCatch_run]
  cases h1 : x s with
  | ok a s1 =>
    cases h2 : x s' with
    | ok a' s1' => rw [h1, h2] at this; exact this
    | error e' s1' =>
      rw [h1, h2] at this
      simp only [OutU] at this ⊢
      rw [hother e' this]
      exact this
  | error e s1 =>
    cases h2 : x s' with
    | ok a' s1' =>
      rw [h1, h2] at this
      simp only [OutU] at this ⊢
      rw [hother e this]
      exact this
    | error e' s1' =>
      rw [h1, h2] at this
      simp only [OutU] at this ⊢
      rcases this with hg | hg | ⟨rfl, ha⟩
      · rw [hother e hg]; exact OutU.of_gaveUp_left hg _
      · rw [hother e' hg]; exact OutU.of_gaveUp_right hg _
      · cases e with
        | py c m =>
          obtain ⟨c', m', hh⟩ := hpy c m
          rw [hh, hh]
          exact .inr (.inr ⟨rfl, ha⟩)
        | outOfFuel => simp only [hother .outOfFuel trivial]; exact .inl trivial
        | unsupported w => simp only [hother (.unsupported w) trivial]; exact .inl trivial
        | guardFailed w => simp only [hother (.guardFailed w) trivial]; exact .inl trivial


theorem diag_lookupVar {rm} (c : EvalCtx) (n : String) : Diag rm (lookupVar c n) := fun _ _ h => sim_lookupVar h c n

/-- **`eval_expression`**: evaluating any expression of the mini language in the aged state gives the value / raises the
    Python exception it gives in the live state, and leaves related states — or the model gives up -/
theorem diag_eval {rm} (c : EvalCtx) : ∀ fuel : Nat, (∀ e, Diag rm (evalExpr c fuel e)) ∧ (∀ e, Diag rm (evalBase c fuel e))
  | 0 => ⟨fun e => by unfold evalExpr; exact Diag.throw _, fun e => by unfold evalBase; exact Diag.throw _⟩
  | fuel + 1 => by
    have ih := diag_eval (rm := rm) c fuel
    constructor
    · intro e
      unfold evalExpr
      split
      all_goals repeat' (first
        | exact Diag.pure _
        | exact Diag.throw _
        | exact ih.1 _
        | exact ih.2 _
        | exact diag_freshUid
        | exact diag_attrOf _ _ _
        | exact diag_lookupVar _ _
        | refine Diag.bind ?_ (fun _ => ?_)
        | refine Diag.forIn _ (fun _ _ => ?_) _ _
        | refine Diag.mapM _ (fun _ => ?_) _
        | exact diag_tryCatchPy (ih.1 _) _ (fun c m => ⟨_, _, fun s => rfl⟩)
            (fun e he s => by cases e <;> first | exact he.elim | rfl)
        | split
        | dsimp only)
    · intro e
      unfold evalBase
      dsimp only
      split
      all_goals repeat' (first
        | exact Diag.pure _
        | exact Diag.throw _
        | exact ih.1 _
        | exact ih.2 _
        | exact diag_attrOf _ _ _
        | exact diag_lookupVar _ _
        | refine Diag.bind ?_ (fun _ => ?_)
        | split)

end NemoVerif.C11.Bisim
