/-
  Lemmas about `Models/Embed.lean`: dict facts, the cache wrapper, the batching invariants.
  Property theorems are in Theorems/C19.lean.
-/
import NemoVerif.Models.Embed
set_option linter.unusedSectionVars false
set_option linter.unusedSimpArgs false
namespace NemoVerif.Embed

/-! ### Dict -/
namespace Dict
variable {κ ν : Type} [DecidableEq κ]

theorem get?_set (d : Dict κ ν) (k k' : κ) (v : ν) :
    (d.set k v).get? k' = if k = k' then some v else d.get? k' := by
  induction d with
  | nil => simp [set, get?]
  | cons p r ih =>
    obtain ⟨k0, v0⟩ := p
    simp only [set]
    by_cases h : k0 = k
    · subst h
      by_cases h' : k0 = k' <;> simp [get?, h']
    · by_cases h' : k0 = k'
      · subst h'
        have : ¬ k = k0 := fun e => h e.symm
        simp [get?, h, this]
      · simp [get?, h, h', ih]

theorem mem_set {d : Dict κ ν} {k : κ} {v : ν} {p : κ × ν} (h : p ∈ d.set k v) : p ∈ d ∨ p = (k, v) := by
  induction d with
  | nil => simp [set] at h; exact Or.inr h
  | cons q r ih =>
    obtain ⟨k0, v0⟩ := q
    simp only [set] at h
    by_cases hk : k0 = k
    · subst hk
      simp at h
      rcases h with h | h
      · exact Or.inr h
      · exact Or.inl (List.mem_cons_of_mem _ h)
    · simp [hk] at h
      rcases h with h | h
      · exact Or.inl (by simp [h])
      · rcases ih h with h' | h'
        · exact Or.inl (List.mem_cons_of_mem _ h')
        · exact Or.inr h'

theorem mem_of_get? {d : Dict κ ν} {k : κ} {v : ν} (h : d.get? k = some v) : (k, v) ∈ d := by
  induction d with
  | nil => simp [get?] at h
  | cons q r ih =>
    obtain ⟨k0, v0⟩ := q
    simp only [get?] at h
    by_cases hk : k0 = k
    · simp [hk] at h; subst hk; subst h; simp
    · simp [hk] at h; exact List.mem_cons_of_mem _ (ih h)

theorem get?_isSome_of_mem {d : Dict κ ν} {k : κ} {v : ν} (h : (k, v) ∈ d) : (d.get? k).isSome = true := by
  induction d with
  | nil => simp at h
  | cons q r ih =>
    obtain ⟨k0, v0⟩ := q
    simp only [get?]
    by_cases hk : k0 = k
    · simp [hk]
    · simp only [hk, if_false]
      apply ih
      simp at h
      rcases h with ⟨h1, _⟩ | h
      · exact absurd h1.symm hk
      · exact h

theorem mem_erase {d : Dict κ ν} {k : κ} {p : κ × ν} (h : p ∈ d.erase k) : p ∈ d := by
  simp only [erase, List.mem_filter] at h
  exact h.1

theorem set_length_le (d : Dict κ ν) (k : κ) (v : ν) : d.length ≤ (d.set k v).length := by
  induction d with
  | nil => simp [set]
  | cons q r ih =>
    obtain ⟨k0, v0⟩ := q
    simp only [set]
    by_cases hk : k0 = k <;> simp [hk]
    exact ih

/-- closure of a predicate on look-ups under `update` -/
theorem update_closed {Q : κ → ν → Prop} (o : Dict κ ν) :
    ∀ (d : Dict κ ν), (∀ p ∈ o, Q p.1 p.2) → (∀ k v, d.get? k = some v → Q k v) →
      ∀ k v, (d.update o).get? k = some v → Q k v := by
  induction o with
  | nil => intro d _ hd k v h; exact hd k v h
  | cons q r ih =>
    intro d ho hd k v h
    simp only [update, List.foldl_cons] at h
    refine ih (d.set q.1 q.2) (fun p hp => ho p (List.mem_cons_of_mem _ hp)) ?_ k v h
    intro k' v' h'
    rw [get?_set] at h'
    by_cases e : q.1 = k'
    · simp [e] at h'
      subst h'; subst e
      exact ho q (by simp)
    · simp [e] at h'
      exact hd k' v' h'

theorem update_isSome_left (o : Dict κ ν) :
    ∀ (d : Dict κ ν) (k : κ), (d.get? k).isSome = true → ((d.update o).get? k).isSome = true := by
  induction o with
  | nil => intro d k h; exact h
  | cons q r ih =>
    intro d k h
    simp only [update, List.foldl_cons]
    apply ih
    rw [get?_set]
    by_cases e : q.1 = k <;> simp [e, h]

theorem update_isSome_right (o : Dict κ ν) :
    ∀ (d : Dict κ ν) (k : κ), (o.get? k).isSome = true → ((d.update o).get? k).isSome = true := by
  induction o with
  | nil => intro d k h; simp [get?] at h
  | cons q r ih =>
    intro d k h
    obtain ⟨k0, v0⟩ := q
    simp only [update, List.foldl_cons]
    by_cases e : k0 = k
    · have := update_isSome_left r (d.set k0 v0) k (by rw [get?_set]; simp [e])
      exact this
    · simp only [get?, e, if_false] at h
      exact ih (d.set k0 v0) k h

theorem zip_keys_vals (d : Dict κ ν) : d.keys.zip d.vals = d := by
  induction d with
  | nil => rfl
  | cons q r ih => simp only [keys, vals, List.map_cons, List.zip_cons_cons] at *; rw [ih]

end Dict

/-! ### cache wrapper -/
section Cache
variable {α κ β : Type} [DecidableEq α] [DecidableEq κ]

/-- the key generator does not confuse two texts of the universe `U` -/
def InjOn (g : α → κ) (U : α → Prop) : Prop := ∀ a b, U a → U b → g a = g b → a = b

/-- every entry of the store under the key of a text of `U` is that text's embedding -/
def StoreOK (U : α → Prop) (g : α → κ) (f : α → β) (store : Dict κ β) : Prop :=
  ∀ t, U t → ∀ v, store.get? (g t) = some v → v = f t

/-- what the first section of the wrapper establishes about its locals -/
structure PendingOK (U : α → Prop) (f : α → β) (p : Pending α β) : Prop where
  cachedOK : ∀ t v, p.cached.get? t = some v → v = f t
  covered : ∀ t ∈ p.texts, p.cached.get? t = none → t ∈ p.uncached
  unc : ∀ t ∈ p.uncached, U t
  txt : ∀ t ∈ p.texts, U t

theorem storeOK_nil (U : α → Prop) (g : α → κ) (f : α → β) : StoreOK U g f ([] : Dict κ β) := by
  intro t _ v h; simp [Dict.get?] at h

theorem cacheGetList_fold (g : α → κ) (store : Dict κ β) (texts : List α) :
    ∀ (c : Dict α β) (t : α),
      (texts.foldl (cacheHit g store) c).get? t
      = if t ∈ texts ∧ (cacheGet g store t).isSome then cacheGet g store t else c.get? t := by
  induction texts with
  | nil => intro c t; simp
  | cons a r ih =>
    intro c t
    simp only [List.foldl_cons]
    rw [ih]
    by_cases hr : t ∈ r ∧ (cacheGet g store t).isSome = true
    · have h2 : t ∈ a :: r ∧ (cacheGet g store t).isSome = true := ⟨List.mem_cons_of_mem _ hr.1, hr.2⟩
      rw [if_pos hr, if_pos h2]
    · rw [if_neg hr]
      by_cases e : a = t
      · subst e
        cases hc : cacheGet g store a with
        | none => simp [cacheHit, hc]
        | some v => simp [cacheHit, hc, Dict.get?_set]
      · have h2 : ¬ (t ∈ a :: r ∧ (cacheGet g store t).isSome = true) := by
          rintro ⟨h1, h3⟩
          rcases List.mem_cons.1 h1 with e' | e'
          · exact e e'.symm
          · exact hr ⟨e', h3⟩
        rw [if_neg h2]
        cases hc : cacheGet g store a with
        | none => simp [cacheHit, hc]
        | some v => simp [cacheHit, hc, Dict.get?_set, e]

theorem cacheGetList_get? (g : α → κ) (store : Dict κ β) (texts : List α) (t : α) :
    (cacheGetList g store texts).get? t = if t ∈ texts then cacheGet g store t else none := by
  unfold cacheGetList
  rw [cacheGetList_fold]
  by_cases h : t ∈ texts
  · cases hc : cacheGet g store t <;> simp [h, hc, Dict.get?]
  · simp [h, Dict.get?]

theorem cacheSetList_cons (g : α → κ) (store : Dict κ β) (t : α) (ts : List α) (v : β) (vs : List β) :
    cacheSetList g store (t :: ts) (v :: vs) = cacheSetList g (store.set (g t) v) ts vs := by
  simp [cacheSetList]

theorem cacheSetList_get? (U : α → Prop) (g : α → κ) (f : α → β) (hinj : InjOn g U) (texts : List α) :
    ∀ (store : Dict κ β), (∀ t ∈ texts, U t) → ∀ t0, U t0 →
      (cacheSetList g store texts (texts.map f)).get? (g t0)
        = if t0 ∈ texts then some (f t0) else store.get? (g t0) := by
  induction texts with
  | nil => intro store _ t0 _; simp [cacheSetList]
  | cons a r ih =>
    intro store hU t0 h0
    rw [List.map_cons, cacheSetList_cons, ih _ (fun t ht => hU t (List.mem_cons_of_mem _ ht)) t0 h0]
    by_cases hr : t0 ∈ r
    · simp [hr]
    · simp only [hr, if_false]
      rw [Dict.get?_set]
      by_cases e : g a = g t0
      · have : a = t0 := hinj a t0 (hU a (by simp)) h0 e
        subst this
        simp
      · have : ¬ t0 = a := fun e' => e (by rw [e'])
        simp [e, this, hr]

theorem callBegin_spec (U : α → Prop) (g : α → κ) (f : α → β) (store : Dict κ β) (texts : List α)
    (hs : StoreOK U g f store) (hU : ∀ t ∈ texts, U t) :
    PendingOK U f (callBegin g store texts) ∧ (callBegin g store texts).texts = texts := by
  refine ⟨⟨?_, ?_, ?_, hU⟩, rfl⟩
  · intro t v h
    simp only [callBegin] at h
    rw [cacheGetList_get?] at h
    by_cases ht : t ∈ texts
    · simp only [ht, if_true, cacheGet] at h
      exact hs t (hU t ht) v h
    · simp [ht] at h
  · intro t ht h
    simp only [callBegin] at h ht ⊢
    simp [List.mem_filter, ht, h]
  · intro t ht
    simp only [callBegin, List.mem_filter] at ht
    exact hU t ht.1

theorem callEnd_spec (U : α → Prop) (g : α → κ) (f : α → β) (hinj : InjOn g U) (store : Dict κ β)
    (p : Pending α β) (hs : StoreOK U g f store) (hp : PendingOK U f p) :
    (callEnd g store p (p.uncached.map f)).2 = p.texts.map (fun t => some (f t)) ∧
    StoreOK U g f (callEnd g store p (p.uncached.map f)).1 := by
  -- the store after the (possibly skipped) write-back
  have hst : ∀ t0, U t0 →
      ((if p.uncached.isEmpty then store else cacheSetList g store p.uncached (p.uncached.map f)).get? (g t0)
        = if t0 ∈ p.uncached then some (f t0) else store.get? (g t0)) := by
    intro t0 h0
    by_cases he : p.uncached.isEmpty
    · have : p.uncached = [] := List.isEmpty_iff.1 he
      simp [this]
    · simp only [he]
      exact cacheSetList_get? U g f hinj p.uncached store hp.unc t0 h0
  have hso : StoreOK U g f (if p.uncached.isEmpty then store else cacheSetList g store p.uncached (p.uncached.map f)) := by
    intro t ht v hv
    rw [hst t ht] at hv
    by_cases hm : t ∈ p.uncached
    · simp [hm] at hv; exact hv.symm
    · simp only [hm, if_false] at hv; exact hs t ht v hv
  refine ⟨?_, hso⟩
  simp only [callEnd]
  apply List.map_congr_left
  intro t ht
  generalize hS : (if p.uncached.isEmpty then store else cacheSetList g store p.uncached (p.uncached.map f)) = store' at hst hso
  -- every value that comes out of the merged dict is right
  have hQ : ∀ k v, (p.cached.update (cacheGetList g store' p.uncached)).get? k = some v → v = f k := by
    apply Dict.update_closed (Q := fun k v => v = f k)
    · intro q hq
      have hsome := Dict.get?_isSome_of_mem (d := cacheGetList g store' p.uncached) (k := q.1) (v := q.2) hq
      -- an entry of the hit dict was fetched from the store for a text of `uncached`
      have hk : q.1 ∈ p.uncached := by
        rw [cacheGetList_get?] at hsome
        by_cases hm : q.1 ∈ p.uncached
        · exact hm
        · simp [hm] at hsome
      -- its value: all entries under one key carry the value of the first one (keys are unique by construction)
      have hval : ∀ (texts : List α) (c : Dict α β), (∀ e ∈ c, store'.get? (g e.1) = some e.2) →
          ∀ e ∈ texts.foldl (cacheHit g store') c, store'.get? (g e.1) = some e.2 := by
        intro texts
        induction texts with
        | nil => intro c hc e he; exact hc e he
        | cons a r ih =>
          intro c hc e he
          simp only [List.foldl_cons] at he
          refine ih _ ?_ e he
          intro e' he'
          cases hca : cacheGet g store' a with
          | none => simp only [cacheHit, hca] at he'; exact hc e' he'
          | some v =>
            simp only [cacheHit, hca] at he'
            rcases Dict.mem_set he' with h1 | h1
            · exact hc e' h1
            · subst h1; exact hca
      have := hval p.uncached [] (by intro e he; simp at he) q hq
      exact hso q.1 (hp.unc _ hk) q.2 this
    · exact hp.cachedOK
  have hsome : ((p.cached.update (cacheGetList g store' p.uncached)).get? t).isSome = true := by
    cases hc : p.cached.get? t with
    | some v => exact Dict.update_isSome_left _ _ _ (by simp [hc])
    | none =>
      have hu := hp.covered t ht hc
      apply Dict.update_isSome_right
      rw [cacheGetList_get?]
      simp only [hu, if_true, cacheGet]
      rw [hst t (hp.unc t hu)]
      simp [hu]
  cases hv : (p.cached.update (cacheGetList g store' p.uncached)).get? t with
  | none => rw [hv] at hsome; simp at hsome
  | some v => rw [hQ t v hv]

theorem beginCall_spec (cfg : CacheCfg) (U : α → Prop) (g : α → κ) (f : α → β) (store : Dict κ β) (texts : List α)
    (hs : StoreOK U g f store) (hU : ∀ t ∈ texts, U t) :
    PendingOK U f (beginCall cfg g store texts) ∧ (beginCall cfg g store texts).texts = texts := by
  unfold beginCall
  by_cases he : cfg.enabled
  · simp only [he, if_true]
    apply callBegin_spec U g f _ texts _ hU
    unfold view
    by_cases hp : cfg.persistent
    · simp [hp]; exact hs
    · simp [hp]; exact storeOK_nil U g f
  · simp only [he]
    refine ⟨⟨?_, ?_, hU, hU⟩, rfl⟩
    · intro t v h; simp [Dict.get?] at h
    · intro t ht _; exact ht

/-- the disabled-cache branch returns the model's answer for `uncached`; the first section
    put `uncached = texts` there, which is what this predicate remembers -/
def PendingShape (cfg : CacheCfg) (p : Pending α β) : Prop := cfg.enabled = false → p.uncached = p.texts

theorem beginCall_shape (cfg : CacheCfg) (g : α → κ) (store : Dict κ β) (texts : List α) :
    PendingShape cfg (beginCall cfg g store texts) := by
  intro h; simp [beginCall, h]

theorem endCall_spec (cfg : CacheCfg) (U : α → Prop) (g : α → κ) (f : α → β) (hinj : InjOn g U) (store : Dict κ β)
    (p : Pending α β) (hs : StoreOK U g f store) (hp : PendingOK U f p) (hsh : PendingShape cfg p) :
    (endCall cfg g store p (p.uncached.map f)).2 = p.texts.map (fun t => some (f t)) ∧
    StoreOK U g f (endCall cfg g store p (p.uncached.map f)).1 := by
  unfold endCall
  by_cases he : cfg.enabled
  · simp only [he, if_true]
    by_cases hpers : cfg.persistent
    · simp only [view, hpers, if_true]
      exact callEnd_spec U g f hinj store p hs hp
    · simp only [view, hpers]
      exact ⟨(callEnd_spec U g f hinj [] p (storeOK_nil U g f) hp).1, hs⟩
  · simp only [he]
    refine ⟨?_, hs⟩
    have := hsh (by simpa using he)
    simp [this, List.map_map, Function.comp_def]

end Cache

/-! ### batching: the safety invariant -/
section Batch
variable {α κ β : Type} [DecidableEq α] [DecidableEq κ]

theorem getElem?_append_some {l : List α} {k : Nat} {t : α} (m : List α) (h : l[k]? = some t) :
    (l ++ m)[k]? = some t := by
  have hk : k < l.length := by
    rcases Nat.lt_or_ge k l.length with h' | h'
    · exact h'
    · rw [List.getElem?_eq_none h'] at h; cases h
  rw [List.getElem?_append_left hk]; exact h

theorem mem_of_getElem?_some {l : List α} {k : Nat} {t : α} (h : l[k]? = some t) : t ∈ l :=
  List.mem_of_getElem? h

theorem mem_writeResults (ids : List Nat) (embs : List (Option β)) :
    ∀ (res : Dict Nat (Option β)) q, q ∈ writeResults res ids embs → q ∈ res ∨ q ∈ ids.zip embs := by
  unfold writeResults
  generalize ids.zip embs = z
  induction z with
  | nil => intro res q h; exact Or.inl h
  | cons a r ih =>
    intro res q h
    simp only [List.foldl_cons] at h
    rcases ih _ q h with h1 | h1
    · rcases Dict.mem_set h1 with h2 | h2
      · exact Or.inl h2
      · exact Or.inr (by rw [h2]; simp)
    · exact Or.inr (List.mem_cons_of_mem _ h1)

variable (cfg : CacheCfg) (U : α → Prop) (g : α → κ) (f : α → β)

/-- what a request task knows: its id is its own (`log[id]` is the ghost record of the text that was
    enqueued under `id`), and a returned vector is the model's vector of its own text -/
def ReqOK (log : List α) (r : Req α β) : Prop :=
  match r.pc with
  | .waitFin _ id => log[id]? = some r.text
  | .done v => v = some (f r.text)
  | _ => True

def BatchOK (log : List α) : BPc α β → Prop
  | .running _ ids p => PendingOK U f p ∧ PendingShape cfg p ∧ (∀ q ∈ ids.zip p.texts, log[q.1]? = some q.2)
  | _ => True

def DirectOK (d : Direct α β) : Prop :=
  (∀ t ∈ d.texts, U t) ∧
  match d.pc with
  | .ready => True
  | .running p => PendingOK U f p ∧ PendingShape cfg p ∧ p.texts = d.texts
  | .done res => res = d.texts.map (fun t => some (f t))

/-- the safety invariant of the batching system (holds in every reachable state, `inv_reachable`) -/
structure Inv (s : State α κ β) : Prop where
  idx : s.idx = s.log.length
  logU : ∀ t ∈ s.log, U t
  reqU : ∀ r ∈ s.reqs, U r.text
  queue : ∀ q ∈ s.queue, s.log[q.1]? = some q.2
  results : ∀ q ∈ s.results, ∃ t, s.log[q.1]? = some t ∧ q.2 = some (f t)
  reqs : ∀ r ∈ s.reqs, ReqOK f s.log r
  batches : ∀ b ∈ s.batches, BatchOK cfg U f s.log b
  directs : ∀ d ∈ s.directs, DirectOK cfg U f d
  store : StoreOK U g f s.store

variable {cfg U g f}

theorem ReqOK.mono {log : List α} {r : Req α β} (m : List α) (h : ReqOK f log r) : ReqOK f (log ++ m) r := by
  unfold ReqOK at *
  split <;> simp_all
  · rename_i ev id hpc
    exact getElem?_append_some m h

theorem BatchOK.mono {log : List α} {b : BPc α β} (m : List α) (h : BatchOK cfg U f log b) :
    BatchOK cfg U f (log ++ m) b := by
  cases b <;> simp_all [BatchOK]
  intro a b hq
  exact getElem?_append_some m (h.2.2 a b hq)

theorem wake_text (r : Req α β) : (wake r).text = r.text := by
  unfold wake; split <;> rfl

theorem wake_ok {log : List α} {r : Req α β} (h : ReqOK f log r) : ReqOK f log (wake r) := by
  unfold wake
  split
  · simp [ReqOK]
  · exact h

theorem inv_setReq {s : State α κ β} (hI : Inv cfg U g f s) (i : Nat) (r : Req α β) (pc : RPc β)
    (hr : r ∈ s.reqs) (hok : ReqOK f s.log { r with pc := pc }) : Inv cfg U g f (setReq s i r pc) := by
  refine { hI with reqU := ?_, reqs := ?_ }
  · intro r' hr'
    simp only [setReq] at hr'
    rcases List.mem_or_eq_of_mem_set hr' with h | h
    · exact hI.reqU r' h
    · subst h; exact hI.reqU r hr
  · intro r' hr'
    simp only [setReq] at hr' ⊢
    rcases List.mem_or_eq_of_mem_set hr' with h | h
    · exact hI.reqs r' h
    · subst h; exact hok

theorem inv_collectAt {s : State α κ β} (hI : Inv cfg U g f s) (i : Nat) (r : Req α β) (id : Nat)
    (hr : r ∈ s.reqs) (hid : s.log[id]? = some r.text) : Inv cfg U g f (collectAt s i r id) := by
  unfold collectAt
  cases hg : s.results.get? id with
  | none => exact inv_setReq hI i r .crashed hr (by simp [ReqOK])
  | some v =>
    simp only []
    have hmem := Dict.mem_of_get? hg
    obtain ⟨t, ht, hv⟩ := hI.results _ hmem
    simp only at ht hv
    rw [hid] at ht
    have hI' : Inv cfg U g f { s with results := s.results.erase id } :=
      { hI with results := fun q hq => hI.results q (Dict.mem_erase hq) }
    refine inv_setReq hI' i r (.done v) hr ?_
    simp only [ReqOK]
    cases ht
    exact hv

theorem inv_awaitFin {s : State α κ β} (hI : Inv cfg U g f s) (i : Nat) (r : Req α β) (ev id : Nat)
    (hr : r ∈ s.reqs) (hid : s.log[id]? = some r.text) : Inv cfg U g f (awaitFin s i r ev id) := by
  unfold awaitFin
  split
  · exact inv_collectAt hI i r id hr hid
  · exact inv_setReq hI i r _ hr (by simpa [ReqOK] using hid)

theorem inv_enq1 {s : State α κ β} (t : α) (hI : Inv cfg U g f s) (ht : U t) :
    Inv cfg U g f (enq1 s t) ∧ (enq1 s t).log[s.idx]? = some t := by
  have hlog : (s.log ++ [t])[s.idx]? = some t := by
    rw [hI.idx]; simp
  refine ⟨⟨?_, ?_, hI.reqU, ?_, ?_, ?_, ?_, hI.directs, hI.store⟩, hlog⟩
  · simp [enq1, hI.idx]
  · intro t' ht'
    simp only [enq1, List.mem_append, List.mem_singleton] at ht'
    rcases ht' with h | h
    · exact hI.logU t' h
    · subst h; exact ht
  · intro q hq
    rcases Dict.mem_set hq with h | h
    · exact getElem?_append_some _ (hI.queue q h)
    · subst h; exact hlog
  · intro q hq
    obtain ⟨t', h1, h2⟩ := hI.results q hq
    exact ⟨t', getElem?_append_some _ h1, h2⟩
  · intro r hr; exact (hI.reqs r hr).mono _
  · intro b hb; exact (hI.batches b hb).mono _

theorem inv_enq2 {s : State α κ β} (hI : Inv cfg U g f s) : Inv cfg U g f (enq2 s) := by
  unfold enq2
  split
  · refine { hI with batches := ?_ }
    intro b hb
    simp only [List.mem_append, List.mem_singleton] at hb
    rcases hb with h | h
    · exact hI.batches b h
    · subst h; simp [BatchOK]
  · exact hI

theorem inv_enq3 {s : State α κ β} (max : Nat) (hI : Inv cfg U g f s) : Inv cfg U g f (enq3 max s).1 := by
  unfold enq3
  split
  · split
    · exact { hI with }
    · exact hI
  · exact hI

theorem enq2_log (s : State α κ β) : (enq2 s).log = s.log ∧ (enq2 s).reqs = s.reqs := by
  unfold enq2; split <;> simp

theorem enq3_log (max : Nat) (s : State α κ β) : (enq3 max s).1.log = s.log ∧ (enq3 max s).1.reqs = s.reqs := by
  unfold enq3; split
  · split <;> simp
  · simp

theorem inv_enqueue {s : State α κ β} (max : Nat) (t : α) (hI : Inv cfg U g f s) (ht : U t) :
    Inv cfg U g f (enqueue max s t).1 ∧ (enqueue max s t).1.log[s.idx]? = some t ∧
      (enqueue max s t).1.reqs = s.reqs := by
  obtain ⟨h1, hl⟩ := inv_enq1 t hI ht
  refine ⟨inv_enq3 max (inv_enq2 h1), ?_, ?_⟩
  · unfold enqueue; rw [(enq3_log _ _).1, (enq2_log _).1]; exact hl
  · unfold enqueue; rw [(enq3_log _ _).2, (enq2_log _).2]; rfl

theorem inv_setBatch {s : State α κ β} (hI : Inv cfg U g f s) (b : Nat) (bp : BPc α β)
    (hok : BatchOK cfg U f s.log bp) : Inv cfg U g f { s with batches := s.batches.set b bp } := by
  refine { hI with batches := ?_ }
  intro b' hb'
  rcases List.mem_or_eq_of_mem_set hb' with h | h
  · exact hI.batches b' h
  · subst h; exact hok

theorem inv_step {max : Nat} (hinj : InjOn g U) {s s' : State α κ β} (l : Label) (hI : Inv cfg U g f s)
    (hs : step cfg max g f s l = some s') : Inv cfg U g f s' := by
  cases l with
  | enter i =>
    simp only [step, stepEnter] at hs
    cases hr : s.reqs[i]? with
    | none => simp [hr] at hs
    | some r =>
      have hmem : r ∈ s.reqs := List.mem_of_getElem? hr
      simp only [hr] at hs
      cases hpc : r.pc <;> simp only [hpc] at hs <;> try (cases hs)
      split at hs
      · cases hs
        exact inv_setReq hI i r _ hmem (by split <;> simp [ReqOK])
      · obtain ⟨hE, hlog, hreqs⟩ := inv_enqueue (cfg := cfg) (g := g) (f := f) max r.text hI (hI.reqU r hmem)
        have hmem' : r ∈ (enqueue max s r.text).1.reqs := by rw [hreqs]; exact hmem
        split at hs
        · rename_i s2 ev heq
          cases hs
          have : s2 = (enqueue max s r.text).1 := by rw [heq]
          subst this
          exact inv_awaitFin hE i r ev s.idx hmem' hlog
        · rename_i s2 heq
          cases hs
          have : s2 = (enqueue max s r.text).1 := by rw [heq]
          subst this
          exact inv_setReq hE i r _ hmem' (by simp [ReqOK])
  | collect i =>
    simp only [step, stepCollect] at hs
    cases hr : s.reqs[i]? with
    | none => simp [hr] at hs
    | some r =>
      have hmem : r ∈ s.reqs := List.mem_of_getElem? hr
      simp only [hr] at hs
      cases hpc : r.pc <;> simp only [hpc] at hs <;> try (cases hs)
      rename_i ev id
      split at hs
      · cases hs
        have := hI.reqs r hmem
        simp only [ReqOK, hpc] at this
        exact inv_collectAt hI i r id hmem this
      · cases hs
  | bstart b =>
    simp only [step, stepBstart] at hs
    split at hs
    · split at hs <;> cases hs <;> exact inv_setBatch hI b _ (by simp [BatchOK])
    · cases hs
  | take b timeout =>
    simp only [step, stepTake] at hs
    split at hs
    · split at hs
      · cases hs
        have hvals : ∀ t ∈ s.queue.vals, U t := by
          intro t ht
          simp only [Dict.vals, List.mem_map] at ht
          obtain ⟨q, hq, rfl⟩ := ht
          exact hI.logU _ (mem_of_getElem?_some (hI.queue q hq))
        obtain ⟨hp, htx⟩ := beginCall_spec cfg U g f s.store s.queue.vals hI.store hvals
        have hb : BatchOK cfg U f s.log (.running s.finEv s.queue.keys (beginCall cfg g s.store s.queue.vals)) := by
          refine ⟨hp, beginCall_shape cfg g s.store _, ?_⟩
          rw [htx, Dict.zip_keys_vals]
          exact hI.queue
        have hI2 := inv_setBatch hI b _ hb
        refine { hI2 with queue := ?_, reqU := ?_, reqs := ?_ }
        · intro r hr
          obtain ⟨r0, hr0, rfl⟩ := List.mem_map.1 hr
          rw [wake_text]; exact hI.reqU r0 hr0
        · intro q hq; simp at hq
        · intro r hr
          obtain ⟨r0, hr0, rfl⟩ := List.mem_map.1 hr
          exact wake_ok (hI.reqs r0 hr0)
      · cases hs
    · cases hs
  | finish b =>
    simp only [step, stepFinish] at hs
    split at hs
    · rename_i ev ids p hb
      have hbm : BPc.running ev ids p ∈ s.batches := List.mem_of_getElem? hb
      obtain ⟨hp, hsh, hz⟩ := hI.batches _ hbm
      obtain ⟨hres, hst⟩ := endCall_spec cfg U g f hinj s.store p hI.store hp hsh
      have hI1 : Inv cfg U g f { s with store := (endCall cfg g s.store p (p.uncached.map f)).1, results := writeResults s.results ids (endCall cfg g s.store p (p.uncached.map f)).2 } := by
        refine { hI with store := hst, results := ?_ }
        intro q hq
        rcases mem_writeResults _ _ _ q hq with h | h
        · exact hI.results q h
        · rw [hres, List.zip_map_right] at h
          simp only [List.mem_map] at h
          obtain ⟨q0, hq0, rfl⟩ := h
          exact ⟨q0.2, hz q0 hq0, rfl⟩
      split at hs <;> cases hs
      · exact { inv_setBatch hI1 b .done (by simp [BatchOK]) with }
      · exact inv_setBatch hI1 b .crashed (by simp [BatchOK])
    · cases hs
  | dbegin d =>
    simp only [step, stepDbegin] at hs
    cases hd : s.directs[d]? with
    | none => simp [hd] at hs
    | some dt =>
      have hmem : dt ∈ s.directs := List.mem_of_getElem? hd
      simp only [hd] at hs
      cases hpc : dt.pc <;> simp only [hpc] at hs <;> try (cases hs)
      obtain ⟨hU, _⟩ := hI.directs dt hmem
      obtain ⟨hp, htx⟩ := beginCall_spec cfg U g f s.store dt.texts hI.store hU
      refine { hI with directs := ?_ }
      intro d' hd'
      rcases List.mem_or_eq_of_mem_set hd' with h | h
      · exact hI.directs d' h
      · subst h
        exact ⟨hU, hp, beginCall_shape cfg g s.store _, htx⟩
  | dend d =>
    simp only [step, stepDend] at hs
    cases hd : s.directs[d]? with
    | none => simp [hd] at hs
    | some dt =>
      have hmem : dt ∈ s.directs := List.mem_of_getElem? hd
      simp only [hd] at hs
      cases hpc : dt.pc <;> simp only [hpc] at hs <;> try (cases hs)
      rename_i p
      obtain ⟨hU, hd2⟩ := hI.directs dt hmem
      simp only [hpc] at hd2
      obtain ⟨hp, hsh, htx⟩ := hd2
      obtain ⟨hres, hst⟩ := endCall_spec cfg U g f hinj s.store p hI.store hp hsh
      refine { hI with directs := ?_, store := hst }
      intro d' hd'
      rcases List.mem_or_eq_of_mem_set hd' with h | h
      · exact hI.directs d' h
      · subst h
        refine ⟨hU, ?_⟩
        simp only []
        rw [hres, htx]

theorem inv_init (reqTexts : List α) (directTexts : List (List α)) (store0 : Dict κ β)
    (hr : ∀ t ∈ reqTexts, U t) (hd : ∀ ts ∈ directTexts, ∀ t ∈ ts, U t) (hs : StoreOK U g f store0) :
    Inv cfg U g f (init reqTexts directTexts store0) := by
  refine ⟨rfl, ?_, ?_, ?_, ?_, ?_, ?_, ?_, hs⟩ <;> simp only [init]
  · intro t ht; simp at ht
  · intro r hr'
    simp only [List.mem_map] at hr'
    obtain ⟨t, ht, rfl⟩ := hr'
    exact hr t ht
  · intro q hq; simp at hq
  · intro q hq; simp at hq
  · intro r hr'
    simp only [List.mem_map] at hr'
    obtain ⟨t, ht, rfl⟩ := hr'
    simp [ReqOK]
  · intro b hb; simp at hb
  · intro d hd'
    simp only [List.mem_map] at hd'
    obtain ⟨ts, hts, rfl⟩ := hd'
    exact ⟨hd ts hts, trivial⟩

theorem inv_reachable {max : Nat} (hinj : InjOn g U) {reqTexts : List α} {directTexts : List (List α)}
    {store0 : Dict κ β} (hr : ∀ t ∈ reqTexts, U t) (hd : ∀ ts ∈ directTexts, ∀ t ∈ ts, U t)
    (hs : StoreOK U g f store0) {s : State α κ β}
    (h : Reachable cfg max g f reqTexts directTexts store0 s) : Inv cfg U g f s := by
  induction h with
  | init => exact inv_init reqTexts directTexts store0 hr hd hs
  | step l _ hstep ih => exact inv_step hinj l ih hstep

end Batch

end NemoVerif.Embed
