/-
  C11 / T3 — towards `cleanup_bisim` on the whole-interpreter model `CoreVM` (owned by C09, imported read-only).

  Part 1 (this file): the relation `Aged rm s s'` ("`s'` is `s` with the instances `rm` discarded by `_clean_up_state`,
  possibly later on the clock") and a small relational logic for the READ side of the interpreter:

    * `obs` / `RO`        computations that only look at the state (closed under `pure`, `throw`, `bind`, `forIn`);
    * `Rel2 ρ x x' s s'`  running `x` in `s` and `x'` in `s'` gives results related by `ρ`, or the same error;
                          `Rel2.bind`, `Rel2.forIn` compose such facts through `do` blocks and `for` loops.

  Part 2 (`Lemmas/CleanUpBisimFns.lean`): the look-ups and the CoreVM functions that only look up live things.
-/
import NemoVerif.Models.CoreVM
import NemoVerif.Lemmas.CoreVM

namespace NemoVerif.C11.Bisim
open NemoVerif NemoVerif.CoreIndex NemoVerif.CoreVM

/-! ### observations -/

/-- a computation that only looks at the state -/
def obs {α} (g : VM → Except VMErr α) : M α := fun s =>
  match g s with
  | .ok a => .ok a s
  | .error e => .error e s

/-- `x` never changes the state: it is an observation -/
def RO {α} (x : M α) : Prop := ∃ g, x = obs g

theorem obs_bind {α β} (g : VM → Except VMErr α) (h : α → VM → Except VMErr β) :
    (obs g >>= fun a => obs (h a)) = obs (fun s => match g s with | .ok a => h a s | .error e => .error e) := by
  funext s
  show EStateM.bind _ _ s = _
  unfold EStateM.bind obs
  cases hg : g s <;> simp [hg]

theorem RO.pure {α} (a : α) : RO (pure a : M α) := ⟨fun _ => .ok a, rfl⟩
theorem RO.throw {α} (e : VMErr) : RO (throw e : M α) := ⟨fun _ => .error e, rfl⟩
theorem RO.pyRaise {α} (c m : String) : RO (pyRaise c m : M α) := RO.throw _
theorem RO.unsupported {α} (w : String) : RO (unsupported w : M α) := RO.throw _
theorem RO.getRest : RO getRest := ⟨fun s => .ok s.r, rfl⟩
theorem RO.getIx : RO getIx := ⟨fun s => .ok s.ixs.ix, rfl⟩

theorem RO.bind {α β} {x : M α} {f : α → M β} (hx : RO x) (hf : ∀ a, RO (f a)) : RO (x >>= f) := by
  obtain ⟨g, rfl⟩ := hx
  have : ∃ h : α → VM → Except VMErr β, ∀ a, f a = obs (h a) := ⟨fun a => (hf a).choose, fun a => (hf a).choose_spec⟩
  obtain ⟨h, hh⟩ := this
  have : f = fun a => obs (h a) := funext hh
  subst this
  exact ⟨_, obs_bind g h⟩

theorem RO.forIn {α β} (body : α → β → M (ForInStep β)) (hb : ∀ a b, RO (body a b)) :
    ∀ (l : List α) (init : β), RO (forIn l init body)
  | [], init => by simpa using RO.pure init
  | a :: l, init => by
    rw [List.forIn_cons]
    refine RO.bind (hb a init) fun r => ?_
    cases r with
    | done b => exact RO.pure b
    | yield b => exact RO.forIn body hb l b

/-- the result of running `x` in `s`, the state forgotten -/
def res {α} (x : M α) (s : VM) : Except VMErr α :=
  match x s with
  | .ok a _ => .ok a
  | .error e _ => .error e

theorem RO.run {α} {x : M α} (hx : RO x) (s : VM) :
    x s = match res x s with | .ok a => .ok a s | .error e => .error e s := by
  obtain ⟨g, rfl⟩ := hx
  unfold res obs
  cases g s <;> rfl

/-! ### two runs side by side -/

/-- results related by `ρ`, or the same error -/
def RelE {α α'} (ρ : α → α' → Prop) : Except VMErr α → Except VMErr α' → Prop
  | .ok a, .ok a' => ρ a a'
  | .error e, .error e' => e = e'
  | _, _ => False

/-- running `x` in `s` and `x'` in `s'` cannot be told apart (up to `ρ` on the values) -/
def Rel2 {α α'} (ρ : α → α' → Prop) (x : M α) (x' : M α') (s s' : VM) : Prop := RelE ρ (res x s) (res x' s')

theorem res_bind {α β} {x : M α} (f : α → M β) (hx : RO x) (s : VM) :
    res (x >>= f) s = match res x s with | .ok a => res (f a) s | .error e => .error e := by
  have h := hx.run s
  show res (fun s => EStateM.bind x f s) s = _
  unfold res EStateM.bind at *
  cases hxs : x s with
  | ok a s1 =>
    rw [hxs] at h
    simp only at h
    injection h with _ hs
    subst hs
    simp [hxs]
  | error e s1 => simp [hxs]

theorem Rel2.bind {α α' β β'} {ρ : α → α' → Prop} {σ : β → β' → Prop} {x : M α} {x' : M α'} {f : α → M β} {f' : α' → M β'}
    {s s' : VM} (hx : RO x) (hx' : RO x') (h : Rel2 ρ x x' s s')
    (hf : ∀ a a', res x s = .ok a → res x' s' = .ok a' → ρ a a' → Rel2 σ (f a) (f' a') s s') :
    Rel2 σ (x >>= f) (x' >>= f') s s' := by
  unfold Rel2 at *
  rw [res_bind f hx, res_bind f' hx']
  cases h1 : res x s <;> cases h2 : res x' s' <;> rw [h1, h2] at h <;> simp only [RelE] at h ⊢
  · exact h
  · exact hf _ _ h1 h2 h

theorem Rel2.pure {α α'} {ρ : α → α' → Prop} {a : α} {a' : α'} (h : ρ a a') (s s' : VM) :
    Rel2 ρ (Pure.pure a : M α) (Pure.pure a' : M α') s s' := h

theorem Rel2.throw {α α'} {ρ : α → α' → Prop} (e : VMErr) (s s' : VM) :
    Rel2 ρ (throw e : M α) (throw e : M α') s s' := rfl

theorem Rel2.mono {α α'} {ρ σ : α → α' → Prop} {x : M α} {x' : M α'} {s s' : VM} (h : Rel2 ρ x x' s s')
    (hi : ∀ a a', ρ a a' → σ a a') : Rel2 σ x x' s s' := by
  unfold Rel2 at *
  cases h1 : res x s <;> cases h2 : res x' s' <;> rw [h1, h2] at h <;> simp only [RelE] at h ⊢
  · exact h
  · exact hi _ _ h

/-- a `for` loop over the same list whose bodies cannot be told apart -/
theorem Rel2.forIn {α β β'} {σ : β → β' → Prop} {s s' : VM}
    (body : α → β → M (ForInStep β)) (body' : α → β' → M (ForInStep β'))
    (hro : ∀ a b, RO (body a b)) (hro' : ∀ a b, RO (body' a b)) :
    ∀ (l : List α) (init : β) (init' : β'), σ init init' →
      (∀ a ∈ l, ∀ b b', σ b b' → Rel2 (fun r r' => match r, r' with
          | .done b, .done b' => σ b b' | .yield b, .yield b' => σ b b' | _, _ => False) (body a b) (body' a b') s s') →
      Rel2 σ (forIn l init body) (forIn l init' body') s s'
  | [], init, init', h0, _ => by simpa using Rel2.pure h0 s s'
  | a :: l, init, init', h0, hb => by
    rw [List.forIn_cons, List.forIn_cons]
    refine Rel2.bind (hro a init) (hro' a init') (hb a (List.mem_cons_self) init init' h0) ?_
    intro r r' _ _ hr
    cases r <;> cases r' <;> simp only at hr
    · exact Rel2.pure hr s s'
    · exact Rel2.forIn body body' hro hro' l _ _ hr fun a ha => hb a (List.mem_cons_of_mem _ ha)

end NemoVerif.C11.Bisim
