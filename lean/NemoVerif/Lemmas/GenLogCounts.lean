/-
  Lemmas about the action / LLM-call bookkeeping of `GenLog.compute` (C16): for EVERY processing log on which the
  fold returns, the LLM-call count of the result is the number of `llm` entries of the log and the executed actions
  are the non-ignored `actStart` entries, in order.

  Route: everything the two statistics depend on is the list of action lists `acts st` (one list per rail, `done`
  then `cur`).  `Inv` says that `executed_action` (the index pair `St.exec`) points at an existing action; it holds
  in `St.init`, is preserved by every `stepEv`, and makes `St.modifyExec` a `modifyNth` on `acts st`.
-/
import NemoVerif.Lemmas.GenLog

namespace NemoVerif.GenLog

/-! ### the log side -/

/-- an `llm_call_info` entry -/
def LogEv.isLlm : LogEv → Bool
  | .llm _ => true
  | _ => false

/-- the action a `StartInternalSystemAction` entry adds to the generation log (none for ignored actions) -/
def LogEv.startedAct (K : Consts) : LogEv → Option String
  | .actStart n => if K.ignoredActions.contains n then none else some n
  | _ => none

/-- names of the non-ignored `StartInternalSystemAction` entries of a log, in order -/
def startedActs (K : Consts) (L : List LogEv) : List String := L.filterMap (LogEv.startedAct K)

/-! ### `modifyNth` -/

theorem modifyNth_length {α : Type} (f : α → α) : ∀ (l : List α) (i : Nat), (modifyNth f l i).length = l.length
  | [], _ => rfl
  | _ :: _, 0 => rfl
  | x :: xs, n + 1 => by simp only [modifyNth, List.length_cons, modifyNth_length f xs n]

theorem modifyNth_map {α β : Type} (F : α → α) (G : β → β) (g : α → β) (h : ∀ x, g (F x) = G (g x)) :
    ∀ (l : List α) (i : Nat), (modifyNth F l i).map g = modifyNth G (l.map g) i
  | [], _ => rfl
  | x :: xs, 0 => by simp only [modifyNth, List.map_cons, h]
  | x :: xs, n + 1 => by simp only [modifyNth, List.map_cons, modifyNth_map F G g h xs n]

theorem modifyNth_map_inv {α β : Type} (F : α → α) (g : α → β) (h : ∀ x, g (F x) = g x) :
    ∀ (l : List α) (i : Nat), (modifyNth F l i).map g = l.map g
  | [], _ => rfl
  | x :: xs, 0 => by simp only [modifyNth, List.map_cons, h]
  | x :: xs, n + 1 => by simp only [modifyNth, List.map_cons, modifyNth_map_inv F g h xs n]

theorem modifyNth_append_left {α : Type} (F : α → α) : ∀ (a b : List α) (i : Nat), i < a.length →
    modifyNth F (a ++ b) i = modifyNth F a i ++ b
  | [], _, _, h => by simp at h
  | x :: xs, b, 0, _ => rfl
  | x :: xs, b, n + 1, h => by
    have h' : n < xs.length := by simpa using h
    simp only [List.cons_append, modifyNth, modifyNth_append_left F xs b n h']

theorem modifyNth_append_right {α : Type} (F : α → α) : ∀ (a b : List α) (k : Nat),
    modifyNth F (a ++ b) (a.length + k) = a ++ modifyNth F b k
  | [], b, k => by simp
  | x :: xs, b, k => by
    have : (x :: xs).length + k = (xs.length + k) + 1 := by simp only [List.length_cons]; omega
    rw [this]
    simp only [List.cons_append, modifyNth, modifyNth_append_right F xs b k]

theorem modifyNth_getElem? {α : Type} (F : α → α) : ∀ (l : List α) (i k : Nat),
    (modifyNth F l i)[k]? = if k = i then l[k]?.map F else l[k]?
  | [], _, _ => by simp [modifyNth]
  | x :: xs, 0, 0 => by simp [modifyNth]
  | x :: xs, 0, k + 1 => by simp [modifyNth]
  | x :: xs, n + 1, 0 => by simp [modifyNth]
  | x :: xs, n + 1, k + 1 => by
    simp only [modifyNth, List.getElem?_cons_succ, modifyNth_getElem? F xs n k, Nat.add_right_cancel_iff]

/-! ### the action lists of a state -/

/-- all rails of a state, `activated_rail` last (as in Python's `generation_log.activated_rails`) -/
def St.all (st : St) : List Rail := st.done ++ st.cur.toList

/-- one action list per rail -/
def St.acts (st : St) : List (List Act) := st.all.map (·.actions)

/-- mutate action `j` of an action list -/
def nest (f : Act → Act) (j : Nat) : List Act → List Act := fun l => modifyNth f l j

/-- `(i, j)` points at an existing action -/
def Valid (as : List (List Act)) (i j : Nat) : Prop := ∃ l, as[i]? = some l ∧ j < l.length

/-- `executed_action`, when set, is an action object inside one of the rails of the list -/
def Inv (st : St) : Prop := ∀ i j, st.exec = some (i, j) → Valid st.acts i j

theorem inv_init : Inv St.init := by intro i j h; cases h

theorem valid_append (as bs : List (List Act)) (i j : Nat) (h : Valid as i j) : Valid (as ++ bs) i j := by
  obtain ⟨l, hl, hj⟩ := h
  have hi : i < as.length := by
    rcases List.getElem?_eq_some_iff.mp hl with ⟨hi, _⟩; exact hi
  exact ⟨l, by rw [List.getElem?_append_left hi]; exact hl, hj⟩

theorem valid_modify (as : List (List Act)) (f : Act → Act) (i' j' i j : Nat) (h : Valid as i j) :
    Valid (modifyNth (nest f j') as i') i j := by
  obtain ⟨l, hl, hj⟩ := h
  rw [Valid, modifyNth_getElem?]
  split
  · exact ⟨nest f j' l, by simp [hl], by simp only [nest, modifyNth_length]; exact hj⟩
  · exact ⟨l, hl, hj⟩

theorem modifyAct_actions (f : Act → Act) (j : Nat) (r : Rail) : (Rail.modifyAct f j r).actions = nest f j r.actions := rfl

/-- with a valid reference, mutating `executed_action` is a `modifyNth` on the action lists -/
theorem acts_modifyExec (st : St) (i j : Nat) (f : Act → Act) (hv : Valid st.acts i j) :
    (st.modifyExec i j f).acts = modifyNth (nest f j) st.acts i := by
  obtain ⟨l, hl, _⟩ := hv
  have hlt : i < st.acts.length := by
    rcases List.getElem?_eq_some_iff.mp hl with ⟨hi, _⟩; exact hi
  unfold St.modifyExec
  split
  · rename_i hi
    simp only [St.acts, St.all, List.map_append]
    rw [modifyNth_map (Rail.modifyAct f j) (nest f j) (·.actions) (modifyAct_actions f j)]
    rw [modifyNth_append_left _ _ _ _ (by simpa using hi)]
  · rename_i hi
    cases hc : st.cur with
    | none =>
      simp only [St.acts, St.all, hc, Option.toList, List.append_nil, List.length_map] at hlt
      exact absurd hlt hi
    | some r =>
      simp only [St.acts, St.all, hc, Option.toList, List.length_map, List.length_append, List.length_cons, List.length_nil] at hlt
      have hi' : i = (st.done.map (·.actions)).length + 0 := by simp only [List.length_map]; omega
      simp only [St.acts, St.all, hc, Option.map, Option.toList, List.map_append, List.map_cons, List.map_nil]
      rw [hi', modifyNth_append_right]
      rfl

/-! ### the two statistics as functions of the action lists -/

/-- LLM calls recorded in a family of action lists -/
def cnt (as : List (List Act)) : Nat := (as.map fun l => (l.map fun a => a.llm.length).sum).sum

/-- action names in a family of action lists, rail by rail -/
def names (as : List (List Act)) : List String := as.flatMap fun l => l.map (·.name)

theorem llmCount_eq_cnt (rs : List Rail) : llmCount rs = cnt (rs.map (·.actions)) := by
  simp only [llmCount, cnt, List.map_map]; rfl

theorem cnt_append (a b : List (List Act)) : cnt (a ++ b) = cnt a + cnt b := by
  simp only [cnt, List.map_append, List.sum_append]

theorem names_append (a b : List (List Act)) : names (a ++ b) = names a ++ names b := by
  simp only [names, List.flatMap_append]

theorem cnt_nil_single : cnt [[]] = 0 := rfl
theorem names_nil_single : names [[]] = [] := rfl

theorem sum_modifyNth_succ {α : Type} (F : α → α) (m : α → Nat) : ∀ (l : List α) (i : Nat) (x : α), l[i]? = some x →
    m (F x) = m x + 1 → ((modifyNth F l i).map m).sum = (l.map m).sum + 1
  | [], _, _, h, _ => by simp at h
  | y :: ys, 0, x, h, hm => by
    simp only [List.getElem?_cons_zero, Option.some.injEq] at h
    subst h
    simp only [modifyNth, List.map_cons, List.sum_cons, hm]; omega
  | y :: ys, n + 1, x, h, hm => by
    simp only [List.getElem?_cons_succ] at h
    simp only [modifyNth, List.map_cons, List.sum_cons, sum_modifyNth_succ F m ys n x h hm]; omega

/-- recording one LLM call on an existing action adds exactly one -/
theorem cnt_modify_llm (as : List (List Act)) (i j : Nat) (t : String) (hv : Valid as i j) :
    cnt (modifyNth (nest (fun a => { a with llm := a.llm ++ [t] }) j) as i) = cnt as + 1 := by
  obtain ⟨l, hl, hj⟩ := hv
  unfold cnt
  apply sum_modifyNth_succ _ _ as i l hl
  obtain ⟨a, ha⟩ : ∃ a, l[j]? = some a := ⟨l[j], List.getElem?_eq_getElem hj⟩
  exact sum_modifyNth_succ _ (fun a : Act => a.llm.length) l j a ha (by simp)

theorem cnt_modify_inv (as : List (List Act)) (f : Act → Act) (hf : ∀ a, (f a).llm = a.llm) (i j : Nat) :
    cnt (modifyNth (nest f j) as i) = cnt as := by
  unfold cnt
  rw [modifyNth_map_inv]
  intro l
  simp only [nest]
  rw [modifyNth_map_inv f (fun a : Act => a.llm.length) (by intro a; simp only [hf])]

theorem names_modify (as : List (List Act)) (f : Act → Act) (hf : ∀ a, (f a).name = a.name) (i j : Nat) :
    names (modifyNth (nest f j) as i) = names as := by
  have : (modifyNth (nest f j) as i).map (fun l => l.map (·.name)) = as.map (fun l => l.map (·.name)) := by
    apply modifyNth_map_inv
    intro l
    simp only [nest]
    exact modifyNth_map_inv f (·.name) hf l j
  simp only [names, List.flatMap_def] at *
  rw [this]

/-! ### one event -/

/-- contribution of one entry to the LLM-call count -/
def LogEv.llmN (e : LogEv) : Nat := if e.isLlm then 1 else 0

theorem acts_step_some (done : List Rail) (r r' : Rail) (x : Option (Nat × Nat)) (h : r'.actions = r.actions) :
    (St.mk done (some r') x).acts = (St.mk done (some r) x).acts := by
  simp only [St.acts, St.all, Option.toList, List.map_append, List.map_cons, List.map_nil, h]

/-- Effect of one iteration of the loop on the invariant and on the two statistics. -/
theorem stepEv_stats (K : Consts) (st st' : St) (e : LogEv) (h : stepEv K st e = .ok st') (hi : Inv st) :
    Inv st' ∧ cnt st'.acts = cnt st.acts + e.llmN ∧ names st'.acts = names st.acts ++ (e.startedAct K).toList := by
  obtain ⟨done, cur, exec⟩ := st
  cases e with
  | step fid next =>
    have key : st'.exec = exec ∧ (st'.acts = (St.mk done cur exec).acts ∨ st'.acts = (St.mk done cur exec).acts ++ [[]]) := by
      simp only [stepEv] at h
      cases cur with
      | none =>
        simp only at h
        split at h
        · cases h; exact ⟨rfl, Or.inl rfl⟩
        · cases h; exact ⟨rfl, Or.inr (by simp [St.acts, St.all, newRail, Rail.addDecisions])⟩
      | some r =>
        simp only at h
        split at h
        · split at h
          · cases h; exact ⟨rfl, Or.inl rfl⟩
          · cases h; exact ⟨rfl, Or.inr (by simp [St.acts, St.all, newRail, Rail.addDecisions])⟩
        · cases h; exact ⟨rfl, Or.inl (acts_step_some _ _ _ _ rfl)⟩
    obtain ⟨hx, ha | ha⟩ := key
    · refine ⟨?_, by rw [ha]; rfl, by rw [ha]; simp [LogEv.startedAct]⟩
      intro i j hij; rw [ha]; exact hi i j (by rw [← hx]; exact hij)
    · refine ⟨?_, by rw [ha, cnt_append]; rfl, by rw [ha, names_append]; simp [LogEv.startedAct, names_nil_single]⟩
      intro i j hij; rw [ha]; exact valid_append _ _ _ _ (hi i j (by rw [← hx]; exact hij))
  | startIn fid =>
    simp only [stepEv] at h
    cases h
    have ha : (St.mk (done ++ cur.toList) (some (ioRail .input fid)) exec).acts = (St.mk done cur exec).acts ++ [[]] := by
      simp [St.acts, St.all, ioRail]
    refine ⟨?_, by rw [ha, cnt_append]; rfl, by rw [ha, names_append]; simp [LogEv.startedAct, names_nil_single]⟩
    intro i j hij; rw [ha]; exact valid_append _ _ _ _ (hi i j hij)
  | startOut fid =>
    simp only [stepEv] at h
    cases h
    have ha : (St.mk (done ++ cur.toList) (some (ioRail .output fid)) exec).acts = (St.mk done cur exec).acts ++ [[]] := by
      simp [St.acts, St.all, ioRail]
    refine ⟨?_, by rw [ha, cnt_append]; rfl, by rw [ha, names_append]; simp [LogEv.startedAct, names_nil_single]⟩
    intro i j hij; rw [ha]; exact valid_append _ _ _ _ (hi i j hij)
  | railFin =>
    simp only [stepEv] at h
    cases cur with
    | none => cases h
    | some r =>
      cases h
      have ha : (St.mk (done ++ [{ r with finished := true }]) none exec).acts = (St.mk done (some r) exec).acts := by
        simp [St.acts, St.all]
      refine ⟨?_, by rw [ha]; rfl, by rw [ha]; simp [LogEv.startedAct]⟩
      intro i j hij; rw [ha]; exact hi i j hij
  | actStart n =>
    simp only [stepEv] at h
    split at h
    · rename_i hign
      cases h
      exact ⟨hi, rfl, by simp only [LogEv.startedAct, hign, ↓reduceIte, Option.toList, List.append_nil]⟩
    · rename_i hign
      cases cur with
      | none => cases h
      | some r =>
        cases h
        have ha : (St.mk done (some { r with actions := r.actions ++ [⟨n, [], false⟩] }) (some (done.length, r.actions.length))).acts
            = done.map (·.actions) ++ [r.actions ++ [⟨n, [], false⟩]] := by
          simp [St.acts, St.all]
        have hb : (St.mk done (some r) exec).acts = done.map (·.actions) ++ [r.actions] := by
          simp [St.acts, St.all]
        refine ⟨?_, ?_, ?_⟩
        · intro i j hij
          simp only [Option.some.injEq, Prod.mk.injEq] at hij
          obtain ⟨rfl, rfl⟩ := hij
          rw [ha]
          refine ⟨r.actions ++ [⟨n, [], false⟩], ?_, by simp⟩
          have : done.length = (done.map (·.actions)).length := by simp
          rw [this, List.getElem?_append_right (Nat.le_refl _)]
          simp
        · rw [ha, hb]
          simp [cnt, LogEv.llmN, LogEv.isLlm]
        · rw [ha, hb]
          simp only [LogEv.startedAct, hign, Option.toList]
          simp [names]
  | actFin n =>
    simp only [stepEv] at h
    split at h
    · cases h
      exact ⟨hi, rfl, by simp [LogEv.startedAct]⟩
    · cases exec with
      | none => cases h
      | some ij =>
        obtain ⟨i, j⟩ := ij
        cases h
        have hv := hi i j rfl
        have ha : ({ St.modifyExec ⟨done, cur, some (i, j)⟩ i j (fun a => { a with finished := true }) with exec := none } : St).acts
            = modifyNth (nest (fun a => { a with finished := true }) j) (St.mk done cur (some (i, j))).acts i :=
          acts_modifyExec ⟨done, cur, some (i, j)⟩ i j _ hv
        refine ⟨(by intro i' j' hij; cases hij), ?_, ?_⟩
        · rw [ha, cnt_modify_inv _ _ (by intro a; rfl)]; rfl
        · rw [ha, names_modify _ _ (by intro a; rfl)]; simp [LogEv.startedAct]
  | llm t =>
    simp only [stepEv] at h
    cases exec with
    | none => cases h
    | some ij =>
      obtain ⟨i, j⟩ := ij
      cases h
      have hv := hi i j rfl
      have ha := acts_modifyExec ⟨done, cur, some (i, j)⟩ i j (fun a => { a with llm := a.llm ++ [t] }) hv
      have hx : (St.modifyExec ⟨done, cur, some (i, j)⟩ i j (fun a => { a with llm := a.llm ++ [t] })).exec = some (i, j) :=
        (modifyExec_refs _ i j _).2
      refine ⟨?_, ?_, ?_⟩
      · intro i' j' hij
        rw [hx] at hij
        simp only [Option.some.injEq, Prod.mk.injEq] at hij
        obtain ⟨rfl, rfl⟩ := hij
        rw [ha]
        exact valid_modify _ _ _ _ _ _ hv
      · rw [ha, cnt_modify_llm _ _ _ _ hv]; rfl
      · rw [ha, names_modify _ _ (by intro a; rfl)]; simp [LogEv.startedAct]
  | other =>
    simp only [stepEv] at h
    cases h
    exact ⟨hi, rfl, by simp [LogEv.startedAct]⟩

/-! ### the whole loop, from any state that satisfies the invariant -/

theorem filter_isLlm_cons (e : LogEv) (rest : List LogEv) :
    ((e :: rest).filter LogEv.isLlm).length = e.llmN + (rest.filter LogEv.isLlm).length := by
  simp only [List.filter_cons, LogEv.llmN]
  split <;> simp <;> omega

theorem startedActs_cons (K : Consts) (e : LogEv) (rest : List LogEv) :
    startedActs K (e :: rest) = (e.startedAct K).toList ++ startedActs K rest := by
  simp only [startedActs, List.filterMap_cons]
  cases e.startedAct K <;> rfl

theorem run_stats (K : Consts) : ∀ (L : List LogEv) (st st' : St), run K st L = .ok st' → Inv st →
    Inv st' ∧ cnt st'.acts = cnt st.acts + (L.filter LogEv.isLlm).length ∧ names st'.acts = names st.acts ++ startedActs K L
  | [], st, st', h, hi => by
    simp only [run] at h
    cases h
    exact ⟨hi, rfl, by simp [startedActs]⟩
  | e :: rest, st, st', h, hi => by
    simp only [run] at h
    cases hs : stepEv K st e with
    | error err => rw [hs] at h; cases h
    | ok st1 =>
      rw [hs] at h
      obtain ⟨hi1, hc1, hn1⟩ := stepEv_stats K st st1 e hs hi
      obtain ⟨hi2, hc2, hn2⟩ := run_stats K rest st1 st' h hi1
      refine ⟨hi2, ?_, ?_⟩
      · rw [hc2, hc1, filter_isLlm_cons]; omega
      · rw [hn2, hn1, startedActs_cons, List.append_assoc]

/-! ### the finishing passes do not touch the actions -/

theorem closeCur_actions (r : Rail) : (closeCur r).actions = r.actions := by
  unfold closeCur; split <;> rfl

theorem relabel_actions (K : Consts) (r : Rail) : (relabel K r).actions = r.actions := by
  unfold relabel
  split
  · split
    · split
      · split <;> rfl
      · rfl
    · rfl
  · rfl

theorem finishInit_actions : ∀ l : List Rail, (finishInit l).map (·.actions) = l.map (·.actions)
  | [] => rfl
  | [r] => rfl
  | r :: r' :: rs => by
    have ih := finishInit_actions (r' :: rs)
    simp only [finishInit, List.map_cons] at ih ⊢
    rw [ih]
    split <;> rfl

theorem finalize_actions (K : Consts) (st : St) : (finalize K st).rails.map (·.actions) = st.acts := by
  simp only [finalize, List.map_map]
  have : ((fun r : Rail => r.actions) ∘ relabel K) = fun r => r.actions := by
    funext r; exact relabel_actions K r
  rw [this, finishInit_actions]
  simp only [St.acts, St.all, List.map_append]
  cases st.cur with
  | none => rfl
  | some r => simp [closeCur_actions]

/-- What `compute` returns, in terms of the loop's final state. -/
theorem compute_ok (K : Consts) (L : List LogEv) (out : Out) (h : compute K L = .ok out) :
    ∃ st, run K St.init L = .ok st ∧ out = finalize K st := by
  unfold compute at h
  cases L with
  | nil => cases h
  | cons e rest =>
    simp only at h
    cases hr : run K St.init (e :: rest) with
    | error err => rw [hr] at h; cases h
    | ok st => rw [hr] at h; cases h; exact ⟨st, rfl, rfl⟩

/-- action names of the returned rails, rail by rail -/
def executedActions (rs : List Rail) : List String := rs.flatMap fun r => r.actions.map (·.name)

theorem executedActions_eq (rs : List Rail) : executedActions rs = names (rs.map (·.actions)) := by
  simp only [executedActions, names, List.flatMap_def, List.map_map]; rfl

/-- **T1** every `llm_call_info` entry of the processing log is counted exactly once. -/
theorem compute_llmCalls (K : Consts) (L : List LogEv) (out : Out) (h : compute K L = .ok out) :
    out.llmCalls = (L.filter LogEv.isLlm).length := by
  obtain ⟨st, hr, rfl⟩ := compute_ok K L out h
  obtain ⟨_, hc, _⟩ := run_stats K L St.init st hr inv_init
  have : (finalize K st).llmCalls = llmCount (finalize K st).rails := rfl
  rw [this, llmCount_eq_cnt, finalize_actions, hc]
  simp [St.acts, St.all, St.init, cnt]

/-- the `llmCalls` field is the sum over the returned rails' actions (what `stats.llm_calls_count` sums) -/
theorem compute_llmCalls_sum (K : Consts) (L : List LogEv) (out : Out) (h : compute K L = .ok out) :
    out.llmCalls = llmCount out.rails := by
  obtain ⟨st, _, rfl⟩ := compute_ok K L out h
  rfl

/-- **T3** the executed actions of the returned rails are the non-ignored `StartInternalSystemAction` entries, in order. -/
theorem compute_executedActions (K : Consts) (L : List LogEv) (out : Out) (h : compute K L = .ok out) :
    executedActions out.rails = startedActs K L := by
  obtain ⟨st, hr, rfl⟩ := compute_ok K L out h
  obtain ⟨_, _, hn⟩ := run_stats K L St.init st hr inv_init
  rw [executedActions_eq, finalize_actions, hn]
  simp [St.acts, St.all, St.init, names]


/-! ### decisions of the input/output rails -/

/-- the `decisions` lists of the input/output rails, in order -/
def ioDecs : List Rail → List (List String)
  | [] => []
  | r :: rs => if r.type.isIO then r.decisions :: ioDecs rs else ioDecs rs

/-- what the final clean-up does to a still-open input/output rail -/
def closeDec : Option (List String) → List (List String)
  | none => []
  | some d => [d ++ ["stop"]]

/-- What the log says about the decisions of input/output rails, as one pass over the log.  The state is `some d` while
    an input/output rail is open (`d` = its decisions so far), `none` otherwise.  A rail start opens a rail with no
    decisions (closing an open one as it is), a rail-finish entry closes the open one as it is, a `step` entry adds its
    `next_steps` decisions (`decisionsOf`: `execute <action>` for non-ignored actions, bot intents) to the open rail, no other
    entry changes anything; a rail still open at the end of the log gets `"stop"` appended. -/
def decisionsSpec (K : Consts) : Option (List String) → List LogEv → List (List String)
  | s, [] => closeDec s
  | s, e :: rest => match e with
    | .startIn _ => s.toList ++ decisionsSpec K (some []) rest
    | .startOut _ => s.toList ++ decisionsSpec K (some []) rest
    | .railFin => s.toList ++ decisionsSpec K none rest
    | .step _ next => decisionsSpec K (s.map (· ++ decisionsOf K next)) rest
    | _ => decisionsSpec K s rest

/-- the spec state of `activated_rail` -/
def curD : Option Rail → Option (List String)
  | some r => if r.type.isIO then some r.decisions else none
  | none => none

theorem ioDecs_append (a b : List Rail) : ioDecs (a ++ b) = ioDecs a ++ ioDecs b := by
  induction a with
  | nil => rfl
  | cons r rs ih =>
    simp only [List.cons_append, ioDecs]
    split <;> simp [ih]

/-- `f` leaves type and decisions alone -/
def SameDec (f : Rail → Rail) : Prop := ∀ r, (f r).type = r.type ∧ (f r).decisions = r.decisions

theorem ioDecs_modifyNth (f : Rail → Rail) (hf : SameDec f) : ∀ (l : List Rail) (i : Nat), ioDecs (modifyNth f l i) = ioDecs l
  | [], _ => rfl
  | r :: rs, 0 => by
    obtain ⟨h1, h2⟩ := hf r
    simp only [modifyNth, ioDecs, h1, h2]
  | r :: rs, n + 1 => by
    simp only [modifyNth, ioDecs, ioDecs_modifyNth f hf rs n]

theorem sameDec_modifyAct (f : Act → Act) (j : Nat) : SameDec (Rail.modifyAct f j) := by
  intro r; simp [Rail.modifyAct]

theorem curD_map_sameDec (f : Rail → Rail) (hf : SameDec f) (c : Option Rail) : curD (c.map f) = curD c := by
  cases c with
  | none => rfl
  | some r =>
    obtain ⟨h1, h2⟩ := hf r
    simp only [Option.map, curD, h1, h2]

theorem ioDecs_single (r : Rail) : ioDecs [r] = (curD (some r)).toList := by
  simp only [ioDecs, curD]; split <;> rfl

theorem ioDecs_toList (c : Option Rail) : ioDecs c.toList = (curD c).toList := by
  cases c with
  | none => rfl
  | some r => exact ioDecs_single r

theorem ioDecs_closeCur (c : Option Rail) : ioDecs (c.map closeCur).toList = closeDec (curD c) := by
  cases c with
  | none => rfl
  | some r =>
    simp only [Option.map, Option.toList, ioDecs, closeCur, curD]
    cases h : r.type.isIO <;> simp [h, closeDec]

theorem modifyExec_decs (st : St) (i j : Nat) (f : Act → Act) :
    ioDecs (st.modifyExec i j f).done = ioDecs st.done ∧ curD (st.modifyExec i j f).cur = curD st.cur := by
  unfold St.modifyExec
  split
  · exact ⟨ioDecs_modifyNth _ (sameDec_modifyAct f j) _ _, rfl⟩
  · exact ⟨rfl, curD_map_sameDec _ (sameDec_modifyAct f j) _⟩

theorem curD_newRail (K : Consts) (fid : String) (ds : List String) : curD (some ((newRail K fid).addDecisions ds)) = none := by
  simp only [curD, newRail_isIO]; rfl

/-- one iteration of the loop against one step of the spec -/
theorem stepEv_decs (K : Consts) (st st1 : St) (e : LogEv) (rest : List LogEv) (hs : stepEv K st e = .ok st1) :
    ioDecs st.done ++ decisionsSpec K (curD st.cur) (e :: rest) = ioDecs st1.done ++ decisionsSpec K (curD st1.cur) rest := by
  obtain ⟨done, cur, exec⟩ := st
  cases e with
  | step fid next =>
    simp only [stepEv] at hs
    simp only [decisionsSpec]
    cases cur with
    | none =>
      simp only at hs
      split at hs
      · cases hs; rfl
      · cases hs; simp only [curD_newRail]; rfl
    | some r =>
      simp only at hs
      split at hs
      · rename_i hd
        have hdia : r.type = .dialog := by
          simp only [Bool.and_eq_true, beq_iff_eq] at hd; exact hd.1
        have hc : curD (some r) = none := by simp [curD, hdia, RailType.isIO]
        split at hs
        · cases hs; simp only [hc]; rfl
        · cases hs
          have : ioDecs [r] = [] := by rw [ioDecs_single, hc]; rfl
          simp only [hc, curD_newRail, ioDecs_append, this, List.append_nil]; rfl
      · cases hs
        have : curD (some (r.addDecisions (decisionsOf K next))) = (curD (some r)).map (· ++ decisionsOf K next) := by
          simp only [curD, Rail.addDecisions]
          by_cases h : r.type.isIO = true <;> simp [h]
        simp only [this]
  | startIn fid =>
    simp only [stepEv] at hs
    cases hs
    have : curD (some (ioRail .input fid)) = some [] := rfl
    simp only [decisionsSpec, ioDecs_append, ioDecs_toList, this, List.append_assoc]
  | startOut fid =>
    simp only [stepEv] at hs
    cases hs
    have : curD (some (ioRail .output fid)) = some [] := rfl
    simp only [decisionsSpec, ioDecs_append, ioDecs_toList, this, List.append_assoc]
  | railFin =>
    simp only [stepEv] at hs
    cases cur with
    | none => cases hs
    | some r =>
      cases hs
      have h1 : ioDecs [{ r with finished := true }] = (curD (some r)).toList := by
        simp only [ioDecs, curD]; split <;> rfl
      have h2 : curD none = none := rfl
      simp only [decisionsSpec, ioDecs_append, h1, h2, List.append_assoc]
  | actStart n =>
    simp only [stepEv] at hs
    simp only [decisionsSpec]
    split at hs
    · cases hs; rfl
    · cases cur with
      | none => cases hs
      | some r =>
        cases hs
        have : curD (some { r with actions := r.actions ++ [⟨n, [], false⟩] }) = curD (some r) := rfl
        simp only [this]
  | actFin n =>
    simp only [stepEv] at hs
    simp only [decisionsSpec]
    split at hs
    · cases hs; rfl
    · cases exec with
      | none => cases hs
      | some ij =>
        obtain ⟨i, j⟩ := ij
        cases hs
        have := modifyExec_decs ⟨done, cur, some (i, j)⟩ i j (fun a => { a with finished := true })
        simp only [this.1, this.2]
  | llm t =>
    simp only [stepEv] at hs
    simp only [decisionsSpec]
    cases exec with
    | none => cases hs
    | some ij =>
      obtain ⟨i, j⟩ := ij
      cases hs
      have := modifyExec_decs ⟨done, cur, some (i, j)⟩ i j (fun a => { a with llm := a.llm ++ [t] })
      simp only [this.1, this.2]
  | other =>
    simp only [stepEv] at hs
    cases hs
    rfl

/-- The effect of the whole loop on the decisions of the input/output rails, from any state. -/
theorem run_decs (K : Consts) : ∀ (L : List LogEv) (st st' : St), run K st L = .ok st' →
    ioDecs (allRails st') = ioDecs st.done ++ decisionsSpec K (curD st.cur) L
  | [], st, st', h => by
    simp only [run] at h
    cases h
    simp only [allRails, ioDecs_append, ioDecs_closeCur, decisionsSpec]
  | e :: rest, st, st', h => by
    simp only [run] at h
    cases hs : stepEv K st e with
    | error err => rw [hs] at h; cases h
    | ok st1 =>
      rw [hs] at h
      rw [run_decs K rest st1 st' h, stepEv_decs K st st1 e rest hs]

theorem ioDecs_finishInit : ∀ l : List Rail, ioDecs (finishInit l) = ioDecs l
  | [] => rfl
  | [r] => rfl
  | r :: r' :: rs => by
    have ih := ioDecs_finishInit (r' :: rs)
    cases h : r.type.isIO <;> simp [finishInit, ioDecs, h, ih]

theorem relabel_of_io (K : Consts) (r : Rail) (hne : r.name ≠ K.relabelName) : relabel K r = r := by
  unfold relabel
  have : (r.name == K.relabelName) = false := by simpa using hne
  simp [this]

theorem relabel_not_io (K : Consts) (r : Rail) (hio : r.type.isIO = false) : (relabel K r).type.isIO = false := by
  unfold relabel
  split
  · split
    · split
      · split
        · rfl
        · exact hio
      · exact hio
    · exact hio
  · exact hio

theorem ioDecs_map_relabel (K : Consts) : ∀ l : List Rail, (∀ k ∈ ioKeys l, k.name ≠ K.relabelName) →
    ioDecs (l.map (relabel K)) = ioDecs l
  | [], _ => rfl
  | r :: rs, h => by
    simp only [List.map, ioDecs]
    cases hio : r.type.isIO
    · have ih := ioDecs_map_relabel K rs (by intro k hk; apply h; simp [ioKeys, hio, hk])
      simp [relabel_not_io K r hio, ih]
    · have hne : r.name ≠ K.relabelName := by apply h ⟨r.type, r.name, r.stop⟩; simp [ioKeys, hio]
      have ih := ioDecs_map_relabel K rs (by intro k hk; apply h; simp [ioKeys, hio, hk])
      simp [relabel_of_io K r hne, hio, ih]

/-- **T4 (log level)** the decisions of the returned input/output rails are what the log says (`decisionsSpec`). -/
theorem compute_ioDecs (K : Consts) (L : List LogEv) (out : Out) (h : compute K L = .ok out)
    (hn : ∀ k ∈ stopSpec L, k.name ≠ K.relabelName) : ioDecs out.rails = decisionsSpec K none L := by
  obtain ⟨st, hr, rfl⟩ := compute_ok K L out h
  have hk := run_keys K L St.init st hr
  simp only [St.init, ioKeys, curKey, List.nil_append] at hk
  have hd := run_decs K L St.init st hr
  simp only [St.init, ioDecs, curD, List.nil_append] at hd
  show ioDecs ((finishInit (allRails st)).map (relabel K)) = _
  rw [ioDecs_map_relabel K _ (by rw [ioKeys_finishInit, hk]; exact hn), ioDecs_finishInit, hd]


/-! ### executed actions of the input/output rails, rail by rail -/

/-- the executed-action names of the input/output rails, in order -/
def ioActs : List Rail → List (List String)
  | [] => []
  | r :: rs => if r.type.isIO then r.actions.map (·.name) :: ioActs rs else ioActs rs

/-- What the log says about the executed actions of input/output rails, as one pass over the log (state `some a` while an
    input/output rail is open, `a` = its action names so far): a non-ignored `StartInternalSystemAction` entry adds its
    action to the open rail; rail start / finish entries open / close as in `decisionsSpec`; nothing else matters. -/
def actionsSpec (K : Consts) : Option (List String) → List LogEv → List (List String)
  | s, [] => s.toList
  | s, e :: rest => match e with
    | .startIn _ => s.toList ++ actionsSpec K (some []) rest
    | .startOut _ => s.toList ++ actionsSpec K (some []) rest
    | .railFin => s.toList ++ actionsSpec K none rest
    | .actStart n => actionsSpec K (s.map (· ++ (LogEv.startedAct K (.actStart n)).toList)) rest
    | _ => actionsSpec K s rest

def curA : Option Rail → Option (List String)
  | some r => if r.type.isIO then some (r.actions.map (·.name)) else none
  | none => none

theorem ioActs_append (a b : List Rail) : ioActs (a ++ b) = ioActs a ++ ioActs b := by
  induction a with
  | nil => rfl
  | cons r rs ih =>
    simp only [List.cons_append, ioActs]
    split <;> simp [ih]

/-- `f` leaves type and action names alone -/
def SameActs (f : Rail → Rail) : Prop := ∀ r, (f r).type = r.type ∧ (f r).actions.map (·.name) = r.actions.map (·.name)

theorem ioActs_modifyNth (f : Rail → Rail) (hf : SameActs f) : ∀ (l : List Rail) (i : Nat), ioActs (modifyNth f l i) = ioActs l
  | [], _ => rfl
  | r :: rs, 0 => by
    obtain ⟨h1, h2⟩ := hf r
    simp only [modifyNth, ioActs, h1, h2]
  | r :: rs, n + 1 => by
    simp only [modifyNth, ioActs, ioActs_modifyNth f hf rs n]

theorem sameActs_modifyAct (f : Act → Act) (hf : ∀ a, (f a).name = a.name) (j : Nat) : SameActs (Rail.modifyAct f j) := by
  intro r
  exact ⟨rfl, modifyNth_map_inv f (·.name) hf r.actions j⟩

theorem curA_map_sameActs (f : Rail → Rail) (hf : SameActs f) (c : Option Rail) : curA (c.map f) = curA c := by
  cases c with
  | none => rfl
  | some r =>
    obtain ⟨h1, h2⟩ := hf r
    simp only [Option.map, curA, h1, h2]

theorem ioActs_single (r : Rail) : ioActs [r] = (curA (some r)).toList := by
  simp only [ioActs, curA]; split <;> rfl

theorem ioActs_toList (c : Option Rail) : ioActs c.toList = (curA c).toList := by
  cases c with
  | none => rfl
  | some r => exact ioActs_single r

theorem ioActs_closeCur (c : Option Rail) : ioActs (c.map closeCur).toList = (curA c).toList := by
  cases c with
  | none => rfl
  | some r =>
    simp only [Option.map, Option.toList, ioActs, closeCur, curA]
    cases h : r.type.isIO <;> simp [h]

theorem modifyExec_acts (st : St) (i j : Nat) (f : Act → Act) (hf : ∀ a, (f a).name = a.name) :
    ioActs (st.modifyExec i j f).done = ioActs st.done ∧ curA (st.modifyExec i j f).cur = curA st.cur := by
  unfold St.modifyExec
  split
  · exact ⟨ioActs_modifyNth _ (sameActs_modifyAct f hf j) _ _, rfl⟩
  · exact ⟨rfl, curA_map_sameActs _ (sameActs_modifyAct f hf j) _⟩

theorem curA_newRail (K : Consts) (fid : String) (ds : List String) : curA (some ((newRail K fid).addDecisions ds)) = none := by
  simp only [curA, newRail_isIO]; rfl

theorem stepEv_ioActs (K : Consts) (st st1 : St) (e : LogEv) (rest : List LogEv) (hs : stepEv K st e = .ok st1) :
    ioActs st.done ++ actionsSpec K (curA st.cur) (e :: rest) = ioActs st1.done ++ actionsSpec K (curA st1.cur) rest := by
  obtain ⟨done, cur, exec⟩ := st
  cases e with
  | step fid next =>
    simp only [stepEv] at hs
    simp only [actionsSpec]
    cases cur with
    | none =>
      simp only at hs
      split at hs
      · cases hs; rfl
      · cases hs; simp only [curA_newRail]; rfl
    | some r =>
      simp only at hs
      split at hs
      · rename_i hd
        have hdia : r.type = .dialog := by
          simp only [Bool.and_eq_true, beq_iff_eq] at hd; exact hd.1
        have hc : curA (some r) = none := by simp [curA, hdia, RailType.isIO]
        split at hs
        · cases hs; rfl
        · cases hs
          have : ioActs [r] = [] := by rw [ioActs_single, hc]; rfl
          simp only [hc, curA_newRail, ioActs_append, this, List.append_nil]
      · cases hs
        have : curA (some (r.addDecisions (decisionsOf K next))) = curA (some r) := rfl
        simp only [this]
  | startIn fid =>
    simp only [stepEv] at hs
    cases hs
    have : curA (some (ioRail .input fid)) = some [] := rfl
    simp only [actionsSpec, ioActs_append, ioActs_toList, this, List.append_assoc]
  | startOut fid =>
    simp only [stepEv] at hs
    cases hs
    have : curA (some (ioRail .output fid)) = some [] := rfl
    simp only [actionsSpec, ioActs_append, ioActs_toList, this, List.append_assoc]
  | railFin =>
    simp only [stepEv] at hs
    cases cur with
    | none => cases hs
    | some r =>
      cases hs
      have h1 : ioActs [{ r with finished := true }] = (curA (some r)).toList := by
        simp only [ioActs, curA]; split <;> rfl
      have h2 : curA none = none := rfl
      simp only [actionsSpec, ioActs_append, h1, h2, List.append_assoc]
  | actStart n =>
    simp only [stepEv] at hs
    simp only [actionsSpec, LogEv.startedAct]
    split at hs
    · rename_i hign
      cases hs
      simp only [hign, ↓reduceIte, Option.toList, List.append_nil]
      cases curA cur <;> rfl
    · rename_i hign
      cases cur with
      | none => cases hs
      | some r =>
        cases hs
        have : curA (some { r with actions := r.actions ++ [⟨n, [], false⟩] }) = (curA (some r)).map (· ++ [n]) := by
          simp only [curA]
          by_cases h : r.type.isIO = true <;> simp [h]
        simp only [this, hign, Option.toList, Bool.false_eq_true, ↓reduceIte]
  | actFin n =>
    simp only [stepEv] at hs
    simp only [actionsSpec]
    split at hs
    · cases hs; rfl
    · cases exec with
      | none => cases hs
      | some ij =>
        obtain ⟨i, j⟩ := ij
        cases hs
        have := modifyExec_acts ⟨done, cur, some (i, j)⟩ i j (fun a => { a with finished := true }) (fun _ => rfl)
        simp only [this.1, this.2]
  | llm t =>
    simp only [stepEv] at hs
    simp only [actionsSpec]
    cases exec with
    | none => cases hs
    | some ij =>
      obtain ⟨i, j⟩ := ij
      cases hs
      have := modifyExec_acts ⟨done, cur, some (i, j)⟩ i j (fun a => { a with llm := a.llm ++ [t] }) (fun _ => rfl)
      simp only [this.1, this.2]
  | other =>
    simp only [stepEv] at hs
    cases hs
    rfl

theorem run_ioActs (K : Consts) : ∀ (L : List LogEv) (st st' : St), run K st L = .ok st' →
    ioActs (allRails st') = ioActs st.done ++ actionsSpec K (curA st.cur) L
  | [], st, st', h => by
    simp only [run] at h
    cases h
    simp only [allRails, ioActs_append, ioActs_closeCur, actionsSpec]
  | e :: rest, st, st', h => by
    simp only [run] at h
    cases hs : stepEv K st e with
    | error err => rw [hs] at h; cases h
    | ok st1 =>
      rw [hs] at h
      rw [run_ioActs K rest st1 st' h, stepEv_ioActs K st st1 e rest hs]

theorem ioActs_finishInit : ∀ l : List Rail, ioActs (finishInit l) = ioActs l
  | [] => rfl
  | [r] => rfl
  | r :: r' :: rs => by
    have ih := ioActs_finishInit (r' :: rs)
    cases h : r.type.isIO <;> simp [finishInit, ioActs, h, ih]

theorem ioActs_map_relabel (K : Consts) : ∀ l : List Rail, (∀ k ∈ ioKeys l, k.name ≠ K.relabelName) →
    ioActs (l.map (relabel K)) = ioActs l
  | [], _ => rfl
  | r :: rs, h => by
    simp only [List.map, ioActs]
    cases hio : r.type.isIO
    · have ih := ioActs_map_relabel K rs (by intro k hk; apply h; simp [ioKeys, hio, hk])
      simp [relabel_not_io K r hio, ih]
    · have hne : r.name ≠ K.relabelName := by apply h ⟨r.type, r.name, r.stop⟩; simp [ioKeys, hio]
      have ih := ioActs_map_relabel K rs (by intro k hk; apply h; simp [ioKeys, hio, hk])
      simp [relabel_of_io K r hne, hio, ih]

/-- the executed actions of the returned input/output rails, rail by rail, are what the log says (`actionsSpec`) -/
theorem compute_ioActs (K : Consts) (L : List LogEv) (out : Out) (h : compute K L = .ok out)
    (hn : ∀ k ∈ stopSpec L, k.name ≠ K.relabelName) : ioActs out.rails = actionsSpec K none L := by
  obtain ⟨st, hr, rfl⟩ := compute_ok K L out h
  have hk := run_keys K L St.init st hr
  simp only [St.init, ioKeys, curKey, List.nil_append] at hk
  have hd := run_ioActs K L St.init st hr
  simp only [St.init, ioActs, curA, List.nil_append] at hd
  show ioActs ((finishInit (allRails st)).map (relabel K)) = _
  rw [ioActs_map_relabel K _ (by rw [ioKeys_finishInit, hk]; exact hn), ioActs_finishInit, hd]

end NemoVerif.GenLog
