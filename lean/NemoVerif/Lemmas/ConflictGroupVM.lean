/-
  C05 on CoreVM, grouping part: `resolveActionConflicts` on two or more heads is the grouping loop (`groupHeads`, proved to be its
  first phase) followed by the per-group loop; the grouping loop leaves the state alone and puts every input head into the group
  of its own interaction loop — heads of different loops never share a group.
-/
import NemoVerif.Lemmas.ConflictPhaseVM
namespace NemoVerif.CoreVM
open NemoVerif NemoVerif.CoreIndex

/-- the grouping loop of `resolveActionConflicts` (verbatim): `head_groups`, keyed by `flow_state.loop_id`, insertion ordered -/
def groupHeads (actionable : List Key) : M (List (String × List Key)) := do
  let mut groups : List (String × List Key) := []
  for k in actionable do
    let l ← match (← getInstX k.1).loopId with
      | some l => pure l
      | none => pyRaise "AssertionError" "loop_id"
    groups := match OMap.lookup l groups with
      | some _ => OMap.modify l (· ++ [k]) groups
      | none => groups ++ [(l, [k])]
  return groups

/-- `resolveActionConflicts` on two or more heads = the grouping loop followed by the per-group loop -/
theorem resolveActionConflicts_groups (fuel : Nat) (a b : Key) (t : List Key) :
    ∃ rest : List (String × List Key) → M (List Key),
      resolveActionConflicts fuel (a :: b :: t) = groupHeads (a :: b :: t) >>= rest := by
  refine ⟨?_, ?_⟩
  rotate_left
  · unfold resolveActionConflicts groupHeads
    simp only [bind_assoc, pure_bind]
    rfl

/-- loop invariant with the processed prefix (loops without `break`) -/
theorem forIn_inv3 {α β : Type} (I : List α → β → VM → Prop) (body : α → β → M (ForInStep β))
    (hb : ∀ a done b s, I done b s → ∀ r s', body a b s = .ok r s' → ∃ b', r = .yield b' ∧ I (done ++ [a]) b' s') :
    ∀ (xs done : List α) (init : β) (s : VM), I done init s →
    ∀ r s', (forIn xs init body : M β) s = .ok r s' → I (done ++ xs) r s'
  | [], done, init, s, h0, r, s', h => by
    simp only [List.forIn_nil, pure, EStateM.pure] at h
    cases h; simpa using h0
  | a :: as, done, init, s, h0, r, s', h => by
    simp only [List.forIn_cons] at h
    obtain ⟨st, s1, h1, h2⟩ := bind_ok h
    obtain ⟨b', e, hI⟩ := hb a done init s h0 st s1 h1
    subst e
    have := forIn_inv3 I body hb as (done ++ [a]) b' s1 hI r s' h2
    simpa using this

theorem getInstX_ok {f : FUid} {s s' : VM} {x : InstX} (h : getInstX f s = .ok x s') :
    s' = s ∧ OMap.lookup f s.r.fx = some x := by
  simp only [getInstX, getInstX?, getRest, bind, EStateM.bind, get, getThe, MonadStateOf.get, EStateM.get, pure, EStateM.pure] at h
  cases hl : OMap.lookup f s.r.fx with
  | none => rw [hl] at h; cases h
  | some y => rw [hl] at h; cases h; exact ⟨rfl, rfl⟩

theorem mem_modify_of_mem {k : Key} {l : String} : ∀ (groups : List (String × List Key)) (e : String × List Key),
    e ∈ groups → ∃ e' ∈ OMap.modify l (fun x => x ++ [k]) groups, e'.1 = e.1 ∧ (∀ z ∈ e.2, z ∈ e'.2) ∧ (e.1 = l → k ∈ e'.2)
  | [], e, h => by cases h
  | (l', g) :: rest, e, h => by
    unfold OMap.modify
    rcases List.mem_cons.1 h with rfl | h
    · split
      · rename_i hl
        exact ⟨(l', g ++ [k]), List.mem_cons_self, rfl, fun z hz => List.mem_append_left _ hz, fun _ => by simp⟩
      · rename_i hl
        exact ⟨(l', g), List.mem_cons_self, rfl, fun z hz => hz, fun e => absurd e hl⟩
    · obtain ⟨e', he', h1, h2, h3⟩ := mem_modify_of_mem rest e h
      split <;> exact ⟨e', List.mem_cons_of_mem _ he', h1, h2, h3⟩

theorem mem_of_lookup_some {l : String} : ∀ (groups : List (String × List Key)) (g : List Key),
    OMap.lookup l groups = some g → (l, g) ∈ groups
  | [], g, h => by cases h
  | (l', g') :: rest, g, h => by
    unfold OMap.lookup at h
    split at h
    · rename_i e; cases h; have e' : l' = l := e; subst e'; exact List.mem_cons_self
    · exact List.mem_cons_of_mem _ (mem_of_lookup_some rest g h)

/-- what the grouping loop establishes -/
structure GroupsOK (actionable : List Key) (s : VM) (groups : List (String × List Key)) : Prop where
  /-- a group only holds input heads, all of the interaction loop it is keyed by -/
  sound : ∀ lg ∈ groups, ∀ k ∈ lg.2, k ∈ actionable ∧ ∃ x, OMap.lookup k.1 s.r.fx = some x ∧ x.loopId = some lg.1
  /-- every input head is in a group -/
  complete : ∀ k ∈ actionable, ∃ lg ∈ groups, k ∈ lg.2

/-- **The grouping loop**: it does not change the state; every group holds input heads of ONE interaction loop (its key) — heads
    of different loops are never in one group — and every input head is in a group. -/
theorem groupHeads_spec (actionable : List Key) (s s' : VM) (groups : List (String × List Key))
    (h : groupHeads actionable s = .ok groups s') : s' = s ∧ GroupsOK actionable s groups := by
  unfold groupHeads at h
  simp only [bind_assoc, pure_bind] at h
  obtain ⟨acc, s1, h1, h2⟩ := bind_ok h
  obtain ⟨e1, e2⟩ := pure_ok h2
  let I : List Key → List (String × List Key) → VM → Prop := fun done groups st => st = s ∧
      (∀ lg ∈ groups, ∀ k ∈ lg.2, k ∈ done ∧ ∃ x, OMap.lookup k.1 s.r.fx = some x ∧ x.loopId = some lg.1) ∧
      (∀ k ∈ done, ∃ lg ∈ groups, k ∈ lg.2)
  have h0 : I [] [] s := ⟨rfl, fun _ h => (by cases h), fun _ h => (by cases h)⟩
  have hfin := forIn_inv3 I _ ?_ actionable [] [] s h0 acc s1 h1
  · simp only [List.nil_append] at hfin
    obtain ⟨hs, hsound, hcomp⟩ := hfin
    rw [e1, e2]
    exact ⟨hs, ⟨hsound, hcomp⟩⟩
  · intro a done b st hI r sb hr
    obtain ⟨hst, hsound, hcomp⟩ := hI
    rw [hst] at hr
    obtain ⟨x, s2, g1, g2⟩ := bind_ok hr
    obtain ⟨es2, hx⟩ := getInstX_ok g1
    rw [es2] at g2
    cases hl : x.loopId with
    | none => rw [hl] at g2; simp only [pyRaise_bind] at g2; cases g2
    | some l =>
      rw [hl] at g2
      obtain ⟨er, es⟩ := pure_ok g2
      refine ⟨_, er, es, ?_, ?_⟩
      · intro lg hlg k hk
        have hnew : a ∈ done ++ [a] ∧ ∃ x, OMap.lookup a.1 s.r.fx = some x ∧ x.loopId = some l :=
          ⟨by simp, x, hx, hl⟩
        have hold : ∀ e0 ∈ b, ∀ k ∈ e0.2, k ∈ done ++ [a] ∧ ∃ x, OMap.lookup k.1 s.r.fx = some x ∧ x.loopId = some e0.1 :=
          fun e0 he0 k hk => ⟨List.mem_append_left _ (hsound e0 he0 k hk).1, (hsound e0 he0 k hk).2⟩
        split at hlg
        · rename_i g0 hlk
          -- the key of an entry is kept by `modify`; the appended head belongs to loop `l`
          have hkey : ∀ (groups : List (String × List Key)) (e : String × List Key),
              e ∈ OMap.modify l (fun x => x ++ [a]) groups → ∃ e0 ∈ groups, e.1 = e0.1 ∧ (e.2 = e0.2 ∨ (e.2 = e0.2 ++ [a] ∧ e0.1 = l)) := by
            intro groups
            induction groups with
            | nil => intro e h; cases h
            | cons p rest ih =>
              intro e h
              unfold OMap.modify at h
              split at h
              · rename_i hp
                rcases List.mem_cons.1 h with h | h
                · exact ⟨p, List.mem_cons_self, by rw [h], Or.inr ⟨by rw [h], hp⟩⟩
                · obtain ⟨e0, he0, hh⟩ := ih e h
                  exact ⟨e0, List.mem_cons_of_mem _ he0, hh⟩
              · rcases List.mem_cons.1 h with h | h
                · exact ⟨p, List.mem_cons_self, by rw [h], Or.inl (by rw [h])⟩
                · obtain ⟨e0, he0, hh⟩ := ih e h
                  exact ⟨e0, List.mem_cons_of_mem _ he0, hh⟩
          obtain ⟨e0, he0, hk1, hk2⟩ := hkey b lg hlg
          rcases hk2 with hk2 | ⟨hk2, hk3⟩
          · rw [hk2] at hk; rw [hk1]; exact hold e0 he0 k hk
          · rw [hk2] at hk
            rcases List.mem_append.1 hk with hk | hk
            · rw [hk1]; exact hold e0 he0 k hk
            · rw [List.mem_singleton.1 hk, hk1, hk3]; exact hnew
        · rcases List.mem_append.1 hlg with hlg | hlg
          · exact hold lg hlg k hk
          · rw [List.mem_singleton.1 hlg] at hk ⊢
            rw [List.mem_singleton.1 hk]; exact hnew
      · intro k hk
        rcases List.mem_append.1 hk with hk | hk
        · obtain ⟨lg, hlg, hkl⟩ := hcomp k hk
          split
          · obtain ⟨e', he', _, h2, _⟩ := mem_modify_of_mem (k := a) (l := l) b lg hlg
            exact ⟨e', he', h2 k hkl⟩
          · exact ⟨lg, List.mem_append_left _ hlg, hkl⟩
        · rw [List.mem_singleton.1 hk]
          split
          · rename_i g0 hlk
            obtain ⟨e', he', _, _, h3⟩ := mem_modify_of_mem (k := a) (l := l) b (l, g0) (mem_of_lookup_some b g0 hlk)
            exact ⟨e', he', h3 rfl⟩
          · exact ⟨(l, [a]), by simp, by simp⟩
end NemoVerif.CoreVM
